#!/bin/sh
# Offline build of the verification framework (MANIFEST.setup_cmd). Everything comes from files on disk.
set -e
cd "$(dirname "$0")"
export GOFLAGS=-mod=mod GOPROXY=off GOSUMDB=off GOTOOLCHAIN=local
mkdir -p .work evidence replays
export GOCACHE="${GOCACHE:-$PWD/.work/gocache}"
(cd translate && go build -o ../.work/translate.bin . && ../.work/translate.bin -repo "${VERIF_REPO:-/repo}" -spec targets.json -out ../lean)
if [ -d translate/facts ]; then (cd translate && go build -o ../.work/facts.bin ./facts && ../.work/facts.bin -repo "${VERIF_REPO:-/repo}" -out ../lean); fi
(cd lean && lake build Wz oracle)
(cd harness && go build -tags verif ./...)
echo setup-ok
