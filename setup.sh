#!/bin/sh
# Offline build of the verification framework (MANIFEST.setup_cmd). Everything comes from files on disk.
set -e
cd "$(dirname "$0")"
export GOFLAGS=-mod=mod GOPROXY=off GOSUMDB=off GOTOOLCHAIN=local
mkdir -p .work evidence replays
(cd translate && go build -o ../.work/translate.bin . && ../.work/translate.bin -repo "${VERIF_REPO:-/repo}" -spec targets -out ../lean)
if [ -d translate/facts ]; then for d in translate/facts/*/; do n=$(basename "$d"); (cd translate && go build -o ../.work/facts-$n.bin ./facts/$n && ../.work/facts-$n.bin -repo "${VERIF_REPO:-/repo}" -out ../lean); done; fi
(cd lean && lake build Wz oracle)
(cd harness && go build -tags verif ./...)
echo setup-ok
