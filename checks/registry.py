"""Per-property configuration of ./check: one JSON file per property under checks/props/.

Keys: level, level_text, level_note, technique, theorems (names that must exist and be axiom-clean),
harness [{cmd, args?, timeout?{quick,thorough}}], trusted [...], assumptions [...].
NOT_APPLICABLE: property id -> reason, for properties that are not claimed."""
import glob, json, os

_here = os.path.dirname(os.path.abspath(__file__))
REGISTRY = {}
for _p in sorted(glob.glob(os.path.join(_here, "props", "C*.json"))):
    REGISTRY[os.path.basename(_p)[:-5]] = json.load(open(_p))

NOT_APPLICABLE = {}
_na = os.path.join(_here, "not_applicable.json")
if os.path.exists(_na):
    NOT_APPLICABLE = json.load(open(_na))

HOOK_COMMITS = []
_hc = os.path.join(_here, "hook_commits.json")
if os.path.exists(_hc):
    HOOK_COMMITS = json.load(open(_hc))
