"""Per-property configuration of ./check: required theorems, harness commands, trusted base."""

REGISTRY = {
    "C14": {
        "level": "proof",
        "level_text": "Full-strength theorems about the regenerated decision logic of MemoryInstance (Grow guard for every 32-bit delta, hasSize, page/byte conversions, the decoder's sizer and Validate) and an invariant over all grow histories; engine views proved for the repaired variant and shown to fail at 65536 pages for the as-is variant (witness theorem = findings F13/F14). Tie: definitions regenerated from /repo on every run plus an exhaustive-on-boundaries differential run of both engines and the host API against the Lean oracle.",
        "level_note": "Trusted: Lean kernel + propext/Classical.choice/Quot.sound; the go/ast translator; the harness. Modelled not verified: buffer reallocation effects of Grow, machine code that caches the memory length (covered only by the differential run).",
        "technique": "Lean 4 proof over BitVec models regenerated from the Go source; differential correspondence on boundary grids",
        "theorems": [
            "Wz.C14.hasSize_iff", "Wz.C14.grow_iff", "Wz.C14.grow_no_panic", "Wz.C14.decode_bounds",
            "Wz.C14.decode_max_exact", "Wz.C14.grow_inv", "Wz.C14.growAll_inv", "Wz.C14.newMem_inv",
            "Wz.C14.grow_preserves_bytes", "Wz.C14.beyond_len_zero", "Wz.C14.readByte_ok_iff",
            "Wz.C14.views_agree_w64", "Wz.C14.views_agree_partial", "Wz.C14.view_4gib_witness",
        ],
        "harness": [{"cmd": "hc14", "timeout": {"quick": 600, "thorough": 1800}}],
        "trusted": ["modelled, not verified: the effectful statements of MemoryInstance.Grow (buffer reallocation), "
                    "the engines' machine-level use of the cached memory length"],
        "assumptions": ["allocator contract: a shared memory is never moved by Reallocate",
                        "Go slices/append behave as the language specification says"],
    },
}

NOT_APPLICABLE = {}
HOOK_COMMITS = []
