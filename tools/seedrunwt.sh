#!/bin/sh
# usage: tools/seedrunwt.sh <worktree with the seeded change applied> <Cnn> [tier]  — runs the check against the worktree
# (VERIF_REPO), never touching /repo
set -u
W=$1; C=$2; T=${3:-quick}
cd /verif
VERIF_REPO="$W" ./check "$C" --tier "$T" > /work/seedrun.out 2>&1; rc=$?
grep -v "^KNOWN-FINDING" /work/seedrun.out | tail -8
echo "check rc=$rc"
