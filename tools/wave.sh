#!/bin/sh
# usage: tools/wave.sh <wave> <Cnn> [<Cnn> ...]  — confirms each seeded change of the wave (demonstration with/without) and
# runs the property's quick check against its worktree; one line of verdict per seed in /work/wave<wave>.txt
W=$1; shift
for s in "$@"; do
  d=/work/seed-$s-$W
  [ -f $d/seeded_demo/patch.diff ] || { echo "=== $s: no patch yet"; continue; }
  echo "=== $s"
  /verif/tools/seedconfirm.sh $d 2>&1 | tail -3
  VERIF_REPO=$d /verif/check $s > /work/seedrun-$s-$W.out 2>&1; rc=$?
  grep -v "^KNOWN-FINDING" /work/seedrun-$s-$W.out | tail -4 | cut -c1-330
  echo "check rc=$rc"
done
