#!/usr/bin/env python3
"""Writes the prompt given to a fresh seeding sub-agent: the text of ONE property, the scratch worktree, and the
places/mechanisms earlier seeds already used (so that waves differ).  Nothing about /verif's checks is included.
usage: mkseedprompt.py <wave> [Cnn ...]  -> /work/seed<wave>_prompt_Cnn.txt"""
import json, re, sys, glob, os
wave = sys.argv[1]
props = {}
for l in open('/verif/properties.jsonl'):
    d = json.loads(l); props[d['id']] = d
ids = sys.argv[2:] or sorted(props)
TEMPLATE = open('/verif/tools/seed_prompt_template.txt').read()
for pid in ids:
    p = props[pid]
    earlier = []
    for sd in sorted(glob.glob(f'/verif/seeded/{pid}-*')):
        try:
            meta = json.load(open(sd + '/meta.json'))
        except Exception:
            continue
        files = {}
        cur = None
        for line in open(sd + '/patch.diff', errors='replace'):
            if line.startswith('+++ b/'):
                cur = line[6:].strip(); files.setdefault(cur, [])
            m = re.match(r'@@ [^@]*@@ (.*)', line)
            if m and cur and m.group(1).strip() not in files[cur]:
                files[cur].append(m.group(1).strip())
        where = '; '.join(f"{f} ({'; '.join(fs)[:160]})" if fs else f for f, fs in files.items())
        earlier.append(f"  - {where}: needed: {meta.get('needs','')}")
    w = f'/work/seed-{pid}-{wave}'
    txt = TEMPLATE.replace('@W@', w).replace('@ID@', pid).replace('@TITLE@', p['title']).replace('@STATEMENT@', p['statement']) \
        .replace('@QUANT@', p['quantifier']['text']).replace('@WHY@', p['why_tests_cant']).replace('@EARLIER@', '\n'.join(earlier))
    open(f'/work/seed{wave}_prompt_{pid}.txt', 'w').write(txt)
    print(pid, len(earlier))
