#!/bin/sh
# usage: seedconfirm.sh <worktree>  — runs the demonstration with and without the change (no git stash: it is shared between worktrees)
W=$1
export GOFLAGS=-mod=mod GOPROXY=off GOSUMDB=off GOTOOLCHAIN=local
cd $W || exit 3
(cd seeded_demo && timeout 900 go run . >/work/s_with_$(basename $W).txt 2>&1; echo "with: rc=$?")
git apply -R seeded_demo/patch.diff || { echo "cannot revert"; exit 3; }
(cd seeded_demo && timeout 900 go run . >/work/s_without_$(basename $W).txt 2>&1; echo "without: rc=$? $(tail -1 /work/s_without_$(basename $W).txt | cut -c1-100)")
git apply seeded_demo/patch.diff
go build ./... && echo build-ok
