#!/bin/sh
# usage: tools/seedrun.sh <patch.diff> <Cnn> [tier]   — applies a seeded change to /repo, runs the check, undoes it
set -u
P=$1; C=$2; T=${3:-quick}
cd /verif
git -C /repo apply "$P" || { echo "patch does not apply"; exit 3; }
./check "$C" --tier "$T" > /work/seedrun.out 2>&1; rc=$?
git -C /repo checkout -- . ; git -C /repo status --short | grep -v '^??' | head -3
grep -v "^KNOWN-FINDING" /work/seedrun.out | tail -8
echo "check rc=$rc"
