#!/usr/bin/env python3
"""Regenerates the generated parts of DESIGN.md (findings table, per-property obligation table, seeded-change table)
from known_findings.jsonl, checks/props/*.json and seeded/*/meta.json.  The prose lives in tools/design_prose.md."""
import glob, json, os, re
ROOT = os.path.dirname(os.path.dirname(os.path.abspath(__file__)))
prose = open(os.path.join(ROOT, "tools", "design_prose.md")).read()

props = {json.loads(l)["id"]: json.loads(l) for l in open(os.path.join(ROOT, "properties.jsonl"))}

# findings table
rows = [json.loads(l) for l in open(os.path.join(ROOT, "known_findings.jsonl")) if l.strip()]
ft = ["| prop | id | status | commit | what fails |", "|---|---|---|---|---|"]
for d in sorted(rows, key=lambda d: (d["property"], d["id"])):
    what = d["what"].replace("|", "\\|")
    if len(what) > 330:
        what = what[:327] + "…"
    ft.append(f"| {d['property']} | {d['id']} | {d['status']} | {d.get('commit','–')} | {what} |")
prose = prose.replace("<<FINDINGS_TABLE>>", "\n".join(ft))

# obligations table
ot = ["| prop | level | theorems (audited on every run) | harness | technique |", "|---|---|---|---|---|"]
for f in sorted(glob.glob(os.path.join(ROOT, "checks", "props", "C*.json"))):
    pid = os.path.basename(f)[:-5]
    c = json.load(open(f))
    src = open(os.path.join(ROOT, "lean", "Wz", "Props", pid + ".lean")).read()
    n = len(re.findall(r"^\s*(?:protected\s+)?theorem\s", src, re.M))
    ot.append(f"| {pid} | {c.get('level','proof')} | {n} | {', '.join(h['cmd'] for h in c.get('harness',[]))} | {c.get('technique','')} |")
prose = prose.replace("<<OBLIGATIONS_TABLE>>", "\n".join(ot))

# seeded table
st = ["| id | property | what it needs to manifest | caught by | verdict line |", "|---|---|---|---|---|"]
for f in sorted(glob.glob(os.path.join(ROOT, "seeded", "*", "meta.json"))):
    m = json.load(open(f))
    st.append(f"| {os.path.basename(os.path.dirname(f))} | {m.get('property')} | {m.get('needs','').replace('|','/')} | {m.get('caught_by','').replace('|','/')} | {m.get('verdict','').replace('|','/')} |")
if len(st) == 2:
    st.append("| (none kept yet) | | | | |")
prose = prose.replace("<<SEEDED_TABLE>>", "\n".join(st))
open(os.path.join(ROOT, "DESIGN.md"), "w").write(prose)
print("DESIGN.md written,", len(prose.split("\n")), "lines")
