#!/usr/bin/env python3
"""usage: seedkeep.py <id> <Cnn> <worktree> <needs> <caught_by> <verdict> [<ran>]  — stores a confirmed seeded change"""
import json, os, shutil, subprocess, sys
sid, prop, wt, needs, caught, verdict = sys.argv[1:7]
ran = sys.argv[7] if len(sys.argv) > 7 else ""
dst = os.path.join("/verif/seeded", sid)
os.makedirs(dst, exist_ok=True)
demo = os.path.join(wt, "seeded_demo")
for f in os.listdir(demo):
    src = os.path.join(demo, f)
    if os.path.isdir(src):
        shutil.copytree(src, os.path.join(dst, f), dirs_exist_ok=True)
    elif os.path.getsize(src) < 2_000_000:
        shutil.copy(src, os.path.join(dst, f))
# demo files that live next to the code (extra _test.go files) are part of the untracked set
out = subprocess.check_output(["git", "-C", wt, "status", "--short"]).decode()
extra = [l[3:] for l in out.splitlines() if l.startswith("??") and not l[3:].startswith("seeded_demo")]
for e in extra:
    p = os.path.join(wt, e)
    if os.path.isfile(p):
        os.makedirs(os.path.join(dst, "extra", os.path.dirname(e)), exist_ok=True)
        shutil.copy(p, os.path.join(dst, "extra", e))
base = subprocess.check_output(["git", "-C", wt, "log", "--format=%h %s", "-1"]).decode().strip()
meta = {"property": prop, "needs": needs, "base_commit": base, "ran": ran or "go build ./...; go test of the touched packages and the whole suite by the seeding agent; demonstration run by the lead with the change (fails) and without it (passes)",
        "caught_by": caught, "verdict": verdict, "extra_untracked_files": extra}
json.dump(meta, open(os.path.join(dst, "meta.json"), "w"), indent=1)
print("kept", dst, os.listdir(dst))
