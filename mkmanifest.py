#!/usr/bin/env python3
"""Writes MANIFEST.json from checks/registry.py (single source of truth for what is claimed)."""
import json, os, sys
ROOT = os.path.dirname(os.path.abspath(__file__))
sys.path.insert(0, os.path.join(ROOT, "checks"))
from registry import REGISTRY, NOT_APPLICABLE, HOOK_COMMITS

props = [json.loads(l) for l in open(os.path.join(ROOT, "properties.jsonl"))]
checks = []
for p in props:
    pid = p["id"]
    if pid not in REGISTRY:
        continue
    R = REGISTRY[pid]
    checks.append({
        "property_id": pid,
        "quick_cmd": f"./check {pid} --tier quick",
        "thorough_cmd": f"./check {pid} --tier thorough",
        "evidence_file": f"/verif/evidence/{pid}.json",
        "replay_cmd_template": f"./check {pid} --replay {{path}}",
        "engine": "lean4+harness",
        "level_claimed": {"category": R.get("level", "proof"), "text": R["level_text"], "design_ref": R.get("design_ref", "DESIGN.md section 7 " + pid)},
        "level_note": R["level_note"],
        "technique": R.get("technique", "Lean 4 theorems about a model tied to the code by regeneration and differential correspondence"),
    })
na = [{"property_id": p["id"], "reason": NOT_APPLICABLE.get(p["id"], "check not built yet (work in progress); no claim is made")}
      for p in props if p["id"] not in REGISTRY]
m = {
    "version": 1,
    "setup_cmd": "./setup.sh",
    "hooks": {
        "guard": "verif",
        "enable": "go build -tags verif (the harness under /verif/harness is built with -tags verif against /repo via a replace directive)",
        "baseline_off_cmd": "for m in . ./internal/integration_test/fuzz; do (cd /repo/$m && go test -mod=mod -json -vet=off -count=1 -timeout 25m ./...); done",
        "source_commits": HOOK_COMMITS,
        "add_only": True,
    },
    "engines": [
        {"name": "lean4+harness", "path": "/verif/check", "serves_properties": [c["property_id"] for c in checks],
         "kind_free_text": "Lean 4 proofs (lake project /verif/lean, kernel-checked, axioms audited) about models that are regenerated from /repo (translate/) or tied to it by a differential Go harness (harness/) driving the real code and the Lean oracle executable on the same operations"},
    ],
    "checks": checks,
    "not_applicable": na,
    "notes": "See DESIGN.md. Every check regenerates Wz/Gen from /repo, rebuilds the Lean obligations, audits axioms, rebuilds the harness against /repo's working tree and runs it against the Lean oracle.",
}
json.dump(m, open(os.path.join(ROOT, "MANIFEST.json"), "w"), indent=1)
print("checks:", [c["property_id"] for c in checks])
