// c00_shapes regenerates a handful of small code shapes (source text of a condition, of case expressions, of the
// last statements or of a return expression) whose meaning the hand-written models rely on and which seeded
// changes showed to be load-bearing.  Each shape is compared with the expected text by `decide` in the property
// file that relies on it; a harmless rewrite breaks the tie as well (then the harness run that follows is the
// search for a failing input).
//
//	id                      file / function                                   what
//	c03.if_without_else     wasm/func_validation.go validateFunction…         condition guarding the `else`-less-if error
//	c06.delete_head         wasm/store_module_list.go deleteModule            condition under which the list head moves
//	c07.watcher_cases       wasm/module_instance.go closeModuleOnCanceled…    case expressions classifying the context error
//	c07.ctxerr_cases        wasm/module_instance.go CloseWithCtxErr           the same
//	c09.memory_grown        wazevo/module_engine.go MemoryGrown               the statements of the function
//	c10.close_tail          wasm/module_instance.go CloseWithExitCode         the last two statements
//	c14.read_view           wasm/memory.go MemoryInstance.Read                the returned view expression
//	c07.wait_wakeups        wasm/memory.go MemoryInstance.wait                the channel receives the parked guest listens to
//	c07.wait_listens_done   (same)                                            "true" iff one of them is a Done() channel
//	c10.release_clears      wasm/module_instance.go ensureResourcesClosed      per `X != nil` test: which field is set to nil in its body
//	c07.watch_cond_compiler wazevo/call_engine.go callWithStack               condition under which the call's context gets a watcher
//	c07.watch_cond_interp   interpreter/interpreter.go callEngine.call        the same
//	c11.host_module_id      wasm/host.go NewHostModule                        the expression the host module's ID is derived from
//	c05.fcmp_branch_order   amd64/machine.go LowerConditionalBranch            order of the m.insert calls of the two-jump form; the jumps of its `and` and `or` variants
//	c05.fcmp_eq_ne_flags    amd64/machine.go lowerFcmpToFlags                  the flag pairs of FloatCmpCondEqual / NotEqual
//	c17.ro_dir_mount        fsconfig.go WithReadOnlyDirMount                  the statements of the function
//	c03.drop_range_units    interpreter/compiler.go getFrameDropRange         the three quantities the drop range is computed from
//	c04.type_of_import      wasm/module.go typeOfFunction                     the scan over the import section: counter initialisation, loop header, skip condition
//	c05.byte_reg_rex        amd64/instr_encoding.go                            every condition under which an encoding forces a REX prefix for a byte register
//	c07.closed_test         wasm/module_instance.go FailIfClosed + interpreter exit-code check   the tests by which running code notices a closed module
//	c16.renumber_order      sys/fs.go FSContext.Renumber                      error returns and table/file mutations in source order
//	c14.interp_memory_size  interpreter/interpreter.go callNativeFunc          what the memory.size operation pushes
//	c09.compiled_fields     wazevo/engine.go compiledModule, interpreter compiledFunction   field names of what is shared by all instances
//	c10.runtime_closed_word runtime.go CloseWithExitCode + failIfClosed        the closed word's definition, its test and the recovery of the exit code
//	c14.compiler_memory_size wazevo/frontend/lower.go lowerCurrentOpcode        builder methods (As…) and pushes of the memory.size case, in source order
//	c02.ireduce_amd64       amd64/machine.go LowerInstr                        the expression statements of the Ireduce (i32.wrap_i64) case
//	c04.table_grow_fill     wasm/table.go TableInstance.Grow                    the seeding assignment and the doubling loop that fill the new region
//	c02.interp_grow_slot    interpreter/interpreter.go callNativeFunc + popMemoryOffset   what memory.grow pushes; how a static offset is added to a popped address
//	c07.cache_hit_restore   wazevo/engine_cache.go getCompiledModule              per-module state restored after a file-cache hit: unconditional assignments, and those under a condition
//	c16.dirfs_rename        sysfs/dirfs_supported.go dirFS.Rename                  the statements of the function
//	c02.strict_opcodes      wazevo/ssa/instructions.go instructionSideEffects      the opcodes classified sideEffectStrict (they end an instruction group), sorted
//	c10.table_range         descriptor/table.go Table.Range                         loop headers and what each skip condition does (continue / break / return)
package main

import (
	"bytes"
	"flag"
	"fmt"
	"go/ast"
	"go/parser"
	"go/printer"
	"go/token"
	"os"
	"path/filepath"
	"sort"
	"strings"
)

var fset = token.NewFileSet()

func die(f string, a ...any) {
	fmt.Fprintf(os.Stderr, "c00_shapes: REFUSE: "+f+"\n", a...)
	os.Exit(1)
}

func src(n ast.Node) string {
	var b bytes.Buffer
	printer.Fprint(&b, fset, n)
	return strings.Join(strings.Fields(b.String()), " ")
}

func fn(repo, rel, name, recv string) *ast.FuncDecl {
	f, err := parser.ParseFile(fset, filepath.Join(repo, rel), nil, 0)
	if err != nil {
		die("%v", err)
	}
	for _, d := range f.Decls {
		fd, ok := d.(*ast.FuncDecl)
		if !ok || fd.Name.Name != name || fd.Body == nil {
			continue
		}
		if recv != "" {
			if fd.Recv == nil || !strings.Contains(src(fd.Recv.List[0].Type), recv) {
				continue
			}
		}
		return fd
	}
	die("%s: function %s not found", rel, name)
	return nil
}

// caseClause: the (unique) case clause of fd whose single case expression prints as `text`.
func caseClause(fd *ast.FuncDecl, text string) *ast.CaseClause {
	var out *ast.CaseClause
	ast.Inspect(fd.Body, func(n ast.Node) bool {
		if cc, ok := n.(*ast.CaseClause); ok && len(cc.List) == 1 && src(cc.List[0]) == text {
			if out != nil {
				die("%s: two case clauses %s", fd.Name.Name, text)
			}
			out = cc
			return false
		}
		return true
	})
	if out == nil {
		die("%s: no case clause %s", fd.Name.Name, text)
	}
	return out
}

// sortByOffset sorts "offset:text" entries by offset and strips the offsets.
func sortByOffset(ev []string) {
	sort.Slice(ev, func(i, j int) bool {
		var a, b int
		fmt.Sscanf(ev[i], "%d:", &a)
		fmt.Sscanf(ev[j], "%d:", &b)
		return a < b
	})
	for i, e := range ev {
		ev[i] = e[strings.IndexByte(e, ':')+1:]
	}
}

// condOfIfContaining: the condition of the (unique) if statement whose body contains `needle`, not counting ifs
// that merely enclose such an if
func condOfIfContaining(fd *ast.FuncDecl, needle string) string {
	var found []string
	ast.Inspect(fd.Body, func(n ast.Node) bool {
		ifs, ok := n.(*ast.IfStmt)
		if !ok {
			return true
		}
		direct := false
		for _, s := range ifs.Body.List {
			if _, nested := s.(*ast.IfStmt); !nested && strings.Contains(src(s), needle) {
				direct = true
			}
		}
		if direct {
			found = append(found, src(ifs.Cond))
		}
		return true
	})
	if len(found) != 1 {
		die("%s: %d if statements directly contain %q", fd.Name.Name, len(found), needle)
	}
	return found[0]
}

// caseExprs: case expressions of the tagless switch statements of the function, in order
func caseExprs(fd *ast.FuncDecl) string {
	var out []string
	ast.Inspect(fd.Body, func(n ast.Node) bool {
		sw, ok := n.(*ast.SwitchStmt)
		if !ok || sw.Tag != nil {
			return true
		}
		for _, c := range sw.Body.List {
			for _, e := range c.(*ast.CaseClause).List {
				out = append(out, src(e))
			}
		}
		return true
	})
	if len(out) == 0 {
		die("%s: no tagless switch", fd.Name.Name)
	}
	return strings.Join(out, " ;; ")
}

// structFields: the field names (embedded fields by their type) of a struct type declared in the file
func structFields(repo, rel, name string) string {
	f, err := parser.ParseFile(fset, filepath.Join(repo, rel), nil, 0)
	if err != nil {
		die("%v", err)
	}
	var out []string
	found := false
	ast.Inspect(f, func(n ast.Node) bool {
		ts, ok := n.(*ast.TypeSpec)
		if !ok || ts.Name.Name != name {
			return true
		}
		st, ok := ts.Type.(*ast.StructType)
		if !ok {
			return true
		}
		found = true
		for _, fl := range st.Fields.List {
			if len(fl.Names) == 0 {
				out = append(out, src(fl.Type))
			}
			for _, n := range fl.Names {
				out = append(out, n.Name)
			}
		}
		return false
	})
	if !found {
		die("%s: struct %s not found", rel, name)
	}
	return strings.Join(out, " ")
}

func main() {
	repo := flag.String("repo", "/repo", "")
	out := flag.String("out", "../lean", "")
	flag.Parse()
	type kv struct{ k, v string }
	var rows []kv
	add := func(k, v string) { rows = append(rows, kv{k, v}) }

	add("c03.if_without_else", condOfIfContaining(fn(*repo, "internal/wasm/func_validation.go", "validateFunctionWithMaxStackValues", ""), "typeCountError(false, OpcodeElseName"))
	add("c06.delete_head", condOfIfContaining(fn(*repo, "internal/wasm/store_module_list.go", "deleteModule", "Store"), "s.moduleList = m.next"))
	add("c07.watcher_cases", caseExprs(fn(*repo, "internal/wasm/module_instance.go", "closeModuleOnCanceledOrTimeout", "ModuleInstance")))
	add("c07.ctxerr_cases", caseExprs(fn(*repo, "internal/wasm/module_instance.go", "CloseWithCtxErr", "ModuleInstance")))
	{
		fd := fn(*repo, "internal/engine/wazevo/module_engine.go", "MemoryGrown", "moduleEngine")
		var ss []string
		for _, s := range fd.Body.List {
			ss = append(ss, src(s))
		}
		add("c09.memory_grown", strings.Join(ss, " ;; "))
	}
	{
		fd := fn(*repo, "internal/wasm/module_instance.go", "CloseWithExitCode", "ModuleInstance")
		l := fd.Body.List
		if len(l) < 2 {
			die("CloseWithExitCode: fewer than two statements")
		}
		add("c10.close_tail", src(l[len(l)-2])+" ;; "+src(l[len(l)-1]))
	}
	{
		fd := fn(*repo, "internal/wasm/memory.go", "Read", "MemoryInstance")
		last, ok := fd.Body.List[len(fd.Body.List)-1].(*ast.ReturnStmt)
		if !ok || len(last.Results) != 2 {
			die("MemoryInstance.Read: last statement is not `return view, ok`")
		}
		add("c14.read_view", src(last.Results[0]))
	}

	{
		fd := fn(*repo, "internal/wasm/memory.go", "wait", "MemoryInstance")
		var rs []string
		done := "false"
		ast.Inspect(fd.Body, func(n ast.Node) bool {
			if u, ok := n.(*ast.UnaryExpr); ok && u.Op == token.ARROW {
				rs = append(rs, src(u))
				if strings.Contains(src(u), "Done()") {
					done = "true"
				}
			}
			return true
		})
		if len(rs) == 0 {
			die("MemoryInstance.wait: no channel receive")
		}
		add("c07.wait_wakeups", strings.Join(rs, " ;; "))
		add("c07.wait_listens_done", done)
	}

	{
		// ensureResourcesClosed runs more than once for an instance closed by a done context (FailIfClosed calls it on
		// every look at the closed flag): what makes the repetitions harmless is that every resource it releases is
		// detached (set to nil) in the same branch that released it.
		fd := fn(*repo, "internal/wasm/module_instance.go", "ensureResourcesClosed", "ModuleInstance")
		var rs []string
		ast.Inspect(fd.Body, func(n ast.Node) bool {
			ifs, ok := n.(*ast.IfStmt)
			if !ok {
				return true
			}
			be, ok := ifs.Cond.(*ast.BinaryExpr)
			if !ok || be.Op != token.NEQ || src(be.Y) != "nil" {
				return true
			}
			cleared := "-"
			for _, st := range ifs.Body.List {
				if as, ok := st.(*ast.AssignStmt); ok && len(as.Lhs) == 1 && len(as.Rhs) == 1 && src(as.Rhs[0]) == "nil" {
					cleared = src(as.Lhs[0])
				}
			}
			rs = append(rs, src(ifs.Cond)+" => "+cleared)
			return true
		})
		if len(rs) == 0 {
			die("ensureResourcesClosed: no `X != nil` test")
		}
		add("c10.release_clears", strings.Join(rs, " ;; "))
	}

	add("c07.watch_cond_compiler", condOfIfContaining(fn(*repo, "internal/engine/wazevo/call_engine.go", "callWithStack", "callEngine"), "CloseModuleOnCanceledOrTimeout(ctx)"))
	add("c07.watch_cond_interp", condOfIfContaining(fn(*repo, "internal/engine/interpreter/interpreter.go", "call", "callEngine"), "CloseModuleOnCanceledOrTimeout(ctx)"))
	{
		fd := fn(*repo, "internal/wasm/host.go", "NewHostModule", "")
		var ids []string
		ast.Inspect(fd.Body, func(n ast.Node) bool {
			if c, ok := n.(*ast.CallExpr); ok && strings.HasSuffix(src(c.Fun), ".AssignModuleID") && len(c.Args) > 0 {
				ids = append(ids, src(c.Args[0]))
			}
			return true
		})
		if len(ids) != 1 {
			die("NewHostModule: %d calls of AssignModuleID", len(ids))
		}
		add("c11.host_module_id", ids[0])
	}
	{
		fd := fn(*repo, "internal/engine/wazevo/backend/isa/amd64/machine.go", "LowerConditionalBranch", "machine")
		var blk *ast.BlockStmt
		ast.Inspect(fd.Body, func(n ast.Node) bool {
			b, ok := n.(*ast.BlockStmt)
			if !ok {
				return true
			}
			for _, st := range b.List {
				if as, ok := st.(*ast.AssignStmt); ok && strings.Contains(src(as), "m.allocateBrTarget()") {
					blk = b
				}
			}
			return true
		})
		if blk == nil {
			die("LowerConditionalBranch: no block allocating a branch target")
		}
		var order []string
		var variants []string
		for _, st := range blk.List {
			if es, ok := st.(*ast.ExprStmt); ok {
				if c, ok := es.X.(*ast.CallExpr); ok && src(c.Fun) == "m.insert" && len(c.Args) == 1 {
					order = append(order, src(c.Args[0]))
					continue
				}
			}
			if ifs, ok := st.(*ast.IfStmt); ok && src(ifs.Cond) == "and" {
				var a, o []string
				for _, x := range ifs.Body.List {
					a = append(a, src(x))
				}
				if eb, ok := ifs.Else.(*ast.BlockStmt); ok {
					for _, x := range eb.List {
						o = append(o, src(x))
					}
				}
				variants = append(variants, "and: "+strings.Join(a, " ; ")+" | or: "+strings.Join(o, " ; "))
			}
		}
		add("c05.fcmp_branch_order", strings.Join(order, " ")+" || "+strings.Join(variants, " || "))
	}
	{
		fd := fn(*repo, "internal/engine/wazevo/backend/isa/amd64/machine.go", "lowerFcmpToFlags", "machine")
		var rows []string
		ast.Inspect(fd.Body, func(n ast.Node) bool {
			cc, ok := n.(*ast.CaseClause)
			if !ok || len(cc.List) != 1 {
				return true
			}
			if k := src(cc.List[0]); k == "ssa.FloatCmpCondEqual" || k == "ssa.FloatCmpCondNotEqual" {
				var b []string
				for _, x := range cc.Body {
					b = append(b, src(x))
				}
				rows = append(rows, k+": "+strings.Join(b, " ; "))
			}
			return true
		})
		if len(rows) != 2 {
			die("lowerFcmpToFlags: %d of the two equality cases found", len(rows))
		}
		add("c05.fcmp_eq_ne_flags", strings.Join(rows, " || "))
	}
	{
		fd := fn(*repo, "fsconfig.go", "WithReadOnlyDirMount", "fsConfig")
		var ss []string
		for _, st := range fd.Body.List {
			ss = append(ss, src(st))
		}
		add("c17.ro_dir_mount", strings.Join(ss, " ;; "))
	}
	{
		// the interpreter's value stack is a stack of 64-bit SLOTS (a v128 takes two): everything the drop range is
		// computed from has to be counted in slots
		fd := fn(*repo, "internal/engine/interpreter/compiler.go", "getFrameDropRange", "compiler")
		var rhs []string
		ast.Inspect(fd.Body, func(n ast.Node) bool {
			if as, ok := n.(*ast.AssignStmt); ok && len(as.Lhs) == 1 && len(as.Rhs) == 1 && (src(as.Lhs[0]) == "start" || src(as.Lhs[0]) == "end") {
				rhs = append(rhs, src(as.Lhs[0])+" = "+src(as.Rhs[0]))
			}
			return true
		})
		add("c03.drop_range_units", strings.Join(rhs, " ;; "))
	}
	{
		fd := fn(*repo, "internal/wasm/module.go", "typeOfFunction", "Module")
		var parts []string
		ast.Inspect(fd.Body, func(n ast.Node) bool {
			switch x := n.(type) {
			case *ast.AssignStmt:
				if len(x.Lhs) == 1 && src(x.Lhs[0]) == "cur" {
					parts = append(parts, src(x))
				}
			case *ast.IncDecStmt:
				if src(x.X) == "cur" {
					parts = append(parts, src(x))
				}
			case *ast.RangeStmt:
				parts = append(parts, "for "+src(x.Key)+" := range "+src(x.X))
			case *ast.ForStmt:
				h := "for "
				if x.Init != nil {
					h += src(x.Init)
				}
				h += "; "
				if x.Cond != nil {
					h += src(x.Cond)
				}
				h += "; "
				if x.Post != nil {
					h += src(x.Post)
				}
				parts = append(parts, h)
			case *ast.IfStmt:
				if len(x.Body.List) == 1 {
					if b, ok := x.Body.List[0].(*ast.BranchStmt); ok && b.Tok == token.CONTINUE {
						parts = append(parts, "skip if "+src(x.Cond))
					}
				}
				if src(x.Cond) == "funcIdx == cur" {
					parts = append(parts, "hit if funcIdx == cur")
				}
			}
			return true
		})
		add("c04.type_of_import", strings.Join(parts, " ;; "))
	}
	{
		f, err := parser.ParseFile(fset, filepath.Join(*repo, "internal/engine/wazevo/backend/isa/amd64/instr_encoding.go"), nil, 0)
		if err != nil {
			die("%v", err)
		}
		var conds []string
		forced := 0
		ast.Inspect(f, func(n ast.Node) bool {
			switch x := n.(type) {
			case *ast.IfStmt:
				direct := false
				for _, st := range x.Body.List {
					if as, ok := st.(*ast.AssignStmt); ok && strings.Contains(src(as), ".always()") {
						direct = true
					}
				}
				if direct {
					c := src(x.Cond)
					if x.Init != nil {
						c = src(x.Init) + "; " + c
					}
					conds = append(conds, c)
				}
			case *ast.AssignStmt:
				if strings.Contains(src(x), ".always()") {
					forced++
				}
			}
			return true
		})
		add("c05.byte_reg_rex", fmt.Sprintf("%d assignments of an always-REX prefix; guarded: %s", forced, strings.Join(conds, " ;; ")))
	}
	{
		var parts []string
		fd := fn(*repo, "internal/wasm/module_instance.go", "FailIfClosed", "ModuleInstance")
		if ifs, ok := fd.Body.List[0].(*ast.IfStmt); ok && ifs.Init != nil {
			parts = append(parts, "FailIfClosed: "+src(ifs.Init)+"; "+src(ifs.Cond))
		} else {
			die("FailIfClosed: first statement is not `if closed := …; …`")
		}
		// the interpreter's handler of the exit-code check operation
		cn := fn(*repo, "internal/engine/interpreter/interpreter.go", "callNativeFunc", "callEngine")
		found := false
		ast.Inspect(cn.Body, func(n ast.Node) bool {
			cc, ok := n.(*ast.CaseClause)
			if !ok || len(cc.List) != 1 || src(cc.List[0]) != "operationKindBuiltinFunctionCheckExitCode" {
				return true
			}
			found = true
			var conds []string
			for _, st := range cc.Body {
				ast.Inspect(st, func(m ast.Node) bool {
					if ifs, ok := m.(*ast.IfStmt); ok {
						c := src(ifs.Cond)
						if ifs.Init != nil {
							c = src(ifs.Init) + "; " + c
						}
						conds = append(conds, c)
					}
					return true
				})
			}
			parts = append(parts, "interpreter check: "+strings.Join(conds, " | "))
			return false
		})
		if !found {
			die("callNativeFunc: no case operationKindBuiltinFunctionCheckExitCode")
		}
		add("c07.closed_test", strings.Join(parts, " ;; "))
	}
	{
		fd := fn(*repo, "internal/sys/fs.go", "Renumber", "FSContext")
		var ev []string
		ast.Inspect(fd.Body, func(n ast.Node) bool {
			switch x := n.(type) {
			case *ast.ReturnStmt:
				if len(x.Results) == 1 && strings.HasPrefix(src(x.Results[0]), "sys.E") {
					ev = append(ev, "ret:"+strings.TrimPrefix(src(x.Results[0]), "sys."))
				}
			case *ast.CallExpr:
				if sel, ok := x.Fun.(*ast.SelectorExpr); ok {
					switch sel.Sel.Name {
					case "Close", "Delete", "InsertAt", "Insert":
						ev = append(ev, "mut:"+sel.Sel.Name)
					}
				}
			}
			return true
		})
		add("c16.renumber_order", strings.Join(ev, " ; "))
	}
	{
		cn := fn(*repo, "internal/engine/interpreter/interpreter.go", "callNativeFunc", "callEngine")
		var pushed []string
		ast.Inspect(cn.Body, func(n ast.Node) bool {
			cc, ok := n.(*ast.CaseClause)
			if !ok || len(cc.List) != 1 || src(cc.List[0]) != "operationKindMemorySize" {
				return true
			}
			for _, st := range cc.Body {
				if es, ok := st.(*ast.ExprStmt); ok && strings.Contains(src(es), "pushValue") {
					pushed = append(pushed, src(es))
				}
			}
			return false
		})
		if len(pushed) != 1 {
			die("callNativeFunc: %d pushes in case operationKindMemorySize", len(pushed))
		}
		add("c14.interp_memory_size", pushed[0])
	}
	{
		cw := fn(*repo, "runtime.go", "CloseWithExitCode", "runtime")
		var def string
		for _, st := range cw.Body.List {
			if as, ok := st.(*ast.AssignStmt); ok && len(as.Lhs) == 1 && src(as.Lhs[0]) == "closed" {
				def = src(as)
				break
			}
		}
		if def == "" {
			die("runtime.CloseWithExitCode: no assignment to `closed`")
		}
		fc := fn(*repo, "runtime.go", "failIfClosed", "runtime")
		ifs, ok := fc.Body.List[0].(*ast.IfStmt)
		if !ok || ifs.Init == nil {
			die("runtime.failIfClosed: first statement is not `if closed := …; …`")
		}
		var codes []string
		ast.Inspect(ifs.Body, func(n ast.Node) bool {
			if c, ok := n.(*ast.CallExpr); ok && src(c.Fun) == "uint32" {
				codes = append(codes, src(c))
			}
			return true
		})
		add("c10.runtime_closed_word", def+" ;; "+src(ifs.Init)+"; "+src(ifs.Cond)+" ;; "+strings.Join(codes, " | "))
	}
	{
		lc := fn(*repo, "internal/engine/wazevo/frontend/lower.go", "lowerCurrentOpcode", "Compiler")
		cc := caseClause(lc, "wasm.OpcodeMemorySize")
		var ev []string
		for _, st := range cc.Body {
			ast.Inspect(st, func(n ast.Node) bool {
				if c, ok := n.(*ast.CallExpr); ok {
					if sel, ok := c.Fun.(*ast.SelectorExpr); ok {
						if strings.HasPrefix(sel.Sel.Name, "As") {
							ev = append(ev, fmt.Sprintf("%d:%s", fset.Position(sel.Sel.Pos()).Offset, sel.Sel.Name))
						} else if sel.Sel.Name == "push" {
							ev = append(ev, fmt.Sprintf("%d:%s", fset.Position(sel.Sel.Pos()).Offset, src(c)))
						}
					}
				}
				return true
			})
		}
		// source order (a chained call is visited outermost first)
		sortByOffset(ev)
		add("c14.compiler_memory_size", strings.Join(ev, " "))
	}
	{
		li := fn(*repo, "internal/engine/wazevo/backend/isa/amd64/machine.go", "LowerInstr", "machine")
		cc := caseClause(li, "ssa.OpcodeIreduce")
		var ev []string
		for _, st := range cc.Body {
			ast.Inspect(st, func(n ast.Node) bool {
				if es, ok := n.(*ast.ExprStmt); ok {
					ev = append(ev, src(es))
				}
				return true
			})
		}
		add("c02.ireduce_amd64", strings.Join(ev, " | "))
	}
	{
		gr := fn(*repo, "internal/wasm/table.go", "Grow", "TableInstance")
		var parts []string
		for i, st := range gr.Body.List {
			if fs, ok := st.(*ast.ForStmt); ok {
				if i > 0 {
					parts = append(parts, src(gr.Body.List[i-1]))
				}
				parts = append(parts, src(fs))
			}
		}
		if len(parts) == 0 {
			die("TableInstance.Grow: no for statement")
		}
		add("c04.table_grow_fill", strings.Join(parts, " ;; "))
	}
	{
		cn := fn(*repo, "internal/engine/interpreter/interpreter.go", "callNativeFunc", "callEngine")
		cc := caseClause(cn, "operationKindMemoryGrow")
		var pushes []string
		for _, st := range cc.Body {
			ast.Inspect(st, func(n ast.Node) bool {
				if es, ok := n.(*ast.ExprStmt); ok && strings.Contains(src(es), "pushValue") {
					pushes = append(pushes, src(es))
				}
				return true
			})
		}
		pm := fn(*repo, "internal/engine/interpreter/interpreter.go", "popMemoryOffset", "callEngine")
		var body []string
		for _, st := range pm.Body.List {
			switch x := st.(type) {
			case *ast.AssignStmt:
				body = append(body, src(x))
			case *ast.IfStmt:
				body = append(body, "if "+src(x.Cond))
			case *ast.ReturnStmt:
				body = append(body, src(x))
			}
		}
		add("c02.interp_grow_slot", strings.Join(pushes, " | ")+" ;; "+strings.Join(body, " ; "))
	}
	{
		gc := fn(*repo, "internal/engine/wazevo/engine_cache.go", "getCompiledModule", "engine")
		// the LAST `if ok { … }` of the function: the file-cache hit
		var hit *ast.IfStmt
		for _, st := range gc.Body.List {
			if ifs, ok := st.(*ast.IfStmt); ok && src(ifs.Cond) == "ok" {
				hit = ifs
			}
		}
		if hit == nil {
			die("getCompiledModule: no `if ok` block")
		}
		var uncond, cond []string
		for _, st := range hit.Body.List {
			switch x := st.(type) {
			case *ast.AssignStmt:
				if strings.HasPrefix(src(x.Lhs[0]), "cm.") {
					uncond = append(uncond, src(x))
				}
			case *ast.IfStmt, *ast.SwitchStmt:
				var fields []string
				ast.Inspect(x, func(n ast.Node) bool {
					if as, ok := n.(*ast.AssignStmt); ok && strings.HasPrefix(src(as.Lhs[0]), "cm.") && !strings.Contains(src(as.Lhs[0]), "[") {
						fields = append(fields, src(as.Lhs[0]))
					}
					return true
				})
				head := "switch"
				if ifs, ok := x.(*ast.IfStmt); ok {
					head = "if " + src(ifs.Cond)
				}
				cond = append(cond, head+": "+strings.Join(fields, ", "))
			}
		}
		add("c07.cache_hit_restore", strings.Join(uncond, "; ")+" ;; "+strings.Join(cond, " | "))
	}
	{
		rn := fn(*repo, "internal/sysfs/dirfs_supported.go", "Rename", "dirFS")
		var sts []string
		for _, st := range rn.Body.List {
			sts = append(sts, src(st))
		}
		add("c16.dirfs_rename", strings.Join(sts, " | "))
	}
	{
		f, err := parser.ParseFile(fset, filepath.Join(*repo, "internal/engine/wazevo/ssa/instructions.go"), nil, 0)
		if err != nil {
			die("%v", err)
		}
		var strict []string
		found := false
		ast.Inspect(f, func(n ast.Node) bool {
			vs, ok := n.(*ast.ValueSpec)
			if !ok || len(vs.Names) != 1 || vs.Names[0].Name != "instructionSideEffects" || len(vs.Values) != 1 {
				return true
			}
			cl, ok := vs.Values[0].(*ast.CompositeLit)
			if !ok {
				return true
			}
			found = true
			for _, el := range cl.Elts {
				if kv, ok := el.(*ast.KeyValueExpr); ok && src(kv.Value) == "sideEffectStrict" {
					strict = append(strict, strings.TrimPrefix(src(kv.Key), "Opcode"))
				}
			}
			return false
		})
		if !found {
			die("instructions.go: no table instructionSideEffects")
		}
		sort.Strings(strict)
		add("c02.strict_opcodes", strings.Join(strict, " "))
	}
	{
		rg := fn(*repo, "internal/descriptor/table.go", "Range", "Table")
		var ev []string
		ast.Inspect(rg.Body, func(n ast.Node) bool {
			switch x := n.(type) {
			case *ast.RangeStmt:
				ev = append(ev, "range "+src(x.X))
			case *ast.ForStmt:
				ev = append(ev, "for "+src(x.Init)+"; "+src(x.Cond)+"; "+src(x.Post))
			case *ast.IfStmt:
				act := "?"
				if len(x.Body.List) == 1 {
					act = src(x.Body.List[0])
				}
				c := src(x.Cond)
				if x.Init != nil {
					c = src(x.Init) + "; " + c
				}
				ev = append(ev, "if "+c+" -> "+act)
			}
			return true
		})
		add("c10.table_range", strings.Join(ev, " ;; "))
	}
	add("c09.compiled_fields", "wazevo.compiledModule: "+structFields(*repo, "internal/engine/wazevo/engine.go", "compiledModule")+
		" ;; interpreter.compiledFunction: "+structFields(*repo, "internal/engine/interpreter/interpreter.go", "compiledFunction"))

	var sb strings.Builder
	sb.WriteString("-- GENERATED by /verif/translate/facts/c00_shapes. DO NOT EDIT.\nnamespace Wz.Gen.Shapes\n\n/-- (shape id, source text) -/\ndef table : List (String × String) := [\n")
	for i, r := range rows {
		sep := ","
		if i == len(rows)-1 {
			sep = ""
		}
		fmt.Fprintf(&sb, "  (%q, %q)%s\n", r.k, r.v, sep)
	}
	sb.WriteString("]\n\ndef get (id : String) : Option String := (table.find? (·.1 == id)).map (·.2)\n\nend Wz.Gen.Shapes\n")
	dst := filepath.Join(*out, "Wz", "Gen", "Shapes.lean")
	os.MkdirAll(filepath.Dir(dst), 0o755)
	if err := os.WriteFile(dst, []byte(sb.String()), 0o644); err != nil {
		die("%v", err)
	}
}
