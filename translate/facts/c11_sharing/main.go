// c11_sharing: fact extractor (tie A) for C11. From the typed AST of wazero it regenerates, as Lean data,
// where every reference-typed part of a new ModuleInstance comes from during instantiation:
//
//	fresh   – make/new/composite literal/constructor (New…) or a callee whose results are all fresh
//	shared  – an expression rooted at the compiled *wasm.Module (or a package-level variable)
//	param   – handed in by the embedder/caller (an explicit link)
//	self    – rooted at the instance itself
//	unknown – anything the extractor cannot classify (the Lean obligation then fails)
//
// Output: lean/Wz/Gen/C11Sharing.lean with `fields : List (String × String)` and `shape`.
package main

import (
	"flag"
	"fmt"
	"go/ast"
	"go/token"
	"go/types"
	"os"
	"path/filepath"
	"sort"
	"strings"

	"golang.org/x/tools/go/packages"
)

const root = "github.com/tetratelabs/wazero"

var (
	pkgs  = map[string]*packages.Package{}
	decls = map[*types.Func]*ast.FuncDecl{}
	infoOf = map[*ast.FuncDecl]*types.Info{}
)

func die(f string, a ...any) {
	fmt.Fprintf(os.Stderr, "c11_sharing: REFUSE: "+f+"\n", a...)
	os.Exit(1)
}

// isRef: can a value of this type alias mutable storage?
func isRef(t types.Type, depth int) bool {
	if t == nil || depth > 6 {
		return true
	}
	switch u := t.Underlying().(type) {
	case *types.Basic:
		return u.Kind() == types.UnsafePointer
	case *types.Slice, *types.Map, *types.Pointer, *types.Chan, *types.Interface, *types.Signature:
		return true
	case *types.Struct:
		for i := 0; i < u.NumFields(); i++ {
			if isRef(u.Field(i).Type(), depth+1) {
				return true
			}
		}
		return false
	case *types.Array:
		return isRef(u.Elem(), depth+1)
	}
	return true
}

type fnEnv struct {
	decl   *ast.FuncDecl
	info   *types.Info
	shared map[types.Object]bool // parameters that are rooted at the compiled module at the call site
	self   types.Object
	depth  int
}

var rank = map[string]int{"value": 0, "fresh": 1, "self": 2, "param": 3, "shared": 4, "unknown": 5}

func worst(a, b string) string {
	if rank[a] >= rank[b] {
		return a
	}
	return b
}

func rootIdent(e ast.Expr) *ast.Ident {
	for {
		switch x := e.(type) {
		case *ast.Ident:
			return x
		case *ast.SelectorExpr:
			e = x.X
		case *ast.IndexExpr:
			e = x.X
		case *ast.SliceExpr:
			e = x.X
		case *ast.StarExpr:
			e = x.X
		case *ast.ParenExpr:
			e = x.X
		case *ast.UnaryExpr:
			e = x.X
		case *ast.TypeAssertExpr:
			e = x.X
		default:
			return nil
		}
	}
}

func (fe *fnEnv) isParam(o types.Object) bool {
	sig := fe.info.Defs[fe.decl.Name].(*types.Func).Type().(*types.Signature)
	for i := 0; i < sig.Params().Len(); i++ {
		if sig.Params().At(i) == o {
			return true
		}
	}
	return false
}

// all expressions assigned to local variable o inside the function
func (fe *fnEnv) localDefs(o types.Object) []ast.Expr {
	var out []ast.Expr
	ast.Inspect(fe.decl.Body, func(n ast.Node) bool {
		switch s := n.(type) {
		case *ast.AssignStmt:
			for i, l := range s.Lhs {
				id, ok := l.(*ast.Ident)
				if !ok || (fe.info.Defs[id] != o && fe.info.Uses[id] != o) {
					continue
				}
				if len(s.Rhs) == len(s.Lhs) {
					out = append(out, s.Rhs[i])
				} else if len(s.Rhs) == 1 {
					out = append(out, s.Rhs[0]) // multi-value call: classify the call
				}
			}
		case *ast.ValueSpec:
			for i, id := range s.Names {
				if fe.info.Defs[id] == o && i < len(s.Values) {
					out = append(out, s.Values[i])
				}
			}
		case *ast.RangeStmt:
			for _, l := range []ast.Expr{s.Key, s.Value} {
				if id, ok := l.(*ast.Ident); ok && fe.info.Defs[id] == o {
					out = append(out, s.X)
				}
			}
		}
		return true
	})
	return out
}

func (fe *fnEnv) classifyRoot(id *ast.Ident, seen map[types.Object]bool) string {
	o := fe.info.Uses[id]
	if o == nil {
		o = fe.info.Defs[id]
	}
	if o == nil {
		return "unknown"
	}
	if o == fe.self {
		return "self"
	}
	if fe.shared[o] {
		return "shared"
	}
	if _, ok := o.(*types.Nil); ok {
		return "value"
	}
	if v, ok := o.(*types.Var); ok {
		if v.Parent() == v.Pkg().Scope() {
			return "shared" // package-level variable
		}
		if fe.isParam(o) {
			return "param"
		}
		if fe.decl.Recv != nil && len(fe.decl.Recv.List[0].Names) > 0 && fe.info.Defs[fe.decl.Recv.List[0].Names[0]] == o {
			return "shared" // state reachable from a callee's receiver outlives the call
		}
		if seen[o] {
			return "value"
		}
		seen[o] = true
		defs := fe.localDefs(o)
		k := "value"
		for _, d := range defs {
			k = worst(k, fe.classify(d, seen))
		}
		return k
	}
	if _, ok := o.(*types.Func); ok {
		return "value" // function value: code, immutable
	}
	if _, ok := o.(*types.Const); ok {
		return "value"
	}
	return "unknown"
}

func calleeOf(info *types.Info, c *ast.CallExpr) (*types.Func, string) {
	switch f := c.Fun.(type) {
	case *ast.Ident:
		if fn, ok := info.Uses[f].(*types.Func); ok {
			return fn, f.Name
		}
		return nil, f.Name
	case *ast.SelectorExpr:
		if fn, ok := info.Uses[f.Sel].(*types.Func); ok {
			return fn, f.Sel.Name
		}
		return nil, f.Sel.Name
	}
	return nil, ""
}

func (fe *fnEnv) classify(e ast.Expr, seen map[types.Object]bool) string {
	if tv, ok := fe.info.Types[e]; ok && tv.Type != nil {
		if tup, isTup := tv.Type.(*types.Tuple); isTup {
			if tup.Len() > 0 && !isRef(tup.At(0).Type(), 0) {
				return "value"
			}
		} else if !isRef(tv.Type, 0) {
			return "value"
		}
		if tv.IsNil() {
			return "value"
		}
	}
	switch x := e.(type) {
	case *ast.ParenExpr:
		return fe.classify(x.X, seen)
	case *ast.CompositeLit:
		k := "fresh"
		for _, el := range x.Elts {
			v := el
			if kv, ok := el.(*ast.KeyValueExpr); ok {
				v = kv.Value
			}
			if c := fe.classify(v, seen); rank[c] > rank["self"] {
				_ = c // reported separately by the caller through literalFields; the literal itself is a fresh object
			}
		}
		return k
	case *ast.UnaryExpr:
		if x.Op == token.AND {
			if _, ok := x.X.(*ast.CompositeLit); ok {
				return fe.classify(x.X, seen)
			}
		}
		if id := rootIdent(x.X); id != nil {
			return fe.classifyRoot(id, seen)
		}
		return "unknown"
	case *ast.FuncLit:
		return "fresh"
	case *ast.CallExpr:
		if tv, ok := fe.info.Types[x.Fun]; ok && tv.IsType() { // conversion
			return fe.classify(x.Args[0], seen)
		}
		fn, name := calleeOf(fe.info, x)
		if name == "make" || name == "new" {
			return "fresh"
		}
		if name == "append" {
			return fe.classify(x.Args[0], seen)
		}
		if fn != nil {
			if d, ok := decls[fn]; ok && d.Body != nil && fe.depth < 3 {
				return returnsOf(d, fe.depth+1)
			}
		}
		if strings.HasPrefix(name, "New") || strings.HasPrefix(name, "new") {
			return "fresh"
		}
		if sel, ok := x.Fun.(*ast.SelectorExpr); ok {
			if id := rootIdent(sel.X); id != nil {
				if _, isPkg := fe.info.Uses[id].(*types.PkgName); !isPkg {
					return fe.classifyRoot(id, seen) // method on something: as good as its receiver
				}
			}
		}
		return "unknown"
	default:
		if sel, ok := e.(*ast.SelectorExpr); ok {
			if id, ok := sel.X.(*ast.Ident); ok {
				if _, isPkg := fe.info.Uses[id].(*types.PkgName); isPkg {
					switch fe.info.Uses[sel.Sel].(type) {
					case *types.Var:
						return "shared" // package-level variable of another package
					case *types.Func, *types.Const:
						return "value"
					}
					return "unknown"
				}
			}
		}
		if id := rootIdent(e); id != nil {
			return fe.classifyRoot(id, seen)
		}
	}
	return "unknown"
}

// returnsOf: worst classification of the first result over all return statements of a function
func returnsOf(d *ast.FuncDecl, depth int) string {
	fe := &fnEnv{decl: d, info: infoOf[d], shared: map[types.Object]bool{}, depth: depth}
	k := "value"
	n := 0
	named := d.Type.Results != nil && len(d.Type.Results.List) > 0 && len(d.Type.Results.List[0].Names) > 0
	ast.Inspect(d.Body, func(nd ast.Node) bool {
		if _, ok := nd.(*ast.FuncLit); ok {
			return false
		}
		if r, ok := nd.(*ast.ReturnStmt); ok {
			n++
			if len(r.Results) > 0 {
				k = worst(k, fe.classify(r.Results[0], map[types.Object]bool{}))
			} else if named {
				id := d.Type.Results.List[0].Names[0]
				k = worst(k, fe.classifyRoot(id, map[types.Object]bool{}))
			}
		}
		return true
	})
	if n == 0 {
		return "unknown"
	}
	return k
}

type fact struct{ path, kind string }

var facts []fact

func emit(path, kind string) {
	if kind == "value" {
		return
	}
	facts = append(facts, fact{path, kind})
}

// path of an lvalue rooted at `self`: m.Tables[idx] -> "Tables[]", m.MemoryInstance.definition -> "MemoryInstance.definition"
func lhsPath(fe *fnEnv, e ast.Expr) (string, bool) {
	switch x := e.(type) {
	case *ast.Ident:
		o := fe.info.Uses[x]
		if o == nil {
			o = fe.info.Defs[x]
		}
		if o == fe.self {
			return "", true
		}
		return "", false
	case *ast.SelectorExpr:
		p, ok := lhsPath(fe, x.X)
		if !ok {
			return "", false
		}
		if p == "" {
			return x.Sel.Name, true
		}
		return p + "." + x.Sel.Name, true
	case *ast.IndexExpr:
		p, ok := lhsPath(fe, x.X)
		return p + "[]", ok
	case *ast.ParenExpr:
		return lhsPath(fe, x.X)
	case *ast.StarExpr:
		return lhsPath(fe, x.X)
	}
	return "", false
}

func literalOf(e ast.Expr) *ast.CompositeLit {
	if u, ok := e.(*ast.UnaryExpr); ok && u.Op == token.AND {
		e = u.X
	}
	if c, ok := e.(*ast.CompositeLit); ok {
		return c
	}
	return nil
}

func (fe *fnEnv) emitAssign(prefix, path string, rhs ast.Expr) {
	emit(prefix+path, fe.classify(rhs, map[types.Object]bool{}))
	// a literal is fresh, its reference-typed members may still alias
	lit := literalOf(rhs)
	if lit == nil {
		if id, ok := rhs.(*ast.Ident); ok { // local holding a literal
			if o := fe.info.Uses[id]; o != nil && !fe.isParam(o) {
				for _, d := range fe.localDefs(o) {
					if l := literalOf(d); l != nil {
						lit = l
					}
				}
			}
		}
	}
	if lit != nil {
		for _, el := range lit.Elts {
			if kv, ok := el.(*ast.KeyValueExpr); ok {
				if k, ok := kv.Key.(*ast.Ident); ok {
					sep := "."
					emit(prefix+path+sep+k.Name, fe.classify(kv.Value, map[types.Object]bool{}))
				}
			}
		}
	}
}

// analyze a function whose `self` object is the instance being built
func analyze(d *ast.FuncDecl, self types.Object, shared map[types.Object]bool, prefix string, followCalls bool) {
	fe := &fnEnv{decl: d, info: infoOf[d], shared: shared, self: self}
	ast.Inspect(d.Body, func(n ast.Node) bool {
		switch s := n.(type) {
		case *ast.AssignStmt:
			for i, l := range s.Lhs {
				// definition of self by a literal: m = &ModuleInstance{...}
				if id, ok := l.(*ast.Ident); ok && (fe.info.Defs[id] == self || fe.info.Uses[id] == self) && len(s.Rhs) == len(s.Lhs) {
					if lit := literalOf(s.Rhs[i]); lit != nil {
						for _, el := range lit.Elts {
							if kv, ok := el.(*ast.KeyValueExpr); ok {
								emit(prefix+kv.Key.(*ast.Ident).Name, fe.classify(kv.Value, map[types.Object]bool{}))
							}
						}
					}
					continue
				}
				p, ok := lhsPath(fe, l)
				if !ok || p == "" {
					continue
				}
				var rhs ast.Expr
				if len(s.Rhs) == len(s.Lhs) {
					rhs = s.Rhs[i]
				} else {
					rhs = s.Rhs[0]
				}
				fe.emitAssign(prefix, p, rhs)
			}
		case *ast.CallExpr:
			if !followCalls {
				return true
			}
			// m.buildXxx(module, …): analyze the callee with `self` = its receiver, shared params from the arguments
			sel, ok := s.Fun.(*ast.SelectorExpr)
			if !ok {
				return true
			}
			if id, ok := sel.X.(*ast.Ident); !ok || fe.info.Uses[id] != self {
				return true
			}
			fn, _ := calleeOf(fe.info, s)
			cd, ok := decls[fn]
			if fn != nil && fn.Name() == "resolveImports" {
				return true // imports are the explicit links: out of the property's scope
			}
			if fn == nil || !ok || cd.Body == nil || cd.Recv == nil || len(cd.Recv.List[0].Names) == 0 {
				return true
			}
			cinfo := infoOf[cd]
			sh := map[types.Object]bool{}
			sig := fn.Type().(*types.Signature)
			for i, a := range s.Args {
				if i >= sig.Params().Len() {
					break
				}
				if fe.classify(a, map[types.Object]bool{}) == "shared" {
					sh[sig.Params().At(i)] = true
				}
			}
			analyze(cd, cinfo.Defs[cd.Recv.List[0].Names[0]], sh, prefix, false)
		}
		return true
	})
}

func findFunc(pkg, recv, name string) *ast.FuncDecl {
	p := pkgs[pkg]
	if p == nil {
		die("package %s not loaded", pkg)
	}
	for _, f := range p.Syntax {
		for _, d := range f.Decls {
			fd, ok := d.(*ast.FuncDecl)
			if !ok || fd.Name.Name != name {
				continue
			}
			r := ""
			if fd.Recv != nil {
				t := fd.Recv.List[0].Type
				if s, ok := t.(*ast.StarExpr); ok {
					t = s.X
				}
				r = t.(*ast.Ident).Name
			}
			if r == recv {
				return fd
			}
		}
	}
	die("function %s.%s.%s not found (renamed? update the extractor)", pkg, recv, name)
	return nil
}

func paramObj(d *ast.FuncDecl, name string) types.Object {
	for _, f := range d.Type.Params.List {
		for _, n := range f.Names {
			if n.Name == name {
				return infoOf[d].Defs[n]
			}
		}
	}
	die("parameter %s of %s not found", name, d.Name.Name)
	return nil
}

func localObj(d *ast.FuncDecl, name string) types.Object {
	var o types.Object
	if d.Type.Results != nil {
		for _, f := range d.Type.Results.List {
			for _, n := range f.Names {
				if n.Name == name {
					o = infoOf[d].Defs[n]
				}
			}
		}
	}
	if o == nil {
		ast.Inspect(d.Body, func(n ast.Node) bool {
			if id, ok := n.(*ast.Ident); ok && id.Name == name && o == nil {
				if x := infoOf[d].Defs[id]; x != nil {
					o = x
				}
			}
			return true
		})
	}
	if o == nil {
		die("local %s of %s not found", name, d.Name.Name)
	}
	return o
}

func main() {
	repo := flag.String("repo", "/repo", "wazero checkout")
	out := flag.String("out", "../lean", "lean project root")
	flag.Parse()
	fset := token.NewFileSet()
	cfg := &packages.Config{
		Mode: packages.NeedName | packages.NeedFiles | packages.NeedSyntax | packages.NeedTypes |
			packages.NeedTypesInfo | packages.NeedImports | packages.NeedDeps,
		Dir: *repo, Fset: fset,
		Env: append(os.Environ(), "GOFLAGS=-mod=mod", "GOPROXY=off", "GOSUMDB=off", "GOTOOLCHAIN=local"),
	}
	loaded, err := packages.Load(cfg, root, root+"/internal/wasm", root+"/internal/sys")
	if err != nil {
		die("load: %v", err)
	}
	var visit func(p *packages.Package)
	visit = func(p *packages.Package) {
		if _, ok := pkgs[p.PkgPath]; ok {
			return
		}
		pkgs[p.PkgPath] = p
		if len(p.Errors) > 0 && strings.HasPrefix(p.PkgPath, root) {
			die("package %s: %v", p.PkgPath, p.Errors[0])
		}
		for _, f := range p.Syntax {
			for _, d := range f.Decls {
				if fd, ok := d.(*ast.FuncDecl); ok {
					if fn, ok := p.TypesInfo.Defs[fd.Name].(*types.Func); ok {
						decls[fn] = fd
						infoOf[fd] = p.TypesInfo
					}
				}
			}
		}
		for _, q := range p.Imports {
			if strings.HasPrefix(q.PkgPath, root) {
				visit(q)
			}
		}
	}
	for _, p := range loaded {
		visit(p)
	}

	// 1. Store.instantiate and the build*/apply* methods it calls on the new instance
	inst := findFunc(root+"/internal/wasm", "Store", "instantiate")
	analyze(inst, localObj(inst, "m"), map[types.Object]bool{paramObj(inst, "module"): true}, "", true)
	{ // the Sys field is a parameter of instantiate: resolved in step 3 at the caller
		var keep []fact
		for _, f := range facts {
			if f.path != "Sys" {
				keep = append(keep, f)
			}
		}
		facts = keep
	}
	// 2. the memory instance built by NewMemoryInstance(memSec = module.MemorySection, …)
	nm := findFunc(root+"/internal/wasm", "", "NewMemoryInstance")
	{
		fe := &fnEnv{decl: nm, info: infoOf[nm], shared: map[types.Object]bool{paramObj(nm, "memSec"): true}}
		n := 0
		ast.Inspect(nm.Body, func(nd ast.Node) bool {
			if r, ok := nd.(*ast.ReturnStmt); ok && len(r.Results) == 1 {
				if lit := literalOf(r.Results[0]); lit != nil {
					n++
					for _, el := range lit.Elts {
						kv := el.(*ast.KeyValueExpr)
						emit("MemoryInstance."+kv.Key.(*ast.Ident).Name, fe.classify(kv.Value, map[types.Object]bool{}))
					}
				} else {
					emit("MemoryInstance.<return>", "unknown")
				}
			}
			return true
		})
		if n == 0 {
			emit("MemoryInstance.<return>", "unknown")
		}
	}
	// 3. the system context: what runtime.InstantiateModule passes to Store.Instantiate
	im := findFunc(root, "runtime", "InstantiateModule")
	{
		fe := &fnEnv{decl: im, info: infoOf[im], shared: map[types.Object]bool{}}
		found := false
		ast.Inspect(im.Body, func(nd ast.Node) bool {
			if c, ok := nd.(*ast.CallExpr); ok {
				if _, name := calleeOf(fe.info, c); name == "Instantiate" && len(c.Args) == 5 {
					found = true
					emit("Sys", fe.classify(c.Args[3], map[types.Object]bool{}))
				}
			}
			return true
		})
		if !found {
			emit("Sys", "unknown")
		}
	}
	// 4. defaults of the system context (NewContext): clocks, random source
	nc := findFunc(root+"/internal/sys", "", "NewContext")
	analyze(nc, localObj(nc, "sysCtx"), map[types.Object]bool{}, "Sys.", false)

	// dedupe, keep order stable
	seen := map[fact]bool{}
	var uniq []fact
	for _, f := range facts {
		if !seen[f] {
			seen[f] = true
			uniq = append(uniq, f)
		}
	}
	sort.SliceStable(uniq, func(i, j int) bool { return uniq[i].path < uniq[j].path })
	var b strings.Builder
	b.WriteString("/- GENERATED by translate/facts/c11_sharing from the Go source; do not edit. -/\n")
	b.WriteString("import Wz.Model.Isolation\nnamespace Wz.Gen.C11Sharing\nopen Wz.Model.Isolation\n\n")
	b.WriteString("/-- (part of the new ModuleInstance, where instantiation takes it from) -/\n")
	b.WriteString("def fields : List (String × String) := [\n")
	for i, f := range uniq {
		sep := ","
		if i == len(uniq)-1 {
			sep = ""
		}
		fmt.Fprintf(&b, "  (%q, %q)%s\n", f.path, f.kind, sep)
	}
	b.WriteString("]\n\n/-- the instantiation shape of the code as it is now -/\ndef shape : Shape := shapeOf fields\n\nend Wz.Gen.C11Sharing\n")
	dir := filepath.Join(*out, "Wz", "Gen")
	if err := os.MkdirAll(dir, 0o755); err != nil {
		die("%v", err)
	}
	if err := os.WriteFile(filepath.Join(dir, "C11Sharing.lean"), []byte(b.String()), 0o644); err != nil {
		die("%v", err)
	}
}
