// c19_effects: go/ast fact extractor for property C19 (tie A).
//
// For every `With…` method of runtimeConfig / moduleConfig (config.go), fsConfig (fsconfig.go) and
// sock.Config (internal/sock/sock.go), and for the statements of Runtime.InstantiateModule (runtime.go)
// that touch the caller's *moduleConfig, it emits the list of primitive effects the source performs
// (clone kind incl. which fields `clone()` deep-copies; per statement: assign-scalar, assign-arg-slice,
// assign-fresh-slice, index-write, append, map-write; guards of if/else chains) as Lean data in
// lean/Wz/Gen/ConfigEffects.lean.  Anything outside the recognised statement forms makes it REFUSE
// (exit 1): a refused translation is reported by ./check as a broken tie, never silently defaulted.
package main

import (
	"flag"
	"fmt"
	"go/ast"
	"go/parser"
	"go/printer"
	"go/token"
	"os"
	"path/filepath"
	"sort"
	"strings"
)

var fset = token.NewFileSet()

func refuse(pos token.Pos, f string, a ...any) {
	fmt.Fprintf(os.Stderr, "c19_effects: REFUSED at %s: %s\n", fset.Position(pos), fmt.Sprintf(f, a...))
	os.Exit(1)
}

func src(n ast.Node) string {
	var sb strings.Builder
	printer.Fprint(&sb, fset, n)
	return strings.Join(strings.Fields(sb.String()), " ")
}

type fieldKind string

type structInfo struct {
	lean   string // name used in the Lean table
	goName string
	file   *ast.File
	fields []string
	kinds  map[string]fieldKind
	deep   []string // fields deep-copied by clone(); nil if no clone method
	hasCl  bool
}

type path struct {
	guard []string // Lean Atom terms
	clone string   // Lean Clone term, "" = not yet cloned
	effs  []string // Lean Eff terms
	done  bool
	ret   string // name of the local holding the copy
}

type method struct {
	recv, name string
	delegate   string
	paths      []path
	note       []string
	params     []string // Go parameter names in order
	derived    []string // locals computed from parameters by pure calls (supplied by the harness)
	flags      []string // opaque conditions (supplied by the harness)
}

func q(s string) string { return fmt.Sprintf("%q", s) }

func qlist(ss []string) string {
	qs := make([]string, len(ss))
	for i, s := range ss {
		qs[i] = q(s)
	}
	return "[" + strings.Join(qs, ", ") + "]"
}

func parse(repo, rel string) *ast.File {
	f, err := parser.ParseFile(fset, filepath.Join(repo, rel), nil, parser.ParseComments)
	if err != nil {
		fmt.Fprintf(os.Stderr, "c19_effects: REFUSED: %v\n", err)
		os.Exit(1)
	}
	return f
}

func findStruct(f *ast.File, name, lean string) *structInfo {
	for _, d := range f.Decls {
		gd, ok := d.(*ast.GenDecl)
		if !ok {
			continue
		}
		for _, s := range gd.Specs {
			ts, ok := s.(*ast.TypeSpec)
			if !ok || ts.Name.Name != name {
				continue
			}
			st, ok := ts.Type.(*ast.StructType)
			if !ok {
				refuse(ts.Pos(), "%s is not a struct", name)
			}
			si := &structInfo{lean: lean, goName: name, file: f, kinds: map[string]fieldKind{}}
			for _, fl := range st.Fields.List {
				k := fieldKind("scalar")
				switch t := fl.Type.(type) {
				case *ast.ArrayType:
					if t.Len != nil {
						refuse(fl.Pos(), "array-typed field in %s", name)
					}
					k = "slice"
				case *ast.MapType:
					k = "map"
				case *ast.ChanType:
					refuse(fl.Pos(), "chan-typed field in %s", name)
				}
				if len(fl.Names) == 0 {
					refuse(fl.Pos(), "embedded field in %s", name)
				}
				for _, n := range fl.Names {
					si.fields = append(si.fields, n.Name)
					si.kinds[n.Name] = k
				}
			}
			return si
		}
	}
	fmt.Fprintf(os.Stderr, "c19_effects: REFUSED: struct %s not found\n", name)
	os.Exit(1)
	return nil
}

func recvOf(fd *ast.FuncDecl) (recvName, typeName string, ptr bool) {
	if fd.Recv == nil || len(fd.Recv.List) != 1 {
		return "", "", false
	}
	r := fd.Recv.List[0]
	if len(r.Names) == 1 {
		recvName = r.Names[0].Name
	}
	switch t := r.Type.(type) {
	case *ast.StarExpr:
		if id, ok := t.X.(*ast.Ident); ok {
			return recvName, id.Name, true
		}
	case *ast.Ident:
		return recvName, t.Name, false
	}
	return recvName, "", false
}

// sel matches `<base>.<field>` and returns field.
func sel(e ast.Expr, base string) (string, bool) {
	s, ok := e.(*ast.SelectorExpr)
	if !ok {
		return "", false
	}
	id, ok := s.X.(*ast.Ident)
	if !ok || id.Name != base {
		return "", false
	}
	return s.Sel.Name, true
}

func isIdent(e ast.Expr, name string) bool {
	id, ok := e.(*ast.Ident)
	return ok && id.Name == name
}

func callTo(e ast.Expr, fn string) (*ast.CallExpr, bool) {
	c, ok := e.(*ast.CallExpr)
	if !ok {
		return nil, false
	}
	if id, ok := c.Fun.(*ast.Ident); ok && id.Name == fn {
		return c, true
	}
	return nil, false
}

// analyseClone recognises:  ret := *c ;  ret.F = make(map…, len(c.F)) + for k,v := range c.F { ret.F[k] = v } ;
// ret.F = make([]T, 0, len(c.F)) + ret.F = append(ret.F, c.F...) ;  return &ret | ret.
func analyseClone(si *structInfo) {
	for _, d := range si.file.Decls {
		fd, ok := d.(*ast.FuncDecl)
		if !ok || fd.Name.Name != "clone" {
			continue
		}
		c, tn, _ := recvOf(fd)
		if tn != si.goName {
			continue
		}
		si.hasCl = true
		made := map[string]string{} // field -> "slice"|"map" after make
		copied := map[string]bool{}
		ret := ""
		for i, st := range fd.Body.List {
			switch s := st.(type) {
			case *ast.AssignStmt:
				if len(s.Lhs) != 1 || len(s.Rhs) != 1 {
					refuse(s.Pos(), "clone: unsupported assignment %s", src(s))
				}
				if s.Tok == token.DEFINE {
					id, ok := s.Lhs[0].(*ast.Ident)
					st, ok2 := s.Rhs[0].(*ast.StarExpr)
					if i != 0 || !ok || !ok2 || !isIdent(st.X, c) {
						refuse(s.Pos(), "clone: expected `ret := *%s` first, got %s", c, src(s))
					}
					ret = id.Name
					continue
				}
				f, ok := sel(s.Lhs[0], ret)
				if !ok {
					refuse(s.Pos(), "clone: unsupported assignment target %s", src(s))
				}
				if mk, ok := callTo(s.Rhs[0], "make"); ok {
					switch mk.Args[0].(type) {
					case *ast.MapType:
						made[f] = "map"
					case *ast.ArrayType:
						if len(mk.Args) != 3 || src(mk.Args[1]) != "0" || src(mk.Args[2]) != fmt.Sprintf("len(%s.%s)", c, f) {
							refuse(s.Pos(), "clone: slice make must be make(T, 0, len(%s.%s)): %s", c, f, src(s))
						}
						made[f] = "slice"
					default:
						refuse(s.Pos(), "clone: unsupported make %s", src(s))
					}
					continue
				}
				if ap, ok := callTo(s.Rhs[0], "append"); ok {
					if made[f] != "slice" || len(ap.Args) != 2 || !ap.Ellipsis.IsValid() ||
						src(ap.Args[0]) != ret+"."+f || src(ap.Args[1]) != c+"."+f {
						refuse(s.Pos(), "clone: unsupported append %s", src(s))
					}
					copied[f] = true
					continue
				}
				refuse(s.Pos(), "clone: unsupported statement %s", src(s))
			case *ast.RangeStmt:
				f, ok := sel(s.X, c)
				if !ok || made[f] != "map" || len(s.Body.List) != 1 {
					refuse(s.Pos(), "clone: unsupported range %s", src(s))
				}
				k, v := src(s.Key), src(s.Value)
				if src(s.Body.List[0]) != fmt.Sprintf("%s.%s[%s] = %s", ret, f, k, v) {
					refuse(s.Pos(), "clone: unsupported range body %s", src(s.Body.List[0]))
				}
				copied[f] = true
			case *ast.ReturnStmt:
				if len(s.Results) != 1 || (src(s.Results[0]) != "&"+ret && src(s.Results[0]) != ret) {
					refuse(s.Pos(), "clone: unsupported return %s", src(s))
				}
			default:
				refuse(st.Pos(), "clone: unsupported statement %s", src(st))
			}
		}
		for f := range made {
			if !copied[f] {
				refuse(fd.Pos(), "clone of %s: field %s is re-made but its contents are not copied", si.goName, f)
			}
		}
		for _, f := range si.fields {
			if copied[f] {
				si.deep = append(si.deep, f)
			}
		}
		return
	}
}

type ctx struct {
	si     *structInfo
	all    map[string]*structInfo
	c      string          // receiver name
	params map[string]bool // parameter names (and derived locals)
	slicep map[string]bool // slice-typed / variadic parameters
	m      *method
	ixvar  map[string]string // local index variable -> Lean Ix term (without plus)
}

func (x *ctx) sexpr(e ast.Expr) string {
	switch v := e.(type) {
	case *ast.Ident:
		if v.Name == "true" || v.Name == "false" {
			return ".lit " + q(v.Name)
		}
		if x.params[v.Name] {
			return ".param " + q(v.Name)
		}
	case *ast.UnaryExpr:
		if v.Op == token.NOT {
			if id, ok := v.X.(*ast.Ident); ok && x.params[id.Name] {
				return ".notParam " + q(id.Name)
			}
		}
	case *ast.BasicLit:
		return ".lit " + q(v.Value)
	case *ast.CallExpr:
		// []byte(p): a copying conversion of a string parameter
		if at, ok := v.Fun.(*ast.ArrayType); ok && at.Len == nil && src(at.Elt) == "byte" && len(v.Args) == 1 {
			if id, ok := v.Args[0].(*ast.Ident); ok && x.params[id.Name] {
				return ".param " + q(id.Name)
			}
		}
	case *ast.CompositeLit:
		var ps []string
		for _, el := range v.Elts {
			id, ok := el.(*ast.Ident)
			if !ok || !x.params[id.Name] {
				refuse(e.Pos(), "unsupported composite literal element %s", src(el))
			}
			ps = append(ps, id.Name)
		}
		return ".tuple " + qlist(ps)
	}
	refuse(e.Pos(), "unsupported right-hand side %s", src(e))
	return ""
}

// walk processes a statement list for every open path.
func (x *ctx) walk(stmts []ast.Stmt, in []path) []path {
	cur := in
	for _, st := range stmts {
		var next []path
		for _, p := range cur {
			if p.done {
				next = append(next, p)
				continue
			}
			next = append(next, x.stmt(st, p)...)
		}
		cur = next
	}
	return cur
}

func cp(p path) path {
	p.guard = append([]string(nil), p.guard...)
	p.effs = append([]string(nil), p.effs...)
	return p
}

func (x *ctx) stmt(st ast.Stmt, p path) []path {
	c := x.c
	switch s := st.(type) {
	case *ast.AssignStmt:
		if len(s.Lhs) != 1 || len(s.Rhs) != 1 {
			refuse(s.Pos(), "unsupported assignment %s", src(s))
		}
		lhs, rhs := s.Lhs[0], s.Rhs[0]
		if s.Tok == token.DEFINE {
			id, ok := lhs.(*ast.Ident)
			if !ok {
				refuse(s.Pos(), "unsupported definition %s", src(s))
			}
			// ret := c.clone()
			if call, ok := rhs.(*ast.CallExpr); ok && src(call.Fun) == c+".clone" && len(call.Args) == 0 {
				if p.clone != "" {
					refuse(s.Pos(), "second clone")
				}
				if !x.si.hasCl {
					refuse(s.Pos(), "%s has no clone method", x.si.goName)
				}
				p.clone = ".deep " + qlist(x.si.deep)
				p.ret = id.Name
				return []path{p}
			}
			// ret := *c
			if se, ok := rhs.(*ast.StarExpr); ok && isIdent(se.X, c) {
				if p.clone != "" {
					refuse(s.Pos(), "second copy")
				}
				p.clone = ".shallow"
				p.ret = id.Name
				return []path{p}
			}
			// local := pureFunction(params…): a derived parameter, supplied by the harness under the local's name
			if call, ok := rhs.(*ast.CallExpr); ok && !mentions(rhs, c) && (p.ret == "" || !mentions(rhs, p.ret)) {
				for _, a := range call.Args {
					if aid, ok := a.(*ast.Ident); !ok || !x.params[aid.Name] {
						refuse(s.Pos(), "unsupported derived local %s", src(s))
					}
				}
				x.params[id.Name] = true
				x.m.derived = appendUnique(x.m.derived, id.Name)
				x.m.note = appendUnique(x.m.note, "derived parameter: "+src(s))
				return []path{p}
			}
			refuse(s.Pos(), "unsupported definition %s", src(s))
		}
		if s.Tok != token.ASSIGN {
			refuse(s.Pos(), "unsupported assignment operator in %s", src(s))
		}
		if p.ret == "" {
			refuse(s.Pos(), "assignment before a copy was made: %s", src(s))
		}
		// ret.F = …
		if f, ok := sel(lhs, p.ret); ok {
			k, known := x.si.kinds[f]
			if !known {
				refuse(s.Pos(), "unknown field %s", f)
			}
			switch k {
			case "scalar":
				p.effs = append(p.effs, fmt.Sprintf(".assignScalar %s (%s)", q(f), x.sexpr(rhs)))
			case "slice":
				if id, ok := rhs.(*ast.Ident); ok && x.slicep[id.Name] {
					p.effs = append(p.effs, fmt.Sprintf(".assignArgSlice %s %s", q(f), q(id.Name)))
				} else if call, ok := callTo(rhs, "toByteSlices"); ok && len(call.Args) == 1 && isFreshBuilder(x.si.file, "toByteSlices") {
					id, ok := call.Args[0].(*ast.Ident)
					if !ok || !x.slicep[id.Name] {
						refuse(s.Pos(), "unsupported toByteSlices argument in %s", src(s))
					}
					p.effs = append(p.effs, fmt.Sprintf(".assignFreshSlice %s %s", q(f), q(id.Name)))
				} else if call, ok := callTo(rhs, "append"); ok && len(call.Args) >= 2 && !call.Ellipsis.IsValid() && src(call.Args[0]) == p.ret+"."+f {
					var es []string
					for _, a := range call.Args[1:] {
						es = append(es, x.sexpr(a))
					}
					p.effs = append(p.effs, fmt.Sprintf(".append %s [%s]", q(f), strings.Join(es, ", ")))
				} else {
					refuse(s.Pos(), "unsupported slice assignment %s", src(s))
				}
			default:
				refuse(s.Pos(), "unsupported assignment to map field %s", src(s))
			}
			return []path{p}
		}
		// ret.F[ix] = …
		if ie, ok := lhs.(*ast.IndexExpr); ok {
			f, ok := sel(ie.X, p.ret)
			if !ok {
				refuse(s.Pos(), "unsupported index assignment %s", src(s))
			}
			switch x.si.kinds[f] {
			case "slice":
				ix := x.index(ie.Index)
				p.effs = append(p.effs, fmt.Sprintf(".indexWrite %s %s (%s)", q(f), ix, x.sexpr(rhs)))
			case "map":
				key, ok := ie.Index.(*ast.Ident)
				if !ok || !x.params[key.Name] {
					refuse(s.Pos(), "unsupported map key in %s", src(s))
				}
				ln, ok := callTo(rhs, "len")
				if !ok || len(ln.Args) != 1 {
					refuse(s.Pos(), "unsupported map value in %s", src(s))
				}
				lf, ok := sel(ln.Args[0], p.ret)
				if !ok || x.si.kinds[lf] != "slice" {
					refuse(s.Pos(), "unsupported map value in %s", src(s))
				}
				p.effs = append(p.effs, fmt.Sprintf(".mapWrite %s %s %s", q(f), q(key.Name), q(lf)))
			default:
				refuse(s.Pos(), "index assignment to non-reference field %s", src(s))
			}
			return []path{p}
		}
		refuse(s.Pos(), "unsupported assignment %s", src(s))
	case *ast.IfStmt:
		// if cond { panic(…) }
		if s.Init == nil && s.Else == nil && len(s.Body.List) == 1 {
			if es, ok := s.Body.List[0].(*ast.ExprStmt); ok {
				if _, ok := callTo(es.X, "panic"); ok {
					x.m.note = appendUnique(x.m.note, "panics (no configuration produced) when "+src(s.Cond))
					return []path{p}
				}
			}
		}
		pos, neg := x.cond(s, p)
		a, b := cp(p), cp(p)
		a.guard = append(a.guard, pos)
		b.guard = append(b.guard, neg)
		out := x.walk(s.Body.List, []path{a})
		switch e := s.Else.(type) {
		case nil:
			out = append(out, b)
		case *ast.BlockStmt:
			out = append(out, x.walk(e.List, []path{b})...)
		case *ast.IfStmt:
			out = append(out, x.stmt(e, b)...)
		}
		return out
	case *ast.ReturnStmt:
		if len(s.Results) != 1 {
			refuse(s.Pos(), "unsupported return %s", src(s))
		}
		r := src(s.Results[0])
		switch {
		case r == c && p.ret == "":
			p.clone = ".self"
		case p.ret != "" && (r == p.ret || r == "&"+p.ret):
		default:
			refuse(s.Pos(), "unsupported return %s", src(s))
		}
		p.done = true
		return []path{p}
	}
	refuse(st.Pos(), "unsupported statement %s", src(st))
	return nil
}

func appendUnique(l []string, s string) []string {
	for _, e := range l {
		if e == s {
			return l
		}
	}
	return append(l, s)
}

func mentions(n ast.Node, name string) bool {
	found := false
	ast.Inspect(n, func(m ast.Node) bool {
		if id, ok := m.(*ast.Ident); ok && id.Name == name {
			found = true
		}
		return true
	})
	return found
}

// isFreshBuilder: the helper allocates its result with make and never returns its parameter.
func isFreshBuilder(f *ast.File, name string) bool {
	for _, d := range f.Decls {
		fd, ok := d.(*ast.FuncDecl)
		if !ok || fd.Recv != nil || fd.Name.Name != name {
			continue
		}
		hasMake := false
		bad := false
		param := fd.Type.Params.List[0].Names[0].Name
		ast.Inspect(fd.Body, func(n ast.Node) bool {
			switch v := n.(type) {
			case *ast.CallExpr:
				if id, ok := v.Fun.(*ast.Ident); ok && id.Name == "make" {
					hasMake = true
				}
			case *ast.ReturnStmt:
				for _, r := range v.Results {
					if mentions(r, param) {
						bad = true
					}
				}
			case *ast.AssignStmt:
				// result = strings / result = strings[…] would alias the parameter
				for i, l := range v.Lhs {
					if id, ok := l.(*ast.Ident); ok && id.Name == "result" && i < len(v.Rhs) {
						if _, isCall := v.Rhs[i].(*ast.CallExpr); !isCall {
							bad = true
						}
					}
				}
			}
			return true
		})
		return hasMake && !bad
	}
	return false
}

// index recognises `i` and `i+N` where i was bound by `if i, ok := ret.M[key]; ok`.
func (x *ctx) index(e ast.Expr) string {
	switch v := e.(type) {
	case *ast.Ident:
		if ix, ok := x.ixvar[v.Name]; ok {
			return fmt.Sprintf("⟨%s, 0⟩", ix)
		}
	case *ast.BinaryExpr:
		if id, ok := v.X.(*ast.Ident); ok && v.Op == token.ADD {
			if ix, ok := x.ixvar[id.Name]; ok {
				if bl, ok := v.Y.(*ast.BasicLit); ok && bl.Kind == token.INT {
					return fmt.Sprintf("⟨%s, %s⟩", ix, bl.Value)
				}
			}
		}
	}
	refuse(e.Pos(), "unsupported index expression %s", src(e))
	return ""
}

// cond returns the Lean atoms for the condition and its negation.
func (x *ctx) cond(s *ast.IfStmt, p path) (string, string) {
	if s.Init != nil {
		as, ok := s.Init.(*ast.AssignStmt)
		if !ok || as.Tok != token.DEFINE || len(as.Lhs) != 2 || len(as.Rhs) != 1 || !isIdent(s.Cond, src(as.Lhs[1])) {
			refuse(s.Pos(), "unsupported if-init %s", src(s.Init))
		}
		switch r := as.Rhs[0].(type) {
		case *ast.IndexExpr: // i, ok := ret.M[key]
			base := p.ret
			if base == "" {
				base = x.c
			}
			m, ok := sel(r.X, base)
			key, ok2 := r.Index.(*ast.Ident)
			if !ok || !ok2 || x.si.kinds[m] != "map" || !x.params[key.Name] {
				refuse(s.Pos(), "unsupported map lookup %s", src(r))
			}
			if iv := src(as.Lhs[0]); iv != "_" {
				x.ixvar[iv] = fmt.Sprintf("%s, %s", q(m), q(key.Name))
			}
			return fmt.Sprintf(".keyIn %s %s", q(m), q(key.Name)), fmt.Sprintf(".keyNotIn %s %s", q(m), q(key.Name))
		case *ast.TypeAssertExpr: // _, ok := p.(T)
			id, ok := r.X.(*ast.Ident)
			if !ok || !x.params[id.Name] {
				refuse(s.Pos(), "unsupported type assertion %s", src(r))
			}
			name := fmt.Sprintf("%s.(%s)", id.Name, src(r.Type))
			x.m.flags = appendUnique(x.m.flags, name)
			return ".flag " + q(name), ".notFlag " + q(name)
		}
		refuse(s.Pos(), "unsupported if-init %s", src(s.Init))
	}
	if be, ok := s.Cond.(*ast.BinaryExpr); ok && isIdent(be.Y, "nil") {
		if id, ok := be.X.(*ast.Ident); ok && x.params[id.Name] {
			switch be.Op {
			case token.NEQ:
				return ".notNil " + q(id.Name), ".isNil " + q(id.Name)
			case token.EQL:
				return ".isNil " + q(id.Name), ".notNil " + q(id.Name)
			}
		}
	}
	refuse(s.Pos(), "unsupported condition %s", src(s.Cond))
	return "", ""
}

// delegation: [local declarations not mentioning c]* ; return c.Other(args)
func (x *ctx) delegation(fd *ast.FuncDecl) (string, bool) {
	n := len(fd.Body.List)
	if n == 0 {
		return "", false
	}
	rs, ok := fd.Body.List[n-1].(*ast.ReturnStmt)
	if !ok || len(rs.Results) != 1 {
		return "", false
	}
	call, ok := rs.Results[0].(*ast.CallExpr)
	if !ok {
		return "", false
	}
	target, ok := sel(call.Fun, x.c)
	if !ok {
		return "", false
	}
	for _, a := range call.Args {
		if mentions(a, x.c) {
			refuse(a.Pos(), "delegating call passes the receiver: %s", src(call))
		}
	}
	for _, st := range fd.Body.List[:n-1] {
		if mentions(st, x.c) {
			refuse(st.Pos(), "statement before a delegating return mentions the receiver: %s", src(st))
		}
	}
	x.m.note = append(x.m.note, "delegates: "+src(rs))
	return target, true
}

func methodsOf(si *structInfo, all map[string]*structInfo) []*method {
	var out []*method
	for _, d := range si.file.Decls {
		fd, ok := d.(*ast.FuncDecl)
		if !ok || !strings.HasPrefix(fd.Name.Name, "With") {
			continue
		}
		c, tn, ptr := recvOf(fd)
		if tn != si.goName {
			continue
		}
		if !ptr || c == "" {
			refuse(fd.Pos(), "%s.%s: receiver must be a named pointer", tn, fd.Name.Name)
		}
		m := &method{recv: si.lean, name: fd.Name.Name}
		x := &ctx{si: si, all: all, c: c, params: map[string]bool{}, slicep: map[string]bool{}, m: m, ixvar: map[string]string{}}
		for _, pl := range fd.Type.Params.List {
			for _, n := range pl.Names {
				x.params[n.Name] = true
				m.params = append(m.params, n.Name)
				switch t := pl.Type.(type) {
				case *ast.Ellipsis:
					x.slicep[n.Name] = true
				case *ast.ArrayType:
					if t.Len == nil {
						x.slicep[n.Name] = true
					}
				}
			}
		}
		if t, ok := x.delegation(fd); ok {
			m.delegate = t
		} else {
			ps := x.walk(fd.Body.List, []path{{}})
			for _, p := range ps {
				if !p.done {
					refuse(fd.Pos(), "%s.%s: a path does not end in a return", tn, fd.Name.Name)
				}
				if p.clone == "" {
					refuse(fd.Pos(), "%s.%s: a path returns without a value", tn, fd.Name.Name)
				}
			}
			m.paths = ps
		}
		out = append(out, m)
	}
	return out
}

// instantiate: the statements of (*runtime).InstantiateModule that touch the caller's *moduleConfig.
func instantiate(f *ast.File, mc *structInfo) *method {
	for _, d := range f.Decls {
		fd, ok := d.(*ast.FuncDecl)
		if !ok || fd.Name.Name != "InstantiateModule" {
			continue
		}
		if _, tn, _ := recvOf(fd); tn != "runtime" {
			continue
		}
		m := &method{recv: mc.lean, name: "InstantiateModule"}
		cfgVar := ""
		p := path{clone: ".self"}
		var visit func(stmts []ast.Stmt, guarded bool)
		visit = func(stmts []ast.Stmt, guarded bool) {
			for _, st := range stmts {
				switch s := st.(type) {
				case *ast.AssignStmt:
					if len(s.Lhs) == 1 && len(s.Rhs) == 1 {
						if ta, ok := s.Rhs[0].(*ast.TypeAssertExpr); ok && s.Tok == token.DEFINE && src(ta.Type) == "*"+mc.goName {
							cfgVar = src(s.Lhs[0])
							continue
						}
					}
					if cfgVar == "" {
						continue
					}
					for i, l := range s.Lhs {
						if isIdent(l, cfgVar) {
							if len(s.Rhs) == len(s.Lhs) && src(s.Rhs[i]) == cfgVar+".clone()" {
								if p.clone != ".self" || len(p.effs) > 0 {
									refuse(s.Pos(), "InstantiateModule: clone after a write")
								}
								p.clone = ".deep " + qlist(mc.deep)
								continue
							}
							refuse(s.Pos(), "InstantiateModule: unsupported re-assignment of %s: %s", cfgVar, src(s))
						}
						if fname, ok := sel(l, cfgVar); ok {
							if mc.kinds[fname] != "scalar" {
								refuse(s.Pos(), "InstantiateModule: write to reference field: %s", src(s))
							}
							rhs, ok := s.Rhs[i].(*ast.Ident)
							if !ok {
								refuse(s.Pos(), "InstantiateModule: unsupported right-hand side: %s", src(s))
							}
							p.effs = append(p.effs, fmt.Sprintf(".assignScalar %s (.param %s)", q(fname), q(rhs.Name)))
							continue
						}
						if ie, ok := l.(*ast.IndexExpr); ok && mentions(ie.X, cfgVar) {
							refuse(s.Pos(), "InstantiateModule: indexed write through the configuration: %s", src(s))
						}
					}
				case *ast.IfStmt:
					visit(s.Body.List, true)
					switch e := s.Else.(type) {
					case *ast.BlockStmt:
						visit(e.List, true)
					case *ast.IfStmt:
						visit([]ast.Stmt{e}, true)
					}
				case *ast.BlockStmt:
					visit(s.List, guarded)
				case *ast.ForStmt, *ast.RangeStmt, *ast.SwitchStmt, *ast.TypeSwitchStmt, *ast.SelectStmt:
					if cfgVar != "" && assignsThrough(st, cfgVar) {
						refuse(st.Pos(), "InstantiateModule: configuration written inside a loop/switch")
					}
				}
			}
		}
		visit(fd.Body.List, false)
		if cfgVar == "" {
			refuse(fd.Pos(), "InstantiateModule: no `config := mConfig.(*%s)`", mc.goName)
		}
		m.params = []string{"sockConfig"}
		m.flags = []string{"ctxHasSockConfig"}
		m.note = append(m.note, "statements of Runtime.InstantiateModule that assign to the caller's *moduleConfig; guard: the context carries a sock.Config")
		withSock := p
		withSock.guard = []string{".flag \"ctxHasSockConfig\""}
		if len(p.effs) == 0 {
			withSock.clone = ".self"
		}
		m.paths = []path{withSock, {guard: []string{".notFlag \"ctxHasSockConfig\""}, clone: ".self"}}
		return m
	}
	fmt.Fprintf(os.Stderr, "c19_effects: REFUSED: (*runtime).InstantiateModule not found\n")
	os.Exit(1)
	return nil
}

func assignsThrough(n ast.Node, v string) bool {
	found := false
	ast.Inspect(n, func(m ast.Node) bool {
		if as, ok := m.(*ast.AssignStmt); ok {
			for _, l := range as.Lhs {
				if mentions(l, v) {
					found = true
				}
			}
		}
		return true
	})
	return found
}

func main() {
	repo := flag.String("repo", "/repo", "wazero checkout")
	out := flag.String("out", "", "lean directory (the file is written to <out>/Wz/Gen/ConfigEffects.lean)")
	flag.Parse()
	cfg := parse(*repo, "config.go")
	fsc := parse(*repo, "fsconfig.go")
	rt := parse(*repo, "runtime.go")
	sk := parse(*repo, "internal/sock/sock.go")
	structs := []*structInfo{
		findStruct(cfg, "runtimeConfig", "runtimeConfig"),
		findStruct(cfg, "moduleConfig", "moduleConfig"),
		findStruct(fsc, "fsConfig", "fsConfig"),
		findStruct(sk, "Config", "sock.Config"),
	}
	all := map[string]*structInfo{}
	for _, s := range structs {
		all[s.lean] = s
		analyseClone(s)
	}
	var methods []*method
	for _, s := range structs {
		ms := methodsOf(s, all)
		if len(ms) == 0 {
			fmt.Fprintf(os.Stderr, "c19_effects: REFUSED: no With… methods found on %s\n", s.goName)
			os.Exit(1)
		}
		methods = append(methods, ms...)
	}
	methods = append(methods, instantiate(rt, all["moduleConfig"]))

	var sb strings.Builder
	sb.WriteString("-- GENERATED by /verif/translate/facts/c19_effects from the wazero working tree. DO NOT EDIT.\n")
	sb.WriteString("-- Regenerated on every check run (tie A, DESIGN.md section 3 / C19).\n")
	sb.WriteString("import Wz.Model.Config\n\nnamespace Wz.Gen.ConfigEffects\nopen Wz.Model.Config\n\n")
	sb.WriteString("def structs : List StructShape := [\n")
	for i, s := range structs {
		var fs []string
		for _, f := range s.fields {
			fs = append(fs, fmt.Sprintf("(%s, .%s)", q(f), s.kinds[f]))
		}
		sep := ","
		if i == len(structs)-1 {
			sep = ""
		}
		fmt.Fprintf(&sb, "  { name := %s, fields := [%s] }%s\n", q(s.lean), strings.Join(fs, ", "), sep)
	}
	sb.WriteString("]\n\n")
	sb.WriteString("/-- fields deep-copied by each struct's `clone()` -/\ndef cloneDeep : List (String × List String) := [\n")
	for i, s := range structs {
		sep := ","
		if i == len(structs)-1 {
			sep = ""
		}
		d := s.deep
		sort.Strings(d)
		fmt.Fprintf(&sb, "  (%s, %s)%s\n", q(s.lean), qlist(s.deep), sep)
	}
	sb.WriteString("]\n\n")
	sb.WriteString("def methods : List Method := [\n")
	for i, m := range methods {
		for _, n := range m.note {
			fmt.Fprintf(&sb, "  -- %s\n", n)
		}
		del := "none"
		if m.delegate != "" {
			del = "some " + q(m.delegate)
		}
		fmt.Fprintf(&sb, "  { recv := %s, name := %s, delegate := %s, paths := [", q(m.recv), q(m.name), del)
		for j, p := range m.paths {
			if j > 0 {
				sb.WriteString(",")
			}
			fmt.Fprintf(&sb, "\n      { guard := [%s], clone := %s, effs := [%s] }", strings.Join(p.guard, ", "), p.clone, strings.Join(p.effs, ", "))
		}
		sep := ","
		if i == len(methods)-1 {
			sep = ""
		}
		fmt.Fprintf(&sb, "] }%s\n", sep)
	}
	sb.WriteString("]\n\n")
	sb.WriteString("/-- call signatures for the harness: Go parameter names, derived locals and opaque flags each method's effects refer to -/\n")
	sb.WriteString("structure Sig where\n  recv : String\n  name : String\n  params : List String\n  derived : List String\n  flags : List String\n\n")
	sb.WriteString("def sigs : List Sig := [\n")
	for i, m := range methods {
		sep := ","
		if i == len(methods)-1 {
			sep = ""
		}
		fmt.Fprintf(&sb, "  { recv := %s, name := %s, params := %s, derived := %s, flags := %s }%s\n", q(m.recv), q(m.name), qlist(m.params), qlist(m.derived), qlist(m.flags), sep)
	}
	sb.WriteString("]\n\nend Wz.Gen.ConfigEffects\n")
	if *out == "" {
		fmt.Print(sb.String())
		return
	}
	dst := filepath.Join(*out, "Wz", "Gen", "ConfigEffects.lean")
	if err := os.MkdirAll(filepath.Dir(dst), 0o755); err != nil {
		fmt.Fprintln(os.Stderr, err)
		os.Exit(2)
	}
	if err := os.WriteFile(dst, []byte(sb.String()), 0o644); err != nil {
		fmt.Fprintln(os.Stderr, err)
		os.Exit(2)
	}
}
