// c13_cache: fact extractor for property C13 (tie A).
//
// Reads /repo's internal/filecache/file_cache.go and internal/engine/wazevo/engine_cache.go with
// go/ast and writes lean/Wz/Gen/FileCache.lean:
//
//   * addSteps     — the file-system calls of fileCache.Add in source order (the straight-line body),
//   * addCleanup   — the calls inside its deferred function,
//   * tempPattern  — the pattern handed to os.CreateTemp, split at the '*' (prefix uses fileName?),
//   * renameFromTemp / renameToFinal — Rename(file.Name(), path),
//   * magic        — the magic bytes of the wazevo cache entry.
//
// It refuses (exit 1) when Add is no longer a straight-line sequence of `if err…return` guarded calls,
// or when it meets a file-system call it does not know: a broken tie, never a silent default.
package main

import (
	"flag"
	"fmt"
	"go/ast"
	"go/parser"
	"go/token"
	"os"
	"path/filepath"
	"strconv"
	"strings"
)

func die(f string, a ...any) {
	fmt.Fprintf(os.Stderr, "c13_cache: "+f+"\n", a...)
	os.Exit(1)
}

func sel(e ast.Expr) (string, string, bool) {
	s, ok := e.(*ast.SelectorExpr)
	if !ok {
		return "", "", false
	}
	switch x := s.X.(type) {
	case *ast.Ident:
		return x.Name, s.Sel.Name, true
	}
	return "", "", false
}

// known file-system effects: (receiver-or-package, method) -> step name
func classify(call *ast.CallExpr, fileVar string) (string, bool) {
	x, m, ok := sel(call.Fun)
	if !ok {
		return "", false
	}
	switch {
	case x == "os" && m == "CreateTemp":
		return "createTemp", true
	case x == "io" && (m == "Copy" || m == "CopyBuffer" || m == "CopyN"):
		return "copy", true
	case x == fileVar && m == "Sync":
		return "sync", true
	case x == fileVar && m == "Close":
		return "close", true
	case x == fileVar && (m == "Write" || m == "WriteString" || m == "ReadFrom" || m == "WriteAt"):
		return "copy", true
	case x == "os" && m == "Rename":
		return "rename", true
	case x == "os" && m == "Remove":
		return "remove", true
	case x == "os" && (m == "Create" || m == "OpenFile" || m == "WriteFile" || m == "Link" || m == "Symlink" || m == "Truncate" || m == "RemoveAll" || m == "Open"):
		return "unknown:" + x + "." + m, true
	case x == "ioutil":
		return "unknown:" + x + "." + m, true
	}
	return "", false
}

type ext struct {
	steps, cleanup       []string
	patPrefix, patSuffix string
	patUsesFileName      bool
	renameFromTemp       bool
	renameToFinal        bool
	fileVar, pathVar     string
}

func (e *ext) callsIn(n ast.Node, into *[]string) {
	ast.Inspect(n, func(n ast.Node) bool {
		if _, ok := n.(*ast.FuncLit); ok && into == &e.steps {
			return false // deferred/closure bodies are handled separately
		}
		call, ok := n.(*ast.CallExpr)
		if !ok {
			return true
		}
		if name, ok := classify(call, e.fileVar); ok {
			// visit arguments first (none of the known calls nest), then record
			*into = append(*into, name)
			switch name {
			case "createTemp":
				e.pattern(call)
			case "rename":
				e.rename(call)
			}
		}
		return true
	})
}

func (e *ext) pattern(call *ast.CallExpr) {
	if len(call.Args) != 2 {
		die("os.CreateTemp with %d arguments", len(call.Args))
	}
	// accepted shapes:  "lit"   |  ident + "lit"
	var lit string
	switch a := call.Args[1].(type) {
	case *ast.BasicLit:
		lit, _ = strconv.Unquote(a.Value)
	case *ast.BinaryExpr:
		if id, ok := a.X.(*ast.Ident); ok && a.Op == token.ADD {
			e.patUsesFileName = id.Name == "fileName"
			if b, ok := a.Y.(*ast.BasicLit); ok {
				lit, _ = strconv.Unquote(b.Value)
			} else {
				die("CreateTemp pattern: unsupported expression")
			}
		} else {
			die("CreateTemp pattern: unsupported expression")
		}
	default:
		die("CreateTemp pattern: unsupported expression")
	}
	if i := strings.LastIndex(lit, "*"); i >= 0 {
		e.patPrefix, e.patSuffix = lit[:i]+"*", lit[i+1:]
	} else {
		e.patPrefix, e.patSuffix = lit, ""
	}
}

func (e *ext) rename(call *ast.CallExpr) {
	if len(call.Args) != 2 {
		die("os.Rename with %d arguments", len(call.Args))
	}
	if c, ok := call.Args[0].(*ast.CallExpr); ok {
		if x, m, ok := sel(c.Fun); ok && x == e.fileVar && m == "Name" {
			e.renameFromTemp = true
		}
	}
	if id, ok := call.Args[1].(*ast.Ident); ok && id.Name == e.pathVar {
		e.renameToFinal = true
	}
}

func leanList(xs []string, f func(string) string) string {
	ys := make([]string, len(xs))
	for i, x := range xs {
		ys[i] = f(x)
	}
	return "[" + strings.Join(ys, ", ") + "]"
}

func main() {
	repo := flag.String("repo", "/repo", "wazero checkout")
	out := flag.String("out", "", "lean project directory")
	flag.Parse()
	fset := token.NewFileSet()

	// ---- fileCache.Add
	fp := filepath.Join(*repo, "internal/filecache/file_cache.go")
	f, err := parser.ParseFile(fset, fp, nil, 0)
	if err != nil {
		die("%v", err)
	}
	var add *ast.FuncDecl
	for _, d := range f.Decls {
		if fd, ok := d.(*ast.FuncDecl); ok && fd.Name.Name == "Add" && fd.Recv != nil {
			add = fd
		}
	}
	if add == nil {
		die("fileCache.Add not found in %s", fp)
	}
	e := &ext{}
	// the variables: `path := fc.path(key)` and `file, err := os.CreateTemp(…)`
	for _, st := range add.Body.List {
		as, ok := st.(*ast.AssignStmt)
		if !ok || len(as.Rhs) != 1 {
			continue
		}
		call, ok := as.Rhs[0].(*ast.CallExpr)
		if !ok {
			continue
		}
		if x, m, ok := sel(call.Fun); ok {
			if x == "os" && m == "CreateTemp" {
				if id, ok := as.Lhs[0].(*ast.Ident); ok {
					e.fileVar = id.Name
				}
			}
			if m == "path" {
				if id, ok := as.Lhs[0].(*ast.Ident); ok {
					e.pathVar = id.Name
				}
			}
		}
	}
	if e.fileVar == "" {
		e.fileVar = "file"
	}
	if e.pathVar == "" {
		e.pathVar = "path"
	}
	// straight-line requirement: only assignments, `if … { return }` guards, defer, return, and
	// expression statements; no loops, no goroutines, no else-branches with effects.
	for _, st := range add.Body.List {
		switch s := st.(type) {
		case *ast.AssignStmt, *ast.ReturnStmt, *ast.ExprStmt, *ast.DeclStmt:
			e.callsIn(st, &e.steps)
		case *ast.IfStmt:
			if s.Init != nil {
				e.callsIn(s.Init, &e.steps)
			}
			e.callsIn(s.Cond, &e.steps)
			// the guarded block must only return (possibly after nothing else)
			for _, b := range s.Body.List {
				if _, ok := b.(*ast.ReturnStmt); !ok {
					die("fileCache.Add: guard block at %s does more than return", fset.Position(b.Pos()))
				}
			}
			if s.Else != nil {
				die("fileCache.Add: else branch at %s", fset.Position(s.Else.Pos()))
			}
		case *ast.DeferStmt:
			if fl, ok := s.Call.Fun.(*ast.FuncLit); ok {
				e.callsIn(fl.Body, &e.cleanup)
			} else {
				e.callsIn(s.Call, &e.cleanup)
			}
		default:
			die("fileCache.Add: unsupported statement at %s", fset.Position(st.Pos()))
		}
	}

	// ---- magic
	gp := filepath.Join(*repo, "internal/engine/wazevo/engine_cache.go")
	g, err := parser.ParseFile(fset, gp, nil, 0)
	if err != nil {
		die("%v", err)
	}
	var magic []string
	ast.Inspect(g, func(n ast.Node) bool {
		vs, ok := n.(*ast.ValueSpec)
		if !ok || len(vs.Names) != 1 || vs.Names[0].Name != "magic" || len(vs.Values) != 1 {
			return true
		}
		cl, ok := vs.Values[0].(*ast.CompositeLit)
		if !ok {
			die("magic is not a composite literal")
		}
		for _, el := range cl.Elts {
			bl, ok := el.(*ast.BasicLit)
			if !ok {
				die("magic element is not a literal")
			}
			switch bl.Kind {
			case token.CHAR:
				r, _, _, err := strconv.UnquoteChar(bl.Value[1:len(bl.Value)-1], '\'')
				if err != nil || r > 255 {
					die("magic element %s", bl.Value)
				}
				magic = append(magic, strconv.Itoa(int(r)))
			case token.INT:
				v, err := strconv.ParseUint(bl.Value, 0, 8)
				if err != nil {
					die("magic element %s", bl.Value)
				}
				magic = append(magic, strconv.Itoa(int(v)))
			default:
				die("magic element %s", bl.Value)
			}
		}
		return false
	})
	if len(magic) == 0 {
		die("magic not found in %s", gp)
	}

	stepName := func(s string) string {
		if strings.HasPrefix(s, "unknown:") {
			return "AddStep.other " + strconv.Quote(s[8:])
		}
		return "AddStep." + s
	}
	b := func(v bool) string {
		if v {
			return "true"
		}
		return "false"
	}
	var sb strings.Builder
	sb.WriteString("/- GENERATED by translate/facts/c13_cache from internal/filecache/file_cache.go and\n   internal/engine/wazevo/engine_cache.go — do not edit. -/\n")
	sb.WriteString("namespace Wz.Gen.FileCache\n\n")
	sb.WriteString("/-- one file-system call of `fileCache.Add` -/\ninductive AddStep where\n  | createTemp | copy | sync | close | rename | remove\n  | other (what : String)\n  deriving DecidableEq, Repr\n\n")
	sb.WriteString("/-- the calls of `fileCache.Add`, in source order (straight-line body, every call guarded by `if err != nil { return }`) -/\n")
	sb.WriteString("def addSteps : List AddStep := " + leanList(e.steps, stepName) + "\n\n")
	sb.WriteString("/-- the calls inside the deferred function of `Add` -/\n")
	sb.WriteString("def addCleanup : List AddStep := " + leanList(e.cleanup, stepName) + "\n\n")
	sb.WriteString("/-- `os.CreateTemp(dir, fileName + tempPatternPrefix… )`: the pattern literal up to and including its last `*`, and the rest -/\n")
	sb.WriteString("def tempPatternPrefix : String := " + strconv.Quote(e.patPrefix) + "\n")
	sb.WriteString("def tempPatternSuffix : String := " + strconv.Quote(e.patSuffix) + "\n")
	sb.WriteString("def tempPatternUsesFileName : Bool := " + b(e.patUsesFileName) + "\n")
	sb.WriteString("/-- the temp name is random (pattern contains `*`) and can never be a final name (non-empty literal part) -/\n")
	sb.WriteString("def tempNamesFresh : Bool := " + b(strings.HasSuffix(e.patPrefix, "*") && len(e.patPrefix)+len(e.patSuffix) > 1) + "\n")
	sb.WriteString("def renameFromTemp : Bool := " + b(e.renameFromTemp) + "\n")
	sb.WriteString("def renameToFinal : Bool := " + b(e.renameToFinal) + "\n\n")
	sb.WriteString("/-- `magic` of engine_cache.go -/\n")
	sb.WriteString("def magic : List Nat := [" + strings.Join(magic, ", ") + "]\n\n")
	sb.WriteString("end Wz.Gen.FileCache\n")
	dir := filepath.Join(*out, "Wz", "Gen")
	if err := os.MkdirAll(dir, 0o755); err != nil {
		die("%v", err)
	}
	if err := os.WriteFile(filepath.Join(dir, "FileCache.lean"), []byte(sb.String()), 0o644); err != nil {
		die("%v", err)
	}
}
