// Command c02_interp regenerates lean/Wz/Gen/InterpAddr.lean from
// internal/engine/interpreter/interpreter.go (tie A for property C02).
//
// It extracts, by syntax (go/ast), exactly the arithmetic that decides whether an interpreter memory
// access is in range:
//
//   - callEngine.popMemoryOffset: `offset := op.U2 + ce.popValue(); if offset > math.MaxUint32 {panic}; return uint32(offset)`
//   - the range conditions of memory.init / memory.copy / memory.fill (`case operationKindMemoryCopy:` ...)
//   - v128.load (128-bit case) and v128.store: the optional overflow guard and the offsets passed to
//     memoryInst.ReadUint64Le / WriteUint64Le, in program order.
//
// Everything is translated expression by expression into BitVec terms. Any shape it does not
// recognise makes it refuse (exit 1) — it never guesses.
package main

import (
	"flag"
	"fmt"
	"go/ast"
	"go/parser"
	"go/token"
	"os"
	"path/filepath"
	"strings"
)

func die(f string, a ...any) {
	fmt.Fprintf(os.Stderr, "c02_interp: REFUSE: "+f+"\n", a...)
	os.Exit(1)
}

// env maps Go identifiers / selector texts to (lean name, bit width).
type tv struct {
	lean string
	w    int
}
type env map[string]tv

func txt(e ast.Expr) string {
	switch x := e.(type) {
	case *ast.Ident:
		return x.Name
	case *ast.SelectorExpr:
		return txt(x.X) + "." + x.Sel.Name
	case *ast.CallExpr:
		var as []string
		for _, a := range x.Args {
			as = append(as, txt(a))
		}
		return txt(x.Fun) + "(" + strings.Join(as, ",") + ")"
	case *ast.ParenExpr:
		return "(" + txt(x.X) + ")"
	case *ast.BasicLit:
		return x.Value
	case *ast.BinaryExpr:
		return txt(x.X) + x.Op.String() + txt(x.Y)
	case *ast.IndexExpr:
		return txt(x.X) + "[" + txt(x.Index) + "]"
	}
	return fmt.Sprintf("<%T>", e)
}

func isConst(e ast.Expr) (string, bool) {
	switch x := e.(type) {
	case *ast.BasicLit:
		if x.Kind == token.INT {
			return x.Value, true
		}
	case *ast.SelectorExpr:
		if txt(x) == "math.MaxUint32" {
			return "4294967295", true
		}
	case *ast.ParenExpr:
		return isConst(x.X)
	}
	return "", false
}

// expr translates an unsigned-integer or boolean Go expression. width 1 = Bool.
func (en env) expr(e ast.Expr) tv {
	switch x := e.(type) {
	case *ast.ParenExpr:
		return en.expr(x.X)
	case *ast.Ident, *ast.SelectorExpr:
		if v, ok := en[txt(e)]; ok {
			return v
		}
		die("unknown operand %s", txt(e))
	case *ast.CallExpr:
		t := txt(x)
		if v, ok := en[t]; ok {
			return v
		}
		if id, ok := x.Fun.(*ast.Ident); ok && len(x.Args) == 1 {
			switch id.Name {
			case "uint32":
				a := en.expr(x.Args[0])
				return tv{fmt.Sprintf("(%s.setWidth 32)", a.lean), 32}
			case "uint64":
				a := en.expr(x.Args[0])
				if a.w == 64 {
					return a
				}
				return tv{fmt.Sprintf("(%s.setWidth 64)", a.lean), 64}
			}
		}
		die("unsupported call %s", t)
	case *ast.BinaryExpr:
		if x.Op == token.LOR || x.Op == token.LAND {
			a, b := en.expr(x.X), en.expr(x.Y)
			if a.w != 1 || b.w != 1 {
				die("boolean operator on non-bool: %s", txt(e))
			}
			op := "||"
			if x.Op == token.LAND {
				op = "&&"
			}
			return tv{fmt.Sprintf("(%s %s %s)", a.lean, op, b.lean), 1}
		}
		var a, b tv
		ca, aConst := isConst(x.X)
		cb, bConst := isConst(x.Y)
		switch {
		case aConst && bConst:
			die("constant expression %s", txt(e))
		case aConst:
			b = en.expr(x.Y)
			a = tv{fmt.Sprintf("%s#%d", ca, b.w), b.w}
		case bConst:
			a = en.expr(x.X)
			b = tv{fmt.Sprintf("%s#%d", cb, a.w), a.w}
		default:
			a, b = en.expr(x.X), en.expr(x.Y)
		}
		if a.w != b.w || a.w == 1 {
			die("width mismatch in %s (%d vs %d)", txt(e), a.w, b.w)
		}
		switch x.Op {
		case token.ADD:
			return tv{fmt.Sprintf("(%s + %s)", a.lean, b.lean), a.w}
		case token.SUB:
			return tv{fmt.Sprintf("(%s - %s)", a.lean, b.lean), a.w}
		case token.GTR:
			return tv{fmt.Sprintf("(BitVec.ult %s %s)", b.lean, a.lean), 1}
		case token.LSS:
			return tv{fmt.Sprintf("(BitVec.ult %s %s)", a.lean, b.lean), 1}
		case token.GEQ:
			return tv{fmt.Sprintf("(BitVec.ule %s %s)", b.lean, a.lean), 1}
		case token.LEQ:
			return tv{fmt.Sprintf("(BitVec.ule %s %s)", a.lean, b.lean), 1}
		}
		die("unsupported operator %s in %s", x.Op, txt(e))
	}
	die("unsupported expression %s (%T)", txt(e), e)
	return tv{}
}

func isPanicBody(b *ast.BlockStmt) bool {
	if len(b.List) != 1 {
		return false
	}
	es, ok := b.List[0].(*ast.ExprStmt)
	if !ok {
		return false
	}
	c, ok := es.X.(*ast.CallExpr)
	if !ok {
		return false
	}
	id, ok := c.Fun.(*ast.Ident)
	return ok && id.Name == "panic" && strings.Contains(txt(c.Args[0]), "ErrRuntimeOutOfBoundsMemoryAccess")
}

var out strings.Builder

func findCase(root ast.Node, name string) *ast.CaseClause {
	var found *ast.CaseClause
	ast.Inspect(root, func(n ast.Node) bool {
		if cc, ok := n.(*ast.CaseClause); ok && found == nil {
			for _, l := range cc.List {
				if id, ok := l.(*ast.Ident); ok && id.Name == name {
					found = cc
					return false
				}
			}
		}
		return found == nil
	})
	if found == nil {
		die("case %s not found", name)
	}
	return found
}

// bulk translates `case operationKindX:` of the shape
//
//	(v := ce.popValue() | v := byte(ce.popValue()) | memLen := uint64(len(memoryInst.Buffer)) | x := table[..])*
//	if <cond> { panic(OOB) } else if size != 0 { ... }
//
// into `def <lean> (<popped vars in order> <len params>) : Bool := <cond>`.
func bulk(root ast.Node, caseName, lean string) {
	cc := findCase(root, caseName)
	en := env{}
	var params []string
	addLen := func(goexpr, p string) {
		if _, ok := en[goexpr]; !ok {
			en[goexpr] = tv{p, 64}
			params = append(params, p)
		}
	}
	addLen("uint64(len(memoryInst.Buffer))", "memLen")
	addLen("uint64(len(dataInstance))", "dataLen")
	var cond ast.Expr
	for _, s := range cc.Body {
		switch st := s.(type) {
		case *ast.AssignStmt:
			if len(st.Lhs) != 1 || len(st.Rhs) != 1 || st.Tok != token.DEFINE {
				die("%s: unsupported assignment", caseName)
			}
			name := st.Lhs[0].(*ast.Ident).Name
			r := txt(st.Rhs[0])
			switch {
			case r == "ce.popValue()":
				en[name] = tv{name, 64}
				params = append(params, name)
			case r == "byte(ce.popValue())":
				// a data byte, not an address: popped but not part of the range condition
				params = append(params, "_"+name)
			case r == "uint64(len(memoryInst.Buffer))":
				en[name] = en[r]
			case r == "dataInstances[op.U1]":
				// the data segment; only its length matters
			default:
				die("%s: unsupported definition %s := %s", caseName, name, r)
			}
		case *ast.IfStmt:
			if cond != nil {
				die("%s: more than one if", caseName)
			}
			if !isPanicBody(st.Body) {
				die("%s: first branch of the range check is not panic(OOB)", caseName)
			}
			cond = st.Cond
		case *ast.IncDecStmt: // frame.pc++
		default:
			die("%s: unsupported statement %T", caseName, s)
		}
	}
	if cond == nil {
		die("%s: no range check found", caseName)
	}
	c := en.expr(cond)
	if c.w != 1 {
		die("%s: condition is not boolean", caseName)
	}
	// order: popped operands in pop order, then the lengths
	var ps []string
	for _, p := range params {
		if p != "memLen" && p != "dataLen" {
			ps = append(ps, p)
		}
	}
	ps = append(ps, "memLen", "dataLen")
	fmt.Fprintf(&out, "/-- range check of `case %s` (true = trap). Operands in pop order, then len(memoryInst.Buffer), len(dataInstance). -/\n", caseName)
	fmt.Fprintf(&out, "def %s (%s : BitVec 64) : Bool :=\n  %s\n\n", lean, strings.Join(ps, " "), c.lean)
}

// v128 extracts, for `case operationKindV128Load: switch op.B1 { case v128LoadType128:` resp.
// `case operationKindV128Store:`, the optional guard `if <cond> { panic(OOB) }` that precedes the
// accesses and the offsets given to memoryInst.<fn>, in order.
func v128(body []ast.Stmt, what, fn, lean string) {
	en := env{"offset": {"offset", 32}}
	guard := "false"
	var offs []string
	var visitCall func(n ast.Node) bool
	visitCall = func(n ast.Node) bool {
		if c, ok := n.(*ast.CallExpr); ok && txt(c.Fun) == "memoryInst."+fn {
			o := en.expr(c.Args[0])
			if o.w != 32 {
				die("%s: offset argument of %s is not 32-bit", what, fn)
			}
			offs = append(offs, o.lean)
		}
		return true
	}
	for _, s := range body {
		if as, ok := s.(*ast.AssignStmt); ok && len(as.Lhs) == 1 {
			if id, ok := as.Lhs[0].(*ast.Ident); ok && id.Name == "offset" {
				if txt(as.Rhs[0]) != "ce.popMemoryOffset(op)" {
					die("%s: offset is not ce.popMemoryOffset(op)", what)
				}
				continue
			}
		}
		if is, ok := s.(*ast.IfStmt); ok && is.Init == nil && len(offs) == 0 && isPanicBody(is.Body) {
			if guard != "false" {
				die("%s: two guards", what)
			}
			g := en.expr(is.Cond)
			guard = g.lean
			continue
		}
		ast.Inspect(s, visitCall)
	}
	if len(offs) == 0 {
		// a single memoryInst.Read(offset, 16)-style access is also understood
		die("%s: no memoryInst.%s accesses found", what, fn)
	}
	fmt.Fprintf(&out, "/-- %s: overflow guard preceding the accesses (true = trap; `false` = there is none). -/\n", what)
	fmt.Fprintf(&out, "def %sGuard (offset : BitVec 32) : Bool :=\n  %s\n\n", lean, guard)
	fmt.Fprintf(&out, "/-- %s: offsets passed to memoryInst.%s (8 bytes each), in program order. -/\n", what, fn)
	fmt.Fprintf(&out, "def %sOffsets (offset : BitVec 32) : List (BitVec 32) :=\n  [%s]\n\n", lean, strings.Join(offs, ", "))
}

func main() {
	repo := flag.String("repo", "/repo", "wazero checkout")
	outDir := flag.String("out", "../lean", "lean project root")
	flag.Parse()
	path := filepath.Join(*repo, "internal/engine/interpreter/interpreter.go")
	fset := token.NewFileSet()
	f, err := parser.ParseFile(fset, path, nil, 0)
	if err != nil {
		die("%v", err)
	}
	out.WriteString("-- GENERATED by /verif/translate/facts/c02_interp from internal/engine/interpreter/interpreter.go. DO NOT EDIT.\n")
	out.WriteString("-- Regenerated on every check run (tie A, DESIGN.md section 3).\nset_option linter.unusedVariables false\n\nnamespace Wz.Gen.InterpAddr\n\n")

	// popMemoryOffset
	var pmo, native *ast.FuncDecl
	for _, d := range f.Decls {
		if fd, ok := d.(*ast.FuncDecl); ok {
			switch fd.Name.Name {
			case "popMemoryOffset":
				pmo = fd
			case "callNativeFunc":
				native = fd
			}
		}
	}
	if pmo == nil || native == nil {
		die("popMemoryOffset / callNativeFunc not found")
	}
	if got := txt(pmo.Type.Results.List[0].Type); got != "uint32" {
		die("popMemoryOffset returns %s", got)
	}
	en := env{"op.U2": {"op_U2", 64}, "ce.popValue()": {"pop", 64}}
	var lines []string
	done := false
	for _, s := range pmo.Body.List {
		switch st := s.(type) {
		case *ast.AssignStmt:
			if st.Tok != token.DEFINE || len(st.Lhs) != 1 {
				die("popMemoryOffset: unsupported assignment")
			}
			name := st.Lhs[0].(*ast.Ident).Name
			v := en.expr(st.Rhs[0])
			lines = append(lines, fmt.Sprintf("  let %s : BitVec %d := %s", name, v.w, v.lean))
			en[name] = tv{name, v.w}
		case *ast.IfStmt:
			if !isPanicBody(st.Body) || st.Else != nil {
				die("popMemoryOffset: if without panic(OOB)")
			}
			c := en.expr(st.Cond)
			lines = append(lines, fmt.Sprintf("  if %s then none else", c.lean))
		case *ast.ReturnStmt:
			v := en.expr(st.Results[0])
			if v.w != 32 {
				die("popMemoryOffset: result is not 32-bit")
			}
			lines = append(lines, fmt.Sprintf("  some %s", v.lean))
			done = true
		default:
			die("popMemoryOffset: unsupported statement %T", s)
		}
	}
	if !done {
		die("popMemoryOffset: no return")
	}
	out.WriteString("/-- callEngine.popMemoryOffset: `op_U2` = static offset (uint64 field), `pop` = popped stack slot; none = trap. -/\n")
	out.WriteString("def popMemoryOffset (op_U2 pop : BitVec 64) : Option (BitVec 32) :=\n" + strings.Join(lines, "\n") + "\n\n")

	bulk(native, "operationKindMemoryInit", "memoryInitTraps")
	bulk(native, "operationKindMemoryCopy", "memoryCopyTraps")
	bulk(native, "operationKindMemoryFill", "memoryFillTraps")

	ld := findCase(native, "operationKindV128Load")
	ld128 := findCase(ld, "v128LoadType128")
	// the `offset := ce.popMemoryOffset(op)` precedes the inner switch
	v128(append(append([]ast.Stmt{}, ld.Body[0]), ld128.Body...), "v128.load (v128LoadType128)", "ReadUint64Le", "v128Load")
	st := findCase(native, "operationKindV128Store")
	v128(st.Body, "v128.store", "WriteUint64Le", "v128Store")

	out.WriteString("end Wz.Gen.InterpAddr\n")
	dst := filepath.Join(*outDir, "Wz", "Gen", "InterpAddr.lean")
	if err := os.MkdirAll(filepath.Dir(dst), 0o755); err != nil {
		die("%v", err)
	}
	if err := os.WriteFile(dst, []byte(out.String()), 0o644); err != nil {
		die("%v", err)
	}
}
