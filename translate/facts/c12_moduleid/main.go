// Command c12_moduleid regenerates, as Lean data (lean/Wz/Gen/ModuleID.lean), the facts about module
// identity that property C12 depends on:
//
//   - which inputs `(*wasm.Module).AssignModuleID` feeds into the SHA-256 state, in order, and in which
//     form (raw bytes / per-element index / per-element non-nil flag / bool) — internal/wasm/module.go;
//   - with which arguments runtime.CompileModule calls DecodeModule, AssignModuleID and
//     Engine.CompileModule — runtime.go;
//   - what `fileCacheKey` hashes — internal/engine/wazevo/engine_cache.go;
//   - which values reach the two compilers (frontend.NewFrontendCompiler / compileLocalWasmFunction in
//     wazevo, newCompiler in the interpreter) and how `needSourceInfo`, `withListener`, `needListener`
//     are derived.
//
// go/ast only. Anything that is not understood makes the extractor refuse (exit 1): never a default.
package main

import (
	"bytes"
	"flag"
	"fmt"
	"go/ast"
	"go/parser"
	"go/printer"
	"go/token"
	"os"
	"path/filepath"
	"sort"
	"strconv"
	"strings"
)

var fset = token.NewFileSet()

func refuse(f string, a ...any) {
	fmt.Fprintf(os.Stderr, "c12_moduleid: refuse: "+f+"\n", a...)
	os.Exit(1)
}

func src(n ast.Node) string {
	var b bytes.Buffer
	printer.Fprint(&b, fset, n)
	return strings.Join(strings.Fields(b.String()), " ")
}

func parse(path string) *ast.File {
	f, err := parser.ParseFile(fset, path, nil, 0)
	if err != nil {
		refuse("%v", err)
	}
	return f
}

func findFunc(f *ast.File, recv, name string) *ast.FuncDecl {
	for _, d := range f.Decls {
		fd, ok := d.(*ast.FuncDecl)
		if !ok || fd.Name.Name != name {
			continue
		}
		r := ""
		if fd.Recv != nil && len(fd.Recv.List) == 1 {
			t := fd.Recv.List[0].Type
			if s, ok := t.(*ast.StarExpr); ok {
				t = s.X
			}
			if id, ok := t.(*ast.Ident); ok {
				r = id.Name
			}
		}
		if r == recv {
			return fd
		}
	}
	refuse("function %s.%s not found", recv, name)
	return nil
}

// ---- AssignModuleID -------------------------------------------------------------------------------

type idAnalysis struct {
	params  map[string]bool
	hashVar string            // the sha256 state variable
	bufRoot string            // "m.ID"
	alias   map[string]string // range variables: name -> "<param>:index" | "<param>:elem"
	bytes   map[int][]string  // taint per byte of the scratch buffer
	out     []string
}

func (a *idAnalysis) isBuf(e ast.Expr) (lo, hi int, ok bool) {
	// m.ID[k], m.ID[:n], m.ID[:]
	switch x := e.(type) {
	case *ast.IndexExpr:
		if src(x.X) == a.bufRoot {
			if k, err := strconv.Atoi(src(x.Index)); err == nil {
				return k, k + 1, true
			}
		}
	case *ast.SliceExpr:
		if src(x.X) == a.bufRoot {
			lo, hi = 0, 32
			if x.Low != nil {
				k, err := strconv.Atoi(src(x.Low))
				if err != nil {
					return 0, 0, false
				}
				lo = k
			}
			if x.High != nil {
				k, err := strconv.Atoi(src(x.High))
				if err != nil {
					return 0, 0, false
				}
				hi = k
			}
			return lo, hi, true
		}
	}
	return 0, 0, false
}

// form of a value expression in terms of the parameters.
func (a *idAnalysis) form(e ast.Expr) []string {
	switch x := e.(type) {
	case *ast.ParenExpr:
		return a.form(x.X)
	case *ast.CallExpr:
		fn := src(x.Fun)
		if (fn == "boolToByte" || fn == "uint32" || fn == "uint64" || fn == "byte") && len(x.Args) == 1 {
			in := a.form(x.Args[0])
			if fn == "boolToByte" {
				for i := range in {
					if !strings.Contains(in[i], ":nonnil") {
						in[i] += ":bool"
					}
				}
			}
			return in
		}
	case *ast.BinaryExpr:
		if x.Op == token.NEQ && src(x.Y) == "nil" {
			if id, ok := x.X.(*ast.Ident); ok {
				if al, ok := a.alias[id.Name]; ok && strings.HasSuffix(al, ":elem") {
					return []string{strings.TrimSuffix(al, ":elem") + ":nonnil"}
				}
			}
		}
	case *ast.Ident:
		if al, ok := a.alias[x.Name]; ok {
			return []string{al}
		}
		if a.params[x.Name] {
			return []string{x.Name}
		}
	}
	refuse("AssignModuleID: value expression not understood: %s", src(e))
	return nil
}

func (a *idAnalysis) stmts(list []ast.Stmt) {
	for _, s := range list {
		switch x := s.(type) {
		case *ast.AssignStmt:
			if len(x.Lhs) == 1 && len(x.Rhs) == 1 {
				if id, ok := x.Lhs[0].(*ast.Ident); ok && x.Tok == token.DEFINE && strings.HasSuffix(src(x.Rhs[0]), "sha256.New()") {
					a.hashVar = id.Name
					continue
				}
				if lo, hi, ok := a.isBuf(x.Lhs[0]); ok && hi == lo+1 {
					a.bytes[lo] = a.form(x.Rhs[0])
					continue
				}
			}
			refuse("AssignModuleID: assignment not understood: %s", src(x))
		case *ast.ExprStmt:
			c, ok := x.X.(*ast.CallExpr)
			if !ok {
				refuse("AssignModuleID: statement not understood: %s", src(x))
			}
			fn := src(c.Fun)
			switch {
			case fn == a.hashVar+".Write" && len(c.Args) == 1:
				if id, ok := c.Args[0].(*ast.Ident); ok && a.params[id.Name] {
					a.out = append(a.out, id.Name+":raw")
				} else if lo, hi, ok := a.isBuf(c.Args[0]); ok {
					for k := lo; k < hi; k++ {
						for _, t := range a.bytes[k] {
							if len(a.out) == 0 || a.out[len(a.out)-1] != t {
								a.out = append(a.out, t)
							}
						}
						if a.bytes[k] == nil && k < 8 {
							refuse("AssignModuleID: hashes byte %d of the scratch buffer which holds no known value", k)
						}
					}
				} else {
					refuse("AssignModuleID: hashed value not understood: %s", src(c.Args[0]))
				}
			case fn == a.hashVar+".Sum" && len(c.Args) == 1:
				if lo, _, ok := a.isBuf(c.Args[0]); !ok || lo != 0 {
					refuse("AssignModuleID: checksum is not written to %s: %s", a.bufRoot, src(c))
				}
				a.out = append(a.out, "=sum")
			case (fn == "binary.LittleEndian.PutUint32" || fn == "binary.LittleEndian.PutUint64") && len(c.Args) == 2:
				lo, _, ok := a.isBuf(c.Args[0])
				if !ok {
					refuse("AssignModuleID: Put target not understood: %s", src(c))
				}
				n := 4
				if strings.HasSuffix(fn, "64") {
					n = 8
				}
				f := a.form(c.Args[1])
				for k := lo; k < lo+n; k++ {
					a.bytes[k] = f
				}
			default:
				refuse("AssignModuleID: call not understood: %s", src(c))
			}
		case *ast.RangeStmt:
			id, ok := x.X.(*ast.Ident)
			if !ok || !a.params[id.Name] {
				refuse("AssignModuleID: range over non-parameter: %s", src(x.X))
			}
			if k, ok := x.Key.(*ast.Ident); ok && k.Name != "_" {
				a.alias[k.Name] = id.Name + ":index"
			}
			if x.Value != nil {
				if v, ok := x.Value.(*ast.Ident); ok && v.Name != "_" {
					a.alias[v.Name] = id.Name + ":elem"
				}
			}
			a.out = append(a.out, "[each "+id.Name)
			a.stmts(x.Body.List)
			a.out = append(a.out, "]")
		default:
			refuse("AssignModuleID: statement not understood: %s", src(s))
		}
	}
}

func assignModuleID(repo string) (params, hashed []string) {
	f := parse(filepath.Join(repo, "internal/wasm/module.go"))
	fd := findFunc(f, "Module", "AssignModuleID")
	a := &idAnalysis{params: map[string]bool{}, alias: map[string]string{}, bytes: map[int][]string{}}
	recv := fd.Recv.List[0].Names[0].Name
	a.bufRoot = recv + ".ID"
	for _, p := range fd.Type.Params.List {
		for _, n := range p.Names {
			a.params[n.Name] = true
			params = append(params, n.Name)
		}
	}
	a.stmts(fd.Body.List)
	if len(a.out) == 0 || a.out[len(a.out)-1] != "=sum" {
		refuse("AssignModuleID: does not end by writing the checksum")
	}
	return params, a.out[:len(a.out)-1]
}

// ---- call sites -------------------------------------------------------------------------------------

// callArgs returns the printed arguments of the unique call whose callee text ends with `suffix` inside fd.
func callArgs(fd *ast.FuncDecl, suffix string) []string {
	var found [][]string
	ast.Inspect(fd.Body, func(n ast.Node) bool {
		if c, ok := n.(*ast.CallExpr); ok && strings.HasSuffix(src(c.Fun), suffix) {
			var as []string
			for _, x := range c.Args {
				as = append(as, src(x))
			}
			found = append(found, as)
		}
		return true
	})
	if len(found) != 1 {
		refuse("%s: expected exactly one call of …%s, found %d", fd.Name.Name, suffix, len(found))
	}
	return found[0]
}

// defOf returns the printed right-hand side of the unique `name := rhs` in fd.
func defOf(fd *ast.FuncDecl, name string) string {
	var found []string
	ast.Inspect(fd.Body, func(n ast.Node) bool {
		if as, ok := n.(*ast.AssignStmt); ok && as.Tok == token.DEFINE && len(as.Lhs) == 1 && len(as.Rhs) == 1 {
			if id, ok := as.Lhs[0].(*ast.Ident); ok && id.Name == name {
				found = append(found, src(as.Rhs[0]))
			}
		}
		return true
	})
	if len(found) != 1 {
		refuse("%s: expected exactly one definition of %s, found %d", fd.Name.Name, name, len(found))
	}
	return found[0]
}

// fileCacheKey: the ordered list of values written to the hash.
func fileKey(repo string) []string {
	f := parse(filepath.Join(repo, "internal/engine/wazevo/engine_cache.go"))
	fd := findFunc(f, "", "fileCacheKey")
	hv := ""
	buf := map[string]string{} // scratch slice text -> value text
	var out []string
	for _, s := range fd.Body.List {
		switch x := s.(type) {
		case *ast.AssignStmt:
			if len(x.Lhs) == 1 && len(x.Rhs) == 1 && x.Tok == token.DEFINE {
				name := src(x.Lhs[0])
				if strings.HasSuffix(src(x.Rhs[0]), "sha256.New()") {
					hv = name
				} else {
					buf["$"+name] = src(x.Rhs[0])
				}
				continue
			}
			refuse("fileCacheKey: assignment not understood: %s", src(x))
		case *ast.ExprStmt:
			c, ok := x.X.(*ast.CallExpr)
			if !ok {
				refuse("fileCacheKey: statement not understood: %s", src(x))
			}
			fn := src(c.Fun)
			switch {
			case fn == hv+".Write" && len(c.Args) == 1:
				a := src(c.Args[0])
				if v, ok := buf[a]; ok {
					out = append(out, v)
				} else {
					out = append(out, a)
				}
			case strings.HasPrefix(fn, "binary.LittleEndian.PutUint") && len(c.Args) == 2:
				v := src(c.Args[1])
				if d, ok := buf["$"+v]; ok {
					v = d
				}
				buf[src(c.Args[0])] = v
			case fn == hv+".Sum":
			default:
				refuse("fileCacheKey: call not understood: %s", src(c))
			}
		case *ast.ReturnStmt:
		default:
			refuse("fileCacheKey: statement not understood: %s", src(s))
		}
	}
	return out
}

func leanList(xs []string) string {
	q := make([]string, len(xs))
	for i, x := range xs {
		q[i] = strconv.Quote(x)
	}
	return "[" + strings.Join(q, ", ") + "]"
}

func main() {
	repo := flag.String("repo", "/repo", "wazero checkout")
	out := flag.String("out", "../lean", "lean project root")
	flag.Parse()

	params, hashed := assignModuleID(*repo)

	rt := parse(filepath.Join(*repo, "runtime.go"))
	cm := findFunc(rt, "runtime", "CompileModule")
	decodeArgs := callArgs(cm, "binaryformat.DecodeModule")
	idArgs := callArgs(cm, ".AssignModuleID")
	engineArgs := callArgs(cm, ".Engine.CompileModule")

	we := parse(filepath.Join(*repo, "internal/engine/wazevo/engine.go"))
	wcm := findFunc(we, "engine", "compileModule")
	feArgs := callArgs(wcm, "frontend.NewFrontendCompiler")
	var derived []string
	for _, a := range append(append([]string{}, feArgs...), callArgs(wcm, "e.compileLocalWasmFunction")...) {
		switch a {
		case "withListener", "needSourceInfo", "needListener":
			derived = append(derived, a+" := "+defOf(wcm, a))
		}
	}
	sort.Strings(derived)
	localArgs := callArgs(wcm, "e.compileLocalWasmFunction")

	ie := parse(filepath.Join(*repo, "internal/engine/interpreter/interpreter.go"))
	icm := findFunc(ie, "engine", "CompileModule")
	interpArgs := callArgs(icm, "newCompiler")

	var sb strings.Builder
	sb.WriteString("-- GENERATED by /verif/translate/facts/c12_moduleid from /repo's working tree. DO NOT EDIT.\n")
	sb.WriteString("-- Regenerated on every check run (tie A, DESIGN.md section 3).\n\n")
	sb.WriteString("namespace Wz.Gen.ModuleID\n\n")
	w := func(doc, name string, xs []string) {
		fmt.Fprintf(&sb, "/-- %s -/\ndef %s : List String := %s\n\n", doc, name, leanList(xs))
	}
	w("parameters of (*wasm.Module).AssignModuleID (internal/wasm/module.go)", "idParams", params)
	w("what AssignModuleID writes into the SHA-256 state, in order: `<param>:raw` = the bytes themselves; `[each p` … `]` = once per element of p; `p:index` = the element index (32-bit LE); `p:nonnil` = 1 byte, element != nil; `p:bool` = 1 byte", "idHashed", hashed)
	w("arguments of the AssignModuleID call in runtime.CompileModule (runtime.go)", "idCallArgs", idArgs)
	w("arguments of binaryformat.DecodeModule in runtime.CompileModule", "decodeCallArgs", decodeArgs)
	w("arguments of Engine.CompileModule in runtime.CompileModule", "engineCallArgs", engineArgs)
	w("what wazevo's fileCacheKey writes into its SHA-256 state, in order (internal/engine/wazevo/engine_cache.go)", "fileKeyHashed", fileKey(*repo))
	w("arguments of frontend.NewFrontendCompiler in wazevo's compileModule", "frontendArgs", feArgs)
	w("arguments of compileLocalWasmFunction in wazevo's compileModule", "localFuncArgs", localArgs)
	w("definitions of the derived compiler inputs in wazevo's compileModule", "derivedInputs", derived)
	w("arguments of newCompiler in the interpreter's CompileModule", "interpCompilerArgs", interpArgs)
	sb.WriteString("end Wz.Gen.ModuleID\n")
	path := filepath.Join(*out, "Wz", "Gen", "ModuleID.lean")
	if err := os.MkdirAll(filepath.Dir(path), 0o755); err != nil {
		refuse("%v", err)
	}
	if err := os.WriteFile(path, []byte(sb.String()), 0o644); err != nil {
		refuse("%v", err)
	}
}
