// c04_callerctx regenerates, as Lean data, the "caller module context" discipline of the compiler:
//
//  (handlers)  for every `case wazevoapi.ExitCodeX` of callEngine.callWithStack (wazevo/call_engine.go): does the
//              handler read the caller module (c.callerModuleInstance() / execCtx.callerModuleContextPtr)?
//  (sites)     for every place in frontend/lower.go that emits an exit to Go through a trampoline
//              (ExecutionContextOffset<X>TrampolineAddress), a call of an imported function (prepareCall), an
//              indirect call (prepareCallIndirect) or a listener call (callListenerBefore/After): is it preceded,
//              on every path of the lowering code, by an UNCONDITIONAL `c.storeCallerModuleContext()` - a direct
//              statement of the same statement list or of an enclosing one, earlier than the emitting statement?
//
// The slot is shared by all modules running on one call stack; the model (Wz.Model.CallerSlot) shows that a
// handler sees the executing module iff its exit is immediately preceded by that module's store.
package main

import (
	"flag"
	"fmt"
	"go/ast"
	"go/parser"
	"go/token"
	"os"
	"path/filepath"
	"sort"
	"strings"
)

func die(f string, a ...any) {
	fmt.Fprintf(os.Stderr, "c04_callerctx: REFUSE: "+f+"\n", a...)
	os.Exit(1)
}

func isStore(s ast.Stmt) bool {
	es, ok := s.(*ast.ExprStmt)
	if !ok {
		return false
	}
	call, ok := es.X.(*ast.CallExpr)
	if !ok || len(call.Args) != 0 {
		return false
	}
	sel, ok := call.Fun.(*ast.SelectorExpr)
	return ok && sel.Sel.Name == "storeCallerModuleContext"
}

// lists returns the statement lists directly contained in s (one level).
func lists(s ast.Stmt) [][]ast.Stmt {
	switch x := s.(type) {
	case *ast.BlockStmt:
		return [][]ast.Stmt{x.List}
	case *ast.IfStmt:
		out := [][]ast.Stmt{x.Body.List}
		if x.Else != nil {
			out = append(out, []ast.Stmt{x.Else})
		}
		return out
	case *ast.ForStmt:
		return [][]ast.Stmt{x.Body.List}
	case *ast.RangeStmt:
		return [][]ast.Stmt{x.Body.List}
	case *ast.SwitchStmt:
		var out [][]ast.Stmt
		for _, c := range x.Body.List {
			out = append(out, c.(*ast.CaseClause).Body)
		}
		return out
	case *ast.TypeSwitchStmt:
		var out [][]ast.Stmt
		for _, c := range x.Body.List {
			out = append(out, c.(*ast.CaseClause).Body)
		}
		return out
	case *ast.CaseClause:
		return [][]ast.Stmt{x.Body}
	case *ast.LabeledStmt:
		return [][]ast.Stmt{{x.Stmt}}
	}
	return nil
}

type site struct {
	what, fn string
	stored   bool
}

// walk visits statement list l; dominated = an unconditional store was seen earlier in an enclosing list.
func walk(l []ast.Stmt, dominated bool, fn string, hit func(s ast.Stmt, dominated bool)) {
	for _, s := range l {
		hit(s, dominated)
		for _, sub := range lists(s) {
			walk(sub, dominated, fn, hit)
		}
		if isStore(s) {
			dominated = true
		}
	}
}

// trampolines mentioned directly in statement s, not inside a nested statement list
func directTrampolines(s ast.Stmt) []string {
	var out []string
	nested := map[ast.Node]bool{}
	for _, sub := range lists(s) {
		for _, x := range sub {
			nested[x] = true
		}
	}
	ast.Inspect(s, func(n ast.Node) bool {
		if n == nil {
			return false
		}
		if st, ok := n.(ast.Stmt); ok && nested[st] {
			return false
		}
		if sel, ok := n.(*ast.SelectorExpr); ok {
			name := sel.Sel.Name
			if strings.HasPrefix(name, "ExecutionContextOffset") && strings.HasSuffix(name, "TrampolineAddress") {
				out = append(out, strings.TrimSuffix(strings.TrimPrefix(name, "ExecutionContextOffset"), "TrampolineAddress"))
			}
		}
		return true
	})
	return out
}

func main() {
	repo := flag.String("repo", "/repo", "")
	out := flag.String("out", "../lean", "")
	flag.Parse()
	fset := token.NewFileSet()

	// ---- handlers
	ce, err := parser.ParseFile(fset, filepath.Join(*repo, "internal/engine/wazevo/call_engine.go"), nil, 0)
	if err != nil {
		die("%v", err)
	}
	type handler struct {
		code  string
		reads bool
	}
	var handlers []handler
	var goCalls [][2]string
	for _, d := range ce.Decls {
		fd, ok := d.(*ast.FuncDecl)
		if !ok || fd.Name.Name != "callWithStack" {
			continue
		}
		ast.Inspect(fd.Body, func(n ast.Node) bool {
			cc, ok := n.(*ast.CaseClause)
			if !ok {
				return true
			}
			var codes []string
			for _, e := range cc.List {
				if sel, ok := e.(*ast.SelectorExpr); ok && strings.HasPrefix(sel.Sel.Name, "ExitCode") {
					codes = append(codes, sel.Sel.Name)
				}
			}
			if len(codes) == 0 {
				return true
			}
			reads := false
			for _, st := range cc.Body {
				ast.Inspect(st, func(m ast.Node) bool {
					if sel, ok := m.(*ast.SelectorExpr); ok && (sel.Sel.Name == "callerModuleInstance" || sel.Sel.Name == "callerModuleContextPtr") {
						reads = true
					}
					return true
				})
			}
			for _, c := range codes {
				handlers = append(handlers, handler{c, reads})
			}
			// the Go function call of the handler: where does its module argument come from?
			defs := map[string]string{}
			for _, st := range cc.Body {
				ast.Inspect(st, func(m ast.Node) bool {
					if as, ok := m.(*ast.AssignStmt); ok && as.Tok == token.DEFINE && len(as.Lhs) == 1 && len(as.Rhs) == 1 {
						if id, ok := as.Lhs[0].(*ast.Ident); ok {
							if call, ok := as.Rhs[0].(*ast.CallExpr); ok {
								if sel, ok := call.Fun.(*ast.SelectorExpr); ok {
									defs[id.Name] = sel.Sel.Name + "()"
								}
							}
						}
					}
					return true
				})
			}
			for _, st := range cc.Body {
				ast.Inspect(st, func(m ast.Node) bool {
					call, ok := m.(*ast.CallExpr)
					if !ok {
						return true
					}
					sel, ok := call.Fun.(*ast.SelectorExpr)
					if !ok || sel.Sel.Name != "Call" {
						return true
					}
					if id, ok := sel.X.(*ast.Ident); !ok || id.Name != "f" {
						return true
					}
					prov := "-"
					if len(call.Args) == 3 {
						prov = "?"
						if id, ok := call.Args[1].(*ast.Ident); ok {
							if d, ok := defs[id.Name]; ok {
								prov = d
							} else {
								prov = "var:" + id.Name
							}
						}
					}
					for _, c := range codes {
						goCalls = append(goCalls, [2]string{c, prov})
					}
					return true
				})
			}
			return true
		})
	}
	if len(handlers) < 10 {
		die("only %d exit-code cases found in callWithStack", len(handlers))
	}
	sort.Slice(handlers, func(i, j int) bool { return handlers[i].code < handlers[j].code })

	// ---- sites
	lo, err := parser.ParseFile(fset, filepath.Join(*repo, "internal/engine/wazevo/frontend/lower.go"), nil, 0)
	if err != nil {
		die("%v", err)
	}
	var sites []site
	for _, d := range lo.Decls {
		fd, ok := d.(*ast.FuncDecl)
		if !ok || fd.Body == nil {
			continue
		}
		name := fd.Name.Name
		walk(fd.Body.List, false, name, func(s ast.Stmt, dominated bool) {
			for _, t := range directTrampolines(s) {
				sites = append(sites, site{"trampoline:" + t, name, dominated})
			}
		})
		switch name {
		case "callListenerBefore", "callListenerAfter", "prepareCallIndirect":
			// the call is emitted by the function (or by its caller, right after it returns): the store must be an
			// unconditional top-level statement of the function
			st := false
			for _, s := range fd.Body.List {
				if isStore(s) {
					st = true
				}
			}
			sites = append(sites, site{"call:" + name, name, st})
		case "prepareCall":
			// the branch for imported functions (condition mentions ImportFunctionCount) must store unconditionally
			found, st := false, false
			ast.Inspect(fd.Body, func(n ast.Node) bool {
				ifs, ok := n.(*ast.IfStmt)
				if !ok {
					return true
				}
				mentions := false
				ast.Inspect(ifs.Cond, func(m ast.Node) bool {
					if sel, ok := m.(*ast.SelectorExpr); ok && sel.Sel.Name == "ImportFunctionCount" {
						mentions = true
					}
					return true
				})
				if mentions && !found {
					found = true
					for _, s := range ifs.Body.List {
						if isStore(s) {
							st = true
						}
					}
				}
				return true
			})
			if !found {
				die("prepareCall: no branch on ImportFunctionCount")
			}
			sites = append(sites, site{"call:imported-function", name, st})
		}
	}
	sort.Slice(sites, func(i, j int) bool {
		if sites[i].what != sites[j].what {
			return sites[i].what < sites[j].what
		}
		return sites[i].fn < sites[j].fn
	})

	var sb strings.Builder
	sb.WriteString("-- GENERATED by /verif/translate/facts/c04_callerctx from internal/engine/wazevo/{call_engine.go,frontend/lower.go}. DO NOT EDIT.\n")
	sb.WriteString("namespace Wz.Gen.CallerCtx\n\n/-- (exit code handled by callWithStack, the handler reads the caller module) -/\ndef handlers : List (String × Bool) := [\n")
	for i, h := range handlers {
		sep := ","
		if i == len(handlers)-1 {
			sep = ""
		}
		fmt.Fprintf(&sb, "  (%q, %v)%s\n", h.code, h.reads, sep)
	}
	sb.WriteString("]\n\n/-- (exit code, where the module argument of the handler's `f.Call(ctx, <module>, stack)` comes from; \"-\" = the Go function takes no module) -/\ndef goCalls : List (String × String) := [\n")
	sort.Slice(goCalls, func(i, j int) bool { return goCalls[i][0] < goCalls[j][0] })
	for i, g := range goCalls {
		sep := ","
		if i == len(goCalls)-1 {
			sep = ""
		}
		fmt.Fprintf(&sb, "  (%q, %q)%s\n", g[0], g[1], sep)
	}
	sb.WriteString("]\n\n/-- (what is emitted, lowering function, an unconditional storeCallerModuleContext() precedes it) -/\ndef sites : List (String × String × Bool) := [\n")
	for i, s := range sites {
		sep := ","
		if i == len(sites)-1 {
			sep = ""
		}
		fmt.Fprintf(&sb, "  (%q, %q, %v)%s\n", s.what, s.fn, s.stored, sep)
	}
	sb.WriteString("]\n\nend Wz.Gen.CallerCtx\n")
	dst := filepath.Join(*out, "Wz", "Gen", "CallerCtx.lean")
	if err := os.MkdirAll(filepath.Dir(dst), 0o755); err != nil {
		die("%v", err)
	}
	if err := os.WriteFile(dst, []byte(sb.String()), 0o644); err != nil {
		die("%v", err)
	}
}
