// c01_groups regenerates, as Lean data, the facts about instruction groups that the model
// Wz.Model.InstrGroups assumes:
//   - the numbering loop of passDeadCodeEliminationOpt (ssa/pass.go): `cur.gid = gid` is the first statement of
//     the loop body and `gid++` occurs exactly in the `case sideEffectStrict` clause of the switch that follows;
//   - MatchInstr / MatchInstrOneOf (backend/compiler.go) compare instr.GroupID() with c.currentGID;
//   - every instruction allocated by a pass (ssa/pass*.go: they run after the numbering) is given a group
//     (`x.gid = ...` in the same function) - finding F39 was a missing one;
//   - allocations in ssa/builder.go happen in construction-time API functions (before the passes).
// It refuses on any shape it does not recognise.
package main

import (
	"flag"
	"fmt"
	"go/ast"
	"go/parser"
	"go/token"
	"os"
	"path/filepath"
	"sort"
	"strings"
)

func die(f string, a ...any) {
	fmt.Fprintf(os.Stderr, "c01_groups: REFUSE: "+f+"\n", a...)
	os.Exit(1)
}

func parse(fset *token.FileSet, path string) *ast.File {
	f, err := parser.ParseFile(fset, path, nil, 0)
	if err != nil {
		die("%v", err)
	}
	return f
}

func funcDecl(f *ast.File, name string) *ast.FuncDecl {
	for _, d := range f.Decls {
		if fd, ok := d.(*ast.FuncDecl); ok && fd.Name.Name == name {
			return fd
		}
	}
	return nil
}

func isSel(e ast.Expr, x, sel string) bool {
	s, ok := e.(*ast.SelectorExpr)
	if !ok || s.Sel.Name != sel {
		return false
	}
	id, ok := s.X.(*ast.Ident)
	return ok && (x == "" || id.Name == x)
}

func main() {
	repo := flag.String("repo", "/repo", "")
	out := flag.String("out", "../lean", "")
	flag.Parse()
	fset := token.NewFileSet()
	ssaDir := filepath.Join(*repo, "internal/engine/wazevo/ssa")

	// ---- numbering loop
	pass := parse(fset, filepath.Join(ssaDir, "pass.go"))
	fd := funcDecl(pass, "passDeadCodeEliminationOpt")
	if fd == nil {
		die("passDeadCodeEliminationOpt not found")
	}
	assignFirst := false
	var bumpCases []string
	bumps := 0
	ast.Inspect(fd.Body, func(n ast.Node) bool {
		if inc, ok := n.(*ast.IncDecStmt); ok {
			if id, ok := inc.X.(*ast.Ident); ok && id.Name == "gid" {
				bumps++
			}
		}
		fs, ok := n.(*ast.ForStmt)
		if !ok || len(fs.Body.List) == 0 {
			return true
		}
		as, ok := fs.Body.List[0].(*ast.AssignStmt)
		if !ok || len(as.Lhs) != 1 || !isSel(as.Lhs[0], "cur", "gid") {
			return true
		}
		if id, ok := as.Rhs[0].(*ast.Ident); !ok || id.Name != "gid" {
			die("cur.gid is assigned something else than the counter")
		}
		assignFirst = true
		if len(fs.Body.List) != 2 {
			die("numbering loop body has %d statements, expected 2 (assignment, switch)", len(fs.Body.List))
		}
		sw, ok := fs.Body.List[1].(*ast.SwitchStmt)
		if !ok {
			die("second statement of the numbering loop is not a switch")
		}
		if call, ok := sw.Tag.(*ast.CallExpr); !ok || !isSel(call.Fun, "cur", "sideEffect") {
			die("the switch is not over cur.sideEffect()")
		}
		for _, c := range sw.Body.List {
			cc := c.(*ast.CaseClause)
			has := false
			for _, st := range cc.Body {
				if inc, ok := st.(*ast.IncDecStmt); ok && inc.Tok == token.INC {
					if id, ok := inc.X.(*ast.Ident); ok && id.Name == "gid" {
						has = true
					}
				}
			}
			if has {
				for _, e := range cc.List {
					id, ok := e.(*ast.Ident)
					if !ok {
						die("case expression is not an identifier")
					}
					bumpCases = append(bumpCases, id.Name)
				}
				if len(cc.List) == 0 {
					bumpCases = append(bumpCases, "default")
				}
			}
		}
		return true
	})
	if !assignFirst {
		die("no loop starting with `cur.gid = gid` in passDeadCodeEliminationOpt")
	}

	// ---- matchers
	comp := parse(fset, filepath.Join(*repo, "internal/engine/wazevo/backend/compiler.go"))
	type matcher struct {
		name   string
		checks bool
	}
	var matchers []matcher
	for _, name := range []string{"MatchInstr", "MatchInstrOneOf"} {
		m := funcDecl(comp, name)
		if m == nil {
			die("%s not found", name)
		}
		found := false
		ast.Inspect(m.Body, func(n ast.Node) bool {
			be, ok := n.(*ast.BinaryExpr)
			if !ok || (be.Op != token.EQL && be.Op != token.NEQ) {
				return true
			}
			call, ok := be.X.(*ast.CallExpr)
			if ok && isSel(call.Fun, "instr", "GroupID") && isSel(be.Y, "c", "currentGID") {
				found = true
			}
			return true
		})
		matchers = append(matchers, matcher{name, found})
	}

	// ---- allocations
	type alloc struct {
		file, fn, v string
		grouped     bool
	}
	var late, early []alloc
	files, _ := filepath.Glob(filepath.Join(ssaDir, "*.go"))
	sort.Strings(files)
	for _, p := range files {
		base := filepath.Base(p)
		if strings.HasSuffix(base, "_test.go") {
			continue
		}
		f := parse(fset, p)
		for _, d := range f.Decls {
			fn, ok := d.(*ast.FuncDecl)
			if !ok || fn.Body == nil {
				continue
			}
			vars := map[string]bool{}
			ast.Inspect(fn.Body, func(n ast.Node) bool {
				as, ok := n.(*ast.AssignStmt)
				if !ok || len(as.Rhs) != 1 {
					return true
				}
				if call, ok := as.Rhs[0].(*ast.CallExpr); ok && isSel(call.Fun, "", "AllocateInstruction") {
					id, ok := as.Lhs[0].(*ast.Ident)
					if !ok {
						die("%s: result of AllocateInstruction is not bound to a variable", base)
					}
					vars[id.Name] = false
				}
				return true
			})
			ast.Inspect(fn.Body, func(n ast.Node) bool {
				as, ok := n.(*ast.AssignStmt)
				if !ok || len(as.Lhs) != 1 {
					return true
				}
				if s, ok := as.Lhs[0].(*ast.SelectorExpr); ok && s.Sel.Name == "gid" {
					if id, ok := s.X.(*ast.Ident); ok {
						if _, is := vars[id.Name]; is {
							// the group must come from another instruction's group
							if r, ok := as.Rhs[0].(*ast.SelectorExpr); ok && r.Sel.Name == "gid" {
								vars[id.Name] = true
							}
						}
					}
				}
				return true
			})
			var names []string
			for v := range vars {
				names = append(names, v)
			}
			sort.Strings(names)
			for _, v := range names {
				a := alloc{base, fn.Name.Name, v, vars[v]}
				if strings.HasPrefix(base, "pass") {
					late = append(late, a)
				} else {
					early = append(early, a)
				}
			}
		}
	}

	var sb strings.Builder
	sb.WriteString("-- GENERATED by /verif/translate/facts/c01_groups from internal/engine/wazevo/{ssa/pass*.go,ssa/builder.go,backend/compiler.go}. DO NOT EDIT.\n")
	sb.WriteString("namespace Wz.Gen.InstrGroups\n\n")
	fmt.Fprintf(&sb, "/-- the numbering loop assigns `cur.gid = gid` before looking at the instruction -/\ndef assignFirst : Bool := %v\n\n", assignFirst)
	fmt.Fprintf(&sb, "/-- the side-effect classes in whose `case` the counter is bumped -/\ndef bumpCases : List String := [%s]\n\n", quoteJoin(bumpCases))
	fmt.Fprintf(&sb, "/-- number of `gid++` statements in passDeadCodeEliminationOpt -/\ndef bumpStatements : Nat := %d\n\n", bumps)
	sb.WriteString("/-- (matcher, compares instr.GroupID() with c.currentGID) -/\ndef matchers : List (String × Bool) := [")
	for i, m := range matchers {
		if i > 0 {
			sb.WriteString(", ")
		}
		fmt.Fprintf(&sb, "(%q, %v)", m.name, m.checks)
	}
	sb.WriteString("]\n\n")
	wr := func(name, doc string, as []alloc) {
		fmt.Fprintf(&sb, "/-- %s: (file, function, variable, `variable.gid = other.gid` present) -/\ndef %s : List (String × String × String × Bool) := [", doc, name)
		for i, a := range as {
			if i > 0 {
				sb.WriteString(", ")
			}
			fmt.Fprintf(&sb, "(%q, %q, %q, %v)", a.file, a.fn, a.v, a.grouped)
		}
		sb.WriteString("]\n\n")
	}
	wr("passAllocations", "instructions allocated by passes (they run after the numbering)", late)
	wr("builderAllocations", "instructions allocated by the construction API (before the passes)", early)
	sb.WriteString("end Wz.Gen.InstrGroups\n")
	dst := filepath.Join(*out, "Wz", "Gen", "InstrGroups.lean")
	if err := os.MkdirAll(filepath.Dir(dst), 0o755); err != nil {
		die("%v", err)
	}
	if err := os.WriteFile(dst, []byte(sb.String()), 0o644); err != nil {
		die("%v", err)
	}
}

func quoteJoin(ss []string) string {
	var q []string
	for _, s := range ss {
		q = append(q, fmt.Sprintf("%q", s))
	}
	return strings.Join(q, ", ")
}
