// hc20: correspondence + monitor harness for C20 (function listeners see every call, correctly bracketed).
//
// Tie B: call-tree programs (every call form: direct, indirect through a table, imported from another
// module, host functions calling back into the guest, start functions; traps, exits, host panics;
// deep unwinding; recursion to stack overflow; tail calls) are run on both engines under a recording
// listener factory for several listener sets; the recorded stream (kind, function, values, stack
// snapshot) must equal the Lean model's `events` for the same tree (topic c20 of the oracle) under the
// engine variant that the witness replays select (finding switches: as-is or repaired).
// Tie C: the property's own predicates on the recorded streams: bracket monitor, stack snapshot = open
// call chain, subset stream = projection of the all-listeners stream, results equal to the listener-free
// run, both engines equal.
package main

import (
	"context"
	"flag"
	"fmt"
	"math/rand"
	"runtime"
	"runtime/debug"
	"strings"
	"sync"

	"github.com/tetratelabs/wazero"
	"github.com/tetratelabs/wazero/api"
	"github.com/tetratelabs/wazero/experimental"
	"github.com/tetratelabs/wazero/internal/wasm"
	"github.com/tetratelabs/wazero/verifharness/hx"
	"github.com/tetratelabs/wazero/verifharness/wb"
)

var (
	orc *hx.Oracle
	rep *hx.Report
)

var engines = []string{"interpreter", "compiler"}

// variant = the model's Engine record (finding switches).
type variant struct {
	Cap  string // "-" or a number
	Ovp  int    // overflow panics (Abort delivered on stack overflow)
	Bao  int    // Before delivered for the call that overflows
	Tip  int    // same-module tail calls performed in place (callee's listener silent)
	Tj   int    // tail calls are jumps: the caller's After is never delivered (compiler)
	Scap string // "-" or the number of frames the stack iterator is truncated to
}

func (v variant) toks() string {
	return fmt.Sprintf("%s %d %d %d %d %s", v.Cap, v.Ovp, v.Bao, v.Tip, v.Tj, v.Scap)
}

var variants = map[string]*variant{
	"interpreter": {Cap: "-", Ovp: 1, Bao: 0, Tip: 0, Scap: "-"},
	"compiler":    {Cap: "-", Ovp: 1, Bao: 0, Tip: 0, Scap: "-"},
}

func hostIDs(p *Program) string {
	var ids []int
	for _, n := range p.byMod("H") {
		ids = append(ids, n.ID)
	}
	return intsStr(ids)
}

func allSet(p *Program) lset {
	s := lset{}
	for _, n := range p.Nodes {
		s[n.ID] = true
	}
	return s
}

func modelEvents(engine string, hostIDs string, S lset, tokens string) string {
	s := ""
	if S != nil {
		s = S.String()
	}
	return orc.Askf("c20 events %s H=%s S=%s %s", variants[engine].toks(), hostIDs, s, tokens)
}

func gotString(cr callResult) string {
	r := "ok"
	if cr.Fail != "" {
		r = "fail:" + cr.Fail
	}
	return eventsStr(cr.Events) + " | " + r
}

type caseInput struct {
	Scenario string   `json:"scenario"`
	Engine   string   `json:"engine"`
	Listener string   `json:"listeners"`
	Call     int      `json:"call_index"`
	Program  *Program `json:"program,omitempty"`
	Note     string   `json:"note,omitempty"`
}

// ---------------------------------------------------------------------------------------------
// random call-tree programs

func listenerSets(r *rand.Rand, p *Program, n int) []lset {
	sets := []lset{nil, {}, allSet(p)}
	for k := 0; k < n; k++ {
		s := lset{}
		prob := []float64{0.5, 0.2, 0.8}[k%3]
		for _, nd := range p.Nodes {
			if r.Float64() < prob {
				s[nd.ID] = true
			}
		}
		sets = append(sets, s)
	}
	// only host functions / only wasm functions
	hs, ws := lset{}, lset{}
	for _, nd := range p.Nodes {
		if nd.isHost() {
			hs[nd.ID] = true
		} else {
			ws[nd.ID] = true
		}
	}
	return append(sets, hs, ws)
}

func checkProgram(scn string, p *Program, sets []lset) {
	// expectations from the reference evaluator (the values are engine independent; the `tail` flags of the tokens are not)
	expFor := func(eng string) []expected {
		var exp []expected
		if p.Start != nil {
			exp = append(exp, evalTop(p.Start, nil, eng))
		}
		if p.Start == nil || exp[0].Fail == "" {
			for i, n := range p.Tops {
				x := evalTop(n, p.TopArgs[i], eng)
				exp = append(exp, x)
				if strings.HasPrefix(x.Fail, "exit") {
					break
				}
			}
		}
		return exp
	}
	hids := hostIDs(p)
	all := allSet(p)
	byEngine := map[string]map[string][]callResult{}
	for _, eng := range engines {
		byEngine[eng] = map[string][]callResult{}
		exp := expFor(eng)
		var base, allRun []callResult
		for _, S := range sets {
			in := caseInput{Scenario: scn, Engine: eng, Listener: S.String(), Program: p}
			crs, err := runProgram(p, eng, S)
			if err != nil {
				hx.Fatal("run %s/%s: %v", scn, eng, err)
			}
			byEngine[eng][S.String()] = crs
			if len(crs) != len(exp) {
				rep.Violate(hx.Violation{Kind: "correspondence", Signature: "C20:number-of-calls-differs:" + eng,
					What: "number of API-level calls performed differs from the evaluator", Input: in, Expected: len(exp), Actual: len(crs)})
				continue
			}
			if S == nil {
				base = crs
			}
			if S != nil && len(S) == len(all) {
				allRun = crs
			}
			for ci, cr := range crs {
				in.Call = ci
				rep.Case(fmt.Sprintf("%s/%s/%s/%d/%s", scn, eng, S, ci, exp[ci].Tokens))
				rep.Count("outcome:" + strings.TrimRight(cr.Fail, "0123456789"))
				rep.Count(fmt.Sprintf("events-per-call:%s", bucket(len(cr.Events))))
				got := gotString(cr)
				want := modelEvents(eng, hids, S, exp[ci].Tokens)
				// tie C: bracket monitor
				if m := bracketMonitor(cr.Events); m != "" {
					sig := "C20:unbracketed:" + eng
					if p.Tail && variants[eng].Tip == 1 && want == got {
						sig = "F31:" + eng + "-tail-callee-gets-no-listener-events" // exactly the recorded in-place tail call behaviour
					}
					if p.Tail && variants[eng].Tj == 1 && want == got {
						sig = "F32:" + eng + "-tail-caller-never-closed" // exactly the recorded jump behaviour
					}
					rep.Violate(hx.Violation{Kind: "impl-violation", Signature: sig,
						What: "listener events are not bracketed: " + m, Input: in, Actual: got})
				}
				if ci == 0 {
					rawMonitor(eng, in, cr)
				}
				// tie C: the stack iterator lists the real call chain (all listeners on; not for in-place tail calls)
				if S != nil && len(S) == len(all) && !p.Tail {
					m, mm := chainMonitor(p, cr.Events)
					if m != "" {
						rep.Violate(hx.Violation{Kind: "impl-violation", Signature: "C20:stack-iterator-not-call-chain:" + eng,
							What: m, Input: in, Actual: got})
					}
					if mm != "" {
						sig := "C20:listener-module-not-the-calling-module:" + eng
						if eng == "compiler" && strings.HasPrefix(mm, "MODULE-IS-CALLEE") {
							sig = "F28:compiler-listener-module-is-callee-not-caller"
						}
						rep.Violate(hx.Violation{Kind: "impl-violation", Signature: sig,
							What: "the api.Module handed to the listener is documented as the calling module: " + mm, Input: in, Actual: got})
					}
				}
				// tie C: a subset of listeners sees the projection of what all listeners see
				if allRun != nil && S != nil && len(S) != len(all) {
					want := eventsStr(project(allRun[ci].Events, S))
					if want != eventsStr(cr.Events) {
						rep.Violate(hx.Violation{Kind: "impl-violation", Signature: "C20:subset-stream-not-projection:" + eng,
							What:  "events seen by a listener subset are not the projection of the all-listeners stream (values, stack snapshot incl. frames without listener)",
							Input: in, Expected: want, Actual: eventsStr(cr.Events)})
					}
				}
				// tie C: results are those of the listener-free run
				if base != nil && (natsStr(base[ci].Results) != natsStr(cr.Results) || base[ci].Fail != cr.Fail) {
					rep.Violate(hx.Violation{Kind: "impl-violation", Signature: "C20:results-change-with-listeners:" + eng,
						What: "results differ from the listener-free run", Input: in,
						Expected: fmt.Sprintf("%s %s", natsStr(base[ci].Results), base[ci].Fail), Actual: fmt.Sprintf("%s %s", natsStr(cr.Results), cr.Fail)})
				}
				// tie B: evaluator and model
				if natsStr(exp[ci].Results) != natsStr(cr.Results) || exp[ci].Fail != cr.Fail {
					rep.Violate(hx.Violation{Kind: "correspondence", Signature: "C20:results-differ-from-evaluator:" + eng,
						What: "results differ from the reference evaluator", Input: in,
						Expected: fmt.Sprintf("%s %s", natsStr(exp[ci].Results), exp[ci].Fail), Actual: fmt.Sprintf("%s %s", natsStr(cr.Results), cr.Fail)})
				}
				if want != got {
					rep.Violate(hx.Violation{Kind: "correspondence", Signature: "C20:events-differ-from-model:" + eng,
						What: "recorded listener events differ from the Lean model's events for this call tree", Input: in, Expected: want, Actual: got})
				}
			}
		}
	}
	// tie C: both engines produce the same stream (tail calls excepted: depth implementation-defined)
	if !p.Tail {
		for k, a := range byEngine["interpreter"] {
			b := byEngine["compiler"][k]
			for ci := range a {
				if ci < len(b) && gotString(a[ci]) != gotString(b[ci]) {
					rep.Violate(hx.Violation{Kind: "impl-violation", Signature: "C20:engines-differ",
						What: "interpreter and compiler deliver different listener events", Input: caseInput{Scenario: scn, Listener: k, Call: ci, Program: p},
						Expected: gotString(a[ci]), Actual: gotString(b[ci])})
				}
			}
		}
	}
	if len(p.Nodes) > 0 {
		rep.Sample(map[string]any{"scenario": scn, "tokens": expFor("interpreter")[0].Tokens, "nodes": len(p.Nodes)})
	}
}

// rawMonitor: the encoding of the values handed to listeners (before normalisation).
func rawMonitor(eng string, in caseInput, cr callResult) {
	if cr.RawUpper != "" {
		sig := "C20:listener-i32-upper-bits-not-cleared:" + eng
		if eng == "compiler" {
			sig = "F26:compiler-listener-i32-upper-bits-not-cleared"
		}
		rep.Violate(hx.Violation{Kind: "impl-violation", Signature: sig,
			What: "an i32 parameter/result handed to a listener is not api-encoded (upper 32 bits of the uint64 are not zero): " + cr.RawUpper, Input: in})
	}
	if cr.RawLong != "" {
		sig := "C20:listener-slice-longer-than-arity:" + eng
		if eng == "compiler" {
			sig = "F27:compiler-host-listener-slice-longer-than-arity"
		}
		rep.Violate(hx.Violation{Kind: "impl-violation", Signature: sig,
			What: "the params/results slice handed to a listener has more entries than the function has parameters/results: " + cr.RawLong, Input: in})
	}
	if cr.RawCall != "" {
		sig := "C20:api-call-i32-result-upper-bits-not-cleared:" + eng
		if eng == "compiler" {
			sig = "F29:compiler-api-call-i32-result-upper-bits-not-cleared"
		}
		rep.Violate(hx.Violation{Kind: "impl-violation", Signature: sig,
			What: "api.Function.Call returned an i32 result that is not api-encoded (upper 32 bits not zero); compared after masking: " + cr.RawCall, Input: in})
	}
	if cr.RawHost != "" {
		sig := "C20:host-function-i32-param-upper-bits-not-cleared:" + eng
		if eng == "compiler" {
			sig = "F29:compiler-host-function-i32-param-upper-bits-not-cleared"
		}
		rep.Violate(hx.Violation{Kind: "impl-violation", Signature: sig,
			What: "a Go host function received an i32 parameter that is not api-encoded (upper 32 bits not zero); used after masking: " + cr.RawHost, Input: in})
	}
	if cr.RawShort != "" {
		rep.Violate(hx.Violation{Kind: "impl-violation", Signature: "C20:listener-slice-shorter-than-arity:" + eng,
			What: "the params/results slice handed to a listener has fewer entries than the function has parameters/results: " + cr.RawShort, Input: in})
	}
}

func bucket(n int) string {
	switch {
	case n == 0:
		return "0"
	case n <= 4:
		return "1-4"
	case n <= 16:
		return "5-16"
	case n <= 64:
		return "17-64"
	}
	return ">64"
}

func depthOf(n *Node) int {
	d := 0
	for _, k := range n.Kids {
		if x := depthOf(k); x > d {
			d = x
		}
	}
	return d + 1
}

func randomPrograms(seed int64, n int, tail bool) {
	var wg sync.WaitGroup
	sem := make(chan struct{}, 8)
	for i := 0; i < n; i++ {
		i := i
		wg.Add(1)
		sem <- struct{}{}
		go func() {
			defer wg.Done()
			defer func() { <-sem }()
			r := rand.New(rand.NewSource(seed*1000003 + int64(i)*7919 + 17))
			o := genOpts{maxNodes: 6 + r.Intn(36), maxDepth: 2 + r.Intn(10), failProb: []float64{0, 0.05, 0.15, 0.3}[r.Intn(4)],
				tail: tail, spine: r.Intn(4) == 0, withStart: r.Intn(4) == 0}
			if o.spine {
				o.maxDepth = 10 + r.Intn(21) // up to 30 frames
			}
			p := genProgram(r, o)
			scn := "random"
			if tail {
				scn = "random-tail"
			}
			md := 0
			for _, t := range p.Tops {
				if d := depthOf(t); d > md {
					md = d
				}
			}
			rep.Count(fmt.Sprintf("%s:depth:%s", scn, bucket(md)))
			rep.Count(fmt.Sprintf("%s:nodes:%s", scn, bucket(len(p.Nodes))))
			for _, nd := range p.Nodes {
				rep.Count("callform:" + nd.Mod + "/" + nd.Form)
			}
			checkProgram(scn, p, listenerSets(r, p, 3))
		}()
	}
	wg.Wait()
}

// ---------------------------------------------------------------------------------------------
// recursion scenarios: f1(n) -> f2(n-1) -> f1(n-2) ... ; the innermost call (n == 0) performs the leaf action

const (
	idF1, idF2, idLeaf = 1, 2, 3
)

// recModule: leaf = "unreachable" | "host" (calls env.n3) | "none" | "forever" (unbounded recursion; pad = number of extra
// i64 locals kept alive across the call to enlarge the native frame).
func recModule(leaf string, pad int) []byte {
	m := wb.New()
	m.ImportFunc("env", "n3", nil, nil)
	p, r := []byte{wb.I32}, []byte{wb.I32}
	mk := func(other uint32) []byte {
		if leaf == "forever" {
			var b []byte
			for i := 0; i < pad; i++ {
				b = append(b, wb.LocalGet(0)...)
				b = append(b, wasm.OpcodeI64ExtendI32U)
				b = append(b, i64c(int64(i))...)
				b = append(b, wasm.OpcodeI64Add)
				b = append(b, wb.LocalSet(uint32(1+i))...)
			}
			b = append(b, wb.LocalGet(0)...)
			b = append(b, wb.I32Const(1)...)
			b = append(b, wasm.OpcodeI32Sub)
			b = append(b, wb.Call(other)...)
			for i := 0; i < pad; i++ {
				b = append(b, wb.LocalGet(uint32(1+i))...)
				b = append(b, wasm.OpcodeI32WrapI64, wasm.OpcodeI32Add)
			}
			return b
		}
		var act []byte
		switch leaf {
		case "unreachable":
			act = []byte{wasm.OpcodeUnreachable}
		case "host":
			act = wb.Call(0)
		}
		return wb.Cat(wb.LocalGet(0), wb.Op(wasm.OpcodeI32Eqz), wb.Op(wasm.OpcodeIf, 0x40), act,
			wb.Op(wasm.OpcodeElse), wb.LocalGet(0), wb.I32Const(1), wb.Op(wasm.OpcodeI32Sub), wb.Call(other), wb.Op(wasm.OpcodeDrop),
			wb.Op(wasm.OpcodeEnd), wb.LocalGet(0))
	}
	var locals []byte
	for i := 0; i < pad; i++ {
		locals = append(locals, wb.I64)
	}
	m.AddFunc(wb.Func{Params: p, Results: r, Locals: locals, Body: mk(2), Export: "n1"})
	m.AddFunc(wb.Func{Params: p, Results: r, Locals: locals, Body: mk(1), Export: "n2"})
	return m.Bytes()
}

type recRun struct {
	Events     []Event
	NB, NA, NX int
	NBf        map[int]int
	Results    []uint64
	Fail       string
}

// runRec runs n1(depth) in a fresh runtime. hostLeaf: "ret" | "panic" | "exit".
func runRec(engine string, S lset, leaf, hostLeaf string, depth uint32, light bool, pad int) recRun {
	rec := &recorder{ids: idOfDef, light: light, nBf: map[int]int{}, types: recTypes()}
	ctx := context.Background()
	if S != nil {
		ctx = experimental.WithFunctionListenerFactory(ctx, experimental.FunctionListenerFactoryFunc(
			func(def api.FunctionDefinition) experimental.FunctionListener {
				id := idOfDef(def)
				if S[id] {
					return &lsn{id: id, rec: rec}
				}
				return nil
			}))
	}
	rt := wazero.NewRuntimeWithConfig(ctx, rtConfig(engine, false))
	defer rt.Close(ctx)
	_, err := rt.NewHostModuleBuilder("env").NewFunctionBuilder().WithGoModuleFunction(api.GoModuleFunc(
		func(ctx context.Context, caller api.Module, stack []uint64) {
			switch hostLeaf {
			case "panic":
				panic("boom-3")
			case "exit":
				caller.CloseWithExitCode(ctx, 7)
				panic(sysExit(7))
			}
		}), nil, nil).WithName("n3").Export("n3").Instantiate(ctx)
	if err != nil {
		hx.Fatal("rec env: %v", err)
	}
	mod, err := rt.InstantiateWithConfig(ctx, recModule(leaf, pad), wazero.NewModuleConfig().WithName("A"))
	if err != nil {
		hx.Fatal("rec module: %v", err)
	}
	res, err := mod.ExportedFunction("n1").Call(ctx, uint64(depth))
	return recRun{Events: rec.evs, NB: rec.nB, NA: rec.nA, NX: rec.nX, NBf: rec.nBf, Results: res, Fail: classify(err)}
}

// chainAsk asks the model for n1(depth): the chain f1(depth) -> f2(depth-1) -> ... (depth calls) around the innermost
// call (argument 0) that performs the leaf action.
func chainAsk(engine string, S lset, depth int, mode, leaf, hostLeaf string) string {
	inner := idF1
	if depth%2 == 1 {
		inner = idF2
	}
	var leafT string
	switch leaf {
	case "unreachable":
		leafT = fmt.Sprintf("n 0 %d 1 0 e u", inner)
	case "none":
		leafT = fmt.Sprintf("n 0 %d 1 0 e r 1 0", inner)
	case "host":
		out := "r 0"
		if hostLeaf == "panic" {
			out = "p"
		} else if hostLeaf == "exit" {
			out = "x 7"
		}
		leafT = fmt.Sprintf("n 0 %d 1 0 n 0 %d 0 e %s e r 1 0", inner, idLeaf, out)
	case "overflow":
		leafT = fmt.Sprintf("n 0 %d 1 0 e v", inner)
	}
	s := ""
	if S != nil {
		s = S.String()
	}
	return orc.Askf("c20 chain %s H=%d S=%s %d %d %d %s %s", variants[engine].toks(), idLeaf, s, idF1, idF2, depth, mode, leafT)
}

func recTypes() map[int][2][]byte {
	i := []byte{wb.I32}
	return map[int][2][]byte{idF1: {i, i}, idF2: {i, i}, idLeaf: {nil, nil}}
}

func recSets() []lset {
	return []lset{nil, {}, {idF1: true, idF2: true, idLeaf: true}, {idF1: true}, {idF2: true, idLeaf: true}, {idLeaf: true}}
}

func main() {
	flag.Parse()
	debug.SetGCPercent(50)
	orc = hx.StartOracle()
	defer orc.Close()
	rep = hx.NewReport("C20", "call-tree programs generated per seed (one function per tree node in modules A, B or the host module; call forms direct/indirect/import/host call-back/start/tail; outcomes return/unreachable/div-by-zero/out-of-bounds/host panic/exit) x listener sets (no factory, none, all, 3 random subsets, hosts only, wasm only) x both engines, plus recursion chains (depth 2..100 and to overflow) and the shared-cache scenario; distinct = distinct (scenario, engine, listener set, call index, concrete call tree with values)")
	seed := *hx.Seed
	witnesses()
	n := 40
	if hx.Thorough() {
		n = 400
	}
	randomPrograms(seed, n, false)
	deepUnwind(seed)
	overflow()
	sharedCache()
	largeModule()
	recompile()
	hostCompiledClosed()
	{
		var ps []*Program
		for i := 0; i < 12; i++ {
			r := rand.New(rand.NewSource(seed*31 + int64(i)))
			ps = append(ps, genProgram(r, genOpts{maxNodes: 8 + r.Intn(20), maxDepth: 3 + r.Intn(8), failProb: []float64{0, 0.1, 0.3}[r.Intn(3)], spine: i%3 == 0}))
		}
		multiStage(ps)
	}
	randomPrograms(seed+77, n/2, true)
	rep.Note("engine variants tied on this run: interpreter=%+v compiler=%+v", *variants["interpreter"], *variants["compiler"])
	rep.Note("GOMAXPROCS=%d", runtime.GOMAXPROCS(0))
	rep.Write(orc)
}
