package main

// Call-tree programs: every node of the tree is its own function, placed in the main module "A", in
// the imported library module "B" or in the host module "env" (Go functions that call back into the
// guest).  The same structure is (1) encoded to wasm binaries, (2) evaluated by a small reference
// evaluator that yields the concrete arguments/results of every call and (3) serialised as the token
// form of the Lean model's `Forest`.

import (
	"fmt"
	"math/rand"
	"strings"

	"github.com/tetratelabs/wazero/internal/leb128"
	"github.com/tetratelabs/wazero/internal/wasm"
	"github.com/tetratelabs/wazero/verifharness/wb"
)

const (
	formDirect   = "direct"   // call
	formIndirect = "indirect" // call_indirect through the module's table
	formTail     = "tail"     // return_call
	formTailInd  = "tailind"  // return_call_indirect
	formAPI      = "api"      // api.Function.Call from the host (top level or a host call-back)
)

type Node struct {
	ID      int       `json:"id"`
	Mod     string    `json:"mod"`  // "A", "B", "H"
	Form    string    `json:"form"` // how the parent calls it
	P       []byte    `json:"p"`
	R       []byte    `json:"r"`
	K       []int64   `json:"k"`    // result constants
	ArgC    [][]int64 `json:"argc"` // per child, per parameter constants
	Kids    []*Node   `json:"kids"`
	Out     string    `json:"out"`                // ret | unreachable | divzero | oob | panic | exit
	RetForm int       `json:"ret_form,omitempty"` // wasm ret: 0 fall through, 1 return, 2 br to the function label, 3 br_if, 4 br_table
	Code    uint32    `json:"code,omitempty"`
}

type Program struct {
	Nodes   []*Node    `json:"-"`
	Tops    []*Node    `json:"tops"`
	TopArgs [][]uint64 `json:"top_args"`
	Start   *Node      `json:"start,omitempty"` // start function of A
	Tail    bool       `json:"tail"`            // uses return_call: needs the tail-call feature
}

func (n *Node) name() string { return fmt.Sprintf("n%d", n.ID) }
func (n *Node) isHost() bool { return n.Mod == "H" }
func (n *Node) isTail() bool { return n.Form == formTail || n.Form == formTailInd }

// inPlaceTail: is the tail call performed without a new frame? The interpreter does so for callees of the same module,
// the compiler whenever no stack arguments are involved (always here: at most 3 parameters), also for imported and host callees.
func inPlaceTail(parent, kid *Node, eng string) bool {
	if eng == "compiler" {
		return kid.isTail()
	}
	return kid.isTail() && kid.Mod == parent.Mod
}

type genOpts struct {
	maxNodes  int
	maxDepth  int
	failProb  float64
	tail      bool
	spine     bool // long chain with small branches
	withStart bool
	inStart   bool // generating the start function's tree: host call-backs only into B (A is not registered yet)
}

type gen struct {
	r     *rand.Rand
	p     *Program
	o     genOpts
	count int
}

func (g *gen) types(max int) []byte {
	n := g.r.Intn(max + 1)
	t := make([]byte, n)
	for i := range t {
		if g.r.Intn(2) == 0 {
			t[i] = wb.I32
		} else {
			t[i] = wb.I64
		}
	}
	return t
}

func (g *gen) konst() int64 {
	switch g.r.Intn(6) {
	case 0:
		return int64(g.r.Intn(10))
	case 1:
		return -int64(g.r.Intn(10)) - 1
	case 2:
		return int64(0x7fffffff) + int64(g.r.Intn(3))
	case 3:
		return int64(0xffffffff) - int64(g.r.Intn(3))
	case 4:
		return int64(g.r.Uint64())
	default:
		return int64(g.r.Intn(1 << 20))
	}
}

func (g *gen) newNode(mod, form string, p, r []byte) *Node {
	n := &Node{ID: len(g.p.Nodes) + 1, Mod: mod, Form: form, P: p, R: r, Out: "ret", RetForm: g.r.Intn(5)}
	for range r {
		n.K = append(n.K, g.konst())
	}
	g.p.Nodes = append(g.p.Nodes, n)
	return n
}

func (g *gen) pickMod(parent string) string {
	x := g.r.Intn(10)
	switch parent {
	case "A":
		if x < 5 {
			return "A"
		} else if x < 8 {
			return "B"
		}
		return "H"
	case "B":
		if x < 7 {
			return "B"
		}
		return "H"
	default: // host or top level
		if g.o.inStart {
			return "B"
		}
		if x < 6 {
			return "A"
		}
		return "B"
	}
}

// fill generates the children and the outcome of n (at depth d, 1 = root of a top-level call).
func (g *gen) fill(n *Node, d int) {
	nk := 0
	if d < g.o.maxDepth && len(g.p.Nodes) < g.o.maxNodes {
		if g.o.spine {
			nk = 1
			if g.r.Intn(5) == 0 {
				nk = 2
			}
		} else {
			nk = g.r.Intn(4)
			if d <= 2 && nk == 0 {
				nk = 1 + g.r.Intn(2)
			}
		}
	}
	failed := false
	for j := 0; j < nk && len(g.p.Nodes) < g.o.maxNodes; j++ {
		mod := g.pickMod(n.Mod)
		form := formAPI
		last := j == nk-1
		p, r := g.types(3), g.types(2)
		if !n.isHost() {
			form = formDirect
			if g.r.Intn(3) == 0 {
				form = formIndirect
			}
			if g.o.tail && last && g.r.Intn(2) == 0 {
				form = formTail
				if g.r.Intn(3) == 0 {
					form = formTailInd
				}
				r = append([]byte{}, n.R...)
				g.p.Tail = true
			}
		}
		kid := g.newNode(mod, form, p, r)
		var ac []int64
		for range p {
			ac = append(ac, g.konst())
		}
		n.ArgC = append(n.ArgC, ac)
		n.Kids = append(n.Kids, kid)
		g.fill(kid, d+1)
		if kid.isTail() {
			break
		}
		_ = failed
	}
	// outcome
	if g.r.Float64() < g.o.failProb {
		if n.isHost() {
			if g.r.Intn(2) == 0 {
				n.Out = "panic"
			} else {
				n.Out = "exit"
				n.Code = uint32(g.r.Intn(5))
				if g.r.Intn(4) == 0 {
					n.Code = 0xfffffff0 + uint32(g.r.Intn(15))
				}
			}
		} else {
			n.Out = []string{"unreachable", "divzero", "oob"}[g.r.Intn(3)]
		}
	}
}

func genProgram(r *rand.Rand, o genOpts) *Program {
	g := &gen{r: r, p: &Program{}, o: o}
	if o.withStart {
		s := g.newNode("A", formAPI, nil, nil)
		g.p.Start = s
		save := g.o
		g.o.maxNodes = len(g.p.Nodes) + 6
		g.o.maxDepth = 4
		g.o.inStart = true
		g.o.failProb = o.failProb / 3
		g.fill(s, 1)
		g.o = save
	}
	ntops := 1 + r.Intn(3)
	for t := 0; t < ntops && len(g.p.Nodes) < o.maxNodes; t++ {
		n := g.newNode(g.pickMod("H"), formAPI, g.types(3), g.types(2))
		g.p.Tops = append(g.p.Tops, n)
		var args []uint64
		for _, ty := range n.P {
			v := uint64(g.konst())
			if ty == wb.I32 {
				v = uint64(uint32(v))
			}
			args = append(args, v)
		}
		g.p.TopArgs = append(g.p.TopArgs, args)
		g.fill(n, 1)
	}
	return g.p
}

// ---------------------------------------------------------------------------------------------
// reference evaluator: concrete values of every executed call, as tokens of the Lean `Forest`

type failure struct {
	Kind string // unreachable | divzero | oob | hostpanic | exit<code>
}

func wrapT(t byte, v uint64) uint64 {
	if t == wb.I32 {
		return uint64(uint32(v))
	}
	return v
}

type evalOut struct {
	toks []string
	eng  string
}

// eval evaluates the call of n with args; appends the tokens of the node; returns results or failure.
func (e *evalOut) eval(parent, n *Node, args []uint64) ([]uint64, *failure) {
	tl := "0"
	if parent != nil && inPlaceTail(parent, n, e.eng) {
		tl = "1"
	}
	e.toks = append(e.toks, "n", tl, fmt.Sprint(n.ID), fmt.Sprint(len(args)))
	for _, a := range args {
		e.toks = append(e.toks, fmt.Sprint(a))
	}
	var acc uint64
	for _, a := range args {
		acc += a
	}
	for j, kid := range n.Kids {
		ka := make([]uint64, len(kid.P))
		for i, t := range kid.P {
			ka[i] = wrapT(t, acc+uint64(n.ArgC[j][i]))
		}
		res, f := e.eval(n, kid, ka)
		if f != nil {
			e.toks = append(e.toks, "e", "r", "0")
			return nil, f
		}
		if kid.isTail() {
			// the caller returns the callee's results
			e.toks = append(e.toks, "e", "r", fmt.Sprint(len(res)))
			for _, v := range res {
				e.toks = append(e.toks, fmt.Sprint(v))
			}
			return res, nil
		}
		for _, v := range res {
			acc += v
		}
	}
	e.toks = append(e.toks, "e")
	switch n.Out {
	case "ret":
		res := make([]uint64, len(n.R))
		e.toks = append(e.toks, "r", fmt.Sprint(len(res)))
		for j, t := range n.R {
			res[j] = wrapT(t, acc+uint64(n.K[j]))
			e.toks = append(e.toks, fmt.Sprint(res[j]))
		}
		return res, nil
	case "unreachable":
		e.toks = append(e.toks, "u")
	case "divzero":
		e.toks = append(e.toks, "d")
	case "oob":
		e.toks = append(e.toks, "o")
	case "panic":
		e.toks = append(e.toks, "p")
		return nil, &failure{"hostpanic"}
	case "exit":
		e.toks = append(e.toks, "x", fmt.Sprint(n.Code))
		return nil, &failure{fmt.Sprintf("exit%d", n.Code)}
	}
	return nil, &failure{n.Out}
}

// expected of one top-level call.
type expected struct {
	Tokens  string
	Results []uint64
	Fail    string // "" = ok
}

func evalTop(n *Node, args []uint64, eng string) expected {
	e := &evalOut{eng: eng}
	res, f := e.eval(nil, n, args)
	x := expected{Tokens: strings.Join(e.toks, " "), Results: res}
	if f != nil {
		x.Fail = f.Kind
	}
	return x
}

// ---------------------------------------------------------------------------------------------
// wasm encoding

func (p *Program) byMod(m string) []*Node {
	var out []*Node
	for _, n := range p.Nodes {
		if n.Mod == m {
			out = append(out, n)
		}
	}
	return out
}

// funcIndex of every node visible in module m ("A" or "B").
func (p *Program) indexSpace(m string) map[int]uint32 {
	idx := map[int]uint32{}
	var k uint32
	if m == "A" {
		for _, n := range p.byMod("B") {
			idx[n.ID] = k
			k++
		}
	}
	for _, n := range p.byMod("H") {
		idx[n.ID] = k
		k++
	}
	for _, n := range p.byMod(m) {
		idx[n.ID] = k
		k++
	}
	return idx
}

func i64c(v int64) []byte { return append([]byte{wasm.OpcodeI64Const}, leb128.EncodeInt64(v)...) }

func addAcc(t byte, acc uint32) []byte {
	var b []byte
	if t == wb.I32 {
		b = append(b, wasm.OpcodeI64ExtendI32U)
	}
	b = append(b, wb.LocalGet(acc)...)
	b = append(b, wasm.OpcodeI64Add)
	b = append(b, wb.LocalSet(acc)...)
	return b
}

func (p *Program) body(m *wb.Mod, idx map[int]uint32, n *Node) []byte {
	acc := uint32(len(n.P))
	var b []byte
	for i, t := range n.P {
		b = append(b, wb.LocalGet(uint32(i))...)
		b = append(b, addAcc(t, acc)...)
	}
	for j, kid := range n.Kids {
		for i, t := range kid.P {
			b = append(b, wb.LocalGet(acc)...)
			b = append(b, i64c(n.ArgC[j][i])...)
			b = append(b, wasm.OpcodeI64Add)
			if t == wb.I32 {
				b = append(b, wasm.OpcodeI32WrapI64)
			}
		}
		fi := idx[kid.ID]
		switch kid.Form {
		case formDirect:
			b = append(b, wb.Call(fi)...)
		case formIndirect:
			b = append(b, wb.I32Const(int32(fi))...)
			b = append(b, wasm.OpcodeCallIndirect)
			b = append(b, wb.U32(m.TypeIdx(kid.P, kid.R))...)
			b = append(b, 0)
		case formTail:
			b = append(b, wasm.OpcodeTailCallReturnCall)
			b = append(b, wb.U32(fi)...)
		case formTailInd:
			b = append(b, wb.I32Const(int32(fi))...)
			b = append(b, wasm.OpcodeTailCallReturnCallIndirect)
			b = append(b, wb.U32(m.TypeIdx(kid.P, kid.R))...)
			b = append(b, 0)
		default:
			panic("bad call form in wasm parent: " + kid.Form)
		}
		if kid.isTail() {
			return b
		}
		for k := len(kid.R) - 1; k >= 0; k-- {
			b = append(b, addAcc(kid.R[k], acc)...)
		}
	}
	switch n.Out {
	case "ret":
		for j, t := range n.R {
			b = append(b, wb.LocalGet(acc)...)
			b = append(b, i64c(n.K[j])...)
			b = append(b, wasm.OpcodeI64Add)
			if t == wb.I32 {
				b = append(b, wasm.OpcodeI32WrapI64)
			}
		}
		switch n.RetForm {
		case 1:
			b = append(b, wasm.OpcodeReturn)
		case 2:
			b = append(b, wasm.OpcodeBr, 0)
		case 3:
			b = append(b, wb.I32Const(1)...)
			b = append(b, wasm.OpcodeBrIf, 0)
		case 4:
			b = append(b, wb.I32Const(int32(n.ID%3))...)
			b = append(b, wasm.OpcodeBrTable, 1, 0, 0)
		}
	case "unreachable":
		b = append(b, wasm.OpcodeUnreachable)
	case "divzero":
		b = append(b, wb.I32Const(1)...)
		b = append(b, wb.I32Const(0)...)
		b = append(b, wasm.OpcodeI32DivU, wasm.OpcodeDrop, wasm.OpcodeUnreachable)
	case "oob":
		b = append(b, wb.I32Const(-1)...)
		b = append(b, wb.MemArg(wasm.OpcodeI32Load, 2, 0)...)
		b = append(b, wasm.OpcodeDrop, wasm.OpcodeUnreachable)
	default:
		panic("bad outcome for a wasm node: " + n.Out)
	}
	return b
}

// addTable adds a funcref table holding every function of the index space at its own index.
func addTable(m *wb.Mod, nfuncs uint32) {
	if nfuncs == 0 {
		return
	}
	m.M.TableSection = []wasm.Table{{Min: nfuncs, Type: wasm.RefTypeFuncref}}
	init := make([]wasm.Index, nfuncs)
	for i := range init {
		init[i] = wasm.Index(i)
	}
	m.M.ElementSection = []wasm.ElementSegment{{
		OffsetExpr: wasm.ConstantExpression{Opcode: wasm.OpcodeI32Const, Data: leb128.EncodeInt32(0)},
		Init:       init, Type: wasm.RefTypeFuncref, Mode: wasm.ElementModeActive,
	}}
}

// encode returns the binary of module m ("A" or "B").
func (p *Program) encode(mn string) []byte {
	m := wb.New()
	idx := p.indexSpace(mn)
	if mn == "A" {
		for _, n := range p.byMod("B") {
			m.ImportFunc("B", n.name(), n.P, n.R)
		}
	}
	for _, n := range p.byMod("H") {
		m.ImportFunc("env", n.name(), n.P, n.R)
	}
	m.Memory(1, nil, false, "")
	for _, n := range p.byMod(mn) {
		fi := m.AddFunc(wb.Func{Params: n.P, Results: n.R, Locals: []byte{wb.I64}, Export: n.name()})
		if fi != idx[n.ID] {
			panic("index space mismatch")
		}
	}
	// bodies need the type section to be complete for call_indirect: fill them now
	locals := p.byMod(mn)
	for i, n := range locals {
		body := append(p.body(m, idx, n), wasm.OpcodeEnd)
		m.M.CodeSection[i].Body = body
	}
	addTable(m, uint32(len(idx)))
	if mn == "A" && p.Start != nil {
		s := idx[p.Start.ID]
		m.M.StartSection = &s
	}
	return m.Bytes()
}
