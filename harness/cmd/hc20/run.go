package main

// Running a program on the real engines with a recording listener factory, and the monitors (tie C).

import (
	"context"
	"errors"
	"fmt"
	"sort"
	"strings"

	"github.com/tetratelabs/wazero"
	"github.com/tetratelabs/wazero/api"
	"github.com/tetratelabs/wazero/experimental"
	"github.com/tetratelabs/wazero/sys"
)

type Event struct {
	Kind  byte     // 'B', 'A', 'X'
	F     int      // node/function id
	Vals  []uint64 // params or results
	Stack []int    // snapshot of the stack iterator (function ids, callee first)
	Mod   string   // name of the api.Module handed to the listener
	Err   string   // classified error of Abort
}

func natsStr(v []uint64) string {
	s := make([]string, len(v))
	for i, x := range v {
		s[i] = fmt.Sprint(x)
	}
	return strings.Join(s, ",")
}

func intsStr(v []int) string {
	s := make([]string, len(v))
	for i, x := range v {
		s[i] = fmt.Sprint(x)
	}
	return strings.Join(s, ",")
}

func (e Event) String() string {
	switch e.Kind {
	case 'B':
		return fmt.Sprintf("B%d(%s)[%s]", e.F, natsStr(e.Vals), intsStr(e.Stack))
	case 'A':
		return fmt.Sprintf("A%d(%s)", e.F, natsStr(e.Vals))
	default:
		return fmt.Sprintf("X%d:%s", e.F, e.Err)
	}
}

func eventsStr(evs []Event) string {
	s := make([]string, len(evs))
	for i, e := range evs {
		s[i] = e.String()
	}
	return strings.Join(s, " ")
}

// classify maps an error of the real code to the model's failure kinds.
func classify(err error) string {
	if err == nil {
		return ""
	}
	var ee *sys.ExitError
	if errors.As(err, &ee) {
		return fmt.Sprintf("exit%d", ee.ExitCode())
	}
	m := err.Error()
	switch {
	case strings.Contains(m, "boom"):
		return "hostpanic"
	case strings.Contains(m, "unreachable"):
		return "unreachable"
	case strings.Contains(m, "integer divide by zero"):
		return "divzero"
	case strings.Contains(m, "out of bounds memory access"):
		return "oob"
	case strings.Contains(m, "stack overflow"):
		return "overflow"
	}
	if len(m) > 120 {
		m = m[:120]
	}
	return "other:" + strings.ReplaceAll(strings.ReplaceAll(m, "\n", "/"), " ", "_")
}

type recorder struct {
	evs        []Event
	ids        func(def api.FunctionDefinition) int
	light      bool // count only (deep recursion scenarios)
	nB, nA, nX int
	nBf        map[int]int
	types      map[int][2][]byte // function id -> (param types, result types)
	rawUpper   string            // first event whose i32 value had non-zero upper 32 bits
	rawLong    string            // first event whose value slice was longer than the arity
	rawShort   string            // first event whose value slice was shorter than the arity
	rawHost    string            // first host function i32 parameter with non-zero upper bits
	rawCall    string            // first api.Function.Call result (i32) with non-zero upper bits
}

// normalise brings a params/results slice to the api encoding: one uint64 per value, i32 in the low 32 bits.
// What the raw slice had beyond that is noted (separate findings) and not compared.
func (r *recorder) normalise(kind byte, id int, raw []uint64) []uint64 {
	ts, ok := r.types[id]
	if !ok {
		return append([]uint64{}, raw...)
	}
	t := ts[0]
	if kind == 'A' {
		t = ts[1]
	}
	if len(raw) > len(t) && r.rawLong == "" {
		r.rawLong = fmt.Sprintf("%c%d(%s) for %d values", kind, id, natsStr(raw), len(t))
	}
	if len(raw) < len(t) {
		if r.rawShort == "" {
			r.rawShort = fmt.Sprintf("%c%d(%s) for %d values", kind, id, natsStr(raw), len(t))
		}
		return append([]uint64{}, raw...)
	}
	out := make([]uint64, len(t))
	for i := range t {
		out[i] = raw[i]
		if t[i] == 0x7f && raw[i]>>32 != 0 {
			if r.rawUpper == "" {
				r.rawUpper = fmt.Sprintf("%c%d(%s) value %d is an i32: %#x", kind, id, natsStr(raw), i, raw[i])
			}
			out[i] = uint64(uint32(raw[i]))
		}
	}
	return out
}

type lsn struct {
	id  int
	rec *recorder
}

func (l *lsn) Before(ctx context.Context, mod api.Module, def api.FunctionDefinition, params []uint64, si experimental.StackIterator) {
	r := l.rec
	r.nB++
	if r.light {
		if r.nBf != nil {
			r.nBf[l.id]++
		}
		return
	}
	e := Event{Kind: 'B', F: r.ids(def), Vals: r.normalise('B', l.id, params)}
	if e.F != l.id {
		e.F = -l.id*100000 - e.F // listener invoked with a definition of another function
	}
	for si.Next() {
		fn := si.Function()
		e.Stack = append(e.Stack, r.ids(fn.Definition()))
		_ = fn.SourceOffsetForPC(si.ProgramCounter()) // exercised; value ignored
	}
	if mod != nil {
		e.Mod = mod.Name()
	}
	r.evs = append(r.evs, e)
}

func (l *lsn) After(ctx context.Context, mod api.Module, def api.FunctionDefinition, results []uint64) {
	r := l.rec
	r.nA++
	if r.light {
		return
	}
	e := Event{Kind: 'A', F: r.ids(def), Vals: r.normalise('A', l.id, results)}
	if e.F != l.id {
		e.F = -l.id*100000 - e.F
	}
	if mod != nil {
		e.Mod = mod.Name()
	}
	r.evs = append(r.evs, e)
}

func (l *lsn) Abort(ctx context.Context, mod api.Module, def api.FunctionDefinition, err error) {
	r := l.rec
	r.nX++
	if r.light {
		return
	}
	e := Event{Kind: 'X', F: r.ids(def), Err: classify(err)}
	if e.F != l.id {
		e.F = -l.id*100000 - e.F
	}
	if mod != nil {
		e.Mod = mod.Name()
	}
	r.evs = append(r.evs, e)
}

// idOfDef: functions are exported as n<ID>.
func idOfDef(def api.FunctionDefinition) int {
	for _, n := range def.ExportNames() {
		var id int
		if _, err := fmt.Sscanf(n, "n%d", &id); err == nil {
			return id
		}
	}
	var id int
	if _, err := fmt.Sscanf(def.Name(), "n%d", &id); err == nil {
		return id
	}
	return -1
}

// listener set: nil = no factory installed at all.
type lset map[int]bool

func (s lset) String() string {
	if s == nil {
		return "nofactory"
	}
	var ids []int
	for k, v := range s {
		if v {
			ids = append(ids, k)
		}
	}
	sort.Ints(ids)
	return intsStr(ids)
}

func rtConfig(engine string, tail bool) wazero.RuntimeConfig {
	var rc wazero.RuntimeConfig
	if engine == "compiler" {
		rc = wazero.NewRuntimeConfigCompiler()
	} else {
		rc = wazero.NewRuntimeConfigInterpreter()
	}
	f := api.CoreFeaturesV2
	if tail {
		f |= experimental.CoreFeaturesTailCall
	}
	return rc.WithCoreFeatures(f)
}

type callResult struct {
	Events  []Event
	Results []uint64
	Fail    string
	// raw-encoding observations of the whole run (set on the first callResult)
	RawUpper, RawLong, RawShort, RawCall, RawHost string
	// Shadow: with the listener factory wrapped in experimental.MultiFunctionListenerFactory next to a second recording
	// factory (multiFactory), what the SECOND listener set saw during this call
	Shadow []Event
}

// multiFactory: runProgram installs MultiFunctionListenerFactory(recording factory, a second recording factory)
// instead of the recording factory alone (the combinator hands each of its listeners a stack iterator of its own).
var multiFactory bool

// runProgram instantiates env, B, A and performs the start function and the top-level calls.
// Returns one callResult per API-level call that was made (start first when present).
func runProgram(p *Program, engine string, S lset) (out []callResult, fault error) {
	defer func() {
		if r := recover(); r != nil {
			fault = fmt.Errorf("harness panic: %v", r)
		}
	}()
	rec := &recorder{ids: idOfDef, types: map[int][2][]byte{}}
	for _, n := range p.Nodes {
		rec.types[n.ID] = [2][]byte{n.P, n.R}
	}
	defer func() {
		if len(out) > 0 {
			out[0].RawUpper, out[0].RawLong, out[0].RawShort, out[0].RawCall, out[0].RawHost = rec.rawUpper, rec.rawLong, rec.rawShort, rec.rawCall, rec.rawHost
		}
	}()
	ctx := context.Background()
	var rec2 *recorder
	if S != nil {
		mk := func(rc *recorder) experimental.FunctionListenerFactory {
			return experimental.FunctionListenerFactoryFunc(func(def api.FunctionDefinition) experimental.FunctionListener {
				id := idOfDef(def)
				if S[id] {
					return &lsn{id: id, rec: rc}
				}
				return nil
			})
		}
		if multiFactory {
			rec2 = &recorder{ids: idOfDef, types: rec.types}
			ctx = experimental.WithFunctionListenerFactory(ctx, experimental.MultiFunctionListenerFactory(mk(rec), mk(rec2)))
		} else {
			ctx = experimental.WithFunctionListenerFactory(ctx, mk(rec))
		}
	}
	rt := wazero.NewRuntimeWithConfig(ctx, rtConfig(engine, p.Tail))
	defer rt.Close(ctx)

	modOf := func(n *Node) api.Module { return rt.Module(n.Mod) }
	// host module
	hb := rt.NewHostModuleBuilder("env")
	nh := 0
	for _, n := range p.byMod("H") {
		n := n
		nh++
		fn := func(ctx context.Context, caller api.Module, stack []uint64) {
			var acc uint64
			for i, t := range n.P {
				if t == 0x7f && stack[i]>>32 != 0 && rec.rawHost == "" {
					rec.rawHost = fmt.Sprintf("host function %s received %#x for i32 parameter %d", n.name(), stack[i], i)
				}
				acc += wrapT(t, stack[i])
			}
			for j, kid := range n.Kids {
				ka := make([]uint64, len(kid.P))
				for i, t := range kid.P {
					ka[i] = wrapT(t, acc+uint64(n.ArgC[j][i]))
				}
				target := modOf(kid)
				if target == nil && caller.Name() == kid.Mod {
					target = caller // during the start function the module is not registered yet
				}
				res, err := target.ExportedFunction(kid.name()).Call(ctx, ka...)
				if err != nil {
					panic(err)
				}
				for k, v := range res {
					acc += wrapT(kid.R[k], v) // api.Function.Call may return an i32 with stale upper bits (compiler); see rawMonitor
				}
			}
			switch n.Out {
			case "panic":
				panic(fmt.Sprintf("boom-%d", n.ID))
			case "exit":
				caller.CloseWithExitCode(ctx, n.Code)
				panic(sys.NewExitError(n.Code))
			}
			for j, t := range n.R {
				stack[j] = wrapT(t, acc+uint64(n.K[j]))
			}
		}
		hb.NewFunctionBuilder().WithGoModuleFunction(api.GoModuleFunc(fn), n.P, n.R).WithName(n.name()).Export(n.name())
	}
	if nh > 0 {
		if _, err := hb.Instantiate(ctx); err != nil {
			return nil, fmt.Errorf("env: %v", err)
		}
	}
	if len(p.byMod("B")) > 0 {
		if _, err := rt.InstantiateWithConfig(ctx, p.encode("B"), wazero.NewModuleConfig().WithName("B")); err != nil {
			return nil, fmt.Errorf("B: %v", err)
		}
	}
	_, err := rt.InstantiateWithConfig(ctx, p.encode("A"), wazero.NewModuleConfig().WithName("A"))
	if p.Start != nil {
		cr := callResult{Events: rec.evs, Fail: classify(err)}
		rec.evs = nil
		if rec2 != nil {
			cr.Shadow, rec2.evs = rec2.evs, nil
		}
		out = append(out, cr)
		if err != nil {
			return out, nil
		}
	} else if err != nil {
		return nil, fmt.Errorf("A: %v", err)
	}
	fns := map[int]api.Function{}
	for i, n := range p.Tops {
		f := fns[n.ID]
		if f == nil {
			f = modOf(n).ExportedFunction(n.name())
			fns[n.ID] = f
		}
		res, err := f.Call(ctx, p.TopArgs[i]...)
		for k := range res {
			if n.R[k] == 0x7f && res[k]>>32 != 0 {
				if rec.rawCall == "" {
					rec.rawCall = fmt.Sprintf("%s.Call returned %#x for an i32 result", n.name(), res[k])
				}
				res[k] = uint64(uint32(res[k]))
			}
		}
		cr := callResult{Events: rec.evs, Results: res, Fail: classify(err)}
		rec.evs = nil
		if rec2 != nil {
			cr.Shadow, rec2.evs = rec2.evs, nil
		}
		out = append(out, cr)
		if strings.HasPrefix(cr.Fail, "exit") {
			break // the module is closed
		}
	}
	return out, nil
}

// ---------------------------------------------------------------------------------------------
// monitors (the property's own predicates on a recorded stream)

// bracketMonitor: every Before is closed by exactly one After/Abort, properly nested. Returns "" or a description.
func bracketMonitor(evs []Event) string {
	var open []int
	for i, e := range evs {
		switch e.Kind {
		case 'B':
			open = append(open, e.F)
		default:
			if len(open) == 0 {
				return fmt.Sprintf("event %d %s closes nothing", i, e)
			}
			if open[len(open)-1] != e.F {
				return fmt.Sprintf("event %d %s closes %d", i, e, open[len(open)-1])
			}
			open = open[:len(open)-1]
		}
	}
	if len(open) > 0 {
		return fmt.Sprintf("%d calls left open (innermost %d)", len(open), open[len(open)-1])
	}
	return ""
}

// chainMonitor (all functions have listeners): the snapshot at a Before is the callee followed by the open
// calls outward up to (excluding) the nearest host function, i.e. the chain of the current call engine;
// the module handed to the listener is the callee's module for wasm functions and the caller's for host functions.
func chainMonitor(p *Program, evs []Event) (stackMsg, modMsg string) {
	byID := map[int]*Node{}
	for _, n := range p.Nodes {
		byID[n.ID] = n
	}
	var open []int
	for i, e := range evs {
		n := byID[e.F]
		if n == nil {
			return fmt.Sprintf("event %d %s: unknown function", i, e), modMsg
		}
		switch e.Kind {
		case 'B':
			want := []int{e.F}
			for k := len(open) - 1; k >= 0; k-- {
				if byID[open[k]].isHost() {
					break
				}
				want = append(want, open[k])
			}
			if intsStr(want) != intsStr(e.Stack) {
				return fmt.Sprintf("event %d %s: stack iterator lists [%s], the open call chain is [%s]", i, e, intsStr(e.Stack), intsStr(want)), modMsg
			}
			// documented: mod = the calling module (the callee's own module for an API-level call)
			wantMod := n.Mod
			if len(open) > 0 && !byID[open[len(open)-1]].isHost() {
				wantMod = byID[open[len(open)-1]].Mod
			}
			if wantMod != "H" && e.Mod != wantMod && modMsg == "" {
				if !n.isHost() && e.Mod == n.Mod {
					modMsg = fmt.Sprintf("MODULE-IS-CALLEE event %d %s: listener got module %q, the calling module is %q", i, e, e.Mod, wantMod)
				} else {
					modMsg = fmt.Sprintf("event %d %s: listener got module %q, the calling module is %q", i, e, e.Mod, wantMod)
				}
			}
			open = append(open, e.F)
		default:
			if len(open) > 0 {
				open = open[:len(open)-1]
			}
		}
	}
	return "", modMsg
}

// project keeps the events of functions in S.
func project(evs []Event, S lset) []Event {
	var out []Event
	for _, e := range evs {
		if S[e.F] {
			out = append(out, e)
		}
	}
	return out
}
