package main

// Witness replays (finding switches), deep unwinding, stack overflow, shared compilation cache.

import (
	"context"
	"fmt"
	"math/rand"
	"strings"

	"github.com/tetratelabs/wazero"
	"github.com/tetratelabs/wazero/api"
	"github.com/tetratelabs/wazero/experimental"
	"github.com/tetratelabs/wazero/internal/wasm"
	"github.com/tetratelabs/wazero/sys"
	"github.com/tetratelabs/wazero/verifharness/hx"
	"github.com/tetratelabs/wazero/verifharness/wb"
)

func sysExit(c uint32) error { return sys.NewExitError(c) }

// interpreter.callStackCeiling (unexported var; the overflow run below checks it).
const interpCeiling = 2000

// compilerPad: extra live locals per frame in the unbounded recursion, so that the compiler's 400 MB native
// stack is exhausted after tens of thousands rather than millions of frames.
const compilerPad = 1500

var overflowRuns = map[string]recRun{}

func recAll() lset { return lset{idF1: true, idF2: true, idLeaf: true} }

// witnesses replays the witnesses of the recorded findings on the real code and selects, per engine, the
// model variant (as-is or repaired) that the rest of the run is tied to.
func witnesses() {
	// F22: 31 frames then unreachable: every engine must deliver 31 Aborts; F30: the innermost Before must list 31 frames
	for _, eng := range engines {
		w := runRec(eng, recAll(), "unreachable", "", 30, false, 0)
		rep.Case("witness/F22/" + eng)
		in := caseInput{Scenario: "witness-F22", Engine: eng, Listener: "all", Note: "n1(30): f1/f2 mutual recursion 31 frames deep, innermost executes unreachable"}
		switch {
		case w.NB == 31 && w.NX == 30:
			variants[eng].Cap = "30"
			rep.Violate(hx.Violation{Kind: "impl-violation", Signature: "F22:" + eng + "-abort-capped-at-30-frames",
				What:  eng + ": a trap unwinding 31 frames delivers Abort only to the innermost 30 listeners; the outermost call has a Before and no After/Abort",
				Input: in, Expected: "31 Before, 31 Abort", Actual: fmt.Sprintf("%d Before, %d Abort; monitor: %s", w.NB, w.NX, bracketMonitor(w.Events))})
		case w.NB == 31 && w.NX == 31:
			variants[eng].Cap = "-"
		default:
			rep.Note("F22 witness %s: neither as-is nor repaired (%d Before, %d Abort); tied to the repaired variant", eng, w.NB, w.NX)
		}
		innermost := 0
		for _, e := range w.Events {
			if e.Kind == 'B' {
				innermost = len(e.Stack)
			}
		}
		switch {
		case innermost == 31:
			variants[eng].Scap = "-"
		case innermost > 0 && innermost < 31:
			variants[eng].Scap = fmt.Sprint(innermost)
			rep.Violate(hx.Violation{Kind: "impl-violation", Signature: fmt.Sprintf("F30:%s-stack-iterator-truncated-to-%d-frames", eng, innermost),
				What:  fmt.Sprintf("%s: the stack iterator handed to Before lists only the innermost %d frames of a 31-frame call chain (UnwindStack stops at wasmdebug.MaxFrames return addresses, the last is dropped as the trampoline)", eng, innermost),
				Input: in, Expected: "31 frames", Actual: fmt.Sprintf("%d frames", innermost)})
		default:
			rep.Note("F30 witness %s: innermost Before lists %d frames", eng, innermost)
		}
	}
	// F21 / F22b: unbounded recursion
	for _, eng := range engines {
		pad := 0
		if eng == "compiler" {
			pad = compilerPad
		}
		o := runRec(eng, recAll(), "forever", "", 0, true, pad)
		overflowRuns[eng] = o
		rep.Case("witness/overflow/" + eng)
		rep.Note("overflow %s: %d Before, %d After, %d Abort, result %s", eng, o.NB, o.NA, o.NX, o.Fail)
		in := caseInput{Scenario: "witness-overflow", Engine: eng, Listener: "all", Note: "n1(0): f1/f2 unbounded mutual recursion, a listener on every function"}
		if o.Fail != "overflow" {
			rep.Violate(hx.Violation{Kind: "correspondence", Signature: "C20:unbounded-recursion-does-not-overflow:" + eng,
				What: "unbounded recursion did not end in a stack overflow error", Input: in, Actual: o.Fail})
			continue
		}
		if eng == "interpreter" {
			if o.NB == interpCeiling+1 {
				variants[eng].Bao = 1
				rep.Violate(hx.Violation{Kind: "impl-violation", Signature: "F22b:interpreter-before-delivered-for-call-that-overflows",
					What:  "interpreter: the call that hits the call-stack ceiling gets a Before (delivered before pushFrame tests the ceiling) but never a frame, so it can never get an Abort",
					Input: in, Expected: fmt.Sprintf("%d Before", interpCeiling), Actual: fmt.Sprintf("%d Before, %d Abort", o.NB, o.NX)})
			} else if o.NB != interpCeiling {
				rep.Note("interpreter overflow after %d Before (ceiling %d)", o.NB, interpCeiling)
			}
		} else {
			if o.NX == 0 && o.NB > 0 {
				variants[eng].Ovp = 0
				rep.Violate(hx.Violation{Kind: "impl-violation", Signature: "F21:compiler-no-abort-on-stack-overflow",
					What:  "compiler: stack overflow is returned from growStack, not panicked; the deferred abort path never runs: every open call has a Before and no After/Abort",
					Input: in, Expected: fmt.Sprintf("%d Before, %d Abort", o.NB, o.NB), Actual: fmt.Sprintf("%d Before, %d After, %d Abort", o.NB, o.NA, o.NX)})
			}
		}
	}
	// tail-call witness: n1 = return_call n2
	for _, eng := range engines {
		p := tailWitness()
		crs, err := runProgram(p, eng, allSet(p))
		if err != nil {
			hx.Fatal("tail witness: %v", err)
		}
		rep.Case("witness/tail/" + eng)
		got := eventsStr(crs[0].Events)
		sawCallee := false
		for _, e := range crs[0].Events {
			if e.Kind == 'B' && e.F == 2 {
				sawCallee = true
			}
		}
		sawCallerClosed := false
		for _, e := range crs[0].Events {
			if e.Kind != 'B' && e.F == 1 {
				sawCallerClosed = true
			}
		}
		if sawCallee && !sawCallerClosed {
			variants[eng].Tj = 1
			rep.Violate(hx.Violation{Kind: "impl-violation", Signature: "F32:" + eng + "-tail-caller-never-closed",
				What:  eng + ": a function that leaves through return_call gets a Before and never an After/Abort: the tail call is a jump and the After trampoline emitted after the call is dead code",
				Input: caseInput{Scenario: "witness-tail", Engine: eng, Listener: "all", Program: p}, Expected: "B1 B2 A2 A1 (or B1 A1 B2 A2)", Actual: got})
		}
		if !sawCallee {
			variants[eng].Tip = 1
			rep.Violate(hx.Violation{Kind: "impl-violation", Signature: "F31:" + eng + "-tail-callee-gets-no-listener-events",
				What:  eng + ": a function entered through return_call (same module) produces no Before/After: the caller's frame is rewritten in place and only the caller's listener fires (its After reports the callee's results)",
				Input: caseInput{Scenario: "witness-tail", Engine: eng, Listener: "all", Program: p}, Expected: "B1 B2 A2 A1 (or B1 A1 B2 A2)", Actual: got})
		}
	}
}

func tailWitness() *Program {
	p := &Program{Tail: true}
	n1 := &Node{ID: 1, Mod: "A", Form: formAPI, R: []byte{wb.I32}, K: []int64{5}, Out: "ret"}
	n2 := &Node{ID: 2, Mod: "A", Form: formTail, P: []byte{wb.I32}, R: []byte{wb.I32}, K: []int64{7}, Out: "ret"}
	n1.Kids = []*Node{n2}
	n1.ArgC = [][]int64{{3}}
	p.Nodes = []*Node{n1, n2}
	p.Tops = []*Node{n1}
	p.TopArgs = [][]uint64{nil}
	return p
}

// deepUnwind: chains of 2..100 frames ending in a trap, a host panic, an exit or a normal return, all listener subsets.
func deepUnwind(seed int64) {
	r := rand.New(rand.NewSource(seed ^ 0x5eed))
	depths := []int{1, 2, 28, 29, 30, 31, 32, 45, 64, 100}
	if hx.Thorough() {
		for i := 0; i < 12; i++ {
			depths = append(depths, 3+r.Intn(150))
		}
		depths = append(depths, 500, 1998)
	} else {
		depths = append(depths, 3+r.Intn(25), 33+r.Intn(60))
	}
	type leafT struct{ leaf, host string }
	leaves := []leafT{{"unreachable", ""}, {"host", "panic"}, {"host", "exit"}, {"host", "ret"}, {"none", ""}}
	for _, eng := range engines {
		for _, d := range depths {
			for _, lf := range leaves {
				var base recRun
				for _, S := range recSets() {
					if d > 200 && S != nil && len(S) != 3 {
						continue
					}
					w := runRec(eng, S, lf.leaf, lf.host, uint32(d), false, 0)
					if S == nil {
						base = w
					}
					frames := d + 1
					if lf.leaf == "host" {
						frames++
					}
					in := caseInput{Scenario: "deep-unwind", Engine: eng, Listener: S.String(),
						Note: fmt.Sprintf("n1(%d): %d frames, innermost: %s %s", d, frames, lf.leaf, lf.host)}
					rep.Case(fmt.Sprintf("deep/%s/%d/%s%s/%s", eng, d, lf.leaf, lf.host, S))
					rep.Count("deep:frames:" + bucket(frames))
					got := gotString(callResult{Events: w.Events, Fail: w.Fail})
					want := chainAsk(eng, S, d, "full", lf.leaf, lf.host)
					failing := lf.leaf == "unreachable" || (lf.leaf == "host" && lf.host != "ret")
					if m := bracketMonitor(w.Events); m != "" {
						sig := "C20:unbracketed:" + eng
						if variants[eng].Cap == "30" && failing && frames > 30 && want == got {
							// exactly the recorded finding: more than 30 frames unwound, and the stream is what the as-is model says
							sig = "F22:" + eng + "-abort-capped-at-30-frames"
						}
						rep.Violate(hx.Violation{Kind: "impl-violation", Signature: sig, What: "listener events are not bracketed: " + m,
							Input: in, Actual: abbreviate(got)})
					}
					if want != got {
						rep.Violate(hx.Violation{Kind: "correspondence", Signature: "C20:events-differ-from-model:" + eng,
							What: "recorded listener events differ from the Lean model's events for this chain", Input: in, Expected: abbreviate(want), Actual: abbreviate(got)})
					}
					if base.Fail != w.Fail || natsStr(base.Results) != natsStr(w.Results) {
						rep.Violate(hx.Violation{Kind: "impl-violation", Signature: "C20:results-change-with-listeners:" + eng,
							What: "results differ from the listener-free run", Input: in, Expected: base.Fail + " " + natsStr(base.Results), Actual: w.Fail + " " + natsStr(w.Results)})
					}
				}
			}
		}
	}
}

func abbreviate(s string) string {
	if len(s) > 1500 {
		return s[:700] + " ... " + s[len(s)-700:]
	}
	return s
}

// overflow: the counts of the unbounded recursion against the model (count mode) and the count form of the bracket monitor.
func overflow() {
	for _, eng := range engines {
		o := overflowRuns[eng]
		if o.Fail != "overflow" {
			continue
		}
		d := o.NB - variants[eng].Bao // frames entered
		want := chainAsk(eng, recAll(), d, "count", "overflow", "")
		var nb, na, nx, wbk int
		var res string
		fmt.Sscanf(want, "%d %d %d %d %s", &nb, &na, &nx, &wbk, &res)
		rep.Case("overflow/" + eng)
		rep.Count("overflow:frames:" + bucket(d))
		if nb != o.NB || na != o.NA || nx != o.NX || res != "fail:overflow" {
			rep.Violate(hx.Violation{Kind: "correspondence", Signature: "C20:overflow-counts-differ-from-model:" + eng,
				What:  "event counts of the unbounded recursion differ from the Lean model",
				Input: caseInput{Scenario: "overflow", Engine: eng, Listener: "all"}, Expected: want, Actual: fmt.Sprintf("%d %d %d", o.NB, o.NA, o.NX)})
		}
		if o.NB != o.NA+o.NX {
			known := (variants[eng].Ovp == 0 && o.NX == 0) || (variants[eng].Cap == "30" && o.NX == 30) || (variants[eng].Bao == 1 && o.NB == o.NX+1)
			if !known {
				rep.Violate(hx.Violation{Kind: "impl-violation", Signature: "C20:unbracketed-at-overflow:" + eng,
					What:  "stack overflow: number of Before differs from After+Abort",
					Input: caseInput{Scenario: "overflow", Engine: eng, Listener: "all"}, Actual: fmt.Sprintf("%d Before, %d After, %d Abort", o.NB, o.NA, o.NX)})
			}
		}
		// a listener subset: only the count monitor
		if eng == "interpreter" {
			s := runRec(eng, lset{idF2: true}, "forever", "", 0, true, 0)
			rep.Case("overflow-subset/" + eng)
			want := interpCeiling / 2
			if s.Fail != "overflow" || s.NB != want || (variants[eng].Cap == "-" && s.NX != s.NB) || (variants[eng].Cap == "30" && s.NX != 15) {
				rep.Violate(hx.Violation{Kind: "correspondence", Signature: "C20:overflow-subset-counts:" + eng,
					What:  "listener on f2 only, unbounded recursion: counts differ from the tied variant",
					Input: caseInput{Scenario: "overflow", Engine: eng, Listener: "2"}, Actual: fmt.Sprintf("%d Before, %d After, %d Abort %s", s.NB, s.NA, s.NX, s.Fail)})
			}
		}
	}
}

// sharedCache: F12. Two runtimes share one compilation cache; each compiles the same binary under its own
// listener factory and calls n1(3). Every runtime's own listener must see its own calls.
func sharedCache() {
	for _, eng := range engines {
		cache := wazero.NewCompilationCache()
		bin := cacheModule()
		var recs [2]*recorder
		var fails [2]string
		for k := 0; k < 2; k++ {
			rec := &recorder{ids: idOfDef, types: recTypes()}
			recs[k] = rec
			ctx := experimental.WithFunctionListenerFactory(context.Background(), experimental.FunctionListenerFactoryFunc(
				func(def api.FunctionDefinition) experimental.FunctionListener {
					return &lsn{id: idOfDef(def), rec: rec}
				}))
			rt := wazero.NewRuntimeWithConfig(ctx, rtConfig(eng, false).WithCompilationCache(cache))
			mod, err := rt.InstantiateWithConfig(ctx, bin, wazero.NewModuleConfig().WithName("A"))
			if err != nil {
				hx.Fatal("shared cache: %v", err)
			}
			_, err = mod.ExportedFunction("n1").Call(ctx, 3)
			fails[k] = classify(err)
			defer rt.Close(ctx)
		}
		cache.Close(context.Background())
		rep.Case("shared-cache/" + eng)
		got := fmt.Sprintf("runtime1's listener: [%s]; runtime2's listener: [%s]", eventsStr(recs[0].evs), eventsStr(recs[1].evs))
		want := "B1(3)[1] B2(2)[2,1] A2(2) A1(3)"
		in := caseInput{Scenario: "shared-cache", Engine: eng, Listener: "one factory per runtime",
			Note: "two runtimes, one wazero.NewCompilationCache(), same binary compiled in each under its own listener factory, n1(3) called in each"}
		if eventsStr(recs[0].evs) == want && eventsStr(recs[1].evs) == want {
			continue
		}
		if len(recs[1].evs) == 0 && eventsStr(recs[0].evs) == want+" "+want {
			rep.Violate(hx.Violation{Kind: "impl-violation", Signature: "F12:shared-cache-second-runtime-listener-silent:" + eng,
				What:  eng + ": with a shared in-memory compilation cache the second runtime's listener factory is ignored: its calls are reported to the first runtime's listeners (cache hit reuses the compiled module's listeners)",
				Input: in, Expected: "each runtime's listener sees " + want, Actual: got})
			continue
		}
		rep.Violate(hx.Violation{Kind: "impl-violation", Signature: "C20:shared-cache-listener-events-wrong:" + eng,
			What: "listeners of runtimes sharing a compilation cache see wrong events", Input: in, Expected: "each runtime's listener sees " + want, Actual: got})
	}
}

// largeModule: scale.  A module with 300 functions compiled several times in ONE runtime (and through one
// in-memory cache) under listener sets that differ only at high function indexes: every set must see exactly the
// calls of its functions - whatever identifies a compiled module in a cache must distinguish them.
func largeModule() {
	const N = 300
	m := wb.New()
	p, r := []byte{wb.I32}, []byte{wb.I32}
	callees := []uint32{255, 256, 257, 299}
	m.AddFunc(wb.Func{Params: p, Results: r, Export: "run", Body: wb.Cat(wb.LocalGet(0), wb.Call(1))})
	body := wb.LocalGet(0)
	for _, c := range callees {
		body = wb.Cat(body, wb.Call(c))
	}
	m.AddFunc(wb.Func{Params: p, Results: r, Body: body})
	for i := 2; i < N; i++ {
		m.AddFunc(wb.Func{Params: p, Results: r, Body: wb.Cat(wb.LocalGet(0), wb.I32Const(int32(i)), wb.Op(wasm.OpcodeI32Add))})
	}
	bin := m.Bytes()
	chain := []string{"B0", "B1"}
	for _, c := range callees {
		chain = append(chain, fmt.Sprintf("B%d", c), fmt.Sprintf("A%d", c))
	}
	chain = append(chain, "A1", "A0")
	type set struct {
		name string
		in   func(i uint32) bool
	}
	sets := []set{
		{"all", func(i uint32) bool { return true }},
		{"first256", func(i uint32) bool { return i < 256 }},
		{"{0,256}", func(i uint32) bool { return i == 0 || i == 256 }},
		{"{0}", func(i uint32) bool { return i == 0 }},
		{"{1,257}", func(i uint32) bool { return i == 1 || i == 257 }},
		{"{299}", func(i uint32) bool { return i == 299 }},
		{"from256", func(i uint32) bool { return i >= 256 }},
	}
	for _, eng := range engines {
		for _, order := range [][]int{{0, 1, 2, 3, 4, 5, 6}, {6, 5, 4, 3, 2, 1, 0}, {3, 2, 0, 1, 5, 6, 4}} {
			rt := wazero.NewRuntimeWithConfig(context.Background(), rtConfig(eng, false))
			for _, k := range order {
				st := sets[k]
				var evs []string
				mk := func(def api.FunctionDefinition) experimental.FunctionListener {
					if !st.in(def.Index()) {
						return nil
					}
					return &idxListener{idx: def.Index(), evs: &evs}
				}
				ctx := experimental.WithFunctionListenerFactory(context.Background(), experimental.FunctionListenerFactoryFunc(mk))
				cm, err := rt.CompileModule(ctx, bin)
				if err != nil {
					hx.Fatal("large module: %v", err)
				}
				mod, err := rt.InstantiateModule(ctx, cm, wazero.NewModuleConfig().WithName(""))
				if err != nil {
					hx.Fatal("large module: %v", err)
				}
				res, err := mod.ExportedFunction("run").Call(ctx, 5)
				var want []string
				for _, e := range chain {
					var i uint32
					fmt.Sscanf(e[1:], "%d", &i)
					if st.in(i) {
						want = append(want, e)
					}
				}
				rep.Case(fmt.Sprintf("large-module/%s/%v/%s", eng, order, st.name))
				wantRes := uint64(5 + 255 + 256 + 257 + 299)
				if err != nil || len(res) != 1 || res[0] != wantRes || strings.Join(evs, " ") != strings.Join(want, " ") {
					rep.Violate(hx.Violation{Kind: "impl-violation", Signature: "C20:large-module-listener-set-sees-wrong-calls:" + eng,
						What: fmt.Sprintf("%s: a 300-function module compiled in one runtime under the listener sets %v (in this order): the set %s saw [%s], its functions were called as [%s]; run(5) = %v, %v",
							eng, order, st.name, strings.Join(evs, " "), strings.Join(want, " "), res, err),
						Input:    caseInput{Scenario: "large-module", Engine: eng, Listener: st.name, Note: fmt.Sprintf("compile order of the sets %v; run -> f1 -> f255, f256, f257, f299", order)},
						Expected: strings.Join(want, " "), Actual: strings.Join(evs, " ")})
				}
				mod.Close(ctx)
			}
			rt.Close(context.Background())
		}
	}
}

type idxListener struct {
	idx uint32
	evs *[]string
}

func (l *idxListener) Before(context.Context, api.Module, api.FunctionDefinition, []uint64, experimental.StackIterator) {
	*l.evs = append(*l.evs, fmt.Sprintf("B%d", l.idx))
}
func (l *idxListener) After(context.Context, api.Module, api.FunctionDefinition, []uint64) {
	*l.evs = append(*l.evs, fmt.Sprintf("A%d", l.idx))
}
func (l *idxListener) Abort(context.Context, api.Module, api.FunctionDefinition, error) {
	*l.evs = append(*l.evs, fmt.Sprintf("X%d", l.idx))
}

func cacheModule() []byte {
	m := wb.New()
	p, r := []byte{wb.I32}, []byte{wb.I32}
	m.AddFunc(wb.Func{Params: p, Results: r, Export: "n1",
		Body: wb.Cat(wb.LocalGet(0), wb.I32Const(1), wb.Op(wasm.OpcodeI32Sub), wb.Call(1), wb.Op(wasm.OpcodeDrop), wb.LocalGet(0))})
	m.AddFunc(wb.Func{Params: p, Results: r, Export: "n2", Body: wb.LocalGet(0)})
	return m.Bytes()
}

// recompile: ONE runtime, the same binary compiled twice under two listener factories (A, then B) that listen to the same
// functions, the instance created after the FIRST compilation kept in use afterwards.  Whatever the second compilation
// does (the in-memory cache hands back the first compiled module), each factory's listeners must see properly
// bracketed events: every before closed by exactly one after or abort, innermost first - also for calls that unwind
// through several listened frames - and both engines must tell each listener set the same thing.
func recompile() {
	m := wb.New()
	m.AddFunc(wb.Func{Params: []byte{wb.I32}, Export: "run", Body: wb.Cat(wb.LocalGet(0), wb.Call(1))})
	m.AddFunc(wb.Func{Params: []byte{wb.I32}, Body: wb.Cat(wb.LocalGet(0), wb.Op(wasm.OpcodeIf, 0x40), wb.Call(2), wb.Op(wasm.OpcodeEnd))})
	m.AddFunc(wb.Func{Body: wb.Op(wasm.OpcodeUnreachable)})
	bin := m.Bytes()
	bracketed := func(evs []string) string {
		var st []string
		for _, e := range evs {
			switch e[0] {
			case 'B':
				st = append(st, e[1:])
			default:
				if len(st) == 0 {
					return "event " + e + " closes a call this listener set never saw starting"
				}
				if st[len(st)-1] != e[1:] {
					return "event " + e + " closes function " + e[1:] + " while function " + st[len(st)-1] + " is the innermost open call"
				}
				st = st[:len(st)-1]
			}
		}
		if len(st) > 0 {
			return "before-events of functions " + strings.Join(st, ",") + " are never closed"
		}
		return ""
	}
	var perEngine [][2]string
	for _, eng := range engines {
		rt := wazero.NewRuntimeWithConfig(context.Background(), rtConfig(eng, false))
		var evs [2][]string
		var insts [2]api.Module
		for k := 0; k < 2; k++ {
			k := k
			ctx := experimental.WithFunctionListenerFactory(context.Background(), experimental.FunctionListenerFactoryFunc(
				func(def api.FunctionDefinition) experimental.FunctionListener {
					return &idxListener{idx: def.Index(), evs: &evs[k]}
				}))
			cm, err := rt.CompileModule(ctx, bin)
			if err != nil {
				hx.Fatal("recompile: %v", err)
			}
			if insts[k], err = rt.InstantiateModule(ctx, cm, wazero.NewModuleConfig().WithName(fmt.Sprintf("inst%d", k))); err != nil {
				hx.Fatal("recompile: %v", err)
			}
			// after EVERY compilation: the instances made so far run a returning and a trapping call
			for j := 0; j <= k; j++ {
				insts[j].ExportedFunction("run").Call(context.Background(), 0)
				insts[j].ExportedFunction("run").Call(context.Background(), 1)
			}
		}
		rt.Close(context.Background())
		rep.Case("recompile/" + eng)
		in := caseInput{Scenario: "recompile", Engine: eng, Listener: "two factories, all functions",
			Note: "one runtime; compile under factory A, instantiate inst0, run(0) and run(1) [run -> mid -> trap]; compile the same bytes under factory B, instantiate inst1; run(0), run(1) on inst0 and on inst1"}
		for k := 0; k < 2; k++ {
			if why := bracketed(evs[k]); why != "" {
				rep.Violate(hx.Violation{Kind: "impl-violation", Signature: "C20:recompiled-module-listener-events-not-bracketed:" + eng,
					What:  fmt.Sprintf("%s: listener set %s: %s", eng, []string{"A (first compilation)", "B (second compilation)"}[k], why),
					Input: in, Expected: "every before-event closed by exactly one after- or abort-event, innermost first", Actual: fmt.Sprintf("A saw [%s]; B saw [%s]", strings.Join(evs[0], " "), strings.Join(evs[1], " "))})
				break
			}
		}
		perEngine = append(perEngine, [2]string{strings.Join(evs[0], " "), strings.Join(evs[1], " ")})
	}
	if len(perEngine) == 2 && perEngine[0] != perEngine[1] {
		rep.Violate(hx.Violation{Kind: "impl-violation", Signature: "C20:recompiled-module-listener-events-differ-between-engines",
			What:  "the two listener sets of a module compiled twice in one runtime see different event sequences on the two engines",
			Input: caseInput{Scenario: "recompile", Engine: "both", Listener: "two factories, all functions"}, Expected: fmt.Sprint(perEngine[0]), Actual: fmt.Sprint(perEngine[1])})
	}
}

// multiStage: the listener-set combinator.  experimental.MultiFunctionListenerFactory(A, B) must give EACH of its
// listeners exactly what a single factory gets: the same events, values and - through a stack iterator of its own that
// every listener may walk - the same call chain at every before-event, whatever was walked at earlier events (deeper or
// shallower chains of the same function).  Every witness program and a few generated ones run plain and combined, with
// all listeners on, on both engines.
func multiStage(progs []*Program) {
	multiRecursion()
	for pi, p := range progs {
		if p.Tail {
			continue
		}
		for _, eng := range engines {
			all := allSet(p)
			multiFactory = false
			plain, err := runProgram(p, eng, all)
			if err != nil {
				hx.Fatal("multi stage: %v", err)
			}
			multiFactory = true
			multi, err := runProgram(p, eng, all)
			multiFactory = false
			if err != nil {
				hx.Fatal("multi stage: %v", err)
			}
			for ci := range plain {
				rep.Case(fmt.Sprintf("multi/%d/%s/%d", pi, eng, ci))
				if ci >= len(multi) {
					break
				}
				in := caseInput{Scenario: "multi-factory", Engine: eng, Listener: "MultiFunctionListenerFactory(all, all)", Program: p, Call: ci}
				want := eventsStr(plain[ci].Events)
				for k, got := range []string{eventsStr(multi[ci].Events), eventsStr(multi[ci].Shadow)} {
					if got != want {
						sig := "C20:multi-factory-listener-sees-other-events:" + eng
						if eng == "compiler" && sameButStacks(plain[ci].Events, [][]Event{multi[ci].Events, multi[ci].Shadow}[k]) {
							sig = "C20:multi-factory-stack-iterator-differs:" + eng
						}
						rep.Violate(hx.Violation{Kind: "impl-violation", Signature: sig,
							What:  fmt.Sprintf("%s: listener set %d of MultiFunctionListenerFactory(A, B) does not see what a single factory sees (events, values, or the call chain listed by its stack iterator)", eng, k+1),
							Input: in, Expected: want, Actual: got})
						break
					}
				}
			}
		}
	}
}

// sameButStacks: the two streams differ at most in the stack snapshots of their before-events.
func sameButStacks(a, b []Event) bool {
	if len(a) != len(b) {
		return false
	}
	for i := range a {
		x, y := a[i], b[i]
		x.Stack, y.Stack = nil, nil
		if eventsStr([]Event{x}) != eventsStr([]Event{y}) {
			return false
		}
	}
	return true
}

type chainListener struct {
	chains *[]string
}

func (l chainListener) Before(_ context.Context, _ api.Module, def api.FunctionDefinition, params []uint64, si experimental.StackIterator) {
	var c []string
	for si.Next() {
		c = append(c, fmt.Sprint(si.Function().Definition().Index()))
	}
	*l.chains = append(*l.chains, fmt.Sprintf("f%d(%d)[%s]", def.Index(), uint32(params[0]), strings.Join(c, ",")))
}
func (l chainListener) After(context.Context, api.Module, api.FunctionDefinition, []uint64) {}
func (l chainListener) Abort(context.Context, api.Module, api.FunctionDefinition, error)    {}

// multiRecursion: the same functions entered at many depths, deeper and then SHALLOWER again (run(5), run(1), run(3)):
// each listener of the combinator must be shown the chain of THIS entry.
func multiRecursion() {
	m := wb.New()
	// f0 = run(n): f1(n); f1(n): if n { f2(n-1) }; f2(n): f1(n)
	m.AddFunc(wb.Func{Params: []byte{wb.I32}, Export: "run", Body: wb.Cat(wb.LocalGet(0), wb.Call(1))})
	m.AddFunc(wb.Func{Params: []byte{wb.I32}, Body: wb.Cat(wb.LocalGet(0), wb.Op(wasm.OpcodeIf, 0x40), wb.LocalGet(0), wb.I32Const(1), wb.Op(wasm.OpcodeI32Sub), wb.Call(2), wb.Op(wasm.OpcodeEnd))})
	m.AddFunc(wb.Func{Params: []byte{wb.I32}, Body: wb.Cat(wb.LocalGet(0), wb.Call(1))})
	bin := m.Bytes()
	for _, eng := range engines {
		var got [3][]string
		for mode := 0; mode < 2; mode++ { // 0: a single factory; 1: the combinator with two
			mk := func(k int) experimental.FunctionListenerFactory {
				return experimental.FunctionListenerFactoryFunc(func(api.FunctionDefinition) experimental.FunctionListener {
					return chainListener{&got[k]}
				})
			}
			ctx := experimental.WithFunctionListenerFactory(context.Background(), mk(0))
			if mode == 1 {
				ctx = experimental.WithFunctionListenerFactory(context.Background(), experimental.MultiFunctionListenerFactory(mk(1), mk(2)))
			}
			rt := wazero.NewRuntimeWithConfig(ctx, rtConfig(eng, false))
			mod, err := rt.InstantiateWithConfig(ctx, bin, wazero.NewModuleConfig())
			if err != nil {
				hx.Fatal("multi recursion: %v", err)
			}
			for _, n := range []uint64{5, 1, 3, 0, 4} {
				mod.ExportedFunction("run").Call(ctx, n)
			}
			rt.Close(ctx)
		}
		rep.Case("multi-recursion/" + eng)
		want := strings.Join(got[0], " ")
		for k := 1; k <= 2; k++ {
			if g := strings.Join(got[k], " "); g != want {
				rep.Violate(hx.Violation{Kind: "impl-violation", Signature: "C20:multi-factory-stack-iterator-differs:" + eng,
					What:     fmt.Sprintf("%s: listener %d of MultiFunctionListenerFactory(A, B) is shown other call chains at its before-events than a single factory's listener (run(5), run(1), run(3), run(0), run(4) through f1/f2 recursion)", eng, k),
					Input:    caseInput{Scenario: "multi-recursion", Engine: eng, Listener: "MultiFunctionListenerFactory(all, all)", Note: "run(n) -> f1(n) -> f2(n-1) -> f1(n-1) ...; calls run(5), run(1), run(3), run(0), run(4); each before-event records the function indexes the stack iterator lists"},
					Expected: want, Actual: g})
				break
			}
		}
	}
}

// hostCompiledClosed: a host module is compiled and instantiated under a listener factory and its CompiledModule is then
// CLOSED while the instance lives (documented as safe); a guest calls its functions: one returns, one panics, one exits.
// Every before-event - the host function's own included - must be closed by an after- or abort-event, and both engines
// must deliver the same sequence, with the compiled module open and closed.
func hostCompiledClosed() {
	g := wb.New()
	ok := g.ImportFunc("env", "ok", []byte{wb.I32}, []byte{wb.I32})
	boom := g.ImportFunc("env", "boom", []byte{wb.I32}, []byte{wb.I32})
	g.AddFunc(wb.Func{Params: []byte{wb.I32}, Results: []byte{wb.I32}, Export: "run_ok", Body: wb.Cat(wb.LocalGet(0), wb.Call(3))})
	g.AddFunc(wb.Func{Params: []byte{wb.I32}, Results: []byte{wb.I32}, Body: wb.Cat(wb.LocalGet(0), wb.Call(ok))})
	g.AddFunc(wb.Func{Params: []byte{wb.I32}, Results: []byte{wb.I32}, Export: "run_boom", Body: wb.Cat(wb.LocalGet(0), wb.Call(5))})
	g.AddFunc(wb.Func{Params: []byte{wb.I32}, Results: []byte{wb.I32}, Body: wb.Cat(wb.LocalGet(0), wb.Call(boom))})
	bin := g.Bytes()
	var per [][2]string
	for _, eng := range engines {
		var seqs [2]string
		for ci, closeCM := range []bool{false, true} {
			var evs []string
			ctx := experimental.WithFunctionListenerFactory(context.Background(), experimental.FunctionListenerFactoryFunc(
				func(def api.FunctionDefinition) experimental.FunctionListener {
					return &nameListener{name: def.ModuleName() + "." + def.Name() + fmt.Sprint(def.Index()), evs: &evs}
				}))
			rt := wazero.NewRuntimeWithConfig(ctx, rtConfig(eng, false))
			hcm, err := rt.NewHostModuleBuilder("env").
				NewFunctionBuilder().WithFunc(func(_ context.Context, x uint32) uint32 { return x + 1 }).Export("ok").
				NewFunctionBuilder().WithFunc(func(_ context.Context, x uint32) uint32 { panic(fmt.Errorf("host error %d", x)) }).Export("boom").
				Compile(ctx)
			if err != nil {
				hx.Fatal("host-compiled-closed: %v", err)
			}
			if _, err := rt.InstantiateModule(ctx, hcm, wazero.NewModuleConfig().WithName("env")); err != nil {
				hx.Fatal("host-compiled-closed: %v", err)
			}
			mod, err := rt.InstantiateWithConfig(ctx, bin, wazero.NewModuleConfig().WithName("guest"))
			if err != nil {
				hx.Fatal("host-compiled-closed: %v", err)
			}
			if closeCM {
				hcm.Close(ctx)
			}
			mod.ExportedFunction("run_ok").Call(ctx, 1)
			mod.ExportedFunction("run_boom").Call(ctx, 2)
			mod.ExportedFunction("run_ok").Call(ctx, 3)
			rt.Close(ctx)
			seqs[ci] = strings.Join(evs, " ")
			rep.Case(fmt.Sprintf("host-compiled-closed/%s/%v", eng, closeCM))
			// bracket check by name
			var st []string
			bad := ""
			for _, e := range evs {
				switch e[0] {
				case 'B':
					st = append(st, e[1:])
				default:
					if len(st) == 0 || st[len(st)-1] != e[1:] {
						bad = "event " + e + " does not close the innermost open call"
					} else {
						st = st[:len(st)-1]
					}
				}
				if bad != "" {
					break
				}
			}
			if bad == "" && len(st) > 0 {
				bad = "before-events of " + strings.Join(st, ", ") + " are never closed"
			}
			if bad != "" {
				rep.Violate(hx.Violation{Kind: "impl-violation", Signature: "C20:host-module-events-not-bracketed:" + eng,
					What:     fmt.Sprintf("%s (host CompiledModule closed while its instance lives: %v): %s", eng, closeCM, bad),
					Input:    caseInput{Scenario: "host-compiled-closed", Engine: eng, Listener: "all", Note: "env.ok returns, env.boom panics; guest run_ok / run_boom call them through an inner function; HostModuleBuilder.Compile + InstantiateModule, CompiledModule.Close before the calls"},
					Expected: "every before-event closed by exactly one after- or abort-event", Actual: seqs[ci]})
			}
		}
		if seqs[0] != seqs[1] {
			rep.Violate(hx.Violation{Kind: "impl-violation", Signature: "C20:closing-the-host-compiled-module-changes-events:" + eng,
				What: eng + ": the listener events of calls into a host module differ depending on whether its CompiledModule was closed (its instance is alive in both runs)", Input: caseInput{Scenario: "host-compiled-closed", Engine: eng, Listener: "all"},
				Expected: seqs[0], Actual: seqs[1]})
		}
		per = append(per, seqs)
	}
	if len(per) == 2 && per[0] != per[1] {
		rep.Violate(hx.Violation{Kind: "impl-violation", Signature: "C20:host-module-events-differ-between-engines",
			What: "calls into a host module (one returning, one panicking) give different listener events on the two engines", Input: caseInput{Scenario: "host-compiled-closed", Engine: "both", Listener: "all"},
			Expected: fmt.Sprint(per[0]), Actual: fmt.Sprint(per[1])})
	}
}

type nameListener struct {
	name string
	evs  *[]string
}

func (l *nameListener) Before(context.Context, api.Module, api.FunctionDefinition, []uint64, experimental.StackIterator) {
	*l.evs = append(*l.evs, "B"+l.name)
}
func (l *nameListener) After(context.Context, api.Module, api.FunctionDefinition, []uint64) {
	*l.evs = append(*l.evs, "A"+l.name)
}
func (l *nameListener) Abort(context.Context, api.Module, api.FunctionDefinition, error) {
	*l.evs = append(*l.evs, "X"+l.name)
}
