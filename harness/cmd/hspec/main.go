// hspec (tie S for C05/C01): validates the hand-written Lean specification of the numeric
// instructions (Wz.Spec.Num: integer ops, the bit-level IEEE-754 model, lane-wise v128 definitions)
// against the OFFICIAL WebAssembly spec-test corpus that ships with the repository
// (internal/integration_test/spectest/v1|v2/testdata/*.json), independently of wazero's engines:
// every `assert_return` / `assert_trap` whose invoked export is a one-instruction wrapper named after
// the instruction is replayed against the oracle.  A disagreement is a bug in MY specification (or in the
// name mapping) and is reported as a broken correspondence, never as a violation of wazero.
package main

import (
	"encoding/json"
	"flag"
	"fmt"
	"math/big"
	"os"
	"path/filepath"
	"strings"

	"github.com/tetratelabs/wazero/verifharness/hx"
)

type value struct {
	Type     string          `json:"type"`
	LaneType string          `json:"lane_type"`
	Value    json.RawMessage `json:"value"`
}

type command struct {
	Type   string `json:"type"`
	Line   int    `json:"line"`
	Text   string `json:"text"`
	Action struct {
		Type  string  `json:"type"`
		Field string  `json:"field"`
		Args  []value `json:"args"`
	} `json:"action"`
	Expected []value `json:"expected"`
}

var laneBits = map[string]int{"i8": 8, "i16": 16, "i32": 32, "i64": 64, "f32": 32, "f64": 64}

// hexOf renders an argument as the oracle expects it (hex, v128 as one 128-bit number).
func hexOf(v value) (string, bool) {
	if v.Type != "v128" {
		var s string
		if json.Unmarshal(v.Value, &s) != nil || strings.HasPrefix(s, "nan") {
			return "", false
		}
		n, ok := new(big.Int).SetString(s, 10)
		if !ok {
			return "", false
		}
		return n.Text(16), true
	}
	var lanes []string
	if json.Unmarshal(v.Value, &lanes) != nil {
		return "", false
	}
	w := laneBits[v.LaneType]
	acc := new(big.Int)
	for i, l := range lanes {
		if strings.HasPrefix(l, "nan") {
			return "", false
		}
		n, ok := new(big.Int).SetString(l, 10)
		if !ok {
			return "", false
		}
		acc.Or(acc, n.Lsh(n, uint(w*i)))
	}
	return acc.Text(16), true
}

// expectedLanes renders the expected result as a list of lane strings (hex or "nan") with the lane width.
func expectedLanes(v value) ([]string, int, bool) {
	norm := func(s string) (string, bool) {
		if strings.HasPrefix(s, "nan") {
			return "nan", true
		}
		n, ok := new(big.Int).SetString(s, 10)
		if !ok {
			return "", false
		}
		return n.Text(16), true
	}
	if v.Type != "v128" {
		var s string
		if json.Unmarshal(v.Value, &s) != nil {
			return nil, 0, false
		}
		x, ok := norm(s)
		w := 32
		if strings.HasSuffix(v.Type, "64") {
			w = 64
		}
		return []string{x}, w, ok
	}
	var lanes []string
	if json.Unmarshal(v.Value, &lanes) != nil {
		return nil, 0, false
	}
	var out []string
	for _, l := range lanes {
		x, ok := norm(l)
		if !ok {
			return nil, 0, false
		}
		out = append(out, x)
	}
	return out, laneBits[v.LaneType], true
}

// oracleLanes splits an oracle answer into lanes of width w.
func oracleLanes(ans string, w, n int) ([]string, bool) {
	switch {
	case strings.HasPrefix(ans, "nan:"):
		return []string{"nan"}, true
	case strings.HasPrefix(ans, "l:"):
		parts := strings.SplitN(ans, ":", 3)
		var lw int
		fmt.Sscanf(parts[1], "%d", &lw)
		ls := strings.Split(parts[2], ",")
		if lw == w {
			return ls, true
		}
		// re-slice lanes of another width: only exact lanes (no nan) can be re-sliced
		acc := new(big.Int)
		for i, l := range ls {
			if l == "nan" {
				return nil, false
			}
			x, _ := new(big.Int).SetString(l, 16)
			acc.Or(acc, x.Lsh(x, uint(lw*i)))
		}
		return slice(acc, w, n), true
	case strings.HasPrefix(ans, "v:"):
		x, ok := new(big.Int).SetString(ans[2:], 16)
		if !ok {
			return nil, false
		}
		if n == 1 {
			return []string{x.Text(16)}, true
		}
		return slice(x, w, n), true
	}
	return nil, false
}

func slice(x *big.Int, w, n int) []string {
	mask := new(big.Int).Sub(new(big.Int).Lsh(big.NewInt(1), uint(w)), big.NewInt(1))
	var out []string
	for i := 0; i < n; i++ {
		l := new(big.Int).And(new(big.Int).Rsh(x, uint(w*i)), mask)
		out = append(out, l.Text(16))
	}
	return out
}

var trapText = map[string]string{"integer divide by zero": "trap:div0", "integer overflow": "trap:overflow", "invalid conversion to integer": "trap:invalid-conversion"}

func main() {
	flag.Parse()
	orc := hx.StartOracle()
	defer orc.Close()
	rep := hx.NewReport("C05", "tie S: every assert_return/assert_trap of the official spec-test corpus shipped in the repository whose export is named after a numeric instruction, replayed against the Lean specification; distinct = distinct (instruction, operands)")
	repo := os.Getenv("VERIF_REPO")
	if repo == "" {
		repo = "/repo"
	}
	prefix := map[string]string{"i32.json": "i32.", "i64.json": "i64.", "f32.json": "f32.", "f64.json": "f64.", "f32_bitwise.json": "f32.", "f64_bitwise.json": "f64.",
		"f32_cmp.json": "f32.", "f64_cmp.json": "f64.", "conversions.json": ""}
	var files []string
	for f := range prefix {
		files = append(files, filepath.Join(repo, "internal/integration_test/spectest/v1/testdata", f))
	}
	simd, _ := filepath.Glob(filepath.Join(repo, "internal/integration_test/spectest/v2/testdata/simd_*.json"))
	files = append(files, simd...)
	v2conv := filepath.Join(repo, "internal/integration_test/spectest/v2/testdata/conversions.json")
	if _, err := os.Stat(v2conv); err == nil {
		files = append(files, v2conv)
	}
	for _, path := range files {
		raw, err := os.ReadFile(path)
		if err != nil {
			hx.Fatal("%v", err)
		}
		var doc struct {
			Commands []command `json:"commands"`
		}
		if err := json.Unmarshal(raw, &doc); err != nil {
			hx.Fatal("%s: %v", path, err)
		}
		base := filepath.Base(path)
		pf := prefix[base]
		for _, c := range doc.Commands {
			if (c.Type != "assert_return" && c.Type != "assert_trap") || c.Action.Type != "invoke" {
				continue
			}
			name := c.Action.Field
			if !strings.Contains(name, ".") {
				name = pf + name
			}
			isVec := strings.HasPrefix(base, "simd_")
			var args []string
			ok := true
			for _, a := range c.Action.Args {
				h, good := hexOf(a)
				if !good {
					ok = false
				}
				args = append(args, h)
			}
			if !ok || len(args) == 0 {
				rep.Count("skipped:nan-literal-or-no-args")
				continue
			}
			q := "c05 s " + name + " " + strings.Join(args, " ")
			if isVec {
				q = "c05 v " + name + " - " + strings.Join(args, " ")
			}
			ans := orc.Ask(q)
			if ans == "unsupported" {
				rep.Count("skipped:not-a-plain-instruction-name")
				continue
			}
			rep.Case(q)
			rep.Count("validated:" + base)
			if c.Type == "assert_trap" {
				if want := trapText[c.Text]; ans != want {
					rep.Violate(hx.Violation{Kind: "correspondence", Signature: "C05:spec-disagrees-with-spectest:" + name, What: fmt.Sprintf("%s line %d: the Lean specification answers %s, the spec test expects trap %q", base, c.Line, ans, c.Text), Input: q})
				}
				continue
			}
			if len(c.Expected) != 1 {
				continue
			}
			want, w, good := expectedLanes(c.Expected[0])
			if !good {
				continue
			}
			got, good := oracleLanes(ans, w, len(want))
			match := good && len(got) == len(want)
			if match {
				for i := range want {
					if want[i] != got[i] {
						match = false
					}
				}
			}
			if !match {
				rep.Violate(hx.Violation{Kind: "correspondence", Signature: "C05:spec-disagrees-with-spectest:" + name, What: fmt.Sprintf("%s line %d: the Lean specification answers %s (lanes %v), the spec test expects %v", base, c.Line, ans, got, want), Input: q})
			}
		}
	}
	rep.Sample(map[string]any{"query": "c05 s f32.add 7f7fffff 7f7fffff", "spectest": "f32.json", "expected": "7f800000"})
	rep.Write(orc)
}
