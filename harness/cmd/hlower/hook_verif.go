//go:build verif

package main

import (
	"context"

	"github.com/tetratelabs/wazero/api"
	"github.com/tetratelabs/wazero/internal/engine/interpreter"
	"github.com/tetratelabs/wazero/internal/wasm"
)

const hookAvailable = true

type rawOp = interpreter.VerifRawOp

// realLowered compiles the (decoded and validated) module with the REAL interpreter engine, without
// ensureTermination, and returns the lowered operation list of every function through the verif hook.
func realLowered(m *wasm.Module, features api.CoreFeatures) ([][]rawOp, error) {
	eng := interpreter.NewEngine(context.Background(), features, nil)
	defer eng.Close()
	if err := eng.CompileModule(context.Background(), m, nil, false); err != nil {
		return nil, err
	}
	ops, ok := interpreter.VerifRawLoweredOps(eng, m)
	if !ok {
		return nil, nil
	}
	return ops, nil
}
