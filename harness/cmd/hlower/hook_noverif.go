//go:build !verif

package main

import (
	"github.com/tetratelabs/wazero/api"
	"github.com/tetratelabs/wazero/internal/wasm"
)

// built without the verif tag: the hook VerifRawLoweredOps is not compiled in
const hookAvailable = false

type rawOp struct {
	Kind       string
	B1, B2     byte
	B3         bool
	U1, U2, U3 uint64
	Us         []uint64
}

func realLowered(m *wasm.Module, features api.CoreFeatures) ([][]rawOp, error) { return nil, nil }
