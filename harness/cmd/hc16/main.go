// hc16: correspondence + monitor harness for C16 (WASI file operations vs a POSIX-style reference model).
//
// Tie B (correspondence with the Lean models, topic c16 of the oracle):
//   - descriptor.Table driven directly through its exported API with long random op sequences (t.*);
//   - fd_readdir sweep: directory sizes x name lengths x buffer lengths x cookie sequences through a real
//     guest instance, every call compared (errno, bufused, bytes written, untouched rest) with the model
//     of DirentCache.Read + maxDirents + writeDirents (r.*);
//   - histories of <= 60 WASI calls over a small tree on a temp dir through a real guest on both engines,
//     compared op by op with the reference file system (f.*), then the host tree with the model's tree.
//
// Tie C (the property's own predicates on the real code): Insert returns the lowest free key and lookups
// follow a shadow map; a live descriptor renumbered onto itself stays usable; a complete fd_readdir
// enumeration yields ".", "..", then every created name exactly once; file contents on the host equal what
// was written.
package main

import (
	"flag"
	"fmt"
	"math/rand"
	"os"
	"path/filepath"
	"sync"

	"github.com/tetratelabs/wazero/internal/descriptor"
	"github.com/tetratelabs/wazero/verifharness/hx"
)

var rep *hx.Report

func main() {
	flag.Parse()
	rep = hx.NewReport("C16", "cases: (a) one descriptor.Table op sequence per seed/variant (key = variant+length class); "+
		"(b) one fd_readdir call sequence per (directory size, name profile, buffer schedule, engine) (key = those four); "+
		"(c) one WASI history per (engine, index) whose ops are not all errors (key = engine+hash of the op list). "+
		"A case is non-trivial when at least one call succeeded and changed state.")
	if *hx.Work == "" {
		hx.Fatal("-work is required (scratch directory)")
	}
	root := filepath.Join(*hx.Work, "hc16-data")
	if err := os.MkdirAll(root, 0o755); err != nil {
		hx.Fatal("mkdir: %v", err)
	}
	if *hx.Replay != "" {
		replay(root, *hx.Replay)
		rep.Write(nil)
		return
	}

	orc := hx.StartOracle()
	defer orc.Close()

	tableDirect(orc)
	selfNoop := probeF17(root)
	byName = probeF24(root)

	var wg sync.WaitGroup
	wg.Add(2)
	go func() {
		defer wg.Done()
		if os.Getenv("HC16_ONLY") != "hist" { // development aid only
			readdirSweep(root)
		}
	}()
	go func() {
		defer wg.Done()
		histories(root, selfNoop)
		openGrid(root, selfNoop)
		renameGrid(root, selfNoop)
		slashGrid(root)
	}()
	wg.Wait()
	rep.Write(orc)
}

// ---------------------------------------------------------------------------------------------------
// F17 witness (finding switch): path_open -> fd 4; fd_renumber(4,4); is fd 4 still usable?

func probeF17(root string) (selfNoop bool) {
	selfNoop = true
	for _, eng := range []string{"interpreter", "compiler"} {
		dir := filepath.Join(root, "f17-"+eng)
		os.MkdirAll(dir, 0o755)
		g := newGuest(eng, dir)
		e, fd := g.pathOpen(3, "w", openArgs{Creat: true, RR: true, RW: true})
		if e != "ESUCCESS" || fd != 4 {
			rep.Violate(hx.Violation{Kind: "impl-violation", Signature: "C16:first-path_open-is-not-fd-4",
				What:  "the first path_open under the pre-open 3 must succeed and return the lowest free descriptor 4",
				Input: map[string]any{"engine": eng, "ops": []string{"path_open(3,\"w\",O_CREAT,rw)"}}, Expected: "ESUCCESS 4", Actual: fmt.Sprintf("%s %d", e, fd)})
			g.close()
			continue
		}
		g.fdWrite(fd, []byte("abc"))
		e1 := g.fdRenumber(fd, fd)
		e2, off := g.fdTell(fd)
		e3, _, sz := g.fdStat(fd)
		rep.Case("f17-probe/" + eng)
		if e1 == "ESUCCESS" && (e2 != "ESUCCESS" || e3 != "ESUCCESS" || off != 3 || sz != 3) {
			selfNoop = false
			rep.Violate(hx.Violation{Kind: "impl-violation", Signature: "F17:fd_renumber-onto-itself-closes-the-file",
				What:     "fd_renumber(fd, fd) returned success but the descriptor's file is closed afterwards (renumbering onto itself must be a no-op)",
				Input:    map[string]any{"engine": eng, "ops": []string{"path_open(3,\"w\",O_CREAT,rw) -> 4", "fd_write(4,\"abc\")", "fd_renumber(4,4)", "fd_tell(4)", "fd_filestat_get(4)"}},
				Expected: "fd_renumber=ESUCCESS, fd_tell=ESUCCESS 3, fd_filestat_get=ESUCCESS size 3",
				Actual:   fmt.Sprintf("fd_renumber=%s, fd_tell=%s %d, fd_filestat_get=%s size %d", e1, e2, off, e3, sz)})
		} else if e1 != "ESUCCESS" {
			rep.Violate(hx.Violation{Kind: "impl-violation", Signature: "C16:fd_renumber-onto-itself-fails",
				What: "fd_renumber(fd, fd) on a live non-preopen descriptor failed", Input: map[string]any{"engine": eng}, Expected: "ESUCCESS", Actual: e1})
		}
		g.close()
	}
	rep.Note("finding switch F17: model variant selfNoop=%v (decided by replaying the witness on the implementation)", selfNoop)
	return
}

// byName: finding switch F24 (true = as-is: paths relative to a directory descriptor go through the
// directory's name at open time).
var byName bool

// F24 witness: mkdir a; open a -> fd; rename a -> b; path_create_directory(fd, "x") must create b/x.
func probeF24(root string) (asIs bool) {
	for _, eng := range []string{"interpreter", "compiler"} {
		dir := filepath.Join(root, "f24-"+eng)
		os.MkdirAll(dir, 0o755)
		g := newGuest(eng, dir)
		e0 := g.path1("path_create_directory", 3, "a")
		e1, fd := g.pathOpen(3, "a", openArgs{Directory: true, RR: true})
		e2 := g.rename(3, "a", 3, "b")
		e3 := g.path1("path_create_directory", fd, "x")
		_, errStat := os.Stat(filepath.Join(dir, "b", "x"))
		rep.Case("f24-probe/" + eng)
		if e0 == "ESUCCESS" && e1 == "ESUCCESS" && e2 == "ESUCCESS" && (e3 != "ESUCCESS" || errStat != nil) {
			asIs = true
			rep.Violate(hx.Violation{Kind: "impl-violation", Signature: "F24:path-relative-to-renamed-directory-descriptor-uses-old-name",
				What:     "after a directory is renamed, a path relative to a descriptor of that directory is looked up under the directory's OLD name (the descriptor must keep denoting the directory)",
				Input:    map[string]any{"engine": eng, "ops": []string{"path_create_directory(3,\"a\")", "path_open(3,\"a\",O_DIRECTORY) -> fd", "path_rename(3,\"a\",3,\"b\")", "path_create_directory(fd,\"x\")"}},
				Expected: "ESUCCESS and b/x exists", Actual: fmt.Sprintf("%s, b/x exists: %v", e3, errStat == nil)})
		} else if !(e0 == "ESUCCESS" && e1 == "ESUCCESS" && e2 == "ESUCCESS") {
			rep.Violate(hx.Violation{Kind: "impl-violation", Signature: "C16:f24-probe-setup-fails",
				What: "mkdir / open directory / rename failed on an empty tree", Input: map[string]any{"engine": eng}, Expected: "ESUCCESS x3", Actual: e0 + " " + e1 + " " + e2})
		}
		g.close()
	}
	rep.Note("finding switch F24: model variant byName=%v (decided by replaying the witness on the implementation)", asIs)
	return
}

// ---------------------------------------------------------------------------------------------------
// descriptor.Table, driven directly

func tableDirect(orc *hx.Oracle) {
	rng := rand.New(rand.NewSource(*hx.Seed*7919 + 11))
	type variant struct {
		name    string
		n       int
		keyMax  int32
		delBias int
	}
	vs := []variant{{"dense", 6000, 200, 40}, {"sparse", 6000, 5000, 30}, {"churn", 6000, 70, 50}, {"wide", 3000, 65535, 20}}
	if hx.Thorough() {
		vs = []variant{{"dense", 40000, 200, 40}, {"sparse", 40000, 5000, 30}, {"churn", 40000, 70, 50}, {"wide", 20000, 65535, 20},
			{"dense2", 40000, 300, 45}, {"boundary", 20000, 130, 50}}
	}
	for _, v := range vs {
		var t descriptor.Table[int32, int]
		shadow := map[int32]int{}
		orc.Ask("c16 t.new")
		val := 0
		bad := false
		pickKey := func() int32 {
			switch rng.Intn(10) {
			case 0:
				return -int32(rng.Intn(5)) - 1 // negative
			case 1:
				return []int32{-2147483648, -1, 63, 64, 65, 127, 128, 129, 0}[rng.Intn(9)]
			case 2:
				return int32(rng.Intn(int(v.keyMax) + 1))
			default:
				// a key near the populated region
				return int32(rng.Intn(int(v.keyMax)/4 + 2))
			}
		}
		for i := 0; i < v.n && !bad; i++ {
			var line, got, want string
			var monitor string
			r := rng.Intn(100)
			switch {
			case r < v.delBias:
				k := pickKey()
				t.Delete(k)
				delete(shadow, k)
				line, got = fmt.Sprintf("t.delete %d", k), "ok"
				rep.Count("table:delete")
			case r < v.delBias+25:
				val++
				k, ok := t.Insert(val)
				// monitor: lowest free key
				low := int32(0)
				for {
					if _, in := shadow[low]; !in {
						break
					}
					low++
				}
				if !ok || k != low {
					monitor = fmt.Sprintf("Insert returned key %d ok=%v, lowest free key is %d", k, ok, low)
				}
				shadow[k] = val
				line, got = fmt.Sprintf("t.insert %d", val), fmt.Sprint(k)
				rep.Count("table:insert")
			case r < v.delBias+33:
				val++
				k := pickKey()
				ok := t.InsertAt(val, k)
				if ok != (k >= 0) {
					monitor = fmt.Sprintf("InsertAt(%d) ok=%v", k, ok)
				}
				if ok {
					shadow[k] = val
				}
				line, got = fmt.Sprintf("t.insertAt %d %d", val, k), b01(ok)
				rep.Count("table:insertAt")
			case r < v.delBias+34 && rng.Intn(20) == 0:
				t.Reset()
				shadow = map[int32]int{}
				line, got = "t.clear", "ok"
				rep.Count("table:reset")
			case r < v.delBias+37:
				line, got = "t.len", fmt.Sprint(t.Len())
				if t.Len() != len(shadow) {
					monitor = fmt.Sprintf("Len()=%d, %d keys live", t.Len(), len(shadow))
				}
				rep.Count("table:len")
			default:
				k := pickKey()
				item, found := t.Lookup(k)
				sv, in := shadow[k]
				if found != in || (found && item != sv) {
					monitor = fmt.Sprintf("Lookup(%d) = (%d,%v), shadow map has (%d,%v)", k, item, found, sv, in)
				}
				got = "-"
				if found {
					got = fmt.Sprint(item)
				}
				line = fmt.Sprintf("t.lookup %d", k)
				rep.Count("table:lookup")
			}
			want = orc.Ask("c16 " + line)
			if monitor != "" {
				rep.Violate(hx.Violation{Kind: "impl-violation", Signature: "C16:table-not-a-lowest-free-map",
					What: "descriptor.Table disagrees with a map with lowest-free allocation: " + monitor, Input: map[string]any{"variant": v.name, "seed": *hx.Seed, "op_index": i, "op": line}})
				bad = true
			}
			if got != want {
				rep.Violate(hx.Violation{Kind: "correspondence", Signature: "C16:table-model-differs",
					What: "descriptor.Table and the Lean model disagree", Input: map[string]any{"variant": v.name, "seed": *hx.Seed, "op_index": i, "op": line}, Expected: want, Actual: got})
				bad = true
			}
		}
		// final sweep over all keys
		for k := int32(-2); k <= v.keyMax+130 && !bad; k++ {
			item, found := t.Lookup(k)
			got := "-"
			if found {
				got = fmt.Sprint(item)
			}
			if want := orc.Askf("c16 t.lookup %d", k); want != got {
				rep.Violate(hx.Violation{Kind: "correspondence", Signature: "C16:table-model-differs",
					What: "final contents differ", Input: map[string]any{"variant": v.name, "key": k}, Expected: want, Actual: got})
				bad = true
			}
		}
		rep.Case(fmt.Sprintf("table/%s/%d", v.name, v.n))
		rep.Sample(map[string]any{"kind": "table", "variant": v.name, "ops": v.n, "live_at_end": len(shadow)})
	}
}
