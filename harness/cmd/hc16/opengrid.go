package main

// Open-flag grid: path_open with EVERY combination of {O_CREAT, O_DIRECTORY, O_EXCL, O_TRUNC, FD_APPEND, read right,
// write right} on a file with contents, on a missing name and on a directory, followed by a write, a read-back, a
// stat and a fresh read through another descriptor - each as a short fixed history against the reference model.
// What one flag does must not depend on which other flags accompany it; random histories reach few of the 128
// combinations on a file that has contents to lose.

import (
	"fmt"
	"math/rand"
	"path/filepath"
	"sync"

	"github.com/tetratelabs/wazero/verifharness/hx"
)

func openGrid(root string, selfNoop bool) {
	type job struct {
		bits   int
		target string
		eng    string
	}
	var jobs []job
	for bits := 0; bits < 128; bits++ {
		for _, t := range []string{"file", "missing", "dir"} {
			for _, e := range []string{"interpreter", "compiler"} {
				if !hx.Thorough() && t != "file" && (bits+len(e))%2 == 0 {
					continue // quick tier: the non-file targets on alternating engines
				}
				jobs = append(jobs, job{bits, t, e})
			}
		}
	}
	ch := make(chan job)
	var wg sync.WaitGroup
	for w := 0; w < 4; w++ {
		wg.Add(1)
		go func(w int) {
			defer wg.Done()
			orc := hx.StartOracle()
			defer orc.Close()
			for j := range ch {
				a := openArgs{Creat: j.bits&1 != 0, Directory: j.bits&2 != 0, Excl: j.bits&4 != 0, Trunc: j.bits&8 != 0,
					Append: j.bits&16 != 0, RR: j.bits&32 != 0, RW: j.bits&64 != 0}
				var ops []op
				switch j.target {
				case "file":
					ops = append(ops, op{Op: "open", Fd: 3, Path: "t", Open: &openArgs{Creat: true, RR: true, RW: true}},
						op{Op: "write", Fd: 4, Data: "616263646566"}, op{Op: "close", Fd: 4})
				case "dir":
					ops = append(ops, op{Op: "mkdir", Fd: 3, Path: "t"})
				}
				ops = append(ops, op{Op: "open", Fd: 3, Path: "t", Open: &a},
					op{Op: "write", Fd: 4, Data: "5859"}, op{Op: "tell", Fd: 4}, op{Op: "seek", Fd: 4, Off: 0, Whence: 0}, op{Op: "read", Fd: 4, Len: 16},
					op{Op: "fstat", Fd: 4}, op{Op: "close", Fd: 4},
					op{Op: "open", Fd: 3, Path: "t", Open: &openArgs{RR: true}}, op{Op: "read", Fd: 4, Len: 16}, op{Op: "close", Fd: 4}, op{Op: "pstat", Fd: 3, Path: "t"})
				dir := filepath.Join(root, fmt.Sprintf("og-%d-%s", w, j.eng))
				runHistory(dir, j.eng, orc, selfNoop, nil, ops, len(ops), rand.New(rand.NewSource(int64(j.bits))))
				rep.Case(fmt.Sprintf("open-grid/%s/%s/%s", j.eng, j.target, a.line()))
				rep.Count("open-grid:" + j.target)
			}
		}(w)
	}
	for _, j := range jobs {
		ch <- j
	}
	close(ch)
	wg.Wait()
}
