package main

import (
	"encoding/hex"
	"encoding/json"
	"fmt"
	"hash/fnv"
	"math/rand"
	"os"
	"path/filepath"
	"sort"
	"strings"
	"sync"

	"github.com/tetratelabs/wazero/internal/wasip1"
	"github.com/tetratelabs/wazero/verifharness/hx"
)

// ---------------------------------------------------------------------------------------------------
// WASI histories over a small tree

type op struct {
	Op     string    `json:"op"`
	Fd     int32     `json:"fd,omitempty"`
	Fd2    int32     `json:"fd2,omitempty"`
	Path   string    `json:"path,omitempty"`
	Path2  string    `json:"path2,omitempty"`
	Open   *openArgs `json:"open,omitempty"`
	Len    uint32    `json:"len,omitempty"`
	Off    int64     `json:"off,omitempty"`
	Whence uint32    `json:"whence,omitempty"`
	Data   string    `json:"data,omitempty"` // hex
}

func (o op) String() string { b, _ := json.Marshal(o); return string(b) }

func hexOrDash(b []byte) string {
	if len(b) == 0 {
		return "-"
	}
	return hex.EncodeToString(b)
}

// oracle line for an op
func (o op) line() string {
	switch o.Op {
	case "open":
		return fmt.Sprintf("f.open %d %s %s", o.Fd, o.Path, o.Open.line())
	case "close":
		return fmt.Sprintf("f.close %d", o.Fd)
	case "renumber":
		return fmt.Sprintf("f.renumber %d %d", o.Fd, o.Fd2)
	case "read":
		return fmt.Sprintf("f.read %d %d", o.Fd, o.Len)
	case "pread":
		return fmt.Sprintf("f.pread %d %d %d", o.Fd, o.Len, o.Off)
	case "write":
		return fmt.Sprintf("f.write %d %s", o.Fd, dash(o.Data))
	case "pwrite":
		return fmt.Sprintf("f.pwrite %d %s %d", o.Fd, dash(o.Data), o.Off)
	case "seek":
		return fmt.Sprintf("f.seek %d %d %d", o.Fd, o.Off, o.Whence)
	case "tell":
		return fmt.Sprintf("f.tell %d", o.Fd)
	case "fstat":
		return fmt.Sprintf("f.fstat %d", o.Fd)
	case "setsize":
		return fmt.Sprintf("f.setsize %d %d", o.Fd, o.Off)
	case "pstat":
		return fmt.Sprintf("f.pstat %d %s", o.Fd, o.Path)
	case "mkdir":
		return fmt.Sprintf("f.mkdir %d %s", o.Fd, o.Path)
	case "unlink":
		return fmt.Sprintf("f.unlink %d %s", o.Fd, o.Path)
	case "rmdir":
		return fmt.Sprintf("f.rmdir %d %s", o.Fd, o.Path)
	case "rename":
		return fmt.Sprintf("f.rename %d %s %d %s", o.Fd, o.Path, o.Fd2, o.Path2)
	case "ls":
		return fmt.Sprintf("f.ls %d", o.Fd)
	case "settimes":
		return fmt.Sprintf("f.settimes %d %d", o.Fd, o.Off)
	case "mtime":
		return fmt.Sprintf("f.mtime %d", o.Fd)
	case "psettimes":
		return fmt.Sprintf("f.psettimes %d %s %d", o.Fd, o.Path, o.Off)
	case "pmtime":
		return fmt.Sprintf("f.pmtime %d %s", o.Fd, o.Path)
	}
	hx.Fatal("unknown op %q", o.Op)
	return ""
}

func dash(s string) string {
	if s == "" {
		return "-"
	}
	return s
}

// exec runs the op on the guest and renders the answer in the oracle's canonical form.
func (o op) exec(g *guest, rng *rand.Rand) string {
	switch o.Op {
	case "open":
		e, fd := g.pathOpen(o.Fd, o.Path, *o.Open)
		if e == "ESUCCESS" {
			return fmt.Sprintf("ESUCCESS %d", fd)
		}
		return e
	case "close":
		return g.fdClose(o.Fd)
	case "renumber":
		return g.fdRenumber(o.Fd, o.Fd2)
	case "read":
		e, b := g.fdRead(o.Fd, o.Len)
		if e == "ESUCCESS" {
			return "ESUCCESS " + hexOrDash(b)
		}
		return e
	case "pread":
		e, b := g.fdPread(o.Fd, o.Len, uint64(o.Off))
		if e == "ESUCCESS" {
			return "ESUCCESS " + hexOrDash(b)
		}
		return e
	case "write":
		d, _ := hex.DecodeString(o.Data)
		e, n := g.fdWrite(o.Fd, d)
		if e == "ESUCCESS" {
			return fmt.Sprintf("ESUCCESS %d", n)
		}
		return e
	case "pwrite":
		d, _ := hex.DecodeString(o.Data)
		e, n := g.fdPwrite(o.Fd, d, uint64(o.Off))
		if e == "ESUCCESS" {
			return fmt.Sprintf("ESUCCESS %d", n)
		}
		return e
	case "seek":
		e, n := g.fdSeek(o.Fd, o.Off, o.Whence)
		if e == "ESUCCESS" {
			return fmt.Sprintf("ESUCCESS %d", n)
		}
		return e
	case "tell":
		e, n := g.fdTell(o.Fd)
		if e == "ESUCCESS" {
			return fmt.Sprintf("ESUCCESS %d", n)
		}
		return e
	case "fstat":
		e, ft, sz := g.fdStat(o.Fd)
		return statAns(e, ft, sz)
	case "setsize":
		return g.fdSetSize(o.Fd, o.Off)
	case "pstat":
		e, ft, sz := g.pathStat(o.Fd, o.Path)
		return statAns(e, ft, sz)
	case "mkdir":
		return g.path1(wasip1.PathCreateDirectoryName, o.Fd, o.Path)
	case "unlink":
		return g.path1(wasip1.PathUnlinkFileName, o.Fd, o.Path)
	case "rmdir":
		return g.path1(wasip1.PathRemoveDirectoryName, o.Fd, o.Path)
	case "rename":
		return g.rename(o.Fd, o.Path, o.Fd2, o.Path2)
	case "ls":
		return lsGuest(g, o.Fd, rng)
	case "settimes":
		return g.fdSetTimes(o.Fd, uint64(o.Off))
	case "psettimes":
		return g.pathSetTimes(o.Fd, o.Path, uint64(o.Off))
	case "mtime":
		e, t := g.fdMtime(o.Fd)
		if e != "ESUCCESS" {
			return e
		}
		return fmt.Sprintf("ESUCCESS %d", t)
	case "pmtime":
		e, t := g.pathMtime(o.Fd, o.Path)
		if e != "ESUCCESS" {
			return e
		}
		return fmt.Sprintf("ESUCCESS %d", t)
	}
	hx.Fatal("unknown op %q", o.Op)
	return ""
}

func statAns(e string, ft uint8, sz uint64) string {
	if e != "ESUCCESS" {
		return e
	}
	if ft == wasip1.FILETYPE_DIRECTORY {
		sz = 0 // directory sizes are the host file system's business
	}
	return fmt.Sprintf("ESUCCESS %d %d", ft, sz)
}

// lsGuest: complete enumeration of a directory descriptor with the client protocol (random buffers),
// canonicalised as sorted name:kind list ("." and ".." checked and removed).
func lsGuest(g *guest, fd int32, rng *rand.Rand) string {
	cookie := uint64(0)
	var names []string
	b := uint32(24 + rng.Intn(200))
	for round := 0; ; round++ {
		if round > 400 {
			return "LS-NO-TERMINATION"
		}
		e, used, buf := g.fdReaddir(fd, b, cookie)
		if e != "ESUCCESS" {
			return e
		}
		es, trunc := parseDirents(buf, used)
		for _, d := range es {
			k := "f"
			if d.Type == uint32(wasip1.FILETYPE_DIRECTORY) {
				k = "d"
			}
			names = append(names, d.Name+":"+k)
			cookie = d.Next
		}
		if used < b {
			break
		}
		if len(es) == 0 {
			if trunc < 0 {
				return "LS-SKIPPED"
			}
			b = uint32(24 + trunc)
		} else {
			b = uint32(24 + rng.Intn(200))
		}
	}
	if len(names) < 2 || names[0] != ".:d" || names[1] != "..:d" {
		return "LS-NO-DOTS " + strings.Join(names, ",")
	}
	return "ESUCCESS " + canonList(strings.Join(names[2:], ","))
}

func canonList(s string) string {
	if s == "" || s == "-" {
		return "-"
	}
	p := strings.Split(s, ",")
	sort.Strings(p)
	return strings.Join(p, ",")
}

func canonAns(o op, a string) string {
	if o.Op == "ls" && strings.HasPrefix(a, "ESUCCESS ") {
		return "ESUCCESS " + canonList(strings.TrimPrefix(a, "ESUCCESS "))
	}
	return a
}

// errno pairs (op, model errno, implementation errno) where Linux legitimately answers differently from
// the reference and only "both fail" is required.  Everything else is compared exactly.
func errnoClassOK(o op, want, got string) bool {
	if (o.Op == "write" || o.Op == "pwrite") && o.Data == "" && want == "EISDIR" && got == "ESUCCESS 0" {
		return true // zero-length write to a directory: the pre-open (lazyDir) refuses, an opened directory short-circuits
	}
	if strings.HasPrefix(want, "ESUCCESS") || strings.HasPrefix(got, "ESUCCESS") {
		return false
	}
	if o.Op == "rename" {
		// a rename with several defects at once (missing source, file/directory mismatch, non-empty target, target
		// inside the source, target an ancestor of the source): which one is reported is the kernel's order of checks
		set := map[string]bool{"ENOENT": true, "ENOTDIR": true, "EISDIR": true, "ENOTEMPTY": true, "EINVAL": true, "EEXIST": true}
		return set[want] && set[got]
	}
	type k struct{ op, want, got string }
	switch (k{o.Op, want, got}) {
	case k{"ls", "ENOENT", "EBADF"}, k{"ls", "ENOENT", "ENOTDIR"}: // enumerating a removed directory whose name was reused
		return true
	case k{"mkdir", "ENOTDIR", "ENOENT"}: // dirFS.Mkdir reports ENOTDIR as ENOENT
		return true
	case k{"setsize", "EINVAL", "EISDIR"}, k{"setsize", "EISDIR", "EINVAL"}: // negative size on a directory: two defects, order differs between lazyDir and osFile
		return true
	}
	return false
}

// hostTree renders the directory like the oracle's f.tree
func hostTree(dir string) string {
	var out []string
	filepath.Walk(dir, func(p string, info os.FileInfo, err error) error {
		if err != nil || p == dir {
			return nil
		}
		rel, _ := filepath.Rel(dir, p)
		if info.IsDir() {
			out = append(out, "d:"+rel)
		} else {
			b, _ := os.ReadFile(p)
			out = append(out, "f:"+rel+":"+hexOrDash(b))
		}
		return nil
	})
	sort.Strings(out)
	if len(out) == 0 {
		return "-"
	}
	return strings.Join(out, ",")
}

// (some names are string prefixes of others - "a"/"ab", "d"/"dd": a path is a sequence of names, not a string)
var names = []string{"a", "b", "c", "dd", "d", "ab"}

func randPath(rng *rand.Rand) string {
	n := 1
	switch r := rng.Intn(10); {
	case r < 6:
		n = 1
	case r < 9:
		n = 2
	default:
		n = 3
	}
	var p []string
	for i := 0; i < n; i++ {
		p = append(p, names[rng.Intn(len(names))])
	}
	return strings.Join(p, "/")
}

// generator state: descriptors we believe are open (from the model's answers)
type gen struct {
	rng      *rand.Rand
	fds      map[int32]bool // open fds other than 3
	poisoned map[int32]bool // as-is F17: renumbered onto itself; only probed and closed afterwards
	selfNoop bool
}

func (g *gen) anyFd() int32 {
	if len(g.fds) > 0 && g.rng.Intn(10) < 8 {
		var l []int32
		for fd := range g.fds {
			if !g.poisoned[fd] {
				l = append(l, fd)
			}
		}
		if len(l) > 0 {
			sort.Slice(l, func(i, j int) bool { return l[i] < l[j] })
			return l[g.rng.Intn(len(l))]
		}
	}
	for {
		fd := []int32{4, 5, 6, 7, 9, 12, 77, -1, 3}[g.rng.Intn(9)]
		if !g.poisoned[fd] {
			return fd
		}
	}
}

func (g *gen) dirFd() int32 {
	if g.rng.Intn(10) < 7 {
		return 3
	}
	return g.anyFd()
}

func (g *gen) data() string {
	n := []int{0, 1, 2, 3, 5, 8, 16, 33, 100}[g.rng.Intn(9)]
	b := make([]byte, n)
	for i := range b {
		b[i] = byte('A' + g.rng.Intn(26))
	}
	return hex.EncodeToString(b)
}

func (g *gen) next() op {
	r := g.rng
	// poisoned descriptors: probe then close
	for fd := range g.poisoned {
		if r.Intn(2) == 0 {
			return []op{{Op: "tell", Fd: fd}, {Op: "read", Fd: fd, Len: 4}, {Op: "fstat", Fd: fd}, {Op: "close", Fd: fd}}[r.Intn(4)]
		}
	}
	if r.Intn(100) < 9 {
		// explicit modification times: set through a descriptor or a path, read back through either
		t := int64(1_000_000_000)*int64(1+r.Intn(2_000_000_000)) + int64(r.Intn(1000))*1_000_000
		switch r.Intn(8) {
		case 0, 1, 2:
			fd := g.anyFd()
			if r.Intn(3) == 0 {
				fd = 3
			}
			return op{Op: "settimes", Fd: fd, Off: t}
		case 3:
			// (path_filestat_set_times is outside C16's list of calls; observed in passing: without
			// LOOKUP_SYMLINK_FOLLOW it opens the path write-only, so a directory answers EISDIR)
			return op{Op: "settimes", Fd: g.dirFd(), Off: t}
		case 4, 5, 6:
			fd := g.anyFd()
			if r.Intn(3) == 0 {
				fd = 3
			}
			return op{Op: "mtime", Fd: fd}
		default:
			return op{Op: "pmtime", Fd: g.dirFd(), Path: randPath(r)}
		}
	}
	switch x := r.Intn(100); {
	case x < 18:
		a := openArgs{RR: r.Intn(3) > 0, RW: r.Intn(2) == 0}
		switch r.Intn(8) {
		case 0, 1, 2:
			a.Creat = true
		case 3:
			a.Creat, a.Excl = true, true
		case 4:
			a.Directory = true
			a.RW = false
		case 5:
			a.Trunc = true
		}
		if r.Intn(5) == 0 {
			a.Append = true
		}
		if r.Intn(25) == 0 {
			a.Directory = true
		}
		p := randPath(r)
		if r.Intn(30) == 0 {
			p = "."
			a = openArgs{Directory: r.Intn(2) == 0, RR: true}
		}
		return op{Op: "open", Fd: g.dirFd(), Path: p, Open: &a}
	case x < 24:
		fd := g.anyFd()
		if fd == 3 {
			fd = 8
		}
		return op{Op: "close", Fd: fd}
	case x < 30:
		a, b := g.anyFd(), g.anyFd()
		switch r.Intn(6) {
		case 0:
			b = a
		case 1:
			b = []int32{4, 5, 6, 7, 8, 10, 70, 200}[r.Intn(8)]
		case 2:
			b = []int32{-1, 3, 0}[r.Intn(3)]
		}
		if g.poisoned[b] {
			b = 11
		}
		return op{Op: "renumber", Fd: a, Fd2: b}
	case x < 40:
		return op{Op: "write", Fd: g.anyFd(), Data: g.data()}
	case x < 50:
		return op{Op: "read", Fd: g.anyFd(), Len: []uint32{0, 1, 2, 4, 7, 16, 64, 300}[r.Intn(8)]}
	case x < 55:
		return op{Op: "pread", Fd: g.anyFd(), Len: []uint32{0, 1, 3, 8, 64}[r.Intn(5)], Off: int64([]int{0, 1, 2, 5, 17, 99, 1000}[r.Intn(7)])}
	case x < 60:
		return op{Op: "pwrite", Fd: g.anyFd(), Data: g.data(), Off: int64([]int{0, 1, 2, 5, 17, 99, 300}[r.Intn(7)])}
	case x < 67:
		return op{Op: "seek", Fd: g.anyFd(), Off: int64([]int{0, 0, 1, 3, 10, 150, -1, -2, -7, -1000}[r.Intn(10)]), Whence: []uint32{0, 1, 2, 0, 1, 2, 3}[r.Intn(7)]}
	case x < 70:
		return op{Op: "tell", Fd: g.anyFd()}
	case x < 74:
		return op{Op: "fstat", Fd: g.anyFd()}
	case x < 78:
		return op{Op: "setsize", Fd: g.anyFd(), Off: int64([]int{0, 1, 2, 5, 40, 200, -1}[r.Intn(7)])}
	case x < 82:
		return op{Op: "pstat", Fd: g.dirFd(), Path: randPath(r)}
	case x < 88:
		return op{Op: "mkdir", Fd: g.dirFd(), Path: randPath(r)}
	case x < 91:
		return op{Op: "unlink", Fd: g.dirFd(), Path: randPath(r)}
	case x < 94:
		return op{Op: "rmdir", Fd: g.dirFd(), Path: randPath(r)}
	case x < 98:
		p1, p2 := randPath(r), randPath(r)
		if p1 == p2 {
			p2 += "x"
		}
		if r.Intn(4) == 0 {
			// the new name EXTENDS the old one as a string (e -> e2, s -> sx/y): not a move below itself
			p2 = p1 + []string{"2", "x", "b"}[r.Intn(3)]
			if r.Intn(3) == 0 {
				p2 = names[r.Intn(len(names))] + "/" + p2
			}
		}
		return op{Op: "rename", Fd: g.dirFd(), Path: p1, Fd2: g.dirFd(), Path2: p2}
	default:
		fd := g.anyFd()
		if r.Intn(2) == 0 {
			fd = 3
		}
		return op{Op: "ls", Fd: fd}
	}
}

// observe updates the generator's view after the model answered
func (g *gen) observe(o op, ans string) {
	ok := strings.HasPrefix(ans, "ESUCCESS")
	switch o.Op {
	case "open":
		if ok {
			var fd int32
			fmt.Sscanf(ans, "ESUCCESS %d", &fd)
			g.fds[fd] = true
		}
	case "close":
		if ok {
			delete(g.fds, o.Fd)
		}
	case "renumber":
		if ok {
			if o.Fd != o.Fd2 {
				delete(g.fds, o.Fd)
				g.fds[o.Fd2] = true
			}
		}
	}
}

type histResult struct {
	Engine string `json:"engine"`
	Ops    []op   `json:"ops"`
}

// runHistory executes ops (generated on the fly when gen != nil) on a fresh guest + fresh model.
func runHistory(dir, engine string, orc *hx.Oracle, selfNoop bool, gn *gen, fixed []op, maxOps int, rng *rand.Rand) (done []op, nontrivial bool) {
	os.RemoveAll(dir)
	if err := os.MkdirAll(dir, 0o755); err != nil {
		hx.Fatal("mkdir: %v", err)
	}
	g := newGuest(engine, dir)
	defer g.close()
	orc.Askf("c16 f.init %s %s", b01(selfNoop), b01(byName))
	// as-is F24: directory descriptors whose directory (or an ancestor) was renamed after they were opened.
	// Path lookups through them are modelled (switch byName); their fd_readdir is not (the real code re-opens the
	// directory by its old path on the first read only), so `ls` on them is not compared.
	fdPath := map[int32]string{3: ""}
	stale := map[int32]bool{}
	join := func(dirfd int32, p string) (string, bool) {
		base, ok := fdPath[dirfd]
		if !ok {
			return "", false
		}
		if p == "." {
			return base, true
		}
		if base == "" {
			return p, true
		}
		return base + "/" + p, true
	}
	poisoned := map[int32]bool{}
	if gn != nil {
		gn.poisoned = poisoned
	}
	for i := 0; i < maxOps; i++ {
		var o op
		if gn != nil {
			o = gn.next()
		} else if i < len(fixed) {
			o = fixed[i]
		} else {
			break
		}
		done = append(done, o)
		want := canonAns(o, orc.Ask("c16 "+o.line()))
		got := o.exec(g, rng)
		if (o.Op == "mtime" || o.Op == "pmtime") && want == "ESUCCESS ?" && strings.HasPrefix(got, "ESUCCESS ") {
			got = want // the reference does not know this time stamp (the host set it): only success is compared
		}
		if byName && o.Op == "ls" && stale[o.Fd] {
			rep.Count("hist-skip:ls-on-renamed-directory-descriptor(F24)")
			continue
		}
		if strings.HasPrefix(want, "ESUCCESS") {
			switch o.Op {
			case "open":
				var nfd int32
				fmt.Sscanf(want, "ESUCCESS %d", &nfd)
				delete(stale, nfd)
				if p, ok := join(o.Fd, o.Path); ok {
					fdPath[nfd] = p
					if stale[o.Fd] {
						stale[nfd] = true
					}
				} else {
					delete(fdPath, nfd)
				}
			case "close":
				delete(fdPath, o.Fd)
				delete(stale, o.Fd)
			case "renumber":
				if o.Fd != o.Fd2 {
					if p, ok := fdPath[o.Fd]; ok {
						fdPath[o.Fd2] = p
					} else {
						delete(fdPath, o.Fd2)
					}
					stale[o.Fd2] = stale[o.Fd]
					delete(fdPath, o.Fd)
					delete(stale, o.Fd)
				}
			case "rename":
				if from, ok := join(o.Fd, o.Path); ok {
					for fd, p := range fdPath {
						if fd != 3 && (p == from || strings.HasPrefix(p, from+"/")) {
							stale[fd] = true
						}
					}
				}
			}
		}
		rep.Count("hist:" + o.Op)
		if os.Getenv("HC16_TRACE") != "" {
			fmt.Fprintf(os.Stderr, "%3d %-90s model=%s impl=%s\n", i, o.line(), clip(want), clip(got))
		}
		if strings.HasPrefix(want, "ESUCCESS") {
			rep.Count("hist-ok:" + o.Op)
			if o.Op != "tell" && o.Op != "fstat" && o.Op != "pstat" {
				nontrivial = true
			}
		} else {
			rep.Count("hist-errno:" + want)
		}
		if gn != nil {
			gn.observe(o, want)
		}
		wasPoisoned := poisoned[o.Fd]
		if strings.HasPrefix(want, "ESUCCESS") {
			switch {
			case o.Op == "renumber" && o.Fd == o.Fd2 && !selfNoop:
				poisoned[o.Fd] = true
			case o.Op == "close":
				delete(poisoned, o.Fd)
			case o.Op == "renumber" && o.Fd != o.Fd2:
				if poisoned[o.Fd] {
					delete(poisoned, o.Fd)
					poisoned[o.Fd2] = true
				} else {
					delete(poisoned, o.Fd2)
				}
			}
		}
		if got != want {
			if wasPoisoned && want == "EBADF" && !strings.HasPrefix(got, "ESUCCESS") {
				// as-is F17 state: the descriptor is in the table but its file is closed; which error a call
				// reports first (EBADF from the closed file or one from cached facts) is not the model's business
				rep.Count("hist-errno-class:poisoned-fd:" + o.Op + ":" + got)
				continue
			}
			if errnoClassOK(o, want, got) {
				rep.Count("hist-errno-class:" + o.Op + ":" + want + "~" + got)
				continue
			}
			reportHistory(engine, done, want, got, selfNoop)
			return
		}
	}
	// final state: host tree vs model tree
	want := canonList(orc.Ask("c16 f.tree"))
	got := hostTree(dir)
	if want != got {
		rep.Violate(hx.Violation{Kind: "impl-violation", Signature: "C16:host-tree-differs-from-reference",
			What:  "after the history the host directory tree (names, kinds, file contents) differs from the reference model's tree",
			Input: histResult{engine, done}, Expected: clip(want), Actual: clip(got)})
	}
	return
}

func reportHistory(engine string, done []op, want, got string, selfNoop bool) {
	last := done[len(done)-1]
	sig := "C16:history-" + last.Op + "-differs"
	kind := "impl-violation"
	what := fmt.Sprintf("WASI call %d of the history answered differently from the reference model (op %s)", len(done), last.String())
	// the stale-path family: a directory descriptor used after its directory was renamed
	rep.Violate(hx.Violation{Kind: kind, Signature: sig, What: what, Input: histResult{engine, done}, Expected: clip(want), Actual: clip(got)})
}

func histories(root string, selfNoop bool) {
	n := 160
	if hx.Thorough() {
		n = 2500
	}
	workers := 6
	var wg sync.WaitGroup
	idx := make(chan int)
	var sampled sync.Once
	for w := 0; w < workers; w++ {
		wg.Add(1)
		go func(w int) {
			defer wg.Done()
			orc := hx.StartOracle()
			defer orc.Close()
			for i := range idx {
				for _, eng := range []string{"interpreter", "compiler"} {
					// the same op stream on both engines (same seed)
					rng := rand.New(rand.NewSource(*hx.Seed*999983 + int64(i)))
					gn := &gen{rng: rng, fds: map[int32]bool{}, poisoned: map[int32]bool{}, selfNoop: selfNoop}
					dir := filepath.Join(root, fmt.Sprintf("h-%d-%s", w, eng))
					ops, nontrivial := runHistory(dir, eng, orc, selfNoop, gn, nil, 20+rng.Intn(41), rand.New(rand.NewSource(int64(i))))
					key := ""
					if nontrivial {
						h := fnv.New64a()
						for _, o := range ops {
							h.Write([]byte(o.String()))
						}
						key = fmt.Sprintf("hist/%s/%x", eng, h.Sum64())
					}
					rep.Case(key)
					if i == 3 && eng == "compiler" {
						sampled.Do(func() {
							k := ops
							if len(k) > 12 {
								k = k[:12]
							}
							rep.Sample(map[string]any{"kind": "history", "engine": eng, "first_ops": k, "length": len(ops)})
						})
					}
					os.RemoveAll(dir)
				}
			}
		}(w)
	}
	for i := 0; i < n; i++ {
		idx <- i
	}
	close(idx)
	wg.Wait()
}

// replay: {"input": {"engine":..., "ops":[...]}} taken from a violation's input
func replay(root, file string) {
	raw, err := os.ReadFile(file)
	if err != nil {
		hx.Fatal("replay: %v", err)
	}
	var doc struct {
		ImplViolations []struct {
			Input json.RawMessage `json:"input"`
		} `json:"impl_violations"`
		Broken []struct {
			Detail struct {
				Input json.RawMessage `json:"input"`
			} `json:"detail"`
		} `json:"broken"`
	}
	if err := json.Unmarshal(raw, &doc); err != nil {
		hx.Fatal("replay: %v", err)
	}
	var inputs []json.RawMessage
	for _, v := range doc.ImplViolations {
		inputs = append(inputs, v.Input)
	}
	for _, b := range doc.Broken {
		if len(b.Detail.Input) > 0 {
			inputs = append(inputs, b.Detail.Input)
		}
	}
	orc := hx.StartOracle()
	defer orc.Close()
	selfNoop := probeF17(root)
	byName = probeF24(root)
	for i, in := range inputs {
		var h histResult
		if json.Unmarshal(in, &h) != nil || len(h.Ops) == 0 {
			continue
		}
		dir := filepath.Join(root, fmt.Sprintf("replay-%d", i))
		runHistory(dir, h.Engine, orc, selfNoop, nil, h.Ops, len(h.Ops), rand.New(rand.NewSource(1)))
		rep.Case(fmt.Sprintf("replay/%d", i))
	}
}
