package main

// Rename grid: fixed histories around path_rename whose source and destination are related AS STRINGS but not as paths
// (e -> e2, e -> e.old, s -> sx/y into a sibling whose name extends the source's), next to the real "move below itself"
// (e -> e/sub, which must fail) and renames of files, of empty and non-empty directories, onto existing targets of both
// kinds.  Each history runs against the reference model on both engines; the final host tree is compared as well.

import (
	"fmt"
	"math/rand"
	"os"
	"path/filepath"

	"github.com/tetratelabs/wazero/verifharness/hx"
)

func renameGrid(root string, selfNoop bool) {
	orc := hx.StartOracle()
	defer orc.Close()
	mk := func(p string) op { return op{Op: "mkdir", Fd: 3, Path: p} }
	rn := func(a, b string) op { return op{Op: "rename", Fd: 3, Path: a, Fd2: 3, Path2: b} }
	st := func(p string) op { return op{Op: "pstat", Fd: 3, Path: p} }
	type hist struct {
		name string
		ops  []op
	}
	var hs []hist
	for _, src := range []string{"e", "dd", "a"} {
		for _, suf := range []string{"2", "x", "e", "dd"} {
			dst := src + suf
			hs = append(hs,
				hist{"dir " + src + " -> " + dst, []op{mk(src), rn(src, dst), st(src), st(dst)}},
				hist{"non-empty dir " + src + " -> " + dst, []op{mk(src), mk(src + "/in"), rn(src, dst), st(src), st(dst + "/in")}},
				hist{"dir " + src + " -> sibling " + dst + "/y", []op{mk(src), mk(dst), rn(src, dst+"/y"), st(src), st(dst + "/y")}},
				hist{"dir " + dst + " -> " + src + " (shorter)", []op{mk(dst), rn(dst, src), st(dst), st(src)}},
				hist{"dir " + src + " onto empty dir " + dst, []op{mk(src), mk(dst), rn(src, dst), st(src), st(dst)}},
			)
		}
		hs = append(hs,
			hist{"dir " + src + " below itself", []op{mk(src), rn(src, src+"/sub"), st(src), st(src + "/sub")}},
			hist{"dir " + src + " onto itself", []op{mk(src), rn(src, src), st(src)}},
			hist{"missing " + src + " -> " + src + "2", []op{rn(src, src+"2"), st(src + "2")}},
		)
	}
	for i, h := range hs {
		for _, eng := range []string{"interpreter", "compiler"} {
			dir := filepath.Join(root, fmt.Sprintf("rename-%d-%s", i, eng))
			runHistory(dir, eng, orc, selfNoop, nil, h.ops, len(h.ops), rand.New(rand.NewSource(int64(i))))
			rep.Case("rename-grid/" + h.name + "/" + eng)
			os.RemoveAll(dir)
		}
	}
}
