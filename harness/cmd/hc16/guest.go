package main

import (
	"context"
	"encoding/binary"
	"fmt"

	"github.com/tetratelabs/wazero"
	"github.com/tetratelabs/wazero/api"
	"github.com/tetratelabs/wazero/imports/wasi_snapshot_preview1"
	"github.com/tetratelabs/wazero/internal/wasip1"
	"github.com/tetratelabs/wazero/verifharness/hx"
	"github.com/tetratelabs/wazero/verifharness/wb"
)

// The guest: a wasm module that imports the WASI functions of the property and exports one wrapper per
// import (`local.get 0..n-1; call $import`) plus its memory.  Every WASI call of the harness therefore
// goes guest -> engine trampoline -> host function, on the engine under test.

type sig struct {
	name   string
	params []byte
}

var wasiFuncs = []sig{
	{wasip1.PathOpenName, []byte{wb.I32, wb.I32, wb.I32, wb.I32, wb.I32, wb.I64, wb.I64, wb.I32, wb.I32}},
	{wasip1.FdCloseName, []byte{wb.I32}},
	{wasip1.FdRenumberName, []byte{wb.I32, wb.I32}},
	{wasip1.FdReadName, []byte{wb.I32, wb.I32, wb.I32, wb.I32}},
	{wasip1.FdWriteName, []byte{wb.I32, wb.I32, wb.I32, wb.I32}},
	{wasip1.FdPreadName, []byte{wb.I32, wb.I32, wb.I32, wb.I64, wb.I32}},
	{wasip1.FdPwriteName, []byte{wb.I32, wb.I32, wb.I32, wb.I64, wb.I32}},
	{wasip1.FdSeekName, []byte{wb.I32, wb.I64, wb.I32, wb.I32}},
	{wasip1.FdTellName, []byte{wb.I32, wb.I32}},
	{wasip1.FdFilestatGetName, []byte{wb.I32, wb.I32}},
	{wasip1.FdFilestatSetSizeName, []byte{wb.I32, wb.I64}},
	{wasip1.FdReaddirName, []byte{wb.I32, wb.I32, wb.I32, wb.I64, wb.I32}},
	{wasip1.PathCreateDirectoryName, []byte{wb.I32, wb.I32, wb.I32}},
	{wasip1.PathRemoveDirectoryName, []byte{wb.I32, wb.I32, wb.I32}},
	{wasip1.PathUnlinkFileName, []byte{wb.I32, wb.I32, wb.I32}},
	{wasip1.PathRenameName, []byte{wb.I32, wb.I32, wb.I32, wb.I32, wb.I32, wb.I32}},
	{wasip1.PathFilestatGetName, []byte{wb.I32, wb.I32, wb.I32, wb.I32, wb.I32}},
	{wasip1.FdFilestatSetTimesName, []byte{wb.I32, wb.I64, wb.I64, wb.I32}},
	{wasip1.PathFilestatSetTimesName, []byte{wb.I32, wb.I32, wb.I32, wb.I32, wb.I64, wb.I64, wb.I32}},
}

func guestBinary() []byte {
	m := wb.New()
	for _, f := range wasiFuncs {
		m.ImportFunc(wasi_snapshot_preview1.ModuleName, f.name, f.params, []byte{wb.I32})
	}
	m.Memory(4, nil, false, "memory")
	for i, f := range wasiFuncs {
		var body []byte
		for p := range f.params {
			body = append(body, wb.LocalGet(uint32(p))...)
		}
		body = append(body, wb.Call(uint32(i))...)
		m.AddFunc(wb.Func{Params: f.params, Results: []byte{wb.I32}, Body: body, Export: f.name})
	}
	return m.Bytes()
}

// memory layout of the guest (4 pages = 256 KiB)
const (
	mRes   = 64    // 8-byte result cell
	mStat  = 128   // 64-byte filestat
	mIov   = 256   // one iovec
	mPath  = 1024  // path 1 (<= 1 KiB)
	mPath2 = 2048  // path 2
	mBuf   = 65536 // data / dirent buffer (up to 128 KiB)
	mBufSz = 131072
)

type guest struct {
	ctx    context.Context
	rt     wazero.Runtime
	mod    api.Module
	mem    api.Memory
	engine string
	fn     map[string]api.Function
}

func newGuest(engine, dir string) *guest {
	ctx := context.Background()
	var rc wazero.RuntimeConfig
	if engine == "compiler" {
		rc = wazero.NewRuntimeConfigCompiler()
	} else {
		rc = wazero.NewRuntimeConfigInterpreter()
	}
	rt := wazero.NewRuntimeWithConfig(ctx, rc)
	if _, err := wasi_snapshot_preview1.Instantiate(ctx, rt); err != nil {
		hx.Fatal("wasi instantiate: %v", err)
	}
	cfg := wazero.NewModuleConfig().WithName("").WithFSConfig(wazero.NewFSConfig().WithDirMount(dir, "/"))
	mod, err := rt.InstantiateWithConfig(ctx, guestBinary(), cfg)
	if err != nil {
		hx.Fatal("guest instantiate (%s): %v", engine, err)
	}
	g := &guest{ctx: ctx, rt: rt, mod: mod, mem: mod.Memory(), engine: engine, fn: map[string]api.Function{}}
	for _, f := range wasiFuncs {
		g.fn[f.name] = mod.ExportedFunction(f.name)
		if g.fn[f.name] == nil {
			hx.Fatal("guest export %s missing", f.name)
		}
	}
	return g
}

func (g *guest) close() { g.rt.Close(g.ctx) }

// call returns the WASI errno name.
func (g *guest) call(name string, params ...uint64) string {
	res, err := g.fn[name].Call(g.ctx, params...)
	if err != nil {
		return "CALL-ERROR:" + err.Error()
	}
	return wasip1.ErrnoName(uint32(res[0]))
}

func (g *guest) put(off uint32, b []byte) {
	if !g.mem.Write(off, b) {
		hx.Fatal("guest memory write at %d len %d", off, len(b))
	}
}

func (g *guest) get(off, n uint32) []byte {
	b, ok := g.mem.Read(off, n)
	if !ok {
		hx.Fatal("guest memory read at %d len %d", off, n)
	}
	return append([]byte(nil), b...)
}

func (g *guest) u32(off uint32) uint32 { v, _ := g.mem.ReadUint32Le(off); return v }
func (g *guest) u64(off uint32) uint64 { v, _ := g.mem.ReadUint64Le(off); return v }

// setIov describes the n bytes at ptr as one iovec (n < 2) or as three: the first half, an empty one, the rest.
// Returns the iovec count.
func (g *guest) setIov(ptr, n uint32) uint64 {
	var b [24]byte
	if n < 2 {
		binary.LittleEndian.PutUint32(b[:], ptr)
		binary.LittleEndian.PutUint32(b[4:], n)
		g.put(mIov, b[:8])
		return 1
	}
	h := n / 2
	binary.LittleEndian.PutUint32(b[:], ptr)
	binary.LittleEndian.PutUint32(b[4:], h)
	binary.LittleEndian.PutUint32(b[8:], ptr+h)
	binary.LittleEndian.PutUint32(b[12:], 0)
	binary.LittleEndian.PutUint32(b[16:], ptr+h)
	binary.LittleEndian.PutUint32(b[20:], n-h)
	g.put(mIov, b[:])
	return 3
}

type openArgs struct {
	Creat, Directory, Excl, Trunc, Append, RR, RW bool
}

func b01(b bool) string {
	if b {
		return "1"
	}
	return "0"
}

func (a openArgs) line() string {
	return fmt.Sprintf("%s %s %s %s %s %s %s", b01(a.Creat), b01(a.Directory), b01(a.Excl), b01(a.Trunc), b01(a.Append), b01(a.RR), b01(a.RW))
}

func (g *guest) pathOpen(dirfd int32, path string, a openArgs) (string, int32) {
	g.put(mPath, []byte(path))
	var of, ff uint64
	if a.Creat {
		of |= uint64(wasip1.O_CREAT)
	}
	if a.Directory {
		of |= uint64(wasip1.O_DIRECTORY)
	}
	if a.Excl {
		of |= uint64(wasip1.O_EXCL)
	}
	if a.Trunc {
		of |= uint64(wasip1.O_TRUNC)
	}
	if a.Append {
		ff |= uint64(wasip1.FD_APPEND)
	}
	var rights uint64
	if a.RR {
		rights |= uint64(wasip1.RIGHT_FD_READ)
	}
	if a.RW {
		rights |= uint64(wasip1.RIGHT_FD_WRITE)
	}
	g.put(mRes, []byte{0xee, 0xee, 0xee, 0xee})
	e := g.call(wasip1.PathOpenName, uint64(uint32(dirfd)), 0, mPath, uint64(len(path)), of, rights, 0, ff, mRes)
	return e, int32(g.u32(mRes))
}

func (g *guest) fdClose(fd int32) string { return g.call(wasip1.FdCloseName, uint64(uint32(fd))) }
func (g *guest) fdRenumber(a, b int32) string {
	return g.call(wasip1.FdRenumberName, uint64(uint32(a)), uint64(uint32(b)))
}

func (g *guest) fdRead(fd int32, n uint32) (string, []byte) {
	nio := g.setIov(mBuf, n)
	g.put(mRes, []byte{0xee, 0xee, 0xee, 0xee})
	e := g.call(wasip1.FdReadName, uint64(uint32(fd)), mIov, nio, mRes)
	if e != "ESUCCESS" {
		return e, nil
	}
	nr := g.u32(mRes)
	if nr > n {
		return fmt.Sprintf("BAD-NREAD:%d", nr), nil
	}
	return e, g.get(mBuf, nr)
}

func (g *guest) fdPread(fd int32, n uint32, off uint64) (string, []byte) {
	nio := g.setIov(mBuf, n)
	g.put(mRes, []byte{0xee, 0xee, 0xee, 0xee})
	e := g.call(wasip1.FdPreadName, uint64(uint32(fd)), mIov, nio, off, mRes)
	if e != "ESUCCESS" {
		return e, nil
	}
	nr := g.u32(mRes)
	if nr > n {
		return fmt.Sprintf("BAD-NREAD:%d", nr), nil
	}
	return e, g.get(mBuf, nr)
}

func (g *guest) fdWrite(fd int32, data []byte) (string, uint32) {
	g.put(mBuf, data)
	nio := g.setIov(mBuf, uint32(len(data)))
	g.put(mRes, []byte{0xee, 0xee, 0xee, 0xee})
	e := g.call(wasip1.FdWriteName, uint64(uint32(fd)), mIov, nio, mRes)
	return e, g.u32(mRes)
}

func (g *guest) fdPwrite(fd int32, data []byte, off uint64) (string, uint32) {
	g.put(mBuf, data)
	nio := g.setIov(mBuf, uint32(len(data)))
	g.put(mRes, []byte{0xee, 0xee, 0xee, 0xee})
	e := g.call(wasip1.FdPwriteName, uint64(uint32(fd)), mIov, nio, off, mRes)
	return e, g.u32(mRes)
}

func (g *guest) fdSeek(fd int32, off int64, whence uint32) (string, uint64) {
	e := g.call(wasip1.FdSeekName, uint64(uint32(fd)), uint64(off), uint64(whence), mRes)
	return e, g.u64(mRes)
}

func (g *guest) fdTell(fd int32) (string, uint64) {
	e := g.call(wasip1.FdTellName, uint64(uint32(fd)), mRes)
	return e, g.u64(mRes)
}

// filestat: filetype and size
func (g *guest) fdStat(fd int32) (string, uint8, uint64) {
	e := g.call(wasip1.FdFilestatGetName, uint64(uint32(fd)), mStat)
	st := g.get(mStat, 64)
	return e, st[16], binary.LittleEndian.Uint64(st[32:])
}

const fstMtim = 4 // fstflags: set mtim to the given value

// fdSetTimes: fd_filestat_set_times(fd, atim ignored, mtim, MTIM)
func (g *guest) fdSetTimes(fd int32, mtim uint64) string {
	return g.call(wasip1.FdFilestatSetTimesName, uint64(uint32(fd)), 0, mtim, fstMtim)
}

func (g *guest) pathSetTimes(dirfd int32, path string, mtim uint64) string {
	g.put(mPath, []byte(path))
	return g.call(wasip1.PathFilestatSetTimesName, uint64(uint32(dirfd)), 0, mPath, uint64(len(path)), 0, mtim, fstMtim)
}

// fdMtime / pathMtime: the mtim field of the filestat
func (g *guest) fdMtime(fd int32) (string, uint64) {
	e := g.call(wasip1.FdFilestatGetName, uint64(uint32(fd)), mStat)
	return e, binary.LittleEndian.Uint64(g.get(mStat, 64)[48:])
}

func (g *guest) pathMtime(dirfd int32, path string) (string, uint64) {
	g.put(mPath, []byte(path))
	e := g.call(wasip1.PathFilestatGetName, uint64(uint32(dirfd)), 0, mPath, uint64(len(path)), mStat)
	return e, binary.LittleEndian.Uint64(g.get(mStat, 64)[48:])
}

func (g *guest) fdSetSize(fd int32, size int64) string {
	return g.call(wasip1.FdFilestatSetSizeName, uint64(uint32(fd)), uint64(size))
}

func (g *guest) pathStat(dirfd int32, path string) (string, uint8, uint64) {
	g.put(mPath, []byte(path))
	e := g.call(wasip1.PathFilestatGetName, uint64(uint32(dirfd)), 0, mPath, uint64(len(path)), mStat)
	st := g.get(mStat, 64)
	return e, st[16], binary.LittleEndian.Uint64(st[32:])
}

func (g *guest) path1(name string, dirfd int32, path string) string {
	g.put(mPath, []byte(path))
	return g.call(name, uint64(uint32(dirfd)), mPath, uint64(len(path)))
}

func (g *guest) rename(fd1 int32, p1 string, fd2 int32, p2 string) string {
	g.put(mPath, []byte(p1))
	g.put(mPath2, []byte(p2))
	return g.call(wasip1.PathRenameName, uint64(uint32(fd1)), mPath, uint64(len(p1)), uint64(uint32(fd2)), mPath2, uint64(len(p2)))
}

const fill = 0xA5

// fdReaddir pre-fills the buffer with a pattern; returns errno, bufused and the buffer (bufLen bytes).
func (g *guest) fdReaddir(fd int32, bufLen uint32, cookie uint64) (string, uint32, []byte) {
	n := bufLen
	if n > mBufSz {
		hx.Fatal("readdir buffer %d too large for the guest", bufLen)
	}
	pat := make([]byte, n)
	for i := range pat {
		pat[i] = fill
	}
	g.put(mBuf, pat)
	g.put(mRes, []byte{0xee, 0xee, 0xee, 0xee})
	e := g.call(wasip1.FdReaddirName, uint64(uint32(fd)), mBuf, uint64(bufLen), cookie, mRes)
	return e, g.u32(mRes), g.get(mBuf, n)
}

// dirent as a guest parses it
type dent struct {
	Next uint64
	Ino  uint64
	Name string
	Type uint32
}

// parseDirents: complete entries in buf[:used]; trunc = name length of a header-only entry at the end (or -1).
func parseDirents(buf []byte, used uint32) (es []dent, truncNamlen int) {
	truncNamlen = -1
	b := buf[:used]
	for len(b) >= 24 {
		next := binary.LittleEndian.Uint64(b)
		ino := binary.LittleEndian.Uint64(b[8:])
		nl := binary.LittleEndian.Uint32(b[16:])
		ty := binary.LittleEndian.Uint32(b[20:])
		if uint64(len(b)) < 24+uint64(nl) {
			truncNamlen = int(nl)
			return
		}
		es = append(es, dent{next, ino, string(b[24 : 24+nl]), ty})
		b = b[24+nl:]
	}
	return
}
