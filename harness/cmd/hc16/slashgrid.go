package main

// Trailing-slash grid.  A path that ends in "/" names a DIRECTORY: resolved against a regular file it fails (ENOTDIR),
// for every path-taking call, and changes nothing.  The calls that would remove, replace, truncate or re-stamp the
// file are the ones where a normalisation that drops the slash does damage: path_unlink_file, path_remove_directory,
// path_rename (as source and as destination), path_open with O_TRUNC / O_CREAT / write rights, path_filestat_set_times,
// path_create_directory.  For each, on "f/", "sub/f/" and "./f/" (f and sub/f are regular files): the call must answer an
// errno other than success and the host tree (names, kinds, contents) must be what it was.  The plain forms ("f") are
// the controls: they succeed.

import (
	"fmt"
	"os"
	"path/filepath"

	"github.com/tetratelabs/wazero/internal/wasip1"
	"github.com/tetratelabs/wazero/verifharness/hx"
)

func slashGrid(root string) {
	type opT struct {
		name string
		run  func(g *guest, p string) string
		// okOnPlain: the same call on the path WITHOUT the slash succeeds (control)
		okOnPlain bool
	}
	ops := []opT{
		{"path_unlink_file", func(g *guest, p string) string { return g.path1(wasip1.PathUnlinkFileName, 3, p) }, true},
		{"path_remove_directory", func(g *guest, p string) string { return g.path1(wasip1.PathRemoveDirectoryName, 3, p) }, false},
		{"path_create_directory", func(g *guest, p string) string { return g.path1(wasip1.PathCreateDirectoryName, 3, p) }, false},
		{"path_rename(as source)", func(g *guest, p string) string { return g.rename(3, p, 3, "moved") }, true},
		{"path_rename(as destination)", func(g *guest, p string) string { return g.rename(3, "other", 3, p) }, true},
		{"path_open(O_TRUNC, write)", func(g *guest, p string) string {
			e, fd := g.pathOpen(3, p, openArgs{Trunc: true, RW: true})
			if e == "ESUCCESS" {
				g.fdClose(fd)
			}
			return e
		}, true},
		{"path_open(O_CREAT, write)", func(g *guest, p string) string {
			e, fd := g.pathOpen(3, p, openArgs{Creat: true, RW: true})
			if e == "ESUCCESS" {
				g.fdClose(fd)
			}
			return e
		}, true},
		{"path_filestat_set_times", func(g *guest, p string) string { return g.pathSetTimes(3, p, 1600000000000000000) }, true},
	}
	for _, eng := range []string{"interpreter", "compiler"} {
		for oi, o := range ops {
			for pi, form := range []string{"f/", "sub/f/", "./f/", "f"} {
				dir := filepath.Join(root, fmt.Sprintf("slash-%s-%d-%d", eng, oi, pi))
				os.RemoveAll(dir)
				os.MkdirAll(filepath.Join(dir, "sub"), 0o755)
				os.WriteFile(filepath.Join(dir, "f"), []byte("content of f"), 0o644)
				os.WriteFile(filepath.Join(dir, "sub", "f"), []byte("content of sub/f"), 0o644)
				os.WriteFile(filepath.Join(dir, "other"), []byte("other"), 0o644)
				before := hostTree(dir)
				g := newGuest(eng, dir)
				errno := o.run(g, form)
				g.close()
				after := hostTree(dir)
				os.RemoveAll(dir)
				rep.Case(fmt.Sprintf("slash-grid/%s/%s/%s", eng, o.name, form))
				input := map[string]any{"stage": "trailing-slash grid", "engine": eng, "call": o.name, "path": form, "fixture": "f, sub/f and other are regular files"}
				if form == "f" {
					if o.okOnPlain && errno != "ESUCCESS" {
						rep.Count("slash-grid:control-did-not-succeed:" + o.name)
					}
					continue
				}
				if errno == "ESUCCESS" || before != after {
					rep.Violate(hx.Violation{Kind: "impl-violation", Signature: "C16:trailing-slash-on-a-regular-file-accepted:" + o.name,
						What:  fmt.Sprintf("%s: %s(%q) where the name without the slash is a regular file answered %s; host tree changed: %v (a path ending in / names a directory: the call must fail and change nothing)", eng, o.name, form, errno, before != after),
						Input: input, Expected: "an errno (ENOTDIR), tree unchanged: " + clip(before), Actual: errno + ", tree: " + clip(after)})
				} else {
					rep.Count("slash-grid:refused:" + errno)
				}
			}
		}
	}
}
