package main

import (
	"encoding/hex"
	"fmt"
	"math/rand"
	"os"
	"path/filepath"
	"sort"
	"strings"
	"sync"
	"syscall"

	"github.com/tetratelabs/wazero/verifharness/hx"
)

// ---------------------------------------------------------------------------------------------------
// fd_readdir sweep

const nameAlphabet = "abcdefghijklmnopqrstuvwxyzABCDEFGHIJKLMNOPQRSTUVWXYZ0123456789_-"

// uniqueName: the i-th name of (at least) length L.
func uniqueName(i, L int) string {
	var digits []byte
	for v := i; ; v /= 64 {
		digits = append(digits, nameAlphabet[v%64])
		if v < 64 {
			break
		}
	}
	s := string(digits)
	if len(s) < L {
		s += "~" // terminates the digits: the name is a function of i alone, and injective for every size
	}
	for len(s) < L {
		s += string(nameAlphabet[(i+len(s))%26])
	}
	return s
}

var oddNames = []string{".a", ".b", ".x", ".1", "..z", "..a", "...", ".hidden", ".. ", ". ", "a.", "a..", " ", "  ", "-", "--", "~", "a b", "ä", "日本", "A", "a", "Ab", "aB", "\\", "*", "?", "a:b", "\"q\"", "'", "%41", "+"}

type dirSpec struct {
	Size    int    `json:"size"`
	Profile string `json:"profile"`
}

func (d dirSpec) names(rng *rand.Rand) []string {
	out := make([]string, d.Size)
	for i := range out {
		L := 1
		switch d.Profile {
		case "short":
			L = 1 + i/64
		case "len8":
			L = 8
		case "len40":
			L = 40
		case "len231":
			L = 231
		case "len255":
			L = 255
		case "mixed":
			L = []int{1, 2, 3, 7, 8, 9, 23, 24, 25, 47, 100, 200, 255}[rng.Intn(13)]
		case "odd":
			// valid names that LOOK special: leading dots (the entries "." and ".." are synthesised by the runtime, every
			// other name is the host's), trailing dots, spaces, dashes, non-ASCII, names that differ only in case
			if i < len(oddNames) {
				out[i] = oddNames[i]
				continue
			}
			L = 3
		}
		out[i] = uniqueName(i, L)
	}
	return out
}

type rdCall struct {
	BufLen uint32 `json:"buf_len"`
	Cookie uint64 `json:"cookie"`
}

// one directory on disk + its listing in OS order
type rdDir struct {
	spec    dirSpec
	rel     string
	names   map[string]bool
	listing string // oracle encoding
	order   []string
	dotIno  uint64
}

func makeDir(root string, idx int, spec dirSpec, rng *rand.Rand) *rdDir {
	rel := fmt.Sprintf("d%03d", idx)
	p := filepath.Join(root, rel)
	if err := os.MkdirAll(p, 0o755); err != nil {
		hx.Fatal("mkdir: %v", err)
	}
	d := &rdDir{spec: spec, rel: rel, names: map[string]bool{}}
	for i, n := range spec.names(rng) {
		d.names[n] = true
		if i%7 == 3 {
			if err := os.Mkdir(filepath.Join(p, n), 0o755); err != nil {
				hx.Fatal("mkdir: %v", err)
			}
		} else if err := os.WriteFile(filepath.Join(p, n), []byte("x"), 0o644); err != nil {
			hx.Fatal("create: %v", err)
		}
	}
	// OS order of the entries (what Readdir of a fresh handle yields)
	f, err := os.Open(p)
	if err != nil {
		hx.Fatal("open: %v", err)
	}
	order, err := f.Readdirnames(-1)
	f.Close()
	if err != nil {
		hx.Fatal("readdirnames: %v", err)
	}
	d.order = order
	var parts []string
	for _, n := range order {
		var st syscall.Stat_t
		if err := syscall.Lstat(filepath.Join(p, n), &st); err != nil {
			hx.Fatal("lstat: %v", err)
		}
		typ := 4
		if st.Mode&syscall.S_IFMT == syscall.S_IFDIR {
			typ = 3
		}
		parts = append(parts, fmt.Sprintf("%s:%d:%d", hex.EncodeToString([]byte(n)), st.Ino, typ))
	}
	d.listing = "-"
	if len(parts) > 0 {
		d.listing = strings.Join(parts, ",")
	}
	var st syscall.Stat_t
	if err := syscall.Stat(p, &st); err != nil {
		hx.Fatal("stat: %v", err)
	}
	d.dotIno = st.Ino
	return d
}

// session: one open directory descriptor on the real side and one cache in the oracle
type rdSession struct {
	g   *guest
	orc *hx.Oracle
	d   *rdDir
	fd  int32
	log []rdCall
	bad bool // stop using this session
	mon bool // a monitor violation was reported
	cor bool // a correspondence violation was reported
}

func openSession(g *guest, orc *hx.Oracle, d *rdDir) *rdSession {
	e, fd := g.pathOpen(3, d.rel, openArgs{Directory: true})
	orc.Askf("c16 r.new %d %s", d.dotIno, d.listing)
	s := &rdSession{g: g, orc: orc, d: d, fd: fd}
	if e != "ESUCCESS" {
		s.bad = true
		rep.Violate(hx.Violation{Kind: "impl-violation", Signature: "C16:readdir-sweep-cannot-open-directory",
			What: "path_open(3, <existing directory>, O_DIRECTORY) failed", Input: map[string]any{"engine": g.engine, "dir": d.rel}, Expected: "ESUCCESS", Actual: e})
	}
	return s
}

func (s *rdSession) close() { s.g.fdClose(s.fd) }

func (s *rdSession) input() map[string]any {
	calls := s.log
	if len(calls) > 40 {
		calls = calls[len(calls)-40:]
	}
	return map[string]any{"engine": s.g.engine, "dir_size": s.d.spec.Size, "name_profile": s.d.spec.Profile, "names_in_os_order": truncNames(s.d.order), "last_calls": calls, "seed": *hx.Seed}
}

func truncNames(ns []string) []string {
	out := make([]string, 0, len(ns))
	for _, n := range ns {
		if len(n) > 12 {
			n = fmt.Sprintf("%s…(%d)", n[:8], len(n))
		}
		out = append(out, n)
	}
	return out
}

// call performs one fd_readdir on both sides and compares; returns what the guest saw.
func (s *rdSession) call(bufLen uint32, cookie uint64) (errno string, used uint32, buf []byte) {
	s.log = append(s.log, rdCall{bufLen, cookie})
	errno, used, buf = s.g.fdReaddir(s.fd, bufLen, cookie)
	want := s.orc.Askf("c16 r.call %d %d", bufLen, cookie)
	rep.Count("readdir:call")
	var got string
	if errno == "ESUCCESS" {
		// bytes written = longest prefix before the untouched pattern; compare on the model's length
		wf := strings.Fields(want)
		wlen := 0
		if len(wf) == 3 && wf[0] == "ok" && wf[2] != "-" {
			wlen = len(wf[2]) / 2
		}
		if wlen > len(buf) {
			wlen = len(buf)
		}
		wr := "-"
		if wlen > 0 {
			wr = hex.EncodeToString(buf[:wlen])
		}
		got = fmt.Sprintf("ok %d %s", used, wr)
		// rest of the buffer must be untouched
		for i := wlen; i < len(buf); i++ {
			if buf[i] != fill {
				got += fmt.Sprintf(" +touched@%d", i)
				break
			}
		}
		rep.Count("readdir:ok")
	} else {
		num := map[string]int{"ENOENT": 44, "EINVAL": 28, "EBADF": 8}[errno]
		got = fmt.Sprintf("err %d", num)
		if num == 0 {
			got = "err " + errno
		}
		rep.Count("readdir:" + errno)
	}
	if got != want && !s.cor {
		s.cor = true
		rep.Violate(hx.Violation{Kind: "correspondence", Signature: "C16:readdir-model-differs",
			What: "fd_readdir (errno, bufused, bytes written) differs from the model of DirentCache.Read + maxDirents + writeDirents", Input: s.input(), Expected: clip(want), Actual: clip(got)})
	}
	return
}

func clip(s string) string {
	if len(s) > 700 {
		return s[:700] + fmt.Sprintf("…(%d chars)", len(s))
	}
	return s
}

// protocol runs the client protocol of the property from cookie 0 with the buffer lengths chosen by
// `next`; the monitor checks the enumeration.  grow: when only a truncated header came back the client
// retries with 24+namlen.
func (s *rdSession) protocol(next func() uint32, label string) {
	if s.bad {
		return
	}
	var seen []string
	cookie := uint64(0)
	rounds := 0
	violate := func(what string) {
		s.bad = true
		if s.mon {
			return
		}
		s.mon = true
		in := s.input()
		in["schedule"] = label
		in["entries_seen"] = truncNames(seen)
		rep.Violate(hx.Violation{Kind: "impl-violation", Signature: "C16:readdir-enumeration-" + strings.SplitN(what, ":", 2)[0],
			What: "reading a directory to its end did not yield '.', '..' and every entry exactly once: " + what, Input: in})
	}
	b := next()
	for {
		rounds++
		if rounds > 4*len(s.d.order)+50 {
			violate("no-termination: protocol did not reach the end of the directory")
			return
		}
		errno, used, buf := s.call(b, cookie)
		if errno != "ESUCCESS" {
			violate("error: fd_readdir returned " + errno + " for a cookie it handed out")
			return
		}
		if used > b {
			violate("bufused-too-large: bufused > buf_len")
			return
		}
		es, trunc := parseDirents(buf, used)
		for _, e := range es {
			seen = append(seen, e.Name)
			cookie = e.Next
		}
		if used < b { // end of directory
			break
		}
		if len(es) == 0 {
			if trunc < 0 {
				violate("skipped: full buffer without any entry and without a truncated header")
				return
			}
			b = uint32(24 + trunc) // grow
			rep.Count("readdir:grow")
			continue
		}
		b = next()
	}
	if s.cor {
		s.bad = true
	}
	// monitor: ".", "..", then every name exactly once
	if len(seen) < 2 || seen[0] != "." || seen[1] != ".." {
		violate("dots: enumeration does not start with '.' and '..'")
		return
	}
	rest := append([]string(nil), seen[2:]...)
	sort.Strings(rest)
	var want []string
	for n := range s.d.names {
		want = append(want, n)
	}
	sort.Strings(want)
	if strings.Join(rest, "/") != strings.Join(want, "/") {
		what := "missing-or-duplicate: entries differ from the directory's names"
		if len(rest) < len(want) {
			what = "missing: " + fmt.Sprint(len(want)-len(rest)) + " entries never delivered"
		} else if len(rest) > len(want) {
			what = "duplicate: " + fmt.Sprint(len(rest)-len(want)) + " entries delivered more than once"
		}
		violate(what)
	}
}

func readdirSweep(root string) {
	type job struct {
		idx  int
		spec dirSpec
	}
	var sizes []int
	profiles := []string{"short", "len8", "mixed", "len255"}
	if hx.Thorough() {
		for i := 0; i <= 70; i++ {
			sizes = append(sizes, i)
		}
		profiles = []string{"short", "len8", "len40", "len231", "len255", "mixed"}
	} else {
		sizes = []int{0, 1, 2, 3, 4, 5, 7, 10, 16, 25, 26, 27, 40, 63, 64, 65, 70}
	}
	// scale: directories larger than any per-call bound an implementation might have (entries per call, cache
	// windows), read with buffers that hold hundreds or thousands of entries
	if hx.Thorough() {
		sizes = append(sizes, 255, 256, 257, 509, 510, 511, 513, 1100, 2050)
	} else {
		sizes = append(sizes, 509, 513, 1100)
	}
	var jobs []job
	for _, sz := range sizes {
		for _, p := range profiles {
			jobs = append(jobs, job{len(jobs), dirSpec{sz, p}})
		}
	}
	for _, sz := range []int{1, 2, 5, len(oddNames) / 2, len(oddNames), len(oddNames) + 9} {
		jobs = append(jobs, job{len(jobs), dirSpec{sz, "odd"}})
	}
	base := filepath.Join(root, "rd")
	os.MkdirAll(base, 0o755)
	workers := 6
	ch := make(chan job)
	var wg sync.WaitGroup
	for w := 0; w < workers; w++ {
		wg.Add(1)
		go func(w int) {
			defer wg.Done()
			orc := hx.StartOracle()
			defer orc.Close()
			guests := map[string]*guest{}
			defer func() {
				for _, g := range guests {
					g.close()
				}
			}()
			for j := range ch {
				rng := rand.New(rand.NewSource(*hx.Seed*1000003 + int64(j.idx)))
				d := makeDir(base, j.idx, j.spec, rng)
				engines := []string{[]string{"interpreter", "compiler"}[j.idx%2]}
				if hx.Thorough() {
					engines = []string{"interpreter", "compiler"}
				}
				for _, eng := range engines {
					g := guests[eng]
					if g == nil {
						g = newGuest(eng, base)
						guests[eng] = g
					}
					sweepDir(g, orc, d, rng)
				}
				os.RemoveAll(filepath.Join(base, d.rel))
			}
		}(w)
	}
	for _, j := range jobs {
		ch <- j
	}
	close(ch)
	wg.Wait()
}

func sweepDir(g *guest, orc *hx.Oracle, d *rdDir, rng *rand.Rand) {
	key := func(s string) string {
		return fmt.Sprintf("readdir/%d/%s/%s/%s", d.spec.Size, d.spec.Profile, s, g.engine)
	}
	// (1) fixed buffer lengths: every length in the small range (stride in quick tier for big dirs) + large ones
	var bufs []uint32
	hi, stride := uint32(330), uint32(1)
	if hx.Thorough() {
		hi = 620
	}
	if d.spec.Size > 16 {
		stride = 3
		if hx.Thorough() && d.spec.Size%5 == 0 {
			stride = 1
		}
	}
	off := uint32(rng.Intn(int(stride)))
	for b := uint32(24); b <= hi; b++ {
		if b <= 60 || (b-24)%stride == off%stride {
			bufs = append(bufs, b)
		}
	}
	bufs = append(bufs, 1024, 4096, 20000, 65536, 131072)
	if d.spec.Size > 100 {
		bufs = []uint32{300, 4096, 12264, 20000, 65536, 131072}
	}
	s := openSession(g, orc, d) // one descriptor for all fixed-length runs: each run starts with a rewind
	for _, b := range bufs {
		b := b
		if s.bad {
			break
		}
		s.protocol(func() uint32 { return b }, fmt.Sprintf("fixed %d", b))
		rep.Case(key(fmt.Sprintf("fixed%d", b)))
		if s.bad {
			break
		}
	}
	s.close()
	// (2) random buffer schedules
	nr := 12
	if hx.Thorough() {
		nr = 40
	}
	if d.spec.Size > 100 {
		nr = 3
	}
	s = openSession(g, orc, d)
	for i := 0; i < nr && !s.bad; i++ {
		s.protocol(func() uint32 {
			switch rng.Intn(6) {
			case 0:
				return 24 + uint32(rng.Intn(8))
			case 1:
				return 24 + uint32(rng.Intn(300))
			case 2:
				return uint32(24 + 24*rng.Intn(12))
			case 3:
				return uint32(25 + 25*rng.Intn(12))
			case 4:
				return 279 + uint32(rng.Intn(3)) // 24+255 +-
			default:
				return 24 + uint32(rng.Intn(3000))
			}
		}, "random")
		rep.Case(key(fmt.Sprintf("random%d", i)))
	}
	s.close()
	// (3) arbitrary cookie sequences: rewinds, re-reads, stale and far cookies, short buffers
	s = openSession(g, orc, d)
	nc := 150
	if hx.Thorough() {
		nc = 500
	}
	last := uint64(0)
	var handed []uint64
	for i := 0; i < nc && !s.bad && !s.cor; i++ {
		var cookie uint64
		switch rng.Intn(10) {
		case 0:
			cookie = 0
		case 1:
			cookie = uint64(rng.Intn(d.spec.Size + 5))
		case 2:
			cookie = []uint64{1, 2, 3, uint64(d.spec.Size + 2), uint64(d.spec.Size + 3), 1 << 31, 1<<63 - 1, 1 << 63, ^uint64(0)}[rng.Intn(9)]
		case 3, 4:
			if len(handed) > 0 {
				cookie = handed[rng.Intn(len(handed))]
			}
		default:
			cookie = last
		}
		var b uint32
		switch rng.Intn(8) {
		case 0:
			b = uint32(rng.Intn(24)) // too short: EINVAL
		case 1:
			b = 24
		case 2:
			b = 24 + uint32(rng.Intn(40))
		default:
			b = 24 + uint32(rng.Intn(700))
		}
		errno, used, buf := s.call(b, cookie)
		if errno == "ESUCCESS" {
			es, _ := parseDirents(buf, used)
			for _, e := range es {
				handed = append(handed, e.Next)
				last = e.Next
			}
			if len(handed) > 64 {
				handed = handed[len(handed)-64:]
			}
		}
	}
	rep.Case(key("cookies"))
	if rng.Intn(40) == 0 {
		rep.Sample(map[string]any{"kind": "readdir", "engine": g.engine, "dir_size": d.spec.Size, "profile": d.spec.Profile, "fixed_buffer_lengths": len(bufs), "cookie_calls": nc})
	}
	s.close()
}
