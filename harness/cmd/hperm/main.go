// hperm: register-allocation / calling-convention stress matrix for C01 (tie C: differential run against a
// constructed expectation).
//
// What the random program generator of hc01 reaches only by luck is enumerated here: values that have to
// change places at a control-flow merge (parallel moves on a loop back edge: swaps, rotations, reversals),
// under register pressure, in a callee whose caller keeps many values alive across the call.  This is where
// an optimizing back end needs scratch registers, spill slots and callee-saved register bookkeeping, and
// where a mistake shows up only as a silently wrong value in an unrelated variable.
//
// For every value class T in {i64, f64, v128, mixed} and every k in 2..12 one module is built with, for each
// permutation pi in {swap first two, swap last two, rotate left, reverse, two random} and each loop shape
// {plain, call inside the loop, call + conditional second permutation, call + uses in the order pi without any assignment, top-tested loop, top-tested loop with a call} plus shifts with a new value entering (`prev = cur; cur = f(cur)`):
//
//	callee(p_0..p_{k-1}: T, n: i32) -> (T x k):   loop { [call nop]; (p_0..p_{k-1}) := (p_pi(0)..p_pi(k-1)); n--; br_if n != 0 }; return p
//	caller_m(w_0..w_{m-1}: T, n: i32) -> (T x k, T x m) for m in {0,1,4,7,8,9,10,12,16}:
//	    call callee(c_0..c_{k-1}, n); then return its results followed by w_0..w_{m-1}
//
// Expected by construction: pi applied n times to the constants, and the caller's values unchanged.  Both
// engines must return exactly that, for n in {1,2,3,4}.
package main

import (
	"context"
	"encoding/binary"
	"flag"
	"fmt"
	"math/rand"

	"github.com/tetratelabs/wazero"
	"github.com/tetratelabs/wazero/api"
	"github.com/tetratelabs/wazero/internal/wasm"
	"github.com/tetratelabs/wazero/verifharness/hx"
	"github.com/tetratelabs/wazero/verifharness/wb"
)

const V128 = wasm.ValueTypeV128

var ctx = context.Background()

type val [2]uint64 // v128 uses both words

func constOf(t byte, v val) []byte {
	switch t {
	case wb.I64:
		return wb.I64Const(int64(v[0]))
	case wb.F64:
		b := make([]byte, 9)
		b[0] = wasm.OpcodeF64Const
		binary.LittleEndian.PutUint64(b[1:], v[0])
		return b
	case wb.I32:
		return wb.I32Const(int32(uint32(v[0])))
	case wb.F32:
		b := make([]byte, 5)
		b[0] = wasm.OpcodeF32Const
		binary.LittleEndian.PutUint32(b[1:], uint32(v[0]))
		return b
	}
	b := make([]byte, 18)
	b[0], b[1] = wasm.OpcodeVecPrefix, byte(wasm.OpcodeVecV128Const)
	binary.LittleEndian.PutUint64(b[2:], v[0])
	binary.LittleEndian.PutUint64(b[10:], v[1])
	return b
}

// distinct, recognisable value number i of type t
func valueOf(t byte, i int, salt uint64) val {
	x := uint64(i+1)*0x0101010101010101 ^ salt<<32
	switch t {
	case wb.F64:
		return val{0x4000000000000000 | (x & 0x000fffffffffffff), 0} // a normal number, never NaN
	case wb.F32:
		return val{uint64(0x40000000 | uint32(x)&0x007fffff), 0}
	case wb.I32:
		return val{uint64(uint32(x)), 0}
	case V128:
		return val{x, ^x}
	}
	return val{x, 0}
}

type class struct {
	name  string
	types func(k int) []byte
}

var classes = []class{
	{"i64", func(k int) []byte { return rep(k, wb.I64) }},
	{"f64", func(k int) []byte { return rep(k, wb.F64) }},
	{"v128", func(k int) []byte { return rep(k, V128) }},
	{"mixed", func(k int) []byte {
		cyc := []byte{wb.F64, wb.I64, V128, wb.F32, wb.I32, wb.F64, wb.I64}
		out := make([]byte, k)
		for i := range out {
			out[i] = cyc[i%len(cyc)]
		}
		return out
	}},
}

func storeOf(t byte) []byte {
	switch t {
	case wb.I32:
		return wb.MemArg(wasm.OpcodeI32Store, 2, 0)
	case wb.I64:
		return wb.MemArg(wasm.OpcodeI64Store, 3, 0)
	case wb.F32:
		return wb.MemArg(wasm.OpcodeF32Store, 2, 0)
	case wb.F64:
		return wb.MemArg(wasm.OpcodeF64Store, 3, 0)
	}
	return wb.Cat([]byte{wasm.OpcodeVecPrefix, byte(wasm.OpcodeVecV128Store)}, wb.U32(4), wb.U32(0))
}

// newOp: a non-constant unary operation producing the "new" value that enters a shift
func newOp(t byte) []byte {
	switch t {
	case wb.I32:
		return wb.Cat(wb.I32Const(1), []byte{wasm.OpcodeI32Add})
	case wb.I64:
		return wb.Cat(wb.I64Const(1), []byte{wasm.OpcodeI64Add})
	case wb.F32:
		return []byte{wasm.OpcodeF32Neg}
	case wb.F64:
		return []byte{wasm.OpcodeF64Neg}
	}
	return []byte{wasm.OpcodeVecPrefix, byte(wasm.OpcodeVecV128Not)}
}

func newVal(t byte, v val) val {
	switch t {
	case wb.I32:
		return val{uint64(uint32(v[0]) + 1), 0}
	case wb.I64:
		return val{v[0] + 1, 0}
	case wb.F32:
		return val{uint64(uint32(v[0]) ^ 0x80000000), 0}
	case wb.F64:
		return val{v[0] ^ 0x8000000000000000, 0}
	}
	return val{^v[0], ^v[1]}
}

func loadOf(t byte) []byte {
	switch t {
	case wb.I32:
		return wb.MemArg(wasm.OpcodeI32Load, 2, 0)
	case wb.I64:
		return wb.MemArg(wasm.OpcodeI64Load, 3, 0)
	case wb.F32:
		return wb.MemArg(wasm.OpcodeF32Load, 2, 0)
	case wb.F64:
		return wb.MemArg(wasm.OpcodeF64Load, 3, 0)
	}
	return wb.Cat([]byte{wasm.OpcodeVecPrefix, byte(wasm.OpcodeVecV128Load)}, wb.U32(4), wb.U32(0))
}

func rep(k int, t byte) []byte {
	out := make([]byte, k)
	for i := range out {
		out[i] = t
	}
	return out
}

// perms over positions of equal type only
func perms(r *rand.Rand, ts []byte) (names []string, ps [][]int) {
	k := len(ts)
	byType := map[byte][]int{}
	for i, t := range ts {
		byType[t] = append(byType[t], i)
	}
	id := func() []int {
		p := make([]int, k)
		for i := range p {
			p[i] = i
		}
		return p
	}
	add := func(n string, p []int) { names = append(names, n); ps = append(ps, p) }
	// within each type group
	group := func(f func(g []int, p []int)) []int {
		p := id()
		for _, t := range []byte{wb.I32, wb.I64, wb.F32, wb.F64, V128} {
			if g := byType[t]; len(g) >= 2 {
				f(g, p)
			}
		}
		return p
	}
	add("swap-first-two", group(func(g, p []int) { p[g[0]], p[g[1]] = g[1], g[0] }))
	add("swap-last-two", group(func(g, p []int) { n := len(g); p[g[n-1]], p[g[n-2]] = g[n-2], g[n-1] }))
	add("rotate", group(func(g, p []int) {
		for i := range g {
			p[g[i]] = g[(i+1)%len(g)]
		}
	}))
	add("reverse", group(func(g, p []int) {
		for i := range g {
			p[g[i]] = g[len(g)-1-i]
		}
	}))
	// shifts of loop-carried variables with a NEW non-constant value entering at one end (`prev = cur; cur =
	// f(cur)`): an entry -(j+1) means "destination := new(p_j)"
	add("shift-left-new", group(func(g, p []int) {
		for i := range g {
			if i+1 < len(g) {
				p[g[i]] = g[i+1]
			} else {
				p[g[i]] = -(g[i] + 1)
			}
		}
	}))
	add("shift-right-new", group(func(g, p []int) {
		for i := range g {
			if i > 0 {
				p[g[i]] = g[i-1]
			} else {
				p[g[i]] = -(g[i] + 1)
			}
		}
	}))
	for x := 0; x < 2; x++ {
		add(fmt.Sprintf("random-%d", x), group(func(g, p []int) {
			sh := r.Perm(len(g))
			for i := range g {
				p[g[i]] = g[sh[i]]
			}
		}))
	}
	return
}

var callerMs = []int{0, 1, 4, 7, 8, 9, 10, 12, 16}

type variant struct {
	perm, shape int
	callee      string
	callers     []string
}

func buildModule(ts []byte, ps [][]int, salt uint64) ([]byte, []variant) {
	k := len(ts)
	m := wb.New()
	m.Memory(1, nil, false, "memory")
	nop := m.AddFunc(wb.Func{})
	nIdx := uint32(k)
	var vs []variant
	for pi, p := range ps {
		for shape := 0; shape < 6; shape++ {
			hasNew := false
			for _, x := range p {
				hasNew = hasNew || x < 0
			}
			if hasNew && shape == 3 {
				continue
			}
			var b []byte
			topTested := shape >= 4
			if topTested {
				// block { loop { if n == 0 leave; [call]; assign; n--; continue } }: the exit is tested BEFORE the
				// assignment, so every variable is live across the back edge
				b = append(b, wasm.OpcodeBlock, 0x40, wasm.OpcodeLoop, 0x40)
				b = append(b, wb.LocalGet(nIdx)...)
				b = append(b, wasm.OpcodeI32Eqz, wasm.OpcodeBrIf, 1)
			} else {
				b = append(b, wasm.OpcodeLoop, 0x40)
			}
			if shape >= 1 && shape != 4 {
				b = append(b, wb.Call(nop)...)
			}
			assign := func(q []int) []byte {
				var c []byte
				for i := 0; i < k; i++ {
					if q[i] < 0 {
						j := -q[i] - 1
						c = append(c, wb.LocalGet(uint32(j))...)
						c = append(c, newOp(ts[j])...)
					} else {
						c = append(c, wb.LocalGet(uint32(q[i]))...)
					}
				}
				for i := k - 1; i >= 0; i-- {
					c = append(c, wb.LocalSet(uint32(i))...)
				}
				return c
			}
			if shape == 3 {
				// no assignment at all: the values only live THROUGH the loop, but the call evicts them from their
				// registers and they are used (hence reloaded) in the order pi, so that at the back edge they sit
				// in other registers than the loop header expects: the allocator has to shuffle them back
				for i := 0; i < k; i++ {
					b = append(b, wb.I32Const(int32(1024+16*i))...)
					b = append(b, wb.LocalGet(uint32(p[i]))...)
					b = append(b, storeOf(ts[p[i]])...)
				}
			} else {
				b = append(b, assign(p)...)
			}
			if shape == 2 {
				// on even n: apply pi once more (the merge after the `if` needs its own parallel move)
				b = append(b, wb.LocalGet(nIdx)...)
				b = append(b, wb.I32Const(1)...)
				b = append(b, wasm.OpcodeI32And, wasm.OpcodeI32Eqz, wasm.OpcodeIf, 0x40)
				b = append(b, assign(p)...)
				b = append(b, wasm.OpcodeEnd)
			}
			b = append(b, wb.LocalGet(nIdx)...)
			b = append(b, wb.I32Const(1)...)
			b = append(b, wasm.OpcodeI32Sub)
			if topTested {
				b = append(b, wb.LocalSet(nIdx)...)
				b = append(b, wasm.OpcodeBr, 0, wasm.OpcodeEnd, wasm.OpcodeEnd)
			} else {
				b = append(b, wb.LocalTee(nIdx)...)
				b = append(b, wasm.OpcodeBrIf, 0)
				b = append(b, wasm.OpcodeEnd)
			}
			for i := 0; i < k; i++ {
				b = append(b, wb.LocalGet(uint32(i))...)
			}
			v := variant{perm: pi, shape: shape, callee: fmt.Sprintf("callee_%d_%d", pi, shape)}
			callee := m.AddFunc(wb.Func{Params: append(append([]byte{}, ts...), wb.I32), Results: ts, Body: b, Export: v.callee})
			for _, mm := range callerMs {
				wts := make([]byte, mm)
				for i := range wts {
					wts[i] = ts[i%k]
				}
				var cb []byte
				for i := 0; i < k; i++ {
					cb = append(cb, constOf(ts[i], valueOf(ts[i], i, salt))...)
				}
				cb = append(cb, wb.LocalGet(uint32(mm))...)
				cb = append(cb, wb.Call(callee)...)
				for i := 0; i < mm; i++ {
					cb = append(cb, wb.LocalGet(uint32(i))...)
				}
				name := fmt.Sprintf("caller_%d_%d_%d", pi, shape, mm)
				m.AddFunc(wb.Func{Params: append(append([]byte{}, wts...), wb.I32), Results: append(append([]byte{}, ts...), wts...), Body: cb, Export: name})
				v.callers = append(v.callers, name)
				// the same caller with its live values DEFINED in the function (loaded from memory slots 16*i) rather than
				// received as parameters: the register allocator is then free to keep them in callee-saved registers
				var lb []byte
				for i := 0; i < mm; i++ {
					lb = append(lb, wb.I32Const(int32(16*i))...)
					lb = append(lb, loadOf(wts[i])...)
					lb = append(lb, wb.LocalSet(uint32(1+i))...)
				}
				for i := 0; i < k; i++ {
					lb = append(lb, constOf(ts[i], valueOf(ts[i], i, salt))...)
				}
				lb = append(lb, wb.LocalGet(0)...)
				lb = append(lb, wb.Call(callee)...)
				for i := 0; i < mm; i++ {
					lb = append(lb, wb.LocalGet(uint32(1+i))...)
				}
				m.AddFunc(wb.Func{Params: []byte{wb.I32}, Locals: wts, Results: append(append([]byte{}, ts...), wts...), Body: lb, Export: "m" + name})
			}
			vs = append(vs, v)
		}
	}
	return m.Bytes(), vs
}

func flatten(ts []byte, vs []val) []uint64 {
	var out []uint64
	for i, t := range ts {
		out = append(out, vs[i][0])
		if t == V128 {
			out = append(out, vs[i][1])
		}
	}
	return out
}

// apply: what the callee returns for inputs in, permutation p, shape and n iterations
func apply(ts []byte, in []val, p []int, shape, n int) []val {
	cur := append([]val{}, in...)
	step := func() {
		next := make([]val, len(cur))
		for i := range cur {
			if p[i] < 0 {
				j := -p[i] - 1
				next[i] = newVal(ts[j], cur[j])
			} else {
				next[i] = cur[p[i]]
			}
		}
		cur = next
	}
	if shape == 3 {
		return cur
	}
	for ; n != 0; n-- {
		step()
		if shape == 2 && n&1 == 0 {
			step()
		}
	}
	return cur
}

func main() {
	flag.Parse()
	orc := hx.StartOracle()
	rp := hx.NewReport("C01", "value classes {i64,f64,v128,mixed} x k in 2..12 rotating values x 6 permutations x 3 loop shapes x caller live-value counts {0,1,4,7,8,9,10,12,16} x iteration counts; both engines against the constructed expectation; distinct = distinct (class, k, permutation, shape, m, n)")
	r := hx.Rand()
	engines := []struct {
		name string
		rt   wazero.Runtime
	}{
		{"interpreter", wazero.NewRuntimeWithConfig(ctx, wazero.NewRuntimeConfigInterpreter().WithCoreFeatures(api.CoreFeaturesV2))},
		{"compiler", wazero.NewRuntimeWithConfig(ctx, wazero.NewRuntimeConfigCompiler().WithCoreFeatures(api.CoreFeaturesV2))},
	}
	ks := []int{2, 3, 5, 8, 9, 12}
	ns := []int{1, 2, 3}
	if hx.Thorough() {
		ks = []int{2, 3, 4, 5, 6, 7, 8, 9, 10, 11, 12, 14, 16}
		ns = []int{1, 2, 3, 4, 7}
	}
	for _, cl := range classes {
		for _, k := range ks {
			ts := cl.types(k)
			pnames, ps := perms(r, ts)
			salt := uint64(r.Uint32())
			bin, vs := buildModule(ts, ps, salt)
			consts := make([]val, k)
			for i := range consts {
				consts[i] = valueOf(ts[i], i, salt)
			}
			var mods []api.Module
			for _, e := range engines {
				mod, err := e.rt.InstantiateWithConfig(ctx, bin, wazero.NewModuleConfig().WithName(""))
				if err != nil {
					rp.Violate(hx.Violation{Kind: "impl-violation", Signature: "C01:compile-fails:" + e.name, What: fmt.Sprintf("class %s k=%d: %v", cl.name, k, err), Input: cl.name})
					continue
				}
				mods = append(mods, mod)
			}
			if len(mods) != len(engines) {
				continue
			}
			for _, v := range vs {
				for _, n := range ns {
					wantCallee := apply(ts, consts, ps[v.perm], v.shape, n)
					for ci, cname := range v.callers {
						mm := callerMs[ci]
						wts := make([]byte, mm)
						ws := make([]val, mm)
						for i := range wts {
							wts[i] = ts[i%k]
							ws[i] = valueOf(wts[i], 100+i, salt^0x5a5a)
						}
						args := append(flatten(wts, ws), uint64(n))
						want := append(flatten(ts, wantCallee), flatten(wts, ws)...)
						for ei2 := 0; ei2 < 2*len(engines); ei2++ {
							ei, e, viaMem := ei2/2, engines[ei2/2], ei2%2 == 1
							var res []uint64
							var err error
							key := fmt.Sprintf("%s/k=%d/%s/shape=%d/m=%d/n=%d", cl.name, k, pnames[v.perm], v.shape, mm, n)
							if viaMem {
								key += "/values-loaded-in-caller"
								buf := make([]byte, 16*mm+16)
								for i := range ws {
									binary.LittleEndian.PutUint64(buf[16*i:], ws[i][0])
									binary.LittleEndian.PutUint64(buf[16*i+8:], ws[i][1])
								}
								mods[ei].Memory().Write(0, buf)
								res, err = mods[ei].ExportedFunction("m"+cname).Call(ctx, uint64(n))
							} else {
								res, err = mods[ei].ExportedFunction(cname).Call(ctx, args...)
							}
							rp.Case(key + "/" + e.name)
							if err != nil {
								rp.Violate(hx.Violation{Kind: "impl-violation", Signature: "C01:permutation-loop-fails:" + e.name, What: key + ": " + err.Error(), Input: key})
								continue
							}
							// 32-bit slots: compare the low half only (upper half of i32/f32 results: finding F24 of C08)
							rts := append(append([]byte{}, ts...), wts...)
							bad := -1
							j := 0
							for _, t := range rts {
								g, w := res[j], want[j]
								if t == wb.I32 || t == wb.F32 {
									g, w = uint64(uint32(g)), uint64(uint32(w))
								}
								if g != w {
									bad = j
								}
								j++
								if t == V128 {
									if res[j] != want[j] {
										bad = j
									}
									j++
								}
							}
							if bad >= 0 {
								where := "a value returned by the callee"
								if bad >= len(flatten(ts, wantCallee)) {
									where = "a value the CALLER kept alive across the call"
								}
								rp.Violate(hx.Violation{Kind: "impl-violation", Signature: "C01:permutation-loop-wrong-value:" + e.name,
									What:  fmt.Sprintf("%s on %s: result slot %d (%s) is %#x, expected %#x", key, e.name, bad, where, res[bad], want[bad]),
									Input: map[string]any{"class": cl.name, "k": k, "perm": ps[v.perm], "shape": v.shape, "m": mm, "n": n, "module_hex": fmt.Sprintf("%x", bin), "export": cname, "args": args},
									Expected: fmt.Sprintf("%x", want), Actual: fmt.Sprintf("%x", res)})
							}
						}
					}
				}
			}
			for _, mod := range mods {
				mod.Close(ctx)
			}
			rp.Count(fmt.Sprintf("module:%s:k=%d", cl.name, k))
		}
	}
	rp.Sample(map[string]any{"class": "f64", "k": 8, "perm": "swap-first-two", "shape": 1, "m": 9, "n": 2})
	rp.Write(orc)
}
