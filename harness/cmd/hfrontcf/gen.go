package main

// Generator of well-typed STRUCTURED integer functions (see main.go), the hand-written corpus, the text form (oracle
// syntax of Oracle/C01FrontCF.lean) and the binary form (a real Wasm module; block types with parameters or several
// results are type indices into the module's type section).

import (
	"fmt"
	"math/rand"
	"strconv"
	"strings"

	"github.com/tetratelabs/wazero/internal/leb128"
	"github.com/tetratelabs/wazero/internal/wasm"
)

type vt byte

const (
	tI32 vt = 0
	tI64 vt = 1
)

func (t vt) String() string {
	if t == tI64 {
		return "i64"
	}
	return "i32"
}

func (t vt) bits() uint {
	if t == tI64 {
		return 64
	}
	return 32
}

func (t vt) mask() uint64 {
	if t == tI64 {
		return ^uint64(0)
	}
	return 0xffffffff
}

func (t vt) wasm() wasm.ValueType {
	if t == tI64 {
		return wasm.ValueTypeI64
	}
	return wasm.ValueTypeI32
}

// ins is one instruction of the byte code: the token name, the immediate (bit pattern of the constant, local index,
// label), and the block type of block / loop / if.
type ins struct {
	name   string
	imm    uint64
	bp, br []vt
}

type fnDef struct {
	params, results, locals []vt
	body                    []ins // without the function's final `end`
	// generator statistics
	stats map[string]int
}

func (f *fnDef) stat(k string) {
	if f.stats == nil {
		f.stats = map[string]int{}
	}
	f.stats[k]++
}

func isBlockStart(name string) bool { return name == "block" || name == "loop" || name == "if" }

func tysText(ts []vt) string {
	if len(ts) == 0 {
		return "-"
	}
	s := make([]string, len(ts))
	for k, t := range ts {
		s[k] = t.String()
	}
	return strings.Join(s, ",")
}

func (i ins) token() string {
	switch i.name {
	case "i32.const", "i64.const":
		return i.name + ":" + strconv.FormatUint(i.imm, 16)
	case "local.get", "local.set", "local.tee", "br", "br_if":
		return i.name + ":" + strconv.FormatUint(i.imm, 10)
	case "block", "loop", "if":
		return i.name + ":" + tysText(i.bp) + ">" + tysText(i.br)
	}
	return i.name
}

// text is the function in the syntax of `c01frontcf`: <params> <results> <locals> <body tokens…>
func (f *fnDef) text() string {
	parts := []string{tysText(f.params), tysText(f.results), tysText(f.locals)}
	for _, i := range f.body {
		parts = append(parts, i.token())
	}
	return strings.Join(parts, " ")
}

func (f *fnDef) bodyText() string {
	parts := make([]string, len(f.body))
	for k, i := range f.body {
		parts[k] = i.token()
	}
	return strings.Join(parts, " ")
}

// hasBlockParams: some block type has parameters (the reference semantics Wz.Spec.Wasm has none: text tie and
// SSA-level comparisons only)
func (f *fnDef) hasBlockParams() bool {
	for _, i := range f.body {
		if isBlockStart(i.name) && len(i.bp) > 0 {
			return true
		}
	}
	return false
}

func (f *fnDef) straightLine() bool {
	for _, i := range f.body {
		switch i.name {
		case "block", "loop", "if", "else", "end", "br", "br_if", "unreachable":
			return false
		}
	}
	return true
}

// ---------------------------------------------------------------- opcode table (constants of internal/wasm)

var opcodes = map[string]wasm.Opcode{
	"i32.const": wasm.OpcodeI32Const, "i64.const": wasm.OpcodeI64Const,
	"local.get": wasm.OpcodeLocalGet, "local.set": wasm.OpcodeLocalSet, "local.tee": wasm.OpcodeLocalTee,
	"drop": wasm.OpcodeDrop, "select": wasm.OpcodeSelect, "return": wasm.OpcodeReturn,

	"unreachable": wasm.OpcodeUnreachable, "block": wasm.OpcodeBlock, "loop": wasm.OpcodeLoop, "if": wasm.OpcodeIf,
	"else": wasm.OpcodeElse, "end": wasm.OpcodeEnd, "br": wasm.OpcodeBr, "br_if": wasm.OpcodeBrIf,

	"i32.eqz": wasm.OpcodeI32Eqz, "i32.eq": wasm.OpcodeI32Eq, "i32.ne": wasm.OpcodeI32Ne,
	"i32.lt_s": wasm.OpcodeI32LtS, "i32.lt_u": wasm.OpcodeI32LtU, "i32.gt_s": wasm.OpcodeI32GtS, "i32.gt_u": wasm.OpcodeI32GtU,
	"i32.le_s": wasm.OpcodeI32LeS, "i32.le_u": wasm.OpcodeI32LeU, "i32.ge_s": wasm.OpcodeI32GeS, "i32.ge_u": wasm.OpcodeI32GeU,
	"i64.eqz": wasm.OpcodeI64Eqz, "i64.eq": wasm.OpcodeI64Eq, "i64.ne": wasm.OpcodeI64Ne,
	"i64.lt_s": wasm.OpcodeI64LtS, "i64.lt_u": wasm.OpcodeI64LtU, "i64.gt_s": wasm.OpcodeI64GtS, "i64.gt_u": wasm.OpcodeI64GtU,
	"i64.le_s": wasm.OpcodeI64LeS, "i64.le_u": wasm.OpcodeI64LeU, "i64.ge_s": wasm.OpcodeI64GeS, "i64.ge_u": wasm.OpcodeI64GeU,

	"i32.clz": wasm.OpcodeI32Clz, "i32.ctz": wasm.OpcodeI32Ctz, "i32.popcnt": wasm.OpcodeI32Popcnt,
	"i32.add": wasm.OpcodeI32Add, "i32.sub": wasm.OpcodeI32Sub, "i32.mul": wasm.OpcodeI32Mul,
	"i32.div_s": wasm.OpcodeI32DivS, "i32.div_u": wasm.OpcodeI32DivU, "i32.rem_s": wasm.OpcodeI32RemS, "i32.rem_u": wasm.OpcodeI32RemU,
	"i32.and": wasm.OpcodeI32And, "i32.or": wasm.OpcodeI32Or, "i32.xor": wasm.OpcodeI32Xor,
	"i32.shl": wasm.OpcodeI32Shl, "i32.shr_s": wasm.OpcodeI32ShrS, "i32.shr_u": wasm.OpcodeI32ShrU,
	"i32.rotl": wasm.OpcodeI32Rotl, "i32.rotr": wasm.OpcodeI32Rotr,

	"i64.clz": wasm.OpcodeI64Clz, "i64.ctz": wasm.OpcodeI64Ctz, "i64.popcnt": wasm.OpcodeI64Popcnt,
	"i64.add": wasm.OpcodeI64Add, "i64.sub": wasm.OpcodeI64Sub, "i64.mul": wasm.OpcodeI64Mul,
	"i64.div_s": wasm.OpcodeI64DivS, "i64.div_u": wasm.OpcodeI64DivU, "i64.rem_s": wasm.OpcodeI64RemS, "i64.rem_u": wasm.OpcodeI64RemU,
	"i64.and": wasm.OpcodeI64And, "i64.or": wasm.OpcodeI64Or, "i64.xor": wasm.OpcodeI64Xor,
	"i64.shl": wasm.OpcodeI64Shl, "i64.shr_s": wasm.OpcodeI64ShrS, "i64.shr_u": wasm.OpcodeI64ShrU,
	"i64.rotl": wasm.OpcodeI64Rotl, "i64.rotr": wasm.OpcodeI64Rotr,

	"i32.wrap_i64": wasm.OpcodeI32WrapI64, "i64.extend_i32_s": wasm.OpcodeI64ExtendI32S,
	"i64.extend_i32_u": wasm.OpcodeI64ExtendI32U, "i64.extend32_s": wasm.OpcodeI64Extend32S,
}

// checkOpcodeTable cross-checks the table above with wazero's own instruction-name table
func checkOpcodeTable() error {
	for name, op := range opcodes {
		if got := wasm.InstructionName(op); got != name {
			return fmt.Errorf("opcode table: %q is 0x%02x, which wazero names %q", name, op, got)
		}
	}
	return nil
}

func wasmTys(ts []vt) []wasm.ValueType {
	out := make([]wasm.ValueType, len(ts))
	for k, t := range ts {
		out[k] = t.wasm()
	}
	return out
}

// module: type 0 is the function's type; further types are the block types that need a type index
func (f *fnDef) module() *wasm.Module {
	types := []wasm.FunctionType{{Params: wasmTys(f.params), Results: wasmTys(f.results)}}
	keys := map[string]int{}
	var out []byte
	for _, i := range f.body {
		op, ok := opcodes[i.name]
		if !ok {
			panic("encode: unknown instruction " + i.name)
		}
		out = append(out, op)
		switch i.name {
		case "i32.const":
			out = append(out, leb128.EncodeInt32(int32(uint32(i.imm)))...)
		case "i64.const":
			out = append(out, leb128.EncodeInt64(int64(i.imm))...)
		case "local.get", "local.set", "local.tee", "br", "br_if":
			out = append(out, leb128.EncodeUint32(uint32(i.imm))...)
		case "block", "loop", "if":
			switch {
			case len(i.bp) == 0 && len(i.br) == 0:
				out = append(out, 0x40)
			case len(i.bp) == 0 && len(i.br) == 1:
				out = append(out, i.br[0].wasm())
			default:
				key := tysText(i.bp) + ">" + tysText(i.br)
				idx, ok := keys[key]
				if !ok {
					idx = len(types)
					keys[key] = idx
					types = append(types, wasm.FunctionType{Params: wasmTys(i.bp), Results: wasmTys(i.br)})
				}
				out = append(out, leb128.EncodeInt64(int64(idx))...)
			}
		}
	}
	out = append(out, wasm.OpcodeEnd)
	return &wasm.Module{
		TypeSection:     types,
		FunctionSection: []wasm.Index{0},
		CodeSection:     []wasm.Code{{LocalTypes: wasmTys(f.locals), Body: out}},
	}
}

// ---------------------------------------------------------------- parsing the text form (corpus, replay)

func parseTys(s string) ([]vt, error) {
	if s == "-" {
		return nil, nil
	}
	var out []vt
	for _, p := range strings.Split(s, ",") {
		switch p {
		case "i32":
			out = append(out, tI32)
		case "i64":
			out = append(out, tI64)
		default:
			return nil, fmt.Errorf("type %q", p)
		}
	}
	return out, nil
}

func parseFnText(s string) (*fnDef, error) {
	fs := strings.Fields(s)
	if len(fs) < 3 {
		return nil, fmt.Errorf("function text needs <params> <results> <locals>: %q", s)
	}
	f := &fnDef{}
	var err error
	if f.params, err = parseTys(fs[0]); err != nil {
		return nil, err
	}
	if f.results, err = parseTys(fs[1]); err != nil {
		return nil, err
	}
	if f.locals, err = parseTys(fs[2]); err != nil {
		return nil, err
	}
	for _, tok := range fs[3:] {
		p := strings.Split(tok, ":")
		if _, ok := opcodes[p[0]]; !ok {
			return nil, fmt.Errorf("instruction %q", tok)
		}
		i := ins{name: p[0]}
		switch p[0] {
		case "i32.const", "i64.const", "local.get", "local.set", "local.tee", "br", "br_if":
			if len(p) != 2 {
				return nil, fmt.Errorf("instruction %q", tok)
			}
			base := 10
			if strings.HasSuffix(p[0], ".const") {
				base = 16
			}
			if i.imm, err = strconv.ParseUint(p[1], base, 64); err != nil {
				return nil, fmt.Errorf("instruction %q: %v", tok, err)
			}
			if p[0] == "i32.const" && i.imm > 0xffffffff {
				return nil, fmt.Errorf("instruction %q: constant wider than 32 bits", tok)
			}
		case "block", "loop", "if":
			if len(p) != 2 {
				return nil, fmt.Errorf("instruction %q", tok)
			}
			ps, rs, ok := strings.Cut(p[1], ">")
			if !ok {
				return nil, fmt.Errorf("instruction %q", tok)
			}
			if i.bp, err = parseTys(ps); err != nil {
				return nil, err
			}
			if i.br, err = parseTys(rs); err != nil {
				return nil, err
			}
		default:
			if len(p) != 1 {
				return nil, fmt.Errorf("instruction %q", tok)
			}
		}
		f.body = append(f.body, i)
	}
	return f, nil
}

// ---------------------------------------------------------------- the random generator

var (
	binOps = []string{"add", "sub", "mul", "and", "or", "xor", "shl", "shr_s", "shr_u", "rotl", "rotr"}
	relOps = []string{"eq", "ne", "lt_s", "lt_u", "gt_s", "gt_u", "le_s", "le_u", "ge_s", "ge_u"}
	cntOps = []string{"clz", "ctz", "popcnt"}
	divOps = []string{"div_s", "div_u", "rem_s", "rem_u"}
)

// label of the generator: what a branch to it carries, and whether it is a loop
type label struct {
	tys  []vt
	loop bool
}

type gen struct {
	r      *rand.Rand
	f      *fnDef
	lt     []vt    // params ++ locals
	st     []vt    // the type stack of the CURRENT block, top last
	labels []label // innermost last; labels[0] is the function's
	// ctr: index of the reserved i32 local that bounds the number of backward branches taken in one call (-1: none,
	// then no backward branch is generated); it is written nowhere else.  limit: the bound.
	ctr    int
	limit  int
	budget int // remaining instructions (soft)
	params bool
}

func (g *gen) emit(name string, imm uint64) { g.f.body = append(g.f.body, ins{name: name, imm: imm}) }

func (g *gen) push(t vt) { g.st = append(g.st, t) }
func (g *gen) pop() vt {
	t := g.st[len(g.st)-1]
	g.st = g.st[:len(g.st)-1]
	return t
}

func (g *gen) top(k int) vt { return g.st[len(g.st)-1-k] }

// suffix: the top of the stack has the types ts (last = topmost)
func (g *gen) suffix(ts ...vt) bool {
	if len(g.st) < len(ts) {
		return false
	}
	for k, t := range ts {
		if g.st[len(g.st)-len(ts)+k] != t {
			return false
		}
	}
	return true
}

func (g *gen) randTy() vt { return vt(g.r.Intn(2)) }

// constVal: boundary-heavy constants (bit pattern, masked to the width)
func (g *gen) constVal(t vt) uint64 {
	w := t.bits()
	var v uint64
	switch g.r.Intn(12) {
	case 0:
		v = 0
	case 1:
		v = 1
	case 2:
		v = ^uint64(0)
	case 3:
		v = 1 << (w - 1) // min
	case 4:
		v = 1<<(w-1) - 1 // max
	case 5:
		v = 32
	case 6:
		v = 64
	case 7, 8:
		v = uint64(g.r.Intn(256))
	case 9:
		v = uint64(-int64(g.r.Intn(200) + 1))
	default:
		v = g.r.Uint64()
	}
	return v & t.mask()
}

func (g *gen) emitConst(t vt, v uint64) {
	g.emit(t.String()+".const", v&t.mask())
	g.push(t)
}

// localsOf: the locals of type t a generated instruction may touch (never the reserved counter)
func (g *gen) localsOf(t vt) []int {
	var out []int
	for k, lt := range g.lt {
		if lt == t && k != g.ctr {
			out = append(out, k)
		}
	}
	return out
}

func (g *gen) anyLocal() int {
	if len(g.lt) == 0 || (len(g.lt) == 1 && g.ctr == 0) {
		return -1
	}
	for {
		if k := g.r.Intn(len(g.lt)); k != g.ctr {
			return k
		}
	}
}

func (g *gen) emitLocalGet(k int) {
	g.emit("local.get", uint64(k))
	g.push(g.lt[k])
}

// pushOf pushes some value of type t: a local of that type or a constant
func (g *gen) pushOf(t vt) {
	if ls := g.localsOf(t); len(ls) > 0 && g.r.Intn(3) > 0 {
		g.emitLocalGet(ls[g.r.Intn(len(ls))])
		return
	}
	g.emitConst(t, g.constVal(t))
}

func (g *gen) pickTy() vt {
	if len(g.st) > 0 && g.r.Intn(10) < 7 {
		return g.top(0)
	}
	return g.randTy()
}

func (g *gen) need2(t vt) {
	switch {
	case g.suffix(t, t):
	case g.suffix(t):
		g.pushOf(t)
	default:
		g.pushOf(t)
		g.pushOf(t)
	}
}

func (g *gen) need1(t vt) {
	if !g.suffix(t) {
		g.pushOf(t)
	}
}

// pushCond pushes an i32 condition: 0, 1, a comparison of a local, anything
func (g *gen) pushCond() {
	switch g.r.Intn(6) {
	case 0:
		g.emitConst(tI32, 0)
	case 1:
		g.emitConst(tI32, 1)
	case 2, 3:
		t := g.randTy()
		g.pushOf(t)
		g.pushOf(t)
		g.emit(t.String()+"."+relOps[g.r.Intn(len(relOps))], 0)
		g.pop()
		g.pop()
		g.push(tI32)
	default:
		g.pushOf(tI32)
	}
}

// straight: one straight-line instruction (operands that are missing are pushed first)
func (g *gen) straight() {
	r := g.r
	k := r.Intn(100)
	if k < 30 && len(g.st) >= 5 && r.Intn(4) > 0 {
		k = 30 + r.Intn(70)
	}
	switch {
	case k < 10:
		t := g.randTy()
		g.emitConst(t, g.constVal(t))
	case k < 30:
		if l := g.anyLocal(); l >= 0 {
			g.emitLocalGet(l)
		} else {
			t := g.randTy()
			g.emitConst(t, g.constVal(t))
		}
	case k < 52: // local.set / local.tee
		idx := g.anyLocal()
		if idx < 0 {
			return
		}
		if len(g.st) > 0 && len(g.localsOf(g.top(0))) > 0 && r.Intn(5) > 0 {
			ls := g.localsOf(g.top(0))
			idx = ls[r.Intn(len(ls))]
		} else {
			g.need1(g.lt[idx])
		}
		if r.Intn(3) > 0 {
			g.emit("local.set", uint64(idx))
			g.pop()
		} else {
			g.emit("local.tee", uint64(idx))
		}
	case k < 55:
		if len(g.st) == 0 {
			g.pushOf(g.randTy())
		}
		g.emit("drop", 0)
		g.pop()
	case k < 59: // select
		t := g.pickTy()
		if len(g.st) >= 3 && g.top(0) == tI32 && g.top(1) == g.top(2) {
		} else if g.suffix(t, t) {
			g.pushCond()
		} else {
			g.pushOf(t)
			g.pushOf(t)
			g.pushCond()
		}
		g.emit("select", 0)
		g.pop()
		g.pop()
	case k < 76: // binary operator
		t := g.pickTy()
		g.need2(t)
		g.emit(t.String()+"."+binOps[r.Intn(len(binOps))], 0)
		g.pop()
	case k < 84: // comparison
		t := g.pickTy()
		g.need2(t)
		g.emit(t.String()+"."+relOps[r.Intn(len(relOps))], 0)
		g.pop()
		g.pop()
		g.push(tI32)
	case k < 87:
		t := g.pickTy()
		g.need1(t)
		g.emit(t.String()+".eqz", 0)
		g.pop()
		g.push(tI32)
	case k < 90:
		t := g.pickTy()
		g.need1(t)
		g.emit(t.String()+"."+cntOps[r.Intn(len(cntOps))], 0)
	case k < 96:
		var name string
		var from, to vt
		switch r.Intn(4) {
		case 0:
			name, from, to = "i32.wrap_i64", tI64, tI32
		case 1:
			name, from, to = "i64.extend_i32_s", tI32, tI64
		case 2:
			name, from, to = "i64.extend_i32_u", tI32, tI64
		default:
			name, from, to = "i64.extend32_s", tI64, tI64
		}
		g.need1(from)
		g.emit(name, 0)
		g.pop()
		g.push(to)
	default: // trapping division / remainder
		t := g.pickTy()
		if r.Intn(3) == 0 {
			g.pushOf(t)
			switch r.Intn(8) {
			case 0:
				g.emitConst(t, 0)
			case 1:
				g.emitConst(t, ^uint64(0))
			case 2, 3:
				g.emitConst(t, uint64(1+r.Intn(9)))
			default:
				g.pushOf(t)
			}
		} else {
			g.need2(t)
		}
		g.emit(t.String()+"."+divOps[r.Intn(len(divOps))], 0)
		g.pop()
	}
}

// fixupTo makes the stack exactly ts (exact = true), or makes ts its top leaving junk below (exact = false)
func (g *gen) fixupTo(ts []vt, exact bool) {
	if !exact {
		if g.suffix(ts...) && g.r.Intn(2) == 0 {
			return
		}
		for _, t := range ts {
			g.pushOf(t)
		}
		return
	}
	k := 0
	for k < len(ts) && k < len(g.st) && g.st[k] == ts[k] {
		k++
	}
	saved, savedTy := -1, tI32
	if len(g.st) > k && k < len(ts) {
		t := g.top(0)
		wanted := false
		for _, rt := range ts[k:] {
			wanted = wanted || rt == t
		}
		if ls := g.localsOf(t); wanted && len(ls) > 0 && g.r.Intn(10) < 7 {
			saved, savedTy = ls[g.r.Intn(len(ls))], t
			g.emit("local.set", uint64(saved))
			g.pop()
		}
	}
	for len(g.st) > k {
		g.emit("drop", 0)
		g.pop()
	}
	for _, rt := range ts[k:] {
		if saved >= 0 && rt == savedTy {
			g.emitLocalGet(saved)
			saved = -1
			continue
		}
		g.pushOf(rt)
	}
}

func (g *gen) randTys(n int) []vt {
	out := make([]vt, n)
	for k := range out {
		out[k] = g.randTy()
	}
	return out
}

// blockType: parameters are taken from the top of the current stack (so that they are available); results random
func (g *gen) blockType(loop bool) (bp, br []vt) {
	if g.params && g.r.Intn(3) == 0 {
		n := g.r.Intn(3)
		if n > len(g.st) {
			n = len(g.st)
		}
		if n == 0 && g.r.Intn(2) == 0 {
			t := g.randTy()
			g.pushOf(t)
			n = 1
		}
		bp = append([]vt{}, g.st[len(g.st)-n:]...)
	}
	switch g.r.Intn(8) {
	case 0, 1, 2, 3:
	case 4, 5, 6:
		br = g.randTys(1)
	default:
		br = g.randTys(2)
	}
	return
}

// counterCheck pushes the i32 "another backward branch is allowed": ctr = ctr + 1; ctr < limit
func (g *gen) counterCheck() {
	g.emit("local.get", uint64(g.ctr))
	g.emit("i32.const", 1)
	g.emit("i32.add", 0)
	g.emit("local.tee", uint64(g.ctr))
	g.emit("i32.const", uint64(g.limit))
	g.emit("i32.lt_u", 0)
	g.push(tI32)
}

// terminator ends the live part of the current sequence: br to some label, return, unreachable; false if the
// chosen form is not available
func (g *gen) terminator() bool {
	r := g.r
	switch r.Intn(5) {
	case 0:
		g.fixupTo(g.f.results, false)
		g.emit("return", 0)
		g.f.stat("return")
	case 1:
		g.emit("unreachable", 0)
		g.f.stat("unreachable")
	default:
		d := r.Intn(len(g.labels))
		lb := g.labels[len(g.labels)-1-d]
		if lb.loop {
			if g.ctr < 0 {
				return false
			}
			// a guarded unconditional backward branch: if the budget of backward branches is used up, trap
			g.counterCheck()
			g.emit("i32.eqz", 0)
			g.f.body = append(g.f.body, ins{name: "if"})
			g.pop()
			g.emit("unreachable", 0)
			g.emit("end", 0)
			g.fixupTo(lb.tys, false)
			g.emit("br", uint64(d))
			g.f.stat("br-backward")
		} else {
			g.fixupTo(lb.tys, false)
			g.emit("br", uint64(d))
			g.f.stat("br-forward")
			if d == len(g.labels)-1 {
				g.f.stat("br-to-function")
			}
		}
	}
	return true
}

// dead: code after a terminator: validated with a polymorphic stack, skipped by the front end (including nested
// blocks, ifs with else, loops and branches)
func (g *gen) dead(ts []vt) {
	if g.r.Intn(3) > 0 {
		return // nothing: the `end` / `else` follows the terminator
	}
	g.f.stat("dead-code")
	save := g.st
	g.st = nil
	n := 1 + g.r.Intn(5)
	for k := 0; k < n; k++ {
		switch g.r.Intn(8) {
		case 0:
			g.f.stat("dead-nested-block")
			g.nested(1 + g.r.Intn(2))
		case 1:
			if len(g.labels) > 0 {
				d := g.r.Intn(len(g.labels))
				lb := g.labels[len(g.labels)-1-d]
				g.fixupTo(lb.tys, false)
				g.emit("br", uint64(d))
				g.st = nil
			}
		default:
			g.straight()
		}
	}
	g.fixupTo(ts, true)
	g.st = save
}

// seq generates a sequence inside the current block whose `end` must leave exactly ts; returns with the stack = ts
func (g *gen) seq(depth int, ts []vt) {
	n := g.r.Intn(8)
	if depth == 0 {
		n = g.r.Intn(14)
	}
	for k := 0; k < n && g.budget > 0; k++ {
		g.budget--
		c := g.r.Intn(100)
		switch {
		case c < 62 || depth >= 4:
			g.straight()
		case c < 90:
			g.nested(depth + 1)
		case c < 96:
			// br_if to some label
			d := g.r.Intn(len(g.labels))
			lb := g.labels[len(g.labels)-1-d]
			if lb.loop {
				if g.ctr < 0 {
					continue
				}
				g.fixupTo(lb.tys, false)
				g.counterCheck()
				if g.r.Intn(3) == 0 { // and some other condition
					g.pushCond()
					g.emit("i32.and", 0)
					g.pop()
				}
				g.f.stat("br_if-backward")
			} else {
				g.fixupTo(lb.tys, false)
				g.pushCond()
				g.f.stat("br_if-forward")
				if d == len(g.labels)-1 {
					g.f.stat("br_if-to-function")
				}
			}
			g.emit("br_if", uint64(d))
			g.pop()
		default:
			if g.terminator() {
				g.dead(ts)
				g.st = append([]vt{}, ts...)
				return
			}
		}
	}
	g.fixupTo(ts, true)
}

// nested generates block / loop / if at the current point
func (g *gen) nested(depth int) {
	r := g.r
	kind := []string{"block", "block", "loop", "loop", "if", "if", "if"}[r.Intn(7)]
	bp, br := g.blockType(kind == "loop")
	hasElse := true
	if kind == "if" && r.Intn(3) == 0 {
		// without else: the parameters are the results
		hasElse = false
		br = append([]vt{}, bp...)
	}
	if kind == "if" {
		g.pushCond() // on top of the parameters
		g.pop()
	}
	g.f.body = append(g.f.body, ins{name: kind, bp: bp, br: br})
	g.f.stat(kind)
	if len(bp) > 0 {
		g.f.stat(kind + "-with-params")
	}
	if len(br) > 1 {
		g.f.stat(kind + "-multi-result")
	}
	outer := append([]vt{}, g.st[:len(g.st)-len(bp)]...)
	lb := label{tys: br, loop: false}
	if kind == "loop" {
		lb = label{tys: bp, loop: true}
	}
	g.labels = append(g.labels, lb)
	g.st = append([]vt{}, bp...)
	g.seq(depth, br)
	if kind == "if" && hasElse {
		g.emit("else", 0)
		g.f.stat("else")
		g.st = append([]vt{}, bp...)
		g.seq(depth, br)
	}
	g.emit("end", 0)
	g.labels = g.labels[:len(g.labels)-1]
	g.st = append(outer, br...)
}

// genFn: 0..3 parameters, 0..2 results, 0..4 locals plus (mostly) the reserved counter local
func genFn(r *rand.Rand) *fnDef {
	g := &gen{r: r, f: &fnDef{}, ctr: -1}
	f := g.f
	f.params = g.randTys(r.Intn(4))
	f.results = g.randTys(r.Intn(3))
	f.locals = g.randTys(r.Intn(5))
	if r.Intn(8) > 0 {
		f.locals = append(f.locals, tI32)
		g.ctr = len(f.params) + len(f.locals) - 1
		g.limit = 1 + r.Intn(6)
	}
	g.params = r.Intn(4) == 0
	g.lt = append(append([]vt{}, f.params...), f.locals...)
	g.labels = []label{{tys: f.results}}
	g.budget = 10 + r.Intn(50)
	if r.Intn(10) == 0 {
		g.budget = r.Intn(6)
	}
	g.seq(0, f.results)
	return f
}

// genArgs: boundary-heavy argument vectors (bit patterns; i32 arguments below 2^32)
func genArgs(r *rand.Rand, ps []vt) []uint64 {
	out := make([]uint64, len(ps))
	for k, t := range ps {
		var v uint64
		switch r.Intn(9) {
		case 0:
			v = 0
		case 1:
			v = 1
		case 2:
			v = ^uint64(0)
		case 3:
			v = 1 << (t.bits() - 1)
		case 4:
			v = 1<<(t.bits()-1) - 1
		case 5:
			v = uint64(r.Intn(100))
		case 6:
			v = uint64(r.Uint32())
		default:
			v = r.Uint64()
		}
		out[k] = v & t.mask()
	}
	return out
}

// ---------------------------------------------------------------- the hand-written corpus

var handWritten = []string{
	// straight-line (the conservative case)
	"- - -",
	"i32 i32 - local.get:0",
	"i32 i32 i32 local.get:0 local.tee:1 return",
	"- i32,i64 i32,i64 local.get:0 local.get:1",
	"i32 i32 - local.get:0 i32.const:0 i32.div_s",
	"i32 i32 - local.get:0 return i32.const:1 i32.add",
	// unreachable
	"- - - unreachable",
	"i32 i32 - unreachable local.get:0",
	"i32 i32 - local.get:0 unreachable",
	// blocks
	"- - - block:->- end",
	"i32 i32 - block:->i32 local.get:0 end",
	"i32 i32 - block:->i32 local.get:0 br:0 end",
	"i32 i32 - block:->i32 local.get:0 br:1 end",
	"i32 i32 - block:->i32 local.get:0 local.get:0 br_if:0 end",
	"i32 i32 - block:->i32 local.get:0 local.get:0 br_if:1 end",
	"i32 i32 - local.get:0 local.get:0 br_if:0",
	"i32 i32 - block:->- local.get:0 br_if:0 i32.const:7 return end i32.const:9",
	"i32 i32 - block:->- block:->- local.get:0 br_if:1 i32.const:7 return end unreachable end i32.const:9",
	"i32,i64 i64,i32 - block:->i64,i32 local.get:1 local.get:0 end",
	"i32,i64 i64,i32 - block:->i64,i32 i32.const:5 local.get:1 local.get:0 br:0 end",
	"i32 i32 - block:->i32 i32.const:1 br:0 i32.const:2 i32.add end",
	"i32 i32 - block:->i32 i32.const:1 br:0 block:->i32 i32.const:2 end if:->- else end end",
	// block parameters
	"i32 i32 - local.get:0 block:i32>i32 i32.const:1 i32.add end",
	"i32 i32 - local.get:0 block:i32>i32 br:0 end",
	"i32 i32 - local.get:0 local.get:0 block:i32>- drop end",
	"i32,i64 i64 - local.get:0 local.get:1 block:i32,i64>i64 drop i64.extend_i32_u end",
	// if / else joining two definitions of a local
	"i32 i32 i32 local.get:0 if:->- i32.const:1 local.set:1 else i32.const:2 local.set:1 end local.get:1",
	"i32 i32 i32 local.get:0 if:->- i32.const:1 local.set:1 end local.get:1",
	"i32 i32 i32 local.get:0 if:->- i32.const:1 local.set:1 else end local.get:1",
	"i32 i32 i32 local.get:0 if:->- else i32.const:2 local.set:1 end local.get:1",
	"i32 i32 - local.get:0 if:->i32 i32.const:1 else i32.const:2 end",
	"i32 i32 - local.get:0 if:->i32 i32.const:1 return else i32.const:2 end",
	"i32 i32 - local.get:0 if:->i32 i32.const:1 else unreachable end",
	"i32 i32 - local.get:0 if:->i32 i32.const:1 br:1 else i32.const:2 br:0 end",
	"i32 i32 - local.get:0 if:->i32 unreachable else unreachable end",
	"i32 i32 - local.get:0 local.get:0 if:i32>i32 i32.const:1 i32.add else i32.const:2 i32.sub end",
	"i32 i32 - local.get:0 local.get:0 if:i32>i32 i32.const:1 i32.add end",
	"i32 i32 - local.get:0 local.get:0 if:i32>i32 end",
	"i32 i32 i32 local.get:0 if:->- local.get:0 if:->- i32.const:3 local.set:1 end else end local.get:1",
	// the same value in both branches: findValue finds a unique definition and records an alias
	"i32 i32 i32 i32.const:5 local.set:1 local.get:0 if:->- else end local.get:1",
	"i32 i32 i32 i32.const:5 local.set:1 local.get:0 if:->- else end local.get:1 local.get:1 i32.add",
	"i32 i32 i32 local.get:0 if:->- else end local.get:1",
	"i32 i32 i32 i32.const:5 local.set:1 local.get:0 if:->- else end local.get:0 if:->- else end local.get:1 local.get:1 i32.add",
	// loops
	"- - - loop:->- end",
	"- - - loop:->- br:0 end",
	"i32 i32 - loop:->- i32.const:4 local.get:0 br_if:1 drop end i32.const:3",
	"i32 i32 i32 loop:->- local.get:1 i32.const:1 i32.add local.tee:1 local.get:0 i32.lt_u br_if:0 end local.get:1",
	"i32 i32 i32 block:->- loop:->- local.get:1 local.get:0 i32.ge_u br_if:1 local.get:1 i32.const:1 i32.add local.set:1 br:0 end end local.get:1",
	"i32 i32 i32,i32 loop:->- local.get:2 i32.const:3 i32.add local.set:2 local.get:1 i32.const:1 i32.add local.tee:1 local.get:0 i32.lt_u br_if:0 end local.get:2",
	"i32 i32 i32 i32.const:0 loop:i32>i32 i32.const:1 i32.add local.tee:1 local.get:1 local.get:0 i32.lt_u br_if:0 end",
	"i64 i64 i32 local.get:0 loop:i64>i64 i64.const:3 i64.mul local.get:1 i32.const:1 i32.add local.tee:1 i32.const:4 i32.lt_u br_if:0 end",
	"i32 i32 i32 loop:->i32 local.get:1 i32.const:1 i32.add local.tee:1 i32.const:3 i32.lt_u br_if:0 local.get:1 end",
	// a loop that does not touch the local read after it; nested loops
	"i32 i32 i32,i32 i32.const:9 local.set:2 loop:->- local.get:1 i32.const:1 i32.add local.tee:1 i32.const:3 i32.lt_u br_if:0 end local.get:2",
	"i32 i32 i32,i32 loop:->- loop:->- local.get:1 i32.const:1 i32.add local.tee:1 i32.const:3 i32.lt_u br_if:0 end local.get:2 i32.const:1 i32.add local.tee:2 i32.const:2 i32.lt_u br_if:0 end local.get:1",
	"i32 i32 i32 loop:->- local.get:0 if:->- local.get:1 i32.const:1 i32.add local.tee:1 i32.const:5 i32.lt_u br_if:1 end end local.get:1",
	// early return from inside a loop, unreachable code after br
	"i32 i32 i32 loop:->- local.get:1 i32.const:1 i32.add local.tee:1 i32.const:4 i32.ge_u if:->- local.get:1 return end br:0 end unreachable",
	"i32 i32 - block:->i32 local.get:0 br:0 loop:->- br:0 end unreachable end",
	"i32 i32 - local.get:0 if:->- local.get:0 return else unreachable end unreachable",
	"- - - block:->- br:0 if:->- else end block:->- end loop:->- end end",
}

func corpus() []string { return handWritten }
