//go:build !verif

package main

import "github.com/tetratelabs/wazero/internal/engine/wazevo/ssa"

const hookAvailable = false

func realAliases(b ssa.Builder) map[int]int { return nil }
