package main

// desugar: block parameters rewritten away, so that the reference semantics (Wz.Spec.Wasm has no block parameters) can
// serve as the reference also for functions that use them.  The parameters of a block / loop / if are saved in fresh
// locals in front of the construct and read back at the start of its body (and of the else arm); a branch to a LOOP
// with parameters stores the carried values into the loop's locals first (for br_if they are pushed back, so that they
// stay on the stack when the branch is not taken).  The result is an ordinary function of the fragment without block
// parameters which the real validator must accept and which has the same behaviour by the semantics of Wasm.

type dsFrame struct {
	loop   bool
	temps  []int // locals holding the parameters (loops: read again at every iteration)
	params []vt
}

func desugar(f *fnDef) *fnDef {
	out := &fnDef{params: f.params, results: f.results, locals: append([]vt{}, f.locals...)}
	newLocal := func(t vt) int {
		out.locals = append(out.locals, t)
		return len(out.params) + len(out.locals) - 1
	}
	cond := -1
	condLocal := func() int {
		if cond < 0 {
			cond = newLocal(tI32)
		}
		return cond
	}
	emit := func(name string, imm uint64) { out.body = append(out.body, ins{name: name, imm: imm}) }
	save := func(temps []int) { // the top of the stack is the last parameter
		for k := len(temps) - 1; k >= 0; k-- {
			emit("local.set", uint64(temps[k]))
		}
	}
	load := func(temps []int) {
		for _, t := range temps {
			emit("local.get", uint64(t))
		}
	}
	frames := []dsFrame{{}} // the function's frame
	for _, i := range f.body {
		switch i.name {
		case "block", "loop", "if":
			fr := dsFrame{loop: i.name == "loop", params: i.bp}
			for _, t := range i.bp {
				fr.temps = append(fr.temps, newLocal(t))
			}
			if len(i.bp) > 0 {
				if i.name == "if" {
					c := condLocal()
					emit("local.set", uint64(c))
					save(fr.temps)
					emit("local.get", uint64(c))
				} else {
					save(fr.temps)
				}
			}
			out.body = append(out.body, ins{name: i.name, br: i.br})
			load(fr.temps)
			frames = append(frames, fr)
		case "else":
			emit("else", 0)
			load(frames[len(frames)-1].temps)
		case "end":
			frames = frames[:len(frames)-1]
			emit("end", 0)
		case "br", "br_if":
			d := int(i.imm)
			if d < len(frames) {
				if fr := frames[len(frames)-1-d]; fr.loop && len(fr.temps) > 0 {
					if i.name == "br" {
						save(fr.temps)
					} else {
						c := condLocal()
						emit("local.set", uint64(c))
						save(fr.temps)
						load(fr.temps)
						emit("local.get", uint64(c))
					}
				}
			}
			out.body = append(out.body, i)
		default:
			out.body = append(out.body, i)
		}
	}
	// an `if` with parameters and without `else` passes its parameters through: it needs an explicit else arm
	return addImplicitElse(f, out)
}

// addImplicitElse: for every `if` of the ORIGINAL function that has parameters and no `else`, the desugared function
// gets `else <load temps>` in front of the matching `end`.
func addImplicitElse(orig, ds *fnDef) *fnDef {
	// which `if`s of the original (in order of appearance) lack an else, and have parameters
	type st struct {
		isIf, hasElse, params bool
		idx                   int
	}
	var stack []st
	need := map[int]bool{} // ordinal of the block-start instruction -> needs an else
	ord := 0
	for _, i := range orig.body {
		switch i.name {
		case "block", "loop", "if":
			stack = append(stack, st{isIf: i.name == "if", params: len(i.bp) > 0, idx: ord})
			ord++
		case "else":
			stack[len(stack)-1].hasElse = true
		case "end":
			t := stack[len(stack)-1]
			stack = stack[:len(stack)-1]
			if t.isIf && !t.hasElse && t.params {
				need[t.idx] = true
			}
		}
	}
	if len(need) == 0 {
		return ds
	}
	// walk the desugared body: the temps of a frame are the local.get's right after its start
	out := &fnDef{params: ds.params, results: ds.results, locals: ds.locals}
	type fr struct {
		idx   int
		loads []ins
	}
	var frames []fr
	ord = 0
	for k := 0; k < len(ds.body); k++ {
		i := ds.body[k]
		switch i.name {
		case "block", "loop", "if":
			f := fr{idx: ord}
			ord++
			if need[f.idx] {
				for j := k + 1; j < len(ds.body) && ds.body[j].name == "local.get"; j++ {
					f.loads = append(f.loads, ds.body[j])
				}
				// only the parameter loads: as many as the original `if` has parameters
				np := 0
				cnt := 0
				for _, oi := range orig.body {
					if oi.name == "block" || oi.name == "loop" || oi.name == "if" {
						if cnt == f.idx {
							np = len(oi.bp)
						}
						cnt++
					}
				}
				f.loads = f.loads[:np]
			}
			frames = append(frames, f)
			out.body = append(out.body, i)
		case "end":
			f := frames[len(frames)-1]
			frames = frames[:len(frames)-1]
			if need[f.idx] {
				out.body = append(out.body, ins{name: "else"})
				out.body = append(out.body, f.loads...)
			}
			out.body = append(out.body, i)
		default:
			out.body = append(out.body, i)
		}
	}
	return out
}
