// hfrontcf: tie of the Lean model of wazevo's front end on STRUCTURED CONTROL FLOW (Wz.Model.FrontendCF, oracle topic
// `c01frontcf`) to the real front end (internal/engine/wazevo/frontend: Compiler.LowerToSSA on a real ssa.Builder).
//
// Functions of the fragment (params/results/locals i32/i64; the straight-line integer instructions of hfront; block,
// loop, if/else with block types that have parameters and results, br, br_if to every depth including the function's
// label and loop headers, return, unreachable, dead code after them including nested blocks) are generated
// type-correctly (gen.go), rendered as the oracle's text AND encoded as a real Wasm module which the REAL decoder and
// validator must accept.  The REAL front end compiles the function in-process (frontend_test.go's recipe) and
//
//  1. ssaBuilder.Format() must be string-equal, line by line (block ids, block parameters incl. those findValue adds,
//     predecessor lists, value ids, branch arguments), to `c01frontcf lower` (C01:frontcf-model-differs); the REAL
//     alias table (hook VerifResolveAlias, build tag verif) must equal `c01frontcf aliases`;
//     `c01frontcf wt` must answer 1 (0 allowed only if a block type has parameters: the reference semantics has none);
//     `c01frontcf wf` (wellFormedA of the model's output: SsaPass.WF for the certificate extended to aliased temporaries) must answer 1; on straight-line functions
//     `c01frontcf sl` must answer 1 (lowerCF = lowerSL);
//  2. the REAL Format() text (+ the REAL alias table) is converted to the token syntax of `c01ssa` and run by the Lean
//     SSA semantics (`c01frontcf runssa`) on three argument vectors: the outcome must be that of the reference semantics
//     of the Wasm function (`c01frontcf run`: spec) - which must also equal the model's lowering and its optimised
//     form (ssa, opt) - and the same on the text after the REAL builder.RunPasses() (`Jump fallthrough` = jump to the
//     next block in layout order).  For functions with block parameters the reference semantics is run on the
//     DESUGARED function (desugar.go: the parameters are saved in fresh locals; the real validator must accept it).
//     The converted REAL output must pass `c01frontcf wfssa`.
//
// Replay: -replay FILE with {"fn": "<function text>"[, "args": ["<hex,…|->", …]]} or a report whose first violation
// has such an input.  -mutate N perturbs the REAL side before the comparisons (self-test that they are live).
package main

import (
	"bytes"
	"encoding/json"
	"flag"
	"fmt"
	"os"
	"regexp"
	"runtime"
	"sort"
	"strconv"
	"strings"
	"sync"
	"time"

	"github.com/tetratelabs/wazero/api"
	"github.com/tetratelabs/wazero/internal/engine/wazevo/frontend"
	"github.com/tetratelabs/wazero/internal/engine/wazevo/ssa"
	"github.com/tetratelabs/wazero/internal/engine/wazevo/wazevoapi"
	"github.com/tetratelabs/wazero/internal/testing/binaryencoding"
	"github.com/tetratelabs/wazero/internal/wasm"
	"github.com/tetratelabs/wazero/internal/wasm/binary"
	"github.com/tetratelabs/wazero/verifharness/hx"
)

var enumN *int

var (
	rep    *hx.Report
	mutate = flag.Int("mutate", 0, "self-test: perturb the REAL output before comparing (1 swap Isub operands, 2 drop the last block parameter of a header, 3 Brz <-> Brnz, 4 drop the last argument of a branch, 5 change an Iconst)")
)

const features = api.CoreFeaturesV2
const retBlkID = 4294967295

// ---------------------------------------------------------------- the real side

func decodeValidate(f *fnDef) (*wasm.Module, error) {
	src := f.module()
	bin := binaryencoding.EncodeModule(src)
	m, err := binary.DecodeModule(bin, features, wasm.MemoryLimitPages, false, false, false)
	if err != nil {
		return nil, fmt.Errorf("decode: %w", err)
	}
	if err = m.Validate(features); err != nil {
		return nil, fmt.Errorf("validate: %w", err)
	}
	if len(m.CodeSection) != 1 || !bytes.Equal(m.CodeSection[0].Body, src.CodeSection[0].Body) ||
		!bytes.Equal(m.CodeSection[0].LocalTypes, src.CodeSection[0].LocalTypes) || len(m.TypeSection) != len(src.TypeSection) {
		hx.Fatal("the decoded module is not the encoded one: %s", f.text())
	}
	m.BuildMemoryDefinitions()
	return m, nil
}

func lowerReal(m *wasm.Module) (b ssa.Builder, text string, panicked any) {
	defer func() {
		if r := recover(); r != nil {
			panicked = r
		}
	}()
	b = ssa.NewBuilder()
	offset := wazevoapi.NewModuleContextOffsetData(m, false)
	fc := frontend.NewFrontendCompiler(m, b, &offset, false, false, false)
	typeIndex := m.FunctionSection[0]
	code := &m.CodeSection[0]
	fc.Init(0, typeIndex, &m.TypeSection[typeIndex], code.LocalTypes, code.Body, false, 0)
	fc.LowerToSSA()
	text = b.Format()
	return
}

func runPassesReal(b ssa.Builder) (text string, panicked any) {
	defer func() {
		if r := recover(); r != nil {
			panicked = r
		}
	}()
	b.RunPasses()
	text = b.Format()
	return
}

func canonLines(text string) []string {
	var out []string
	for _, l := range strings.Split(text, "\n") {
		if l = strings.TrimSpace(l); l != "" {
			out = append(out, l)
		}
	}
	return out
}

// ---------------------------------------------------------------- Format() text -> c01ssa tokens

func valID(s string) (int, error) {
	switch s {
	case "exec_ctx":
		return 0, nil
	case "module_ctx":
		return 1, nil
	}
	if len(s) > 1 && s[0] == 'v' {
		if n, err := strconv.Atoi(s[1:]); err == nil && n >= 0 {
			return n, nil
		}
	}
	return 0, fmt.Errorf("value %q", s)
}

func typedVal(s string) (int, string, error) {
	name, ty, ok := strings.Cut(s, ":")
	if !ok || (ty != "i32" && ty != "i64") {
		return 0, "", fmt.Errorf("typed value %q", s)
	}
	id, err := valID(name)
	return id, ty, err
}

var ssaBin = map[string]string{"Iadd": "iadd", "Isub": "isub", "Imul": "imul", "Band": "band", "Bor": "bor", "Bxor": "bxor",
	"Ishl": "ishl", "Ushr": "ushr", "Sshr": "sshr", "Rotl": "rotl", "Rotr": "rotr"}
var ssaUn = map[string]string{"Clz": "clz", "Ctz": "ctz", "Popcnt": "popcnt", "Ireduce": "ireduce"}
var ssaDiv = map[string]string{"Sdiv": "sdiv", "Udiv": "udiv", "Srem": "srem", "Urem": "urem"}
var ssaCond = map[string]bool{"eq": true, "neq": true, "lt_s": true, "ge_s": true, "gt_s": true, "le_s": true,
	"lt_u": true, "ge_u": true, "gt_u": true, "le_u": true}

var headerRe = regexp.MustCompile(`^blk(\d+): \(([^)]*)\)( <-- \(([^)]*)\))?$`)

func joinInts(vs []int) string {
	if len(vs) == 0 {
		return "-"
	}
	s := make([]string, len(vs))
	for k, v := range vs {
		s[k] = strconv.Itoa(v)
	}
	return strings.Join(s, ",")
}

// toTokens converts the canonical lines of a Format() text (before or after RunPasses) into the token syntax of
// `c01ssa`, followed by one `A<dst>:<src>` token per alias entry.  A branch to the return block: `Jump blk_ret, vs` is
// `ret:vs`; `Brz/Brnz c, blk_ret, vs` targets a block `B4294967295` with one parameter per result and `ret` of them.
func toTokens(lines []string, aliases map[int]int, results []vt) (string, error) {
	types := map[int]string{}
	type blk struct {
		id    int
		lines []string
		hdr   []string
	}
	var blks []*blk
	maxID := 1
	note := func(id int, ty string) {
		types[id] = ty
		if id > maxID {
			maxID = id
		}
	}
	for _, l := range lines {
		if m := headerRe.FindStringSubmatch(l); m != nil {
			id, _ := strconv.Atoi(m[1])
			b := &blk{id: id}
			if inner := strings.TrimSpace(m[2]); inner != "" {
				for _, p := range strings.Split(inner, ",") {
					v, ty, err := typedVal(strings.TrimSpace(p))
					if err != nil {
						return "", err
					}
					note(v, ty)
					b.hdr = append(b.hdr, fmt.Sprintf("P%d:%s", v, ty))
				}
			}
			blks = append(blks, b)
			continue
		}
		if len(blks) == 0 {
			return "", fmt.Errorf("line %q before any block", l)
		}
		if lhs, _, ok := strings.Cut(l, " = "); ok {
			v, ty, err := typedVal(lhs)
			if err != nil {
				return "", err
			}
			note(v, ty)
		}
		blks[len(blks)-1].lines = append(blks[len(blks)-1].lines, l)
	}
	for d, s := range aliases {
		if d > maxID {
			maxID = d
		}
		if s > maxID {
			maxID = s
		}
	}
	tyOf := func(v int) (string, bool) {
		if t, ok := types[v]; ok {
			return t, true
		}
		if s, ok := aliases[v]; ok {
			t, ok := types[s]
			return t, ok
		}
		return "", false
	}
	ids := func(ss []string) ([]int, error) {
		r := make([]int, len(ss))
		for k, s := range ss {
			v, err := valID(s)
			if err != nil {
				return nil, err
			}
			r[k] = v
		}
		return r, nil
	}
	needRet := false
	target := func(s string, next int) (int, error) {
		switch {
		case s == "blk_ret":
			return retBlkID, nil
		case s == "fallthrough":
			if next < 0 {
				return 0, fmt.Errorf("fallthrough from the last block")
			}
			return next, nil
		case strings.HasPrefix(s, "blk"):
			return strconv.Atoi(s[3:])
		}
		return 0, fmt.Errorf("target %q", s)
	}
	var out []string
	ninstr := 0
	for bi, b := range blks {
		next := -1
		if bi+1 < len(blks) {
			next = blks[bi+1].id
		}
		out = append(out, fmt.Sprintf("B%d:%d", b.id, ninstr))
		out = append(out, b.hdr...)
		for _, l := range b.lines {
			ninstr++
			bad := fmt.Errorf("line %q", l)
			lhs, rhs, hasDef := strings.Cut(l, " = ")
			if !hasDef {
				rhs = l
			}
			op, argText, _ := strings.Cut(rhs, " ")
			var args []string
			if argText != "" {
				args = strings.Split(argText, ", ")
			}
			if !hasDef {
				switch {
				case op == "Jump" && len(args) >= 1:
					t, err := target(args[0], next)
					if err != nil {
						return "", err
					}
					vs, err := ids(args[1:])
					if err != nil {
						return "", err
					}
					if t == retBlkID {
						out = append(out, "ret:"+joinInts(vs))
					} else {
						out = append(out, fmt.Sprintf("jump:%d:%s", t, joinInts(vs)))
					}
				case (op == "Brz" || op == "Brnz") && len(args) >= 2:
					c, err := valID(args[0])
					if err != nil {
						return "", err
					}
					t, err := target(args[1], next)
					if err != nil {
						return "", err
					}
					if t == retBlkID {
						needRet = true
					}
					vs, err := ids(args[2:])
					if err != nil {
						return "", err
					}
					out = append(out, fmt.Sprintf("%s:%d:%d:%s", strings.ToLower(op), c, t, joinInts(vs)))
				case op == "Return":
					vs, err := ids(args)
					if err != nil {
						return "", err
					}
					out = append(out, "ret:"+joinInts(vs))
				case op == "Exit" && len(args) == 2 && args[0] == "exec_ctx" && args[1] == "unreachable":
					out = append(out, "exit:0:3")
				default:
					return "", bad
				}
				continue
			}
			r, ty, err := typedVal(lhs)
			if err != nil {
				return "", err
			}
			switch {
			case op == "Iconst_32" || op == "Iconst_64":
				if len(args) != 1 || !strings.HasPrefix(args[0], "0x") || (op == "Iconst_32") != (ty == "i32") {
					return "", bad
				}
				c, err := strconv.ParseUint(args[0][2:], 16, 64)
				if err != nil || (ty == "i32" && c > 0xffffffff) {
					return "", bad
				}
				out = append(out, fmt.Sprintf("iconst:%d:%s:%d", r, ty, c))
			case ssaBin[op] != "" && len(args) == 2:
				v, err := ids(args)
				if err != nil {
					return "", err
				}
				out = append(out, fmt.Sprintf("%s:%d:%s:%d:%d", ssaBin[op], r, ty, v[0], v[1]))
			case op == "Icmp" && len(args) == 3 && ssaCond[args[0]]:
				v, err := ids(args[1:])
				if err != nil {
					return "", err
				}
				oty, ok := tyOf(v[0])
				if !ok {
					return "", fmt.Errorf("line %q: operand without a definition", l)
				}
				out = append(out, fmt.Sprintf("icmp:%d:%s:%s:%d:%d", r, oty, args[0], v[0], v[1]))
			case op == "Select" && len(args) == 3:
				v, err := ids(args)
				if err != nil {
					return "", err
				}
				out = append(out, fmt.Sprintf("select:%d:%s:%d:%d:%d", r, ty, v[0], v[1], v[2]))
			case ssaUn[op] != "" && len(args) == 1:
				v, err := ids(args)
				if err != nil {
					return "", err
				}
				out = append(out, fmt.Sprintf("%s:%d:%s:%d", ssaUn[op], r, ty, v[0]))
			case (op == "SExtend" || op == "UExtend") && len(args) == 2 && args[1] == "32->64" && ty == "i64":
				v, err := ids(args[:1])
				if err != nil {
					return "", err
				}
				out = append(out, fmt.Sprintf("%s:%d:i64:%d", strings.ToLower(op), r, v[0]))
			case ssaDiv[op] != "" && len(args) == 2:
				v, err := ids(args)
				if err != nil {
					return "", err
				}
				out = append(out, fmt.Sprintf("%s:%d:%s:%d:%d:0", ssaDiv[op], r, ty, v[0], v[1]))
			default:
				return "", bad
			}
		}
	}
	if needRet {
		out = append(out, fmt.Sprintf("B%d:%d", retBlkID, ninstr))
		var vs []int
		for k, t := range results {
			out = append(out, fmt.Sprintf("P%d:%s", maxID+1+k, t))
			vs = append(vs, maxID+1+k)
		}
		out = append(out, "ret:"+joinInts(vs))
	}
	keys := make([]int, 0, len(aliases))
	for d := range aliases {
		keys = append(keys, d)
	}
	sort.Ints(keys)
	for _, d := range keys {
		out = append(out, fmt.Sprintf("A%d:%d", d, aliases[d]))
	}
	return strings.Join(out, " "), nil
}

func aliasText(al map[int]int) string {
	if len(al) == 0 {
		return "-"
	}
	keys := make([]int, 0, len(al))
	for d := range al {
		keys = append(keys, d)
	}
	sort.Ints(keys)
	s := make([]string, len(keys))
	for k, d := range keys {
		s[k] = fmt.Sprintf("%d:%d", d, al[d])
	}
	return strings.Join(s, ",")
}

func parseAliasText(s string) map[int]int {
	out := map[int]int{}
	if s == "-" || s == "" {
		return out
	}
	for _, e := range strings.Split(s, ",") {
		d, t, ok := strings.Cut(e, ":")
		di, err1 := strconv.Atoi(d)
		ti, err2 := strconv.Atoi(t)
		if !ok || err1 != nil || err2 != nil {
			hx.Fatal("alias text %q", s)
		}
		out[di] = ti
	}
	return out
}

// ---------------------------------------------------------------- -mutate: perturb the real side

func mutateLines(lines []string) ([]string, bool) {
	out := append([]string(nil), lines...)
	switch *mutate {
	case 1:
		for k, l := range out {
			if lhs, rhs, ok := strings.Cut(l, " = Isub "); ok {
				if a, b, ok := strings.Cut(rhs, ", "); ok && a != b {
					out[k] = lhs + " = Isub " + b + ", " + a
					return out, true
				}
			}
		}
	case 2:
		for k, l := range out {
			if m := headerRe.FindStringSubmatch(l); m != nil && m[1] != "0" && strings.Contains(m[2], ",") {
				i := strings.LastIndex(m[2], ",")
				out[k] = strings.Replace(l, "("+m[2]+")", "("+m[2][:i]+")", 1)
				return out, true
			}
		}
	case 3:
		for k, l := range out {
			if strings.HasPrefix(l, "Brz ") {
				out[k] = "Brnz " + l[4:]
				return out, true
			}
			if strings.HasPrefix(l, "Brnz ") {
				out[k] = "Brz " + l[5:]
				return out, true
			}
		}
	case 4:
		for k, l := range out {
			if strings.HasPrefix(l, "Jump blk") && strings.Contains(l, ", ") {
				out[k] = l[:strings.LastIndex(l, ", ")]
				return out, true
			}
		}
	case 5:
		for k, l := range out {
			if strings.Contains(l, " = Iconst_") {
				j := strings.LastIndex(l, "0x")
				c, err := strconv.ParseUint(l[j+2:], 16, 64)
				if err != nil {
					continue
				}
				out[k] = l[:j] + "0x" + strconv.FormatUint(c^1, 16)
				return out, true
			}
		}
	}
	return out, false
}

// ---------------------------------------------------------------- the check of one function

type input struct {
	Fn   string   `json:"fn"`
	Args []string `json:"args,omitempty"`
}

type job struct {
	f       *fnDef
	args    [][]uint64
	hand    bool
	index   int
	verbose bool
	enum    bool
}

type worker struct {
	orc     *hx.Oracle
	askTime map[string]float64
}

func (w *worker) ask(line string) string {
	t0 := time.Now()
	a := w.orc.Ask(line)
	fs := strings.Fields(line)
	w.askTime[fs[0]+" "+fs[1]] += time.Since(t0).Seconds()
	return a
}

func argsText(as []uint64) string {
	if len(as) == 0 {
		return "-"
	}
	s := make([]string, len(as))
	for k, a := range as {
		s[k] = strconv.FormatUint(a, 16)
	}
	return strings.Join(s, ",")
}

func firstDiff(a, b []string) int {
	for k := 0; k < len(a) || k < len(b); k++ {
		if k >= len(a) || k >= len(b) || a[k] != b[k] {
			return k
		}
	}
	return -1
}

var handRejected int
var handMu sync.Mutex

func (w *worker) check(j *job) {
	f := j.f
	text := f.text()
	allArgs := make([]string, len(j.args))
	for k, a := range j.args {
		allArgs[k] = argsText(a)
	}
	in := input{Fn: text, Args: allArgs}
	violate := func(kind, sig, what string, exp, act any) {
		rep.Violate(hx.Violation{Kind: kind, Signature: sig, What: what, Input: in, Expected: exp, Actual: act})
		if j.verbose {
			fmt.Printf("VIOLATION %s: %s\n  expected: %v\n  actual:   %v\n", sig, what, exp, act)
		}
	}

	m, err := decodeValidate(f)
	if err != nil {
		if j.enum {
			rep.Count("enum:rejected-by-validator")
			return
		}
		rep.Count("gen:rejected-by-validator")
		if j.hand || j.verbose {
			fmt.Fprintf(os.Stderr, "rejected by the real validator: %s\n  %v\n", text, err)
		}
		if j.hand {
			handMu.Lock()
			handRejected++
			handMu.Unlock()
		}
		return
	}
	rep.Case(text)
	if j.enum {
		rep.Count("enum:functions")
	} else {
		countFn(f)
	}
	bparams := f.hasBlockParams()
	if j.verbose {
		fmt.Println("function:", text)
		fmt.Printf("body bytes: % x\n", m.CodeSection[0].Body)
	}

	// ---- the real front end (a hang of the real code - e.g. a cycle in the alias table - must not hang the check)
	done := make(chan struct{})
	go func() {
		select {
		case <-done:
		case <-time.After(60 * time.Second):
			violate("impl-violation", "C01:frontcf-real-code-hangs", "the real front end / alias resolution / RunPasses did not finish within 60 s on this function", "termination", "timeout")
			rep.Note("aborted: the real code hangs on %s", text)
			rep.Write(w.orc)
			os.Exit(1)
		}
	}()
	defer close(done)
	b, realText, p := lowerReal(m)
	if p != nil {
		violate("correspondence", "C01:frontcf-front-end-panics", fmt.Sprintf("the real front end panics on a function the real validator accepts: %v", p), "no panic", fmt.Sprint(p))
		return
	}
	realLines := canonLines(realText)
	if *mutate != 0 {
		var done bool
		if realLines, done = mutateLines(realLines); done {
			rep.Count("mutate:applied")
		}
	}
	realCanon := strings.Join(realLines, " | ")
	for _, l := range realLines {
		if headerRe.MatchString(l) {
			rep.Count("real:blocks")
			if strings.Contains(l, ",blk") {
				rep.Count("real:blocks-with-several-predecessors")
			}
		}
	}

	// ---- 1. correspondence of the text
	model := w.ask("c01frontcf lower " + text)
	if j.verbose {
		fmt.Println("real :", realCanon)
		fmt.Println("model:", model)
	}
	textEqual := model == realCanon
	if !textEqual {
		k := firstDiff(strings.Split(model, " | "), realLines)
		violate("correspondence", "C01:frontcf-model-differs",
			fmt.Sprintf("Format() of the real front end and `c01frontcf lower` differ, first at line %d", k), model, realCanon)
	} else {
		rep.Count("text:equal")
	}
	var realAl map[int]int
	if hookAvailable {
		realAl = realAliases(b)
		ma := w.ask("c01frontcf aliases " + text)
		ra := aliasText(realAl)
		if len(realAl) > 0 {
			rep.Count("real:functions-with-aliases")
		}
		for range realAl {
			rep.Count("real:alias-entries")
		}
		if ma != ra {
			violate("correspondence", "C01:frontcf-alias-table-differs",
				"the alias table of the real builder after LowerToSSA (resolved) and `c01frontcf aliases` differ", ma, ra)
		} else {
			rep.Count("aliases:equal")
		}
	}
	if !hookAvailable {
		// without the hook the real alias table cannot be read: the model's table stands in for it in the conversion
		// of the real text below (weaker: the table itself is then not compared)
		realAl = parseAliasText(w.ask("c01frontcf aliases " + text))
		if len(realAl) > 0 {
			rep.Count("real:alias-table-taken-from-the-model(no-hook)")
		}
	}
	// wellTyped looks at live code only and has no block parameters: 1, or 0 when a block type has parameters
	specOK := true
	if a := w.ask("c01frontcf wt " + text); a != "1" {
		specOK = false
		if !bparams {
			violate("correspondence", "C01:frontcf-wellTyped-rejects-valid", "the model's wellTyped rejects a function without block parameters that the real validator accepts", "1", a)
		} else {
			rep.Count("wt:0(block-params)")
		}
	} else {
		rep.Count("wt:1")
	}
	var ds *fnDef
	if !specOK {
		ds = desugar(f)
		if _, err := decodeValidate(ds); err != nil {
			hx.Fatal("the desugared function is rejected by the real validator: %v\n  original:  %s\n  desugared: %s", err, text, ds.text())
		}
		if a := w.ask("c01frontcf wt " + ds.text()); a != "1" {
			hx.Fatal("the desugared function is not wellTyped for the model: %s", ds.text())
		}
	}
	if specOK {
		// the checker whose success implies the refinement theorem for this function (frontcf_refines_validated)
		if a := w.ask("c01frontcf validate " + text); a != "1" {
			violate("correspondence", "C01:frontcf-validate-rejects", "FrontendCFCheck.validate rejects the model's lowering of a well-typed function: the refinement theorem does not apply to it", "1", a)
		} else {
			rep.Count("validate:1")
		}
	}
	if a := w.ask("c01frontcf wf " + text); a != "1" {
		violate("correspondence", "C01:frontcf-output-not-wellFormed", "SsaPass.wellFormed rejects the model's lowering of a valid function", "1", a)
	} else {
		rep.Count("wf:model-output-wellFormedA")
	}
	if j.hand || j.index%4 == 0 {
		// SsaPass.wellFormed itself (certificate for defined values only) accepts exactly the outputs without aliases
		raw := w.ask("c01frontcf wfraw " + text)
		rep.Count("wfraw:" + raw)
		if hookAvailable && (raw == "1") != (len(realAl) == 0) {
			violate("correspondence", "C01:frontcf-wellFormed-vs-aliases", "SsaPass.wellFormed of the model's output should fail exactly when findValue recorded an alias", fmt.Sprint(len(realAl) == 0), raw)
		}
	}
	if f.straightLine() {
		rep.Count("sl:asked")
		if a := w.ask("c01frontcf sl " + text); a != "1" {
			violate("correspondence", "C01:frontcf-not-conservative", "`lowerCF` / `format` differ from `lowerSL` / `FrontendSL.format` on a straight-line function", "1", a)
		}
	}

	// ---- 2. semantics of the REAL output
	realTok, err := toTokens(realLines, realAl, f.results)
	if err != nil {
		rep.Count("real:unconvertible")
		violate("impl-violation", "C01:frontcf-real-output-unconvertible",
			"the REAL front end's output cannot be read as a function of the SSA fragment (a use of a value that has neither a definition nor an alias, an unknown instruction, …): "+err.Error()+"; real output: "+realCanon, "convertible", err.Error())
		realTok = ""
	}
	optTok := ""
	optText, p := runPassesReal(b)
	if p != nil {
		violate("correspondence", "C01:frontcf-runpasses-panics", fmt.Sprintf("the real RunPasses panics on the front end's output: %v", p), "no panic", fmt.Sprint(p))
	} else {
		optLines := canonLines(optText)
		var optAl map[int]int
		if hookAvailable {
			optAl = realAliases(b)
		} else {
			optAl = realAl
		}
		t, err := toTokens(optLines, optAl, f.results)
		if err != nil {
			rep.Count("real:opt-unconvertible")
			if j.verbose || j.hand {
				fmt.Fprintln(os.Stderr, "real output after RunPasses not convertible:", err, "\n", strings.Join(optLines, " | "))
			}
		} else {
			optTok = t
			rep.Count("real:opt-converted")
		}
		if j.verbose {
			fmt.Println("real after RunPasses:", strings.Join(optLines, " | "))
		}
	}
	if j.verbose {
		fmt.Println("real tokens:", realTok)
		fmt.Println("opt  tokens:", optTok)
	}
	if realTok != "" {
		if a := w.ask("c01frontcf wfssa " + realTok); a != "1" {
			violate("impl-violation", "C01:frontcf-real-output-not-wellFormed",
				"SsaPass.wellFormed rejects the REAL front end's output (a use without a definition, a type mismatch, a branch with the wrong number of arguments, …): "+realTok, "1", a)
		}
	}
	if optTok != "" && (j.hand || j.index%4 == 0) {
		if a := w.ask("c01frontcf wfssa " + optTok); a != "1" {
			violate("impl-violation", "C01:frontcf-real-optimized-output-not-wellFormed",
				"SsaPass.wellFormed rejects the REAL front end's output after the REAL RunPasses: "+optTok, "1", a)
		}
	}

	for _, av := range allArgs {
		ans := w.ask(fmt.Sprintf("c01frontcf run %s %s %s %s %s", tysText(f.params), tysText(f.results), tysText(f.locals), av, f.bodyText()))
		parts := strings.Fields(ans)
		if len(parts) != 3 || !strings.HasPrefix(parts[0], "spec=") || !strings.HasPrefix(parts[1], "ssa=") || !strings.HasPrefix(parts[2], "opt=") {
			hx.Fatal("c01frontcf run answered %q", ans)
		}
		spec, mssa, mopt := parts[0][5:], parts[1][4:], parts[2][4:]
		ref := spec
		if !specOK {
			// the reference semantics has no block parameters: it is run on the DESUGARED function (parameters saved
			// in fresh locals), which the real validator accepted above
			a2 := w.ask(fmt.Sprintf("c01frontcf run %s %s %s %s %s", tysText(ds.params), tysText(ds.results), tysText(ds.locals), av, ds.bodyText()))
			p2 := strings.Fields(a2)
			if len(p2) != 3 || !strings.HasPrefix(p2[0], "spec=") {
				hx.Fatal("c01frontcf run answered %q", a2)
			}
			ref = p2[0][5:]
			spec = ref
			rep.Count("out:spec-of-desugared(block-params)")
		}
		outcome := "out:" + ref
		if strings.HasPrefix(ref, "ok:") {
			outcome = "out:values"
		}
		rep.Count(outcome)
		if ref == "exhausted" && os.Getenv("HFCF_DEBUG") != "" {
			fmt.Fprintln(os.Stderr, "EXHAUSTED", av, text)
		}
		if j.verbose {
			fmt.Printf("args %s: %s\n", av, ans)
		}
		if ref != mssa || ref != mopt {
			violate("correspondence", "C01:frontcf-model-semantics-differs",
				"the reference semantics and the Lean semantics of the MODEL's lowering (plain / after the model's passes) differ on args "+av, "spec="+spec, ans)
		}
		if realTok != "" {
			o := w.ask("c01frontcf runssa " + av + " " + realTok)
			if j.verbose {
				fmt.Printf("args %s: real ssa: %s\n", av, o)
			}
			if o != ref {
				violate("impl-violation", "C01:frontcf-real-ssa-differs-from-spec",
					"the Lean SSA semantics of the REAL front end's output differs from the reference semantics of the Wasm function on args "+av+"; real output: "+realCanon, ref, o)
			}
		}
		if optTok != "" {
			o := w.ask("c01frontcf runssa " + av + " " + optTok)
			if j.verbose {
				fmt.Printf("args %s: real ssa after RunPasses: %s\n", av, o)
			}
			if o != ref {
				violate("impl-violation", "C01:frontcf-real-optimized-ssa-differs-from-spec",
					"the Lean SSA semantics of the REAL front end's output after the REAL RunPasses differs from the reference semantics on args "+av+"; tokens: "+optTok, ref, o)
			}
		}
	}
}

// ---------------------------------------------------------------- distribution

func countFn(f *fnDef) {
	depth, maxDepth := 0, 0
	for _, i := range f.body {
		rep.Count("in:" + i.name)
		switch i.name {
		case "block", "loop", "if":
			depth++
			if depth > maxDepth {
				maxDepth = depth
			}
			if len(i.bp) > 0 {
				rep.Count("in:" + i.name + "-with-params")
			}
			if len(i.br) > 1 {
				rep.Count("in:" + i.name + "-multi-result")
			}
		case "end":
			depth--
		}
	}
	for k, n := range f.stats {
		for ; n > 0; n-- {
			rep.Count("gen:" + k)
		}
	}
	if f.hasBlockParams() {
		rep.Count("fn:has-block-params")
	}
	if f.straightLine() {
		rep.Count("fn:straight-line")
	}
	rep.Count(fmt.Sprintf("nesting:%d", maxDepth))
	rep.Count(fmt.Sprintf("params:%d", len(f.params)))
	rep.Count(fmt.Sprintf("results:%d", len(f.results)))
	rep.Count(fmt.Sprintf("body-length:%03d+", len(f.body)/20*20))
}

// ---------------------------------------------------------------- main

var boundary = []uint64{0, 1, ^uint64(0), 1 << 63, 1<<63 - 1}

func boundaryOf(t vt, k int) uint64 {
	switch k {
	case 3:
		return 1 << (t.bits() - 1)
	case 4:
		return 1<<(t.bits()-1) - 1
	}
	return boundary[k] & t.mask()
}

func handArgs(f *fnDef, gen func() []uint64) [][]uint64 {
	switch len(f.params) {
	case 0:
		return [][]uint64{nil}
	case 1:
		var out [][]uint64
		for a := 0; a < 5; a++ {
			out = append(out, []uint64{boundaryOf(f.params[0], a)})
		}
		return append(out, []uint64{3}, []uint64{5}, gen())
	}
	return [][]uint64{gen(), gen(), gen(), gen(), gen(), gen()}
}

func parseArgs(s string, ps []vt) ([]uint64, error) {
	if s == "-" {
		if len(ps) != 0 {
			return nil, fmt.Errorf("args %q for %d parameters", s, len(ps))
		}
		return nil, nil
	}
	parts := strings.Split(s, ",")
	if len(parts) != len(ps) {
		return nil, fmt.Errorf("args %q for %d parameters", s, len(ps))
	}
	out := make([]uint64, len(parts))
	for k, p := range parts {
		v, err := strconv.ParseUint(p, 16, 64)
		if err != nil || v&^ps[k].mask() != 0 {
			return nil, fmt.Errorf("argument %q", p)
		}
		out[k] = v
	}
	return out, nil
}

func replayFile(path string) {
	raw, err := os.ReadFile(path)
	if err != nil {
		hx.Fatal("%v", err)
	}
	var in input
	json.Unmarshal(raw, &in)
	if in.Fn == "" {
		var full struct {
			Violations []struct {
				Input input `json:"input"`
			} `json:"violations"`
		}
		json.Unmarshal(raw, &full)
		if len(full.Violations) > 0 {
			in = full.Violations[0].Input
		}
	}
	if in.Fn == "" {
		hx.Fatal("replay: no function text in %s", path)
	}
	f, err := parseFnText(in.Fn)
	if err != nil {
		hx.Fatal("replay: %v", err)
	}
	r := hx.Rand()
	var args [][]uint64
	for _, a := range in.Args {
		v, err := parseArgs(a, f.params)
		if err != nil {
			hx.Fatal("replay: %v", err)
		}
		args = append(args, v)
	}
	if len(args) == 0 {
		args = handArgs(f, func() []uint64 { return genArgs(r, f.params) })
	}
	w := &worker{orc: hx.StartOracle(), askTime: map[string]float64{}}
	defer w.orc.Close()
	w.check(&job{f: f, args: args, hand: true, verbose: true})
	rep.Write(w.orc)
}

func finish(code int) {
	if handRejected > 0 {
		hx.Fatal("%d hand-written cases are rejected by the real validator (generator bug)", handRejected)
	}
	if len(rep.Violations) > 0 {
		code = 1
	}
	os.Exit(code)
}

func main() {
	n := flag.Int("n", 0, "number of generated functions (0 = tier default)")
	dump := flag.Bool("dump", false, "print every generated function")
	enumN = flag.Int("enum", -1, "exhaustive enumeration of small functions up to this many instructions (-1 = tier default: 4 / 6; 0 = none)")
	nworkers := flag.Int("workers", 0, "worker goroutines, one oracle process each (0 = min(8, GOMAXPROCS))")
	flag.Parse()
	if err := checkOpcodeTable(); err != nil {
		hx.Fatal("%v", err)
	}
	rep = hx.NewReport("C01", "front-end tie on structured control flow: generated well-typed functions (0..3 params, 0..2 results, 0..5 locals of i32/i64; nested block / loop / if with or without else, block types with 0..2 results and - in a quarter of the functions - parameters taken from the stack; br and br_if to every enclosing label incl. the function's and loop headers, backward branches bounded by a reserved counter local so that every call terminates; return, unreachable, dead code after them incl. nested blocks; the straight-line integer instructions of hfront in between, locals written in branches and loop bodies and read after the joins) plus a hand-written corpus, plus the EXHAUSTIVE enumeration of all valid functions of at most 4 (quick) / 6 (thorough) instructions over a 21-token alphabet with one i32 parameter, local and result (enum.go); each is encoded as a real module, accepted by the REAL decoder+validator, lowered by the REAL frontend.Compiler.LowerToSSA; Format() == `c01frontcf lower` line by line (block ids, parameters, predecessor lists, value ids, branch arguments); REAL alias table == model's; wt / wf accept; Lean SSA semantics of the REAL output (before and after the REAL RunPasses) == reference semantics == model's lowering (plain / optimised) on 3 argument vectors; functions with block parameters: the reference semantics is run on the desugared function (parameters saved in fresh locals); distinct = distinct function texts")
	if *mutate != 0 {
		rep.Note("SELF-TEST: -mutate %d perturbs the real output; violations are expected", *mutate)
	}
	if !hookAvailable {
		rep.Note("built without the verif tag: the real alias table is not read (the model's table is used to interpret the real text)")
	}
	if *hx.Replay != "" {
		replayFile(*hx.Replay)
		finish(0)
	}

	nw := *nworkers
	if nw <= 0 {
		nw = min(8, runtime.GOMAXPROCS(0))
	}
	jobs := make(chan *job, 4*nw)
	workers := make([]*worker, nw)
	var wg sync.WaitGroup
	for k := range workers {
		w := &worker{orc: hx.StartOracle(), askTime: map[string]float64{}}
		workers[k] = w
		wg.Add(1)
		go func() {
			defer wg.Done()
			for j := range jobs {
				w.check(j)
			}
		}()
	}

	r := hx.Rand()
	idx := 0
	for _, c := range corpus() {
		f, err := parseFnText(c)
		if err != nil {
			hx.Fatal("corpus %q: %v", c, err)
		}
		rep.Count("corpus")
		jobs <- &job{f: f, args: handArgs(f, func() []uint64 { return genArgs(r, f.params) }), hand: true, index: idx}
		idx++
	}
	// exhaustive small scope: every valid function of at most enumN instructions over a small alphabet (enum.go)
	en := *enumN
	if en < 0 {
		en = 4
		if hx.Thorough() {
			en = 6
		}
	}
	if en > 0 {
		enumFns(en, func(t string) {
			f, err := parseFnText(t)
			if err != nil {
				hx.Fatal("enumeration %q: %v", t, err)
			}
			rep.Count("enum:candidates")
			jobs <- &job{f: f, args: [][]uint64{{0}, {1}, {3}}, index: idx, enum: true}
			idx++
		})
		rep.Note("exhaustive enumeration of the functions with at most %d instructions over the alphabet of enum.go", en)
	}
	total := 3000
	if hx.Thorough() {
		total = 300000
	}
	if *n > 0 {
		total = *n
	}
	for k := 0; k < total; k++ {
		f := genFn(r)
		if *dump {
			fmt.Println(f.text())
		}
		if k < 6 {
			rep.Sample(f.text())
		}
		jobs <- &job{f: f, args: [][]uint64{genArgs(r, f.params), genArgs(r, f.params), genArgs(r, f.params)}, index: idx}
		idx++
	}
	close(jobs)
	wg.Wait()

	sum := &hx.Oracle{}
	times := map[string]float64{}
	for _, w := range workers {
		sum.N += w.orc.N
		for k, v := range w.askTime {
			times[k] += v
		}
		w.orc.Close()
	}
	keys := make([]string, 0, len(times))
	for k := range times {
		keys = append(keys, k)
	}
	sort.Strings(keys)
	for _, k := range keys {
		rep.Note("oracle time %s: %.1fs (summed over %d workers)", k, times[k], nw)
	}
	rep.Write(sum)
	finish(0)
}
