package main

// Exhaustive enumeration of SMALL functions: every valid instruction sequence of at most N instructions over a small
// alphabet (one i32 parameter, one i32 local, result i32; local.get/set/tee, a constant, add, drop, block / loop / if
// with no or one result, else, end, br and br_if to depth 0..2, return, unreachable).  All values are i32, so validity is
// a matter of stack heights; the enumeration prunes with the validator's height discipline (polymorphic after a
// terminator, where at most `maxDead` further instructions are generated per frame) and the REAL validator has the last
// word.  Every function found goes through the same check as the random ones: small-scope evidence for the tie of the
// model AND for the hypotheses `validate` / `wellFormedA` of the theorems.

type enFrame struct {
	kind    byte // 'f' function, 'b' block, 'l' loop, 'i' if (then arm), 'e' if (else arm)
	base    int  // stack height at entry
	arity   int  // results
	dead    bool
	deadLen int
	hadElse bool
}

const maxDead = 2

type enumerator struct {
	max  int
	toks []string
	emit func(body string)
	n    int
}

func (e *enumerator) labelArity(frames []enFrame, d int) (int, bool) {
	if d >= len(frames) {
		return 0, false
	}
	fr := frames[len(frames)-1-d]
	if fr.kind == 'l' {
		return 0, true
	}
	return fr.arity, true
}

// rec: frames (innermost last), h = current stack height (absolute)
func (e *enumerator) rec(frames []enFrame, h int) {
	top := &frames[len(frames)-1]
	// close the function here?
	if len(frames) == 1 && (top.dead || h == top.base+top.arity) {
		e.emit(joinToks(e.toks))
	}
	if len(e.toks) >= e.max {
		return
	}
	avail := h - top.base // values of the current frame
	live := !top.dead
	can := func(need int) bool { return top.dead || avail >= need }
	push := func(tok string, dh int, f func()) {
		if top.dead {
			if top.deadLen >= maxDead {
				return
			}
			top.deadLen++
			defer func() { top.deadLen-- }()
		}
		e.toks = append(e.toks, tok)
		nh := h + dh
		if nh < top.base {
			nh = top.base // polymorphic stack: pops from below are free
		}
		if f != nil {
			f()
		} else {
			e.rec(frames, nh)
		}
		e.toks = e.toks[:len(e.toks)-1]
	}
	_ = live
	// straight-line
	push("local.get:0", 1, nil)
	push("local.get:1", 1, nil)
	push("i32.const:1", 1, nil)
	if can(1) {
		push("local.set:1", -1, nil)
		push("local.tee:1", 0, nil)
		push("drop", -1, nil)
	}
	if can(2) {
		push("i32.add", -1, nil)
	}
	// terminators
	term := func(tok string, need int) {
		if !can(need) {
			return
		}
		push(tok, 0, func() {
			save := *top
			top.dead = true
			e.rec(frames, top.base)
			*top = save
		})
	}
	term("unreachable", 0)
	term("return", 1)
	for d := 0; d < 3; d++ {
		if ar, ok := e.labelArity(frames, d); ok {
			term("br:"+string(rune('0'+d)), ar)
			if can(ar + 1) {
				push("br_if:"+string(rune('0'+d)), -1, nil)
			}
		}
	}
	// nested constructs (not inside dead code beyond the budget: counted by push)
	for _, ar := range []int{0, 1} {
		bt := "->-"
		if ar == 1 {
			bt = "->i32"
		}
		for _, kind := range []byte{'b', 'l'} {
			name := "block:"
			if kind == 'l' {
				name = "loop:"
			}
			k, a := kind, ar
			push(name+bt, 0, func() {
				nh := h
				if top.dead {
					nh = top.base
				}
				e.rec(append(frames, enFrame{kind: k, base: nh, arity: a, dead: top.dead, deadLen: top.deadLen}), nh)
			})
		}
		if can(1) {
			a := ar
			push("if:"+bt, -1, func() {
				nh := h - 1
				if nh < top.base {
					nh = top.base
				}
				e.rec(append(frames, enFrame{kind: 'i', base: nh, arity: a, dead: top.dead, deadLen: top.deadLen}), nh)
			})
		}
	}
	// else / end of the current construct
	if len(frames) > 1 && (top.dead || h == top.base+top.arity) {
		outer := frames[:len(frames)-1]
		fr := *top
		if fr.kind == 'i' {
			e.toks = append(e.toks, "else")
			nf := fr
			nf.kind, nf.hadElse = 'e', true
			nf.dead, nf.deadLen = outer[len(outer)-1].dead, outer[len(outer)-1].deadLen
			e.rec(append(append([]enFrame{}, outer...), nf), fr.base)
			e.toks = e.toks[:len(e.toks)-1]
		}
		if !(fr.kind == 'i' && fr.arity > 0) { // an if with a result needs its else
			e.toks = append(e.toks, "end")
			e.rec(append([]enFrame{}, outer...), fr.base+fr.arity)
			e.toks = e.toks[:len(e.toks)-1]
		}
	}
}

func joinToks(ts []string) string {
	s := ""
	for k, t := range ts {
		if k > 0 {
			s += " "
		}
		s += t
	}
	return s
}

// enumFns calls emit with the text of every enumerated function with at most n instructions
func enumFns(n int, emit func(text string)) {
	e := &enumerator{max: n}
	e.emit = func(body string) {
		if body == "" {
			emit("i32 i32 i32")
		} else {
			emit("i32 i32 i32 " + body)
		}
	}
	// the function frame: the body must leave one i32
	e.rec([]enFrame{{kind: 'f', base: 0, arity: 1}}, 0)
}
