//go:build verif

package main

import "github.com/tetratelabs/wazero/internal/engine/wazevo/ssa"

// built with the verif tag against a tree that has internal/engine/wazevo/ssa/verif_passes.go (hook 3b90bf9)
const hookAvailable = true

// realAliases: every value id whose alias chain (valuesInfo[·].alias, followed by resolveAlias) ends elsewhere
func realAliases(b ssa.Builder) map[int]int {
	out := map[int]int{}
	n := len(b.ValuesInfo())
	for id := 0; id < n; id++ {
		r := ssa.VerifResolveAlias(b, ssa.Value(id))
		if int(r.ID()) != id {
			out[id] = int(r.ID())
		}
	}
	return out
}
