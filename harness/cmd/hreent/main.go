// hreent: re-entrancy matrix for C04 / C01 — state shared between linked instances must be observed
// identically on both engines also when it changes *during* a call made by the function that reads it.
//
// Module "lib" (B) exports a funcref table, a mutable global, a memory and relay functions
// `callK` = call_indirect tab[K]; module "app" (A) imports them, defines its own mutable global (and in
// one variant its own memory), and puts its `bump_X` functions into the shared table.  For every kind
// of state X ∈ {own global, imported global, memory word, memory size} and every route R by which the
// callee can get back into A (imported relay function, call_indirect on the shared table, a local
// wrapper around the relay, a host function calling back an export of A, and the same inside a loop),
// A.run_X_R does:  X := 1;  read X (so that the compiler has it in a register / cached);  call via R
// (the callee ends up in A.bump_X, which adds 4);  read X again and return it.
// Expected by construction: 5 (memory size: pages + 1).  Tie C: the value equals the constructed
// expectation on both engines and the engines agree; the host API view (api.Global/api.Memory) agrees too.
package main

import (
	"context"
	"flag"
	"fmt"

	"github.com/tetratelabs/wazero"
	"github.com/tetratelabs/wazero/api"
	"github.com/tetratelabs/wazero/internal/testing/binaryencoding"
	"github.com/tetratelabs/wazero/internal/wasm"
	"github.com/tetratelabs/wazero/verifharness/hx"
	"github.com/tetratelabs/wazero/verifharness/wb"
)

var ctx = context.Background()

const nK = 4 // states: 0 own global, 1 imported global, 2 memory word, 3 memory size

func u32p(v uint32) *uint32 { return &v }

// lib: table (exported "tab"), global "bg", memory "mem", callK, and viaHostK (calls host.cbK)
func libModule() []byte {
	m := &wasm.Module{}
	m.TypeSection = []wasm.FunctionType{{}} // type 0: () -> ()
	for k := 0; k < nK; k++ {
		m.ImportSection = append(m.ImportSection, wasm.Import{Type: wasm.ExternTypeFunc, Module: "host", Name: fmt.Sprintf("cb%d", k), DescFunc: 0})
	}
	m.ImportFunctionCount = nK
	m.TableSection = []wasm.Table{{Min: nK, Max: u32p(nK), Type: wasm.RefTypeFuncref}}
	m.MemorySection = &wasm.Memory{Min: 1, Max: 8, IsMaxEncoded: true}
	m.GlobalSection = []wasm.Global{{Type: wasm.GlobalType{ValType: wasm.ValueTypeI32, Mutable: true}, Init: wasm.ConstantExpression{Opcode: wasm.OpcodeI32Const, Data: []byte{0}}}}
	m.ExportSection = []wasm.Export{{Name: "tab", Type: wasm.ExternTypeTable, Index: 0}, {Name: "mem", Type: wasm.ExternTypeMemory, Index: 0}, {Name: "bg", Type: wasm.ExternTypeGlobal, Index: 0}}
	for k := 0; k < nK; k++ {
		// callK: call_indirect tab[k]
		m.FunctionSection = append(m.FunctionSection, 0)
		m.CodeSection = append(m.CodeSection, wasm.Code{Body: wb.Cat(wb.I32Const(int32(k)), []byte{wasm.OpcodeCallIndirect, 0, 0}, []byte{wasm.OpcodeEnd})})
		m.ExportSection = append(m.ExportSection, wasm.Export{Name: fmt.Sprintf("call%d", k), Type: wasm.ExternTypeFunc, Index: uint32(nK + 2*k)})
		// viaHostK: call host.cbK
		m.FunctionSection = append(m.FunctionSection, 0)
		m.CodeSection = append(m.CodeSection, wasm.Code{Body: wb.Cat(wb.Call(uint32(k)), []byte{wasm.OpcodeEnd})})
		m.ExportSection = append(m.ExportSection, wasm.Export{Name: fmt.Sprintf("viahost%d", k), Type: wasm.ExternTypeFunc, Index: uint32(nK + 2*k + 1)})
	}
	return binaryencoding.EncodeModule(m)
}

const (
	routeImported = iota // call lib.callK (imported function)
	routeIndirect        // call_indirect on the shared table, slot nK+... holds lib? -> uses A's own slot directly
	routeWrapper         // local function that calls lib.callK
	routeHost            // lib.viahostK -> host.cbK -> A.bumpK through the API
	routeLoop            // routeImported inside a loop, summing the reads
	nRoutes
)

var routeNames = []string{"imported-relay", "call_indirect-shared-table", "local-wrapper", "host-callback", "imported-relay-in-loop"}
var stateNames = []string{"own-global", "imported-global", "memory-word", "memory-size"}

// app: imports lib.tab, lib.bg, lib.mem, lib.call0..3, lib.viahost0..3; own global g.
func appModule() []byte {
	m := &wasm.Module{}
	m.TypeSection = []wasm.FunctionType{{}, {Results: []wasm.ValueType{wasm.ValueTypeI32}}}
	imp := func(name string) {
		m.ImportSection = append(m.ImportSection, wasm.Import{Type: wasm.ExternTypeFunc, Module: "lib", Name: name, DescFunc: 0})
	}
	for k := 0; k < nK; k++ {
		imp(fmt.Sprintf("call%d", k))
	}
	for k := 0; k < nK; k++ {
		imp(fmt.Sprintf("viahost%d", k))
	}
	m.ImportFunctionCount = 2 * nK
	m.ImportSection = append(m.ImportSection,
		wasm.Import{Type: wasm.ExternTypeTable, Module: "lib", Name: "tab", DescTable: wasm.Table{Min: nK, Max: u32p(nK), Type: wasm.RefTypeFuncref}},
		wasm.Import{Type: wasm.ExternTypeMemory, Module: "lib", Name: "mem", DescMem: &wasm.Memory{Min: 1, Max: 8, IsMaxEncoded: true}},
		wasm.Import{Type: wasm.ExternTypeGlobal, Module: "lib", Name: "bg", DescGlobal: wasm.GlobalType{ValType: wasm.ValueTypeI32, Mutable: true}})
	m.ImportTableCount, m.ImportMemoryCount, m.ImportGlobalCount = 1, 1, 1
	// own global: index 1 (imported bg is 0)
	m.GlobalSection = []wasm.Global{{Type: wasm.GlobalType{ValType: wasm.ValueTypeI32, Mutable: true}, Init: wasm.ConstantExpression{Opcode: wasm.OpcodeI32Const, Data: []byte{0}}}}
	const gOwn, gImp = 1, 0
	addr := wb.I32Const(64)
	readX := func(x int) []byte {
		switch x {
		case 0:
			return wb.GlobalGet(gOwn)
		case 1:
			return wb.GlobalGet(gImp)
		case 2:
			return wb.Cat(addr, wb.MemArg(wasm.OpcodeI32Load, 2, 0))
		}
		return wb.MemorySize()
	}
	setX := func(x int) []byte { // X := 1 (memory size: nothing)
		switch x {
		case 0:
			return wb.Cat(wb.I32Const(1), wb.GlobalSet(gOwn))
		case 1:
			return wb.Cat(wb.I32Const(1), wb.GlobalSet(gImp))
		case 2:
			return wb.Cat(addr, wb.I32Const(1), wb.MemArg(wasm.OpcodeI32Store, 2, 0))
		}
		return nil
	}
	bumpX := func(x int) []byte { // X += 4 (memory size: grow by 1)
		switch x {
		case 0:
			return wb.Cat(wb.GlobalGet(gOwn), wb.I32Const(4), wb.Op(wasm.OpcodeI32Add), wb.GlobalSet(gOwn))
		case 1:
			return wb.Cat(wb.GlobalGet(gImp), wb.I32Const(4), wb.Op(wasm.OpcodeI32Add), wb.GlobalSet(gImp))
		case 2:
			return wb.Cat(addr, addr, wb.MemArg(wasm.OpcodeI32Load, 2, 0), wb.I32Const(4), wb.Op(wasm.OpcodeI32Add), wb.MemArg(wasm.OpcodeI32Store, 2, 0))
		}
		return wb.Cat(wb.I32Const(1), wb.MemoryGrow(), wb.Op(wasm.OpcodeDrop))
	}
	nf := uint32(2 * nK) // next function index
	addFn := func(ti uint32, locals []wasm.ValueType, body []byte, export string) uint32 {
		m.FunctionSection = append(m.FunctionSection, ti)
		m.CodeSection = append(m.CodeSection, wasm.Code{LocalTypes: locals, Body: append(body, wasm.OpcodeEnd)})
		if export != "" {
			m.ExportSection = append(m.ExportSection, wasm.Export{Name: export, Type: wasm.ExternTypeFunc, Index: nf})
		}
		nf++
		return nf - 1
	}
	var bump, wrap [nK]uint32
	for x := 0; x < nK; x++ {
		bump[x] = addFn(0, nil, bumpX(x), fmt.Sprintf("bump%d", x))
	}
	for x := 0; x < nK; x++ {
		wrap[x] = addFn(0, nil, wb.Call(uint32(x)), "") // calls imported lib.callX
	}
	for x := 0; x < nK; x++ {
		for r := 0; r < nRoutes; r++ {
			var call []byte
			switch r {
			case routeImported, routeLoop:
				call = wb.Call(uint32(x))
			case routeIndirect:
				call = wb.Cat(wb.I32Const(int32(x)), []byte{wasm.OpcodeCallIndirect, 0, 0})
			case routeWrapper:
				call = wb.Call(wrap[x])
			case routeHost:
				call = wb.Call(uint32(nK + x))
			}
			var body []byte
			if r == routeLoop {
				// local0 = counter, local1 = sum ; three iterations: sum of the reads after each call
				body = wb.Cat(setX(x), wb.I32Const(3), wb.LocalSet(0),
					[]byte{wasm.OpcodeLoop, 0x40},
					readX(x), wb.Op(wasm.OpcodeDrop), call, readX(x), wb.LocalGet(1), wb.Op(wasm.OpcodeI32Add), wb.LocalSet(1),
					wb.LocalGet(0), wb.I32Const(1), wb.Op(wasm.OpcodeI32Sub), wb.LocalTee(0), []byte{wasm.OpcodeBrIf, 0},
					[]byte{wasm.OpcodeEnd}, wb.LocalGet(1))
				addFn(1, []wasm.ValueType{wasm.ValueTypeI32, wasm.ValueTypeI32}, body, fmt.Sprintf("run_%d_%d", x, r))
				continue
			}
			// read X twice around the call; the first read is used (added to the result * 0) so it is not dead
			body = wb.Cat(setX(x), readX(x), wb.LocalSet(0), call, readX(x), wb.LocalGet(0), wb.I32Const(0), wb.Op(wasm.OpcodeI32Mul), wb.Op(wasm.OpcodeI32Add))
			addFn(1, []wasm.ValueType{wasm.ValueTypeI32}, body, fmt.Sprintf("run_%d_%d", x, r))
		}
	}
	// element segment: tab[x] = bump_x
	var init []wasm.Index
	for x := 0; x < nK; x++ {
		init = append(init, bump[x])
	}
	m.ElementSection = []wasm.ElementSegment{{OffsetExpr: wasm.ConstantExpression{Opcode: wasm.OpcodeI32Const, Data: []byte{0}}, Init: init, Type: wasm.RefTypeFuncref, Mode: wasm.ElementModeActive}}
	m.ExportSection = append(m.ExportSection, wasm.Export{Name: "g", Type: wasm.ExternTypeGlobal, Index: gOwn})
	return binaryencoding.EncodeModule(m)
}

type world struct {
	rt  wazero.Runtime
	app api.Module
	lib api.Module
}

func build(engine string) (*world, error) {
	var rc wazero.RuntimeConfig
	if engine == "compiler" {
		rc = wazero.NewRuntimeConfigCompiler()
	} else {
		rc = wazero.NewRuntimeConfigInterpreter()
	}
	rt := wazero.NewRuntimeWithConfig(ctx, rc)
	w := &world{rt: rt}
	hb := rt.NewHostModuleBuilder("host")
	for k := 0; k < nK; k++ {
		k := k
		hb = hb.NewFunctionBuilder().WithGoModuleFunction(api.GoModuleFunc(func(c context.Context, _ api.Module, _ []uint64) {
			if _, err := w.app.ExportedFunction(fmt.Sprintf("bump%d", k)).Call(c); err != nil {
				panic(err)
			}
		}), nil, nil).Export(fmt.Sprintf("cb%d", k))
	}
	if _, err := hb.Instantiate(ctx); err != nil {
		return nil, err
	}
	var err error
	if w.lib, err = rt.InstantiateWithConfig(ctx, libModule(), wazero.NewModuleConfig().WithName("lib")); err != nil {
		return nil, fmt.Errorf("lib: %w", err)
	}
	if w.app, err = rt.InstantiateWithConfig(ctx, appModule(), wazero.NewModuleConfig().WithName("app")); err != nil {
		return nil, fmt.Errorf("app: %w", err)
	}
	return w, nil
}

func main() {
	flag.Parse()
	rep := hx.NewReport("C04", "re-entrancy matrix: state kinds {own global, imported global, memory word, memory size} x routes back into the reading instance {imported relay, call_indirect on the shared table, local wrapper, host callback, relay inside a loop} x engines; distinct = (state, route, engine); the expected value is fixed by construction")
	worlds := map[string]*world{}
	for _, e := range []string{"interpreter", "compiler"} {
		w, err := build(e)
		if err != nil {
			hx.Fatal("%s: %v", e, err)
		}
		worlds[e] = w
		defer w.rt.Close(ctx)
	}
	for x := 0; x < nK; x++ {
		for r := 0; r < nRoutes; r++ {
			fn := fmt.Sprintf("run_%d_%d", x, r)
			var got [2]string
			for ei, e := range []string{"interpreter", "compiler"} {
				w := worlds[e]
				pagesBefore := w.lib.Memory().Size() / 65536
				res, err := w.app.ExportedFunction(fn).Call(ctx)
				rep.Case(fn + "/" + e)
				if err != nil {
					got[ei] = "error: " + err.Error()
					rep.Violate(hx.Violation{Kind: "impl-violation", Signature: fmt.Sprintf("C04:reentrant-call-fails:%s:%s:%s", stateNames[x], routeNames[r], e), What: err.Error(), Input: fn})
					continue
				}
				v := uint32(res[0])
				got[ei] = fmt.Sprint(v)
				var want uint32
				switch {
				case x == 3 && r == routeLoop:
					want = 3*pagesBefore + 6 // (p+1)+(p+2)+(p+3)
				case x == 3:
					want = pagesBefore + 1
				case r == routeLoop:
					want = 5 + 9 + 13
				default:
					want = 5
				}
				if v != want {
					rep.Violate(hx.Violation{Kind: "impl-violation", Signature: fmt.Sprintf("C04:reentrant-write-not-visible:%s:%s:%s", stateNames[x], routeNames[r], e),
						What:  fmt.Sprintf("%s on %s: a function wrote %s, called back into its own instance through %s (which changed it) and read it again: got %d, want %d", fn, e, stateNames[x], routeNames[r], v, want),
						Input: map[string]any{"function": fn, "state": stateNames[x], "route": routeNames[r], "engine": e}, Expected: want, Actual: v})
				}
				// host API views agree with what the guest will read next
				switch x {
				case 0:
					if hv := uint32(w.app.ExportedGlobal("g").Get()); r != routeLoop && hv != want {
						rep.Violate(hx.Violation{Kind: "impl-violation", Signature: "C04:host-view-differs:own-global:" + e, What: fmt.Sprintf("%s: api.Global says %d, guest computed %d", fn, hv, want), Input: fn})
					}
				case 1:
					if hv := uint32(w.lib.ExportedGlobal("bg").Get()); r != routeLoop && hv != want {
						rep.Violate(hx.Violation{Kind: "impl-violation", Signature: "C04:host-view-differs:imported-global:" + e, What: fmt.Sprintf("%s: api.Global says %d, guest computed %d", fn, hv, want), Input: fn})
					}
				}
			}
			if got[0] != got[1] {
				rep.Violate(hx.Violation{Kind: "impl-violation", Signature: fmt.Sprintf("C04:engines-differ-on-reentrant-state:%s:%s", stateNames[x], routeNames[r]), What: fmt.Sprintf("%s: interpreter %s, compiler %s", fn, got[0], got[1]), Input: fn})
			}
			rep.Count("state:" + stateNames[x])
			rep.Count("route:" + routeNames[r])
		}
	}
	rep.Sample(map[string]any{"function": "run_0_0", "state": stateNames[0], "route": routeNames[0], "expected": 5})
	rep.Exhaustive = true
	rep.Write(nil)
}
