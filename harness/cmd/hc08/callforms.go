package main

// Call-forms stage (runs inside the end-to-end child).  A value handed to and returned by a host function crosses the
// boundary unchanged whatever instruction transfers control and wherever it sits: call, call_indirect, return_call and
// return_call_indirect (tail-call feature) of an imported host function at the top level of the body, inside a void
// block, a block with a result, an if / else arm, a loop, and two levels deep.  For each (form, position, engine) the
// exported function is called from Go (the Go caller sees the host's result) AND from a wasm caller that adds 1000 to
// what it gets back (a wasm caller sees it too: a frame left dirty by a tail call shows up in the caller's operands).
// The host function is h(x) = 3x + 1 over i64, defined in the three definition styles.

import (
	"context"
	"fmt"

	"github.com/tetratelabs/wazero"
	"github.com/tetratelabs/wazero/api"
	"github.com/tetratelabs/wazero/experimental"
	"github.com/tetratelabs/wazero/internal/wasm"
	"github.com/tetratelabs/wazero/verifharness/hx"
	"github.com/tetratelabs/wazero/verifharness/wb"
)

func callFormsStage() {
	ctx := context.Background()
	forms := []string{"call", "call_indirect", "return_call", "return_call_indirect"}
	positions := []string{"top", "block", "block-result", "if", "else", "loop", "block-in-block", "if-in-loop-result"}
	i64 := []byte{wb.I64}
	m := wb.New()
	h := m.ImportFunc("env", "h", i64, i64)
	m.Table(2, nil)
	t0 := m.TypeIdx(i64, i64)
	xfer := func(form string) []byte { // the argument is on the stack
		switch form {
		case "call":
			return wb.Call(h)
		case "call_indirect":
			return wb.Cat(wb.I32Const(0), wb.Op(wasm.OpcodeCallIndirect), wb.U32(t0), wb.U32(0))
		case "return_call":
			return wb.Cat(wb.Op(wasm.OpcodeTailCallReturnCall), wb.U32(h))
		default:
			return wb.Cat(wb.I32Const(0), wb.Op(wasm.OpcodeTailCallReturnCallIndirect), wb.U32(t0), wb.U32(0))
		}
	}
	type fnT struct{ form, pos, name string }
	var fns []fnT
	for _, form := range forms {
		for _, pos := range positions {
			tail := form == "return_call" || form == "return_call_indirect"
			x := wb.Cat(wb.LocalGet(0), xfer(form))
			ret := wb.Op(wasm.OpcodeReturn)
			if tail {
				ret = nil // the transfer itself leaves the function
			}
			unreachable := wb.Op(wasm.OpcodeUnreachable)
			var body []byte
			// two extra locals hold values that must NOT leak into the result: 0x1111…, 0x2222…
			pre := wb.Cat(wb.I64Const(0x1111111111111111), wb.LocalSet(1), wb.I64Const(0x2222222222222222), wb.LocalSet(2))
			switch pos {
			case "top":
				body = wb.Cat(pre, x, ret)
			case "block":
				body = wb.Cat(pre, wb.Op(wasm.OpcodeBlock, 0x40), x, ret, wb.Op(wasm.OpcodeEnd), unreachable)
			case "block-result":
				if tail {
					body = wb.Cat(pre, wb.Op(wasm.OpcodeBlock, wb.I64), x, wb.Op(wasm.OpcodeEnd))
				} else {
					body = wb.Cat(pre, wb.Op(wasm.OpcodeBlock, wb.I64), x, wb.Op(wasm.OpcodeEnd))
				}
			case "if":
				body = wb.Cat(pre, wb.I32Const(1), wb.Op(wasm.OpcodeIf, 0x40), x, ret, wb.Op(wasm.OpcodeEnd), unreachable)
			case "else":
				body = wb.Cat(pre, wb.I32Const(0), wb.Op(wasm.OpcodeIf, 0x40), wb.Op(wasm.OpcodeNop), wb.Op(wasm.OpcodeElse), x, ret, wb.Op(wasm.OpcodeEnd), unreachable)
			case "loop":
				body = wb.Cat(pre, wb.Op(wasm.OpcodeLoop, 0x40), x, ret, wb.Op(wasm.OpcodeEnd), unreachable)
			case "block-in-block":
				body = wb.Cat(pre, wb.LocalGet(1), wb.Op(wasm.OpcodeDrop), wb.Op(wasm.OpcodeBlock, 0x40), wb.Op(wasm.OpcodeBlock, 0x40), x, ret, wb.Op(wasm.OpcodeEnd), wb.Op(wasm.OpcodeEnd), unreachable)
			case "if-in-loop-result":
				body = wb.Cat(pre, wb.Op(wasm.OpcodeLoop, wb.I64), wb.I32Const(1), wb.Op(wasm.OpcodeIf, wb.I64), x, wb.Op(wasm.OpcodeElse), wb.I64Const(5), wb.Op(wasm.OpcodeEnd), wb.Op(wasm.OpcodeEnd))
			}
			name := form + "/" + pos
			f := m.AddFunc(wb.Func{Params: i64, Results: i64, Locals: []byte{wb.I64, wb.I64}, Export: name, Body: body})
			// wasm caller: 1000 + f(x), with operands of its own on the stack around the call
			m.AddFunc(wb.Func{Params: i64, Results: i64, Export: "outer:" + name, Body: wb.Cat(wb.I64Const(1000), wb.LocalGet(0), wb.Call(f), wb.Op(wasm.OpcodeI64Add))})
			fns = append(fns, fnT{form, pos, name})
		}
	}
	bin := m.BytesWithSegments([]wb.Elem{{Offset: 0, Init: []int64{int64(h)}}})
	hostVal := func(x uint64) uint64 { return 3*x + 1 }
	vals := []uint64{5, 0xffffffff80000001, 0x7ff80000deadbeef, 0}
	feats := api.CoreFeaturesV2 | experimental.CoreFeaturesTailCall
	for _, engine := range []string{"interpreter", "compiler"} {
		for _, style := range []string{"WithFunc", "WithGoFunction", "WithGoModuleFunction"} {
			rc := wazero.NewRuntimeConfigCompiler()
			if engine == "interpreter" {
				rc = wazero.NewRuntimeConfigInterpreter()
			}
			rt := wazero.NewRuntimeWithConfig(ctx, rc.WithCoreFeatures(feats))
			hb := rt.NewHostModuleBuilder("env").NewFunctionBuilder()
			switch style {
			case "WithFunc":
				hb = hb.WithFunc(func(_ context.Context, x uint64) uint64 { return hostVal(x) })
			case "WithGoFunction":
				hb = hb.WithGoFunction(api.GoFunc(func(_ context.Context, st []uint64) { st[0] = hostVal(st[0]) }), []api.ValueType{api.ValueTypeI64}, []api.ValueType{api.ValueTypeI64})
			default:
				hb = hb.WithGoModuleFunction(api.GoModuleFunc(func(_ context.Context, _ api.Module, st []uint64) { st[0] = hostVal(st[0]) }), []api.ValueType{api.ValueTypeI64}, []api.ValueType{api.ValueTypeI64})
			}
			if _, err := hb.Export("h").Instantiate(ctx); err != nil {
				hx.Fatal("call-forms stage: %v", err)
			}
			mod, err := rt.InstantiateWithConfig(ctx, bin, wazero.NewModuleConfig())
			if err != nil {
				hx.Fatal("call-forms stage: instantiate on %s: %v", engine, err)
			}
			for _, f := range fns {
				for _, x := range vals {
					for _, outer := range []bool{false, true} {
						name, want := f.name, hostVal(x)
						if outer {
							name, want = "outer:"+f.name, 1000+hostVal(x)
						}
						res, err := mod.ExportedFunction(name).Call(ctx, x)
						rep.Case(fmt.Sprintf("call-forms/%s/%s/%s/%v/%x", engine, style, f.name, outer, x))
						if err != nil || len(res) != 1 || res[0] != want {
							rep.Violate(hx.Violation{Kind: "impl-violation", Signature: fmt.Sprintf("C08:host-result-changed-by-call-form:%s:%s", engine, f.form),
								What:     fmt.Sprintf("%s: h(%#x) = %#x reached by %s at position %q (host function defined with %s); the %s received %v %v", engine, x, hostVal(x), f.form, f.pos, style, map[bool]string{false: "Go caller", true: "wasm caller (which adds 1000)"}[outer], res, err),
								Input:    map[string]any{"stage": "call forms", "engine": engine, "form": f.form, "position": f.pos, "definition": style, "argument": x, "through_wasm_caller": outer},
								Expected: fmt.Sprintf("%#x", want), Actual: fmt.Sprint(res, err)})
							rt.Close(ctx)
							return
						}
					}
				}
			}
			rt.Close(ctx)
		}
	}
}
