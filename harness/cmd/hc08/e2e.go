package main

// End-to-end part of hc08 (tie C, and tie B for the slice sizing): generated signatures x definition
// styles x values x engines. For every case a host module and a guest module are built:
//
//	host  hpr : P -> R   records the parameters it received, returns the preset results vr
//	      hcb : P -> R   calls the guest export `inner` with the parameters it received (Call or
//	                     CallWithStack), returns what the guest returned
//	      hcc : P -> i64 calls the guest export `cmpp` with the parameters it received, returns its mask
//	guest inner : P -> R   local.get*; call hpr
//	      cb    : P -> R   local.get*; call hcb
//	      konst : () -> R  const vp*; call hpr          (guest-originated constants)
//	      cmp   : () -> i64  const vp*; call hpr; mask of (result_i != vr_i) computed IN WASM
//	      cmpp  : P -> i64  mask of (param_i != vp_i) computed IN WASM
//	      cbc   : () -> i64  const vp*; call hcc
//	      cbcp  : P -> i64  local.get*; call hcc
//
// The monitor: the host saw exactly vp (bit for bit), Go saw exactly vr, every mask is 0, and the raw
// observations of the two engines are identical.

import (
	"context"
	"encoding/binary"
	"fmt"
	"math"
	"math/rand"
	"reflect"
	"strings"
	"sync"
	"sync/atomic"

	"github.com/tetratelabs/wazero"
	"github.com/tetratelabs/wazero/api"
	"github.com/tetratelabs/wazero/internal/wasm"
	"github.com/tetratelabs/wazero/verifharness/hx"
	"github.com/tetratelabs/wazero/verifharness/wb"
)

const (
	tI32 = api.ValueTypeI32
	tI64 = api.ValueTypeI64
	tF32 = api.ValueTypeF32
	tF64 = api.ValueTypeF64
	tExt = api.ValueTypeExternref
)

func tname(t byte) string {
	switch t {
	case tI32:
		return "i32"
	case tI64:
		return "i64"
	case tF32:
		return "f32"
	case tF64:
		return "f64"
	case tExt:
		return "externref"
	case 0x7b:
		return "v128"
	}
	return fmt.Sprintf("t%x", t)
}

func tnames(ts []byte) string {
	s := make([]string, len(ts))
	for i, t := range ts {
		s[i] = tname(t)
	}
	return strings.Join(s, ",")
}

func is32(t byte) bool { return t == tI32 || t == tF32 }

// canon is the canonical slot of a value of type t: the low 32 bits for 32-bit types.
func canon(t byte, v uint64) uint64 {
	if is32(t) {
		return v & 0xffffffff
	}
	return v
}

var styles = []string{"gofunc", "gomodfunc", "reflect", "reflect-ctx", "reflect-ctx-mod"}

type e2eCase struct {
	ID      int      `json:"id"`
	P       []byte   `json:"-"`
	R       []byte   `json:"-"`
	Params  string   `json:"params"`
	Results string   `json:"results"`
	VP      []uint64 `json:"param_values"`
	VR      []uint64 `json:"result_values"`
	// Signed[i] says whether the reflected Go type of position i (params then results) is the signed one.
	Signed []bool `json:"go_signed"`
	Style  string `json:"style"`
	Engine string `json:"engine,omitempty"`
}

func hex(vs []uint64) []string {
	s := make([]string, len(vs))
	for i, v := range vs {
		s[i] = fmt.Sprintf("0x%x", v)
	}
	return s
}

var (
	i32Pool = []uint64{0, 1, 0x7fffffff, 0x80000000, 0xffffffff, 0xfffffffe, 0x80000001, 0xdeadbeef, 0x0000ffff, 0xffff0000}
	i64Pool = []uint64{0, 1, 0xffffffffffffffff, 0x8000000000000000, 0x7fffffffffffffff, 0x00000000ffffffff,
		0xffffffff00000000, 0x8000000000000001, 0x0000000080000000, 0xdeadbeefcafef00d}
	f32Pool = []uint64{0, 0x80000000, 0x3f800000, 0xbf800000, 0x7f800000, 0xff800000, 0x7f7fffff, 0x00000001, 0x80000001,
		0x7fc00000, 0xffc00000, 0x7fc00001, 0xffc12345, 0x7fffffff, // quiet NaNs
		0x7fa00001, 0x7f800001, 0xff800001, 0xffbfffff, 0x7fbfffff} // signalling NaNs
	f64Pool = []uint64{0, 0x8000000000000000, 0x3ff0000000000000, 0x7ff0000000000000, 0xfff0000000000000, 0x7fefffffffffffff,
		1, 0x8000000000000001, 0x7ff8000000000000, 0xfff8000000000000, 0x7ff8000000000001, 0xfff8deadbeef0001,
		0x7ff4000000000001, 0x7ff0000000000001, 0xfff0000000000001, 0xfff7ffffffffffff, 0x7fffffffffffffff}
	extPool = []uint64{0, 1, 0xdeadbeefcafe, 0xffffffffffffffff, 0x8000000000000000, 0x00000000ffffffff, 0xc000123458}
)

func isSNaN32(b uint64) bool {
	return b&0x7f800000 == 0x7f800000 && b&0x007fffff != 0 && b&0x00400000 == 0
}
func isSNaN64(b uint64) bool {
	return b&0x7ff0000000000000 == 0x7ff0000000000000 && b&0x000fffffffffffff != 0 && b&0x0008000000000000 == 0
}

func pickVal(r *rand.Rand, t byte) uint64 {
	pool := i32Pool
	switch t {
	case tI64:
		pool = i64Pool
	case tF32:
		pool = f32Pool
	case tF64:
		pool = f64Pool
	case tExt:
		pool = extPool
	}
	if r.Intn(5) == 0 {
		return canon(t, r.Uint64())
	}
	return pool[r.Intn(len(pool))]
}

func valClass(t byte, v uint64) string {
	switch t {
	case tI32:
		if v&0x80000000 != 0 {
			return "i32:negative"
		}
		return "i32:nonneg"
	case tI64:
		if v>>63 != 0 {
			return "i64:negative"
		}
		if v>>32 != 0 {
			return "i64:high-bits"
		}
		return "i64:small"
	case tF32:
		if isSNaN32(v) {
			return "f32:snan"
		}
		if v&0x7f800000 == 0x7f800000 && v&0x7fffff != 0 {
			return "f32:qnan"
		}
		if v&0x7fffffff == 0 {
			return "f32:zero"
		}
		return "f32:other"
	case tF64:
		if isSNaN64(v) {
			return "f64:snan"
		}
		if v&0x7ff0000000000000 == 0x7ff0000000000000 && v&0xfffffffffffff != 0 {
			return "f64:qnan"
		}
		if v<<1 == 0 {
			return "f64:zero"
		}
		return "f64:other"
	}
	if v == 0 {
		return "externref:null"
	}
	return "externref:nonnull"
}

// ---- wasm building ----

func constOf(t byte, v uint64) []byte {
	switch t {
	case tI32:
		return wb.I32Const(int32(uint32(v)))
	case tI64:
		return wb.I64Const(int64(v))
	case tF32:
		b := []byte{wasm.OpcodeF32Const, 0, 0, 0, 0}
		binary.LittleEndian.PutUint32(b[1:], uint32(v))
		return b
	case tF64:
		b := []byte{wasm.OpcodeF64Const, 0, 0, 0, 0, 0, 0, 0, 0}
		binary.LittleEndian.PutUint64(b[1:], v)
		return b
	case tExt:
		return []byte{wasm.OpcodeRefNull, wasm.RefTypeExternref}
	}
	panic("type")
}

// guestConst is the value a guest constant of type t actually has (externref constants are null).
func guestConst(t byte, v uint64) uint64 {
	if t == tExt {
		return 0
	}
	return v
}

// neMask emits code computing the i64 mask of (local[base+i] != vals[i]) for the given types.
func neMask(ts []byte, vals []uint64, base uint32) []byte {
	if len(ts) == 0 {
		return wb.I64Const(0)
	}
	var out []byte
	for i, t := range ts {
		out = append(out, wb.LocalGet(base+uint32(i))...)
		switch t {
		case tI32:
			out = wb.Cat(out, wb.I32Const(int32(uint32(vals[i]))), wb.Op(wasm.OpcodeI32Ne))
		case tI64:
			out = wb.Cat(out, wb.I64Const(int64(vals[i])), wb.Op(wasm.OpcodeI64Ne))
		case tF32:
			out = wb.Cat(out, wb.Op(wasm.OpcodeI32ReinterpretF32), wb.I32Const(int32(uint32(vals[i]))), wb.Op(wasm.OpcodeI32Ne))
		case tF64:
			out = wb.Cat(out, wb.Op(wasm.OpcodeI64ReinterpretF64), wb.I64Const(int64(vals[i])), wb.Op(wasm.OpcodeI64Ne))
		case tExt:
			// only null-ness is observable in wasm
			exp := int32(0)
			if vals[i] == 0 {
				exp = 1
			}
			out = wb.Cat(out, wb.Op(wasm.OpcodeRefIsNull), wb.I32Const(exp), wb.Op(wasm.OpcodeI32Ne))
		}
		out = wb.Cat(out, wb.Op(wasm.OpcodeI64ExtendI32U), wb.I64Const(int64(i)), wb.Op(wasm.OpcodeI64Shl))
		if i > 0 {
			out = append(out, wasm.OpcodeI64Or)
		}
	}
	return out
}

func guestModule(c *e2eCase, hostName string) []byte {
	m := wb.New()
	P, R := c.P, c.R
	hpr := m.ImportFunc(hostName, "hpr", P, R)
	hcb := m.ImportFunc(hostName, "hcb", P, R)
	hcc := m.ImportFunc(hostName, "hcc", P, []byte{tI64})
	var gets, consts []byte
	for i := range P {
		gets = append(gets, wb.LocalGet(uint32(i))...)
		consts = append(consts, constOf(P[i], c.VP[i])...)
	}
	m.AddFunc(wb.Func{Params: P, Results: R, Export: "inner", Body: wb.Cat(gets, wb.Call(hpr))})
	m.AddFunc(wb.Func{Params: P, Results: R, Export: "cb", Body: wb.Cat(gets, wb.Call(hcb))})
	m.AddFunc(wb.Func{Results: R, Export: "konst", Body: wb.Cat(consts, wb.Call(hpr))})
	// cmp
	body := wb.Cat(consts, wb.Call(hpr))
	for i := len(R) - 1; i >= 0; i-- {
		body = append(body, wb.LocalSet(uint32(i))...)
	}
	body = append(body, neMask(R, c.VR, 0)...)
	m.AddFunc(wb.Func{Results: []byte{tI64}, Locals: R, Export: "cmp", Body: body})
	m.AddFunc(wb.Func{Params: P, Results: []byte{tI64}, Export: "cmpp", Body: neMask(P, c.VP, 0)})
	m.AddFunc(wb.Func{Results: []byte{tI64}, Export: "cbc", Body: wb.Cat(consts, wb.Call(hcc))})
	m.AddFunc(wb.Func{Params: P, Results: []byte{tI64}, Export: "cbcp", Body: wb.Cat(gets, wb.Call(hcc))})
	return m.Bytes()
}

// ---- host side ----

type hostLog struct {
	mu       sync.Mutex
	seen     [][]uint64 // canonical parameter values seen by hpr, per call
	raw      [][]uint64 // raw slots (stack styles only)
	stackLen []int      // len(stack) seen by the stack styles
	errs     []string
}

type hostEnv struct {
	c        *e2eCase
	log      *hostLog
	guest    api.Module // set after instantiation
	withStk  bool       // callbacks use CallWithStack
	hostRetN int
}

// core implementations over canonical bit patterns
func (h *hostEnv) core(name string, ctx context.Context, mod api.Module, in []uint64) []uint64 {
	c := h.c
	switch name {
	case "hpr":
		h.log.mu.Lock()
		h.log.seen = append(h.log.seen, append([]uint64{}, in...))
		h.log.mu.Unlock()
		return append([]uint64{}, c.VR...)
	case "hcb", "hcc":
		if mod == nil {
			mod = h.guest
		}
		target, nres := "inner", len(c.R)
		if name == "hcc" {
			target, nres = "cmpp", 1
		}
		f := mod.ExportedFunction(target)
		if f == nil {
			h.log.err("callback: no export " + target)
			return make([]uint64, nres)
		}
		if h.withStk {
			n := len(in)
			if nres > n {
				n = nres
			}
			st := make([]uint64, n)
			copy(st, in)
			if err := f.CallWithStack(ctx, st); err != nil {
				h.log.err("callback CallWithStack: " + err.Error())
				return make([]uint64, nres)
			}
			return st[:nres]
		}
		res, err := f.Call(ctx, in...)
		if err != nil || len(res) != nres {
			h.log.err(fmt.Sprintf("callback Call: %v (results %d)", err, len(res)))
			return make([]uint64, nres)
		}
		return res
	}
	panic(name)
}

func (l *hostLog) err(s string) {
	l.mu.Lock()
	l.errs = append(l.errs, s)
	l.mu.Unlock()
}

var (
	ctxType = reflect.TypeOf((*context.Context)(nil)).Elem()
	modType = reflect.TypeOf((*api.Module)(nil)).Elem()
)

func goType(t byte, signed bool) reflect.Type {
	switch t {
	case tI32:
		if signed {
			return reflect.TypeOf(int32(0))
		}
		return reflect.TypeOf(uint32(0))
	case tI64:
		if signed {
			return reflect.TypeOf(int64(0))
		}
		return reflect.TypeOf(uint64(0))
	case tF32:
		return reflect.TypeOf(float32(0))
	case tF64:
		return reflect.TypeOf(float64(0))
	case tExt:
		return reflect.TypeOf(uintptr(0))
	}
	panic("type")
}

// bitsOf reads a reflected argument bit-exactly (no float conversion).
func bitsOf(v reflect.Value) uint64 {
	switch v.Kind() {
	case reflect.Int32:
		return uint64(uint32(v.Int()))
	case reflect.Int64:
		return uint64(v.Int())
	case reflect.Uint32, reflect.Uint64, reflect.Uintptr:
		return v.Uint()
	case reflect.Float32:
		return uint64(math.Float32bits(v.Interface().(float32)))
	case reflect.Float64:
		return math.Float64bits(v.Interface().(float64))
	}
	panic("kind")
}

func valueOf(t reflect.Type, bits uint64) reflect.Value {
	switch t.Kind() {
	case reflect.Int32:
		return reflect.ValueOf(int32(uint32(bits)))
	case reflect.Int64:
		return reflect.ValueOf(int64(bits))
	case reflect.Uint32:
		return reflect.ValueOf(uint32(bits))
	case reflect.Uint64:
		return reflect.ValueOf(bits)
	case reflect.Uintptr:
		return reflect.ValueOf(uintptr(bits))
	case reflect.Float32:
		return reflect.ValueOf(math.Float32frombits(uint32(bits)))
	case reflect.Float64:
		return reflect.ValueOf(math.Float64frombits(bits))
	}
	panic("kind")
}

func (h *hostEnv) define(b wazero.HostModuleBuilder, name string, P, R []byte, psigned, rsigned []bool) {
	style := h.c.Style
	fb := b.NewFunctionBuilder()
	stackFn := func(ctx context.Context, mod api.Module, stack []uint64) {
		in := make([]uint64, len(P))
		raw := append([]uint64{}, stack[:len(P)]...)
		for i := range P {
			in[i] = canon(P[i], stack[i])
		}
		if name == "hpr" {
			h.log.mu.Lock()
			h.log.raw = append(h.log.raw, raw)
			h.log.stackLen = append(h.log.stackLen, len(stack))
			h.log.mu.Unlock()
		}
		out := h.core(name, ctx, mod, in)
		copy(stack, out)
	}
	switch style {
	case "gofunc":
		fb = fb.WithGoFunction(api.GoFunc(func(ctx context.Context, stack []uint64) { stackFn(ctx, nil, stack) }), P, R)
	case "gomodfunc":
		fb = fb.WithGoModuleFunction(api.GoModuleFunc(func(ctx context.Context, mod api.Module, stack []uint64) { stackFn(ctx, mod, stack) }), P, R)
	default:
		var in, out []reflect.Type
		off := 0
		if style == "reflect-ctx" || style == "reflect-ctx-mod" {
			in = append(in, ctxType)
			off++
		}
		if style == "reflect-ctx-mod" {
			in = append(in, modType)
			off++
		}
		for i, t := range P {
			in = append(in, goType(t, psigned[i]))
		}
		for i, t := range R {
			out = append(out, goType(t, rsigned[i]))
		}
		ft := reflect.FuncOf(in, out, false)
		fn := reflect.MakeFunc(ft, func(args []reflect.Value) []reflect.Value {
			ctx := context.Background()
			var mod api.Module
			if off >= 1 {
				ctx, _ = args[0].Interface().(context.Context)
			}
			if off == 2 {
				mod, _ = args[1].Interface().(api.Module)
			}
			bits := make([]uint64, len(P))
			for i := range P {
				bits[i] = bitsOf(args[off+i])
			}
			res := h.core(name, ctx, mod, bits)
			outv := make([]reflect.Value, len(R))
			for i := range R {
				outv[i] = valueOf(out[i], res[i])
			}
			return outv
		})
		fb = fb.WithFunc(fn.Interface())
	}
	fb.Export(name)
}

var hostSeq atomic.Int64

type obs struct {
	Name    string   `json:"fn"`
	Err     string   `json:"err,omitempty"`
	Results []uint64 `json:"results"`
	Seen    []uint64 `json:"host_saw,omitempty"`
}

// runCase runs one case on one runtime and returns the observations in a fixed order.
func runCase(ctx context.Context, rt wazero.Runtime, c *e2eCase) (out []obs, stackLens []int, rawUpper int, fault string) {
	np := len(c.P)
	log := &hostLog{}
	env := &hostEnv{c: c, log: log}
	hostName := fmt.Sprintf("env%d", hostSeq.Add(1))
	b := rt.NewHostModuleBuilder(hostName)
	env.define(b, "hpr", c.P, c.R, c.Signed[:np], c.Signed[np:])
	env.define(b, "hcb", c.P, c.R, c.Signed[:np], c.Signed[np:])
	env.define(b, "hcc", c.P, []byte{tI64}, c.Signed[:np], []bool{false})
	hm, err := b.Instantiate(ctx)
	if err != nil {
		return nil, nil, 0, "host module: " + err.Error()
	}
	defer hm.Close(ctx)
	bin := guestModule(c, hostName)
	gm, err := rt.InstantiateWithConfig(ctx, bin, wazero.NewModuleConfig().WithName(hostName+"-guest"))
	if err != nil {
		return nil, nil, 0, "guest module: " + err.Error()
	}
	defer gm.Close(ctx)
	env.guest = gm

	call := func(label, fn string, withStack bool, params []uint64, nres int) {
		log.mu.Lock()
		log.seen = nil
		log.mu.Unlock()
		f := gm.ExportedFunction(fn)
		o := obs{Name: label}
		if withStack {
			n := len(params)
			if nres > n {
				n = nres
			}
			st := make([]uint64, n)
			copy(st, params)
			if err := f.CallWithStack(ctx, st); err != nil {
				o.Err = err.Error()
			} else {
				o.Results = append([]uint64{}, st[:nres]...)
			}
		} else {
			res, err := f.Call(ctx, params...)
			if err != nil {
				o.Err = err.Error()
			} else {
				o.Results = append([]uint64{}, res...)
			}
		}
		log.mu.Lock()
		if len(log.seen) == 1 {
			o.Seen = log.seen[0]
		} else if len(log.seen) > 1 {
			o.Err += fmt.Sprintf(" [hpr called %d times]", len(log.seen))
		}
		if len(log.errs) > 0 {
			o.Err += " [" + strings.Join(log.errs, "; ") + "]"
			log.errs = nil
		}
		log.mu.Unlock()
		out = append(out, o)
	}
	nr := len(c.R)
	for _, ws := range []bool{false, true} {
		sfx := "/Call"
		if ws {
			sfx = "/CallWithStack"
		}
		env.withStk = ws
		call("inner"+sfx, "inner", ws, c.VP, nr)
		call("cb"+sfx, "cb", ws, c.VP, nr)
		call("konst"+sfx, "konst", ws, nil, nr)
		call("cmp"+sfx, "cmp", ws, nil, 1)
		call("cmpp"+sfx, "cmpp", ws, c.VP, 1)
		call("cbc"+sfx, "cbc", ws, nil, 1)
		call("cbcp"+sfx, "cbcp", ws, c.VP, 1)
	}
	// CallWithStack with a stack one slot too short must be refused, not crash.
	if m := max(np, nr); m > 0 {
		f := gm.ExportedFunction("inner")
		st := make([]uint64, m-1)
		if err := f.CallWithStack(ctx, st); err == nil {
			out = append(out, obs{Name: "short-stack", Err: "accepted"})
		} else {
			out = append(out, obs{Name: "short-stack", Err: "refused"})
		}
	}
	for _, raw := range log.raw {
		for i, v := range raw {
			if is32(c.P[i]) && v>>32 != 0 {
				rawUpper++
			}
		}
	}
	return out, log.stackLen, rawUpper, ""
}

// judge evaluates the monitor on the observations of one engine.
func judge(c *e2eCase, engine string, out []obs) {
	np := len(c.P)
	viol := func(sig, what string, exp, act any) {
		cc := *c
		cc.Engine = engine
		rep.Violate(hx.Violation{Kind: "impl-violation", Signature: sig, What: what, Input: caseInput(&cc), Expected: exp, Actual: act})
	}
	reflectStyle := strings.HasPrefix(c.Style, "reflect")
	for _, o := range out {
		base := strings.SplitN(o.Name, "/", 2)[0]
		if base == "short-stack" {
			if o.Err != "refused" {
				viol("C08:CallWithStack-accepts-short-stack:"+engine, "CallWithStack with max(params,results)-1 slots was not refused", "error", o.Err)
			}
			continue
		}
		if o.Err != "" {
			viol(fmt.Sprintf("C08:call-failed:%s:%s:%s", engine, c.Style, base), "call failed: "+o.Err, nil, o.Err)
			continue
		}
		// parameter direction: what the host saw
		if base == "inner" || base == "konst" || base == "cb" {
			want := make([]uint64, np)
			for i := range c.P {
				want[i] = c.VP[i]
				if base == "konst" {
					want[i] = guestConst(c.P[i], c.VP[i])
				}
			}
			if o.Seen == nil {
				viol(fmt.Sprintf("C08:host-not-called:%s:%s:%s", engine, c.Style, base), "host function was not called exactly once", nil, nil)
			} else {
				for i := range c.P {
					if o.Seen[i] == want[i] {
						continue
					}
					sig := fmt.Sprintf("C08:param-changed:%s:%s:%s:%s", engine, c.Style, tname(c.P[i]), posClass(c.P, i))
					if reflectStyle && c.P[i] == tF32 && isSNaN32(want[i]) && o.Seen[i] == want[i]|0x00400000 {
						sig = "F6:reflect-float32-param-snan-quieted"
					}
					viol(sig, fmt.Sprintf("%s: host saw param[%d] (%s) = 0x%x, guest passed 0x%x", o.Name, i, tname(c.P[i]), o.Seen[i], want[i]),
						fmt.Sprintf("0x%x", want[i]), fmt.Sprintf("0x%x", o.Seen[i]))
				}
			}
		}
		// result direction
		switch base {
		case "inner", "cb", "konst":
			if len(o.Results) != len(c.R) {
				viol(fmt.Sprintf("C08:result-count:%s:%s", engine, c.Style), o.Name+": wrong number of results", len(c.R), len(o.Results))
				continue
			}
			for i := range c.R {
				got, want := o.Results[i], c.VR[i]
				if got == want {
					continue
				}
				if canon(c.R[i], got) == want {
					// the value is right, the raw slot handed to Go is not canonical
					sig := fmt.Sprintf("C08:noncanonical-result-slot:%s:%s:%s:%s", engine, c.Style, base, tname(c.R[i]))
					if engine == "interpreter" && reflectStyle && c.R[i] == tI32 && c.Signed[np+i] && want&0x80000000 != 0 && got == want|0xffffffff00000000 {
						sig = "F5:reflect-int32-result-slot-sign-extended"
					} else if engine == "compiler" && i < np && got>>32 == c.VP[i]>>32 && base != "konst" {
						sig = "F24:compiler-32bit-result-slot-keeps-upper-half-of-param-slot"
					}
					viol(sig, fmt.Sprintf("%s: result[%d] (%s) raw slot = 0x%x, host returned 0x%x (low 32 bits equal)", o.Name, i, tname(c.R[i]), got, want),
						fmt.Sprintf("0x%x", want), fmt.Sprintf("0x%x", got))
					continue
				}
				sig := fmt.Sprintf("C08:result-changed:%s:%s:%s:%s:%s", engine, c.Style, base, tname(c.R[i]), posClass(c.R, i))
				if reflectStyle && c.R[i] == tF32 && isSNaN32(want) && canon(tF32, got) == want|0x00400000 {
					sig = "F6:reflect-float32-result-snan-quieted"
				}
				viol(sig, fmt.Sprintf("%s: result[%d] (%s) = 0x%x, host returned 0x%x", o.Name, i, tname(c.R[i]), got, want),
					fmt.Sprintf("0x%x", want), fmt.Sprintf("0x%x", got))
			}
		case "cmp", "cmpp", "cbc", "cbcp":
			if len(o.Results) != 1 {
				viol(fmt.Sprintf("C08:result-count:%s:%s", engine, c.Style), o.Name+": wrong number of results", 1, len(o.Results))
				continue
			}
			mask := o.Results[0]
			ts := c.P
			vals := c.VP
			dir := "param"
			if base == "cmp" {
				ts, vals, dir = c.R, c.VR, "result"
			}
			for i := range ts {
				bit := mask >> uint(i) & 1
				if base == "cbc" && ts[i] == tExt && vals[i] != 0 {
					// the guest constant is ref.null while cmpp expects a non-null reference: the bit must be set
					if bit == 0 {
						viol(fmt.Sprintf("C08:wasm-compare-dead:%s:%s", engine, c.Style), o.Name+": comparison of a null externref against non-null did not fire", 1, 0)
					}
					continue
				}
				if bit == 0 {
					continue
				}
				sig := fmt.Sprintf("C08:wasm-compare-%s-differs:%s:%s:%s:%s:%s", dir, engine, c.Style, base, tname(ts[i]), posClass(ts, i))
				if reflectStyle && base != "cmpp" && ts[i] == tF32 && isSNaN32(vals[i]) {
					// the in-wasm comparison cannot show the value; the direct observations classify it
					sig = "F6:reflect-float32-" + dir + "-snan-quieted"
				}
				if reflectStyle && base == "cmp" && engine == "interpreter" && ts[i] == tI32 && c.Signed[np+i] && vals[i]&0x80000000 != 0 {
					sig = "F5:interpreter-wasm-compare-sees-sign-extended-reflect-int32-result"
				}
				viol(sig, fmt.Sprintf("%s: guest computed %s[%d] (%s) != 0x%x in wasm", o.Name, dir, i, tname(ts[i]), vals[i]),
					0, fmt.Sprintf("mask 0x%x", mask))
			}
			if mask>>uint(len(ts)) != 0 {
				viol(fmt.Sprintf("C08:mask-garbage:%s:%s:%s", engine, c.Style, base), o.Name+": mask has bits beyond the arity", 0, fmt.Sprintf("0x%x", mask))
			}
		}
	}
}

func caseInput(c *e2eCase) any {
	return map[string]any{"id": c.ID, "params": c.Params, "results": c.Results, "param_values": hex(c.VP), "result_values": hex(c.VR),
		"go_signed": c.Signed, "style": c.Style, "engine": c.Engine}
}

// posClass names the ABI position class of index i in the type list: its ordinal within its register
// class relative to the amd64 cliffs (ints: 7 registers after the two context registers for params;
// floats: 8).
func posClass(ts []byte, i int) string {
	ints, floats := 0, 0
	for j := 0; j < i; j++ {
		if ts[j] == tF32 || ts[j] == tF64 {
			floats++
		} else {
			ints++
		}
	}
	if ts[i] == tF32 || ts[i] == tF64 {
		if floats < 8 {
			return "float-reg"
		}
		return "float-stack"
	}
	if ints < 7 {
		return "int-reg"
	}
	if ints < 9 {
		return "int-cliff"
	}
	return "int-stack"
}

func engineConfigs() map[string]wazero.RuntimeConfig {
	return map[string]wazero.RuntimeConfig{
		"interpreter": wazero.NewRuntimeConfigInterpreter(),
		"compiler":    wazero.NewRuntimeConfigCompiler(),
	}
}

// genSignatures returns the structured signature list: cliffs first, then random.
func genSignatures(r *rand.Rand, nRandom, maxArity int) [][2][]byte {
	var sigs [][2][]byte
	rep := func(t byte, n int) []byte {
		out := make([]byte, n)
		for i := range out {
			out[i] = t
		}
		return out
	}
	add := func(p, r []byte) { sigs = append(sigs, [2][]byte{p, r}) }
	all := []byte{tI32, tI64, tF32, tF64, tExt}
	// single-type identities and the empty signature
	add(nil, nil)
	for _, t := range all {
		add([]byte{t}, []byte{t})
		add(nil, []byte{t})
		add([]byte{t}, nil)
	}
	// integer cliffs 6..10 and float cliffs 7..10, params and results
	for _, t := range []byte{tI32, tI64, tExt} {
		for n := 6; n <= 10; n++ {
			add(rep(t, n), rep(t, n))
		}
	}
	for _, t := range []byte{tF32, tF64} {
		for n := 7; n <= 10; n++ {
			add(rep(t, n), rep(t, n))
		}
	}
	// mixed classes across both cliffs, odd number of stack slots (stack alignment)
	mix := func(n int, pat []byte) []byte {
		out := make([]byte, n)
		for i := range out {
			out[i] = pat[i%len(pat)]
		}
		return out
	}
	for _, n := range []int{15, 16, 17, 18, 19, 20} {
		add(mix(n, []byte{tI32, tF32}), mix(n, []byte{tF64, tI64}))
		add(mix(n, []byte{tI64, tF64, tI32, tF32, tExt}), mix(n-1, []byte{tF32, tI32, tI32}))
	}
	// many results, few params and vice versa (slice sizing max(params, results))
	add([]byte{tI32}, mix(20, []byte{tI32, tI64, tF32, tF64}))
	add(mix(20, []byte{tF32, tI32, tF64, tI64}), []byte{tI32})
	add(nil, mix(20, []byte{tI32}))
	add(mix(20, []byte{tF32}), nil)
	add(mix(9, []byte{tI32}), mix(8, []byte{tI32}))
	add(mix(8, []byte{tI32}), mix(9, []byte{tI32}))
	for k := 0; k < nRandom; k++ {
		np, nr := r.Intn(maxArity+1), r.Intn(maxArity+1)
		if r.Intn(3) == 0 {
			np, nr = r.Intn(6), r.Intn(6)
		}
		p, q := make([]byte, np), make([]byte, nr)
		for i := range p {
			p[i] = all[r.Intn(len(all))]
		}
		for i := range q {
			q[i] = all[r.Intn(len(all))]
		}
		add(p, q)
	}
	return sigs
}

// witness cases of the recorded findings: always run first.
func witnessCases() []*e2eCase {
	mk := func(p, r []byte, vp, vr []uint64, signed []bool, style string) *e2eCase {
		return &e2eCase{P: p, R: r, VP: vp, VR: vr, Signed: signed, Style: style}
	}
	return []*e2eCase{
		mk(nil, []byte{tI32}, nil, []uint64{0xffffffff}, []bool{true}, "reflect"),                                   // F5
		mk([]byte{tF32}, []byte{tF32}, []uint64{0x7fa00001}, []uint64{0x7fa00001}, []bool{false, false}, "reflect"), // F6
		mk([]byte{tI64}, []byte{tI32}, []uint64{0xaaaaaaaa00000000}, []uint64{5}, []bool{false, false}, "gofunc"),   // F24
	}
}

func runE2E(r *rand.Rand) {
	ctx := context.Background()
	runScale(r)
	callFormsStage()
	runConcurrent(r)
	nRandom, maxArity, nVals := 80, 20, 3
	if hx.Thorough() {
		nRandom, maxArity, nVals = 800, 40, 6
	}
	sigs := genSignatures(r, nRandom, maxArity)
	var cases []*e2eCase
	cases = append(cases, witnessCases()...)
	for _, s := range sigs {
		for v := 0; v < nVals; v++ {
			for _, st := range styles {
				c := &e2eCase{P: s[0], R: s[1], Style: st}
				for _, t := range c.P {
					c.VP = append(c.VP, pickVal(r, t))
				}
				for _, t := range c.R {
					c.VR = append(c.VR, pickVal(r, t))
				}
				for range len(c.P) + len(c.R) {
					c.Signed = append(c.Signed, r.Intn(2) == 0)
				}
				cases = append(cases, c)
			}
		}
	}
	for i, c := range cases {
		c.ID = i
		c.Params, c.Results = tnames(c.P), tnames(c.R)
	}
	rep.Note("e2e: %d signatures, %d cases (x2 engines, x14 calls each)", len(sigs), len(cases))

	type result struct {
		out   map[string][]obs
		lens  map[string][]int
		fault string
	}
	results := make([]result, len(cases))
	const workers = 8
	var wg sync.WaitGroup
	next := atomic.Int64{}
	for w := 0; w < workers; w++ {
		wg.Add(1)
		go func() {
			defer wg.Done()
			rts := map[string]wazero.Runtime{}
			for name, cfg := range engineConfigs() {
				rts[name] = wazero.NewRuntimeWithConfig(ctx, cfg)
			}
			defer func() {
				for _, rt := range rts {
					rt.Close(ctx)
				}
			}()
			for {
				i := int(next.Add(1)) - 1
				if i >= len(cases) {
					return
				}
				c := cases[i]
				res := result{out: map[string][]obs{}, lens: map[string][]int{}}
				for _, eng := range []string{"interpreter", "compiler"} {
					out, lens, rawUpper, fault := runCase(ctx, rts[eng], c)
					if fault != "" {
						res.fault = eng + ": " + fault
						break
					}
					res.out[eng], res.lens[eng] = out, lens
					if rawUpper > 0 {
						rep.Count("note:stack-style-32bit-param-slot-with-nonzero-upper-half:" + eng)
					}
				}
				results[i] = res
			}
		}()
	}
	wg.Wait()

	for i, c := range cases {
		res := results[i]
		if res.fault != "" {
			hx.Fatal("e2e case %d (%s -> %s, %s): %s", i, c.Params, c.Results, c.Style, res.fault)
		}
		key := fmt.Sprintf("e2e/%s/%s->%s/%v/%v", c.Style, c.Params, c.Results, c.VP, c.VR)
		if len(c.P)+len(c.R) == 0 {
			key = ""
		}
		rep.Case(key)
		rep.Count("e2e:style:" + c.Style)
		rep.Count(fmt.Sprintf("e2e:arity-params:%s", bucket(len(c.P))))
		rep.Count(fmt.Sprintf("e2e:arity-results:%s", bucket(len(c.R))))
		for j, t := range c.P {
			rep.Count("e2e:param-value:" + valClass(t, c.VP[j]))
			rep.Count("e2e:param-position:" + posClass(c.P, j))
		}
		for j, t := range c.R {
			rep.Count("e2e:result-value:" + valClass(t, c.VR[j]))
			rep.Count("e2e:result-position:" + posClass(c.R, j))
		}
		if i < 3 || i == len(cases)/2 {
			rep.Sample(map[string]any{"case": caseInput(c), "interpreter": res.out["interpreter"][0], "compiler": res.out["compiler"][0]})
		}
		for _, eng := range []string{"interpreter", "compiler"} {
			judge(c, eng, res.out[eng])
		}
		// engines identical (raw slots)
		a, b := res.out["interpreter"], res.out["compiler"]
		for k := range a {
			if fmt.Sprint(canonObs(c, a[k])) != fmt.Sprint(canonObs(c, b[k])) {
				sig := fmt.Sprintf("C08:engines-differ:%s:%s", c.Style, strings.SplitN(a[k].Name, "/", 2)[0])
				if engineDiffIsF5(c, a[k], b[k]) {
					sig = "F5:engines-differ-on-reflect-int32-result"
				}
				rep.Violate(hx.Violation{Kind: "impl-violation", Signature: sig, What: "interpreter and compiler observations differ for " + a[k].Name,
					Input: caseInput(c), Expected: a[k], Actual: b[k]})
			}
		}
		// slice sizing (tie B with the Lean stackview model): len(stack) seen by the stack styles
		if c.Style == "gofunc" || c.Style == "gomodfunc" {
			want := orc.Askf("c08 slicesize %d %d", len(c.P), len(c.R))
			for _, eng := range []string{"interpreter", "compiler"} {
				for _, l := range res.lens[eng] {
					if fmt.Sprint(l) != want {
						rep.Violate(hx.Violation{Kind: "correspondence", Signature: "C08:host-stack-length:" + eng,
							What: "len(stack) seen by the host function differs from max(params, results)", Input: caseInput(c), Expected: want, Actual: l})
					}
				}
			}
		}
	}
}

// canonObs canonicalises the result slots of the value-returning calls (raw non-canonical slots are
// judged per engine).
func canonObs(c *e2eCase, o obs) obs {
	base := strings.SplitN(o.Name, "/", 2)[0]
	if (base == "inner" || base == "cb" || base == "konst") && len(o.Results) == len(c.R) {
		r := make([]uint64, len(o.Results))
		for i := range r {
			r[i] = canon(c.R[i], o.Results[i])
		}
		o.Results = r
	}
	return o
}

// engineDiffIsF5: the two engines differ only in result slots of reflected int32 results holding a
// negative value, the interpreter showing the sign-extended slot or its consequence in a wasm comparison.
func engineDiffIsF5(c *e2eCase, interp, comp obs) bool {
	if !strings.HasPrefix(c.Style, "reflect") || interp.Err != "" || comp.Err != "" || len(interp.Results) != len(comp.Results) {
		return false
	}
	if fmt.Sprint(interp.Seen) != fmt.Sprint(comp.Seen) {
		return false
	}
	np := len(c.P)
	base := strings.SplitN(interp.Name, "/", 2)[0]
	if base == "cmp" {
		d := interp.Results[0] ^ comp.Results[0]
		for i := range c.R {
			if d>>uint(i)&1 == 1 && !(c.R[i] == tI32 && c.Signed[np+i] && c.VR[i]&0x80000000 != 0) {
				return false
			}
		}
		return d>>uint(len(c.R)) == 0
	}
	if base != "inner" && base != "cb" && base != "konst" {
		return false
	}
	for i := range interp.Results {
		if interp.Results[i] == comp.Results[i] {
			continue
		}
		if !(c.R[i] == tI32 && c.Signed[np+i] && c.VR[i]&0x80000000 != 0 &&
			interp.Results[i] == c.VR[i]|0xffffffff00000000 && comp.Results[i] == c.VR[i]) {
			return false
		}
	}
	return true
}

func bucket(n int) string {
	switch {
	case n == 0:
		return "0"
	case n <= 6:
		return "1-6"
	case n <= 10:
		return "7-10"
	case n <= 20:
		return "11-20"
	}
	return "21-40"
}
