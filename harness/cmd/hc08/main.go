// hc08: correspondence + monitor harness for C08 (values cross the host/guest boundary unchanged).
//
// Tie A is checked by the driver (regenerated api codecs and register lists + the Lean theorems about
// them). This program adds
//
//	tie B: compiled api.Encode*/Decode*, the real callGoFunc, the CPU's float32->float64->float32, the
//	       real backend.FunctionABI.Init and GoFunctionCallRequiredStackSize, and the length of the
//	       param/result slice a stack-based host function sees, each against the Lean model (oracle topic c08);
//	tie C: the property's own predicate on the real code, unit level (callGoFunc per kind) and end to
//	       end on both engines (see e2e.go): the host sees exactly what the guest passed and vice versa,
//	       bit for bit, for every definition style and calling form; engines identical.
//
// Finding switches: the witnesses of F5/F6 are replayed first on the real callGoFunc; the variant of
// the Lean model that the tree exhibits (as-is or repaired, per finding) is the one the correspondence
// uses. The monitors always test the property itself, so an unrepaired tree reports F5/F6 (known
// findings) and a repaired one reports nothing.
package main

import (
	"bytes"
	"context"
	"encoding/json"
	"flag"
	"fmt"
	"math/rand"
	"os"
	"os/exec"
	"path/filepath"
	"strings"
	"time"

	"github.com/tetratelabs/wazero/verifharness/hx"
)

var (
	e2eChild = flag.Bool("e2e-child", false, "internal: run only the end-to-end part and write its partial report to -e2e-out")
	e2eOut   = flag.String("e2e-out", "", "internal: partial report path of the end-to-end child")
)

// partial is what the end-to-end child hands back to the parent.
type partial struct {
	Distinct    map[string]int `json:"distinct"`
	Evaluations int            `json:"evaluations"`
	Hist        map[string]int `json:"hist"`
	Violations  []hx.Violation `json:"violations"`
	Notes       []string       `json:"notes"`
	Samples     []any          `json:"samples"`
	OracleOps   int            `json:"oracle_ops"`
}

// runE2EInChild runs the end-to-end part (which executes freshly generated machine code) in a child
// process, so that a crash of the code under test becomes a reported violation instead of a harness fault.
func runE2EInChild() {
	dir := *hx.Work
	if dir == "" {
		dir = os.TempDir()
	}
	out := filepath.Join(dir, fmt.Sprintf("hc08-e2e-%d.json", os.Getpid()))
	defer os.Remove(out)
	ctx, cancel := context.WithTimeout(context.Background(), 25*time.Minute)
	defer cancel()
	cmd := exec.CommandContext(ctx, os.Args[0], "-e2e-child", "-e2e-out", out, "-oracle", *hx.OraclePath,
		"-tier", *hx.Tier, "-seed", fmt.Sprint(*hx.Seed))
	cmd.Env = append(os.Environ(), "GOMEMLIMIT=3GiB")
	var stderr bytes.Buffer
	cmd.Stderr = &stderr
	cmd.Stdout = &stderr
	err := cmd.Run()
	tail := stderr.String()
	if len(tail) > 3000 {
		tail = tail[:1500] + "\n...\n" + tail[len(tail)-1500:]
	}
	if err != nil {
		if strings.Contains(tail, "HARNESS-FAULT") || ctx.Err() != nil {
			hx.Fatal("end-to-end child failed: %v\n%s", err, tail)
		}
		rep.Case("e2e/child-crashed")
		rep.Violate(hx.Violation{Kind: "impl-violation", Signature: "C08:e2e-process-crashed",
			What:  "the process running the end-to-end boundary cases crashed (" + err.Error() + "): " + firstLines(tail, 6),
			Input: map[string]any{"seed": *hx.Seed, "tier": *hx.Tier}, Actual: tail})
		return
	}
	raw, err := os.ReadFile(out)
	if err != nil {
		hx.Fatal("end-to-end child wrote no report: %v", err)
	}
	var p partial
	if err := json.Unmarshal(raw, &p); err != nil {
		hx.Fatal("end-to-end child report: %v", err)
	}
	n := 0
	for k, c := range p.Distinct {
		for i := 0; i < c; i++ {
			rep.Case(k)
		}
		n += c
	}
	for ; n < p.Evaluations; n++ {
		rep.Case("")
	}
	for _, v := range p.Violations {
		rep.Violate(v)
	}
	for k, c := range p.Hist {
		if strings.HasPrefix(k, "violation:") {
			rep.Hist[k] = c
		} else {
			rep.Hist[k] += c
		}
	}
	for _, s := range p.Samples {
		rep.Sample(s)
	}
	for _, s := range p.Notes {
		rep.Note("%s", s)
	}
	orc.N += p.OracleOps
}

func firstLines(s string, n int) string {
	l := strings.Split(strings.TrimSpace(s), "\n")
	if len(l) > n {
		l = l[:n]
	}
	return strings.Join(l, " | ")
}

var (
	orc *hx.Oracle
	rep *hx.Report
)

func main() {
	flag.Parse()
	orc = hx.StartOracle()
	defer orc.Close()
	rep = hx.NewReport("C08", "one case = one (api codec, value) | (callGoFunc direction, Go kind, slot/value) | (architecture, parameter type list, result type list) for FunctionABI.Init | (definition style, signature, parameter values, result values) end to end, each run on both engines through 14 calls (Call and CallWithStack x {guest->host, host->guest callback, guest constants, comparisons computed in wasm}); distinct = distinct key; the empty signature is the only trivial case")
	if *e2eChild {
		runE2E(rand.New(rand.NewSource(*hx.Seed + 7919)))
		p := partial{Distinct: rep.Distinct, Evaluations: rep.Evaluations, Hist: rep.Hist, Violations: rep.Violations,
			Notes: rep.Notes, Samples: rep.Samples, OracleOps: orc.N}
		b, err := json.Marshal(p)
		if err != nil {
			hx.Fatal("partial report: %v", err)
		}
		if err := os.WriteFile(*e2eOut, b, 0o644); err != nil {
			hx.Fatal("partial report: %v", err)
		}
		return
	}
	r := hx.Rand()
	variant := detectVariant()
	rep.Note("model variant exhibited by the tree (int32ResultZeroExt, f32ParamExact, f32ResultExact) = %s (000 = pinned tree, 111 = F5 and F6 repaired)", variant)
	rep.Count("variant:" + variant)
	runAPICodecs(r)
	runViaF64(r)
	runCallGoFunc(r, variant)
	runABI(r)
	runE2EInChild()
	rep.Write(orc)
}
