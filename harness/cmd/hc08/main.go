// hc08: correspondence + monitor harness for C08 (values cross the host/guest boundary unchanged).
//
// Tie A is checked by the driver (regenerated api codecs and register lists + the Lean theorems about
// them). This program adds
//
//	tie B: compiled api.Encode*/Decode*, the real callGoFunc, the CPU's float32->float64->float32, the
//	       real backend.FunctionABI.Init and GoFunctionCallRequiredStackSize, and the length of the
//	       param/result slice a stack-based host function sees, each against the Lean model (oracle topic c08);
//	tie C: the property's own predicate on the real code, unit level (callGoFunc per kind) and end to
//	       end on both engines (see e2e.go): the host sees exactly what the guest passed and vice versa,
//	       bit for bit, for every definition style and calling form; engines identical.
//
// Finding switches: the witnesses of F5/F6 are replayed first on the real callGoFunc; the variant of
// the Lean model that the tree exhibits (as-is or repaired, per finding) is the one the correspondence
// uses. The monitors always test the property itself, so an unrepaired tree reports F5/F6 (known
// findings) and a repaired one reports nothing.
package main

import (
	"flag"

	"github.com/tetratelabs/wazero/verifharness/hx"
)

var (
	orc *hx.Oracle
	rep *hx.Report
)

func main() {
	flag.Parse()
	orc = hx.StartOracle()
	defer orc.Close()
	rep = hx.NewReport("C08", "one case = one (api codec, value) | (callGoFunc direction, Go kind, slot/value) | (architecture, parameter type list, result type list) for FunctionABI.Init | (definition style, signature, parameter values, result values) end to end, each run on both engines through 14 calls (Call and CallWithStack x {guest->host, host->guest callback, guest constants, comparisons computed in wasm}); distinct = distinct key; the empty signature is the only trivial case")
	r := hx.Rand()
	variant := detectVariant()
	rep.Note("model variant exhibited by the tree (int32ResultZeroExt, f32ParamExact, f32ResultExact) = %s (000 = pinned tree, 111 = F5 and F6 repaired)", variant)
	rep.Count("variant:" + variant)
	runAPICodecs(r)
	runViaF64(r)
	runCallGoFunc(r, variant)
	runABI(r)
	runE2E(r)
	rep.Write(orc)
}
