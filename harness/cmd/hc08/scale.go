package main

// Scale stage (runs inside the end-to-end child): host modules with MANY functions.  Values cross the boundary
// unchanged only if the function that runs is the one the guest called and it sees the guest's values; the
// compiler reaches a host function through an index packed into an exit code, the interpreter through the
// function index - both must survive every index width (> 2^8 functions, mixed GoFunction / GoModuleFunction /
// reflection-based definitions, with and without function listeners, in one and in several host modules).
// Every host function k records that it ran and what it received, and returns arg ^ tag(k); the guest
// exports one forwarder per import; all are called with Call and CallWithStack.

import (
	"context"
	"fmt"
	"math/rand"
	"sync"
	"sync/atomic"

	"github.com/tetratelabs/wazero"
	"github.com/tetratelabs/wazero/api"
	"github.com/tetratelabs/wazero/experimental"
	"github.com/tetratelabs/wazero/internal/wasm"
	"github.com/tetratelabs/wazero/verifharness/hx"
	"github.com/tetratelabs/wazero/verifharness/wb"
)

func scaleTag(k int) uint64 { return uint64(k)*0x9E3779B97F4A7C15 | 1 }

type nopListenerFactory struct{}

func (nopListenerFactory) NewFunctionListener(api.FunctionDefinition) experimental.FunctionListener {
	return nopListener{}
}

type nopListener struct{}

func (nopListener) Before(context.Context, api.Module, api.FunctionDefinition, []uint64, experimental.StackIterator) {
}
func (nopListener) After(context.Context, api.Module, api.FunctionDefinition, []uint64) {}
func (nopListener) Abort(context.Context, api.Module, api.FunctionDefinition, error)    {}

// runConcurrent: one guest instance per goroutine, all importing the SAME host module (the documented way to use a
// runtime from several goroutines); every goroutine passes values only it uses.  Each host function (three
// definition styles) checks that the three views of one value it received belong together and returns the value:
// whatever a host-function object keeps between "arguments stored" and "function entered" must not be shared.
func runConcurrent(r *rand.Rand) {
	for _, engine := range []string{"interpreter", "compiler"} {
		ctx := context.Background()
		var rc wazero.RuntimeConfig
		if engine == "compiler" {
			rc = wazero.NewRuntimeConfigCompiler()
		} else {
			rc = wazero.NewRuntimeConfigInterpreter()
		}
		rt := wazero.NewRuntimeWithConfig(ctx, rc)
		var mixed atomic.Int64
		var firstBad atomic.Value
		check := func(a, b uint64, c uint32) uint64 {
			if a != b || uint32(a) != c {
				if mixed.Add(1) == 1 {
					firstBad.Store(fmt.Sprintf("host received (%#x, %#x, %#x): never passed together by any guest", a, b, c))
				}
			}
			return a
		}
		i64, i32 := api.ValueTypeI64, api.ValueTypeI32
		_, err := rt.NewHostModuleBuilder("env").
			NewFunctionBuilder().WithFunc(func(_ context.Context, a, b uint64, c uint32) uint64 { return check(a, b, c) }).Export("refl").
			NewFunctionBuilder().WithFunc(func(_ context.Context, _ api.Module, a, b uint64, c uint32) uint64 { return check(a, b, c) }).Export("reflmod").
			NewFunctionBuilder().WithGoFunction(api.GoFunc(func(_ context.Context, st []uint64) { st[0] = check(st[0], st[1], uint32(st[2])) }), []api.ValueType{i64, i64, i32}, []api.ValueType{i64}).Export("gofn").
			NewFunctionBuilder().WithGoModuleFunction(api.GoModuleFunc(func(_ context.Context, _ api.Module, st []uint64) { st[0] = check(st[0], st[1], uint32(st[2])) }), []api.ValueType{i64, i64, i32}, []api.ValueType{i64}).Export("gomod").
			Instantiate(ctx)
		if err != nil {
			hx.Fatal("concurrent: host module: %v", err)
		}
		m := wb.New()
		names := []string{"refl", "reflmod", "gofn", "gomod"}
		for _, n := range names {
			m.ImportFunc("env", n, []byte{wb.I64, wb.I64, wb.I32}, []byte{wb.I64})
		}
		for k, n := range names {
			m.AddFunc(wb.Func{Params: []byte{wb.I64}, Results: []byte{wb.I64}, Export: "call_" + n,
				Body: wb.Cat(wb.LocalGet(0), wb.LocalGet(0), wb.LocalGet(0), wb.Op(wasm.OpcodeI32WrapI64), wb.Call(uint32(k)))})
		}
		cm, err := rt.CompileModule(ctx, m.Bytes())
		if err != nil {
			hx.Fatal("concurrent: guest: %v", err)
		}
		const G = 8
		per := 4000
		if hx.Thorough() {
			per = 60000
		}
		var wrong atomic.Int64
		var firstWrong atomic.Value
		var wg sync.WaitGroup
		for g := 0; g < G; g++ {
			inst, err := rt.InstantiateModule(ctx, cm, wazero.NewModuleConfig().WithName(""))
			if err != nil {
				hx.Fatal("concurrent: instantiate: %v", err)
			}
			wg.Add(1)
			go func(g int, inst api.Module) {
				defer wg.Done()
				fns := make([]api.Function, len(names))
				for k, n := range names {
					fns[k] = inst.ExportedFunction("call_" + n)
				}
				for i := 0; i < per; i++ {
					x := uint64(g+1)<<56 | uint64(i)<<8 | 0x80000000 | uint64(g)
					res, err := fns[i%len(fns)].Call(ctx, x)
					if err != nil || res[0] != x {
						if wrong.Add(1) == 1 {
							firstWrong.Store(fmt.Sprintf("goroutine %d passed %#x to env.%s and got back %v (%v)", g, x, names[i%len(names)], res, err))
						}
					}
				}
			}(g, inst)
		}
		wg.Wait()
		rt.Close(ctx)
		rep.Case("concurrent/" + engine)
		rep.Count(fmt.Sprintf("concurrent:%s:calls=%d", engine, G*per))
		if mixed.Load() > 0 || wrong.Load() > 0 {
			what := fmt.Sprintf("%d of %d concurrent host calls (8 goroutines, one instance each, values unique per goroutine) received or returned another call's values", mixed.Load()+wrong.Load(), G*per)
			if v := firstBad.Load(); v != nil {
				what += "; e.g. " + v.(string)
			}
			if v := firstWrong.Load(); v != nil {
				what += "; e.g. " + v.(string)
			}
			rep.Violate(hx.Violation{Kind: "impl-violation", Signature: "C08:concurrent-host-calls-mix-values:" + engine, What: what,
				Input: map[string]any{"stage": "concurrent", "engine": engine, "goroutines": G, "calls_per_goroutine": per}})
		}
	}
}

func runScale(r *rand.Rand) {
	sizes := []int{300, 70}
	if hx.Thorough() {
		sizes = []int{300, 1000, 257, 70}
	}
	for _, n := range sizes {
		for _, engine := range []string{"interpreter", "compiler"} {
			for _, listener := range []bool{false, true} {
				scaleOne(r, n, engine, listener)
			}
		}
	}
}

func scaleOne(r *rand.Rand, n int, engine string, listener bool) {
	ctx := context.Background()
	if listener {
		ctx = experimental.WithFunctionListenerFactory(ctx, nopListenerFactory{})
	}
	var rc wazero.RuntimeConfig
	if engine == "compiler" {
		rc = wazero.NewRuntimeConfigCompiler()
	} else {
		rc = wazero.NewRuntimeConfigInterpreter()
	}
	rt := wazero.NewRuntimeWithConfig(ctx, rc)
	defer rt.Close(ctx)
	key := fmt.Sprintf("scale/%s/n=%d/listener=%v", engine, n, listener)
	input := map[string]any{"stage": "scale", "engine": engine, "host_functions": n, "listener": listener}
	fail := func(sig, what string) {
		rep.Violate(hx.Violation{Kind: "impl-violation", Signature: "C08:" + sig + ":" + engine, What: what, Input: input})
	}

	var lastRan int
	var lastArg uint64
	ran := make([]int, n)
	hb := rt.NewHostModuleBuilder("env")
	i64 := []api.ValueType{api.ValueTypeI64}
	for k := 0; k < n; k++ {
		k := k
		body := func(arg uint64) uint64 {
			ran[k]++
			lastRan, lastArg = k, arg
			return arg ^ scaleTag(k)
		}
		switch k % 3 {
		case 0:
			hb.NewFunctionBuilder().WithGoFunction(api.GoFunc(func(_ context.Context, st []uint64) { st[0] = body(st[0]) }), i64, i64).Export(fmt.Sprintf("f%d", k))
		case 1:
			hb.NewFunctionBuilder().WithGoModuleFunction(api.GoModuleFunc(func(_ context.Context, _ api.Module, st []uint64) { st[0] = body(st[0]) }), i64, i64).Export(fmt.Sprintf("f%d", k))
		default:
			hb.NewFunctionBuilder().WithFunc(func(_ context.Context, a uint64) uint64 { return body(a) }).Export(fmt.Sprintf("f%d", k))
		}
	}
	if _, err := hb.Instantiate(ctx); err != nil {
		hx.Fatal("scale: host module with %d functions: %v", n, err)
	}
	// the guest imports them in a shuffled order (import index != export order of the host module)
	order := r.Perm(n)
	m := wb.New()
	imp := make([]uint32, n)
	for _, k := range order {
		imp[k] = m.ImportFunc("env", fmt.Sprintf("f%d", k), []byte{wb.I64}, []byte{wb.I64})
	}
	for k := 0; k < n; k++ {
		m.AddFunc(wb.Func{Params: []byte{wb.I64}, Results: []byte{wb.I64}, Export: fmt.Sprintf("c%d", k), Body: wb.Cat(wb.LocalGet(0), wb.Call(imp[k]))})
		// ... and the import itself, re-exported: called from Go it is reached without any guest code in between (the
		// import's position in THIS module, its index in the host module and its export order there all differ)
		m.M.ExportSection = append(m.M.ExportSection, wasm.Export{Name: fmt.Sprintf("r%d", k), Type: wasm.ExternTypeFunc, Index: imp[k]})
	}
	mod, err := rt.Instantiate(ctx, m.Bytes())
	if err != nil {
		hx.Fatal("scale: guest with %d imports: %v", n, err)
	}
	bad := 0
	for k := 0; k < n && bad < 5; k++ {
		arg := r.Uint64()
		for way := 0; way < 4 && bad < 5; way++ {
			lastRan, lastArg = -1, 0
			var got uint64
			var cerr error
			fn := mod.ExportedFunction(fmt.Sprintf("c%d", k))
			if way >= 2 {
				fn = mod.ExportedFunction(fmt.Sprintf("r%d", k))
			}
			if way%2 == 0 {
				var res []uint64
				res, cerr = fn.Call(ctx, arg)
				if cerr == nil {
					got = res[0]
				}
			} else {
				st := []uint64{arg}
				cerr = fn.CallWithStack(ctx, st)
				got = st[0]
			}
			rep.Case(key)
			switch {
			case cerr != nil:
				bad++
				fail("scale-host-call-fails", fmt.Sprintf("guest forwarder c%d -> env.f%d(%#x) of a host module with %d functions fails: %v", k, k, arg, n, cerr))
			case lastRan != k:
				bad++
				fail("scale-wrong-host-function-entered", fmt.Sprintf("env.f%d(%#x) of a host module with %d functions called through the %s: host function f%d was entered", k, arg, n, []string{"guest forwarder", "guest forwarder", "guest's re-export of the import", "guest's re-export of the import"}[way], lastRan))
			case lastArg != arg || got != arg^scaleTag(k):
				bad++
				fail("scale-value-changed", fmt.Sprintf("env.f%d: host received %#x (guest passed %#x); guest got %#x, want %#x", k, lastArg, arg, got, arg^scaleTag(k)))
			}
		}
	}
	rep.Count(fmt.Sprintf("scale:%s:n=%d", engine, n))
}
