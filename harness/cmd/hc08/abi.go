package main

// Tie B for the ABI model: the real backend.FunctionABI.Init (with the register lists the real machines
// report through backend.Machine.ArgsResultsRegs) against the Lean abiInit, field by field, on all
// signatures up to a small arity over {i32,i64,f32,f64,v128}, structured cliff signatures and random
// ones up to arity 40; plus backend.GoFunctionCallRequiredStackSize against the Lean
// goCallRequiredStackSize. Tie C: the property's own predicates (no shared register, no overlapping
// stack bytes, stack arguments inside the declared size) evaluated on the real result.

import (
	"fmt"
	"math/rand"
	"strings"

	"github.com/tetratelabs/wazero/internal/engine/wazevo/backend"
	"github.com/tetratelabs/wazero/internal/engine/wazevo/backend/isa/amd64"
	"github.com/tetratelabs/wazero/internal/engine/wazevo/backend/isa/arm64"
	"github.com/tetratelabs/wazero/internal/engine/wazevo/backend/regalloc"
	"github.com/tetratelabs/wazero/internal/engine/wazevo/ssa"
	"github.com/tetratelabs/wazero/verifharness/hx"
)

var abiTypes = []ssa.Type{ssa.TypeI32, ssa.TypeI64, ssa.TypeF32, ssa.TypeF64, ssa.TypeV128}

func ssaName(t ssa.Type) string {
	switch t {
	case ssa.TypeI32:
		return "i32"
	case ssa.TypeI64:
		return "i64"
	case ssa.TypeF32:
		return "f32"
	case ssa.TypeF64:
		return "f64"
	case ssa.TypeV128:
		return "v128"
	}
	return "?"
}

func ssaNames(ts []ssa.Type) string {
	if len(ts) == 0 {
		return "-"
	}
	s := make([]string, len(ts))
	for i, t := range ts {
		s[i] = ssaName(t)
	}
	return strings.Join(s, ",")
}

func dumpArgs(as []backend.ABIArg) string {
	s := make([]string, len(as))
	for i := range as {
		a := &as[i]
		if a.Kind == backend.ABIArgKindReg {
			s[i] = fmt.Sprintf("%d:r%d", a.Index, a.Reg.RealReg())
		} else {
			s[i] = fmt.Sprintf("%d:s%d", a.Index, a.Offset)
		}
	}
	return "[" + strings.Join(s, ",") + "]"
}

func dumpABI(a *backend.FunctionABI) string {
	aligned, info := "panic", "panic"
	func() {
		defer func() { recover() }()
		aligned = fmt.Sprint(a.AlignedArgResultStackSlotSize())
		info = fmt.Sprint(a.ABIInfoAsUint64())
	}()
	return fmt.Sprintf("args=%s rets=%s ass=%d rss=%d ai=%d af=%d ri=%d rf=%d aligned=%s info=%s",
		dumpArgs(a.Args), dumpArgs(a.Rets), a.ArgStackSize, a.RetStackSize,
		a.ArgIntRealRegs, a.ArgFloatRealRegs, a.RetIntRealRegs, a.RetFloatRealRegs, aligned, info)
}

// abiMonitor evaluates the property's predicates on the real locations.
func abiMonitor(arch string, what string, as []backend.ABIArg, size int64, ints, floats []regalloc.RealReg) string {
	type span struct{ lo, hi int64 }
	regs := map[regalloc.VReg]int{}
	var spans []span
	ni, nf := 0, 0
	for i := range as {
		a := &as[i]
		if a.Index != i {
			return fmt.Sprintf("%s[%d] has index %d", what, i, a.Index)
		}
		if a.Kind == backend.ABIArgKindReg {
			if j, dup := regs[a.Reg]; dup {
				return fmt.Sprintf("%s[%d] and %s[%d] share register %v", what, j, what, i, a.Reg)
			}
			regs[a.Reg] = i
			if a.Type.IsInt() {
				ni++
			} else {
				nf++
			}
			if (a.Reg.RegType() == regalloc.RegTypeInt) != a.Type.IsInt() {
				return fmt.Sprintf("%s[%d] of type %s is in a register of the other class", what, i, a.Type)
			}
		} else {
			sz := int64(8)
			if a.Type == ssa.TypeV128 {
				sz = 16
			}
			s := span{a.Offset, a.Offset + sz}
			if s.lo < 0 || s.hi > size {
				return fmt.Sprintf("%s[%d] at stack bytes [%d,%d) is outside [0,%d)", what, i, s.lo, s.hi, size)
			}
			for _, o := range spans {
				if s.lo < o.hi && o.lo < s.hi {
					return fmt.Sprintf("%s[%d] overlaps another stack slot at [%d,%d)", what, i, s.lo, s.hi)
				}
			}
			spans = append(spans, s)
		}
	}
	if ni > len(ints) || nf > len(floats) {
		return fmt.Sprintf("%s uses %d int / %d float registers, lists have %d / %d", what, ni, nf, len(ints), len(floats))
	}
	return ""
}

func runABI(r *rand.Rand) {
	type arch struct {
		name         string
		ints, floats []regalloc.RealReg
	}
	ai, af := amd64.NewBackend().ArgsResultsRegs()
	bi, bf := arm64.NewBackend().ArgsResultsRegs()
	archs := []arch{{"amd64", ai, af}, {"arm64", bi, bf}}
	for _, a := range archs {
		// the regenerated lists are the lists the real machine reports
		got := fmt.Sprintf("%v %v", fmtRegs(a.ints), fmtRegs(a.floats))
		want := orc.Askf("c08 regs %s", a.name)
		rep.Case("abi/regs/" + a.name)
		if got != want {
			rep.Violate(hx.Violation{Kind: "correspondence", Signature: "C08:abi-register-lists-differ:" + a.name,
				What: "ArgsResultsRegs() of the real machine differs from the regenerated lists", Expected: want, Actual: got})
		}
	}
	maxLen := 6
	nRandom := 400
	if hx.Thorough() {
		maxLen, nRandom = 7, 5000
	}
	var lists [][]ssa.Type
	var rec func(cur []ssa.Type)
	rec = func(cur []ssa.Type) {
		lists = append(lists, append([]ssa.Type{}, cur...))
		if len(cur) == maxLen {
			return
		}
		for _, t := range abiTypes {
			rec(append(cur, t))
		}
	}
	rec(nil)
	nExh := len(lists)
	// cliffs: k ints then m floats (and the reverse), every element type
	for k := 0; k <= 12; k++ {
		for m := 0; m <= 11; m++ {
			for _, it := range []ssa.Type{ssa.TypeI32, ssa.TypeI64} {
				for _, ft := range []ssa.Type{ssa.TypeF32, ssa.TypeF64, ssa.TypeV128} {
					var l []ssa.Type
					for i := 0; i < k; i++ {
						l = append(l, it)
					}
					for i := 0; i < m; i++ {
						l = append(l, ft)
					}
					lists = append(lists, l)
					rev := make([]ssa.Type, len(l))
					for i := range l {
						rev[len(l)-1-i] = l[i]
					}
					lists = append(lists, rev)
				}
			}
		}
	}
	for i := 0; i < nRandom; i++ {
		n := r.Intn(41)
		l := make([]ssa.Type, n)
		for j := range l {
			l[j] = abiTypes[r.Intn(len(abiTypes))]
		}
		lists = append(lists, l)
	}
	rep.Note("abi: %d type lists (%d exhaustive up to length %d) x 2 architectures", len(lists), nExh, maxLen)
	for li, l := range lists {
		// results: the reversed list (both directions are exercised by every list)
		res := make([]ssa.Type, len(l))
		for i := range l {
			res[len(l)-1-i] = l[i]
		}
		if li%3 == 1 && len(l) > 0 {
			res = res[:len(res)/2]
		}
		for _, a := range archs {
			sig := &ssa.Signature{Params: l, Results: res}
			abi := &backend.FunctionABI{}
			abi.Init(sig, a.ints, a.floats)
			got := dumpABI(abi)
			want := orc.Askf("c08 abi %s %s %s", a.name, ssaNames(l), ssaNames(res))
			key := fmt.Sprintf("abi/%s/%s/%s", a.name, ssaNames(l), ssaNames(res))
			rep.Case(key)
			rep.Count("abi:" + a.name + ":len:" + bucket(len(l)))
			if abi.ArgStackSize > 0 {
				rep.Count("abi:" + a.name + ":has-stack-args")
			}
			if (abi.ArgStackSize+abi.RetStackSize)%16 != 0 {
				rep.Count("abi:" + a.name + ":odd-stack-alignment")
			}
			in := map[string]any{"arch": a.name, "params": ssaNames(l), "results": ssaNames(res)}
			if got != want {
				rep.Violate(hx.Violation{Kind: "correspondence", Signature: "C08:abi-init-differs-from-model:" + a.name,
					What: "FunctionABI.Init differs from the Lean abiInit", Input: in, Expected: want, Actual: got})
			}
			if msg := abiMonitor(a.name, "arg", abi.Args, abi.ArgStackSize, a.ints, a.floats); msg != "" {
				rep.Violate(hx.Violation{Kind: "impl-violation", Signature: "C08:abi-locations-collide:" + a.name + ":args", What: msg, Input: in, Actual: got})
			}
			if msg := abiMonitor(a.name, "ret", abi.Rets, abi.RetStackSize, a.ints, a.floats); msg != "" {
				rep.Violate(hx.Violation{Kind: "impl-violation", Signature: "C08:abi-locations-collide:" + a.name + ":rets", What: msg, Input: in, Actual: got})
			}
		}
		// Go-call slice size (architecture independent); argBegin 0..2
		for argBegin := 0; argBegin <= 2 && argBegin <= len(l); argBegin++ {
			sig := &ssa.Signature{Params: l, Results: res}
			al, un := backend.GoFunctionCallRequiredStackSize(sig, argBegin)
			got := fmt.Sprintf("%d %d", al, un)
			want := orc.Askf("c08 gocallsize %s %s", ssaNames(l[argBegin:]), ssaNames(res))
			rep.Case(fmt.Sprintf("gocallsize/%d/%s/%s", argBegin, ssaNames(l), ssaNames(res)))
			if got != want {
				rep.Violate(hx.Violation{Kind: "correspondence", Signature: "C08:go-call-stack-size-differs-from-model",
					What:  "GoFunctionCallRequiredStackSize differs from the Lean goCallRequiredStackSize",
					Input: map[string]any{"params": ssaNames(l), "results": ssaNames(res), "argBegin": argBegin}, Expected: want, Actual: got})
			}
		}
	}
}

func fmtRegs(rs []regalloc.RealReg) string {
	s := make([]string, len(rs))
	for i, r := range rs {
		s[i] = fmt.Sprint(int(r))
	}
	return "[" + strings.Join(s, ", ") + "]"
}
