package main

// Unit-level ties of hc08:
//   - tie A/B: api.Encode*/Decode* (compiled functions) vs the regenerated Lean definitions, boundary grid;
//   - tie B: the real callGoFunc (through wasm.MustParseGoReflectFuncCode(...).GoFunc.Call on statically
//     typed Go functions) vs the Lean decodeParam/encodeResult in the variant the tree exhibits, plus the
//     property's predicate (tie C) on every value: the host sees the slot's value bit for bit, the slot
//     holds the returned value bit for bit and is canonical;
//   - tie B: float32(float64(x)) of the CPU vs the Lean viaF64 (sample through the oracle; exhaustive over
//     all 2^32 patterns against the Go mirror of viaF64 in the thorough tier).

import (
	"context"
	"fmt"
	"math"
	"math/rand"
	"sync"
	"sync/atomic"

	"github.com/tetratelabs/wazero/api"
	"github.com/tetratelabs/wazero/internal/wasm"
	"github.com/tetratelabs/wazero/verifharness/hx"
)

// ---- api codecs ----

func runAPICodecs(r *rand.Rand) {
	vals := []uint64{0, 1, 2, 0x7f, 0x80, 0xff, 0x7fff, 0x8000, 0xffff, 0x7fffffff, 0x80000000, 0x80000001, 0xfffffffe, 0xffffffff,
		0x100000000, 0x1ffffffff, 0x7fffffff00000000, 0x8000000000000000, 0x80000000ffffffff, 0xffffffff00000000, 0xffffffff7fffffff,
		0xffffffff80000000, 0xfffffffffffffffe, 0xffffffffffffffff, 0x7fa00001, 0x7fc00000, 0x7ff4000000000001, 0xdeadbeefcafef00d}
	for i := 0; i < 200; i++ {
		vals = append(vals, r.Uint64())
	}
	type fn struct {
		name string
		in32 bool
		f    func(uint64) uint64
	}
	fns := []fn{
		{"EncodeI32", true, func(x uint64) uint64 { return api.EncodeI32(int32(uint32(x))) }},
		{"DecodeI32", false, func(x uint64) uint64 { return uint64(uint32(api.DecodeI32(x))) }},
		{"EncodeU32", true, func(x uint64) uint64 { return api.EncodeU32(uint32(x)) }},
		{"DecodeU32", false, func(x uint64) uint64 { return uint64(api.DecodeU32(x)) }},
		{"EncodeI64", false, func(x uint64) uint64 { return api.EncodeI64(int64(x)) }},
		{"EncodeExternref", false, func(x uint64) uint64 { return api.EncodeExternref(uintptr(x)) }},
		{"DecodeExternref", false, func(x uint64) uint64 { return uint64(api.DecodeExternref(x)) }},
		{"EncodeF32", true, func(x uint64) uint64 { return api.EncodeF32(math.Float32frombits(uint32(x))) }},
		{"DecodeF32", false, func(x uint64) uint64 { return uint64(math.Float32bits(api.DecodeF32(x))) }},
		{"EncodeF64", false, func(x uint64) uint64 { return api.EncodeF64(math.Float64frombits(x)) }},
		{"DecodeF64", false, func(x uint64) uint64 { return math.Float64bits(api.DecodeF64(x)) }},
	}
	for _, f := range fns {
		for _, v := range vals {
			x := v
			if f.in32 {
				x &= 0xffffffff
			}
			got := fmt.Sprintf("0x%x", f.f(x))
			want := orc.Askf("c08 api %s 0x%x", f.name, x)
			rep.Case(fmt.Sprintf("api/%s/%x", f.name, x))
			rep.Count("api:" + f.name)
			if got != want {
				rep.Violate(hx.Violation{Kind: "correspondence", Signature: "C08:api-codec-differs:" + f.name,
					What: "compiled api." + f.name + " differs from the Lean definition", Input: fmt.Sprintf("0x%x", x), Expected: want, Actual: got})
			}
			// property predicate: encoders of 32-bit types give canonical slots and decode back
			switch f.name {
			case "EncodeI32", "EncodeU32", "EncodeF32":
				if f.f(x) != x {
					rep.Violate(hx.Violation{Kind: "impl-violation", Signature: "C08:api-encoder-not-canonical:" + f.name,
						What: "api." + f.name + " does not produce the zero-extended bit pattern", Input: fmt.Sprintf("0x%x", x),
						Expected: fmt.Sprintf("0x%x", x), Actual: got})
				}
			case "DecodeI32", "DecodeU32", "DecodeF32":
				if f.f(x) != x&0xffffffff {
					rep.Violate(hx.Violation{Kind: "impl-violation", Signature: "C08:api-decoder-wrong:" + f.name,
						What: "api." + f.name + " does not return the low 32 bits", Input: fmt.Sprintf("0x%x", x),
						Expected: fmt.Sprintf("0x%x", x&0xffffffff), Actual: got})
				}
			default:
				if f.f(x) != x {
					rep.Violate(hx.Violation{Kind: "impl-violation", Signature: "C08:api-codec-not-identity:" + f.name,
						What: "api." + f.name + " changes the bit pattern", Input: fmt.Sprintf("0x%x", x), Expected: fmt.Sprintf("0x%x", x), Actual: got})
				}
			}
		}
	}
}

// ---- callGoFunc ----

// statically typed host functions, one per accepted kind and direction; bits are taken without any
// floating-point conversion.
var (
	unitSeen uint64
	unitRet  uint64
)

type kindFns struct {
	kind   string
	vt     byte
	param  any
	result any
}

var unitKinds = []kindFns{
	{"int32", tI32, func(x int32) { unitSeen = uint64(uint32(x)) }, func() int32 { return int32(uint32(unitRet)) }},
	{"uint32", tI32, func(x uint32) { unitSeen = uint64(x) }, func() uint32 { return uint32(unitRet) }},
	{"int64", tI64, func(x int64) { unitSeen = uint64(x) }, func() int64 { return int64(unitRet) }},
	{"uint64", tI64, func(x uint64) { unitSeen = x }, func() uint64 { return unitRet }},
	{"float32", tF32, func(x float32) { unitSeen = uint64(math.Float32bits(x)) }, func() float32 { return math.Float32frombits(uint32(unitRet)) }},
	{"float64", tF64, func(x float64) { unitSeen = math.Float64bits(x) }, func() float64 { return math.Float64frombits(unitRet) }},
	{"uintptr", tExt, func(x uintptr) { unitSeen = uint64(x) }, func() uintptr { return uintptr(unitRet) }},
}

func callParam(k kindFns, raw uint64) uint64 {
	code := wasm.MustParseGoReflectFuncCode(k.param)
	stack := []uint64{raw}
	unitSeen = 0x5555555555555555
	code.GoFunc.(api.GoFunction).Call(context.Background(), stack)
	return unitSeen
}

func callResult(k kindFns, x uint64) uint64 {
	code := wasm.MustParseGoReflectFuncCode(k.result)
	stack := []uint64{0x5555555555555555}
	unitRet = x
	code.GoFunc.(api.GoFunction).Call(context.Background(), stack)
	return stack[0]
}

// detectVariant replays the witnesses of F5 and F6 on the real callGoFunc and returns the model variant
// ("abc": int32ResultZeroExt, f32ParamExact, f32ResultExact) the tree exhibits.
func detectVariant() string {
	bit := func(b bool) string {
		if b {
			return "1"
		}
		return "0"
	}
	f5 := callResult(unitKinds[0], 0xffffffff) == 0xffffffff
	f6p := callParam(unitKinds[4], 0x7fa00001) == 0x7fa00001
	f6r := callResult(unitKinds[4], 0x7fa00001) == 0x7fa00001
	return bit(f5) + bit(f6p) + bit(f6r)
}

func poolOf(vt byte) []uint64 {
	switch vt {
	case tI32:
		return i32Pool
	case tI64:
		return i64Pool
	case tF32:
		return f32Pool
	case tF64:
		return f64Pool
	}
	return extPool
}

func runCallGoFunc(r *rand.Rand, variant string) {
	nRand := 300
	if hx.Thorough() {
		nRand = 20000
	}
	for _, k := range unitKinds {
		vals := append([]uint64{}, poolOf(k.vt)...)
		for i := 0; i < nRand; i++ {
			vals = append(vals, canon(k.vt, r.Uint64()))
		}
		if k.vt == tF32 {
			// every exponent with a few fractions, both signs: all NaN classes and the subnormal range
			for e := uint64(0); e < 256; e++ {
				for _, f := range []uint64{0, 1, 0x200000, 0x3fffff, 0x400000, 0x400001, 0x7fffff} {
					vals = append(vals, e<<23|f, 1<<31|e<<23|f)
				}
			}
		}
		for _, x := range vals {
			// parameter direction, canonical slot and (32-bit kinds) a slot with a dirty upper half
			raws := []uint64{x}
			if is32(k.vt) {
				raws = append(raws, x|0xdeadbeef00000000)
			}
			for _, raw := range raws {
				got := callParam(k, raw)
				want := orc.Askf("c08 param %s %s 0x%x", variant, k.kind, raw)
				rep.Case(fmt.Sprintf("callGoFunc/param/%s/%x", k.kind, raw))
				rep.Count("callGoFunc:param:" + valClass(k.vt, x))
				if fmt.Sprintf("0x%x", got) != want {
					rep.Violate(hx.Violation{Kind: "correspondence", Signature: "C08:callGoFunc-param-differs-from-model:" + k.kind,
						What:  "parameter conversion of callGoFunc differs from the Lean decodeParam (variant " + variant + ")",
						Input: map[string]any{"kind": k.kind, "slot": fmt.Sprintf("0x%x", raw)}, Expected: want, Actual: fmt.Sprintf("0x%x", got)})
				}
				if got != x {
					sig := "C08:callGoFunc-param-changed:" + k.kind
					if k.kind == "float32" && isSNaN32(x) && got == x|0x00400000 {
						sig = "F6:reflect-float32-param-snan-quieted"
					}
					rep.Violate(hx.Violation{Kind: "impl-violation", Signature: sig,
						What:  fmt.Sprintf("callGoFunc: %s parameter from slot 0x%x arrived as 0x%x", k.kind, raw, got),
						Input: map[string]any{"kind": k.kind, "slot": fmt.Sprintf("0x%x", raw)}, Expected: fmt.Sprintf("0x%x", x), Actual: fmt.Sprintf("0x%x", got)})
				}
			}
			// result direction
			got := callResult(k, x)
			want := orc.Askf("c08 result %s %s 0x%x", variant, k.kind, x)
			rep.Case(fmt.Sprintf("callGoFunc/result/%s/%x", k.kind, x))
			rep.Count("callGoFunc:result:" + valClass(k.vt, x))
			if fmt.Sprintf("0x%x", got) != want {
				rep.Violate(hx.Violation{Kind: "correspondence", Signature: "C08:callGoFunc-result-differs-from-model:" + k.kind,
					What:  "result conversion of callGoFunc differs from the Lean encodeResult (variant " + variant + ")",
					Input: map[string]any{"kind": k.kind, "value": fmt.Sprintf("0x%x", x)}, Expected: want, Actual: fmt.Sprintf("0x%x", got)})
			}
			if got != x {
				sig := "C08:callGoFunc-result-changed:" + k.kind
				if k.kind == "float32" && isSNaN32(x) && got == x|0x00400000 {
					sig = "F6:reflect-float32-result-snan-quieted"
				}
				if k.kind == "int32" && x&0x80000000 != 0 && got == x|0xffffffff00000000 {
					sig = "F5:reflect-int32-result-slot-sign-extended"
				}
				rep.Violate(hx.Violation{Kind: "impl-violation", Signature: sig,
					What:  fmt.Sprintf("callGoFunc: %s result 0x%x stored as slot 0x%x", k.kind, x, got),
					Input: map[string]any{"kind": k.kind, "value": fmt.Sprintf("0x%x", x)}, Expected: fmt.Sprintf("0x%x", x), Actual: fmt.Sprintf("0x%x", got)})
			}
			// the consequence in wasm (model): the interpreter compares the whole slot
			if k.kind == "int32" {
				for _, eng := range []string{"interpreter", "compiler"} {
					ne := orc.Askf("c08 ne %s 0x%x 0x%x", eng, got, x)
					rep.Count("model:ne:" + eng + ":" + ne)
				}
			}
		}
	}
}

// ---- float32 through float64 on this CPU ----

//go:noinline
func widen(x float32) float64 { return float64(x) }

//go:noinline
func narrow(x float64) float32 { return float32(x) }

func cpuViaF64(b uint32) uint32 { return math.Float32bits(narrow(widen(math.Float32frombits(b)))) }

// viaF64Mirror mirrors Wz.Model.Marshal.viaF64 (compared with the oracle on a sample below).
func viaF64Mirror(b uint32) uint32 {
	if b&0x7f800000 == 0x7f800000 && b&0x007fffff != 0 {
		return b | 0x00400000
	}
	return b
}

func runViaF64(r *rand.Rand) {
	var vals []uint32
	for _, v := range f32Pool {
		vals = append(vals, uint32(v))
	}
	for e := uint32(0); e < 256; e++ {
		for _, f := range []uint32{0, 1, 2, 0x1fffff, 0x200000, 0x3fffff, 0x400000, 0x400001, 0x7ffffe, 0x7fffff} {
			vals = append(vals, e<<23|f, 1<<31|e<<23|f)
		}
	}
	for i := 0; i < 2000; i++ {
		vals = append(vals, r.Uint32())
	}
	for _, b := range vals {
		want := orc.Askf("c08 viaf64 0x%x", b)
		rep.Case(fmt.Sprintf("viaf64/%x", b))
		rep.Count("viaf64:" + valClass(tF32, uint64(b)))
		if got := fmt.Sprintf("0x%x", cpuViaF64(b)); got != want {
			rep.Violate(hx.Violation{Kind: "correspondence", Signature: "C08:viaF64-cpu-differs", What: "float32(float64(x)) on this CPU differs from the Lean viaF64",
				Input: fmt.Sprintf("0x%x", b), Expected: want, Actual: got})
		}
		if got := fmt.Sprintf("0x%x", viaF64Mirror(b)); got != want {
			hx.Fatal("viaF64Mirror differs from the oracle on 0x%x: %s vs %s", b, got, want)
		}
	}
	if !hx.Thorough() {
		return
	}
	// exhaustive: all 2^32 patterns, CPU vs mirror
	var bad atomic.Int64
	var firstBad atomic.Uint64
	var wg sync.WaitGroup
	const parts = 16
	for p := 0; p < parts; p++ {
		wg.Add(1)
		go func(p uint64) {
			defer wg.Done()
			lo, hi := p<<28, (p+1)<<28
			for x := lo; x < hi; x++ {
				if cpuViaF64(uint32(x)) != viaF64Mirror(uint32(x)) {
					if bad.Add(1) == 1 {
						firstBad.Store(x)
					}
				}
			}
		}(uint64(p))
	}
	wg.Wait()
	rep.Note("viaF64: all 2^32 float32 patterns compared with the CPU conversion: %d differences", bad.Load())
	rep.Count("viaf64:exhaustive-2^32")
	if bad.Load() != 0 {
		x := uint32(firstBad.Load())
		rep.Violate(hx.Violation{Kind: "correspondence", Signature: "C08:viaF64-cpu-differs", What: "float32(float64(x)) on this CPU differs from the model (exhaustive sweep)",
			Input: fmt.Sprintf("0x%x", x), Expected: fmt.Sprintf("0x%x", viaF64Mirror(x)), Actual: fmt.Sprintf("0x%x", cpuViaF64(x))})
	}
}
