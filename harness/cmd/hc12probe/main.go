package main

import (
	"context"
	"fmt"

	"github.com/tetratelabs/wazero"
	"github.com/tetratelabs/wazero/api"
	"github.com/tetratelabs/wazero/experimental"
	"github.com/tetratelabs/wazero/verifharness/wb"
)

type lf struct{ name string; n *int }
func (l lf) NewFunctionListener(api.FunctionDefinition) experimental.FunctionListener { return l }
func (l lf) Before(context.Context, api.Module, api.FunctionDefinition, []uint64, experimental.StackIterator) { *l.n++ }
func (l lf) After(context.Context, api.Module, api.FunctionDefinition, []uint64) {}
func (l lf) Abort(context.Context, api.Module, api.FunctionDefinition, error) {}

func main() {
	m := wb.New()
	m.Memory(1, nil, false, "memory")
	m.AddFunc(wb.Func{Params: []byte{wb.I32}, Results: []byte{wb.I32}, Export: "grow", Body: wb.Cat(wb.LocalGet(0), wb.MemoryGrow())})
	bin := m.Bytes()
	for _, eng := range []string{"compiler", "interp"} {
		ctx := context.Background()
		cache := wazero.NewCompilationCache()
		mk := func() wazero.RuntimeConfig {
			if eng == "compiler" { return wazero.NewRuntimeConfigCompiler().WithCompilationCache(cache) }
			return wazero.NewRuntimeConfigInterpreter().WithCompilationCache(cache)
		}
		ra := wazero.NewRuntimeWithConfig(ctx, mk())
		rb := wazero.NewRuntimeWithConfig(ctx, mk().WithMemoryLimitPages(3))
		ca, err := ra.CompileModule(ctx, bin)
		fmt.Println(eng, "A compile", err)
		cb, err := rb.CompileModule(ctx, bin)
		fmt.Println(eng, "B compile", err)
		ca.Close(ctx)
		mb, err := rb.InstantiateModule(ctx, cb, wazero.NewModuleConfig())
		fmt.Println(eng, "B instantiate after A closed compiled:", err)
		if mb != nil {
			r, err := mb.ExportedFunction("grow").Call(ctx, 5)
			fmt.Println("grow(5) with limit 3:", r, err)
		}
		// scenario 2: A instantiates (anonymous compile), closes runtime; B still fine?
		cache2 := wazero.NewCompilationCache()
		mk2 := func() wazero.RuntimeConfig {
			if eng == "compiler" { return wazero.NewRuntimeConfigCompiler().WithCompilationCache(cache2) }
			return wazero.NewRuntimeConfigInterpreter().WithCompilationCache(cache2)
		}
		ra = wazero.NewRuntimeWithConfig(ctx, mk2())
		rb = wazero.NewRuntimeWithConfig(ctx, mk2())
		cb, _ = rb.CompileModule(ctx, bin)
		ma, err := ra.Instantiate(ctx, bin)
		fmt.Println(eng, "A instantiate", err)
		ma.Close(ctx)
		_, err = rb.InstantiateModule(ctx, cb, wazero.NewModuleConfig())
		fmt.Println(eng, "B instantiate after A's module closed:", err)
		// F12
		cache3 := wazero.NewCompilationCache()
		mk3 := func() wazero.RuntimeConfig {
			if eng == "compiler" { return wazero.NewRuntimeConfigCompiler().WithCompilationCache(cache3) }
			return wazero.NewRuntimeConfigInterpreter().WithCompilationCache(cache3)
		}
		var na, nb int
		ctxa := experimental.WithFunctionListenerFactory(ctx, lf{"a", &na})
		ctxb := experimental.WithFunctionListenerFactory(ctx, lf{"b", &nb})
		ra = wazero.NewRuntimeWithConfig(ctx, mk3())
		rb = wazero.NewRuntimeWithConfig(ctx, mk3())
		ma, _ = ra.Instantiate(ctxa, bin)
		mb, _ = rb.Instantiate(ctxb, bin)
		ma.ExportedFunction("grow").Call(ctx, 0)
		mb.ExportedFunction("grow").Call(ctx, 0)
		fmt.Println(eng, "F12 listener counts a,b =", na, nb)
		// F11
		mm := wb.New(); mx := uint32(10); mm.Memory(1, &mx, false, "memory")
		for _, cfm := range []bool{false, true} {
			rc := mk().WithMemoryLimitPages(5).WithMemoryCapacityFromMax(cfm)
			r := wazero.NewRuntimeWithConfig(ctx, rc.WithCompilationCache(nil))
			_, err := r.Instantiate(ctx, mm.Bytes())
			fmt.Println(eng, "F11 cfm", cfm, err)
		}
	}
}
