// hc12: option-lattice differential harness for C12 (non-semantic configuration does not change guest
// behaviour).
//
// Tie C (property monitor): every generated guest program is run on the REAL runtime under each point of
// the lattice {cache: none / in-memory / disk-cold / disk-warm / shared between two runtimes with different
// settings (several orders)} x capFromMax x custom allocator x debug info x custom sections x listeners
// (none/all/even functions) x close-on-context-done (never triggered), on both engines; the canonical trace
// (results, trap class, host-call log, memory size+hash, globals) must equal the base point's.
// Tie B (correspondence with the Lean model, oracle topic c12):
//   - decode accept/reject and (min,max) on a boundary grid vs the regenerated sizer+Validate;
//   - module IDs computed by the real code per point vs the model's key classes;
//   - random compile/instantiate/close histories of 2-3 runtimes over one shared cache vs the cache state
//     machine (which variant of the finding switches F12/N1 the tree corresponds to).
package main

import (
	"context"
	"crypto/sha256"
	"encoding/hex"
	"flag"
	"fmt"
	"math/rand"
	"os"
	"path/filepath"
	"reflect"
	"strings"
	"sync"
	"sync/atomic"
	"time"
	"unsafe"

	"github.com/tetratelabs/wazero"
	"github.com/tetratelabs/wazero/api"
	"github.com/tetratelabs/wazero/experimental"
	"github.com/tetratelabs/wazero/imports/wasi_snapshot_preview1"
	"github.com/tetratelabs/wazero/internal/wasm"
	"github.com/tetratelabs/wazero/internal/wasm/binary"
	"github.com/tetratelabs/wazero/verifharness/hx"
	"github.com/tetratelabs/wazero/verifharness/wb"
)

var (
	orc *hx.Oracle
	rep *hx.Report
)

// ---- settings and lattice points ------------------------------------------------------------------

type settings struct {
	CFM      bool   `json:"cap_from_max"`
	Alloc    bool   `json:"allocator"`
	NoDebug  bool   `json:"debug_info_disabled"`
	Custom   bool   `json:"custom_sections"`
	CloseCtx bool   `json:"close_on_context_done"`
	Lst      string `json:"listeners"` // "-" none, "all", "even", "nil" (a factory that declines every function)
}

type point struct {
	settings
	Cache      string   `json:"cache"` // none | mem | diskcold | diskwarm | shared
	Order      string   `json:"order,omitempty"`
	SharedDisk bool     `json:"shared_cache_on_disk,omitempty"`
	Other      settings `json:"other_runtime"`
	OtherLimit uint32   `json:"other_runtime_limit,omitempty"`
}

var orders = []string{"afirst", "bfirst", "arun-then-b", "a-closes-compiled", "a-anon-instance-closed"}

func (s settings) key() string {
	return fmt.Sprintf("%s%s%s%s%s/%s", b(s.CFM), b(s.Alloc), b(s.NoDebug), b(s.Custom), b(s.CloseCtx), s.Lst)
}
func (p point) key() string {
	return fmt.Sprintf("%s/%s/%v/%s|%s", p.Cache, p.Order, p.SharedDisk, p.settings.key(), p.Other.key())
}

func b(x bool) string {
	if x {
		return "1"
	}
	return "0"
}

func allSettings() []settings {
	var out []settings
	for i := 0; i < 32; i++ {
		for _, l := range []string{"-", "all", "even", "nil"} {
			out = append(out, settings{i&1 != 0, i&2 != 0, i&4 != 0, i&8 != 0, i&16 != 0, l})
		}
	}
	return out
}

func randSettings(r *rand.Rand) settings {
	return settings{r.Intn(2) == 0, r.Intn(2) == 0, r.Intn(2) == 0, r.Intn(2) == 0, r.Intn(2) == 0, []string{"-", "all", "even", "nil", "m64a", "m64b"}[r.Intn(6)]}
}

// listens: does a listener factory of class lst attach a listener to the function with this index?  m64a / m64b:
// every 64th function (index = 3 mod 64) / only the first of them: two selections that differ only beyond index 63.
func listens(lst string, idx int) bool {
	switch lst {
	case "all":
		return true
	case "even":
		return idx%2 == 0
	case "m64a":
		return idx%64 == 3
	case "m64b":
		return idx == 3
	}
	return false
}

// otherFor picks the second runtime's settings: half of the time in the same key class (same listener
// presence and termination flag, other options flipped), otherwise anything.
func otherFor(r *rand.Rand, s settings) settings {
	o := randSettings(r)
	if r.Intn(2) == 0 {
		o.CloseCtx, o.Lst = s.CloseCtx, s.Lst
		o.CFM, o.NoDebug, o.Custom = !s.CFM, !s.NoDebug, !s.Custom
	}
	return o
}

func lattice(r *rand.Rand, thorough bool) []point {
	var pts []point
	modes := []string{"none", "mem", "diskcold", "diskwarm"}
	if thorough {
		for _, s := range allSettings() {
			for _, m := range modes {
				pts = append(pts, point{settings: s, Cache: m, Other: otherFor(r, s)})
			}
			for _, o := range orders {
				pts = append(pts, point{settings: s, Cache: "shared", Order: o, Other: otherFor(r, s), SharedDisk: r.Intn(3) == 0})
			}
		}
		return pts
	}
	// quick: a covering subset: every cache mode/order with the all-off and all-on vectors and random ones.
	all := settings{true, true, true, true, true, "all"}
	none := settings{Lst: "-"}
	for _, m := range modes {
		pts = append(pts, point{settings: none, Cache: m, Other: all}, point{settings: all, Cache: m, Other: none})
		for k := 0; k < 2; k++ {
			s := randSettings(r)
			pts = append(pts, point{settings: s, Cache: m, Other: otherFor(r, s)})
		}
	}
	for i, o := range orders {
		pts = append(pts, point{settings: none, Cache: "shared", Order: o, Other: settings{CFM: true, NoDebug: true, Custom: true, Lst: "-"}, SharedDisk: i%2 == 0})
		pts = append(pts, point{settings: all, Cache: "shared", Order: o, Other: settings{CloseCtx: true, Lst: "all"}, SharedDisk: i%2 == 1})
		s := randSettings(r)
		pts = append(pts, point{settings: s, Cache: "shared", Order: o, Other: otherFor(r, s), SharedDisk: r.Intn(2) == 0})
	}
	// single-flag points
	for i := 0; i < 5; i++ {
		pts = append(pts, point{settings: settings{i == 0, i == 1, i == 2, i == 3, i == 4, "-"}, Cache: "none"})
	}
	pts = append(pts, point{settings: settings{Lst: "even"}, Cache: "none"}, point{settings: settings{Lst: "all"}, Cache: "mem"})
	// a listener factory that is present but declines every function (the cache key differs from "no factory",
	// the generated code must not)
	for _, m := range modes {
		pts = append(pts, point{settings: settings{Lst: "nil"}, Cache: m, Other: none})
	}
	// listener selections that differ only beyond the 64th function: warm disk cache written under the one, read under
	// the other, and both orders on a shared in-memory cache
	for _, pr := range [][2]string{{"m64a", "m64b"}, {"m64b", "m64a"}} {
		pts = append(pts, point{settings: settings{Lst: pr[0]}, Cache: "diskwarm", Other: settings{Lst: pr[1]}})
		pts = append(pts, point{settings: settings{Lst: pr[0]}, Cache: "shared", Order: orders[0], Other: settings{Lst: pr[1]}})
	}
	// warm disk cache written under the SAME settings (a true cache hit), for every listener class
	for _, l := range []string{"-", "all", "even", "nil", "m64a"} {
		pts = append(pts, point{settings: settings{Lst: l}, Cache: "diskwarm", Other: settings{Lst: l}})
		pts = append(pts, point{settings: settings{Lst: l, CloseCtx: true}, Cache: "diskwarm", Other: settings{Lst: l, CloseCtx: true}})
	}
	return pts
}

// ---- the pieces of a runtime under test --------------------------------------------------------------

type sliceMem struct {
	buf []byte
	max uint64
}

func (m *sliceMem) Reallocate(size uint64) []byte {
	if size > m.max {
		return nil
	}
	if uint64(cap(m.buf)) < size {
		nb := make([]byte, size, size+size/2)
		copy(nb, m.buf)
		m.buf = nb
	} else {
		m.buf = m.buf[:size]
	}
	return m.buf
}
func (m *sliceMem) Free() { m.buf = nil }

func makeAlloc(cap, max uint64) experimental.LinearMemory {
	if cap > 64<<20 { // never pre-allocate more than 64 MiB in a check
		cap = 64 << 20
	}
	return &sliceMem{buf: make([]byte, 0, cap), max: max}
}

// lrec counts listener events of one factory.
type lrec struct {
	before, after, abort atomic.Int64
	lst                  string
}

func (l *lrec) NewFunctionListener(d api.FunctionDefinition) experimental.FunctionListener {
	if !listens(l.lst, int(d.Index())) {
		return nil
	}
	return l
}
func (l *lrec) Before(context.Context, api.Module, api.FunctionDefinition, []uint64, experimental.StackIterator) {
	l.before.Add(1)
}
func (l *lrec) After(context.Context, api.Module, api.FunctionDefinition, []uint64) { l.after.Add(1) }
func (l *lrec) Abort(context.Context, api.Module, api.FunctionDefinition, error)    { l.abort.Add(1) }

type side struct {
	eng      string
	s        settings
	limit    uint32
	rt       wazero.Runtime
	ctx      context.Context
	rec      *lrec
	hostlog  []string
	compiled wazero.CompiledModule
	mod      api.Module
	err      string // compile/instantiate failure class
}

func newSide(eng string, s settings, limit uint32, cache wazero.CompilationCache, p *prog) *side {
	sd := &side{eng: eng, s: s, limit: limit}
	var rc wazero.RuntimeConfig
	if eng == "compiler" {
		rc = wazero.NewRuntimeConfigCompiler()
	} else {
		rc = wazero.NewRuntimeConfigInterpreter()
	}
	rc = rc.WithCoreFeatures(api.CoreFeaturesV2 | experimental.CoreFeaturesTailCall | experimental.CoreFeaturesThreads).WithMemoryLimitPages(limit).WithMemoryCapacityFromMax(s.CFM).
		WithDebugInfoEnabled(!s.NoDebug).WithCustomSections(s.Custom).WithCloseOnContextDone(s.CloseCtx)
	if cache != nil {
		rc = rc.WithCompilationCache(cache)
	}
	ctx := context.Background()
	if s.Alloc {
		ctx = experimental.WithMemoryAllocator(ctx, experimental.MemoryAllocatorFunc(makeAlloc))
	}
	if s.Lst != "-" {
		sd.rec = &lrec{lst: s.Lst}
		ctx = experimental.WithFunctionListenerFactory(ctx, sd.rec)
	}
	sd.ctx = ctx
	sd.rt = wazero.NewRuntimeWithConfig(ctx, rc)
	if p.WASI {
		if _, err := wasi_snapshot_preview1.Instantiate(ctx, sd.rt); err != nil {
			hx.Fatal("wasi: %v", err)
		}
	} else {
		_, err := sd.rt.NewHostModuleBuilder("env").
			NewFunctionBuilder().WithFunc(func(_ context.Context, a, bb uint32) {
			sd.hostlog = append(sd.hostlog, fmt.Sprintf("log(%d,%d)", a, bb))
		}).Export("log").
			NewFunctionBuilder().WithFunc(func(_ context.Context, a uint64) { sd.hostlog = append(sd.hostlog, fmt.Sprintf("log64(%d)", a)) }).Export("log64").
			NewFunctionBuilder().WithFunc(func(_ context.Context, a, bb uint32) uint32 {
			sd.hostlog = append(sd.hostlog, fmt.Sprintf("add(%d,%d)", a, bb))
			return a + bb
		}).Export("add").Instantiate(ctx)
		if err != nil {
			hx.Fatal("host module: %v", err)
		}
	}
	return sd
}

func errClass(err error) string {
	if err == nil {
		return ""
	}
	s := err.Error()
	if strings.HasPrefix(s, "GO PANIC") {
		return s
	}
	for _, k := range []string{"unreachable", "out of bounds memory access", "integer divide by zero", "integer overflow",
		"invalid conversion to integer", "invalid table access", "indirect call type mismatch", "stack overflow",
		"source module must be compiled before instantiation", "over limit", "exit_code", "context deadline exceeded", "context canceled"} {
		if strings.Contains(s, k) {
			return k
		}
	}
	if i := strings.IndexByte(s, '\n'); i > 0 {
		s = s[:i]
	}
	return "other: " + s
}

func (sd *side) compile(p *prog) bool {
	c, err := sd.rt.CompileModule(sd.ctx, p.Bin)
	if err != nil {
		sd.err = "compile-error: " + errClass(err)
		return false
	}
	sd.compiled = c
	return true
}

func (sd *side) instantiate(p *prog) bool {
	if sd.compiled == nil {
		return false
	}
	cfg := wazero.NewModuleConfig().WithName("")
	if p.WASI {
		cfg = cfg.WithStartFunctions() // _start is called by the script
	}
	m, err := sd.rt.InstantiateModule(sd.ctx, sd.compiled, cfg)
	if err != nil {
		sd.err = "instantiate-error: " + errClass(err)
		return false
	}
	sd.mod = m
	return true
}

// moduleID reads wasm.Module.ID of a compiled module (internal access through the module path).
func moduleID(c wazero.CompiledModule) string {
	f := reflect.ValueOf(c).Elem().FieldByName("module")
	if !f.IsValid() || f.Kind() != reflect.Ptr {
		hx.Fatal("compiledModule.module not found")
	}
	m := (*wasm.Module)(unsafe.Pointer(f.Pointer()))
	return hex.EncodeToString(m.ID[:])
}

// safeCall: a Go panic that escapes from api.Function.Call is part of the observable behaviour (a different one from
// every error the call may return), not a reason for the harness to die.
func safeCall(ctx context.Context, f api.Function, args []uint64) (res []uint64, err error) {
	defer func() {
		if r := recover(); r != nil {
			err = fmt.Errorf("GO PANIC escaped from Call: %v", r)
		}
	}()
	return f.Call(ctx, args...)
}

// run executes the script and returns the canonical trace.
func (sd *side) run(p *prog) []string {
	var tr []string
	if sd.mod == nil {
		return []string{sd.err}
	}
	for _, c := range p.Calls {
		f := sd.mod.ExportedFunction(c.Fn)
		if f == nil {
			tr = append(tr, c.Fn+": no such export")
			continue
		}
		res, err := safeCall(sd.ctx, f, c.Args)
		if err != nil {
			tr = append(tr, fmt.Sprintf("%s%v: trap %s", c.Fn, c.Args, errClass(err)))
		} else {
			// canonical result: i32/f32 results are 32-bit values (the upper half of the uint64 slot is not part of the value)
			rt := f.Definition().ResultTypes()
			for i := range res {
				if i < len(rt) && (rt[i] == api.ValueTypeI32 || rt[i] == api.ValueTypeF32) {
					if res[i]>>32 != 0 {
						dirtyHigh.Add(1)
					}
					res[i] = uint64(uint32(res[i]))
				}
			}
			tr = append(tr, fmt.Sprintf("%s%v: %v", c.Fn, c.Args, res))
		}
	}
	if mem := sd.mod.ExportedMemory("memory"); mem != nil && !reflect.ValueOf(mem).IsNil() {
		sz := mem.Size()
		h := sha256.New()
		if buf, ok := mem.Read(0, sz); ok {
			h.Write(buf)
		}
		tr = append(tr, fmt.Sprintf("memory: %d bytes sha256=%x", sz, h.Sum(nil)[:8]))
		if g, ok := mem.Grow(0); ok {
			tr = append(tr, fmt.Sprintf("memory: %d pages", g))
		}
	}
	for _, g := range p.Globals {
		if eg := sd.mod.ExportedGlobal(g); eg != nil {
			tr = append(tr, fmt.Sprintf("global %s = %d", g, eg.Get()))
		}
	}
	h := sha256.Sum256([]byte(strings.Join(sd.hostlog, ";")))
	tr = append(tr, fmt.Sprintf("hostlog: %d calls sha256=%x", len(sd.hostlog), h[:8]))
	return tr
}

func (sd *side) full(p *prog) []string {
	if sd.compile(p) {
		sd.instantiate(p)
	}
	return sd.run(p)
}

func (sd *side) close() {
	if sd.rt != nil {
		sd.rt.Close(sd.ctx)
	}
}

// ---- executing one lattice point -----------------------------------------------------------------------

type outcome struct {
	Trace  []string
	ID     string // module ID of the runtime under test ("" if not compiled)
	OtherT []string
	OtherS *side
	Side   *side
}

var dirSeq, dirtyHigh atomic.Int64
var heavy sync.Mutex

func freshDir() string {
	d := filepath.Join(*hx.Work, fmt.Sprintf("c12cache-%d", dirSeq.Add(1)))
	if err := os.MkdirAll(d, 0o755); err != nil {
		hx.Fatal("mkdir: %v", err)
	}
	return d
}

func mustDirCache(d string) wazero.CompilationCache {
	c, err := wazero.NewCompilationCacheWithDir(d)
	if err != nil {
		hx.Fatal("cache dir: %v", err)
	}
	return c
}

func execute(p *prog, eng string, pt point) outcome {
	ctx := context.Background()
	var out outcome
	switch pt.Cache {
	case "none", "mem", "diskcold", "diskwarm":
		var cache wazero.CompilationCache
		var dir string
		switch pt.Cache {
		case "mem":
			cache = wazero.NewCompilationCache()
		case "diskcold":
			dir = freshDir()
			cache = mustDirCache(dir)
		case "diskwarm":
			dir = freshDir()
			c1 := mustDirCache(dir)
			a := newSide(eng, pt.Other, p.Limit, c1, p)
			a.compile(p)
			a.close()
			c1.Close(ctx)
			cache = mustDirCache(dir)
		}
		sd := newSide(eng, pt.settings, p.Limit, cache, p)
		out.Trace = sd.full(p)
		if sd.compiled != nil {
			out.ID = moduleID(sd.compiled)
		}
		out.Side = sd
		sd.close()
		if cache != nil {
			cache.Close(ctx)
		}
		if dir != "" {
			os.RemoveAll(dir)
		}
	case "shared":
		var cache wazero.CompilationCache
		var dir string
		if pt.SharedDisk {
			dir = freshDir()
			cache = mustDirCache(dir)
		} else {
			cache = wazero.NewCompilationCache()
		}
		al := p.Limit
		if pt.OtherLimit != 0 {
			al = pt.OtherLimit
		}
		a := newSide(eng, pt.Other, al, cache, p)
		bb := newSide(eng, pt.settings, p.Limit, cache, p)
		switch pt.Order {
		case "afirst":
			a.compile(p)
			out.Trace = bb.full(p)
			a.instantiate(p)
			out.OtherT = a.run(p)
		case "bfirst":
			okb := bb.compile(p)
			out.OtherT = a.full(p)
			if okb {
				bb.instantiate(p)
			}
			out.Trace = bb.run(p)
		case "arun-then-b":
			out.OtherT = a.full(p)
			a.close()
			out.Trace = bb.full(p)
		case "a-closes-compiled":
			a.compile(p)
			okb := bb.compile(p)
			if a.compiled != nil {
				a.compiled.Close(ctx)
			}
			if okb {
				bb.instantiate(p)
			}
			out.Trace = bb.run(p)
		case "a-anon-instance-closed":
			okb := bb.compile(p)
			// Runtime.InstantiateWithConfig compiles implicitly and releases the compiled module with the instance.
			if m, err := a.rt.InstantiateWithConfig(a.ctx, p.Bin, wazero.NewModuleConfig().WithName("").WithStartFunctions()); err == nil {
				m.Close(ctx)
			}
			if okb {
				bb.instantiate(p)
			}
			out.Trace = bb.run(p)
		default:
			hx.Fatal("order %q", pt.Order)
		}
		if bb.compiled != nil {
			out.ID = moduleID(bb.compiled)
		}
		out.Side, out.OtherS = bb, a
		bb.close()
		a.close()
		cache.Close(ctx)
		if dir != "" {
			os.RemoveAll(dir)
		}
	default:
		hx.Fatal("cache mode %q", pt.Cache)
	}
	return out
}

type caseInput struct {
	Prog   *prog  `json:"program"`
	Engine string `json:"engine"`
	Point  point  `json:"point"`
}

func input(p *prog, eng string, pt point) caseInput {
	q := *p
	if len(q.Bin) <= 4096 {
		q.BinHex = hex.EncodeToString(q.Bin)
	} else {
		q.BinHex = "(internal/testing/dwarftestdata)"
	}
	return caseInput{&q, eng, pt}
}

func firstDiff(a, bb []string) (int, string, string) {
	for i := 0; i < len(a) || i < len(bb); i++ {
		var x, y string
		if i < len(a) {
			x = a[i]
		}
		if i < len(bb) {
			y = bb[i]
		}
		if x != y {
			return i, x, y
		}
	}
	return -1, "", ""
}

// classify gives the signature of a trace difference.
func classify(p *prog, pt point, base, got []string) string {
	_, want, have := firstDiff(base, got)
	if strings.Contains(have, "over limit") && pt.CFM && p.MemMax != nil && *p.MemMax > p.Limit && *p.MemMax <= 65536 &&
		!strings.Contains(want, "error") {
		return "F11:capfrommax-rejects-declared-max-above-limit"
	}
	if pt.Cache == "shared" && (pt.Order == "a-closes-compiled" || pt.Order == "a-anon-instance-closed") &&
		strings.Contains(have, "source module must be compiled before instantiation") {
		return "N1:shared-cache-close-evicts-compiled-module-of-other-runtime"
	}
	kind := "result"
	switch {
	case strings.Contains(have, "-error") || strings.Contains(want, "-error"):
		kind = "acceptance"
	case strings.Contains(have, "trap") || strings.Contains(want, "trap"):
		kind = "trap"
	case strings.HasPrefix(have, "memory") || strings.HasPrefix(have, "global") || strings.HasPrefix(have, "hostlog"):
		kind = strings.SplitN(have, ":", 2)[0]
		kind = strings.Fields(kind)[0]
	}
	return fmt.Sprintf("C12:trace-differs:%s:%s:cache=%s", p.Kind, kind, pt.Cache)
}

// ---- phases ----------------------------------------------------------------------------------------

type job struct {
	p   *prog
	eng string
	pt  point
}

func latticePhase(r *rand.Rand) {
	progs := programs(r, hx.Thorough())
	pts := lattice(r, hx.Thorough())
	rep.Note("lattice: %d programs x %d points x 2 engines", len(progs), len(pts))
	base := map[string][]string{}
	baseID := map[string]string{}
	for _, p := range progs {
		for _, eng := range []string{"compiler", "interpreter"} {
			o := execute(p, eng, point{settings: settings{Lst: "-"}, Cache: "none"})
			base[p.Name+"/"+eng] = o.Trace
			baseID[p.Name+"/"+eng] = o.ID
			rep.Count("program:" + p.Kind)
			if len(o.Trace) > 0 && strings.Contains(o.Trace[0], "-error") {
				rep.Count("base-rejected")
			}
		}
		// both engines must agree on the base trace (sanity of the trace; C01's subject)
		if i, x, y := firstDiff(base[p.Name+"/compiler"], base[p.Name+"/interpreter"]); i >= 0 {
			rep.Note("engines differ on base trace of %s at %d: %q vs %q", p.Name, i, x, y)
			rep.Count("base-engines-differ")
		}
	}
	if len(progs) > 0 {
		rep.Sample(map[string]any{"program": progs[0].Name, "calls": progs[0].Calls, "base_trace": base[progs[0].Name+"/compiler"]})
	}
	jobs := make(chan job, 64)
	var wg sync.WaitGroup
	var idmu sync.Mutex
	// (program, engine) -> model key -> set of real IDs ; and real ID -> set of model keys
	type idrec struct {
		byKey map[string]map[string]point
		byID  map[string]map[string]point
	}
	ids := map[string]*idrec{}
	for w := 0; w < 8; w++ {
		wg.Add(1)
		go func() {
			defer wg.Done()
			for j := range jobs {
				heavyJob := strings.HasSuffix(j.p.Name, "-unbounded") && j.eng == "compiler"
				if heavyJob { // the compiler's stack overflow grows a 400 MB stack: one at a time
					heavy.Lock()
				}
				o := execute(j.p, j.eng, j.pt)
				if heavyJob {
					heavy.Unlock()
				}
				bk := j.p.Name + "/" + j.eng
				rep.Case(bk + "/" + j.pt.key())
				rep.Count("cache:" + j.pt.Cache)
				if j.pt.Order != "" {
					rep.Count("order:" + j.pt.Order)
				}
				if i, want, have := firstDiff(base[bk], o.Trace); i >= 0 {
					sig := classify(j.p, j.pt, base[bk], o.Trace)
					rep.Violate(hx.Violation{Kind: "impl-violation", Signature: sig,
						What:  fmt.Sprintf("%s on %s under %s: trace differs from the base point at step %d: base %q, this point %q", j.p.Name, j.eng, j.pt.key(), i, want, have),
						Input: input(j.p, j.eng, j.pt), Expected: base[bk], Actual: o.Trace})
				} else {
					rep.Count("trace-equal")
				}
				if o.OtherT != nil && (j.pt.OtherLimit == 0 || j.pt.OtherLimit == j.p.Limit) {
					if i, want, have := firstDiff(base[bk], o.OtherT); i >= 0 {
						opt := j.pt
						opt.settings, opt.Other = j.pt.Other, j.pt.settings
						sig := classify(j.p, opt, base[bk], o.OtherT)
						rep.Violate(hx.Violation{Kind: "impl-violation", Signature: sig,
							What:  fmt.Sprintf("%s on %s, the OTHER runtime of %s: trace differs from the base point at step %d: base %q, got %q", j.p.Name, j.eng, j.pt.key(), i, want, have),
							Input: input(j.p, j.eng, j.pt), Expected: base[bk], Actual: o.OtherT})
					} else {
						rep.Count("trace-equal-other-runtime")
					}
				}
				// listener routing (F12 is C20's subject; recorded, not a C12 verdict)
				if o.Side != nil && o.Side.rec != nil && o.Side.mod != nil && len(j.p.Calls) > 0 {
					if o.Side.rec.before.Load() == 0 {
						if o.OtherS != nil && o.OtherS.rec != nil && o.OtherS.rec.before.Load() > 0 {
							rep.Count("F12-observed:listener-events-of-this-runtime-delivered-to-the-other-runtime's-listener")
						} else if j.pt.Lst == "all" && j.p.NFuncs != 0 {
							rep.Count("listener-silent")
						}
					} else {
						rep.Count("listener-fired")
					}
				}
				// module identity vs the model's key classes
				if o.ID != "" && j.p.NFuncs >= 0 {
					ls := "-"
					if j.pt.Lst != "-" {
						var sb strings.Builder
						for i := 0; i < j.p.NFuncs; i++ {
							// listeners are created per LOCAL function; the factory sees the function index in the
							// function index space (imports first)
							idx := i + importCount(j.p)
							if !listens(j.pt.Lst, idx) {
								sb.WriteByte('n')
							} else {
								sb.WriteByte('1')
							}
						}
						ls = sb.String()
						if ls == "" {
							ls = "-"
						}
					}
					mk := orc.Askf("c12 key %s %s", b(j.pt.CloseCtx), ls)
					idmu.Lock()
					rec := ids[bk]
					if rec == nil {
						rec = &idrec{map[string]map[string]point{}, map[string]map[string]point{}}
						ids[bk] = rec
					}
					if rec.byKey[mk] == nil {
						rec.byKey[mk] = map[string]point{}
					}
					if rec.byID[o.ID] == nil {
						rec.byID[o.ID] = map[string]point{}
					}
					rec.byKey[mk][o.ID] = j.pt
					rec.byID[o.ID][mk] = j.pt
					idmu.Unlock()
				}
			}
		}()
	}
	for _, p := range progs {
		for _, eng := range []string{"compiler", "interpreter"} {
			for k, pt := range pts {
				if strings.HasSuffix(p.Name, "-unbounded") && k%5 != 0 {
					continue // stack overflow is expensive: every 5th point
				}
				jobs <- job{p, eng, pt}
			}
		}
	}
	// shared cache where the other runtime has a different (semantic) memory limit: only the runtime under test is compared
	for _, p := range progs {
		if p.Kind != "mem" {
			continue
		}
		for _, eng := range []string{"compiler", "interpreter"} {
			for _, o := range []string{"afirst", "bfirst"} {
				jobs <- job{p, eng, point{settings: settings{Lst: "-"}, Cache: "shared", Order: o, Other: settings{CFM: true, Lst: "-"}, OtherLimit: p.Limit + 3}}
				jobs <- job{p, eng, point{settings: settings{Alloc: true, Lst: "-"}, Cache: "shared", Order: o, Other: settings{Lst: "-"}, OtherLimit: p.Limit - 1}}
			}
		}
	}
	close(jobs)
	wg.Wait()
	for bk, rec := range ids {
		for mk, set := range rec.byKey {
			if len(set) > 1 {
				var idl []string
				var pl []point
				for id, pt := range set {
					idl = append(idl, id)
					pl = append(pl, pt)
				}
				rep.Violate(hx.Violation{Kind: "correspondence", Signature: "C12:module-id-splits-a-model-key-class",
					What:  fmt.Sprintf("%s: the real code assigns different module IDs to requests the model puts in one key class %s", bk, mk),
					Input: pl, Actual: idl})
			}
		}
		for id, set := range rec.byID {
			if len(set) > 1 {
				var kl []string
				var pl []point
				for k, pt := range set {
					kl = append(kl, k)
					pl = append(pl, pt)
				}
				rep.Violate(hx.Violation{Kind: "correspondence", Signature: "C12:module-id-merges-model-key-classes",
					What:  fmt.Sprintf("%s: the real code assigns ONE module ID %s to requests whose codegen-relevant settings differ (model key classes %v): a cache hit would reuse code compiled for other settings", bk, id[:16], kl),
					Input: pl, Expected: kl, Actual: id})
			}
		}
		rep.Count(fmt.Sprintf("id-classes:%d", len(rec.byID)))
	}
}

func importCount(p *prog) int {
	if p.Kind == "host" {
		return 3
	}
	return 0
}

// decodePhase: DecodeModule with capFromMax off/on vs the regenerated sizer+Validate, and the property's own
// predicate (acceptance and (min,max) independent of the option) on the real decoder.
func decodePhase() {
	vals := []uint32{0, 1, 2, 3, 4, 5, 6, 9, 10, 11, 100, 65535, 65536, 65537, 0x7fffffff, 0x80000000, 0xffffffff}
	limits := []uint32{0, 1, 2, 5, 10, 100, 65535, 65536}
	variant := orc.Ask("c12 variant")
	rep.Note("regenerated sizer variant: %s", variant)
	if variant == "neither" {
		rep.Violate(hx.Violation{Kind: "correspondence", Signature: "C12:sizer-matches-no-variant", What: "the regenerated memorySizer is neither the as-is nor the repaired variant on the F11 witness (limit 5, min 1, max 10)"})
	}
	for _, limit := range limits {
		for _, mn := range vals {
			for mi := -1; mi < len(vals); mi++ {
				var mx *uint32
				if mi >= 0 {
					mx = u32p(vals[mi])
				}
				m := wb.New()
				m.Memory(mn, mx, false, "memory")
				bin := m.Bytes()
				var got [2]string
				for ci, cfm := range []bool{false, true} {
					mod, err := binary.DecodeModule(bin, api.CoreFeaturesV2, limit, cfm, false, false)
					if err != nil {
						got[ci] = "err"
					} else {
						got[ci] = fmt.Sprintf("ok %d %d", mod.MemorySection.Min, mod.MemorySection.Max)
					}
					want := orc.Askf("c12 decode %d %s %d %s", limit, b(cfm), mn, maxStr(mx))
					rep.Case(fmt.Sprintf("decode/%d/%v/%d/%s", limit, cfm, mn, maxStr(mx)))
					rep.Count("decode:" + strings.Fields(got[ci])[0])
					if got[ci] != want {
						rep.Violate(hx.Violation{Kind: "correspondence", Signature: "C12:decode-differs-from-model",
							What:  "DecodeModule's memory acceptance/(min,max) differs from the regenerated sizer+Validate model",
							Input: map[string]any{"limit": limit, "cap_from_max": cfm, "min": mn, "max": maxStr(mx)}, Expected: want, Actual: got[ci]})
					}
				}
				indep := got[0] == got[1]
				if (orc.Askf("c12 indep %d %d %s", limit, mn, maxStr(mx)) == "1") != indep {
					rep.Violate(hx.Violation{Kind: "correspondence", Signature: "C12:capacity-independence-differs-from-model",
						What:  "the model's CapacityIndependent predicate disagrees with the real decoder",
						Input: map[string]any{"limit": limit, "min": mn, "max": maxStr(mx)}, Actual: got})
				}
				if !indep {
					sig := "C12:capfrommax-changes-decode"
					if got[1] == "err" && got[0] != "err" && mx != nil && *mx > limit && *mx <= 65536 {
						sig = "F11:capfrommax-rejects-declared-max-above-limit"
					}
					rep.Violate(hx.Violation{Kind: "impl-violation", Signature: sig,
						What:  fmt.Sprintf("memory (min %d, max %s) under limit %d: without WithMemoryCapacityFromMax: %s; with it: %s", mn, maxStr(mx), limit, got[0], got[1]),
						Input: map[string]any{"limit": limit, "min": mn, "max": maxStr(mx), "bin_hex": hex.EncodeToString(bin)}, Expected: got[0], Actual: got[1]})
				}
			}
		}
	}
}

// historiesPhase: random compile/instantiate/close histories over one shared cache vs the cache state machine.
func tinyModule(k int) []byte {
	m := wb.New()
	m.AddFunc(wb.Func{Results: []byte{wb.I32}, Export: "f", Body: wb.I32Const(int32(100 + k))})
	return m.Bytes()
}

type hrt struct {
	rt      wazero.Runtime
	ctx     context.Context
	rec     *lrec
	term    bool
	lst     int // -1 none
	handles map[int][]wazero.CompiledModule
}

var variantNames = []string{"as-is", "repaired-N1-only", "repaired-F12-only", "repaired-both"}

func historiesPhase(r *rand.Rand) {
	n := 300
	if hx.Thorough() {
		n = 3000
	}
	consistent := [4]bool{true, true, true, true}
	distinguishing := [4]int{}
	mid := 0
	for h := 0; h < n; h++ {
		eng := []string{"compiler", "interpreter"}[h%2]
		disk := eng == "compiler" && r.Intn(3) == 0
		var cache wazero.CompilationCache
		var dir string
		if disk {
			dir = freshDir()
			cache = mustDirCache(dir)
		} else {
			cache = wazero.NewCompilationCache()
		}
		nrt := 2 + r.Intn(2)
		var rts []*hrt
		var toks []string
		sameClass := r.Intn(3) != 0
		t0, l0 := r.Intn(2) == 0, r.Intn(3) != 0
		for i := 0; i < nrt; i++ {
			x := &hrt{handles: map[int][]wazero.CompiledModule{}, lst: -1}
			x.term = r.Intn(2) == 0
			hasL := r.Intn(2) == 0
			if sameClass {
				x.term, hasL = t0, l0
			}
			var rc wazero.RuntimeConfig
			if eng == "compiler" {
				rc = wazero.NewRuntimeConfigCompiler()
			} else {
				rc = wazero.NewRuntimeConfigInterpreter()
			}
			rc = rc.WithCompilationCache(cache).WithCloseOnContextDone(x.term)
			x.ctx = context.Background()
			if hasL {
				x.lst = i + 1
				x.rec = &lrec{lst: "all"}
				x.ctx = experimental.WithFunctionListenerFactory(x.ctx, x.rec)
			}
			x.rt = wazero.NewRuntimeWithConfig(x.ctx, rc)
			rts = append(rts, x)
			l := "-"
			if hasL {
				l = fmt.Sprint(x.lst)
			}
			toks = append(toks, fmt.Sprintf("t%sl%s", b(x.term), l))
		}
		var mids [4]int
		for v := 0; v < 4; v++ {
			mid++
			mids[v] = mid
			orc.Askf("c12 cnew %d %s %s %s %s", mid, b(disk), b(v&2 != 0), b(v&1 != 0), strings.Join(toks, " "))
		}
		var hist []string
		steps := 4 + r.Intn(8)
		for s := 0; s < steps; s++ {
			rt := r.Intn(nrt)
			bin := 0
			if r.Intn(4) == 0 {
				bin = 1
			}
			x := rts[rt]
			var op, real string
			switch k := r.Intn(10); {
			case k < 3 || len(x.handles[bin]) == 0 && k < 6:
				op = "compile"
				c, err := x.rt.CompileModule(x.ctx, tinyModule(bin))
				if err != nil {
					hx.Fatal("compile tiny: %v", err)
				}
				x.handles[bin] = append(x.handles[bin], c)
				real = "compiled"
			case k < 7:
				op = "inst"
				if len(x.handles[bin]) == 0 {
					real = "nohandle"
					break
				}
				var before [8]int64
				for i, y := range rts {
					if y.rec != nil {
						before[i] = y.rec.before.Load()
					}
				}
				m, err := x.rt.InstantiateModule(x.ctx, x.handles[bin][len(x.handles[bin])-1], wazero.NewModuleConfig().WithName(""))
				if err != nil {
					if strings.Contains(err.Error(), "source module must be compiled before instantiation") {
						real = "failed"
					} else {
						real = "error:" + err.Error()
					}
					break
				}
				res, err := m.ExportedFunction("f").Call(x.ctx)
				if err != nil || len(res) != 1 || res[0] != uint64(100+bin) {
					rep.Violate(hx.Violation{Kind: "impl-violation", Signature: "C12:shared-cache-instance-runs-wrong-code",
						What: fmt.Sprintf("instance of binary %d returned %v, %v", bin, res, err), Input: append(hist, "inst")})
				}
				var whos []string
				for i, y := range rts {
					if y.rec != nil && y.rec.before.Load() > before[i] {
						whos = append(whos, fmt.Sprint(y.lst))
					}
				}
				who := "-"
				if len(whos) > 0 {
					who = strings.Join(whos, "+")
				}
				m.Close(x.ctx)
				real = "ran " + who
			default:
				op = "close"
				if len(x.handles[bin]) == 0 {
					real = "nohandle"
					break
				}
				c := x.handles[bin][len(x.handles[bin])-1]
				x.handles[bin] = x.handles[bin][:len(x.handles[bin])-1]
				c.Close(x.ctx)
				real = "closed"
			}
			hist = append(hist, fmt.Sprintf("%s(rt%d[%s],bin%d)=%s", op, rt, toks[rt], bin, real))
			for v := 0; v < 4; v++ {
				mo := orc.Askf("c12 cop %d %s %d %d", mids[v], op, rt, bin)
				f := strings.Fields(mo)
				if len(f) == 3 && f[0] == "ran" {
					mo = "ran " + f[2]
				}
				if mo != real && consistent[v] {
					consistent[v] = false
					distinguishing[v] = h
					rep.Note("cache state machine variant %q ruled out by history %v (model says %q)", variantNames[v], hist, mo)
				}
			}
			rep.Count("history-op:" + op + ":" + strings.Fields(real)[0])
		}
		rep.Case(fmt.Sprintf("history/%s/%v/%v", eng, toks, hist))
		if h < 2 {
			rep.Sample(map[string]any{"engine": eng, "runtimes": toks, "history": hist})
		}
		for _, x := range rts {
			x.rt.Close(x.ctx)
		}
		cache.Close(context.Background())
		if dir != "" {
			os.RemoveAll(dir)
		}
	}
	var ok []string
	for v := 0; v < 4; v++ {
		if consistent[v] {
			ok = append(ok, variantNames[v])
		}
	}
	rep.Note("cache state machine variants consistent with all %d histories: %v", n, ok)
	if len(ok) == 0 {
		rep.Violate(hx.Violation{Kind: "correspondence", Signature: "C12:cache-state-machine-matches-no-variant",
			What: "no variant (as-is / repaired F12 / repaired N1) of the Lean cache state machine reproduces the real compile/instantiate/close histories; see notes for the first diverging history of each variant"})
	}
	for _, v := range ok {
		rep.Count("cache-model-variant-consistent:" + v)
	}
}

// terminationPhase: close-on-context-done must keep working on a cache that was warmed WITHOUT it.
func terminationPhase() {
	m := wb.New()
	m.AddFunc(wb.Func{Export: "spin", Body: wb.Cat(wb.Op(wasm.OpcodeLoop, 0x40), wb.Op(wasm.OpcodeBr, 0), wb.Op(wasm.OpcodeEnd))})
	bin := m.Bytes()
	for _, eng := range []string{"compiler", "interpreter"} {
		for _, mode := range []string{"shared-mem", "disk-warm"} {
			var cache wazero.CompilationCache
			dir := ""
			if mode == "disk-warm" {
				dir = freshDir()
				cache = mustDirCache(dir)
			} else {
				cache = wazero.NewCompilationCache()
			}
			mk := func(term bool) wazero.Runtime {
				var rc wazero.RuntimeConfig
				if eng == "compiler" {
					rc = wazero.NewRuntimeConfigCompiler()
				} else {
					rc = wazero.NewRuntimeConfigInterpreter()
				}
				return wazero.NewRuntimeWithConfig(context.Background(), rc.WithCompilationCache(cache).WithCloseOnContextDone(term))
			}
			ctx := context.Background()
			a := mk(false)
			if _, err := a.CompileModule(ctx, bin); err != nil {
				hx.Fatal("compile spin: %v", err)
			}
			if mode == "disk-warm" {
				a.Close(ctx)
				cache.Close(ctx)
				cache = mustDirCache(dir)
			}
			bb := mk(true)
			mod, err := bb.Instantiate(ctx, bin)
			if err != nil {
				hx.Fatal("instantiate spin: %v", err)
			}
			done := make(chan error, 1)
			cctx, cancel := context.WithTimeout(ctx, 100*time.Millisecond)
			go func() {
				_, err := mod.ExportedFunction("spin").Call(cctx)
				done <- err
			}()
			rep.Case("termination/" + eng + "/" + mode)
			select {
			case err := <-done:
				if err == nil {
					rep.Violate(hx.Violation{Kind: "impl-violation", Signature: "C12:spin-returned-without-error", What: "infinite loop returned nil", Input: map[string]string{"engine": eng, "cache": mode}})
				}
				rep.Count("termination:stopped")
			case <-time.After(30 * time.Second):
				cancel()
				rep.Violate(hx.Violation{Kind: "impl-violation", Signature: "C12:close-on-context-done-lost-on-cache-hit",
					What:  "a runtime with WithCloseOnContextDone(true) sharing a cache warmed by a runtime without it: the guest's infinite loop was not stopped 30 s after the context deadline (without a cache it stops)",
					Input: map[string]string{"engine": eng, "cache": mode, "bin_hex": hex.EncodeToString(bin)}})
				rep.Write(orc)
				os.Exit(0) // the spinning goroutine cannot be stopped
			}
			cancel()
			bb.Close(ctx)
			cache.Close(ctx)
			if dir != "" {
				os.RemoveAll(dir)
			}
		}
	}
}

func main() {
	flag.Parse()
	if *hx.Work == "" {
		hx.Fatal("-work is required (disk caches live there)")
	}
	orc = hx.StartOracle()
	defer orc.Close()
	rep = hx.NewReport("C12", "one case = (generated guest program, engine, lattice point) with a distinct key, or one decode grid cell, or one distinct shared-cache history; programs: arithmetic, memory growth to the limits with declared max absent/below/at/above the limit, globals+start, tables/call_indirect, traps, recursion (bounded and stack overflow), host imports logging their arguments, name/custom sections, a DWARF-carrying WASI binary; non-trivial = the program is instantiated or rejected and its whole trace compared with the base point's")
	r := hx.Rand()
	decodePhase()
	latticePhase(r)
	historiesPhase(r)
	terminationPhase()
	linkStage()
	concurrentCompileStage()
	if n := dirtyHigh.Load(); n > 0 {
		rep.Note("observed %d i32/f32 results whose uint64 slot had non-zero upper 32 bits (canonicalised; subject of C08, not C12)", n)
	}
	rep.Write(orc)
}
