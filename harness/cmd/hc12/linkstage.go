package main

// Linked programs under the memory knobs: the knobs of C12 (capacity pre-allocated from the maximum, a custom allocator
// that hands out buffers with spare capacity, a compilation cache) are about how a memory's BUFFER is obtained.  What
// LINKING decides from a memory - is the exporter's current size at least the importer's declared minimum, is its
// maximum within the importer's - must not see the buffer's capacity.  One exporter (memory 1, max 4, optionally grown
// first) x importers declaring every minimum 0..5 and maximum {none, 3, 4, 5}: the outcome of the instantiation (link
// error class or success) and an access to the last byte the importer may assume are compared with the default
// configuration of the same engine.

import (
	"context"
	"fmt"
	"strings"

	"github.com/tetratelabs/wazero"
	"github.com/tetratelabs/wazero/experimental"
	"github.com/tetratelabs/wazero/internal/wasm"
	"github.com/tetratelabs/wazero/verifharness/hx"
	"github.com/tetratelabs/wazero/verifharness/wb"
)

func linkExporter() []byte {
	m := wb.New()
	four := uint32(4)
	m.Memory(1, &four, false, "mem")
	m.AddFunc(wb.Func{Params: []byte{wb.I32}, Results: []byte{wb.I32}, Export: "grow", Body: wb.Cat(wb.LocalGet(0), wb.MemoryGrow())})
	return m.Bytes()
}

func linkImporter(min uint32, max *uint32) []byte {
	m := wb.New()
	m.M.ImportSection = append(m.M.ImportSection, wasm.Import{Type: wasm.ExternTypeMemory, Module: "A", Name: "mem",
		DescMem: &wasm.Memory{Min: min, Max: func() uint32 {
			if max != nil {
				return *max
			}
			return 65536
		}(), IsMaxEncoded: max != nil}})
	m.M.ImportMemoryCount = 1
	m.AddFunc(wb.Func{Params: []byte{wb.I32}, Results: []byte{wb.I32}, Export: "peek", Body: wb.Cat(wb.LocalGet(0), wb.MemArg(wasm.OpcodeI32Load8U, 0, 0))})
	return m.Bytes()
}

func linkStage() {
	ctx := context.Background()
	type knob struct {
		cfm, alloc, cache bool
	}
	var knobs []knob
	for i := 0; i < 8; i++ {
		knobs = append(knobs, knob{i&1 != 0, i&2 != 0, i&4 != 0})
	}
	maxes := []*uint32{nil, u32p(3), u32p(4), u32p(5)}
	for _, engine := range []string{"interpreter", "compiler"} {
		base := map[string]string{}
		for ki, kn := range knobs {
			for grown := uint32(0); grown <= 2; grown++ {
				for min := uint32(0); min <= 5; min++ {
					for mi, mx := range maxes {
						var rc wazero.RuntimeConfig
						if engine == "compiler" {
							rc = wazero.NewRuntimeConfigCompiler()
						} else {
							rc = wazero.NewRuntimeConfigInterpreter()
						}
						rc = rc.WithMemoryCapacityFromMax(kn.cfm)
						var cache wazero.CompilationCache
						if kn.cache {
							cache = wazero.NewCompilationCache()
							rc = rc.WithCompilationCache(cache)
						}
						ictx := ctx
						if kn.alloc {
							ictx = experimental.WithMemoryAllocator(ctx, experimental.MemoryAllocatorFunc(makeAlloc))
						}
						rt := wazero.NewRuntimeWithConfig(ictx, rc)
						out := func() string {
							a, err := rt.InstantiateWithConfig(ictx, linkExporter(), wazero.NewModuleConfig().WithName("A"))
							if err != nil {
								return "exporter: " + errClass(err)
							}
							if grown > 0 {
								if _, err := a.ExportedFunction("grow").Call(ictx, uint64(grown)); err != nil {
									return "grow: " + errClass(err)
								}
							}
							b, err := rt.InstantiateWithConfig(ictx, linkImporter(min, mx), wazero.NewModuleConfig().WithName("B"))
							if err != nil {
								s := err.Error()
								for _, k := range []string{"minimum size mismatch", "maximum size mismatch"} {
									if strings.Contains(s, k) {
										return "link error: " + k
									}
								}
								return "link error: " + errClass(err)
							}
							if min == 0 {
								return "linked"
							}
							res, err := safeCall(ictx, b.ExportedFunction("peek"), []uint64{uint64(min*65536 - 1)})
							if err != nil {
								return "linked; last byte of the declared minimum: trap " + errClass(err)
							}
							return fmt.Sprintf("linked; last byte of the declared minimum: %v", res)
						}()
						rt.Close(ctx)
						if cache != nil {
							cache.Close(ctx)
						}
						key := fmt.Sprintf("grown=%d/min=%d/max=%d", grown, min, mi)
						rep.Case(fmt.Sprintf("link/%s/%d/%s", engine, ki, key))
						if ki == 0 {
							base[key] = out
							continue
						}
						if out != base[key] {
							mxs := "none"
							if mx != nil {
								mxs = fmt.Sprint(*mx)
							}
							rep.Violate(hx.Violation{Kind: "impl-violation", Signature: "C12:link-outcome-depends-on-memory-knobs:" + engine,
								What:     fmt.Sprintf("exporter (memory 1 4) grown by %d pages, importer (import A.mem (memory %d %s)): with capacity-from-max=%v custom-allocator=%v cache=%v: %q; default configuration: %q", grown, min, mxs, kn.cfm, kn.alloc, kn.cache, out, base[key]),
								Input:    map[string]any{"stage": "link", "engine": engine, "exporter": "(memory 1 4)", "grown_by": grown, "importer_min": min, "importer_max": mxs, "capacity_from_max": kn.cfm, "custom_allocator": kn.alloc, "cache": kn.cache},
								Expected: base[key], Actual: out})
						}
					}
				}
			}
		}
	}
}
