package main

// Guest program generators for hc12. Every random choice comes from the *rand.Rand handed in.

import (
	"encoding/binary"
	"fmt"
	"math"
	"math/rand"

	"github.com/tetratelabs/wazero/internal/leb128"
	"github.com/tetratelabs/wazero/internal/testing/dwarftestdata"
	"github.com/tetratelabs/wazero/internal/wasm"
	"github.com/tetratelabs/wazero/verifharness/allops"
	"github.com/tetratelabs/wazero/verifharness/wb"
)

type call struct {
	Fn   string   `json:"fn"`
	Args []uint64 `json:"args"`
}

type prog struct {
	Name    string   `json:"name"`
	Kind    string   `json:"kind"`
	Bin     []byte   `json:"-"`
	BinHex  string   `json:"bin_hex,omitempty"`
	Limit   uint32   `json:"memory_limit_pages"`
	Calls   []call   `json:"calls"`
	WASI    bool     `json:"wasi,omitempty"`
	NFuncs  int      `json:"local_functions"`
	MemMin  uint32   `json:"mem_min,omitempty"`
	MemMax  *uint32  `json:"mem_max,omitempty"`
	HasMem  bool     `json:"has_memory,omitempty"`
	Globals []string `json:"exported_globals,omitempty"`
}

func f64Const(bits uint64) []byte {
	b := []byte{wasm.OpcodeF64Const}
	for i := 0; i < 8; i++ {
		b = append(b, byte(bits>>(8*i)))
	}
	return b
}

var i32Bin = []byte{wasm.OpcodeI32Add, wasm.OpcodeI32Sub, wasm.OpcodeI32Mul, wasm.OpcodeI32And, wasm.OpcodeI32Or, wasm.OpcodeI32Xor,
	wasm.OpcodeI32Shl, wasm.OpcodeI32ShrU, wasm.OpcodeI32ShrS, wasm.OpcodeI32Rotl, wasm.OpcodeI32Rotr,
	wasm.OpcodeI32DivS, wasm.OpcodeI32DivU, wasm.OpcodeI32RemS, wasm.OpcodeI32RemU,
	wasm.OpcodeI32Eq, wasm.OpcodeI32LtS, wasm.OpcodeI32GtU, wasm.OpcodeI32LeS}
var i32Un = []byte{wasm.OpcodeI32Clz, wasm.OpcodeI32Ctz, wasm.OpcodeI32Popcnt, wasm.OpcodeI32Eqz, wasm.OpcodeI32Extend8S, wasm.OpcodeI32Extend16S}
var i64Bin = []byte{wasm.OpcodeI64Add, wasm.OpcodeI64Sub, wasm.OpcodeI64Mul, wasm.OpcodeI64And, wasm.OpcodeI64Or, wasm.OpcodeI64Xor,
	wasm.OpcodeI64Shl, wasm.OpcodeI64ShrU, wasm.OpcodeI64ShrS, wasm.OpcodeI64Rotl,
	wasm.OpcodeI64DivS, wasm.OpcodeI64DivU, wasm.OpcodeI64RemS, wasm.OpcodeI64RemU}

var consts32 = []int32{0, 1, -1, 2, 7, 31, 32, 0x7fffffff, -0x80000000, 0x10000, 12345}

func expr32(r *rand.Rand, d int) []byte {
	if d == 0 || r.Intn(5) == 0 {
		switch r.Intn(3) {
		case 0:
			return wb.LocalGet(0)
		case 1:
			return wb.LocalGet(1)
		default:
			return wb.I32Const(consts32[r.Intn(len(consts32))])
		}
	}
	if r.Intn(5) == 0 {
		return wb.Cat(expr32(r, d-1), wb.Op(i32Un[r.Intn(len(i32Un))]))
	}
	if r.Intn(8) == 0 { // select
		return wb.Cat(expr32(r, d-1), expr32(r, d-1), expr32(r, d-1), wb.Op(wasm.OpcodeSelect))
	}
	return wb.Cat(expr32(r, d-1), expr32(r, d-1), wb.Op(i32Bin[r.Intn(len(i32Bin))]))
}

func expr64(r *rand.Rand, d int) []byte {
	if d == 0 || r.Intn(5) == 0 {
		switch r.Intn(3) {
		case 0:
			return wb.LocalGet(0)
		case 1:
			return wb.LocalGet(1)
		default:
			return wb.I64Const([]int64{0, 1, -1, 63, 64, 0x7fffffffffffffff, -0x8000000000000000, 1 << 32}[r.Intn(8)])
		}
	}
	return wb.Cat(expr64(r, d-1), expr64(r, d-1), wb.Op(i64Bin[r.Intn(len(i64Bin))]))
}

var args32 = []uint64{0, 1, 2, 5, 0xffffffff, 0x80000000, 0x7fffffff, 31, 32, 1000}
var args64 = []uint64{0, 1, 3, 0xffffffffffffffff, 0x8000000000000000, 0x7fffffffffffffff, 64, 1 << 40}

func progArith(r *rand.Rand, n int) *prog {
	m := wb.New()
	nf := 2 + r.Intn(3)
	p := &prog{Kind: "arith", Name: fmt.Sprintf("arith%d", n), Limit: 8}
	for i := 0; i < nf; i++ {
		if r.Intn(3) == 0 {
			name := fmt.Sprintf("g%d", i)
			m.AddFunc(wb.Func{Params: []byte{wb.I64, wb.I64}, Results: []byte{wb.I64}, Export: name, Body: expr64(r, 3)})
			for k := 0; k < 5; k++ {
				p.Calls = append(p.Calls, call{name, []uint64{args64[r.Intn(len(args64))], args64[r.Intn(len(args64))]}})
			}
		} else {
			name := fmt.Sprintf("f%d", i)
			m.AddFunc(wb.Func{Params: []byte{wb.I32, wb.I32}, Results: []byte{wb.I32}, Export: name, Body: expr32(r, 4)})
			for k := 0; k < 6; k++ {
				p.Calls = append(p.Calls, call{name, []uint64{args32[r.Intn(len(args32))], args32[r.Intn(len(args32))]}})
			}
		}
	}
	p.NFuncs = nf
	if r.Intn(2) == 0 {
		addNames(m, r)
	}
	p.Bin = m.Bytes()
	return p
}

func addNames(m *wb.Mod, r *rand.Rand) {
	ns := &wasm.NameSection{ModuleName: "guest"}
	for i := range m.M.FunctionSection {
		ns.FunctionNames = append(ns.FunctionNames, wasm.NameAssoc{Index: m.M.ImportFunctionCount + uint32(i), Name: fmt.Sprintf("fn_%d", i)})
	}
	m.M.NameSection = ns
	m.M.CustomSections = append(m.M.CustomSections, &wasm.CustomSection{Name: "producers", Data: []byte{1, 2, 3, byte(r.Intn(256))}},
		&wasm.CustomSection{Name: "verif.note", Data: []byte("hello")})
}

// progMem: memory growth up to the limits; declared max absent / below / at / above the limit.
func progMem(r *rand.Rand, n int, limit uint32, mn uint32, mx *uint32) *prog {
	m := wb.New()
	m.Memory(mn, mx, false, "memory")
	m.AddFunc(wb.Func{Params: []byte{wb.I32}, Results: []byte{wb.I32}, Export: "grow", Body: wb.Cat(wb.LocalGet(0), wb.MemoryGrow())})
	m.AddFunc(wb.Func{Results: []byte{wb.I32}, Export: "size", Body: wb.MemorySize()})
	m.AddFunc(wb.Func{Params: []byte{wb.I32}, Results: []byte{wb.I32}, Export: "load", Body: wb.Cat(wb.LocalGet(0), wb.MemArg(wasm.OpcodeI32Load, 2, 0))})
	m.AddFunc(wb.Func{Params: []byte{wb.I32, wb.I32}, Export: "store", Body: wb.Cat(wb.LocalGet(0), wb.LocalGet(1), wb.MemArg(wasm.OpcodeI32Store, 2, 0))})
	// fill(addr, n, v): loop storing bytes
	m.AddFunc(wb.Func{Params: []byte{wb.I32, wb.I32, wb.I32}, Export: "fill", Body: wb.Cat(
		wb.Op(wasm.OpcodeBlock, 0x40), wb.Op(wasm.OpcodeLoop, 0x40),
		wb.LocalGet(1), wb.Op(wasm.OpcodeI32Eqz), wb.Op(wasm.OpcodeBrIf, 1),
		wb.LocalGet(0), wb.LocalGet(2), wb.MemArg(wasm.OpcodeI32Store8, 0, 0),
		wb.LocalGet(0), wb.I32Const(1), wb.Op(wasm.OpcodeI32Add), wb.LocalSet(0),
		wb.LocalGet(1), wb.I32Const(1), wb.Op(wasm.OpcodeI32Sub), wb.LocalSet(1),
		wb.LocalGet(2), wb.I32Const(3), wb.Op(wasm.OpcodeI32Add), wb.LocalSet(2),
		wb.Op(wasm.OpcodeBr, 0), wb.Op(wasm.OpcodeEnd), wb.Op(wasm.OpcodeEnd))})
	// grow then touch the new page in the same function (cached length/base must be refreshed)
	m.AddFunc(wb.Func{Params: []byte{wb.I32}, Results: []byte{wb.I32}, Export: "grow_touch", Body: wb.Cat(
		wb.LocalGet(0), wb.MemoryGrow(), wb.Op(wasm.OpcodeDrop),
		wb.MemorySize(), wb.I32Const(16), wb.Op(wasm.OpcodeI32Shl), wb.I32Const(4), wb.Op(wasm.OpcodeI32Sub),
		wb.LocalTee(0), wb.I32Const(0x5a5a5a5a), wb.MemArg(wasm.OpcodeI32Store, 2, 0),
		wb.LocalGet(0), wb.MemArg(wasm.OpcodeI32Load, 2, 0))})
	// access, grow (the buffer may move), access again through the base cached before the growth, in ONE function;
	// also with the growth inside a callee
	growFn := m.AddFunc(wb.Func{Params: []byte{wb.I32}, Body: wb.Cat(wb.LocalGet(0), wb.MemoryGrow(), wb.Op(wasm.OpcodeDrop))})
	for _, viaCall := range []bool{false, true} {
		name := "touch_grow_touch"
		grow := wb.Cat(wb.LocalGet(1), wb.MemoryGrow(), wb.Op(wasm.OpcodeDrop))
		if viaCall {
			name = "touch_callgrow_touch"
			grow = wb.Cat(wb.LocalGet(1), wb.Call(growFn))
		}
		m.AddFunc(wb.Func{Params: []byte{wb.I32, wb.I32}, Results: []byte{wb.I32}, Export: name, Body: wb.Cat(
			wb.LocalGet(0), wb.I32Const(7), wb.MemArg(wasm.OpcodeI32Store, 2, 0),
			grow,
			wb.LocalGet(0), wb.I32Const(42), wb.MemArg(wasm.OpcodeI32Store, 2, 0),
			wb.LocalGet(0), wb.MemArg(wasm.OpcodeI32Load, 2, 0))})
	}
	if mn > 0 {
		off := wb.I32Const(int32(r.Intn(1000)))
		m.M.DataSection = append(m.M.DataSection, wasm.DataSegment{OffsetExpression: wasm.ConstantExpression{Opcode: wasm.OpcodeI32Const, Data: off[1:]}, Init: []byte("initial data segment")})
	}
	p := &prog{Kind: "mem", Name: fmt.Sprintf("mem%d-min%d-max%s-limit%d", n, mn, maxStr(mx), limit), Limit: limit, NFuncs: 9, HasMem: true, MemMin: mn, MemMax: mx}
	p.Calls = append(p.Calls, call{"size", nil}, call{"load", []uint64{0}}, call{"load", []uint64{uint64(mn)*65536 - 4}}, call{"load", []uint64{uint64(mn) * 65536}})
	for k := 0; k < 8; k++ {
		switch r.Intn(5) {
		case 0, 1:
			p.Calls = append(p.Calls, call{"grow", []uint64{uint64(r.Intn(int(limit) + 3))}}, call{"size", nil})
		case 2:
			p.Calls = append(p.Calls, call{"grow_touch", []uint64{uint64(r.Intn(3))}})
			a := uint64(16 + 4*r.Intn(8))
			p.Calls = append(p.Calls, call{[]string{"touch_grow_touch", "touch_callgrow_touch"}[r.Intn(2)], []uint64{a, uint64(1 + r.Intn(2))}}, call{"load", []uint64{a}})
		case 3:
			a := uint64(r.Intn(int(limit+1))) * 65536
			p.Calls = append(p.Calls, call{"fill", []uint64{a - uint64(r.Intn(8)), 16, uint64(r.Intn(256))}})
		default:
			a := uint64(r.Intn(int(limit+2)))*65536 - uint64(4*r.Intn(3))
			p.Calls = append(p.Calls, call{"store", []uint64{a & 0xffffffff, uint64(r.Uint32())}}, call{"load", []uint64{a & 0xffffffff}})
		}
	}
	p.Calls = append(p.Calls, call{"grow", []uint64{uint64(limit)}}, call{"grow", []uint64{1}}, call{"size", nil}, call{"grow", []uint64{0xffffffff}})
	if r.Intn(2) == 0 {
		addNames(m, r)
	}
	p.Bin = m.Bytes()
	return p
}

func maxStr(mx *uint32) string {
	if mx == nil {
		return "-"
	}
	return fmt.Sprint(*mx)
}

func progGlobals(r *rand.Rand, n int) *prog {
	m := wb.New()
	c32 := wb.I32Const(int32(r.Intn(1000)))
	c64 := wb.I64Const(int64(r.Int63()))
	m.M.GlobalSection = []wasm.Global{
		{Type: wasm.GlobalType{ValType: wb.I32, Mutable: true}, Init: wasm.ConstantExpression{Opcode: wasm.OpcodeI32Const, Data: c32[1:]}},
		{Type: wasm.GlobalType{ValType: wb.I64, Mutable: true}, Init: wasm.ConstantExpression{Opcode: wasm.OpcodeI64Const, Data: c64[1:]}},
		{Type: wasm.GlobalType{ValType: wb.I32, Mutable: false}, Init: wasm.ConstantExpression{Opcode: wasm.OpcodeI32Const, Data: leb128.EncodeInt32(77)}},
	}
	for i, nm := range []string{"g0", "g1", "g2"} {
		m.M.ExportSection = append(m.M.ExportSection, wasm.Export{Name: nm, Type: wasm.ExternTypeGlobal, Index: uint32(i)})
	}
	m.AddFunc(wb.Func{Params: []byte{wb.I32}, Results: []byte{wb.I32}, Export: "add0", Body: wb.Cat(
		wb.GlobalGet(0), wb.LocalGet(0), wb.Op(wasm.OpcodeI32Add), wb.GlobalGet(2), wb.Op(wasm.OpcodeI32Xor), wb.GlobalSet(0), wb.GlobalGet(0))})
	m.AddFunc(wb.Func{Params: []byte{wb.I64}, Results: []byte{wb.I64}, Export: "mul1", Body: wb.Cat(
		wb.GlobalGet(1), wb.LocalGet(0), wb.Op(wasm.OpcodeI64Mul), wb.I64Const(1), wb.Op(wasm.OpcodeI64Add), wb.GlobalSet(1), wb.GlobalGet(1))})
	// start function bumps g0
	st := m.AddFunc(wb.Func{Body: wb.Cat(wb.GlobalGet(0), wb.I32Const(5), wb.Op(wasm.OpcodeI32Add), wb.GlobalSet(0))})
	m.M.StartSection = &st
	p := &prog{Kind: "globals", Name: fmt.Sprintf("globals%d", n), Limit: 8, NFuncs: 3, Globals: []string{"g0", "g1", "g2"}}
	for k := 0; k < 6; k++ {
		p.Calls = append(p.Calls, call{"add0", []uint64{uint64(r.Uint32())}}, call{"mul1", []uint64{r.Uint64()}})
	}
	p.Bin = m.Bytes()
	return p
}

func progTable(r *rand.Rand, n int) *prog {
	m := wb.New()
	var idx []uint32
	for i := 0; i < 4; i++ {
		idx = append(idx, m.AddFunc(wb.Func{Params: []byte{wb.I32}, Results: []byte{wb.I32}, Body: wb.Cat(wb.LocalGet(0), wb.I32Const(int32(r.Intn(100)+1)), wb.Op(i32Bin[r.Intn(6)]))}))
	}
	other := m.AddFunc(wb.Func{Results: []byte{wb.I32}, Body: wb.I32Const(9)}) // different type
	ti := m.TypeIdx([]byte{wb.I32}, []byte{wb.I32})
	m.AddFunc(wb.Func{Params: []byte{wb.I32, wb.I32}, Results: []byte{wb.I32}, Export: "calli", Body: wb.Cat(
		wb.LocalGet(1), wb.LocalGet(0), wb.Op(wasm.OpcodeCallIndirect), wb.U32(ti), wb.Op(0))})
	m.M.TableSection = []wasm.Table{{Min: 8, Type: wasm.RefTypeFuncref}}
	init := []wasm.Index{idx[0], idx[1], idx[2], idx[3], other}
	r.Shuffle(len(init), func(i, j int) { init[i], init[j] = init[j], init[i] })
	m.M.ElementSection = []wasm.ElementSegment{{OffsetExpr: wasm.ConstantExpression{Opcode: wasm.OpcodeI32Const, Data: leb128.EncodeInt32(1)},
		Init: init, Type: wasm.RefTypeFuncref, Mode: wasm.ElementModeActive}}
	p := &prog{Kind: "table", Name: fmt.Sprintf("table%d", n), Limit: 8, NFuncs: 6}
	for i := 0; i < 10; i++ { // 0 = null, 1..5 set, 6,7 null, 8+ out of bounds
		p.Calls = append(p.Calls, call{"calli", []uint64{uint64(i), uint64(r.Intn(50))}})
	}
	p.Calls = append(p.Calls, call{"calli", []uint64{0xffffffff, 1}})
	if r.Intn(2) == 0 {
		addNames(m, r)
	}
	p.Bin = m.Bytes()
	return p
}

func progTraps(r *rand.Rand, n int) *prog {
	m := wb.New()
	m.Memory(1, nil, false, "memory")
	m.AddFunc(wb.Func{Export: "unreachable", Body: wb.Op(wasm.OpcodeUnreachable)})
	m.AddFunc(wb.Func{Params: []byte{wb.I32, wb.I32}, Results: []byte{wb.I32}, Export: "div", Body: wb.Cat(wb.LocalGet(0), wb.LocalGet(1), wb.Op(wasm.OpcodeI32DivS))})
	m.AddFunc(wb.Func{Params: []byte{wb.F64}, Results: []byte{wb.I32}, Export: "trunc", Body: wb.Cat(wb.LocalGet(0), wb.Op(wasm.OpcodeI32TruncF64S))})
	m.AddFunc(wb.Func{Params: []byte{wb.I32}, Results: []byte{wb.I64}, Export: "load64", Body: wb.Cat(wb.LocalGet(0), wb.MemArg(wasm.OpcodeI64Load, 3, 8))})
	// a store before a trap must stay visible (state after trap is part of the trace)
	m.AddFunc(wb.Func{Params: []byte{wb.I32}, Export: "store_then_trap", Body: wb.Cat(
		wb.I32Const(64), wb.LocalGet(0), wb.MemArg(wasm.OpcodeI32Store, 2, 0), wb.Op(wasm.OpcodeUnreachable))})
	p := &prog{Kind: "traps", Name: fmt.Sprintf("traps%d", n), Limit: 4, NFuncs: 5, HasMem: true, MemMin: 1}
	p.Calls = []call{{"unreachable", nil}, {"div", []uint64{7, 0}}, {"div", []uint64{0x80000000, 0xffffffff}}, {"div", []uint64{9, 2}},
		{"trunc", []uint64{0x7ff8000000000000}}, {"trunc", []uint64{0x41f0000000000000}}, {"trunc", []uint64{0x4008000000000000}},
		{"load64", []uint64{65536 - 16}}, {"load64", []uint64{65536 - 15}}, {"load64", []uint64{0xfffffff8}},
		{"store_then_trap", []uint64{uint64(r.Uint32())}}, {"load64", []uint64{56}}}
	p.Bin = m.Bytes()
	return p
}

// minimalDebugInfo: a custom section `.debug_info` holding one empty DWARF v4 compilation unit (unit_length 7, version 4,
// abbrev offset 0, address size 4): enough for the runtime to treat the module as one WITH debug information (per-operation
// source offsets are recorded, stack traces are symbolised) - a dimension of its own next to WithDebugInfoEnabled.
func withMinimalDebugInfo(p *prog) *prog {
	q := *p
	q.Name += "+dwarf"
	name := ".debug_info"
	payload := []byte{0x07, 0x00, 0x00, 0x00, 0x04, 0x00, 0x00, 0x00, 0x00, 0x00, 0x04}
	sec := append([]byte{byte(len(name))}, name...)
	sec = append(sec, payload...)
	q.Bin = append(append(append([]byte{}, p.Bin...), 0, byte(len(sec))), sec...)
	return &q
}

// progLoopsThenFail: functions that END in a failure after several loops (a trap in the function itself, in a callee,
// a stack overflow further down): whatever a back end inserts at loop headers (exit-code checks, when close-on-
// context-done is on) shifts its own bookkeeping of the following operations; the failure at the very end of the body
// is where an off-by-k of such bookkeeping falls off the table.
func progLoopsThenFail(n int) *prog {
	m := wb.New()
	loop := wb.Op(wasm.OpcodeLoop, 0x40, wasm.OpcodeEnd)
	boom := m.AddFunc(wb.Func{Body: wb.Op(wasm.OpcodeUnreachable)})
	m.AddFunc(wb.Func{Export: "loops_then_trap", Body: wb.Cat(loop, loop, loop, wb.Op(wasm.OpcodeUnreachable))})
	m.AddFunc(wb.Func{Export: "loops_then_call_trap", Body: wb.Cat(loop, loop, wb.Call(boom))})
	m.AddFunc(wb.Func{Params: []byte{wb.I32, wb.I32}, Results: []byte{wb.I32}, Export: "loops_then_div", Body: wb.Cat(loop, loop, loop, loop, wb.LocalGet(0), wb.LocalGet(1), wb.Op(wasm.OpcodeI32DivU))})
	m.AddFunc(wb.Func{Export: "loops_then_overflow", Body: wb.Cat(loop, loop, wb.Call(4))})
	p := &prog{Kind: "loopsfail", Name: fmt.Sprintf("loopsfail%d", n), Limit: 4, NFuncs: 5}
	p.Calls = []call{{"loops_then_trap", nil}, {"loops_then_call_trap", nil}, {"loops_then_div", []uint64{7, 0}}, {"loops_then_div", []uint64{9, 3}}, {"loops_then_overflow", nil}, {"loops_then_trap", nil}}
	p.Bin = m.Bytes()
	return p
}

// progPressure: register pressure across the places where a configuration inserts code.  K f64 locals (and K v128
// locals in the second function) are all live across a loop header and a call: with close-on-context-done the back end
// calls out at every loop header, with listeners at every call, with another memory configuration it reloads more -
// each of those call-outs must preserve every register the allocator keeps a value in (K = 4..28 walks through all
// sixteen vector registers of amd64 and well into arm64's).
func progPressure(k int) *prog {
	m := wb.New()
	leaf := m.AddFunc(wb.Func{Params: []byte{wb.I32}, Results: []byte{wb.I32}, Body: wb.Cat(wb.LocalGet(0), wb.I32Const(1), wb.Op(wasm.OpcodeI32Add))})
	var locals []byte
	for i := 0; i < k; i++ {
		locals = append(locals, wb.F64)
	}
	// run(n): x_i := i+1.5; loop n times: x_i := x_i * 1.0000001 + i (i = 0..k-1), with a call in the loop; result = sum
	var body []byte
	for i := 0; i < k; i++ {
		body = append(body, wb.Cat(f64c(float64(i)+1.5), wb.LocalSet(uint32(1+i)))...)
	}
	body = append(body, wb.Op(wasm.OpcodeLoop, 0x40)...)
	for i := 0; i < k; i++ {
		body = append(body, wb.Cat(wb.LocalGet(uint32(1+i)), f64c(1.0000001), wb.Op(wasm.OpcodeF64Mul), f64c(float64(i)), wb.Op(wasm.OpcodeF64Add), wb.LocalSet(uint32(1+i)))...)
	}
	body = append(body, wb.Cat(wb.LocalGet(0), wb.I32Const(1), wb.Op(wasm.OpcodeI32Sub), wb.LocalTee(0), wb.Op(wasm.OpcodeBrIf), wb.U32(0), wb.Op(wasm.OpcodeEnd))...)
	body = append(body, f64c(0)...)
	for i := 0; i < k; i++ {
		body = append(body, wb.Cat(wb.LocalGet(uint32(1+i)), wb.Op(wasm.OpcodeF64Add))...)
	}
	m.AddFunc(wb.Func{Params: []byte{wb.I32}, Results: []byte{wb.F64}, Locals: locals, Export: "pressure_loop", Body: body})
	// the same with a call to a leaf inside the loop (listeners, stack growth and other call-outs at calls)
	var body2 []byte
	for i := 0; i < k; i++ {
		body2 = append(body2, wb.Cat(f64c(float64(i)+2.25), wb.LocalSet(uint32(1+i)))...)
	}
	body2 = append(body2, wb.Op(wasm.OpcodeLoop, 0x40)...)
	body2 = append(body2, wb.Cat(wb.LocalGet(0), wb.Call(leaf), wb.Op(wasm.OpcodeDrop))...)
	for i := 0; i < k; i++ {
		body2 = append(body2, wb.Cat(wb.LocalGet(uint32(1+i)), f64c(0.5), wb.Op(wasm.OpcodeF64Add), wb.LocalSet(uint32(1+i)))...)
	}
	body2 = append(body2, wb.Cat(wb.LocalGet(0), wb.I32Const(1), wb.Op(wasm.OpcodeI32Sub), wb.LocalTee(0), wb.Op(wasm.OpcodeBrIf), wb.U32(0), wb.Op(wasm.OpcodeEnd))...)
	body2 = append(body2, f64c(0)...)
	for i := 0; i < k; i++ {
		body2 = append(body2, wb.Cat(wb.LocalGet(uint32(1+i)), wb.Op(wasm.OpcodeF64Add))...)
	}
	m.AddFunc(wb.Func{Params: []byte{wb.I32}, Results: []byte{wb.F64}, Locals: locals, Export: "pressure_call", Body: body2})
	p := &prog{Kind: "pressure", Name: fmt.Sprintf("pressure%d", k), Limit: 4, NFuncs: 3}
	p.Calls = []call{{"pressure_loop", []uint64{5}}, {"pressure_call", []uint64{4}}, {"pressure_loop", []uint64{1}}}
	p.Bin = m.Bytes()
	return p
}

func f64c(v float64) []byte {
	b := make([]byte, 9)
	b[0] = wasm.OpcodeF64Const
	binary.LittleEndian.PutUint64(b[1:], math.Float64bits(v))
	return b
}

func progRec(r *rand.Rand, n int, unbounded bool) *prog {
	m := wb.New()
	// fib(n)
	m.AddFunc(wb.Func{Params: []byte{wb.I32}, Results: []byte{wb.I32}, Export: "fib", Body: wb.Cat(
		wb.LocalGet(0), wb.I32Const(2), wb.Op(wasm.OpcodeI32LtU),
		wb.Op(wasm.OpcodeIf, wb.I32), wb.LocalGet(0),
		wb.Op(wasm.OpcodeElse),
		wb.LocalGet(0), wb.I32Const(1), wb.Op(wasm.OpcodeI32Sub), wb.Call(0),
		wb.LocalGet(0), wb.I32Const(2), wb.Op(wasm.OpcodeI32Sub), wb.Call(0), wb.Op(wasm.OpcodeI32Add),
		wb.Op(wasm.OpcodeEnd))})
	// depth(n): recursion n deep, returns n
	m.AddFunc(wb.Func{Params: []byte{wb.I32}, Results: []byte{wb.I32}, Export: "depth", Body: wb.Cat(
		wb.LocalGet(0), wb.Op(wasm.OpcodeI32Eqz),
		wb.Op(wasm.OpcodeIf, wb.I32), wb.I32Const(0),
		wb.Op(wasm.OpcodeElse), wb.LocalGet(0), wb.I32Const(1), wb.Op(wasm.OpcodeI32Sub), wb.Call(1), wb.I32Const(1), wb.Op(wasm.OpcodeI32Add),
		wb.Op(wasm.OpcodeEnd))})
	m.AddFunc(wb.Func{Results: []byte{wb.I32}, Export: "forever", Body: wb.Cat(wb.Call(2), wb.I32Const(1), wb.Op(wasm.OpcodeI32Add))})
	p := &prog{Kind: "rec", Name: fmt.Sprintf("rec%d", n), Limit: 4, NFuncs: 3}
	p.Calls = []call{{"fib", []uint64{uint64(5 + r.Intn(12))}}, {"depth", []uint64{uint64(100 + r.Intn(900))}}, {"fib", []uint64{1}}}
	if unbounded {
		p.Name += "-unbounded"
		p.Calls = append(p.Calls, call{"forever", nil}, call{"fib", []uint64{7}})
	}
	p.Bin = m.Bytes()
	return p
}

func progHost(r *rand.Rand, n int) *prog {
	m := wb.New()
	lg := m.ImportFunc("env", "log", []byte{wb.I32, wb.I32}, nil)
	lg64 := m.ImportFunc("env", "log64", []byte{wb.I64}, nil)
	add := m.ImportFunc("env", "add", []byte{wb.I32, wb.I32}, []byte{wb.I32})
	k1, k2 := int32(r.Intn(1000)+1), int32(r.Intn(7)+1)
	// loop(n): for i in n..1: log(i*k1, add(i,k2)); log64(i64(i)<<33)
	m.AddFunc(wb.Func{Params: []byte{wb.I32}, Results: []byte{wb.I32}, Locals: []byte{wb.I32}, Export: "loop", Body: wb.Cat(
		wb.Op(wasm.OpcodeBlock, 0x40), wb.Op(wasm.OpcodeLoop, 0x40),
		wb.LocalGet(0), wb.Op(wasm.OpcodeI32Eqz), wb.Op(wasm.OpcodeBrIf, 1),
		wb.LocalGet(0), wb.I32Const(k1), wb.Op(wasm.OpcodeI32Mul),
		wb.LocalGet(0), wb.I32Const(k2), wb.Call(add), wb.LocalTee(1),
		wb.Call(lg),
		wb.LocalGet(0), wb.Op(wasm.OpcodeI64ExtendI32U), wb.I64Const(33), wb.Op(wasm.OpcodeI64Shl), wb.Call(lg64),
		wb.LocalGet(0), wb.I32Const(1), wb.Op(wasm.OpcodeI32Sub), wb.LocalSet(0),
		wb.Op(wasm.OpcodeBr, 0), wb.Op(wasm.OpcodeEnd), wb.Op(wasm.OpcodeEnd),
		wb.LocalGet(1))})
	p := &prog{Kind: "host", Name: fmt.Sprintf("host%d", n), Limit: 4, NFuncs: 1}
	p.Calls = []call{{"loop", []uint64{uint64(1 + r.Intn(20))}}, {"loop", []uint64{0}}, {"loop", []uint64{3}}}
	if r.Intn(2) == 0 {
		addNames(m, r)
	}
	p.Bin = m.Bytes()
	return p
}

// progTail: loops written as tail calls (direct, through a table, mutually recursive).  A tail call runs in
// constant space on both engines: 100000 iterations return a value - under every non-semantic option.
func progTail(r *rand.Rand, n int) *prog {
	m := wb.New()
	ii := []byte{wb.I32, wb.I32}
	k := int32(1 + r.Intn(9))
	step := func(call []byte) []byte { // if n == 0 { acc } else { tail-call f(n-1, acc + n*k) }
		return wb.Cat(wb.LocalGet(0), wb.Op(wasm.OpcodeI32Eqz), wb.Op(wasm.OpcodeIf, wb.I32), wb.LocalGet(1), wb.Op(wasm.OpcodeElse),
			wb.LocalGet(0), wb.I32Const(1), wb.Op(wasm.OpcodeI32Sub),
			wb.LocalGet(1), wb.LocalGet(0), wb.I32Const(k), wb.Op(wasm.OpcodeI32Mul), wb.Op(wasm.OpcodeI32Add),
			call, wb.Op(wasm.OpcodeEnd))
	}
	ti := m.TypeIdx(ii, []byte{wb.I32})
	m.AddFunc(wb.Func{Params: ii, Results: []byte{wb.I32}, Export: "direct", Body: step(wb.Cat([]byte{wasm.OpcodeTailCallReturnCall, 0}))})
	m.AddFunc(wb.Func{Params: ii, Results: []byte{wb.I32}, Export: "indirect", Body: step(wb.Cat(wb.I32Const(1), []byte{wasm.OpcodeTailCallReturnCallIndirect}, wb.U32(ti), []byte{0}))})
	m.AddFunc(wb.Func{Params: ii, Results: []byte{wb.I32}, Export: "ping", Body: step(wb.Cat([]byte{wasm.OpcodeTailCallReturnCall, 3}))})
	m.AddFunc(wb.Func{Params: ii, Results: []byte{wb.I32}, Export: "pong", Body: step(wb.Cat(wb.I32Const(2), []byte{wasm.OpcodeTailCallReturnCallIndirect}, wb.U32(ti), []byte{0}))})
	m.Table(4, nil)
	p := &prog{Kind: "tail", Name: fmt.Sprintf("tail%d", n), Limit: 4, NFuncs: 4}
	for _, fn := range []string{"direct", "indirect", "ping"} {
		for _, it := range []uint64{10, 1999, 2001, 5000, 100000} {
			p.Calls = append(p.Calls, call{fn, []uint64{it, uint64(r.Intn(100))}})
		}
	}
	p.Bin = m.BytesWithSegments([]wb.Elem{{Offset: 0, Init: []int64{0, 1, 2, 3}}})
	return p
}

// progAllOps: one module with EVERY instruction wazero knows (package allops), each function called once: no
// non-semantic option may change what any single instruction computes, traps with, or leaves in memory.
func progAllOps() *prog {
	bin, fns := allops.Module()
	p := &prog{Kind: "allops", Name: "allops", Limit: 4, NFuncs: len(fns), Bin: bin, HasMem: true}
	for k, f := range fns {
		var args []uint64
		for i, t := range f.Params {
			n := 1
			if t == wasm.ValueTypeV128 {
				n = 2
			}
			for j := 0; j < n; j++ {
				args = append(args, uint64(5+3*i+11*j+k%7))
			}
		}
		p.Calls = append(p.Calls, call{fmt.Sprintf("op%d", k), args})
	}
	return p
}

func progDwarf() *prog {
	return &prog{Kind: "dwarf", Name: "dwarf-zig", Bin: dwarftestdata.ZigWasm, Limit: 64, WASI: true, NFuncs: -1,
		Calls: []call{{"_start", nil}}}
}

func u32p(v uint32) *uint32 { return &v }

func programs(r *rand.Rand, thorough bool) []*prog {
	var ps []*prog
	reps := 1
	if thorough {
		reps = 3
	}
	for i := 0; i < reps; i++ {
		ps = append(ps, progArith(r, i), progGlobals(r, i), progTable(r, i), progTraps(r, i), progHost(r, i), progRec(r, i, false))
	}
	ps = append(ps, progRec(r, 9, true), progTail(r, 0), progAllOps())
	// memory: declared max absent / below / at / above the limit
	limit := uint32(5)
	type mm struct {
		mn uint32
		mx *uint32
	}
	grid := []mm{{1, nil}, {0, u32p(3)}, {1, u32p(5)}, {1, u32p(10)}, {2, u32p(65536)}, {0, u32p(0)}}
	if thorough {
		grid = append(grid, mm{5, u32p(6)}, mm{1, u32p(6)}, mm{3, nil}, mm{5, u32p(5)}, mm{6, u32p(10)}, mm{2, u32p(2)})
	}
	for i, g := range grid {
		ps = append(ps, progMem(r, i, limit, g.mn, g.mx))
	}
	ps = append(ps, progMem(r, 90, 12, 1, u32p(40)), progMem(r, 91, 12, 2, nil))
	ps = append(ps, progDwarf())
	for _, k := range []int{4, 12, 16, 20, 28} {
		ps = append(ps, progPressure(k))
	}
	lf := progLoopsThenFail(0)
	ps = append(ps, lf, withMinimalDebugInfo(lf), withMinimalDebugInfo(progTraps(r, 7)), withMinimalDebugInfo(progTail(r, 7)), withMinimalDebugInfo(progRec(r, 7, true)))
	return ps
}
