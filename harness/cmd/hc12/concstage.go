package main

// Concurrent-compilation stage.  Runtimes with DIFFERENT settings that share one compilation cache share one engine's
// caches of generated code (listener trampolines per function type, Go-call trampolines, entry preambles): what guest
// behaviour a setting leaves alone, it leaves alone also when the other runtimes compile at the same moment.  Eight
// runtimes (capacity-from-max, debug info, custom sections, close-on-context-done varied) share a cache; each compiles -
// released together by a barrier - a module of its own with many function types the engine has not seen, under a
// recording function listener, instantiates it and calls every export.  Results and listener observations must be the
// ones of a lone run; a Go panic out of CompileModule is a verdict.

import (
	"context"
	"fmt"
	"os"
	"strings"
	"sync"

	"github.com/tetratelabs/wazero"
	"github.com/tetratelabs/wazero/api"
	"github.com/tetratelabs/wazero/experimental"
	"github.com/tetratelabs/wazero/verifharness/hx"
	"github.com/tetratelabs/wazero/verifharness/wb"
)

// manyTypesModule: nf functions f_k with nf distinct types (k+1 parameters of types chosen by the bits of salt+k),
// each returning its first parameter + k as i64.
func manyTypesModule(nf int, salt int) []byte {
	m := wb.New()
	for k := 0; k < nf; k++ {
		params := []byte{wb.I64}
		for j := 0; j < 1+(k%7); j++ {
			params = append(params, []byte{wb.I32, wb.I64, wb.F32, wb.F64}[(salt+k*3+j)%4])
		}
		// make the type unique per k by the count of trailing i32s
		for j := 0; j < k/7; j++ {
			params = append(params, wb.I32)
		}
		m.AddFunc(wb.Func{Params: params, Results: []byte{wb.I64}, Export: fmt.Sprintf("s%d_f%d", salt, k), // (the salt in the names keeps the eight binaries distinct: identical binaries compiled by runtimes with different listener factories through one cache are finding F12's territory)
			Body: wb.Cat(wb.LocalGet(0), wb.I64Const(int64(k)), []byte{0x7c})}) // i64.add
	}
	return m.Bytes()
}

type countingListener struct {
	mu  *sync.Mutex
	log *[]string
	id  string
}

func (l countingListener) Before(_ context.Context, _ api.Module, def api.FunctionDefinition, params []uint64, _ experimental.StackIterator) {
	l.mu.Lock()
	*l.log = append(*l.log, fmt.Sprintf("B:%s:%d:%d", def.Name(), len(params), params[0]))
	l.mu.Unlock()
}
func (l countingListener) After(_ context.Context, _ api.Module, def api.FunctionDefinition, results []uint64) {
	l.mu.Lock()
	*l.log = append(*l.log, fmt.Sprintf("A:%s:%d", def.Name(), results[0]))
	l.mu.Unlock()
}
func (l countingListener) Abort(context.Context, api.Module, api.FunctionDefinition, error) {}

func concurrentCompileStage() {
	const W, NF = 8, 60
	run := func(w int, cache wazero.CompilationCache, start chan struct{}) (out string) {
		defer func() {
			if r := recover(); r != nil {
				out = "GO PANIC: " + strings.SplitN(fmt.Sprint(r), "\n", 2)[0]
			}
		}()
		var mu sync.Mutex
		var log []string
		ctx := experimental.WithFunctionListenerFactory(context.Background(), experimental.FunctionListenerFactoryFunc(
			func(api.FunctionDefinition) experimental.FunctionListener {
				return countingListener{&mu, &log, fmt.Sprint(w)}
			}))
		rc := wazero.NewRuntimeConfigCompiler().WithMemoryCapacityFromMax(w&1 != 0).WithDebugInfoEnabled(w&2 != 0).WithCustomSections(w&4 != 0).WithCloseOnContextDone(w == 3)
		if cache != nil {
			rc = rc.WithCompilationCache(cache)
		}
		rt := wazero.NewRuntimeWithConfig(ctx, rc)
		defer rt.Close(ctx)
		bin := manyTypesModule(NF, w*11)
		if start != nil {
			<-start
		}
		cm, err := rt.CompileModule(ctx, bin)
		if err != nil {
			return "compile error: " + err.Error()
		}
		mod, err := rt.InstantiateModule(ctx, cm, wazero.NewModuleConfig())
		if err != nil {
			return "instantiate error: " + err.Error()
		}
		var sb strings.Builder
		for k := 0; k < NF; k++ {
			f := mod.ExportedFunction(fmt.Sprintf("s%d_f%d", w*11, k))
			args := make([]uint64, len(f.Definition().ParamTypes()))
			args[0] = uint64(1000*w + k)
			res, err := f.Call(ctx, args...)
			fmt.Fprintf(&sb, "%v,%v;", res, err)
		}
		return sb.String() + "|" + strings.Join(log, ",")
	}
	var lone [W]string
	for w := 0; w < W; w++ {
		lone[w] = run(w, nil, nil)
	}
	rounds := 3
	if hx.Thorough() {
		rounds = 12
	}
	for round := 0; round < rounds; round++ {
		// (a fault in generated machine code kills the process: the history is announced for the check to report)
		fmt.Fprintf(os.Stderr, "HISTORY {\"stage\":\"concurrent compilation\",\"runtimes\":%d,\"function_types_per_module\":%d,\"round\":%d,\"listeners\":true,\"shared_compilation_cache\":true}\n", W, NF, round)
		cache := wazero.NewCompilationCache()
		start := make(chan struct{})
		var got [W]string
		var wg sync.WaitGroup
		for w := 0; w < W; w++ {
			wg.Add(1)
			go func(w int) {
				defer wg.Done()
				got[w] = run(w, cache, start)
			}(w)
		}
		close(start)
		wg.Wait()
		cache.Close(context.Background())
		rep.Case(fmt.Sprintf("concurrent-compile/%d", round))
		for w := 0; w < W; w++ {
			if got[w] != lone[w] {
				rep.Violate(hx.Violation{Kind: "impl-violation", Signature: "C12:behaviour-differs-when-other-runtimes-compile-concurrently",
					What:     fmt.Sprintf("runtime %d of 8 (settings varied, one shared compilation cache, modules with %d fresh function types compiled at the same moment under function listeners): results / listener observations differ from its lone run: %s", w, NF, clipTo(got[w], 200)),
					Input:    map[string]any{"stage": "concurrent compilation", "runtimes": W, "function_types_per_module": NF, "round": round, "runtime": w},
					Expected: clipTo(lone[w], 300), Actual: clipTo(got[w], 300)})
				return
			}
		}
	}
}

func clipTo(s string, n int) string {
	if len(s) > n {
		return s[:n] + "…"
	}
	return s
}
