package main

// Guest module generator for C11: one module exports small functions for every kind of per-instance
// mutable state (memory, globals, table, data/element segments, WASI fd table/stdio/clocks/random).

import (
	"fmt"
	"math/rand"

	"github.com/tetratelabs/wazero/internal/wasm"
	"github.com/tetratelabs/wazero/verifharness/wb"
)

const (
	scrIov   = 0x40 // iovec {ptr,len}
	scrRes   = 0x48 // 8 bytes of result
	pathBase = 0x80 // path strings, 16 bytes apart
	pathStep = 16
	userBase = 0x100 // generated writes go at or above this address
	nCFuncs  = 4
	nImports = 8
)

var fileNames = []string{"f0.txt", "f1.txt", "f2.txt", "nope.txt"} // the last one does not exist

type gspec struct {
	Bits int    `json:"bits"`
	Init uint64 `json:"init"`
}

type modSpec struct {
	Seed    int64     `json:"seed"`
	MemMin  uint32    `json:"mem_min"`
	MemMax  uint32    `json:"mem_max"`
	Globals []gspec   `json:"globals"`
	TblMin  uint32    `json:"tbl_min"`
	TblMax  uint32    `json:"tbl_max"`
	FnConst []uint32  `json:"fn_const"` // c0..c3; c3 has another type (call_indirect mismatches)
	DPas    [][]byte  `json:"dpas"`
	DActOff int32     `json:"dact_off"`
	DAct    []byte    `json:"dact"`
	EPas    [][]int64 `json:"epas"` // entries: c-function number 0..3, -1 = null
	EActOff int32     `json:"eact_off"`
	EAct    []int64   `json:"eact"`
	Bin     []byte    `json:"-"`
}

func pathBytes() []byte {
	b := make([]byte, pathStep*len(fileNames))
	for i, n := range fileNames {
		copy(b[i*pathStep:], n)
	}
	return b
}

func genSpec(r *rand.Rand) *modSpec {
	s := &modSpec{Seed: r.Int63()}
	s.MemMin = 1 + uint32(r.Intn(2))
	s.MemMax = s.MemMin + uint32(r.Intn(3))
	ng := 2 + r.Intn(3)
	for i := 0; i < ng; i++ {
		if r.Intn(2) == 0 {
			s.Globals = append(s.Globals, gspec{32, uint64(r.Uint32())})
		} else {
			s.Globals = append(s.Globals, gspec{64, r.Uint64()})
		}
	}
	s.TblMin = 6 + uint32(r.Intn(4))
	s.TblMax = s.TblMin + uint32(r.Intn(4))
	for i := 0; i < nCFuncs; i++ {
		s.FnConst = append(s.FnConst, 1000*uint32(i+1)+uint32(r.Intn(1000)))
	}
	nd := 2 + r.Intn(2)
	for i := 0; i < nd; i++ {
		b := make([]byte, 4+r.Intn(28))
		for j := range b {
			b[j] = byte(1 + r.Intn(255))
		}
		s.DPas = append(s.DPas, b)
	}
	s.DActOff = int32(userBase + r.Intn(64))
	s.DAct = make([]byte, 1+r.Intn(16))
	for j := range s.DAct {
		s.DAct[j] = byte(1 + r.Intn(255))
	}
	ne := 2 + r.Intn(2)
	for i := 0; i < ne; i++ {
		e := make([]int64, 1+r.Intn(5))
		for j := range e {
			e[j] = int64(r.Intn(nCFuncs+1)) - 1
		}
		s.EPas = append(s.EPas, e)
	}
	s.EActOff = int32(r.Intn(2))
	s.EAct = make([]int64, 1+r.Intn(4))
	for j := range s.EAct {
		s.EAct[j] = int64(r.Intn(nCFuncs+1)) - 1
	}
	s.Bin = buildModule(s)
	return s
}

func cfIdx(k int64) int64 {
	if k < 0 {
		return -1
	}
	return nImports + k
}

func buildModule(s *modSpec) []byte {
	m := wb.New()
	i32, i64 := wb.I32, wb.I64
	T := func(t ...byte) []byte { return t }
	const wasi = "wasi_snapshot_preview1"
	fdWrite := m.ImportFunc(wasi, "fd_write", T(i32, i32, i32, i32), T(i32))
	fdRead := m.ImportFunc(wasi, "fd_read", T(i32, i32, i32, i32), T(i32))
	fdClose := m.ImportFunc(wasi, "fd_close", T(i32), T(i32))
	fdRenumber := m.ImportFunc(wasi, "fd_renumber", T(i32, i32), T(i32))
	fdSeek := m.ImportFunc(wasi, "fd_seek", T(i32, i64, i32, i32), T(i32))
	pathOpen := m.ImportFunc(wasi, "path_open", T(i32, i32, i32, i32, i32, i64, i64, i32, i32), T(i32))
	clockGet := m.ImportFunc(wasi, "clock_time_get", T(i32, i64, i32), T(i32))
	randomGet := m.ImportFunc(wasi, "random_get", T(i32, i32), T(i32))
	if randomGet != nImports-1 {
		panic("import count")
	}
	max := s.MemMax
	m.Memory(s.MemMin, &max, false, "memory")
	tmax := s.TblMax
	m.Table(s.TblMin, &tmax)
	for _, g := range s.Globals {
		m.Global(g.Bits, g.Init)
	}
	// c0..c3
	for i := 0; i < nCFuncs; i++ {
		// result depends on the instance's global 0: a funcref leaked from another instance would show
		g0 := wb.GlobalGet(0)
		if s.Globals[0].Bits == 64 {
			g0 = wb.Cat(g0, wb.Op(wasm.OpcodeI32WrapI64))
		}
		f := wb.Func{Results: T(i32), Body: wb.Cat(wb.I32Const(int32(s.FnConst[i])), g0, wb.Op(wasm.OpcodeI32Add))}
		if i == nCFuncs-1 {
			f.Params = T(i32)
		}
		if m.AddFunc(f) != uint32(nImports+i) {
			panic("function index")
		}
	}
	tyCall := m.TypeIdx(nil, T(i32))
	lg := wb.LocalGet
	add := func(name string, p, r []byte, body ...[]byte) {
		m.AddFunc(wb.Func{Params: p, Results: r, Export: name, Body: wb.Cat(body...)})
	}
	add("store32", T(i32, i32), nil, lg(0), lg(1), wb.MemArg(wasm.OpcodeI32Store, 0, 0))
	add("load32", T(i32), T(i32), lg(0), wb.MemArg(wasm.OpcodeI32Load, 0, 0))
	add("store8", T(i32, i32), nil, lg(0), lg(1), wb.MemArg(wasm.OpcodeI32Store8, 0, 0))
	add("load8", T(i32), T(i32), lg(0), wb.MemArg(wasm.OpcodeI32Load8U, 0, 0))
	for k, g := range s.Globals {
		t := i32
		if g.Bits == 64 {
			t = i64
		}
		add(fmt.Sprintf("gset%d", k), T(t), nil, lg(0), wb.GlobalSet(uint32(k)))
		add(fmt.Sprintf("gget%d", k), nil, T(t), wb.GlobalGet(uint32(k)))
	}
	add("tnull", T(i32), nil, lg(0), wb.Op(wasm.OpcodeRefNull, wasm.RefTypeFuncref), wb.Op(wasm.OpcodeTableSet, 0))
	for _, k := range declaredFuncs(s) {
		// a function reference created at run time by ref.func (only functions declared in an element segment may be referenced)
		add(fmt.Sprintf("tref%d", k), T(i32), nil, lg(0), wb.Op(wasm.OpcodeRefFunc), wb.U32(uint32(nImports+k)), wb.Op(wasm.OpcodeTableSet, 0))
	}
	add("tmove", T(i32, i32), nil, lg(0), lg(1), wb.Op(wasm.OpcodeTableGet, 0), wb.Op(wasm.OpcodeTableSet, 0))
	add("tisnull", T(i32), T(i32), lg(0), wb.Op(wasm.OpcodeTableGet, 0), wb.Op(wasm.OpcodeRefIsNull))
	add("calli", T(i32), T(i32), lg(0), wb.Op(wasm.OpcodeCallIndirect), wb.U32(tyCall), wb.U32(0))
	add("tgrow", T(i32), T(i32), wb.Op(wasm.OpcodeRefNull, wasm.RefTypeFuncref), lg(0), wb.Misc(wasm.OpcodeMiscTableGrow, 0))
	add("tsize", nil, T(i32), wb.Misc(wasm.OpcodeMiscTableSize, 0))
	add("tcopy", T(i32, i32, i32), nil, lg(0), lg(1), lg(2), wb.Misc(wasm.OpcodeMiscTableCopy, 0, 0))
	for k := range s.DPas {
		add(fmt.Sprintf("minit%d", k), T(i32, i32, i32), nil, lg(0), lg(1), lg(2), wb.Misc(wasm.OpcodeMiscMemoryInit, uint32(k), 0))
		add(fmt.Sprintf("ddrop%d", k), nil, nil, wb.Misc(wasm.OpcodeMiscDataDrop, uint32(k)))
	}
	for k := range s.EPas {
		add(fmt.Sprintf("tinit%d", k), T(i32, i32, i32), nil, lg(0), lg(1), lg(2), wb.Misc(wasm.OpcodeMiscTableInit, uint32(k), 0))
		add(fmt.Sprintf("edrop%d", k), nil, nil, wb.Misc(wasm.OpcodeMiscElemDrop, uint32(k)))
	}
	add("mgrow", T(i32), T(i32), lg(0), wb.MemoryGrow())
	add("msize", nil, T(i32), wb.MemorySize())
	add("mfill", T(i32, i32, i32), nil, lg(0), lg(1), lg(2), wb.Misc(wasm.OpcodeMiscMemoryFill, 0))
	add("mcopy", T(i32, i32, i32), nil, lg(0), lg(1), lg(2), wb.Misc(wasm.OpcodeMiscMemoryCopy, 0, 0))
	st32 := func(addr int32, v []byte) []byte {
		return wb.Cat(wb.I32Const(addr), v, wb.MemArg(wasm.OpcodeI32Store, 0, 0))
	}
	zero64 := wb.Cat(wb.I32Const(scrRes), wb.I64Const(0), wb.MemArg(wasm.OpcodeI64Store, 0, 0))
	ld32 := wb.Cat(wb.I32Const(scrRes), wb.MemArg(wasm.OpcodeI32Load, 0, 0))
	ld64 := wb.Cat(wb.I32Const(scrRes), wb.MemArg(wasm.OpcodeI64Load, 0, 0))
	// w_write(fd, ptr, len) -> (errno, n)
	add("w_write", T(i32, i32, i32), T(i32, i32), st32(scrIov, lg(1)), st32(scrIov+4, lg(2)), zero64,
		lg(0), wb.I32Const(scrIov), wb.I32Const(1), wb.I32Const(scrRes), wb.Call(fdWrite), ld32)
	add("w_read", T(i32, i32, i32), T(i32, i32), st32(scrIov, lg(1)), st32(scrIov+4, lg(2)), zero64,
		lg(0), wb.I32Const(scrIov), wb.I32Const(1), wb.I32Const(scrRes), wb.Call(fdRead), ld32)
	add("w_close", T(i32), T(i32), lg(0), wb.Call(fdClose))
	add("w_renumber", T(i32, i32), T(i32), lg(0), lg(1), wb.Call(fdRenumber))
	add("w_seek", T(i32, i64, i32), T(i32, i64), zero64, lg(0), lg(1), lg(2), wb.I32Const(scrRes), wb.Call(fdSeek), ld64)
	// w_open(dirfd, pathptr, pathlen, oflags, rights, fdflags) -> (errno, fd)
	add("w_open", T(i32, i32, i32, i32, i64, i32), T(i32, i32), zero64,
		lg(0), wb.I32Const(0), lg(1), lg(2), lg(3), lg(4), lg(4), lg(5), wb.I32Const(scrRes), wb.Call(pathOpen), ld32)
	add("w_clock", T(i32), T(i32, i64), zero64, lg(0), wb.I64Const(0), wb.I32Const(scrRes), wb.Call(clockGet), ld64)
	add("w_random", T(i32, i32), T(i32), lg(0), lg(1), wb.Call(randomGet))

	// data: passive first (indices 0..), then the active ones
	for _, d := range s.DPas {
		m.Data(true, 0, d)
	}
	m.Data(false, pathBase, pathBytes())
	m.Data(false, s.DActOff, s.DAct)
	var elems []wb.Elem
	for _, e := range s.EPas {
		x := wb.Elem{Passive: true}
		for _, k := range e {
			x.Init = append(x.Init, cfIdx(k))
		}
		elems = append(elems, x)
	}
	x := wb.Elem{Offset: s.EActOff}
	for _, k := range s.EAct {
		x.Init = append(x.Init, cfIdx(k))
	}
	elems = append(elems, x)
	return m.BytesWithSegments(elems)
}

// declaredFuncs lists the callable functions c_k that occur in some element segment (sorted).
func declaredFuncs(s *modSpec) []int {
	seen := map[int64]bool{}
	for _, e := range s.EPas {
		for _, k := range e {
			seen[k] = true
		}
	}
	for _, k := range s.EAct {
		seen[k] = true
	}
	var out []int
	for k := 0; k < nCFuncs; k++ {
		if seen[int64(k)] {
			out = append(out, k)
		}
	}
	return out
}

type op struct {
	Fn   string   `json:"fn"`
	Args []uint64 `json:"args,omitempty"`
}

func (o op) String() string {
	s := o.Fn
	for _, a := range o.Args {
		s += fmt.Sprintf(" %d", a)
	}
	return s
}

// genOps generates a call sequence. rw: the instance has a writable directory (not modelled in Lean).
func genOps(r *rand.Rand, s *modSpec, n int, rw bool, allowClose bool) []op {
	var ops []op
	memBytes := func() uint64 { return uint64(s.MemMax) * 65536 }
	addr := func() uint64 {
		switch r.Intn(12) {
		case 0: // around the end of the initial memory and of the maximum
			return uint64(s.MemMin)*65536 - uint64(r.Intn(9))
		case 1:
			return memBytes() - uint64(r.Intn(9))
		case 2:
			return uint64(r.Uint32())
		default:
			return userBase + uint64(r.Intn(0x300))
		}
	}
	tidx := func() uint64 { return uint64(r.Intn(int(s.TblMax) + 2)) }
	small := func(n int) uint64 { return uint64(r.Intn(n)) }
	fd := func() uint64 {
		if r.Intn(10) == 0 {
			return small(4)
		}
		return 3 + small(6)
	}
	path := func() (uint64, uint64) {
		k := r.Intn(len(fileNames))
		return uint64(pathBase + pathStep*k), uint64(len(fileNames[k]))
	}
	for len(ops) < n {
		var o op
		switch r.Intn(34) {
		case 0, 1:
			o = op{"store32", []uint64{addr(), uint64(r.Uint32())}}
		case 2:
			o = op{"load32", []uint64{addr()}}
		case 3:
			o = op{"store8", []uint64{addr(), small(256)}}
		case 4:
			o = op{"load8", []uint64{addr()}}
		case 5, 6:
			k := r.Intn(len(s.Globals))
			v := r.Uint64()
			if s.Globals[k].Bits == 32 {
				v &= 0xffffffff
			}
			o = op{fmt.Sprintf("gset%d", k), []uint64{v}}
		case 7:
			o = op{fmt.Sprintf("gget%d", r.Intn(len(s.Globals))), nil}
		case 8:
			if ds := declaredFuncs(s); len(ds) > 0 && r.Intn(2) == 0 {
				o = op{fmt.Sprintf("tref%d", ds[r.Intn(len(ds))]), []uint64{tidx()}}
			} else {
				o = op{"tnull", []uint64{tidx()}}
			}
		case 9, 10:
			o = op{"tmove", []uint64{tidx(), tidx()}}
		case 11:
			o = op{"tisnull", []uint64{tidx()}}
		case 12, 13:
			o = op{"calli", []uint64{tidx()}}
		case 14:
			o = op{"tgrow", []uint64{small(3)}}
		case 15:
			o = op{"tcopy", []uint64{tidx(), tidx(), small(4)}}
		case 16, 17, 18:
			k := r.Intn(len(s.DPas))
			l := len(s.DPas[k])
			o = op{fmt.Sprintf("minit%d", k), []uint64{addr(), small(l + 1), small(l + 2)}}
		case 19:
			o = op{fmt.Sprintf("ddrop%d", r.Intn(len(s.DPas))), nil}
		case 20, 21, 22:
			k := r.Intn(len(s.EPas))
			l := len(s.EPas[k])
			o = op{fmt.Sprintf("tinit%d", k), []uint64{tidx(), small(l + 1), small(l + 2)}}
		case 23:
			o = op{fmt.Sprintf("edrop%d", r.Intn(len(s.EPas))), nil}
		case 24:
			if r.Intn(3) == 0 {
				o = op{"mgrow", []uint64{small(3)}}
			} else {
				o = op{"msize", nil}
			}
		case 25:
			o = op{"mfill", []uint64{addr(), small(256), small(48)}}
		case 26:
			o = op{"mcopy", []uint64{addr(), addr(), small(48)}}
		case 27:
			f := uint64(1)
			if r.Intn(4) == 0 {
				f = fd()
			}
			o = op{"w_write", []uint64{f, addr(), small(24)}}
		case 28:
			f := fd()
			if r.Intn(4) == 0 {
				f = 0
			}
			o = op{"w_read", []uint64{f, addr(), small(24)}}
		case 29:
			if r.Intn(3) == 0 {
				a, b := fd(), fd()
				if a == b { // F17 (C16): fd_renumber(fd,fd) is a recorded defect of another property
					b = a + 1
				}
				o = op{"w_renumber", []uint64{a, b}}
			} else {
				o = op{"w_close", []uint64{fd()}}
			}
		case 30, 31:
			p, l := path()
			oflags, rights, fdflags := uint64(0), uint64(2), uint64(0)
			if rw {
				oflags = []uint64{0, 1, 1, 9, 8}[r.Intn(5)] // CREAT=1 TRUNC=8
				rights = []uint64{2, 0x42, 0x42, 0x40}[r.Intn(4)]
				fdflags = []uint64{0, 0, 1}[r.Intn(3)] // APPEND=1
			}
			dirfd := uint64(3)
			if r.Intn(12) == 0 {
				dirfd = fd()
			}
			o = op{"w_open", []uint64{dirfd, p, l, oflags, rights, fdflags}}
		case 32:
			o = op{"w_clock", []uint64{small(3)}}
		case 33:
			if rw && r.Intn(2) == 0 {
				o = op{"w_seek", []uint64{fd(), small(20), small(3)}}
			} else {
				o = op{"w_random", []uint64{addr(), small(20)}}
			}
		}
		ops = append(ops, o)
		if allowClose && r.Intn(8*n) == 0 {
			ops = append(ops, op{"close", nil})
		}
	}
	return ops
}

// probeOps makes the otherwise hidden per-instance state observable through ordinary calls: dropped-ness
// of every passive segment (memory.init / table.init of its whole length), fd table (reads).
func probeOps(s *modSpec) []op {
	var ops []op
	for k, d := range s.DPas {
		ops = append(ops, op{fmt.Sprintf("minit%d", k), []uint64{0x800 + 64*uint64(k), 0, uint64(len(d))}})
	}
	for k, e := range s.EPas {
		ops = append(ops, op{fmt.Sprintf("tinit%d", k), []uint64{0, 0, uint64(len(e))}})
	}
	for f := uint64(0); f < 10; f++ {
		ops = append(ops, op{"w_read", []uint64{f, 0xc00 + 16*f, 8}})
	}
	ops = append(ops, op{"w_clock", []uint64{0}}, op{"w_clock", []uint64{1}}, op{"w_random", []uint64{0xd00, 8}},
		op{"w_write", []uint64{1, pathBase, 6}})
	return ops
}
