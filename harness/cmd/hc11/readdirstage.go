package main

// Readdir-neighbours stage.  A directory listing belongs to the instance that asked for it: fd_readdir keeps a window of
// entries per descriptor between calls (cookies may point back into it, or skip ahead to where the stream stands), and
// whatever backs those windows must not be shared between instances.  Instance A (its own file system: AAAA-file1..9)
// makes a sequence of fd_readdir calls with small buffers and every kind of cookie - 0, back into the window, the
// number of entries read so far (the whole window is skipped), values returned as d_next - once alone and once with
// an unlinked instance B (BBBB-file1..9) making such calls in between.  A's answers (errno, bytes used, the raw buffer)
// must be the same in both runs.

import (
	"context"
	"fmt"
	"testing/fstest"

	"github.com/tetratelabs/wazero"
	"github.com/tetratelabs/wazero/api"
	"github.com/tetratelabs/wazero/imports/wasi_snapshot_preview1"
	"github.com/tetratelabs/wazero/verifharness/hx"
	"github.com/tetratelabs/wazero/verifharness/wb"
)

func readdirStage() {
	ctx := context.Background()
	m := wb.New()
	rd := m.ImportFunc("wasi_snapshot_preview1", "fd_readdir", []byte{wb.I32, wb.I32, wb.I32, wb.I64, wb.I32}, []byte{wb.I32})
	m.Memory(1, nil, false, "memory")
	m.AddFunc(wb.Func{Params: []byte{wb.I32, wb.I64}, Results: []byte{wb.I32}, Export: "readdir",
		Body: wb.Cat(wb.I32Const(3), wb.I32Const(1024), wb.LocalGet(0), wb.LocalGet(1), wb.I32Const(8), wb.Call(rd))})
	bin := m.Bytes()
	mkfs := func(prefix string) fstest.MapFS {
		f := fstest.MapFS{}
		for i := 1; i <= 9; i++ {
			f[fmt.Sprintf("%s-file%d", prefix, i)] = &fstest.MapFile{Data: []byte(prefix)}
		}
		return f
	}
	type call struct {
		buf    uint64
		cookie uint64
	}
	plans := [][]call{
		{{64, 0}, {64, 4}, {64, 5}, {64, 2}, {64, 6}, {160, 0}},
		{{100, 0}, {100, 3}, {100, 6}, {100, 4}, {48, 7}, {48, 8}, {48, 7}},
		{{24, 0}, {24, 1}, {24, 2}, {24, 1}, {167, 3}, {167, 9}, {167, 10}, {167, 11}, {64, 0}},
	}
	for _, engine := range []string{"interpreter", "compiler"} {
		for pi, plan := range plans {
			run := func(withB bool) []string {
				rt := wazero.NewRuntimeWithConfig(ctx, rtConfig(engine))
				defer rt.Close(ctx)
				if _, err := wasi_snapshot_preview1.Instantiate(ctx, rt); err != nil {
					hx.Fatal("readdir stage: %v", err)
				}
				cm, err := rt.CompileModule(ctx, bin)
				if err != nil {
					hx.Fatal("readdir stage: %v", err)
				}
				inst := func(name, prefix string) api.Module {
					mod, err := rt.InstantiateModule(ctx, cm, wazero.NewModuleConfig().WithName(name).WithFSConfig(wazero.NewFSConfig().WithFSMount(mkfs(prefix), "/")))
					if err != nil {
						hx.Fatal("readdir stage: %v", err)
					}
					return mod
				}
				a := inst("a", "AAAA")
				var b api.Module
				if withB {
					b = inst("b", "BBBB")
				}
				one := func(mod api.Module, c call) string {
					mod.Memory().Write(1024, make([]byte, 512))
					res, err := mod.ExportedFunction("readdir").Call(ctx, c.buf, c.cookie)
					if err != nil {
						return "error:" + err.Error()
					}
					used, _ := mod.Memory().ReadUint32Le(8)
					raw, _ := mod.Memory().Read(1024, uint32(c.buf))
					return fmt.Sprintf("errno=%d used=%d buf=%x", uint32(res[0]), used, raw)
				}
				var out []string
				for k, c := range plan {
					out = append(out, one(a, c))
					if withB {
						one(b, plan[(k+1)%len(plan)])
						one(b, c)
					}
				}
				return out
			}
			alone, together := run(false), run(true)
			rep.Case(fmt.Sprintf("readdir-neighbours/%s/%d", engine, pi))
			for k := range alone {
				if alone[k] != together[k] {
					rep.Violate(hx.Violation{Kind: "impl-violation", Signature: "C11:fd_readdir-answer-depends-on-another-instance:" + engine,
						What:     fmt.Sprintf("%s: instance a's fd_readdir call #%d (buf_len %d, cookie %d) on its own directory answers differently when an unlinked instance b lists ITS directory in between", engine, k, plan[k].buf, plan[k].cookie),
						Input:    map[string]any{"stage": "readdir neighbours", "engine": engine, "plan_buf_len_and_cookie": fmt.Sprint(plan), "a_files": "AAAA-file1..9", "b_files": "BBBB-file1..9"},
						Expected: alone[k], Actual: together[k]})
					break
				}
			}
		}
	}
}
