package main

// Slow-writer stage.  What an instance writes to ITS stdout (or file, or socket) is what that stream receives - also
// when the stream is slow: while instance a's host-side Write is still in progress (a pipe that is full, a socket, a
// writer that blocks), another instance b of the same process prints through the same WASI host functions.  Anything
// those functions keep between calls (scratch buffers, pools) is shared by all instances; a buffer handed to a's
// stream must stay a's until the Write returns.  Both instances use one fd_write with several iovecs (the gather
// path); the scheduler is pinned to one P so that per-P caches are shared by the two goroutines.

import (
	"bytes"
	"context"
	"fmt"
	"os"
	"runtime"
	"sync"
	"time"

	"github.com/tetratelabs/wazero"
	"github.com/tetratelabs/wazero/api"
	"github.com/tetratelabs/wazero/imports/wasi_snapshot_preview1"
	"github.com/tetratelabs/wazero/verifharness/hx"
	"github.com/tetratelabs/wazero/verifharness/wb"
)

// gateWriter blocks inside its first Write until released, and only THEN reads the bytes it was given.
type gateWriter struct {
	entered, proceed chan struct{}
	once             sync.Once
	got              bytes.Buffer
}

func (g *gateWriter) Write(p []byte) (int, error) {
	g.once.Do(func() {
		close(g.entered)
		<-g.proceed
	})
	g.got.Write(p)
	return len(p), nil
}

func slowWriterStage() {
	ctx := context.Background()
	defer runtime.GOMAXPROCS(runtime.GOMAXPROCS(1))
	m := wb.New()
	fw := m.ImportFunc("wasi_snapshot_preview1", "fd_write", []byte{wb.I32, wb.I32, wb.I32, wb.I32}, []byte{wb.I32})
	m.Memory(1, nil, false, "memory")
	m.AddFunc(wb.Func{Params: []byte{wb.I32, wb.I32}, Results: []byte{wb.I32}, Export: "print", Body: wb.Cat(wb.I32Const(1), wb.LocalGet(0), wb.LocalGet(1), wb.I32Const(8), wb.Call(fw))})
	bin := m.Bytes()
	for _, engine := range []string{"interpreter", "compiler"} {
		for _, parts := range [][2][]string{{{"alpha-", "alpha-", "alpha\n"}, {"omega-", "omega-", "omega\n"}}, {{"a", "bcdefghijklmnopqrstuvwxyz0123456789"}, {"ZYXWVUTSRQPONMLKJIHGFEDCBA9876543210", "z"}}} {
			rt := wazero.NewRuntimeWithConfig(ctx, rtConfig(engine))
			if _, err := wasi_snapshot_preview1.Instantiate(ctx, rt); err != nil {
				hx.Fatal("slow-writer stage: %v", err)
			}
			cm, err := rt.CompileModule(ctx, bin)
			if err != nil {
				hx.Fatal("slow-writer stage: %v", err)
			}
			ga := &gateWriter{entered: make(chan struct{}), proceed: make(chan struct{})}
			var gb bytes.Buffer
			a, err := rt.InstantiateModule(ctx, cm, wazero.NewModuleConfig().WithName("a").WithStdout(ga))
			if err != nil {
				hx.Fatal("slow-writer stage: %v", err)
			}
			b, err := rt.InstantiateModule(ctx, cm, wazero.NewModuleConfig().WithName("b").WithStdout(&gb))
			if err != nil {
				hx.Fatal("slow-writer stage: %v", err)
			}
			lay := func(mem interface {
				Write(uint32, []byte) bool
				WriteUint32Le(uint32, uint32) bool
			}, ps []string) (want string) {
				off := uint32(1024)
				for i, p := range ps {
					mem.Write(off, []byte(p))
					mem.WriteUint32Le(64+8*uint32(i), off)
					mem.WriteUint32Le(64+8*uint32(i)+4, uint32(len(p)))
					off += uint32(len(p)) + 3
					want += p
				}
				return
			}
			wantA, wantB := lay(a.Memory(), parts[0]), lay(b.Memory(), parts[1])
			done := make(chan error, 1)
			go func() {
				_, err := a.ExportedFunction("print").Call(ctx, 64, uint64(len(parts[0])))
				done <- err
			}()
			var berr error
			select {
			case <-ga.entered:
				_, berr = b.ExportedFunction("print").Call(ctx, 64, uint64(len(parts[1])))
			case <-time.After(10 * time.Second):
				hx.Fatal("slow-writer stage: instance a never reached its stream")
			}
			close(ga.proceed)
			aerr := <-done
			rt.Close(ctx)
			rep.Case(fmt.Sprintf("slow-writer/%s/%d", engine, len(parts[0])))
			gotA, gotB := ga.got.String(), gb.String()
			if aerr != nil || berr != nil || gotA != wantA || gotB != wantB {
				rep.Violate(hx.Violation{Kind: "impl-violation", Signature: "C11:stdout-of-one-instance-receives-another-instances-bytes:" + engine,
					What:     fmt.Sprintf("%s: instance a wrote %q to its own stdout in one fd_write of %d iovecs while its stream was slow; meanwhile instance b wrote %q to ITS stdout: a's stream received %q, b's %q (errors %v %v)", engine, wantA, len(parts[0]), wantB, gotA, gotB, aerr, berr),
					Input:    map[string]any{"stage": "slow writer", "engine": engine, "a_iovecs": parts[0], "b_iovecs": parts[1], "schedule": "a's stream blocks inside its first Write; b prints; a's stream is released and reads the bytes it was given"},
					Expected: fmt.Sprintf("a: %q, b: %q", wantA, wantB), Actual: fmt.Sprintf("a: %q, b: %q", gotA, gotB)})
			} else {
				rep.Count("slow-writer:ok")
			}
		}
	}
}

// sharedHostFileStage: the SAME host file handed to several instances as their stdout (a log file opened by the embedder)
// stays the embedder's: closing one instance does not close it for the others, nor for the embedder.  (Consoles, pipes and
// in-memory writers are covered by the scenarios; a regular *os.File with a descriptor above 2 is the case here.)
func sharedHostFileStage() {
	ctx := context.Background()
	m := wb.New()
	fw := m.ImportFunc("wasi_snapshot_preview1", "fd_write", []byte{wb.I32, wb.I32, wb.I32, wb.I32}, []byte{wb.I32})
	m.Memory(1, nil, false, "memory")
	m.AddFunc(wb.Func{Results: []byte{wb.I32}, Export: "print", Body: wb.Cat(wb.I32Const(1), wb.I32Const(64), wb.I32Const(1), wb.I32Const(8), wb.Call(fw))})
	bin := m.Bytes()
	for _, engine := range []string{"interpreter", "compiler"} {
		f, err := os.CreateTemp(*hx.Work, "c11-log-*.txt")
		if err != nil {
			hx.Fatal("shared-host-file stage: %v", err)
		}
		rt := wazero.NewRuntimeWithConfig(ctx, rtConfig(engine))
		if _, err := wasi_snapshot_preview1.Instantiate(ctx, rt); err != nil {
			hx.Fatal("shared-host-file stage: %v", err)
		}
		cm, err := rt.CompileModule(ctx, bin)
		if err != nil {
			hx.Fatal("shared-host-file stage: %v", err)
		}
		var trace []string
		inst := func(name string) api.Module {
			mod, err := rt.InstantiateModule(ctx, cm, wazero.NewModuleConfig().WithName(name).WithStdout(f).WithStderr(f))
			if err != nil {
				trace = append(trace, "instantiate "+name+": "+err.Error())
				return nil
			}
			mod.Memory().Write(1024, []byte(name+"\n"))
			mod.Memory().WriteUint32Le(64, 1024)
			mod.Memory().WriteUint32Le(68, uint32(len(name)+1))
			return mod
		}
		pr := func(mod api.Module) {
			if mod == nil {
				return
			}
			res, err := mod.ExportedFunction("print").Call(ctx)
			if err != nil {
				trace = append(trace, mod.Name()+": error "+err.Error())
			} else {
				trace = append(trace, fmt.Sprintf("%s: errno %d", mod.Name(), uint32(res[0])))
			}
		}
		a, b := inst("a"), inst("b")
		pr(a)
		pr(b)
		a.Close(ctx)
		pr(b)
		c := inst("c")
		pr(c)
		_, werr := f.WriteString("host\n")
		trace = append(trace, fmt.Sprintf("embedder write: %v", werr))
		rt.Close(ctx)
		_, werr = f.WriteString("host again\n")
		trace = append(trace, fmt.Sprintf("embedder write after Runtime.Close: %v", werr))
		content, _ := os.ReadFile(f.Name())
		f.Close()
		os.Remove(f.Name())
		want := []string{"a: errno 0", "b: errno 0", "b: errno 0", "c: errno 0", "embedder write: <nil>", "embedder write after Runtime.Close: <nil>"}
		rep.Case("shared-host-file/" + engine)
		if fmt.Sprint(trace) != fmt.Sprint(want) || string(content) != "a\nb\nb\nc\nhost\nhost again\n" {
			rep.Violate(hx.Violation{Kind: "impl-violation", Signature: "C11:closing-one-instance-closes-a-host-file-shared-with-others:" + engine,
				What:     fmt.Sprintf("%s: one *os.File (a log file) is the stdout of instances a, b and c; a is closed, then b and c print and the embedder writes: %v; file content %q", engine, trace, content),
				Input:    map[string]any{"stage": "shared host file", "engine": engine},
				Expected: fmt.Sprint(want), Actual: fmt.Sprint(trace)})
		} else {
			rep.Count("shared-host-file:ok")
		}
	}
}
