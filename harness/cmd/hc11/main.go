// hc11: monitor + correspondence harness for C11 (instances are isolated unless explicitly linked).
//
// Tie C (monitor): N in {2,3,4} instances of one compiled module (or of two different modules), in one
// runtime or in two runtimes sharing a compilation cache, run randomly interleaved call sequences
// (sequentially interleaved, or truly concurrently, one goroutine per instance). Every instance's results,
// traps, final state (memory, globals, table, dropped segments, fd table, captured stdout, its
// directory) must equal those of the same sequence on a LONE instance in a fresh runtime. The bytes
// of every data/element segment of every wasm.Module involved are hashed before/after.
// Tie B (correspondence): for the modelled op subset the interleaved run is replayed on the Lean heap
// model (topic c11 of the oracle: ONE heap holding shared compiled-module objects and per-instance
// objects) and every result and the final state must be equal.
package main

import (
	"bytes"
	"context"
	"crypto/sha256"
	"encoding/hex"
	"encoding/json"
	"errors"
	"flag"
	"fmt"
	"io"
	"math/rand"
	"os"
	"path/filepath"
	"sort"
	"strings"
	"sync"

	"github.com/tetratelabs/wazero"
	"github.com/tetratelabs/wazero/api"
	"github.com/tetratelabs/wazero/imports/wasi_snapshot_preview1"
	"github.com/tetratelabs/wazero/internal/platform"
	"github.com/tetratelabs/wazero/internal/wasm"
	"github.com/tetratelabs/wazero/sys"
	"github.com/tetratelabs/wazero/verifharness/hx"
)

var rep *hx.Report

var noModel = flag.Bool("nomodel", false, "debugging: skip the Lean correspondence (tie B)")

var fileContents = map[string]string{
	"f0.txt": "zero:0123456789abcdef",
	"f1.txt": "one:The quick brown fox jumps over the lazy dog",
	"f2.txt": "2",
}

const stdinContent = "stdin-bytes-for-the-guest:0123456789"

type scenario struct {
	ID         int        `json:"id"`
	Engine     string     `json:"engine"`
	RT         string     `json:"runtimes"` // 1rt | 2rt-cache | 2rt-filecache
	Cfg        string     `json:"config"`   // shared | derived | rw
	Concurrent bool       `json:"concurrent"`
	Late       bool       `json:"late_instantiation"`
	N          int        `json:"n"`
	ModOf      []int      `json:"module_of"` // instance -> module number
	Ops        [][]op     `json:"ops"`
	Sched      []int      `json:"schedule"`
	Specs      []*modSpec `json:"modules"`
}

type instResult struct {
	Results []string
	State   string // canonical state (also produced by the model)
	Extra   string // state that only the monitor compares: directory listing
	Out     string
	SegHash string
}

func rtConfig(engine string) wazero.RuntimeConfig {
	if engine == "interpreter" {
		return wazero.NewRuntimeConfigInterpreter()
	}
	return wazero.NewRuntimeConfigCompiler()
}

func hashSegments(mi *wasm.ModuleInstance) string {
	h := sha256.New()
	for i := range mi.Source.DataSection {
		fmt.Fprintf(h, "d%d:%d:", i, len(mi.Source.DataSection[i].Init))
		h.Write(mi.Source.DataSection[i].Init)
	}
	for i := range mi.Source.ElementSection {
		fmt.Fprintf(h, "e%d:%v;", i, mi.Source.ElementSection[i].Init)
	}
	return hex.EncodeToString(h.Sum(nil)[:12])
}

// expected segment bytes straight from the generator (the hash must not merely be stable: it must be this)
func expectedSegHash(s *modSpec) string {
	h := sha256.New()
	all := append(append([][]byte{}, s.DPas...), pathBytes(), s.DAct)
	for i, d := range all {
		fmt.Fprintf(h, "d%d:%d:", i, len(d))
		h.Write(d)
	}
	el := append(append([][]int64{}, s.EPas...), s.EAct)
	for i, e := range el {
		idx := make([]wasm.Index, len(e))
		for j, k := range e {
			if k < 0 {
				idx[j] = wasm.ElementInitNullReference
			} else {
				idx[j] = wasm.Index(cfIdx(k))
			}
		}
		fmt.Fprintf(h, "e%d:%v;", i, idx)
	}
	return hex.EncodeToString(h.Sum(nil)[:12])
}

type lockedBuf struct {
	mu sync.Mutex
	b  bytes.Buffer
}

func (l *lockedBuf) Write(p []byte) (int, error) {
	l.mu.Lock()
	defer l.mu.Unlock()
	return l.b.Write(p)
}

type live struct {
	mod    api.Module
	spec   *modSpec
	out    *lockedBuf
	dir    string
	closed bool
	res    []string
}

func canonErr(err error) string {
	var ee *sys.ExitError
	if errors.As(err, &ee) {
		return fmt.Sprintf("exit:%d", ee.ExitCode())
	}
	msg := strings.SplitN(err.Error(), "\n", 2)[0]
	msg = strings.TrimPrefix(msg, "wasm error: ")
	msg = strings.TrimSuffix(msg, " (recovered by wazero)")
	return "trap:" + msg
}

func (l *live) call(ctx context.Context, o op) string {
	if o.Fn == "close" {
		l.closed = true
		if err := l.mod.Close(ctx); err != nil {
			return "close-err:" + err.Error()
		}
		return "closed"
	}
	f := l.mod.ExportedFunction(o.Fn)
	if f == nil {
		hx.Fatal("no export %s", o.Fn)
	}
	res, err := f.Call(ctx, o.Args...)
	if err != nil {
		return canonErr(err)
	}
	rt := f.Definition().ResultTypes()
	s := "ok"
	for i, v := range res {
		if rt[i] == api.ValueTypeI32 {
			v &= 0xffffffff
		}
		s += fmt.Sprintf(" %d", v)
	}
	return s
}

// state reads the instance's final state through the host API and ordinary calls.
func (l *live) state(ctx context.Context) (string, string) {
	var sb strings.Builder
	if l.closed {
		return "closed", dirListing(l.dir)
	}
	mem := l.mod.Memory()
	size := mem.Size()
	fmt.Fprintf(&sb, "pages=%d glob=", size/65536)
	for k := range l.spec.Globals {
		r := l.call(ctx, op{Fn: fmt.Sprintf("gget%d", k)})
		sb.WriteString(strings.TrimPrefix(r, "ok ") + ",")
	}
	sb.WriteString(" tbl=")
	ts := l.call(ctx, op{Fn: "tsize"})
	var n int
	fmt.Sscanf(ts, "ok %d", &n)
	for i := 0; i < n; i++ {
		if l.call(ctx, op{Fn: "tisnull", Args: []uint64{uint64(i)}}) == "ok 1" {
			sb.WriteString("n,")
			continue
		}
		r := l.call(ctx, op{Fn: "calli", Args: []uint64{uint64(i)}})
		if strings.HasPrefix(r, "ok ") {
			sb.WriteString(strings.TrimPrefix(r, "ok ") + ",")
		} else {
			sb.WriteString("x,")
		}
	}
	sb.WriteString(" mem=")
	buf, ok := mem.Read(0, size)
	if !ok {
		hx.Fatal("memory read")
	}
	for a, b := range buf {
		if b != 0 {
			fmt.Fprintf(&sb, "%d:%d,", a, b)
		}
	}
	return sb.String(), dirListing(l.dir)
}

func dirListing(dir string) string {
	if dir == "" {
		return ""
	}
	var parts []string
	filepath.Walk(dir, func(p string, info os.FileInfo, err error) error {
		if err != nil || info.IsDir() {
			return nil
		}
		b, _ := os.ReadFile(p)
		rel, _ := filepath.Rel(dir, p)
		parts = append(parts, fmt.Sprintf("%s=%x", rel, b))
		return nil
	})
	sort.Strings(parts)
	return strings.Join(parts, ";")
}

func populate(dir string) {
	if err := os.MkdirAll(dir, 0o755); err != nil {
		hx.Fatal("mkdir: %v", err)
	}
	for n, c := range fileContents {
		if err := os.WriteFile(filepath.Join(dir, n), []byte(c), 0o644); err != nil {
			hx.Fatal("write: %v", err)
		}
	}
}

type world struct {
	ctx   context.Context
	rts   []wazero.Runtime
	comp  [][]wazero.CompiledModule // [runtime][module]
	cache wazero.CompilationCache
	base  wazero.ModuleConfig
	bare  wazero.ModuleConfig
	sc    *scenario
	root  string
}

func newWorld(sc *scenario, root string, nrt int, rtKind string) *world {
	w := &world{ctx: context.Background(), sc: sc, root: root}
	populate(filepath.Join(root, "ro"))
	switch rtKind {
	case "2rt-cache":
		w.cache = wazero.NewCompilationCache()
	case "2rt-filecache":
		c, err := wazero.NewCompilationCacheWithDir(filepath.Join(root, "cache"))
		if err != nil {
			hx.Fatal("cache dir: %v", err)
		}
		w.cache = c
	}
	for i := 0; i < nrt; i++ {
		cfg := rtConfig(sc.Engine)
		if w.cache != nil {
			cfg = cfg.WithCompilationCache(w.cache)
		}
		r := wazero.NewRuntimeWithConfig(w.ctx, cfg)
		wasi_snapshot_preview1.MustInstantiate(w.ctx, r)
		var cms []wazero.CompiledModule
		for _, s := range sc.Specs {
			cm, err := r.CompileModule(w.ctx, s.Bin)
			if err != nil {
				hx.Fatal("compile (generator bug): %v", err)
			}
			cms = append(cms, cm)
		}
		w.rts = append(w.rts, r)
		w.comp = append(w.comp, cms)
	}
	// ONE base configuration value, reused for every instance of the scenario
	w.base = wazero.NewModuleConfig().WithName("").
		WithFSConfig(wazero.NewFSConfig().WithReadOnlyDirMount(filepath.Join(root, "ro"), "/"))
	w.bare = wazero.NewModuleConfig().WithName("")
	return w
}

func (w *world) close() {
	for _, r := range w.rts {
		r.Close(w.ctx)
	}
	if w.cache != nil {
		w.cache.Close(w.ctx)
	}
}

func (w *world) instantiate(k int, tag string) *live {
	sc := w.sc
	l := &live{spec: sc.Specs[sc.ModOf[k]]}
	cfg := w.base
	switch sc.Cfg {
	case "bare":
		cfg = w.bare
	case "derived":
		l.out = &lockedBuf{}
		cfg = w.base.WithStdout(l.out).WithStdin(strings.NewReader(stdinContent))
	case "rw":
		l.out = &lockedBuf{}
		l.dir = filepath.Join(w.root, fmt.Sprintf("%s%d", tag, k))
		populate(l.dir)
		cfg = w.base.WithStdout(l.out).WithStdin(strings.NewReader(stdinContent)).
			WithFSConfig(wazero.NewFSConfig().WithDirMount(l.dir, "/"))
	}
	ri := k % len(w.rts)
	m, err := w.rts[ri].InstantiateModule(w.ctx, w.comp[ri][sc.ModOf[k]], cfg)
	if err != nil {
		hx.Fatal("instantiate (generator bug): %v", err)
	}
	l.mod = m
	return l
}

func (l *live) finish(ctx context.Context, want string) instResult {
	st, extra := l.state(ctx)
	r := instResult{Results: l.res, State: st, Extra: extra}
	if l.out != nil {
		r.Out = hex.EncodeToString(l.out.b.Bytes())
	}
	r.SegHash = hashSegments(l.mod.(*wasm.ModuleInstance))
	return r
}

func runInterleaved(sc *scenario, root string) []instResult {
	nrt := 1
	if sc.RT != "1rt" {
		nrt = 2
	}
	w := newWorld(sc, root, nrt, sc.RT)
	defer w.close()
	lives := make([]*live, sc.N)
	pos := make([]int, sc.N)
	if !sc.Late {
		for k := 0; k < sc.N; k++ {
			lives[k] = w.instantiate(k, "i")
		}
	}
	if sc.Concurrent {
		for k := 0; k < sc.N; k++ {
			if lives[k] == nil {
				lives[k] = w.instantiate(k, "i")
			}
		}
		var wg sync.WaitGroup
		for k := 0; k < sc.N; k++ {
			wg.Add(1)
			go func(k int) {
				defer wg.Done()
				for _, o := range sc.Ops[k] {
					lives[k].res = append(lives[k].res, lives[k].call(w.ctx, o))
				}
			}(k)
		}
		wg.Wait()
	} else {
		for _, k := range sc.Sched {
			if lives[k] == nil {
				lives[k] = w.instantiate(k, "i")
			}
			lives[k].res = append(lives[k].res, lives[k].call(w.ctx, sc.Ops[k][pos[k]]))
			pos[k]++
		}
	}
	out := make([]instResult, sc.N)
	for k := range lives {
		if lives[k] == nil {
			lives[k] = w.instantiate(k, "i")
		}
		out[k] = lives[k].finish(w.ctx, "")
	}
	return out
}

func runLone(sc *scenario, k int, root string) instResult {
	w := newWorld(sc, root, 1, "1rt")
	defer w.close()
	l := w.instantiate(k, "l")
	for _, o := range sc.Ops[k] {
		l.res = append(l.res, l.call(w.ctx, o))
	}
	return l.finish(w.ctx, "")
}

// ---- Lean side -------------------------------------------------------------------------------------

func hexOrDash(b []byte) string {
	if len(b) == 0 {
		return "-"
	}
	return hex.EncodeToString(b)
}

func refsStr(e []int64) string {
	if len(e) == 0 {
		return "-"
	}
	p := make([]string, len(e))
	for i, k := range e {
		p[i] = fmt.Sprint(k + 1) // 0 = null, k+1 = function c_k
	}
	return strings.Join(p, ",")
}

var rndStream string

func oracleSetup(orc *hx.Oracle, sc *scenario) {
	w := fmt.Sprintf("c11 %d", sc.ID)
	must := func(line string) {
		if a := orc.Ask(line); a != "ok" {
			hx.Fatal("oracle: %q -> %q", line, a)
		}
	}
	stdin := ""
	if sc.Cfg != "shared" {
		stdin = stdinContent
	}
	must(fmt.Sprintf("%s world %s %s", w, rndStream, hexOrDash([]byte(stdin))))
	for _, n := range fileNames[:3] {
		must(fmt.Sprintf("%s file %s %s", w, hex.EncodeToString([]byte(n)), hex.EncodeToString([]byte(fileContents[n]))))
	}
	for mi, s := range sc.Specs {
		must(fmt.Sprintf("%s mod %d %d %d %d %d", w, mi, s.MemMin, s.MemMax, s.TblMin, s.TblMax))
		for _, g := range s.Globals {
			must(fmt.Sprintf("%s glob %d %d %d", w, mi, g.Bits, g.Init))
		}
		for i, c := range s.FnConst {
			ok := 1
			if i == nCFuncs-1 {
				ok = 0
			}
			must(fmt.Sprintf("%s fn %d %d %d", w, mi, c, ok))
		}
		for _, d := range s.DPas {
			must(fmt.Sprintf("%s dpas %d %s", w, mi, hexOrDash(d)))
		}
		must(fmt.Sprintf("%s dact %d %d %s", w, mi, pathBase, hexOrDash(pathBytes())))
		must(fmt.Sprintf("%s dact %d %d %s", w, mi, s.DActOff, hexOrDash(s.DAct)))
		for _, e := range s.EPas {
			must(fmt.Sprintf("%s epas %d %s", w, mi, refsStr(e)))
		}
		must(fmt.Sprintf("%s eact %d %d %s", w, mi, s.EActOff, refsStr(s.EAct)))
		must(fmt.Sprintf("%s seal %d", w, mi))
	}
}

func canonForModel(r string) string {
	switch {
	case strings.HasPrefix(r, "trap:out of bounds memory access"):
		return "trap:mem"
	case strings.HasPrefix(r, "trap:invalid table access"):
		return "trap:tbl"
	case strings.HasPrefix(r, "trap:indirect call type mismatch"):
		return "trap:sig"
	}
	return r
}

// modelRun replays the schedule on the Lean heap model and compares with what the real interleaved run did.
func modelRun(orc *hx.Oracle, sc *scenario, got []instResult) {
	oracleSetup(orc, sc)
	w := fmt.Sprintf("c11 %d", sc.ID)
	inst := make([]bool, sc.N)
	pos := make([]int, sc.N)
	ensure := func(k int) {
		if !inst[k] {
			if a := orc.Askf("%s inst %d %d", w, k, sc.ModOf[k]); a != "ok" {
				hx.Fatal("oracle inst: %s", a)
			}
			inst[k] = true
		}
	}
	if !sc.Late || sc.Concurrent {
		for k := 0; k < sc.N; k++ {
			ensure(k)
		}
	}
	bad := false
	for _, k := range sc.Sched {
		ensure(k)
		o := sc.Ops[k][pos[k]]
		want := orc.Askf("%s op %d %s", w, k, o.String())
		have := canonForModel(got[k].Results[pos[k]])
		rep.Count("model-result:" + strings.Fields(strings.SplitN(want, ":", 2)[0])[0])
		if f := strings.Fields(want); strings.HasPrefix(o.Fn, "w_") && len(f) > 1 {
			rep.Count("model-wasi:" + o.Fn + ":errno=" + f[1])
		} else {
			rep.Count("model-op:" + strings.TrimRight(o.Fn, "0123456789") + ":" + strings.SplitN(want, " ", 2)[0])
		}
		if want != have && !bad {
			bad = true
			rep.Violate(hx.Violation{Kind: "correspondence", Signature: "C11:model-result-differs:" + strings.TrimRight(o.Fn, "0123456789"),
				What:  fmt.Sprintf("instance %d op #%d %s: Lean heap model answers %q, wazero %q", k, pos[k], o.String(), want, have),
				Input: sc, Expected: want, Actual: have})
		}
		pos[k]++
	}
	for k := 0; k < sc.N; k++ {
		ensure(k)
		want := orc.Askf("%s state %d", w, k)
		wantOut := orc.Askf("%s out %d", w, k)
		if want != got[k].State && !bad {
			bad = true
			rep.Violate(hx.Violation{Kind: "correspondence", Signature: "C11:model-state-differs",
				What:  fmt.Sprintf("instance %d final state: model and wazero differ", k),
				Input: sc, Expected: want, Actual: got[k].State})
		}
		if sc.Cfg != "shared" && wantOut != orDash(got[k].Out) && !bad {
			bad = true
			rep.Violate(hx.Violation{Kind: "correspondence", Signature: "C11:model-stdout-differs",
				What:  fmt.Sprintf("instance %d captured stdout: model and wazero differ", k),
				Input: sc, Expected: wantOut, Actual: got[k].Out})
		}
	}
	orc.Askf("%s drop", w)
}

func orDash(s string) string {
	if s == "" {
		return "-"
	}
	return s
}

// ---- scenario generation ---------------------------------------------------------------------------

func genScenario(r *rand.Rand, id int, engine string, nops int) *scenario {
	sc := &scenario{ID: id, Engine: engine}
	sc.RT = []string{"1rt", "1rt", "2rt-cache", "2rt-cache", "2rt-filecache"}[r.Intn(5)]
	// "bare": ONE configuration value without any mount, listener or stdio override, reused as it is for every
	// instance (whatever a configuration caches between instantiations is then shared by all of them)
	sc.Cfg = []string{"shared", "derived", "derived", "rw", "bare"}[r.Intn(5)]
	sc.Concurrent = r.Intn(4) == 0
	sc.Late = r.Intn(3) == 0
	sc.N = 2 + r.Intn(3)
	sc.Specs = []*modSpec{genSpec(r)}
	two := r.Intn(3) == 0
	if two {
		sc.Specs = append(sc.Specs, genSpec(r))
	}
	for k := 0; k < sc.N; k++ {
		mi := 0
		if two && k%2 == 1 {
			mi = 1
		}
		sc.ModOf = append(sc.ModOf, mi)
		s := sc.Specs[mi]
		ops := genOps(r, s, nops/2+r.Intn(nops), sc.Cfg == "rw", sc.Cfg == "rw" || r.Intn(3) == 0)
		closed := false
		for _, o := range ops {
			closed = closed || o.Fn == "close"
		}
		if !closed {
			ops = append(ops, probeOps(s)...)
		}
		sc.Ops = append(sc.Ops, ops)
		for range ops {
			sc.Sched = append(sc.Sched, k)
		}
	}
	r.Shuffle(len(sc.Sched), func(i, j int) { sc.Sched[i], sc.Sched[j] = sc.Sched[j], sc.Sched[i] })
	return sc
}

func modelled(sc *scenario) bool {
	if sc.Cfg == "rw" || sc.Cfg == "bare" {
		return false
	}
	for _, ops := range sc.Ops {
		for _, o := range ops {
			if o.Fn == "close" {
				return false
			}
		}
	}
	return true
}

func firstDiff(a, b []string) int {
	for i := range a {
		if i >= len(b) || a[i] != b[i] {
			return i
		}
	}
	if len(b) > len(a) {
		return len(a)
	}
	return -1
}

func runScenario(orc *hx.Oracle, sc *scenario, workRoot string) {
	root := filepath.Join(workRoot, fmt.Sprintf("s%d", sc.ID))
	defer os.RemoveAll(root)
	got := runInterleaved(sc, filepath.Join(root, "x"))
	tag := fmt.Sprintf("%s/%s/%s/conc=%v/late=%v/N=%d/mods=%d", sc.Engine, sc.RT, sc.Cfg, sc.Concurrent, sc.Late, sc.N, len(sc.Specs))
	rep.Count("scenario:" + tag)
	sigBase := sc.Engine + ":" + sc.RT
	for k := 0; k < sc.N; k++ {
		lone := runLone(sc, k, filepath.Join(root, fmt.Sprintf("lone%d", k)))
		rep.Case(fmt.Sprintf("%d/%d/%x", sc.ID, k, sha256.Sum256([]byte(fmt.Sprint(sc.Ops[k]))))[:40])
		for _, r := range lone.Results {
			rep.Count("result:" + resKey(r))
		}
		in := map[string]any{"scenario": sc, "instance": k}
		if d := firstDiff(lone.Results, got[k].Results); d >= 0 {
			fn := strings.TrimRight(sc.Ops[k][d].Fn, "0123456789")
			rep.Violate(hx.Violation{Kind: "impl-violation", Signature: "C11:" + sigBase + ":result-differs-from-lone:" + fn,
				What:  fmt.Sprintf("instance %d of %d, op #%d %s: lone instance answers %q, among the others %q", k, sc.N, d, sc.Ops[k][d].String(), at(lone.Results, d), at(got[k].Results, d)),
				Input: in, Expected: at(lone.Results, d), Actual: at(got[k].Results, d)})
			continue
		}
		if lone.State != got[k].State {
			rep.Violate(hx.Violation{Kind: "impl-violation", Signature: "C11:" + sigBase + ":final-state-differs-from-lone",
				What:  fmt.Sprintf("instance %d of %d: final memory/globals/table differ from the lone run", k, sc.N),
				Input: in, Expected: lone.State, Actual: got[k].State})
		}
		if lone.Out != got[k].Out {
			rep.Violate(hx.Violation{Kind: "impl-violation", Signature: "C11:" + sigBase + ":stdout-differs-from-lone",
				What:  fmt.Sprintf("instance %d of %d: captured stdout differs from the lone run", k, sc.N),
				Input: in, Expected: lone.Out, Actual: got[k].Out})
		}
		if lone.Extra != got[k].Extra {
			rep.Violate(hx.Violation{Kind: "impl-violation", Signature: "C11:" + sigBase + ":directory-differs-from-lone",
				What:  fmt.Sprintf("instance %d of %d: its private directory differs from the lone run", k, sc.N),
				Input: in, Expected: lone.Extra, Actual: got[k].Extra})
		}
		want := expectedSegHash(sc.Specs[sc.ModOf[k]])
		if got[k].SegHash != want || lone.SegHash != want {
			rep.Violate(hx.Violation{Kind: "impl-violation", Signature: "C11:" + sigBase + ":shared-segment-bytes-written",
				What:  fmt.Sprintf("data/element segment bytes of the compiled wasm.Module changed (instance %d): interleaved %s lone %s generated %s", k, got[k].SegHash, lone.SegHash, want),
				Input: in, Expected: want, Actual: got[k].SegHash})
		}
	}
	if modelled(sc) && !*noModel {
		rep.Count("modelled-scenarios")
		modelRun(orc, sc, got)
	}
	if sc.ID < 3 {
		rep.Sample(map[string]any{"scenario": tag, "instance0_ops": fmt.Sprint(sc.Ops[0][:8]), "instance0_results": got[0].Results[:8]})
	}
}

func at(a []string, i int) string {
	if i < len(a) {
		return a[i]
	}
	return "<missing>"
}

func main() {
	flag.Parse()
	rep = hx.NewReport("C11", "one case = one instance's call sequence (>= 20 generated calls over memory/global/table/segment/WASI ops + probes) "+
		"run among 1..3 other instances (interleaved or concurrent; one or two modules; one runtime or two sharing a cache) and compared with "+
		"the same sequence on a lone instance in a fresh runtime; distinct by (scenario, instance, hash of the sequence)")
	if *hx.Work == "" {
		hx.Fatal("-work is required")
	}
	// the fake random source is an opaque constant stream for the model: hand over its prefix
	rb := make([]byte, 4096)
	io.ReadFull(platform.NewFakeRandSource(), rb)
	rndStream = hex.EncodeToString(rb)

	var scs []*scenario
	if *hx.Replay != "" {
		b, err := os.ReadFile(*hx.Replay)
		if err != nil {
			hx.Fatal("replay: %v", err)
		}
		var rp struct {
			ImplViolations []struct {
				Input struct {
					Scenario *scenario `json:"scenario"`
				} `json:"input"`
			} `json:"impl_violations"`
		}
		if err := json.Unmarshal(b, &rp); err != nil {
			hx.Fatal("replay: %v", err)
		}
		seenID := map[int]bool{}
		for _, v := range rp.ImplViolations {
			if v.Input.Scenario != nil && !seenID[v.Input.Scenario.ID] {
				seenID[v.Input.Scenario.ID] = true
				for _, s := range v.Input.Scenario.Specs {
					s.Bin = buildModule(s)
				}
				scs = append(scs, v.Input.Scenario)
			}
		}
	} else {
		r := hx.Rand()
		impConstStage(r)
		sockStage()
		slowWriterStage()
		readdirStage()
		sharedHostFileStage()
		hostStage(*hx.Work)
		emStage(r)
		per, nops := 200, 40
		if hx.Thorough() {
			per, nops = 2500, 70
		}
		id := 0
		for _, engine := range []string{"interpreter", "compiler"} {
			for i := 0; i < per; i++ {
				scs = append(scs, genScenario(r, id, engine, nops))
				id++
			}
		}
	}
	const workers = 8
	orcs := make([]*hx.Oracle, workers)
	ch := make(chan *scenario)
	var wg sync.WaitGroup
	for wi := 0; wi < workers; wi++ {
		orcs[wi] = hx.StartOracle()
		wg.Add(1)
		go func(wi int) {
			defer wg.Done()
			for sc := range ch {
				runScenario(orcs[wi], sc, *hx.Work)
			}
		}(wi)
	}
	for _, sc := range scs {
		ch <- sc
	}
	close(ch)
	wg.Wait()
	for wi := 1; wi < workers; wi++ {
		orcs[0].N += orcs[wi].N
		orcs[wi].Close()
	}
	rep.Write(orcs[0])
	orcs[0].Close()
}

func resKey(r string) string {
	if strings.HasPrefix(r, "ok") {
		return "ok"
	}
	if len(r) > 60 {
		r = r[:60]
	}
	return r
}
