package main

// Stage "host modules with state" (tie C): an embedder gives every runtime (or, one after the other, the same
// runtime) its own host module "env" built by ONE helper from closures that capture that runtime's state - the
// pattern of examples/multiple-runtimes.  A guest is linked with the "env" of its own runtime and with nothing else,
// so it must drive exactly that state, in one runtime or two, with or without a shared compilation cache, whatever
// the definition style of the host functions (api.GoFunc, api.GoModuleFunc, reflected func, method value):
// nothing that identifies a host module may be derived from what two such modules have in common (name, export
// names, signatures, code address of the closures).

import (
	"context"
	"fmt"
	"path/filepath"

	"github.com/tetratelabs/wazero"
	"github.com/tetratelabs/wazero/api"
	"github.com/tetratelabs/wazero/verifharness/hx"
	"github.com/tetratelabs/wazero/verifharness/wb"
)

type hostState struct {
	id   uint64
	next uint64
	sink []uint64
}

func (s *hostState) Next(context.Context) uint64      { v := s.id*1000 + s.next; s.next++; return v }
func (s *hostState) Sink(_ context.Context, v uint64) { s.sink = append(s.sink, v) }

var hostStyles = []string{"gofunc", "gomodulefunc", "reflected", "method-value"}

// instantiateEnv: the one helper every runtime's "env" comes from.
func instantiateEnv(ctx context.Context, rt wazero.Runtime, st *hostState, style string) (api.Module, error) {
	i64 := []api.ValueType{api.ValueTypeI64}
	b := rt.NewHostModuleBuilder("env")
	switch style {
	case "gofunc":
		b = b.NewFunctionBuilder().WithGoFunction(api.GoFunc(func(c context.Context, stack []uint64) { stack[0] = st.Next(c) }), nil, i64).Export("next").
			NewFunctionBuilder().WithGoFunction(api.GoFunc(func(c context.Context, stack []uint64) { st.Sink(c, stack[0]) }), i64, nil).Export("sink")
	case "gomodulefunc":
		b = b.NewFunctionBuilder().WithGoModuleFunction(api.GoModuleFunc(func(c context.Context, _ api.Module, stack []uint64) { stack[0] = st.Next(c) }), nil, i64).Export("next").
			NewFunctionBuilder().WithGoModuleFunction(api.GoModuleFunc(func(c context.Context, _ api.Module, stack []uint64) { st.Sink(c, stack[0]) }), i64, nil).Export("sink")
	case "reflected":
		b = b.NewFunctionBuilder().WithFunc(func(c context.Context) uint64 { return st.Next(c) }).Export("next").
			NewFunctionBuilder().WithFunc(func(c context.Context, v uint64) { st.Sink(c, v) }).Export("sink")
	default:
		b = b.NewFunctionBuilder().WithFunc(st.Next).Export("next").NewFunctionBuilder().WithFunc(st.Sink).Export("sink")
	}
	return b.Instantiate(ctx)
}

func hostGuest() []byte {
	m := wb.New()
	next := m.ImportFunc("env", "next", nil, []byte{wb.I64})
	sink := m.ImportFunc("env", "sink", []byte{wb.I64}, nil)
	m.AddFunc(wb.Func{Results: []byte{wb.I64}, Export: "next", Body: wb.Call(next)})
	m.AddFunc(wb.Func{Params: []byte{wb.I64}, Export: "put", Body: wb.Cat(wb.LocalGet(0), wb.Call(sink))})
	return m.Bytes()
}

func hostStage(work string) {
	ctx := context.Background()
	bin := hostGuest()
	for _, engine := range []string{"interpreter", "compiler"} {
		for _, rtKind := range []string{"2rt", "2rt-cache", "2rt-filecache", "1rt-one-after-the-other", "1rt-cache-one-after-the-other"} {
			for _, style := range hostStyles {
				key := fmt.Sprintf("host-state/%s/%s/%s", engine, rtKind, style)
				rep.Case(key)
				input := map[string]any{"stage": "host modules with state", "engine": engine, "runtimes": rtKind, "host_function_style": style}
				viol := func(sig, what string) {
					rep.Violate(hx.Violation{Kind: "impl-violation", Signature: "C11:" + sig + ":" + engine, What: what, Input: input})
				}
				var cache wazero.CompilationCache
				switch rtKind {
				case "2rt-cache", "1rt-cache-one-after-the-other":
					cache = wazero.NewCompilationCache()
				case "2rt-filecache":
					c, err := wazero.NewCompilationCacheWithDir(filepath.Join(work, "hoststage-"+engine+"-"+style))
					if err != nil {
						hx.Fatal("cache dir: %v", err)
					}
					cache = c
				}
				newRT := func() wazero.Runtime {
					cfg := rtConfig(engine)
					if cache != nil {
						cfg = cfg.WithCompilationCache(cache)
					}
					return wazero.NewRuntimeWithConfig(ctx, cfg)
				}
				sts := []*hostState{{id: 1}, {id: 2}}
				var rts []wazero.Runtime
				var guests [2]api.Module
				call := func(k int, fn string, args ...uint64) uint64 {
					res, err := guests[k].ExportedFunction(fn).Call(ctx, args...)
					if err != nil {
						viol("host-state-call-fails", fmt.Sprintf("guest %d: %s: %v", k, fn, err))
						return 0
					}
					if len(res) == 0 {
						return 0
					}
					return res[0]
				}
				var got [2][]uint64
				if rtKind[:3] == "2rt" {
					for k := 0; k < 2; k++ {
						rt := newRT()
						rts = append(rts, rt)
						if _, err := instantiateEnv(ctx, rt, sts[k], style); err != nil {
							hx.Fatal("host stage: env: %v", err)
						}
						g, err := rt.InstantiateWithConfig(ctx, bin, wazero.NewModuleConfig().WithName(""))
						if err != nil {
							hx.Fatal("host stage: guest: %v", err)
						}
						guests[k] = g
					}
					for i := 0; i < 3; i++ {
						for k := 0; k < 2; k++ {
							got[k] = append(got[k], call(k, "next"))
							call(k, "put", uint64(100*(k+1)+i))
						}
					}
				} else {
					rt := newRT()
					rts = append(rts, rt)
					for k := 0; k < 2; k++ {
						env, err := instantiateEnv(ctx, rt, sts[k], style)
						if err != nil {
							hx.Fatal("host stage: env: %v", err)
						}
						g, err := rt.InstantiateWithConfig(ctx, bin, wazero.NewModuleConfig().WithName(""))
						if err != nil {
							hx.Fatal("host stage: guest: %v", err)
						}
						guests[k] = g
						for i := 0; i < 3; i++ {
							got[k] = append(got[k], call(k, "next"))
							call(k, "put", uint64(100*(k+1)+i))
						}
						g.Close(ctx)
						env.Close(ctx) // the name "env" is free for the next state's module
					}
				}
				for k := 0; k < 2; k++ {
					id := uint64(k + 1)
					wantNext := []uint64{id * 1000, id*1000 + 1, id*1000 + 2}
					wantSink := []uint64{100 * id, 100*id + 1, 100*id + 2}
					if fmt.Sprint(got[k]) != fmt.Sprint(wantNext) || fmt.Sprint(sts[k].sink) != fmt.Sprint(wantSink) {
						viol("guest-drives-the-host-state-of-another-runtimes-env",
							fmt.Sprintf("guest %d is linked only with the env built from state %d: its next() calls returned %v (alone: %v) and state %d received %v (alone: %v); the other state received %v",
								k, id, got[k], wantNext, id, sts[k].sink, wantSink, sts[1-k].sink))
						break
					}
				}
				for _, rt := range rts {
					rt.Close(ctx)
				}
				if cache != nil {
					cache.Close(ctx)
				}
			}
		}
	}
}
