package main

// Stage "shipped host modules with per-call lookups" (tie C): the Emscripten support module `env` (invoke_* and
// _emscripten_throw_longjmp, built by emscripten.InstantiateForModule) serves every guest instance of a runtime;
// whatever it looks up on behalf of a call (the caller's stack-pointer exports) belongs to the CALLING instance.
// Several instances of one Emscripten-style guest are driven in random interleavings - plain indirect calls through
// invoke_v and longjmps out of them at different stack pointers - and every instance must answer exactly as a lone
// instance given the same calls.

import (
	"context"
	"fmt"
	"math/rand"

	"github.com/tetratelabs/wazero"
	"github.com/tetratelabs/wazero/api"
	"github.com/tetratelabs/wazero/imports/emscripten"
	"github.com/tetratelabs/wazero/internal/testing/binaryencoding"
	"github.com/tetratelabs/wazero/internal/wasm"
	"github.com/tetratelabs/wazero/verifharness/hx"
)

// emGuest: globals $sp (mut i32, 65536) and $threw; exports emscripten_stack_get_current, _emscripten_stack_restore,
// setThrew, run(sp, idx) = { $sp := sp; invoke_v(idx); return $sp }, threw; table [nop, jmp] where jmp sets $sp to 1000
// and calls _emscripten_throw_longjmp.
func emGuest() []byte {
	i32 := wasm.ValueTypeI32
	m := &wasm.Module{
		TypeSection: []wasm.FunctionType{{}, {Params: []byte{i32}}, {Results: []byte{i32}}, {Params: []byte{i32, i32}}, {Params: []byte{i32, i32}, Results: []byte{i32}}},
		ImportSection: []wasm.Import{{Type: wasm.ExternTypeFunc, Module: "env", Name: "invoke_v", DescFunc: 1},
			{Type: wasm.ExternTypeFunc, Module: "env", Name: "_emscripten_throw_longjmp", DescFunc: 0}},
		ImportFunctionCount: 2,
		FunctionSection:     []wasm.Index{2, 1, 3, 0, 0, 4, 2},
		TableSection:        []wasm.Table{{Min: 2, Max: u32ptr(2), Type: wasm.RefTypeFuncref}},
		GlobalSection: []wasm.Global{
			{Type: wasm.GlobalType{ValType: i32, Mutable: true}, Init: wasm.ConstantExpression{Opcode: wasm.OpcodeI32Const, Data: []byte{0x80, 0x80, 0x04}}},
			{Type: wasm.GlobalType{ValType: i32, Mutable: true}, Init: wasm.ConstantExpression{Opcode: wasm.OpcodeI32Const, Data: []byte{0}}}},
		ExportSection: []wasm.Export{{Name: "emscripten_stack_get_current", Type: wasm.ExternTypeFunc, Index: 2}, {Name: "_emscripten_stack_restore", Type: wasm.ExternTypeFunc, Index: 3},
			{Name: "setThrew", Type: wasm.ExternTypeFunc, Index: 4}, {Name: "run", Type: wasm.ExternTypeFunc, Index: 7}, {Name: "threw", Type: wasm.ExternTypeFunc, Index: 8}},
		ElementSection: []wasm.ElementSegment{{OffsetExpr: wasm.ConstantExpression{Opcode: wasm.OpcodeI32Const, Data: []byte{0}}, Init: []wasm.Index{5, 6}, Type: wasm.RefTypeFuncref, Mode: wasm.ElementModeActive}},
		CodeSection: []wasm.Code{
			{Body: []byte{0x23, 0, 0x0b}},
			{Body: []byte{0x20, 0, 0x24, 0, 0x0b}},
			{Body: []byte{0x20, 0, 0x24, 1, 0x0b}},
			{Body: []byte{0x0b}},
			{Body: []byte{0x41, 0xe8, 0x07, 0x24, 0, 0x10, 1, 0x0b}},
			{Body: []byte{0x20, 0, 0x24, 0, 0x20, 1, 0x10, 0, 0x23, 0, 0x0b}},
			{Body: []byte{0x23, 1, 0x0b}},
		},
	}
	return binaryencoding.EncodeModule(m)
}

func u32ptr(v uint32) *uint32 { return &v }

type emCall struct {
	Inst int    `json:"inst"`
	SP   uint64 `json:"sp"`
	Idx  uint64 `json:"table_index"` // 0 = nop, 1 = longjmp
}

func emRun(ctx context.Context, m api.Module, c emCall) string {
	res, err := m.ExportedFunction("run").Call(ctx, c.SP, c.Idx)
	if err != nil {
		return "error: " + canonErr(err)
	}
	threw, err := m.ExportedFunction("threw").Call(ctx)
	if err != nil {
		return "error: " + canonErr(err)
	}
	return fmt.Sprintf("sp=%d threw=%d", res[0], threw[0])
}

func emStage(r *rand.Rand) {
	ctx := context.Background()
	bin := emGuest()
	rounds := 12
	if hx.Thorough() {
		rounds = 150
	}
	for _, engine := range []string{"interpreter", "compiler"} {
		newEnv := func() (wazero.Runtime, wazero.CompiledModule) {
			rt := wazero.NewRuntimeWithConfig(ctx, rtConfig(engine))
			cm, err := rt.CompileModule(ctx, bin)
			if err != nil {
				hx.Fatal("emscripten stage: compile: %v", err)
			}
			if _, err := emscripten.InstantiateForModule(ctx, rt, cm); err != nil {
				hx.Fatal("emscripten stage: env: %v", err)
			}
			return rt, cm
		}
		for round := 0; round < rounds; round++ {
			n := 2 + r.Intn(2)
			var calls []emCall
			for k := 0; k < 4+r.Intn(8); k++ {
				calls = append(calls, emCall{Inst: r.Intn(n), SP: uint64(4096 * (1 + r.Intn(12))), Idx: uint64(r.Intn(2))})
			}
			rt, cm := newEnv()
			insts := make([]api.Module, n)
			for i := range insts {
				m, err := rt.InstantiateModule(ctx, cm, wazero.NewModuleConfig().WithName(""))
				if err != nil {
					hx.Fatal("emscripten stage: instantiate: %v", err)
				}
				insts[i] = m
			}
			got := make([][]string, n)
			for _, c := range calls {
				got[c.Inst] = append(got[c.Inst], emRun(ctx, insts[c.Inst], c))
			}
			rt.Close(ctx)
			for i := 0; i < n; i++ {
				lrt, lcm := newEnv()
				lone, err := lrt.InstantiateModule(ctx, lcm, wazero.NewModuleConfig().WithName(""))
				if err != nil {
					hx.Fatal("emscripten stage: instantiate: %v", err)
				}
				var want []string
				for _, c := range calls {
					if c.Inst == i {
						want = append(want, emRun(ctx, lone, c))
					}
				}
				lrt.Close(ctx)
				rep.Case(fmt.Sprintf("emscripten/%s/%d/%d", engine, round, i))
				if fmt.Sprint(got[i]) != fmt.Sprint(want) {
					rep.Violate(hx.Violation{Kind: "impl-violation", Signature: "C11:emscripten-instance-differs-from-lone:" + engine,
						What:  fmt.Sprintf("instance %d of %d Emscripten-style guests sharing the runtime's env module (invoke_v, longjmp) answers %v; alone it answers %v", i, n, got[i], want),
						Input: map[string]any{"stage": "emscripten", "engine": engine, "instances": n, "calls": calls}, Expected: want, Actual: got[i]})
					break
				}
			}
		}
	}
}
