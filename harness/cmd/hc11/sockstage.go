package main

// Stage "pre-opened sockets" (tie C): two instances that are instantiated with the SAME context carrying an
// experimental sock.Config (TCP listener on an ephemeral loopback port) are not connected by an import, so each
// must own its listener exactly as a lone instance does: distinct sockets, a connection made to B's listener is
// seen by B and only by B, closing A does not touch B's listener.  The file-descriptor table is per-instance
// state; what it refers to in the operating system must be, too.  Skipped (counted) when the sandbox cannot
// bind a loopback port.

import (
	"context"
	"fmt"
	"net"
	"time"

	"github.com/tetratelabs/wazero"
	"github.com/tetratelabs/wazero/api"
	"github.com/tetratelabs/wazero/experimental/sock"
	"github.com/tetratelabs/wazero/imports/wasi_snapshot_preview1"
	"github.com/tetratelabs/wazero/internal/wasm"
	"github.com/tetratelabs/wazero/verifharness/hx"
	"github.com/tetratelabs/wazero/verifharness/wb"
)

const (
	sockFd     = 3
	errnoAgain = 6
)

func sockGuest() []byte {
	m := wb.New()
	i32 := wb.I32
	accept := m.ImportFunc("wasi_snapshot_preview1", "sock_accept", []byte{i32, i32, i32}, []byte{i32})
	setFlags := m.ImportFunc("wasi_snapshot_preview1", "fd_fdstat_set_flags", []byte{i32, i32}, []byte{i32})
	one := uint32(1)
	m.Memory(1, &one, false, "memory")
	m.AddFunc(wb.Func{Results: []byte{i32}, Export: "set_nonblock", Body: wb.Cat(wb.I32Const(sockFd), wb.I32Const(4), wb.Call(setFlags))})
	m.AddFunc(wb.Func{Results: []byte{i32}, Export: "accept", Body: wb.Cat(wb.I32Const(sockFd), wb.I32Const(0), wb.I32Const(16), wb.Call(accept))})
	return m.Bytes()
}

func listenerAddr(mod api.Module) (addr *net.TCPAddr) {
	defer func() { recover() }()
	f, ok := mod.(*wasm.ModuleInstance).Sys.FS().LookupFile(sockFd)
	if !ok {
		return nil
	}
	if a, ok := f.File.(interface{ Addr() *net.TCPAddr }); ok {
		return a.Addr()
	}
	return nil
}

func sockStage() {
	// can this sandbox bind a loopback port at all?
	probe, err := net.Listen("tcp", "127.0.0.1:0")
	if err != nil {
		rep.Count("sock-stage:skipped-no-loopback")
		rep.Note("pre-opened socket stage skipped: cannot bind a loopback port (%v)", err)
		return
	}
	probe.Close()
	bin := sockGuest()
	for _, engine := range []string{"interpreter", "compiler"} {
		bg := context.Background()
		ctx := sock.WithConfig(bg, sock.NewConfig().WithTCPListener("127.0.0.1", 0))
		rt := wazero.NewRuntimeWithConfig(bg, rtConfig(engine))
		wasi_snapshot_preview1.MustInstantiate(bg, rt)
		cm, err := rt.CompileModule(bg, bin)
		if err != nil {
			hx.Fatal("sock guest: %v", err)
		}
		var mods [2]api.Module
		for i, n := range []string{"a", "b"} {
			mods[i], err = rt.InstantiateModule(ctx, cm, wazero.NewModuleConfig().WithName(n))
			if err != nil {
				rep.Violate(hx.Violation{Kind: "impl-violation", Signature: "C11:second-instance-with-same-sock-config-fails:" + engine,
					What: fmt.Sprintf("instance %s with the shared sock.Config (ephemeral port) does not instantiate although a lone instance does: %v", n, err), Input: engine})
				rt.Close(bg)
				return
			}
		}
		a, b := mods[0], mods[1]
		rep.Case("sock/" + engine)
		input := map[string]any{"engine": engine, "config": "sock.NewConfig().WithTCPListener(127.0.0.1, 0), one context for both instances"}
		viol := func(sig, what string) {
			rep.Violate(hx.Violation{Kind: "impl-violation", Signature: "C11:" + sig + ":" + engine, What: what, Input: input})
		}
		call := func(m api.Module, fn string) uint32 {
			res, err := m.ExportedFunction(fn).Call(bg)
			if err != nil {
				return 0xffff
			}
			return uint32(res[0])
		}
		aa, ab := listenerAddr(a), listenerAddr(b)
		if aa == nil || ab == nil {
			rep.Count("sock-stage:no-listener-address")
			rt.Close(bg)
			continue
		}
		if aa.Port == ab.Port {
			viol("instances-share-a-pre-opened-listener", fmt.Sprintf("both unlinked instances listen on %v: they wrap the same OS socket", aa))
		}
		call(a, "set_nonblock")
		call(b, "set_nonblock")
		if e := call(a, "accept"); e != errnoAgain {
			viol("accept-on-idle-listener", fmt.Sprintf("a.sock_accept on its idle non-blocking listener returned errno %d, a lone instance gets EAGAIN", e))
		}
		// a client connects to B
		c, err := net.DialTimeout("tcp", ab.String(), 2*time.Second)
		if err != nil {
			viol("listener-not-reachable", "cannot connect to b's listener: "+err.Error())
		} else {
			defer c.Close()
			time.Sleep(20 * time.Millisecond)
			if e := call(a, "accept"); e != errnoAgain {
				viol("connection-to-b-accepted-by-a", fmt.Sprintf("a connection made to b's listener: a.sock_accept returned errno %d (EAGAIN required: nobody connected to a)", e))
			}
			got := uint32(errnoAgain)
			for i := 0; i < 50 && got == errnoAgain; i++ {
				got = call(b, "accept")
				if got == errnoAgain {
					time.Sleep(10 * time.Millisecond)
				}
			}
			if got != 0 {
				viol("connection-to-b-not-seen-by-b", fmt.Sprintf("a connection made to b's listener: b.sock_accept keeps returning errno %d", got))
			}
		}
		// closing A leaves B's listener alone
		a.Close(bg)
		c2, err := net.DialTimeout("tcp", ab.String(), 2*time.Second)
		if err != nil {
			viol("closing-a-closed-bs-listener", "after a.Close() a connection to b's listener is refused: "+err.Error())
		} else {
			c2.Close()
		}
		rt.Close(bg)
	}
}
