package main

// Stage "imported constants" (tie C): instances of ONE compiled module whose constant expressions depend on
// what each instance imports.  A module imports three immutable globals (i32 data offset, i32 table offset,
// i64 initial value) and uses them in an active data segment offset, an active element segment offset and a
// global initialiser.  The same CompiledModule is instantiated several times, each time with a different
// provider of those imports (the provider "env" is closed and replaced between instantiations); every
// instance must look exactly like a LONE instance (fresh runtime, own compilation) given the same imports.
// Anything evaluated once per compiled module instead of once per instance shows up here.
//
// Second monitor of the stage: the compiled module is an immutable value.  The in-memory wasm.Module of the
// CompiledModule is deep-hashed (all fields, unexported ones included) after compilation and after every
// instantiation / call; a change means instances communicate through the compiled module (the assumption
// `step_never_writes_shared` of the Lean model no longer describes the code).

import (
	"context"
	"encoding/binary"
	"fmt"
	"hash/fnv"
	"math/rand"
	"reflect"
	"sort"

	"github.com/tetratelabs/wazero"
	"github.com/tetratelabs/wazero/api"
	"github.com/tetratelabs/wazero/internal/leb128"
	"github.com/tetratelabs/wazero/internal/wasm"
	"github.com/tetratelabs/wazero/verifharness/hx"
	"github.com/tetratelabs/wazero/verifharness/wb"
)

type impVals struct {
	Base uint32 `json:"data_offset"`
	Tb   uint32 `json:"table_offset"`
	Init uint64 `json:"global_init"`
}

const icTable = 8

func providerModule(v impVals) []byte {
	m := wb.New()
	g := func(t byte, op byte, data []byte, name string) {
		m.M.GlobalSection = append(m.M.GlobalSection, wasm.Global{Type: wasm.GlobalType{ValType: t}, Init: wasm.ConstantExpression{Opcode: op, Data: data}})
		m.M.ExportSection = append(m.M.ExportSection, wasm.Export{Name: name, Type: wasm.ExternTypeGlobal, Index: uint32(len(m.M.GlobalSection) - 1)})
	}
	g(wb.I32, wasm.OpcodeI32Const, leb128.EncodeInt32(int32(v.Base)), "base")
	g(wb.I32, wasm.OpcodeI32Const, leb128.EncodeInt32(int32(v.Tb)), "tb")
	g(wb.I64, wasm.OpcodeI64Const, leb128.EncodeInt64(int64(v.Init)), "init")
	return m.Bytes()
}

var icData = []byte("DATA-of-this-instance")

func consumerModule() []byte {
	m := wb.New()
	for i, t := range []byte{wb.I32, wb.I32, wb.I64} {
		m.M.ImportSection = append(m.M.ImportSection, wasm.Import{Type: wasm.ExternTypeGlobal, Module: "env", Name: []string{"base", "tb", "init"}[i],
			DescGlobal: wasm.GlobalType{ValType: t}})
	}
	m.M.ImportGlobalCount = 3
	one := uint32(1)
	m.Memory(1, &one, false, "memory")
	tmax := uint32(icTable)
	m.Table(icTable, &tmax)
	// own mutable global 3 initialised from the imported global 2
	m.M.GlobalSection = append(m.M.GlobalSection, wasm.Global{Type: wasm.GlobalType{ValType: wb.I64, Mutable: true},
		Init: wasm.ConstantExpression{Opcode: wasm.OpcodeGlobalGet, Data: leb128.EncodeUint32(2)}})
	m.M.DataSection = append(m.M.DataSection, wasm.DataSegment{OffsetExpression: wasm.ConstantExpression{Opcode: wasm.OpcodeGlobalGet, Data: leb128.EncodeUint32(0)}, Init: icData})
	f0 := m.AddFunc(wb.Func{Results: []byte{wb.I32}, Body: wb.I32Const(4242)})
	m.M.ElementSection = append(m.M.ElementSection, wasm.ElementSegment{Mode: wasm.ElementModeActive, Type: wasm.RefTypeFuncref,
		OffsetExpr: wasm.ConstantExpression{Opcode: wasm.OpcodeGlobalGet, Data: leb128.EncodeUint32(1)}, Init: []wasm.Index{f0, f0}})
	t1 := m.TypeIdx(nil, []byte{wb.I32})
	m.AddFunc(wb.Func{Params: []byte{wb.I32}, Results: []byte{wb.I32}, Export: "slot", // 1 = slot holds a function, 0 = null
		Body: wb.Cat(wb.LocalGet(0), []byte{wasm.OpcodeTableGet, 0}, []byte{wasm.OpcodeRefIsNull}, []byte{wasm.OpcodeI32Eqz})})
	m.AddFunc(wb.Func{Params: []byte{wb.I32}, Results: []byte{wb.I32}, Export: "callslot",
		Body: wb.Cat(wb.LocalGet(0), []byte{wasm.OpcodeCallIndirect}, wb.U32(t1), []byte{0})})
	m.AddFunc(wb.Func{Results: []byte{wb.I64}, Export: "g", Body: wb.GlobalGet(3)})
	m.AddFunc(wb.Func{Params: []byte{wb.I64}, Export: "setg", Body: wb.Cat(wb.LocalGet(0), wb.GlobalSet(3))})
	// more globals of the module's own BEHIND the imported ones (global indices 4..9 = section entries 1..6): three
	// immutable constants, then three mutable counters with constant initialisers.  Index arithmetic that confuses the
	// global index space (imports first) with the global section shows here: each counter is private to its instance.
	cg := func(t byte, mut bool, op byte, data []byte) {
		m.M.GlobalSection = append(m.M.GlobalSection, wasm.Global{Type: wasm.GlobalType{ValType: t, Mutable: mut}, Init: wasm.ConstantExpression{Opcode: op, Data: data}})
	}
	cg(wb.I32, false, wasm.OpcodeI32Const, leb128.EncodeInt32(100))
	cg(wb.I64, false, wasm.OpcodeI64Const, leb128.EncodeInt64(200))
	cg(wb.I32, false, wasm.OpcodeI32Const, leb128.EncodeInt32(300))
	cg(wb.I32, true, wasm.OpcodeI32Const, leb128.EncodeInt32(1))
	cg(wb.I64, true, wasm.OpcodeI64Const, leb128.EncodeInt64(2))
	cg(wb.I32, true, wasm.OpcodeI32Const, leb128.EncodeInt32(3))
	// counters() = k4 + k5 + k6 (constants) combined with the three counters into one i64
	m.AddFunc(wb.Func{Results: []byte{wb.I64}, Export: "counters", Body: wb.Cat(
		wb.GlobalGet(7), wb.Op(wasm.OpcodeI64ExtendI32U), wb.I64Const(40), wb.Op(wasm.OpcodeI64Shl),
		wb.GlobalGet(8), wb.I64Const(20), wb.Op(wasm.OpcodeI64Shl), wb.Op(wasm.OpcodeI64Add),
		wb.GlobalGet(9), wb.Op(wasm.OpcodeI64ExtendI32U), wb.Op(wasm.OpcodeI64Add))})
	m.AddFunc(wb.Func{Results: []byte{wb.I64}, Export: "consts", Body: wb.Cat(
		wb.GlobalGet(4), wb.Op(wasm.OpcodeI64ExtendI32U), wb.I64Const(40), wb.Op(wasm.OpcodeI64Shl),
		wb.GlobalGet(5), wb.I64Const(20), wb.Op(wasm.OpcodeI64Shl), wb.Op(wasm.OpcodeI64Add),
		wb.GlobalGet(6), wb.Op(wasm.OpcodeI64ExtendI32U), wb.Op(wasm.OpcodeI64Add))})
	m.AddFunc(wb.Func{Params: []byte{wb.I32}, Export: "bump", Body: wb.Cat(
		wb.LocalGet(0), wb.GlobalSet(7), wb.LocalGet(0), wb.Op(wasm.OpcodeI64ExtendI32U), wb.GlobalSet(8), wb.LocalGet(0), wb.GlobalSet(9))})
	return m.Bytes()
}

// observeIC: everything the instance can see of itself.
func observeIC(ctx context.Context, mod api.Module) string {
	mem, _ := mod.Memory().Read(0, 65536)
	h := fnv.New64a()
	h.Write(mem)
	first := -1
	for i, b := range mem {
		if b != 0 {
			first = i
			break
		}
	}
	s := fmt.Sprintf("mem=%x first-nonzero=%d", h.Sum64(), first)
	for i := 0; i < icTable; i++ {
		r, err := mod.ExportedFunction("slot").Call(ctx, uint64(i))
		if err != nil {
			s += fmt.Sprintf(" slot%d=err", i)
		} else {
			s += fmt.Sprintf(" slot%d=%d", i, r[0])
		}
	}
	for _, fn := range []string{"g", "counters", "consts"} {
		g, err := mod.ExportedFunction(fn).Call(ctx)
		if err != nil {
			s += " " + fn + "=err"
		} else {
			s += fmt.Sprintf(" %s=%x", fn, g[0])
		}
	}
	return s
}

func expectIC(v impVals) string {
	if uint64(v.Base)+uint64(len(icData)) > 65536 {
		return "instantiation-error"
	}
	// an active element segment that does not fit is skipped by wazero (documented in applyElements: "we ignore
	// it"), the instance is created; that deviation from the specification is not an isolation matter
	tableOOB := uint64(v.Tb)+2 > icTable
	mem := make([]byte, 65536)
	copy(mem[v.Base:], icData)
	h := fnv.New64a()
	h.Write(mem)
	s := fmt.Sprintf("mem=%x first-nonzero=%d", h.Sum64(), v.Base)
	for i := uint32(0); i < icTable; i++ {
		k := 0
		if !tableOOB && (i == v.Tb || i == v.Tb+1) {
			k = 1
		}
		s += fmt.Sprintf(" slot%d=%d", i, k)
	}
	return s + fmt.Sprintf(" g=%x counters=%x consts=%x", v.Init, uint64(1)<<40+uint64(2)<<20+3, uint64(100)<<40+uint64(200)<<20+300)
}

func instantiateIC(ctx context.Context, rt wazero.Runtime, cm wazero.CompiledModule, v impVals, name string) (api.Module, api.Module, string) {
	env, err := rt.InstantiateWithConfig(ctx, providerModule(v), wazero.NewModuleConfig().WithName("env"))
	if err != nil {
		hx.Fatal("provider: %v", err)
	}
	mod, err := rt.InstantiateModule(ctx, cm, wazero.NewModuleConfig().WithName(name))
	if err != nil {
		return nil, env, "instantiation-error"
	}
	return mod, env, ""
}

func impConstStage(r *rand.Rand) {
	ctx := context.Background()
	bin := consumerModule()
	pool := []impVals{{0, 0, 0}, {32, 1, 1}, {65536 - uint32(len(icData)), icTable - 2, ^uint64(0)}, {1000, 3, 0x8000000000000000},
		{65536 - uint32(len(icData)) + 1, 0, 7}, {16, icTable - 1, 9}, {0xffffffff, 0, 1}, {64, 0xffffffff, 2}}
	rounds := 6
	if hx.Thorough() {
		rounds = 60
	}
	for _, engine := range []string{"interpreter", "compiler"} {
		for round := 0; round < rounds; round++ {
			n := 2 + r.Intn(3)
			var vals []impVals
			for i := 0; i < n; i++ {
				if r.Intn(3) == 0 {
					vals = append(vals, impVals{uint32(r.Intn(65536)), uint32(r.Intn(icTable)), r.Uint64()})
				} else {
					vals = append(vals, pool[r.Intn(len(pool))])
				}
			}
			rt := wazero.NewRuntimeWithConfig(ctx, rtConfig(engine))
			cm, err := rt.CompileModule(ctx, bin)
			if err != nil {
				hx.Fatal("generator bug: consumer module does not compile: %v", err)
			}
			h0 := deepHashCompiled(cm)
			var live []api.Module
			var after []string
			for i, v := range vals {
				mod, env, res := instantiateIC(ctx, rt, cm, v, fmt.Sprintf("inst%d", i))
				input := map[string]any{"engine": engine, "imports_per_instance": vals, "instance": i}
				want := expectIC(v)
				if mod != nil {
					res = observeIC(ctx, mod)
					live = append(live, mod)
					// let the instances diverge: each sets its own global
					mod.ExportedFunction("setg").Call(ctx, uint64(1000+i))
					mod.ExportedFunction("bump").Call(ctx, uint64(50+i))
					after = append(after, observeIC(ctx, mod))
				}
				// the lone instance: fresh runtime, own compilation, same imports
				lrt := wazero.NewRuntimeWithConfig(ctx, rtConfig(engine))
				lcm, _ := lrt.CompileModule(ctx, bin)
				lmod, _, lres := instantiateIC(ctx, lrt, lcm, v, "lone")
				if lmod != nil {
					lres = observeIC(ctx, lmod)
				}
				lrt.Close(ctx)
				rep.Case(fmt.Sprintf("impconst/%s/%v/%d", engine, vals, i))
				rep.Count("impconst:" + map[bool]string{true: "instantiated", false: "rejected"}[mod != nil])
				if res != lres {
					rep.Violate(hx.Violation{Kind: "impl-violation", Signature: "C11:instance-of-shared-compiled-module-differs-from-lone-instance:" + engine,
						What:  fmt.Sprintf("instance %d of one compiled module, importing %+v after %d other instantiation(s) with other imports, differs from a lone instance with the same imports", i, v, i),
						Input: input, Expected: lres, Actual: res})
				} else if res != want {
					rep.Violate(hx.Violation{Kind: "impl-violation", Signature: "C11:imported-constant-expression-wrong:" + engine,
						What:  fmt.Sprintf("instance importing %+v: segments/global are not placed where the constant expressions say (lone instance agrees with it)", v),
						Input: input, Expected: want, Actual: res})
				}
				if h := deepHashCompiled(cm); h != h0 {
					rep.Violate(hx.Violation{Kind: "correspondence", Signature: "C11:compiled-module-mutated-by-instantiation",
						What:  "the in-memory compiled module (wasm.Module) changed while instantiating / calling an instance: instances of one compiled module share mutable state through it (the Lean model's `step_never_writes_shared` assumes they do not)",
						Input: input, Expected: h0, Actual: h})
					h0 = h
				}
				env.Close(ctx) // the next instance gets another provider under the same name
			}
			for i, mod := range live {
				if now := observeIC(ctx, mod); now != after[i] {
					rep.Violate(hx.Violation{Kind: "impl-violation", Signature: "C11:instance-changed-by-later-instantiations:" + engine,
						What:  fmt.Sprintf("live instance #%d changed while later instances of the same compiled module were created", i),
						Input: map[string]any{"engine": engine, "imports_per_instance": vals}, Expected: after[i], Actual: now})
				}
			}
			rt.Close(ctx)
		}
	}
}

// ---- deep hash of the compiled module --------------------------------------------------------------------

func deepHashCompiled(cm wazero.CompiledModule) string {
	v := reflect.ValueOf(cm)
	for v.Kind() == reflect.Ptr || v.Kind() == reflect.Interface {
		v = v.Elem()
	}
	f := v.FieldByName("module")
	if !f.IsValid() {
		hx.Fatal("compiledModule has no field `module` any more (harness needs updating)")
	}
	h := fnv.New64a()
	w := &hasher{h: h, seen: map[uintptr]bool{}}
	w.walk(f, 0)
	return fmt.Sprintf("%x", h.Sum64())
}

type hasher struct {
	h interface {
		Write([]byte) (int, error)
	}
	seen map[uintptr]bool
}

func (w *hasher) u64(x uint64) {
	var b [8]byte
	binary.LittleEndian.PutUint64(b[:], x)
	w.h.Write(b[:])
}

func (w *hasher) walk(v reflect.Value, depth int) {
	if depth > 40 {
		return
	}
	switch v.Kind() {
	case reflect.Bool:
		if v.Bool() {
			w.u64(1)
		} else {
			w.u64(0)
		}
	case reflect.Int, reflect.Int8, reflect.Int16, reflect.Int32, reflect.Int64:
		w.u64(uint64(v.Int()))
	case reflect.Uint, reflect.Uint8, reflect.Uint16, reflect.Uint32, reflect.Uint64, reflect.Uintptr:
		w.u64(v.Uint())
	case reflect.Float32, reflect.Float64:
		w.u64(uint64(v.Float()))
	case reflect.String:
		w.h.Write([]byte(v.String()))
		w.u64(uint64(v.Len()))
	case reflect.Slice:
		w.u64(uint64(v.Len()))
		if v.Type().Elem().Kind() == reflect.Uint8 {
			w.h.Write(v.Bytes())
			return
		}
		for i := 0; i < v.Len(); i++ {
			w.walk(v.Index(i), depth+1)
		}
	case reflect.Array:
		for i := 0; i < v.Len(); i++ {
			w.walk(v.Index(i), depth+1)
		}
	case reflect.Struct:
		t := v.Type()
		// synchronisation primitives are state of the lock, not of the module
		if t.PkgPath() == "sync" {
			return
		}
		for i := 0; i < v.NumField(); i++ {
			w.walk(v.Field(i), depth+1)
		}
	case reflect.Ptr:
		if v.IsNil() {
			w.u64(0)
			return
		}
		if w.seen[v.Pointer()] {
			w.u64(2)
			return
		}
		w.seen[v.Pointer()] = true
		w.u64(1)
		w.walk(v.Elem(), depth+1)
	case reflect.Interface:
		if v.IsNil() {
			w.u64(0)
			return
		}
		w.h.Write([]byte(v.Elem().Type().String()))
		w.walk(v.Elem(), depth+1)
	case reflect.Map:
		w.u64(uint64(v.Len()))
		keys := v.MapKeys()
		sort.Slice(keys, func(i, j int) bool { return fmt.Sprint(keys[i]) < fmt.Sprint(keys[j]) })
		for _, k := range keys {
			w.h.Write([]byte(fmt.Sprint(k)))
			w.walk(v.MapIndex(k), depth+1)
		}
	case reflect.Func, reflect.Chan, reflect.UnsafePointer:
		// identity only
		if v.IsNil() {
			w.u64(0)
		} else {
			w.u64(1)
		}
	}
}
