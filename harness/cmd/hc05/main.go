// hc05: numeric instructions (C05). Every scalar and v128 numeric opcode of wazero's instruction
// tables is discovered (name from wazero's own name tables, signature by asking the real validator),
// compiled into one-instruction functions in several operand placements (parameters, memory
// operands, constant operands), executed on both engines over boundary-plus-random operand grids,
// and compared bit for bit with the Lean specification (oracle topic c05; NaN results of arithmetic
// only up to the class the standard allows).  Tie C: engines must agree with each other.
package main

import (
	"context"
	"encoding/binary"
	"flag"
	"fmt"
	"math"
	"math/rand"
	"sort"
	"strings"

	"github.com/tetratelabs/wazero"
	"github.com/tetratelabs/wazero/api"
	"github.com/tetratelabs/wazero/internal/wasm"
	"github.com/tetratelabs/wazero/verifharness/hx"
	"github.com/tetratelabs/wazero/verifharness/wb"
)

const V128 = wasm.ValueTypeV128

const (
	nExtraInt   = 12
	nExtraFloat = 14
)

var (
	orc *hx.Oracle
	rep *hx.Report
	ctx = context.Background()
)

type opInfo struct {
	name    string // standard instruction name
	enc     []byte // opcode bytes (prefix + leb)
	params  []byte
	result  byte
	immLen  int
	modeled bool
}

// names where wazero's table deviates from the standard text format
var alias = map[string]string{
	"i8x16.sub_s": "i8x16.sub_sat_s", "i8x16.sub_u": "i8x16.sub_sat_u", "f32.convert_i64u": "f32.convert_i64_u",
	"i64x2.lt": "i64x2.lt_s", "i64x2.gt": "i64x2.gt_s", "i64x2.le": "i64x2.le_s", "i64x2.ge": "i64x2.ge_s",
	"v128.shuffle": "i8x16.shuffle",
}

func tname(t byte) string { return wasm.ValueTypeName(t) }

func constOf(t byte, v [2]uint64) []byte {
	switch t {
	case wb.I32:
		return wb.I32Const(int32(uint32(v[0])))
	case wb.I64:
		return wb.I64Const(int64(v[0]))
	case wb.F32:
		b := []byte{wasm.OpcodeF32Const, 0, 0, 0, 0}
		binary.LittleEndian.PutUint32(b[1:], uint32(v[0]))
		return b
	case wb.F64:
		b := []byte{wasm.OpcodeF64Const, 0, 0, 0, 0, 0, 0, 0, 0}
		binary.LittleEndian.PutUint64(b[1:], v[0])
		return b
	case V128:
		b := make([]byte, 18)
		b[0], b[1] = wasm.OpcodeVecPrefix, byte(wasm.OpcodeVecV128Const)
		binary.LittleEndian.PutUint64(b[2:], v[0])
		binary.LittleEndian.PutUint64(b[10:], v[1])
		return b
	}
	panic("type")
}

func storeOf(t byte) []byte {
	switch t {
	case wb.I32:
		return wb.MemArg(wasm.OpcodeI32Store, 2, 0)
	case wb.I64:
		return wb.MemArg(wasm.OpcodeI64Store, 3, 0)
	case wb.F32:
		return wb.MemArg(wasm.OpcodeF32Store, 2, 0)
	case wb.F64:
		return wb.MemArg(wasm.OpcodeF64Store, 3, 0)
	}
	return wb.Cat([]byte{wasm.OpcodeVecPrefix, byte(wasm.OpcodeVecV128Store)}, wb.U32(4), wb.U32(0))
}

func loadOf(t byte, addr uint32) []byte {
	a := wb.I32Const(int32(addr))
	switch t {
	case wb.I32:
		return wb.Cat(a, wb.MemArg(wasm.OpcodeI32Load, 2, 0))
	case wb.I64:
		return wb.Cat(a, wb.MemArg(wasm.OpcodeI64Load, 3, 0))
	case wb.F32:
		return wb.Cat(a, wb.MemArg(wasm.OpcodeF32Load, 2, 0))
	case wb.F64:
		return wb.Cat(a, wb.MemArg(wasm.OpcodeF64Load, 3, 0))
	case V128:
		return wb.Cat(a, []byte{wasm.OpcodeVecPrefix, byte(wasm.OpcodeVecV128Load)}, wb.U32(4), wb.U32(0))
	}
	panic("type")
}

var interp, comp wazero.Runtime

func tryCompile(bin []byte) bool {
	cm, err := interp.CompileModule(ctx, bin)
	if err != nil {
		return false
	}
	cm.Close(ctx)
	return true
}

func opBody(o *opInfo, imm []byte) []byte {
	b := append([]byte{}, o.enc...)
	if imm != nil {
		return append(b, imm...)
	}
	return append(b, make([]byte, o.immLen)...)
}

func discover(name string, enc []byte, vec bool) *opInfo {
	T := []byte{wb.I32, wb.I64, wb.F32, wb.F64}
	type cand struct {
		p   []byte
		r   byte
		imm int
	}
	var cands []cand
	if !vec {
		for _, r := range T {
			for _, p := range T {
				cands = append(cands, cand{[]byte{p}, r, 0})
			}
		}
		for _, r := range T {
			for _, p := range T {
				cands = append(cands, cand{[]byte{p, p}, r, 0})
			}
		}
	} else {
		cands = append(cands, cand{[]byte{V128}, V128, 0}, cand{[]byte{V128, V128}, V128, 0},
			cand{[]byte{V128, V128, V128}, V128, 0}, cand{[]byte{V128, wb.I32}, V128, 0}, cand{[]byte{V128}, wb.I32, 0},
			cand{[]byte{V128, V128}, V128, 16})
		for _, t := range T {
			cands = append(cands, cand{[]byte{t}, V128, 0}, cand{[]byte{V128}, t, 1}, cand{[]byte{V128, t}, V128, 1})
		}
	}
	wantImm := 0
	if strings.Contains(name, "_lane") {
		wantImm = 1
	} else if strings.HasSuffix(name, ".shuffle") {
		wantImm = 16
	}
	for _, c := range cands {
		if c.imm != wantImm {
			continue
		}
		o := &opInfo{name: name, enc: enc, params: c.p, result: c.r, immLen: c.imm}
		m := wb.New()
		var body []byte
		for i := range c.p {
			body = append(body, wb.LocalGet(uint32(i))...)
		}
		body = append(body, opBody(o, nil)...)
		m.AddFunc(wb.Func{Params: c.p, Results: []byte{c.r}, Body: body, Export: "p"})
		if tryCompile(m.Bytes()) {
			return o
		}
	}
	return nil
}

func allOps() []*opInfo {
	var ops []*opInfo
	add := func(name string, enc []byte, vec bool) {
		if name == "" {
			return
		}
		if a, ok := alias[name]; ok {
			name = a
		}
		if strings.Contains(name, "load") || strings.Contains(name, "store") || name == "v128.const" ||
			strings.HasPrefix(name, "memory.") || strings.HasPrefix(name, "table.") || strings.HasPrefix(name, "data.") || strings.HasPrefix(name, "elem.") {
			return
		}
		o := discover(name, enc, vec)
		if o == nil {
			rep.Note("no signature discovered for %s (not a plain numeric instruction); skipped", name)
			return
		}
		ops = append(ops, o)
	}
	for i := 0x45; i <= 0xc4; i++ {
		add(wasm.InstructionName(wasm.Opcode(i)), []byte{byte(i)}, false)
	}
	for i := 0; i <= 7; i++ {
		add(wasm.MiscInstructionName(wasm.OpcodeMisc(i)), wb.Cat([]byte{wasm.OpcodeMiscPrefix}, wb.U32(uint32(i))), false)
	}
	for i := 0; i < 256; i++ {
		add(wasm.VectorInstructionName(wasm.OpcodeVec(i)), wb.Cat([]byte{wasm.OpcodeVecPrefix}, wb.U32(uint32(i))), true)
	}
	return ops
}

// ---- operand sets ---------------------------------------------------------------------------

func i32set() []uint64 {
	return []uint64{0, 1, 2, 3, 5, 7, 8, 15, 16, 31, 32, 33, 63, 64, 65, 0x7f, 0x80, 0xff, 0x100, 0x7fff, 0x8000, 0xffff, 0x10000,
		0x7ffffffe, 0x7fffffff, 0x80000000, 0x80000001, 0xfffffffe, 0xffffffff, 0x55555555, 0xaaaaaaaa, 0x12345678}
}

func i64set() []uint64 {
	return []uint64{0, 1, 2, 3, 7, 31, 32, 33, 63, 64, 65, 127, 128, 0xff, 0xffff, 0x7fffffff, 0x80000000, 0xffffffff, 0x100000000,
		0x7ffffffffffffffe, 0x7fffffffffffffff, 0x8000000000000000, 0x8000000000000001, 0xfffffffffffffffe, 0xffffffffffffffff,
		0x5555555555555555, 0xaaaaaaaaaaaaaaaa, 0x123456789abcdef0, 0xffffffff00000000, 0x00000000ffffffff80 >> 8}
}

func f32set() []uint64 {
	fs := []float32{0, 1, 0.5, 1.5, 2.5, 3.5, 0.49999997, 0.99999994, 1.0000001, 2, 3, 10, 0.1, 1e-10, 1e10, 16777216, 16777215, 8388608, 8388607.5, 8388608.5,
		2147483648, 2147483520, 2147483904, 4294967296, 4294967040, 4294967808, 9223372036854775808, 9223371487098961920, 18446744073709551616, 18446742974197923840,
		math.MaxFloat32, math.SmallestNonzeroFloat32, 1.1754944e-38, 1.1754942e-38, float32(math.Inf(1)), 255, 256, 32767, 32768, 65535, 65536, 127, 128}
	var out []uint64
	for _, f := range fs {
		b := math.Float32bits(f)
		out = append(out, uint64(b), uint64(b|0x80000000))
	}
	out = append(out, 0x7fc00000, 0xffc00000, 0x7fa00001, 0xffa00001, 0x7fc12345, 0x7f800001, 0x7fffffff, 0x00000002, 0x007fffff, 0x00800001, 0x3effffff, 0x3f000001)
	return out
}

func f64set() []uint64 {
	fs := []float64{0, 1, 0.5, 1.5, 2.5, 3.5, 0.49999999999999994, 0.9999999999999999, 1.0000000000000002, 2, 3, 10, 0.1, 1e-300, 1e300, 9007199254740992, 9007199254740991,
		4503599627370496, 4503599627370495.5, 4503599627370496.5, 2147483648, 2147483647, 2147483647.5, 2147483648.5, -2147483648.5, -2147483649, 4294967296, 4294967295, 4294967295.5,
		9223372036854775808, 9223372036854774784, 9223372036854777856, 18446744073709551616, 18446744073709549568, math.MaxFloat64, math.SmallestNonzeroFloat64,
		2.2250738585072014e-308, 2.225073858507201e-308, math.Inf(1), 3.4028234663852886e38, 3.4028235677973366e38, 3.4028235677973362e38, 1.401298464324817e-45, 7.006492321624085e-46, 7.006492321624087e-46,
		1.1754943508222875e-38, 255, 256, 65535, 65536, 0.9999999701976776, 16777217}
	var out []uint64
	for _, f := range fs {
		b := math.Float64bits(f)
		out = append(out, b, b|0x8000000000000000)
	}
	out = append(out, 0x7ff8000000000000, 0xfff8000000000000, 0x7ff4000000000001, 0xfff4000000000001, 0x7ff8000000012345, 0x7ff0000000000001, 0x7fffffffffffffff,
		2, 0x000fffffffffffff, 0x0010000000000001, 0x3fdfffffffffffff, 0x3fe0000000000001, 0x47efffffffffffff, 0x36a0000000000000, 0x36a0000000000001, 0x369fffffffffffff)
	return out
}

func scalarSet(t byte) []uint64 {
	switch t {
	case wb.I32:
		return i32set()
	case wb.I64:
		return i64set()
	case wb.F32:
		return f32set()
	}
	return f64set()
}

func randScalar(r *rand.Rand, t byte) uint64 {
	switch t {
	case wb.I32:
		return uint64(r.Uint32())
	case wb.F32:
		if r.Intn(3) == 0 { // moderate magnitudes
			return uint64(math.Float32bits(float32((r.Float64() - 0.5) * math.Pow(2, float64(r.Intn(70)-5)))))
		}
		return uint64(r.Uint32())
	case wb.F64:
		if r.Intn(3) == 0 {
			return math.Float64bits((r.Float64() - 0.5) * math.Pow(2, float64(r.Intn(140)-10)))
		}
		return r.Uint64()
	}
	return r.Uint64()
}

// lane width in bits and whether lanes are float, from the shapes mentioned in the name (smallest)
func laneInfo(name string) (int, bool) {
	w, f := 128, false
	for _, s := range []struct {
		k string
		w int
		f bool
	}{{"i8x16", 8, false}, {"i16x8", 16, false}, {"i32x4", 32, false}, {"i64x2", 64, false}, {"f32x4", 32, true}, {"f64x2", 64, true}} {
		if strings.Contains(name, s.k) && s.w < w {
			w, f = s.w, s.f
		}
	}
	if w == 128 {
		return 8, false
	}
	// conversions from float sources: use float lanes of the source
	for _, s := range []struct {
		k string
		w int
	}{{"_f32x4", 32}, {"_f64x2", 64}} {
		if strings.Contains(name, s.k) {
			return s.w, true
		}
	}
	if strings.HasPrefix(name, "f32x4.convert") || strings.HasPrefix(name, "f64x2.convert") {
		return 32, false
	}
	return w, f
}

func laneSet(w int, isF bool) []uint64 {
	switch {
	case w == 8:
		s := make([]uint64, 256)
		for i := range s {
			s[i] = uint64(i)
		}
		return s
	case w == 16:
		return []uint64{0, 1, 2, 3, 7, 8, 15, 16, 17, 0x7f, 0x80, 0xff, 0x100, 0x3fff, 0x4000, 0x7ffe, 0x7fff, 0x8000, 0x8001, 0xc000, 0xfffe, 0xffff, 0x5555, 0xaaaa, 0x1234, 181, 182, 0xb505, 0xff00, 0x00ff}
	case w == 32 && isF:
		return f32set()
	case w == 32:
		return i32set()
	case isF:
		return f64set()
	}
	return i64set()
}

type v128 [2]uint64

func packLanes(w int, ls []uint64) v128 {
	var v v128
	for i, x := range ls {
		bit := i * w
		if w < 64 {
			x &= (1 << uint(w)) - 1
		}
		v[bit/64] |= x << uint(bit%64)
	}
	return v
}

// vectorPairs builds operand vectors so that lane pairs cover set x set (cross product) once.
func vectorTuples(r *rand.Rand, w int, isF bool, arity int, budget int) [][]v128 {
	set := laneSet(w, isF)
	n := 128 / w
	var out [][]v128
	if arity == 1 && w == 16 && hx.Thorough() {
		// every 16-bit lane value
		for base := 0; base < 65536; base += n {
			ls := make([]uint64, n)
			for j := range ls {
				ls[j] = uint64((base + j) & 0xffff)
			}
			out = append(out, []v128{packLanes(w, ls)})
		}
	}
	if arity == 1 {
		for i := 0; i < len(set); i += n {
			ls := make([]uint64, n)
			for j := range ls {
				ls[j] = set[(i+j)%len(set)]
			}
			out = append(out, []v128{packLanes(w, ls)})
		}
	} else {
		var pairs [][2]uint64
		for _, a := range set {
			for _, b := range set {
				pairs = append(pairs, [2]uint64{a, b})
			}
		}
		if len(pairs) > budget*n {
			r.Shuffle(len(pairs), func(i, j int) { pairs[i], pairs[j] = pairs[j], pairs[i] })
			pairs = pairs[:budget*n]
		}
		for i := 0; i < len(pairs); i += n {
			la, lb := make([]uint64, n), make([]uint64, n)
			for j := 0; j < n; j++ {
				p := pairs[(i+j)%len(pairs)]
				la[j], lb[j] = p[0], p[1]
			}
			t := []v128{packLanes(w, la), packLanes(w, lb)}
			for k := 2; k < arity; k++ {
				t = append(t, v128{r.Uint64(), r.Uint64()})
			}
			out = append(out, t)
		}
	}
	// random vectors
	for k := 0; k < budget/4+8; k++ {
		var t []v128
		for a := 0; a < arity; a++ {
			ls := make([]uint64, n)
			for j := range ls {
				if w >= 32 {
					ty := byte(wb.I32)
					switch {
					case w == 32 && isF:
						ty = wb.F32
					case w == 64 && isF:
						ty = wb.F64
					case w == 64:
						ty = wb.I64
					}
					ls[j] = randScalar(r, ty)
				} else {
					ls[j] = r.Uint64()
				}
			}
			t = append(t, packLanes(w, ls))
		}
		out = append(out, t)
	}
	return out
}

// operand tuples for an op: each operand is up to two u64 words.
func tuples(r *rand.Rand, o *opInfo, budget int) [][]v128 {
	hasV := false
	for _, p := range o.params {
		if p == V128 {
			hasV = true
		}
	}
	if !hasV {
		var out [][]v128
		if len(o.params) == 1 {
			for _, a := range scalarSet(o.params[0]) {
				out = append(out, []v128{{a}})
			}
			for k := 0; k < budget; k++ {
				out = append(out, []v128{{randScalar(r, o.params[0])}})
			}
			return out
		}
		sa, sb := scalarSet(o.params[0]), scalarSet(o.params[1])
		for _, a := range sa {
			for _, b := range sb {
				out = append(out, []v128{{a}, {b}})
			}
		}
		if len(out) > 4*budget {
			r.Shuffle(len(out), func(i, j int) { out[i], out[j] = out[j], out[i] })
			// keep a stratified subset: all pairs with a boundary on at least one side are too many; sample
			out = out[:4*budget]
		}
		for k := 0; k < budget; k++ {
			out = append(out, []v128{{randScalar(r, o.params[0])}, {randScalar(r, o.params[1])}})
		}
		return out
	}
	w, isF := laneInfo(o.name)
	nv := 0
	for _, p := range o.params {
		if p == V128 {
			nv++
		}
	}
	vt := vectorTuples(r, w, isF, nv, budget)
	// scalar co-operands (shift counts, replace_lane values)
	var out [][]v128
	for _, t := range vt {
		var tup []v128
		vi := 0
		for _, p := range o.params {
			if p == V128 {
				tup = append(tup, t[vi])
				vi++
			} else {
				s := scalarSet(p)
				tup = append(tup, v128{s[r.Intn(len(s))]})
			}
		}
		out = append(out, tup)
	}
	return out
}

// constSet: operand values that matter as compile-time constants.
func constSet(r *rand.Rand, t byte) []v128 {
	var out []v128
	add := func(vs ...uint64) {
		for _, v := range vs {
			out = append(out, v128{v})
		}
	}
	switch t {
	case wb.I32:
		add(0, 1, 2, 3, 4, 7, 8, 16, 31, 32, 33, 63, 64, 127, 128, 255, 256, 0x7fff, 0x8000, 0xffff, 0x10000, 0x40000000, 0x7fffffff, 0x80000000, 0x80000001, 0xfffffffe, 0xffffffff)
	case wb.I64:
		add(0, 1, 2, 3, 4, 8, 31, 32, 33, 63, 64, 65, 127, 128, 255, 256, 0x7fffffff, 0x80000000, 0xffffffff, 0x100000000, 0x100000001, 1<<40, 1<<62, 1<<63, 0x7fffffffffffffff, 0xfffffffffffffffe, 0xffffffffffffffff)
	case wb.F32:
		add(0, 0x80000000, 0x3f800000, 0xbf800000, 0x3f000000, 0x40000000, 0x7f800000, 0xff800000, 0x7fc00000, 0x4f000000, 0x00000001)
	case wb.F64:
		add(0, 0x8000000000000000, 0x3ff0000000000000, 0xbff0000000000000, 0x3fe0000000000000, 0x4000000000000000, 0x7ff0000000000000, 0xfff0000000000000, 0x7ff8000000000000, 0x41e0000000000000, 1)
	default:
		out = append(out, v128{0, 0}, v128{^uint64(0), ^uint64(0)}, v128{0x8080808080808080, 0x8080808080808080}, v128{0x0001000100010001, 0x0001000100010001},
			v128{1, 0}, v128{0, 1}, v128{r.Uint64(), r.Uint64()}, v128{0x7f7f7f7f7f7f7f7f, 0x0f0e0d0c0b0a0908})
	}
	return out
}

// ---- execution -------------------------------------------------------------------------------

const maxPosShift = 9

type placement struct {
	name   string
	consts []v128 // operands baked in (nil = taken at run time)
}

func buildModule(o *opInfo, imm []byte, constTuples [][]v128) []byte {
	m := wb.New()
	m.Memory(1, nil, false, "memory")
	var pbody []byte
	for i := range o.params {
		pbody = append(pbody, wb.LocalGet(uint32(i))...)
	}
	pbody = append(pbody, opBody(o, imm)...)
	m.AddFunc(wb.Func{Params: o.params, Results: []byte{o.result}, Body: pbody, Export: "p"})
	var mbody []byte
	for i, p := range o.params {
		mbody = append(mbody, loadOf(p, uint32(16*i))...)
	}
	mbody = append(mbody, opBody(o, imm)...)
	m.AddFunc(wb.Func{Results: []byte{o.result}, Body: mbody, Export: "m"})
	// "spill + merge" placement: the operands are live across a call that happens only in the branch
	// that evaluates the instruction, and stay live after the merge (they are stored afterwards), so
	// they are reloaded from spill slots right at the instruction while the other predecessor of the
	// merge block has already fixed their registers.  This is where multi-instruction lowerings that
	// modify a temporary in place are vulnerable to the register allocator (findings F34, F35).
	// "pressure" placement: 12 extra i64 and 14 extra f64 parameters stay live across the instruction
	// (they are stored afterwards), so that the instruction's own temporaries compete for registers
	{
		ps := append([]byte{}, o.params...)
		for k := 0; k < nExtraInt; k++ {
			ps = append(ps, wb.I64)
		}
		for k := 0; k < nExtraFloat; k++ {
			ps = append(ps, wb.F64)
		}
		np := uint32(len(o.params))
		var b []byte
		for i := range o.params {
			b = append(b, wb.LocalGet(uint32(i))...)
		}
		b = append(b, opBody(o, imm)...)
		b = append(b, wb.LocalSet(np+nExtraInt+nExtraFloat)...)
		for k := uint32(0); k < nExtraInt+nExtraFloat; k++ {
			b = append(b, wb.I32Const(int32(512+8*k))...)
			b = append(b, wb.LocalGet(np+k)...)
			if k < nExtraInt {
				b = append(b, wb.MemArg(wasm.OpcodeI64Store, 3, 0)...)
			} else {
				b = append(b, wb.MemArg(wasm.OpcodeF64Store, 3, 0)...)
			}
		}
		b = append(b, wb.LocalGet(np+nExtraInt+nExtraFloat)...)
		m.AddFunc(wb.Func{Params: ps, Results: []byte{o.result}, Locals: []byte{o.result}, Body: b, Export: "pr"})
	}
	if o.result == wb.I32 {
		// "consumer" placement: the i32 result is not returned but consumed in the same function by instructions
		// that look at the whole value slot / register (comparison with an operand passed at run time, use as a
		// memory address): an unclean upper half of a 32-bit result is invisible in a returned (truncated) value
		np := uint32(len(o.params))
		ps := append(append([]byte{}, o.params...), wb.I32)
		var pre []byte
		for i := range o.params {
			pre = append(pre, wb.LocalGet(uint32(i))...)
		}
		pre = append(pre, opBody(o, imm)...)
		for _, c := range []struct {
			name string
			opc  byte
		}{{"q_ne", wasm.OpcodeI32Ne}, {"q_eq", wasm.OpcodeI32Eq}, {"q_geu", wasm.OpcodeI32GeU}, {"q_leu", wasm.OpcodeI32LeU}, {"q_ges", wasm.OpcodeI32GeS}} {
			m.AddFunc(wb.Func{Params: ps, Results: []byte{wb.I32}, Export: c.name, Body: wb.Cat(pre, wb.LocalGet(np), []byte{c.opc})})
		}
		m.AddFunc(wb.Func{Params: ps, Results: []byte{wb.I32}, Export: "q_eqz", Body: wb.Cat(pre, wb.LocalGet(np), []byte{wasm.OpcodeI32Xor, wasm.OpcodeI32Eqz})})
		// "condition" placement: the result is the condition of a branch / if / select in the same function (with and
		// without a negation in between): instruction selection fuses a single-use comparison into its consumer, and
		// the fused form is a different lowering (flag combinations for float equality with NaN operands, inverted
		// conditions) from the one that materialises 0/1
		m.AddFunc(wb.Func{Params: o.params, Results: []byte{wb.I32}, Export: "k_brif", Body: wb.Cat([]byte{wasm.OpcodeBlock, wb.I32}, wb.I32Const(1), pre, []byte{wasm.OpcodeBrIf, 0, wasm.OpcodeDrop}, wb.I32Const(0), []byte{wasm.OpcodeEnd})})
		m.AddFunc(wb.Func{Params: o.params, Results: []byte{wb.I32}, Export: "k_nbrif", Body: wb.Cat([]byte{wasm.OpcodeBlock, wb.I32}, wb.I32Const(0), pre, []byte{wasm.OpcodeI32Eqz, wasm.OpcodeBrIf, 0, wasm.OpcodeDrop}, wb.I32Const(1), []byte{wasm.OpcodeEnd})})
		m.AddFunc(wb.Func{Params: o.params, Results: []byte{wb.I32}, Export: "k_if", Body: wb.Cat(pre, []byte{wasm.OpcodeIf, wb.I32}, wb.I32Const(1), []byte{wasm.OpcodeElse}, wb.I32Const(0), []byte{wasm.OpcodeEnd})})
		m.AddFunc(wb.Func{Params: o.params, Results: []byte{wb.I32}, Export: "k_nif", Body: wb.Cat(pre, []byte{wasm.OpcodeI32Eqz, wasm.OpcodeIf, wb.I32}, wb.I32Const(0), []byte{wasm.OpcodeElse}, wb.I32Const(1), []byte{wasm.OpcodeEnd})})
		m.AddFunc(wb.Func{Params: o.params, Results: []byte{wb.I32}, Export: "k_sel", Body: wb.Cat(wb.I32Const(1), wb.I32Const(0), pre, []byte{wasm.OpcodeSelect})})
		m.AddFunc(wb.Func{Params: o.params, Results: []byte{wb.I32}, Export: "k_brtab", Body: wb.Cat([]byte{wasm.OpcodeBlock, 0x40, wasm.OpcodeBlock, 0x40}, pre, []byte{wasm.OpcodeBrTable, 1, 0, 1, wasm.OpcodeEnd}, wb.I32Const(0), []byte{wasm.OpcodeReturn, wasm.OpcodeEnd}, wb.I32Const(1))})
		// address use: result + static offset 1 must trap for 0xffffffff and beyond the single page
		m.AddFunc(wb.Func{Params: o.params, Results: []byte{wb.I32}, Export: "q_addr", Body: wb.Cat(pre, wb.MemArg(wasm.OpcodeI32Load8U, 0, 1))})
	}
	// "position" placements: k dummy parameters of the first operand's type precede the operands, so that the
	// operands arrive in (and the instruction is encoded with) each register of the argument sequence in turn - what an
	// encoding does with a register depends on WHICH register it is (byte registers that need a REX prefix, r12/r13
	// in addressing forms, the high xmm registers)
	for k := 1; k <= maxPosShift; k++ {
		ps := make([]byte, 0, k+len(o.params))
		for j := 0; j < k; j++ {
			ps = append(ps, o.params[0])
		}
		ps = append(ps, o.params...)
		var b []byte
		for i := range o.params {
			b = append(b, wb.LocalGet(uint32(k+i))...)
		}
		b = append(b, opBody(o, imm)...)
		m.AddFunc(wb.Func{Params: ps, Results: []byte{o.result}, Body: b, Export: fmt.Sprintf("pos%d", k)})
	}
	nop := m.AddFunc(wb.Func{})
	{
		np := uint32(len(o.params))
		ps := append(append([]byte{}, o.params...), wb.I32)
		var b []byte
		b = append(b, wb.LocalGet(np)...) // c
		b = append(b, wasm.OpcodeIf, 0x40)
		b = append(b, constOf(o.result, v128{})...)
		b = append(b, wb.LocalSet(np+1)...)
		b = append(b, wasm.OpcodeElse)
		b = append(b, wb.Call(nop)...)
		for i := range o.params {
			b = append(b, wb.LocalGet(uint32(i))...)
		}
		b = append(b, opBody(o, imm)...)
		b = append(b, wb.LocalSet(np+1)...)
		b = append(b, wasm.OpcodeEnd)
		for i, p := range o.params {
			b = append(b, wb.I32Const(int32(256+16*i))...)
			b = append(b, wb.LocalGet(uint32(i))...)
			b = append(b, storeOf(p)...)
		}
		b = append(b, wb.LocalGet(np+1)...)
		m.AddFunc(wb.Func{Params: ps, Results: []byte{o.result}, Locals: []byte{o.result}, Body: b, Export: "sp"})
	}
	for k, ct := range constTuples {
		// all operands constant
		var cb []byte
		for i, p := range o.params {
			cb = append(cb, constOf(p, ct[i])...)
		}
		cb = append(cb, opBody(o, imm)...)
		m.AddFunc(wb.Func{Results: []byte{o.result}, Body: cb, Export: fmt.Sprintf("c%d", k)})
		if len(o.params) >= 2 {
			// last operand constant, others parameters
			var pb []byte
			for i := 0; i < len(o.params)-1; i++ {
				pb = append(pb, wb.LocalGet(uint32(i))...)
			}
			pb = append(pb, constOf(o.params[len(o.params)-1], ct[len(o.params)-1])...)
			pb = append(pb, opBody(o, imm)...)
			m.AddFunc(wb.Func{Params: o.params[:len(o.params)-1], Results: []byte{o.result}, Body: pb, Export: fmt.Sprintf("pc%d", k)})
			// first operand constant, others parameters
			var fb []byte
			fb = append(fb, constOf(o.params[0], ct[0])...)
			for i := 1; i < len(o.params); i++ {
				fb = append(fb, wb.LocalGet(uint32(i-1))...)
			}
			fb = append(fb, opBody(o, imm)...)
			m.AddFunc(wb.Func{Params: o.params[1:], Results: []byte{o.result}, Body: fb, Export: fmt.Sprintf("cp%d", k)})
		}
	}
	return m.Bytes()
}

func flat(params []byte, t []v128) []uint64 {
	var out []uint64
	for i, p := range params {
		out = append(out, t[i][0])
		if p == V128 {
			out = append(out, t[i][1])
		}
	}
	return out
}

func trapKind(err error) string {
	s := err.Error()
	switch {
	case strings.Contains(s, "integer divide by zero"):
		return "trap:div0"
	case strings.Contains(s, "integer overflow"):
		return "trap:overflow"
	case strings.Contains(s, "invalid conversion to integer"):
		return "trap:invalid-conversion"
	}
	return "error:" + strings.SplitN(s, "\n", 2)[0]
}

func hexArg(p byte, v v128) string {
	switch p {
	case V128:
		if v[1] == 0 {
			return fmt.Sprintf("%x", v[0])
		}
		return fmt.Sprintf("%x%016x", v[1], v[0])
	case wb.I32, wb.F32:
		return fmt.Sprintf("%x", uint32(v[0]))
	}
	return fmt.Sprintf("%x", v[0])
}

func resString(t byte, res []uint64) string {
	switch t {
	case V128:
		if res[1] == 0 {
			return fmt.Sprintf("v:%x", res[0])
		}
		return fmt.Sprintf("v:%x%016x", res[1], res[0])
	case wb.I32, wb.F32:
		return fmt.Sprintf("v:%x", uint32(res[0]))
	}
	return fmt.Sprintf("v:%x", res[0])
}

func isArithNaN(w int, bits uint64) bool {
	if w == 32 {
		b := uint32(bits)
		return b&0x7f800000 == 0x7f800000 && b&0x007fffff != 0 && b&0x00400000 != 0
	}
	return bits&0x7ff0000000000000 == 0x7ff0000000000000 && bits&0x000fffffffffffff != 0 && bits&0x0008000000000000 != 0
}

func laneOf(res []uint64, w, i int) uint64 {
	bit := i * w
	x := res[bit/64] >> uint(bit%64)
	if w < 64 {
		x &= (1 << uint(w)) - 1
	}
	return x
}

// matches: does the implementation result satisfy the specification answer?
func matches(want string, t byte, got string, res []uint64) bool {
	if want == got {
		return true
	}
	switch {
	case strings.HasPrefix(want, "nan:"):
		if res == nil {
			return false
		}
		w := 32
		if want == "nan:64" {
			w = 64
		}
		return isArithNaN(w, res[0])
	case strings.HasPrefix(want, "l:"):
		if res == nil {
			return false
		}
		parts := strings.SplitN(want, ":", 3)
		var w int
		fmt.Sscanf(parts[1], "%d", &w)
		full := res
		if len(full) == 1 {
			full = []uint64{res[0], 0}
		}
		for i, l := range strings.Split(parts[2], ",") {
			g := laneOf(full, w, i)
			if l == "nan" {
				if !isArithNaN(w, g) {
					return false
				}
				continue
			}
			var v uint64
			fmt.Sscanf(l, "%x", &v)
			if v != g {
				return false
			}
		}
		return true
	}
	return false
}

func sameAcrossEngines(t byte, name string, a string, ra []uint64, b string, rb []uint64) bool {
	if a == b {
		return true
	}
	if ra == nil || rb == nil {
		return false
	}
	// NaN results may differ in payload where the specification leaves them open: compare lane-wise NaN-ness
	ws := []int{}
	switch t {
	case wb.F32:
		ws = []int{32}
	case wb.F64:
		ws = []int{64}
	case V128:
		if strings.HasPrefix(name, "f32x4") {
			ws = []int{32}
		} else if strings.HasPrefix(name, "f64x2") {
			ws = []int{64}
		}
	}
	for _, w := range ws {
		fa, fb := ra, rb
		if len(fa) == 1 {
			fa, fb = []uint64{ra[0], 0}, []uint64{rb[0], 0}
		}
		n := 128 / w
		if t != V128 {
			n = 1
		}
		ok := true
		for i := 0; i < n; i++ {
			x, y := laneOf(fa, w, i), laneOf(fb, w, i)
			if x != y && !(isArithNaN(w, x) && isArithNaN(w, y)) {
				ok = false
			}
		}
		if ok {
			return true
		}
	}
	return false
}

type engine struct {
	name string
	rt   wazero.Runtime
}

func call(mod api.Module, fn string, args []uint64) (string, []uint64) {
	res, err := mod.ExportedFunction(fn).Call(ctx, args...)
	if err != nil {
		return trapKind(err), nil
	}
	return "", res
}

func immsFor(r *rand.Rand, o *opInfo) [][]byte {
	var imms [][]byte
	switch o.immLen {
	case 0:
		imms = [][]byte{nil}
	case 1:
		w, _ := laneInfo(o.name)
		if strings.HasPrefix(o.name, "i64x2") || strings.HasPrefix(o.name, "f64x2") {
			w = 64
		} else if strings.HasPrefix(o.name, "i32x4") || strings.HasPrefix(o.name, "f32x4") {
			w = 32
		} else if strings.HasPrefix(o.name, "i16x8") {
			w = 16
		} else {
			w = 8
		}
		for i := 0; i < 128/w; i++ {
			imms = append(imms, []byte{byte(i)})
		}
	case 16:
		imms = append(imms, []byte{0, 1, 2, 3, 4, 5, 6, 7, 8, 9, 10, 11, 12, 13, 14, 15}, []byte{31, 30, 29, 28, 27, 26, 25, 24, 23, 22, 21, 20, 19, 18, 17, 16},
			[]byte{0, 16, 1, 17, 2, 18, 3, 19, 4, 20, 5, 21, 6, 22, 7, 23}, []byte{0, 0, 0, 0, 31, 31, 31, 31, 15, 15, 16, 16, 7, 24, 8, 23})
		for k := 0; k < 4; k++ {
			b := make([]byte, 16)
			for i := range b {
				b[i] = byte(r.Intn(32))
			}
			imms = append(imms, b)
		}
	}
	return imms
}

func b2s(b bool) string {
	if b {
		return "1"
	}
	return "0"
}

func immString(imm []byte) string {
	if imm == nil {
		return "-"
	}
	var ss []string
	for _, b := range imm {
		ss = append(ss, fmt.Sprint(b))
	}
	return strings.Join(ss, ",")
}

func query(o *opInfo, immStr string, tup []v128) string {
	var q strings.Builder
	if o.params[0] == V128 || o.result == V128 {
		fmt.Fprintf(&q, "c05 v %s %s", o.name, immStr)
	} else {
		fmt.Fprintf(&q, "c05 s %s", o.name)
	}
	for i, p := range o.params {
		q.WriteString(" " + hexArg(p, tup[i]))
	}
	return q.String()
}

// runCombined: the "same function" placement.  All non-trapping instructions that share one parameter
// signature are evaluated in ONE function on the same operands (each result is stored to its own 16-byte
// slot), in several orders.  State that a back end keeps per function (constant pools, cached labels,
// materialised masks, value numbering, register allocation across many live temporaries) is shared
// between the instructions, which a one-instruction-per-function module can never exhibit.
func runCombined(r *rand.Rand, ops []*opInfo, engines []engine, budget int) {
	groups := map[string][]*opInfo{}
	var keys []string
	for _, o := range ops {
		if strings.Contains(o.name, "div_") || strings.Contains(o.name, "rem_") || (strings.Contains(o.name, ".trunc_f") && !strings.Contains(o.name, "sat")) {
			continue // may trap: a trap would hide the other results
		}
		k := string(o.params)
		if _, ok := groups[k]; !ok {
			keys = append(keys, k)
		}
		groups[k] = append(groups[k], o)
	}
	sort.Strings(keys)
	const base = 4096
	for _, k := range keys {
		g := groups[k]
		if len(g) < 2 {
			continue
		}
		params := []byte(k)
		imms := make([][]byte, len(g))
		for i, o := range g {
			c := immsFor(r, o)
			imms[i] = c[len(c)/2]
		}
		norders := 4
		if hx.Thorough() {
			norders = 12
		}
		var orders [][]int
		fwd := make([]int, len(g))
		for i := range fwd {
			fwd[i] = i
		}
		rev := make([]int, len(g))
		for i := range rev {
			rev[i] = len(g) - 1 - i
		}
		orders = append(orders, fwd, rev)
		for len(orders) < norders {
			p := r.Perm(len(g))
			// random orders also drop a random half, so that which instruction comes first varies
			if len(orders)%2 == 1 {
				p = p[:1+len(p)/2]
			}
			orders = append(orders, p)
		}
		m := wb.New()
		m.Memory(1, nil, false, "memory")
		for oi, ord := range orders {
			var b []byte
			for _, gi := range ord {
				o := g[gi]
				b = append(b, wb.I32Const(int32(base+16*gi))...)
				for i := range params {
					b = append(b, wb.LocalGet(uint32(i))...)
				}
				b = append(b, opBody(o, imms[gi])...)
				b = append(b, storeOf(o.result)...)
			}
			m.AddFunc(wb.Func{Params: params, Body: b, Export: fmt.Sprintf("all%d", oi)})
		}
		bin := m.Bytes()
		mods := make([]api.Module, len(engines))
		for i, e := range engines {
			mod, err := safeInstantiate(ctx, e.rt, bin)
			if err != nil {
				rep.Violate(hx.Violation{Kind: "impl-violation", Signature: "C05:compile-fails:combined:" + e.name, What: "engine cannot compile a valid module evaluating several instructions in one function: " + err.Error(), Input: tnames(params)})
				return
			}
			mods[i] = mod
		}
		ts := tuples(r, g[0], budget)
		// tuples() is driven by the first instruction's lane shape; add the other shapes' tuples too
		for _, o := range g[1:] {
			if len(ts) > 40*budget/60+200 {
				break
			}
			if o.name[:3] != g[0].name[:3] {
				more := tuples(r, o, budget)
				if len(more) > 24 {
					more = more[:24]
				}
				ts = append(ts, more...)
			}
		}
		step := 1 + len(ts)/(budget/2+10)
		for ti := 0; ti < len(ts); ti += step {
			tup := ts[ti]
			wants := make([]string, len(g))
			qs := make([]string, len(g))
			for gi, o := range g {
				qs[gi] = query(o, immString(imms[gi]), tup)
				wants[gi] = orc.Ask(qs[gi])
			}
			for oi, ord := range orders {
				fn := fmt.Sprintf("all%d", oi)
				results := make([][][]uint64, len(engines))
				for ei, e := range engines {
					mods[ei].Memory().Write(base, make([]byte, 16*len(g)))
					if s, _ := call(mods[ei], fn, flat(params, tup)); s != "" {
						rep.Violate(hx.Violation{Kind: "impl-violation", Signature: "C05:combined-function-fails:" + e.name, What: fmt.Sprintf("function evaluating %d non-trapping instructions on %s failed: %s", len(ord), tnames(params), s), Input: fn})
						continue
					}
					results[ei] = make([][]uint64, len(g))
					for _, gi := range ord {
						o := g[gi]
						buf, _ := mods[ei].Memory().Read(uint32(base+16*gi), 16)
						res := []uint64{binary.LittleEndian.Uint64(buf), binary.LittleEndian.Uint64(buf[8:])}
						switch o.result {
						case wb.I32, wb.F32:
							res = []uint64{uint64(uint32(res[0]))}
						case wb.I64, wb.F64:
							res = res[:1]
						}
						results[ei][gi] = res
						got := resString(o.result, res)
						if wants[gi] != "unsupported" && !matches(wants[gi], o.result, got, res) {
							rep.Violate(hx.Violation{Kind: "impl-violation", Signature: fmt.Sprintf("C05:wrong-result-in-shared-function:%s:%s", o.name, e.name),
								What:  fmt.Sprintf("%s (imm %s) evaluated in one function together with %d other instructions (order %d) on %s: got %s, the specification requires %s", o.name, immString(imms[gi]), len(ord)-1, oi, e.name, got, wants[gi]),
								Input: qs[gi], Expected: wants[gi], Actual: got})
						}
					}
				}
				if len(engines) == 2 && results[0] != nil && results[1] != nil {
					for _, gi := range ord {
						o := g[gi]
						a, b := resString(o.result, results[0][gi]), resString(o.result, results[1][gi])
						if !sameAcrossEngines(o.result, o.name, a, results[0][gi], b, results[1][gi]) {
							rep.Violate(hx.Violation{Kind: "impl-violation", Signature: "C05:engines-differ-in-shared-function:" + o.name,
								What: fmt.Sprintf("%s (imm %s) evaluated in one function with %d other instructions (order %d): %s=%s %s=%s", o.name, immString(imms[gi]), len(ord)-1, oi, engines[0].name, a, engines[1].name, b), Input: qs[gi]})
						}
					}
				}
				rep.Case(fmt.Sprintf("combined/%s/%d/%v", tnames(params), oi, tup))
			}
		}
		rep.Count(fmt.Sprintf("combined-group:%s:%dops", tnames(params), len(g)))
		for _, md := range mods {
			md.Close(ctx)
		}
	}
}

func tnames(ps []byte) string {
	var ss []string
	for _, p := range ps {
		ss = append(ss, tname(p))
	}
	return strings.Join(ss, ",")
}

func runOp(r *rand.Rand, o *opInfo, engines []engine, budget int) {
	imms := immsFor(r, o)
	unsupported := false
	for _, imm := range imms {
		ts := tuples(r, o, budget)
		// constant placements: every value of the per-type constant set in the last and in the first operand
		// position (immediates, strength reduction and constant folding are decided at compile time)
		var cts [][]v128
		{
			last, first := o.params[len(o.params)-1], o.params[0]
			for k, c := range constSet(r, last) {
				t := append([]v128{}, ts[(k*7919)%len(ts)]...)
				t[len(t)-1] = c
				cts = append(cts, t)
			}
			if len(o.params) >= 2 {
				for k, c := range constSet(r, first) {
					t := append([]v128{}, ts[(k*104729)%len(ts)]...)
					t[0] = c
					cts = append(cts, t)
				}
			}
		}
		bin := buildModule(o, imm, cts)
		mods := make([]api.Module, len(engines))
		for i, e := range engines {
			mod, err := safeInstantiate(ctx, e.rt, bin)
			if err != nil {
				rep.Violate(hx.Violation{Kind: "impl-violation", Signature: "C05:compile-fails:" + o.name + ":" + e.name, What: "engine cannot compile a valid one-instruction module: " + err.Error(), Input: o.name})
				return
			}
			mods[i] = mod
		}
		immStr := immString(imm)
		check := func(place string, tup []v128, fn string, args []uint64, viaMem bool) {
			q := query(o, immStr, tup)
			want := orc.Ask(q)
			if want == "unsupported" {
				unsupported = true
			}
			var outs []string
			var ress [][]uint64
			for i, e := range engines {
				if viaMem {
					buf := make([]byte, 16*len(o.params))
					for k := range o.params {
						binary.LittleEndian.PutUint64(buf[16*k:], tup[k][0])
						binary.LittleEndian.PutUint64(buf[16*k+8:], tup[k][1])
					}
					mods[i].Memory().Write(0, buf)
				}
				s, res := call(mods[i], fn, args)
				if res != nil && e.name == "interpreter" && (o.result == wb.I32 || o.result == wb.F32) && res[0]>>32 != 0 {
					// (the compiler's dirty upper halves are the known finding F24 of C08; the interpreter keeps 32-bit
					// values zero-extended in 64-bit slots and its own instructions rely on that)
					rep.Violate(hx.Violation{Kind: "impl-violation", Signature: fmt.Sprintf("C05:interpreter-32-bit-result-not-zero-extended:%s", o.name),
						What: fmt.Sprintf("%s (%s operands) on the interpreter returns the slot %#x: upper half not zero", o.name, place, res[0]), Input: o.name})
				}
				if res != nil {
					s = resString(o.result, res)
				}
				outs = append(outs, s)
				ress = append(ress, res)
				if want != "unsupported" && !matches(want, o.result, s, res) {
					rep.Violate(hx.Violation{Kind: "impl-violation", Signature: fmt.Sprintf("C05:wrong-result:%s:%s", o.name, e.name),
						What:  fmt.Sprintf("%s (%s operands, imm %s) on %s: got %s, the specification requires %s", o.name, place, immStr, e.name, s, want),
						Input: q, Expected: want, Actual: s})
				}
			}
			if len(engines) == 2 && !sameAcrossEngines(o.result, o.name, outs[0], ress[0], outs[1], ress[1]) {
				rep.Violate(hx.Violation{Kind: "impl-violation", Signature: "C05:engines-differ:" + o.name,
					What: fmt.Sprintf("%s (%s operands, imm %s): %s=%s %s=%s", o.name, place, immStr, engines[0].name, outs[0], engines[1].name, outs[1]), Input: q})
			}
			rep.Case(o.name + "/" + place + "/" + q)
		}
		consumers := func(tup []v128) {
			q := query(o, immStr, tup)
			want := orc.Ask(q)
			if !strings.HasPrefix(want, "v:") {
				return // trap or not modelled
			}
			var w uint64
			fmt.Sscanf(want[2:], "%x", &w)
			w32 := uint32(w)
			for i, e := range engines {
				for _, c := range []struct {
					fn   string
					z    uint32
					want string // "" = trap expected
				}{{"q_ne", w32, "0"}, {"q_eq", w32, "1"}, {"q_geu", w32, "1"}, {"q_leu", w32, "1"}, {"q_ges", w32, "1"}, {"q_eqz", w32, "1"},
					{"q_ne", w32 ^ 0x80000000, "1"}, {"q_geu", 0xffffffff, b2s(w32 == 0xffffffff)}, {"q_leu", 0, b2s(w32 == 0)}} {
					s, res := call(mods[i], c.fn, append(flat(o.params, tup), uint64(c.z)))
					got := s
					if res != nil {
						got = fmt.Sprint(uint32(res[0]))
					}
					rep.Case(o.name + "/consumer/" + c.fn + "/" + q)
					if got != c.want {
						rep.Violate(hx.Violation{Kind: "impl-violation", Signature: fmt.Sprintf("C05:wrong-result-when-consumed:%s:%s", o.name, e.name),
							What:  fmt.Sprintf("%s on %s: the specification gives %#x, but %s applied to the result and %#x in the same function answers %s (expected %s): the value the instruction leaves behind is not the canonical 32-bit value", o.name, e.name, w32, c.fn[2:], c.z, got, c.want),
							Input: q + " ; " + c.fn, Expected: c.want, Actual: got})
					}
				}
				for _, fn := range []string{"k_brif", "k_nbrif", "k_if", "k_nif", "k_sel", "k_brtab"} {
					s, res := call(mods[i], fn, flat(o.params, tup))
					got := s
					if res != nil {
						got = fmt.Sprint(uint32(res[0]))
					}
					rep.Case(o.name + "/condition/" + fn + "/" + q)
					if got != b2s(w32 != 0) {
						rep.Violate(hx.Violation{Kind: "impl-violation", Signature: fmt.Sprintf("C05:wrong-result-as-condition:%s:%s", o.name, e.name),
							What:  fmt.Sprintf("%s on %s: the specification gives %#x, but used as the condition of %s in the same function it acts as %s (1 = non-zero)", o.name, e.name, w32, fn[2:], got),
							Input: q + " ; " + fn, Expected: b2s(w32 != 0), Actual: got})
					}
				}
				// as an address with static offset 1 in a one-page memory
				s, res := call(mods[i], "q_addr", flat(o.params, tup))
				inRange := uint64(w32)+1 < 65536
				if inRange != (res != nil) {
					rep.Violate(hx.Violation{Kind: "impl-violation", Signature: fmt.Sprintf("C05:wrong-result-when-consumed:%s:%s", o.name, e.name),
						What:  fmt.Sprintf("%s on %s: result %#x used as the address of i32.load8_u offset=1 in a one-page memory: in range = %v, but the access ended with %q / %v", o.name, e.name, w32, inRange, s, res),
						Input: q + " ; q_addr"})
				}
			}
		}
		for k, tup := range ts {
			check("param", tup, "p", flat(o.params, tup), false)
			check("memory", tup, "m", nil, true)
			if o.result == wb.I32 {
				consumers(tup)
			}
			if k%3 == 0 {
				check("spill+merge", tup, "sp", append(flat(o.params, tup), 0), false)
			}
			{
				sh := 1 + k%maxPosShift
				var args []uint64
				dummy := v128{0x5a5a5a5a5a5a5a5a, 0xa5a5a5a5a5a5a5a5}
				if o.params[0] == wb.I32 || o.params[0] == wb.F32 {
					dummy = v128{0x5a5a5a5a, 0}
				}
				for j := 0; j < sh; j++ {
					args = append(args, flat(o.params[:1], []v128{dummy})...)
				}
				check(fmt.Sprintf("position+%d", sh), tup, fmt.Sprintf("pos%d", sh), append(args, flat(o.params, tup)...), false)
			}
			if k%5 == 0 {
				args := flat(o.params, tup)
				for x := 0; x < nExtraInt+nExtraFloat; x++ {
					args = append(args, uint64(0x1111111111111111)*uint64(x+1))
				}
				check("pressure", tup, "pr", args, false)
			}
		}
		for k, ct := range cts {
			check("const", ct, fmt.Sprintf("c%d", k), nil, false)
			if len(o.params) >= 2 {
				// vary the leading operands over the tuples, last operand fixed
				for j := 0; j < len(ts); j += 1 + len(ts)/12 {
					tup := append(append([]v128{}, ts[j][:len(o.params)-1]...), ct[len(o.params)-1])
					check("param+const", tup, fmt.Sprintf("pc%d", k), flat(o.params[:len(o.params)-1], tup), false)
					tup2 := append([]v128{ct[0]}, ts[j][1:]...)
					check("const+param", tup2, fmt.Sprintf("cp%d", k), flat(o.params[1:], tup2[1:]), false)
				}
			}
		}
		for _, m := range mods {
			m.Close(ctx)
		}
	}
	if unsupported {
		rep.Count("op-not-in-spec-model")
		rep.Note("not modelled by the Lean specification (engines compared with each other only): %s", o.name)
	} else {
		rep.Count("op-vs-spec")
	}
}

func main() {
	only := flag.String("only", "", "restrict to ops whose name contains this")
	flag.Parse()
	orc = hx.StartOracle()
	defer orc.Close()
	rep = hx.NewReport("C05", "every numeric opcode in wazero's scalar/misc/vector name tables (signature discovered through the real validator) x placements {params, memory operands, constants, param+const} x operand tuples: cross product of per-type boundary sets (integer edges, float exponent edges, subnormals, signed zeros, infinities, quiet/signalling NaNs, conversion boundaries +-1ulp; 8-bit lanes exhaustive pairs) plus seeded random; distinct = distinct (op, placement, operand tuple)")
	r := hx.Rand()
	fe := api.CoreFeaturesV2
	interp = wazero.NewRuntimeWithConfig(ctx, wazero.NewRuntimeConfigInterpreter().WithCoreFeatures(fe))
	comp = wazero.NewRuntimeWithConfig(ctx, wazero.NewRuntimeConfigCompiler().WithCoreFeatures(fe))
	engines := []engine{{"interpreter", interp}, {"compiler", comp}}
	ops := allOps()
	sort.SliceStable(ops, func(i, j int) bool { return ops[i].name < ops[j].name })
	budget := 60
	if hx.Thorough() {
		budget = 5000
	}
	n := 0
	var sel []*opInfo
	for _, o := range ops {
		if *only != "" && !strings.Contains(o.name, *only) {
			continue
		}
		runOp(r, o, engines, budget)
		sel = append(sel, o)
		n++
	}
	runCombined(r, sel, engines, budget)
	rep.Count(fmt.Sprintf("opcodes:%d", n))
	rep.Sample(map[string]any{"op": "i32.div_s", "query": "c05 s i32.div_s 80000000 ffffffff", "spec": "trap:overflow"})
	rep.Write(orc)
}

// safeInstantiate: a Go panic escaping CompileModule / InstantiateModule is reported like a compile error.
func safeInstantiate(ctx context.Context, rt wazero.Runtime, bin []byte) (m api.Module, err error) {
	defer func() {
		if r := recover(); r != nil {
			err = fmt.Errorf("Go panic: %v", r)
		}
	}()
	return rt.InstantiateWithConfig(ctx, bin, wazero.NewModuleConfig().WithName(""))
}
