package main

// Case generation for hc15: per-parameter boundary sets (classified by the parameter names the host
// module itself declares), base tuples, one-at-a-time and pairwise variation, and seeded random tuples.

import (
	"math/rand"
	"sort"
	"strings"

	"github.com/tetratelabs/wazero/api"
)

const S = memSize

var (
	ptrSet = []uint64{0, 8, 128, 1024, 1072, 2048, 2064, 2080, 2096, 2112, 2144, 2160, 4096, 8192,
		S - 64, S - 48, S - 32, S - 24, S - 16, S - 8, S - 5, S - 4, S - 1, S, S + 1,
		1 << 31, 1<<32 - 48, 1<<32 - 8, 1<<32 - 4, 1<<32 - 1}
	lenSet = []uint64{0, 1, 2, 3, 4, 5, 8, 11, 16, 23, 24, 25, 47, 48, 64, 256, 1365, 1366, 4096,
		S - 1, S, S + 1, 1 << 27, 1<<27 + 1, 1 << 28, 1<<28 + 1, 1<<28 + 2, 1<<28 + 1365, 3 << 28, 15 << 28, 15<<28 + 1,
		1 << 29, 1<<29 + 1, 1<<29 + 2, 1<<29 + 8, 1 << 30, 1<<30 + 1, 1 << 31, 1<<31 + 1,
		0xAAAAAAB, 0xAAAAAAC, 1<<32 - 2, 1<<32 - 1}
	fdSet    = []uint64{0, 1, 2, 3, 4, 5, 6, 7, 63, 64, 65, 1000, 0x7fffffff, 0x80000000, 0xfffffffe, 0xffffffff}
	toSet    = []uint64{0, 1, 2, 3, 4, 5, 6, 7, 63, 64, 65, 1000, 0x80000000, 0xfffffffe, 0xffffffff}
	toProbes = []uint64{1 << 16, 1 << 20, 1 << 24, 0x7fffffff}
	i64Set   = []uint64{0, 1, 2, 10, 11, 1<<31 - 1, 1 << 31, 1<<32 - 1, 1 << 32, 1 << 62, 1<<63 - 1, 1 << 63, 1<<63 + 1, 1<<64 - 2, 1<<64 - 1}
	flagSet  = []uint64{0, 1, 2, 3, 4, 5, 6, 7, 8, 15, 16, 0xff, 0x100, 0xffff, 0x10000, 0x7fffffff, 0x80000000, 0xffffffff}
	// reduced sets for the pairwise products of the quick tier
	ptrSetQ = []uint64{0, 1024, 2048, 4096, S - 48, S - 8, S - 4, S - 1, S, 1 << 31, 1<<32 - 8, 1<<32 - 1}
	lenSetQ = []uint64{0, 1, 2, 5, 8, 24, 48, 4096, S, S + 1, 1 << 27, 1 << 28, 1<<28 + 1, 1<<28 + 2, 15<<28 + 1,
		1 << 29, 1<<29 + 1, 1 << 30, 1 << 31, 0xAAAAAAB, 1<<32 - 1}
	fdSetQ    = []uint64{0, 1, 3, 4, 5, 6, 7, 64, 0x7fffffff, 0xffffffff}
	ptrNames  = map[string]bool{"iovs": true, "path": true, "buf": true, "in": true, "out": true, "argv": true, "argv_buf": true, "environ": true, "environ_buf": true, "old_path": true, "new_path": true, "ri_data": true, "si_data": true}
	fdNames   = map[string]bool{"fd": true, "old_fd": true, "new_fd": true, "to": true}
	baseByPtr = map[string]uint64{"iovs": offIovA, "ri_data": offIovA, "si_data": offIovA, "in": offSubs, "out": 4096, "path": 2048, "old_path": 2048, "new_path": 2160, "buf": 8192, "argv": 8192, "argv_buf": 8300, "environ": 8192, "environ_buf": 8300}
	baseByLen = map[string]uint64{"iovs_len": 2, "ri_data_len": 2, "si_data_len": 2, "path_len": 5, "old_path_len": 5, "new_path_len": 3, "buf_len": 256, "nsubscriptions": 3, "result.path_len": 1}
)

type param struct {
	name string
	kind string // ptr | len | fd | i64 | flag
	set  []uint64
	base uint64
}

type fnSpec struct {
	name   string
	params []param
}

func classify(defs map[string]api.FunctionDefinition) []fnSpec {
	names := make([]string, 0, len(defs))
	for n := range defs {
		names = append(names, n)
	}
	sort.Strings(names)
	var out []fnSpec
	for _, n := range names {
		d := defs[n]
		fs := fnSpec{name: n}
		pn := d.ParamNames()
		for i, t := range d.ParamTypes() {
			name := ""
			if i < len(pn) {
				name = pn[i]
			}
			p := param{name: name}
			switch {
			case t == api.ValueTypeI64:
				p.kind, p.set = "i64", i64Set
				if name == "len" {
					p.base = 10
				}
			case strings.HasSuffix(name, "_len") || name == "nsubscriptions":
				p.kind, p.set, p.base = "len", lenSet, baseByLen[name]
			case strings.HasPrefix(name, "result."):
				p.kind, p.set, p.base = "ptr", ptrSet, uint64(16384+64*i)
			case ptrNames[name]:
				p.kind, p.set, p.base = "ptr", ptrSet, baseByPtr[name]
			case name == "to":
				p.kind, p.set, p.base = "fd", toSet, 7
			case fdNames[name]:
				p.kind, p.set, p.base = "fd", fdSet, 4
			default:
				p.kind, p.set = "flag", flagSet
				if name == "how" {
					p.base = 1
				}
			}
			fs.params = append(fs.params, p)
		}
		out = append(out, fs)
	}
	return out
}

// sockStateOK: this sandbox can bind and connect a loopback TCP port (probed by the parent).
var sockStateOK bool

func (f fnSpec) fdParams() (idx []int) {
	for i, p := range f.params {
		if p.kind == "fd" && p.name != "to" {
			idx = append(idx, i)
		}
	}
	return
}

func (f fnSpec) baseTuples() [][]uint64 {
	var fdIdx []int
	for i, p := range f.params {
		if p.kind == "fd" && p.name != "to" {
			fdIdx = append(fdIdx, i)
		}
	}
	mk := func(fd uint64) []uint64 {
		a := make([]uint64, len(f.params))
		for i, p := range f.params {
			a[i] = p.base
		}
		for _, i := range fdIdx {
			a[i] = fd
		}
		return a
	}
	if len(fdIdx) == 0 {
		return [][]uint64{mk(0)}
	}
	var out [][]uint64
	for _, fd := range []uint64{0, 1, 3, 4, 5} {
		out = append(out, mk(fd))
	}
	return out
}

var states = []string{"bare", "dir", "hole"}

func imgFor(k int, r *rand.Rand) string {
	switch k % 6 {
	case 0, 1, 2:
		return "struct"
	case 3:
		return "zero"
	case 4:
		return "ff"
	}
	return "rand:" + itoa(r.Intn(1000))
}

func itoa(n int) string {
	if n == 0 {
		return "0"
	}
	s := ""
	for n > 0 {
		s = string(rune('0'+n%10)) + s
		n /= 10
	}
	return s
}

func quickSet(p param) []uint64 {
	switch {
	case p.kind == "ptr":
		return ptrSetQ
	case p.kind == "len":
		return lenSetQ
	case p.kind == "fd" && p.name != "to":
		return fdSetQ
	}
	return p.set
}

func clone(a []uint64) []uint64 { return append([]uint64{}, a...) }

// genCases builds the case list for one function.
func genCases(f fnSpec, thorough bool, r *rand.Rand) []Case {
	var cs []Case
	add := func(args []uint64, state, img, engine, tag string) {
		cs = append(cs, Case{Fn: f.name, Args: args, State: state, Img: img, Engine: engine, Tag: tag})
	}
	bases := f.baseTuples()
	engines := []string{"interpreter", "compiler"}
	// base tuples + singles: every state, three images, both engines
	for _, st := range states {
		for _, img := range []string{"struct", "zero", "ff"} {
			for bi, b := range bases {
				if !thorough && img != "struct" && bi != min(3, len(bases)-1) {
					continue // quick tier: zero/ff images only around one base tuple
				}
				for _, e := range engines {
					add(clone(b), st, img, e, "base")
				}
				for i, p := range f.params {
					for _, v := range p.set {
						a := clone(b)
						a[i] = v
						e := "interpreter"
						if img == "struct" && (thorough || st == "dir") {
							add(clone(a), st, img, "compiler", "single")
						}
						add(a, st, img, e, "single")
					}
				}
			}
		}
	}
	// descriptor-table state "sock" (a pre-opened listener at 3, an accepted connection at 4): every function that
	// takes a descriptor, around both socket descriptors, every parameter over its boundary set; poll_oneoff is left
	// out (a read subscription on an idle socket without a clock subscription waits for ever, by design)
	if sockStateOK && len(f.fdParams()) > 0 && (strings.HasPrefix(f.name, "sock_") || strings.HasPrefix(f.name, "fd_")) {
		for _, fd := range []uint64{3, 4} {
			b := make([]uint64, len(f.params))
			for i, p := range f.params {
				b[i] = p.base
			}
			for _, i := range f.fdParams() {
				b[i] = fd
			}
			for _, e := range engines {
				add(clone(b), "sock", "struct", e, "sock-base")
			}
			for i, p := range f.params {
				set := p.set
				if !thorough {
					set = quickSet(p)
				}
				for k, v := range set {
					a := clone(b)
					a[i] = v
					add(a, "sock", "struct", engines[k%2], "sock-single")
				}
			}
		}
	}
	// many valid, large, overlapping iovecs (image iovflood): what the host does per call must stay proportional to the
	// guest memory whatever the NUMBER of buffers is (each one is in bounds; their sum is not bounded by the memory)
	for i, p := range f.params {
		if p.name != "iovs" && p.name != "ri_data" && p.name != "si_data" {
			continue
		}
		for _, fd := range []uint64{0, 1, 2, 4} {
			for _, n := range []uint64{1, 2, 3, 64, 1024, S/8 - 1, S / 8} {
				for _, st := range []string{"bare", "dir"} {
					a := make([]uint64, len(f.params))
					for k, q := range f.params {
						a[k] = q.base
					}
					for _, k := range f.fdParams() {
						a[k] = fd
					}
					a[i] = 0
					if i+1 < len(a) {
						a[i+1] = n // the length parameter follows the pointer
					}
					add(a, st, "iovflood", engines[int(n)%2], "iovflood")
				}
			}
		}
	}
	cs = append(cs, scenarioCases(f, thorough)...)
	// fd_renumber allocation probes (moderately large keys + the 2^31-1 case; guarded child only)
	if f.name == "fd_renumber" {
		for _, st := range []string{"dir", "hole"} {
			for _, v := range toProbes {
				add([]uint64{4, v}, st, "struct", "interpreter", "probe")
			}
		}
	}
	// pairs
	k := 0
	for i := 0; i < len(f.params); i++ {
		for j := i + 1; j < len(f.params); j++ {
			pi, pj := f.params[i], f.params[j]
			core := func(p param) bool { return p.kind == "ptr" || p.kind == "len" || p.kind == "fd" }
			if !thorough && !(core(pi) && core(pj)) {
				continue
			}
			for bi, b := range bases {
				if !thorough && bi > 2 && !(pi.kind == "fd" || pj.kind == "fd") {
					// quick tier: fewer base tuples for pure pointer/length pairs
					if bi != 3 {
						continue
					}
				}
				if (pi.kind == "fd" && pi.name != "to") || (pj.kind == "fd" && pj.name != "to") {
					if bi > 0 {
						continue // the fd is being varied anyway
					}
				}
				si, sj := pi.set, pj.set
				if !thorough {
					si, sj = quickSet(pi), quickSet(pj)
				}
				for _, vi := range si {
					for _, vj := range sj {
						a := clone(b)
						a[i], a[j] = vi, vj
						k++
						add(a, states[k%3], imgFor(k/3, r), "interpreter", "pair")
					}
				}
			}
		}
	}
	// random tuples
	n := 150
	if thorough {
		n = 2500
	}
	if len(f.params) == 0 {
		n = 4
	}
	for q := 0; q < n; q++ {
		a := make([]uint64, len(f.params))
		for i, p := range f.params {
			switch x := r.Intn(10); {
			case x < 6:
				a[i] = p.set[r.Intn(len(p.set))]
			case x < 8:
				a[i] = p.base
			case x == 8:
				a[i] = uint64(r.Intn(S + 64))
			default:
				if p.kind == "i64" {
					a[i] = r.Uint64()
				} else {
					a[i] = uint64(r.Uint32())
				}
			}
			if p.name == "to" && a[i] < 1<<31 && a[i] > 1<<16 {
				a[i] &= 0xffff // large targets are probed separately (allocation)
			}
		}
		e := "interpreter"
		if q%4 == 3 {
			e = "compiler"
		}
		add(a, states[r.Intn(3)], imgFor(r.Intn(6), r), e, "random")
	}
	return cs
}

// scenarioCases: tuples that reach the successful paths of the file-system and socket functions (an existing file, the
// symbolic link, the sub-directory, a pending connection, a directory stream that has been read before), combined
// with result pointers / buffer lengths at the edges of the memory.
func scenarioCases(f fnSpec, thorough bool) []Case {
	var cs []Case
	idx := map[string]int{}
	for i, p := range f.params {
		idx[p.name] = i
	}
	base := func(fd uint64) []uint64 {
		a := make([]uint64, len(f.params))
		for i, p := range f.params {
			a[i] = p.base
		}
		for _, i := range f.fdParams() {
			a[i] = fd
		}
		return a
	}
	add := func(a []uint64, state string, k int) {
		cs = append(cs, Case{Fn: f.name, Args: a, State: state, Img: "struct", Engine: []string{"interpreter", "compiler"}[k%2], Tag: "scenario"})
	}
	k := 0
	edge := []uint64{16384, S - 64, S - 8, S - 5, S - 4, S - 3, S - 1, S, 1<<32 - 4}
	switch {
	case strings.HasPrefix(f.name, "path_") && f.name != "path_rename" && f.name != "path_link" && f.name != "path_symlink":
		pi, li := idx["path"], idx["path_len"]
		for _, st := range []string{"dir", "hole"} {
			for _, fd := range []uint64{3, 5, 4} {
				if st == "hole" && fd == 5 {
					continue
				}
				for _, pt := range pathTable {
					for _, dl := range []int{0, -1, 1} {
						a := base(fd)
						a[pi], a[li] = uint64(pt.off), uint64(len(pt.s)+dl)
						k++
						add(clone(a), st, k)
						switch f.name {
						case "path_open":
							for _, of := range []uint64{1, 2, 3, 4, 5, 8, 9, 0xffff} {
								b := clone(a)
								b[idx["oflags"]] = of
								k++
								add(b, st, k)
							}
							if dl == 0 {
								for _, r := range edge {
									b := clone(a)
									b[idx["result.opened_fd"]] = r
									k++
									add(b, st, k)
								}
								for _, fl := range []uint64{1, 4, 0xffff} {
									b := clone(a)
									b[idx["dirflags"]], b[idx["fdflags"]] = 1, fl
									b[idx["fs_rights_base"]] = 0x42
									k++
									add(b, st, k)
								}
							}
						case "path_filestat_get":
							for _, r := range edge {
								for _, fl := range []uint64{0, 1} {
									b := clone(a)
									b[idx["result.filestat"]], b[idx["flags"]] = r, fl
									k++
									add(b, st, k)
								}
							}
						case "path_readlink":
							for _, bl := range []uint64{1, 4, 5, 6, 256, S, 1<<32 - 1} {
								for _, bp := range []uint64{8192, S - 6, S - 5, S - 4, S - 1, S} {
									b := clone(a)
									b[idx["buf"]], b[idx["buf_len"]] = bp, bl
									k++
									add(b, st, k)
								}
							}
							if dl == 0 {
								for _, r := range edge {
									b := clone(a)
									b[idx["result.bufused"]] = r
									k++
									add(b, st, k)
								}
							}
						case "path_filestat_set_times":
							for _, fl := range []uint64{0, 1} {
								for _, fst := range []uint64{0, 1, 2, 4, 8, 5, 10, 3, 12} {
									b := clone(a)
									b[idx["flags"]], b[idx["fst_flags"]] = fl, fst
									k++
									add(b, st, k)
								}
							}
						}
					}
				}
			}
		}
	case f.name == "path_rename" || f.name == "path_link" || f.name == "path_symlink":
		oi, ol, ni, nl := idx["old_path"], idx["old_path_len"], idx["new_path"], idx["new_path_len"]
		for _, fd := range []uint64{3, 5} {
			for _, po := range pathTable {
				for _, pn := range pathTable {
					a := base(fd)
					a[oi], a[ol], a[ni], a[nl] = uint64(po.off), uint64(len(po.s)), uint64(pn.off), uint64(len(pn.s))
					k++
					add(a, "dir", k)
				}
			}
		}
	case f.name == "fd_readdir":
		// a directory stream that has been read to its end before (state dirread): cookies inside, at and beyond the
		// stream; buffer lengths around every entry boundary of both listings
		lens := []uint64{0, 23, 24, 25, 26, 48, 49, 50, 51, 52, 74, 75, 76, 77, 80, 98, 99, 100, 101, 104, 105, 106, 128, 129, 130, 131, 132, 133, 134, 256, S, 1 << 28, 1<<32 - 1}
		for _, st := range []string{"dirread", "dir"} {
			for _, fd := range []uint64{3, 5, 4} {
				for _, ck := range []uint64{0, 1, 2, 3, 4, 5, 6, 7, 1 << 32, 1 << 63, 1<<64 - 1} {
					for _, l := range lens {
						if !thorough && st == "dir" && ck > 1 && l != 256 {
							continue
						}
						a := base(fd)
						a[idx["cookie"]], a[idx["buf_len"]] = ck, l
						k++
						add(clone(a), st, k)
						if l == 133 || l == 76 || l == 256 {
							for _, bp := range []uint64{S - 134, S - 133, S - 132, S - 76, S - 75, S - 24, S - 1, S} {
								b := clone(a)
								b[idx["buf"]] = bp
								k++
								add(b, st, k)
							}
							for _, r := range edge {
								b := clone(a)
								b[idx["result.bufused"]] = r
								k++
								add(b, st, k)
							}
						}
					}
				}
			}
		}
	case f.name == "fd_read" || f.name == "fd_pread":
		// an iovec buffer that covers a later entry of the same iovec array, filled from a file whose bytes are an iovec
		for _, st := range []string{"alias", "dir"} {
			for _, fd := range []uint64{6, 4, 0} {
				for _, n := range []uint64{1, 2, 3} {
					for _, p := range []uint64{offIovC, offIovB} {
						a := base(fd)
						a[idx["iovs"]], a[idx["iovs_len"]] = p, n
						k++
						add(a, st, k)
					}
				}
			}
		}
	case f.name == "sock_accept" && sockStateOK:
		// a connection is pending on the listener (state sockp)
		for _, fd := range []uint64{3, 4, 0, 5} {
			for _, fl := range []uint64{0, 4, 0xffff} {
				for _, r := range append([]uint64{64}, edge...) {
					a := base(fd)
					a[idx["flags"]], a[idx["result.fd"]] = fl, r
					k++
					add(a, "sockp", k)
				}
			}
		}
	case (f.name == "sock_recv" || f.name == "sock_send") && sockStateOK:
		fl := "ri_flags"
		ln, dp := "ri_data_len", "ri_data"
		if f.name == "sock_send" {
			fl, ln, dp = "si_flags", "si_data_len", "si_data"
		}
		for _, fd := range []uint64{4, 3} {
			for _, flag := range []uint64{0, 1, 2, 3, 4, 0x101} {
				for _, n := range []uint64{0, 1, 2, 3, 4, 5, 8, 1 << 29, 1<<29 + 1} {
					for _, p := range []uint64{offIovA, 8, 24, offIovB, S - 8, S - 4, 1<<32 - 4} {
						a := base(fd)
						a[idx[fl]], a[idx[ln]], a[idx[dp]] = flag, n, p
						k++
						add(clone(a), "sock", k)
						if p == offIovA && n <= 2 {
							for _, r := range edge {
								b := clone(a)
								b[len(b)-1] = r
								k++
								add(b, "sock", k)
								if f.name == "sock_recv" {
									c := clone(a)
									c[idx["result.ro_datalen"]] = r
									k++
									add(c, "sock", k)
								}
							}
						}
					}
				}
			}
		}
	}
	return cs
}
