package main

// Other-mounts stage (tie C, direct monitor).  The cases of the main sweep reach the file system through WithDirMount,
// where the host kernel refuses many argument combinations before wazero's own checks run (open(2) answers ENOTDIR for
// O_DIRECTORY on a regular file, EISDIR, ...).  A pre-open backed by an fs.FS (fstest.MapFS, os.DirFS through
// WithFSMount), by a read-only directory mount or by an adapted sys.FS takes wazero's own branches - including the ones
// that have to UNDO a half-done open.  For every kind of mount and both engines: path_open over every oflags value x
// lookup flags x descriptor flags x paths of every kind; after each call the descriptor table is dumped: a call that
// does not answer errno 0 must leave it exactly as it was, a call that answers 0 must have added exactly one entry at
// the lowest free descriptor and reported that number (it is closed again before the next call).

import (
	"context"
	"fmt"
	"os"
	"path/filepath"
	"strings"
	"testing/fstest"

	"github.com/tetratelabs/wazero"
	expsysfs "github.com/tetratelabs/wazero/experimental/sysfs"
	"github.com/tetratelabs/wazero/imports/wasi_snapshot_preview1"
	"github.com/tetratelabs/wazero/internal/wasm"
	"github.com/tetratelabs/wazero/verifharness/hx"
)

func otherMountsStage() {
	ctx := context.Background()
	dir := filepath.Join(*hx.Work, "c15-mounts")
	os.RemoveAll(dir)
	if err := os.MkdirAll(filepath.Join(dir, "d"), 0o755); err != nil {
		hx.Fatal("mounts stage: %v", err)
	}
	defer os.RemoveAll(dir)
	os.WriteFile(filepath.Join(dir, "f.txt"), []byte("file"), 0o644)
	os.WriteFile(filepath.Join(dir, "d", "in.txt"), []byte("inner"), 0o644)
	mapfs := fstest.MapFS{"f.txt": {Data: []byte("file")}, "d/in.txt": {Data: []byte("inner")}}
	mounts := []struct {
		name string
		fsc  func() wazero.FSConfig
	}{
		{"WithFSMount(fstest.MapFS)", func() wazero.FSConfig { return wazero.NewFSConfig().WithFSMount(mapfs, "/") }},
		{"WithFSMount(os.DirFS)", func() wazero.FSConfig { return wazero.NewFSConfig().WithFSMount(os.DirFS(dir), "/") }},
		{"WithReadOnlyDirMount", func() wazero.FSConfig { return wazero.NewFSConfig().WithReadOnlyDirMount(dir, "/") }},
		{"WithSysFSMount(AdaptFS(MapFS))", func() wazero.FSConfig {
			return wazero.NewFSConfig().(expsysfs.FSConfig).WithSysFSMount(&expsysfs.AdaptFS{FS: mapfs}, "/")
		}},
	}
	defs := wasiSignatures(ctx)
	bin := guestModule(defs)
	paths := []string{"f.txt", "d", "missing", "d/in.txt", "f.txt/", "d/", ".", "d/missing", "f.txt/x"}
	for _, engine := range []string{"interpreter", "compiler"} {
		rc := wazero.NewRuntimeConfigCompiler()
		if engine == "interpreter" {
			rc = wazero.NewRuntimeConfigInterpreter()
		}
		rt := wazero.NewRuntimeWithConfig(ctx, rc)
		if _, err := wasi_snapshot_preview1.Instantiate(ctx, rt); err != nil {
			hx.Fatal("mounts stage: %v", err)
		}
		cm, err := rt.CompileModule(ctx, bin)
		if err != nil {
			hx.Fatal("mounts stage: %v", err)
		}
		for mi, mt := range mounts {
			mod, err := rt.InstantiateModule(ctx, cm, wazero.NewModuleConfig().WithName(fmt.Sprintf("mounts%d", mi)).WithFSConfig(mt.fsc()))
			if err != nil {
				hx.Fatal("mounts stage (%s): %v", mt.name, err)
			}
			fsc := mod.(*wasm.ModuleInstance).Sys.FS()
			popen := mod.ExportedFunction("c_path_open")
			fclose := mod.ExportedFunction("c_fd_close")
			mem := mod.Memory()
			bad := false
			for _, p := range paths {
				mem.Write(1024, []byte(p))
				for oflags := uint64(0); oflags < 16 && !bad; oflags++ {
					for _, dirflags := range []uint64{0, 1} {
						for _, ff := range []uint64{0, 1, 4, 0 | 1<<8, 4 | 1<<8} {
							// (bit 8 of the loop value: open with FD_READ only instead of all rights - without the write right the
							// open is a read-only one, which is what fs.FS-backed and read-only mounts accept at all)
							fdflags, rights := ff&0xff, uint64(0x1fffffff)
							if ff&(1<<8) != 0 {
								rights = 2
							}
							before, _, _, msg0 := tableDump(fsc)
							mem.WriteUint32Le(2048, 0xdeadbeef)
							out, err := popen.Call(ctx, 3, dirflags, 1024, uint64(len(p)), oflags, rights, rights, fdflags, 2048)
							if err != nil {
								hx.Fatal("mounts stage: path_open: %v", err)
							}
							errno := uint32(out[0])
							after, _, _, msg1 := tableDump(fsc)
							newfd, _ := mem.ReadUint32Le(2048)
							input := map[string]any{"stage": "other mounts", "engine": engine, "mount": mt.name, "fn": "path_open",
								"args": map[string]any{"fd": 3, "dirflags": dirflags, "path": p, "oflags": oflags, "fdflags": fdflags, "rights": rights}}
							rep.Case(fmt.Sprintf("mounts/%s/%s/%s/%d/%d/%d", engine, mt.name, p, oflags, dirflags, ff))
							rep.Count(fmt.Sprintf("mounts:%s:errno=%d", mt.name, errno))
							switch {
							case msg0 != "" || msg1 != "":
								rep.Violate(hx.Violation{Kind: "impl-violation", Signature: "C15:descriptor-table-shape-broken:path_open", What: msg0 + msg1, Input: input})
								bad = true
							case errno != 0 && tableKey(before) != tableKey(after):
								rep.Violate(hx.Violation{Kind: "impl-violation", Signature: "C15:failed-call-changes-descriptor-table:path_open",
									What:  fmt.Sprintf("path_open(3, %q, oflags=%d) on a %s pre-open answered errno %d and left the descriptor table changed: the guest was told the call failed and does not know the new entry (a table slot and a host file per call)", p, oflags, mt.name, errno),
									Input: input, Expected: tableKey(before), Actual: tableKey(after)})
								bad = true
							case errno == 0:
								if len(after) != len(before)+1 || newfd == 0xdeadbeef || newfd != 4 {
									rep.Violate(hx.Violation{Kind: "impl-violation", Signature: "C15:successful-open-not-at-lowest-free-descriptor:path_open",
										What:  fmt.Sprintf("path_open(3, %q, oflags=%d) on a %s pre-open answered 0 with descriptor %d; table before %s, after %s", p, oflags, mt.name, newfd, tableKey(before), tableKey(after)),
										Input: input, Expected: "exactly one new entry, descriptor 4", Actual: tableKey(after)})
									bad = true
								} else if o2, err := fclose.Call(ctx, uint64(newfd)); err != nil || o2[0] != 0 {
									hx.Fatal("mounts stage: fd_close(%d): %v %v", newfd, o2, err)
								}
							}
							if bad {
								break
							}
						}
						if bad {
							break
						}
					}
				}
				if bad {
					break
				}
			}
			mod.Close(ctx)
		}
		// vanishing objects: a directory (and a file) opened through a mount and then REMOVED behind the guest's back
		// (through the host, as another mount of the same directory would do): every later call on the descriptor - a
		// rewinding fd_readdir first of all - answers an errno; a failed re-open must not leave the descriptor half-built
		for mi, mk := range []struct {
			name string
			fsc  func(d string) wazero.FSConfig
		}{
			{"WithFSMount(os.DirFS)", func(d string) wazero.FSConfig { return wazero.NewFSConfig().WithFSMount(os.DirFS(d), "/") }},
			{"WithDirMount", func(d string) wazero.FSConfig { return wazero.NewFSConfig().WithDirMount(d, "/") }},
			{"WithReadOnlyDirMount", func(d string) wazero.FSConfig { return wazero.NewFSConfig().WithReadOnlyDirMount(d, "/") }},
		} {
			vd := filepath.Join(dir, fmt.Sprintf("vanish-%s-%d", engine, mi))
			os.MkdirAll(filepath.Join(vd, "victim", "inner"), 0o755)
			os.WriteFile(filepath.Join(vd, "victim", "a.txt"), []byte("a"), 0o644)
			os.WriteFile(filepath.Join(vd, "gone.txt"), []byte("soon gone"), 0o644)
			mod, err := rt.InstantiateModule(ctx, cm, wazero.NewModuleConfig().WithName(fmt.Sprintf("vanish%d", mi)).WithFSConfig(mk.fsc(vd)))
			if err != nil {
				hx.Fatal("mounts stage (%s): %v", mk.name, err)
			}
			mem := mod.Memory()
			var trace []string
			call := func(fn string, args ...uint64) (errno uint32, failed bool) {
				out, err := mod.ExportedFunction("c_"+fn).Call(ctx, args...)
				if err != nil {
					trace = append(trace, fmt.Sprintf("%s%v -> HOST ERROR %v", fn, args, firstLines(err.Error(), 1)))
					return 0, true
				}
				trace = append(trace, fmt.Sprintf("%s%v -> errno %d", fn, args, uint32(out[0])))
				return uint32(out[0]), false
			}
			open := func(p string, oflags uint64) uint64 {
				mem.Write(1024, []byte(p))
				mem.WriteUint32Le(2048, 0xdeadbeef)
				call("path_open", 3, 0, 1024, uint64(len(p)), oflags, 2|0x4000|0x200000, 2|0x4000|0x200000, 0, 2048)
				fd, _ := mem.ReadUint32Le(2048)
				return uint64(fd)
			}
			bad := false
			dfd, ffd := open("victim", 2), open("gone.txt", 0)
			steps := []func() bool{
				func() bool { _, f := call("fd_readdir", dfd, 4096, 2048, 0, 8); return f },
				func() bool { _, f := call("fd_read", ffd, 3000, 0, 8); return f },
				func() bool {
					os.RemoveAll(filepath.Join(vd, "victim"))
					os.Remove(filepath.Join(vd, "gone.txt"))
					return false
				},
				func() bool { _, f := call("fd_readdir", dfd, 4096, 2048, 0, 8); return f }, // cookie 0: a rewind, which re-opens
				func() bool { _, f := call("fd_filestat_get", dfd, 8192); return f },
				func() bool { _, f := call("fd_fdstat_get", dfd, 8192); return f },
				func() bool { _, f := call("fd_readdir", dfd, 4096, 2048, 0, 8); return f },
				func() bool { _, f := call("fd_filestat_get", ffd, 8192); return f },
				func() bool { _, f := call("fd_seek", ffd, 0, 0, 8); return f },
				func() bool { _, f := call("fd_close", dfd); return f },
				func() bool { _, f := call("fd_close", ffd); return f },
			}
			for _, st := range steps {
				if st() {
					bad = true
				}
			}
			func() {
				defer func() {
					if r := recover(); r != nil {
						trace = append(trace, fmt.Sprintf("Module.Close -> GO PANIC %v", r))
						bad = true
					}
				}()
				mod.Close(ctx)
			}()
			rep.Case(fmt.Sprintf("mounts-vanish/%s/%s", engine, mk.name))
			if bad {
				rep.Violate(hx.Violation{Kind: "impl-violation", Signature: "C15:host-runtime-error-on-a-vanished-object",
					What:     fmt.Sprintf("%s, %s: a descriptor whose directory / file was removed behind the guest's back made a WASI call fail inside the host (Go runtime error) instead of answering an errno", engine, mk.name),
					Input:    map[string]any{"stage": "other mounts / vanishing objects", "engine": engine, "mount": mk.name, "history": "open victim/ (O_DIRECTORY) and gone.txt; fd_readdir, fd_read; the host removes both; fd_readdir cookie 0 (rewind); fd_filestat_get, fd_fdstat_get, fd_readdir, fd_seek, fd_close"},
					Expected: "an errno from every call", Actual: trace})
			} else {
				rep.Count("mounts-vanish:ok")
			}
		}
		// exact-fit output buffers: a call that fills a guest buffer of buf_len bytes writes buf_len bytes at most - also
		// when the data fits EXACTLY (no terminator, no padding, no rounding up): the bytes before buf and from buf+buf_len on
		// keep the canary they were given, for every length around the exact fit
		{
			gd := filepath.Join(dir, fmt.Sprintf("guard-%s", engine))
			os.MkdirAll(gd, 0o755)
			os.WriteFile(filepath.Join(gd, "data.bin"), []byte("0123456789abcdef0123456789abcdef"), 0o644)
			os.Symlink("12345678", filepath.Join(gd, "link"))
			mod, err := rt.InstantiateModule(ctx, cm, wazero.NewModuleConfig().WithName("guard").WithFSConfig(wazero.NewFSConfig().WithDirMount(gd, "/preopened-dir")))
			if err != nil {
				hx.Fatal("mounts stage (guard): %v", err)
			}
			mem := mod.Memory()
			const buf = 0x3000
			callG := func(fn string, args ...uint64) string {
				out, err := mod.ExportedFunction("c_"+fn).Call(ctx, args...)
				if err != nil {
					return "HOST ERROR " + firstLines(err.Error(), 1)
				}
				return fmt.Sprintf("errno %d", uint32(out[0]))
			}
			mem.Write(1024, []byte("data.bin"))
			mem.WriteUint32Le(2048, 0xdeadbeef)
			callG("path_open", 3, 0, 1024, 8, 0, 2, 2, 0, 2048)
			dfd, _ := mem.ReadUint32Le(2048)
			type gcase struct {
				name string
				run  func(n uint32) string
			}
			cases := []gcase{
				{"path_readlink(link -> 12345678)", func(n uint32) string {
					mem.Write(1024, []byte("link"))
					return callG("path_readlink", 3, 1024, 4, buf, uint64(n), 2048)
				}},
				{"fd_prestat_dir_name(3) [/preopened-dir]", func(n uint32) string { return callG("fd_prestat_dir_name", 3, buf, uint64(n)) }},
				{"random_get", func(n uint32) string { return callG("random_get", buf, uint64(n)) }},
				{"fd_pread(data.bin, one iovec)", func(n uint32) string {
					mem.WriteUint32Le(2064, buf)
					mem.WriteUint32Le(2068, n)
					return callG("fd_pread", uint64(dfd), 2064, 1, 0, 2048)
				}},
				{"fd_readdir(3)", func(n uint32) string { return callG("fd_readdir", 3, buf, uint64(n), 0, 2048) }},
			}
			for _, gc := range cases {
				for _, n := range []uint32{0, 1, 7, 8, 9, 14, 15, 16, 23, 24, 25, 31, 32, 33, 47, 48, 49} {
					canary := make([]byte, 256+int(n))
					for i := range canary {
						canary[i] = 0xAA
					}
					mem.Write(buf-128, canary)
					res := gc.run(n)
					after, _ := mem.Read(buf-128, uint32(len(canary)))
					bad := -1
					for i, b := range after {
						if (i < 128 || i >= 128+int(n)) && b != 0xAA {
							bad = i
							break
						}
					}
					rep.Case(fmt.Sprintf("mounts-guard/%s/%s/%d", engine, gc.name, n))
					if bad >= 0 || strings.HasPrefix(res, "HOST ERROR") {
						rep.Violate(hx.Violation{Kind: "impl-violation", Signature: "C15:write-outside-the-output-buffer:" + strings.SplitN(gc.name, "(", 2)[0],
							What:  fmt.Sprintf("%s: %s with an output buffer of %d bytes at %#x answered %s and changed the byte at %#x, which is outside [buf, buf+buf_len)", engine, gc.name, n, buf, res, buf-128+bad),
							Input: map[string]any{"stage": "other mounts / exact-fit output buffers", "engine": engine, "call": gc.name, "buf": buf, "buf_len": n}, Expected: "only bytes inside the buffer change", Actual: fmt.Sprintf("%s; first changed byte outside at offset %d relative to buf", res, bad-128)})
						break
					}
					rep.Count("mounts-guard:" + res)
				}
			}
			mod.Close(ctx)
		}
		// refused calls leave descriptors USABLE: a call that answers an errno has "done nothing" - the descriptors it
		// named must answer their probes (fd_filestat_get, fd_fdstat_get, fd_readdir from 0, fd_tell / fd_sync) exactly as
		// before, not only be present in the table (a refused fd_renumber onto a pre-open, reads and writes on a directory,
		// size changes on a directory, a renumber from a pre-open, ...)
		for mi, mk := range []struct {
			name string
			fsc  func(d string) wazero.FSConfig
		}{
			{"WithDirMount", func(d string) wazero.FSConfig { return wazero.NewFSConfig().WithDirMount(d, "/") }},
			{"WithFSMount(os.DirFS)", func(d string) wazero.FSConfig { return wazero.NewFSConfig().WithFSMount(os.DirFS(d), "/") }},
		} {
			rd := filepath.Join(dir, fmt.Sprintf("refused-%s-%d", engine, mi))
			os.MkdirAll(filepath.Join(rd, "d"), 0o755)
			os.WriteFile(filepath.Join(rd, "f.txt"), []byte("file"), 0o644)
			mod, err := rt.InstantiateModule(ctx, cm, wazero.NewModuleConfig().WithName(fmt.Sprintf("refused%d", mi)).WithFSConfig(mk.fsc(rd)))
			if err != nil {
				hx.Fatal("mounts stage (%s): %v", mk.name, err)
			}
			mem := mod.Memory()
			call := func(fn string, args ...uint64) string {
				out, err := mod.ExportedFunction("c_"+fn).Call(ctx, args...)
				if err != nil {
					return "HOST ERROR " + firstLines(err.Error(), 1)
				}
				return fmt.Sprintf("errno %d", uint32(out[0]))
			}
			open := func(p string, oflags uint64) uint64 {
				mem.Write(1024, []byte(p))
				mem.WriteUint32Le(2048, 0xdeadbeef)
				call("path_open", 3, 0, 1024, uint64(len(p)), oflags, 0x1fffffff&^0x40, 0x1fffffff&^0x40, 0, 2048)
				fd, _ := mem.ReadUint32Le(2048)
				return uint64(fd)
			}
			ffd := open("f.txt", 0) // 4
			dfd := open("d", 2)     // 5
			probe := func() string {
				var out []string
				for _, fd := range []uint64{3, ffd, dfd} {
					out = append(out, fmt.Sprintf("fd%d: filestat=%s fdstat=%s", fd, call("fd_filestat_get", fd, 8192), call("fd_fdstat_get", fd, 8192)))
				}
				for _, fd := range []uint64{3, dfd} {
					out = append(out, fmt.Sprintf("fd%d: readdir=%s sync=%s", fd, call("fd_readdir", fd, 4096, 2048, 0, 8), call("fd_sync", fd)))
				}
				out = append(out, fmt.Sprintf("fd%d: tell=%s", ffd, call("fd_tell", ffd, 8)))
				return strings.Join(out, " | ")
			}
			refused := []struct {
				name string
				args []uint64
			}{
				{"fd_renumber", []uint64{ffd, 3}}, {"fd_renumber", []uint64{3, ffd}}, {"fd_renumber", []uint64{dfd, 3}}, {"fd_renumber", []uint64{ffd, 0}},
				{"fd_read", []uint64{3, 3000, 0, 8}}, {"fd_write", []uint64{3, 3000, 0, 8}}, {"fd_pread", []uint64{dfd, 3000, 0, 0, 8}},
				{"fd_filestat_set_size", []uint64{3, 0}}, {"fd_allocate", []uint64{dfd, 0, 10}}, {"fd_seek", []uint64{3, 0, 0, 8}},
				{"fd_renumber", []uint64{77, 3}}, {"fd_renumber", []uint64{ffd, 0xffffffff}},
			}
			for _, rc := range refused {
				before := probe()
				res := call(rc.name, rc.args...)
				after := probe()
				rep.Case(fmt.Sprintf("mounts-refused/%s/%s/%s%v", engine, mk.name, rc.name, rc.args))
				if res != "errno 0" && before != after {
					rep.Violate(hx.Violation{Kind: "impl-violation", Signature: "C15:refused-call-damages-a-descriptor:" + rc.name,
						What:  fmt.Sprintf("%s, %s: %s%v answered %s (nothing done) and afterwards the descriptors 3 (pre-open), %d (file), %d (directory) answer their probes differently", engine, mk.name, rc.name, rc.args, res, ffd, dfd),
						Input: map[string]any{"stage": "other mounts / refused calls", "engine": engine, "mount": mk.name, "call": rc.name, "args": rc.args}, Expected: before, Actual: after})
					break
				}
				rep.Count("mounts-refused:" + res)
			}
			mod.Close(ctx)
		}
		rt.Close(ctx)
	}
}
