package main

// Specification side of hc15 (tie C): the memory images, and for every one of the 46 functions the
// output regions its signature designates, computed over the naturals (uint64, no wrap-around).

import (
	"encoding/binary"
	"fmt"
	"math/rand"
	"strconv"
	"strings"
)

type region struct{ off, len uint64 }

// offsets used by the structured image
const (
	offIovA  = 0    // 8 iovec entries
	offIovB  = 128  // iovec entries that cover the iovec array itself
	offIovC  = 192  // two entries: the buffer of the first IS the second entry (8 bytes)
	offSubs  = 1024 // 8 subscriptions of 48 bytes
	offPaths = 2048
)

var pathTable = []struct {
	off uint32
	s   string
}{{2048, "f.txt"}, {2064, "d"}, {2080, "link"}, {2096, "nope"}, {2112, "../up"}, {2128, "/abs"}, {2144, "d/"}, {2160, "new"}, {2176, "d/g"}}

func putSub(b []byte, off int, user uint64, typ byte, u32 uint32, timeout uint64, flags uint16) {
	if off+48 > len(b) {
		return
	}
	binary.LittleEndian.PutUint64(b[off:], user)
	b[off+8] = typ
	binary.LittleEndian.PutUint32(b[off+16:], u32)
	binary.LittleEndian.PutUint64(b[off+24:], timeout)
	binary.LittleEndian.PutUint16(b[off+40:], flags)
}

func putIov(b []byte, off int, p, l uint32) {
	binary.LittleEndian.PutUint32(b[off:], p)
	binary.LittleEndian.PutUint32(b[off+4:], l)
}

// buildImage is deterministic in (img, size); parent and child build identical images.
func buildImage(img string, size int) []byte {
	b := make([]byte, size)
	S := uint32(size)
	switch {
	case img == "zero":
	case img == "ff":
		for i := range b {
			b[i] = 0xff
		}
	case img == "struct":
		iov := [][2]uint32{{256, 16}, {512, 8}, {768, 0}, {1000, 5}, {S - 16, 16}, {S - 8, 16}, {0xfffffff0, 32}, {3000, 40}}
		for i, e := range iov {
			putIov(b, offIovA+8*i, e[0], e[1])
		}
		putIov(b, offIovB, 128, 64)
		putIov(b, offIovB+8, 0, S)
		putIov(b, offIovB+16, 4000, 0xffffffff)
		putIov(b, offIovC, offIovC+8, 8) // the first buffer is exactly the second entry
		putIov(b, offIovC+8, 3000, 4)
		putSub(b, offSubs+0*48, 0x1111, 0, 0, 5, 0)          // clock, relative
		putSub(b, offSubs+1*48, 0x2222, 1, 0, 0, 0)          // fd_read stdin
		putSub(b, offSubs+2*48, 0x3333, 2, 1, 0, 0)          // fd_write stdout
		putSub(b, offSubs+3*48, 0x4444, 1, 4, 0, 0)          // fd_read fd 4
		putSub(b, offSubs+4*48, 0x5555, 2, 99, 0, 0)         // fd_write unopened
		putSub(b, offSubs+5*48, 0x6666, 0, 1, 7, 1)          // clock, abstime -> ENOTSUP
		putSub(b, offSubs+6*48, 0x7777, 1, 0xffffffff, 0, 0) // fd_read fd -1 -> EBADF
		putSub(b, offSubs+7*48, 0x8888, 7, 0, 0, 0)          // invalid type -> EINVAL
		for _, p := range pathTable {
			copy(b[p.off:], p.s)
		}
		putSub(b, size-48, 0x9999, 0, 0, 1, 0)
		for i := 256; i < 272; i++ {
			b[i] = byte(i)
		}
	case img == "iovflood":
		// the whole memory is an array of VALID, large, overlapping iovecs {buf = 0, len = half the memory}: every
		// single one passes its bounds check, their total is iovs_len x half the memory
		for off := 0; off+8 <= size; off += 8 {
			putIov(b, off, 0, S/2)
		}
	case strings.HasPrefix(img, "rand:"):
		n, _ := strconv.ParseInt(img[5:], 10, 64)
		r := rand.New(rand.NewSource(n))
		for k := 0; k < 48; k++ {
			off := r.Intn(size)
			if k%3 == 0 {
				off = []int{0, 128, 1024, 2048, size - 64}[r.Intn(5)] + r.Intn(32)
			}
			l := 1 + r.Intn(24)
			for i := off; i < off+l && i < size; i++ {
				switch r.Intn(4) {
				case 0:
					b[i] = byte(r.Intn(256))
				case 1:
					b[i] = byte(r.Intn(4))
				case 2:
					b[i] = 0xff
				}
			}
		}
	default:
		panic("unknown image " + img)
	}
	return b
}

func u32at(img []byte, off uint64) (uint32, bool) {
	if off+4 > uint64(len(img)) {
		return 0, false
	}
	return binary.LittleEndian.Uint32(img[off:]), true
}

// iovRegions: the buffers named by the first n iovec entries at iovs (entries that lie outside the
// memory name nothing).
func iovRegions(img []byte, iovs, n uint64) []region {
	var rs []region
	maxEntries := uint64(len(img)/8 + 1)
	for i := uint64(0); i < n && i < maxEntries; i++ {
		p, ok1 := u32at(img, iovs+8*i)
		l, ok2 := u32at(img, iovs+8*i+4)
		if !ok1 || !ok2 {
			break
		}
		rs = append(rs, region{uint64(p), uint64(l)})
	}
	return rs
}

const (
	specArgc     = 3
	specArgsSize = 5 + 3 + 3 // "prog\0" "-x\0" "yz\0"
	specEnvc     = 2
	specEnvSize  = 4 + 7 // "A=b\0" "CD=efg\0"
)

// designated returns the output regions the signature of fn designates for this argument tuple.
func designated(fn string, a []uint64, img []byte) []region {
	u := func(i int) uint64 { return uint64(uint32(a[i])) }
	switch fn {
	case "args_get":
		return []region{{u(0), 4 * specArgc}, {u(1), specArgsSize}}
	case "environ_get":
		return []region{{u(0), 4 * specEnvc}, {u(1), specEnvSize}}
	case "args_sizes_get", "environ_sizes_get":
		return []region{{u(0), 4}, {u(1), 4}}
	case "clock_res_get":
		return []region{{u(1), 8}}
	case "clock_time_get":
		return []region{{u(2), 8}}
	case "fd_fdstat_get":
		return []region{{u(1), 24}}
	case "fd_filestat_get":
		return []region{{u(1), 64}}
	case "path_filestat_get":
		return []region{{u(4), 64}}
	case "fd_read":
		return append(iovRegions(img, u(1), u(2)), region{u(3), 4})
	case "fd_pread":
		return append(iovRegions(img, u(1), u(2)), region{u(4), 4})
	case "sock_recv":
		return append(iovRegions(img, u(1), u(2)), region{u(4), 4}, region{u(5), 2})
	case "fd_write":
		return []region{{u(3), 4}}
	case "fd_pwrite":
		return []region{{u(4), 4}}
	case "sock_send":
		return []region{{u(4), 4}}
	case "sock_accept":
		return []region{{u(2), 4}}
	case "fd_prestat_get":
		return []region{{u(1), 8}}
	case "fd_prestat_dir_name":
		return []region{{u(1), u(2)}}
	case "fd_readdir":
		return []region{{u(1), u(2)}, {u(4), 4}}
	case "fd_seek":
		return []region{{u(3), 8}}
	case "fd_tell":
		return []region{{u(1), 8}}
	case "path_open":
		return []region{{u(8), 4}}
	case "path_readlink":
		return []region{{u(3), u(4)}, {u(5), 4}}
	case "poll_oneoff":
		return []region{{u(1), 32 * u(2)}, {u(3), 4}}
	case "random_get":
		return []region{{u(0), u(1)}}
	}
	return nil
}

func inRegions(rs []region, off uint64) bool {
	for _, r := range rs {
		if off >= r.off && off < r.off+r.len {
			return true
		}
	}
	return false
}

// outsideDesignated returns the first changed byte that lies outside all designated regions.
func outsideDesignated(diff []Run, rs []region) (uint64, bool) {
	for _, d := range diff {
		for i := 0; i < len(d.Hex)/2; i++ {
			if !inRegions(rs, uint64(d.Off)+uint64(i)) {
				return uint64(d.Off) + uint64(i), true
			}
		}
	}
	return 0, false
}

func fmtArgs(a []uint64) string {
	s := make([]string, len(a))
	for i, v := range a {
		s[i] = fmt.Sprintf("%#x", v)
	}
	return strings.Join(s, ",")
}
