// hc15: correspondence + monitor harness for C15 (WASI calls are safe for any argument values).
//
// All exported functions of the real wasi_snapshot_preview1 host module (enumerated from the compiled
// host module) are called through a real guest (import + forwarding wrapper) on a one-page memory, in
// supervised child processes (re-exec of this binary with -child; RLIMIT_AS, GOMEMLIMIT, per-case
// timeout), with argument tuples from per-parameter boundary sets x descriptor-table states x memory
// images.
//
// Tie C (all 46 functions): the call returns an errno or ends in the documented proc_exit; the error
// text never shows a Go runtime error; bytes change only inside the regions the signature designates
// (computed over the naturals); the host allocates at most k x guest memory during the call; the
// descriptor table keeps its representation invariant and changes only in the functions that may
// change it; the child neither crashes nor hangs.
// Tie B (modelled functions): errno, the exact byte diff of guest memory and the descriptor table
// after the call are compared with the Lean footprint model (topic c15 of the oracle); the real
// descriptor.Table is also driven directly against the Lean table model.
package main

import (
	"bufio"
	"encoding/hex"
	"encoding/json"
	"flag"
	"fmt"
	"io"
	"net"
	"os"
	"os/exec"
	"runtime"
	"sort"
	"strings"
	"sync"
	"time"

	"context"

	"github.com/tetratelabs/wazero/verifharness/hx"
)

var (
	childFlag = flag.Bool("child", false, "run as supervised executor (internal)")
	onlyFn    = flag.String("fn", "", "restrict to one function (debugging)")
	noTable   = flag.Bool("notable", false, "skip the direct descriptor.Table differential (debugging)")
	traceOut  = flag.String("trace", "", "write one line per case (fn, state, args, errno, diff, table) to this file (debugging)")
	rep       *hx.Report
	orc       *hx.Oracle
)

const (
	caseTimeout   = 60 * time.Second
	heapLimit     = 16*memSize + 256<<10
	sigF15        = "F15:poll_oneoff-nsubscriptions-byte-size-wraps-uint32"
	sigF16Alloc   = "F16:fd_renumber-host-allocation-proportional-to-target-fd"
	sigF16Exhaust = "F16:fd_renumber-to-2^31-1-exhausts-host-memory"
	sigF25        = "F25:poll_oneoff-sleeps-2^63-1ns-without-clock-subscription"
	sigF61        = "F61:sock_recv-peek-writes-first-iovec-although-ri_data_len-is-0"
	sigF62        = "F62:readv-rereads-iovec-entries-that-the-same-call-has-overwritten"
	maxSaneSleep  = int64(1) << 62 // ~146 years
)

// ---------------------------------------------------------------------------------------------
// supervised children

type child struct {
	cmd    *exec.Cmd
	in     io.WriteCloser
	out    *bufio.Reader
	stderr *tailBuf
}

type tailBuf struct {
	mu sync.Mutex
	b  []byte
}

func (t *tailBuf) Write(p []byte) (int, error) {
	t.mu.Lock()
	t.b = append(t.b, p...)
	if len(t.b) > 4000 {
		t.b = t.b[:4000] // keep the head: the fatal error line comes first
	}
	t.mu.Unlock()
	return len(p), nil
}
func (t *tailBuf) String() string { t.mu.Lock(); defer t.mu.Unlock(); return string(t.b) }

func startChild() *child {
	self, err := os.Executable()
	if err != nil {
		hx.Fatal("executable: %v", err)
	}
	cmd := hx.Supervised(exec.Command(self, "-child", "-work", *hx.Work))
	cmd.Env = append(os.Environ(), "GOMEMLIMIT=1GiB", "GOMAXPROCS=2")
	in, _ := cmd.StdinPipe()
	out, _ := cmd.StdoutPipe()
	tb := &tailBuf{}
	cmd.Stderr = tb
	if err := cmd.Start(); err != nil {
		hx.Fatal("child: %v", err)
	}
	return &child{cmd: cmd, in: in, out: bufio.NewReaderSize(out, 1<<20), stderr: tb}
}

func (c *child) stop() {
	c.in.Close()
	done := make(chan struct{})
	go func() { c.cmd.Wait(); close(done) }()
	select {
	case <-done:
	case <-time.After(5 * time.Second):
		c.cmd.Process.Kill()
		<-done
	}
}

type outcome struct {
	res    *Result
	crash  string // non-empty: child died (stderr head)
	hang   bool
	faulty bool // child reported HARNESS-FAULT
}

// run executes one case on the child; on death or timeout the child is gone afterwards.
func (c *child) run(cs Case) outcome {
	b, _ := json.Marshal(cs)
	type rd struct {
		line []byte
		err  error
	}
	ch := make(chan rd, 1)
	if _, err := c.in.Write(append(b, '\n')); err != nil {
		c.cmd.Process.Kill()
		c.cmd.Wait()
		return outcome{crash: "write to child failed: " + c.stderr.String()}
	}
	go func() {
		l, err := c.out.ReadBytes('\n')
		ch <- rd{l, err}
	}()
	select {
	case r := <-ch:
		if r.err != nil {
			c.cmd.Wait()
			se := c.stderr.String()
			return outcome{crash: "child died: " + se, faulty: strings.Contains(se, "HARNESS-FAULT")}
		}
		var res Result
		if err := json.Unmarshal(r.line, &res); err != nil {
			hx.Fatal("child answer: %v", err)
		}
		return outcome{res: &res}
	case <-time.After(caseTimeout):
		c.cmd.Process.Kill()
		c.cmd.Wait()
		return outcome{hang: true}
	}
}

// runAlone runs one case in a fresh child.
func runAlone(cs Case) outcome {
	c := startChild()
	o := c.run(cs)
	if o.res != nil {
		c.stop()
	}
	return o
}

// ---------------------------------------------------------------------------------------------
// monitors

type finding struct {
	kind, sig, what string
	actual          any
}

func u32(v uint64) uint64 { return uint64(uint32(v)) }

func tableKey(t []FdEnt) string {
	var sb strings.Builder
	for i, e := range t {
		if i > 0 {
			sb.WriteByte(',')
		}
		fmt.Fprintf(&sb, "%d:%s", e.Fd, e.Kind)
	}
	if sb.Len() == 0 {
		return "-"
	}
	return sb.String()
}

var mayChangeTable = map[string]bool{"fd_close": true, "fd_renumber": true, "path_open": true, "sock_accept": true, "proc_exit": true}

func monitor(cs Case, o outcome, img []byte) []finding {
	var fs []finding
	if o.hang {
		return []finding{{"impl-violation", "C15:hang:" + cs.Fn, fmt.Sprintf("%s(%s) did not return within %v", cs.Fn, fmtArgs(cs.Args), caseTimeout), nil}}
	}
	if o.crash != "" {
		sig := "C15:child-crash:" + cs.Fn
		if cs.Fn == "fd_renumber" && u32(cs.Args[1]) >= 1<<26 && u32(cs.Args[1]) < 1<<31 && strings.Contains(o.crash, "out of memory") {
			sig = sigF16Exhaust
		}
		return []finding{{"impl-violation", sig, fmt.Sprintf("%s(%s) killed the host process (address space capped at %d GiB): %s", cs.Fn, fmtArgs(cs.Args), rlimitASBytes>>30, firstLines(o.crash, 3)), nil}}
	}
	r := o.res
	if r.Err != "" {
		low := strings.ToLower(r.Err)
		rt := false
		for _, pat := range []string{"runtime error", "index out of range", "nil pointer", "makeslice", "bug", "slice bounds", "out of memory", "invalid memory address"} {
			if strings.Contains(low, pat) {
				rt = true
			}
		}
		sig := "C15:unexpected-call-error:" + cs.Fn
		if rt {
			sig = "C15:host-runtime-error:" + cs.Fn
			if cs.Fn == "poll_oneoff" && u32(cs.Args[2])*48 >= 1<<32 {
				sig = sigF15
			}
		}
		fs = append(fs, finding{"impl-violation", sig, fmt.Sprintf("%s(%s) [%s,%s,%s] ended with a host error instead of an errno: %s", cs.Fn, fmtArgs(cs.Args), cs.State, cs.Img, cs.Engine, firstLines(r.Err, 2)), r.Err})
	}
	if cs.Fn == "proc_exit" {
		if !r.Exit || r.ExitCode != uint32(cs.Args[0]) {
			fs = append(fs, finding{"impl-violation", "C15:proc_exit-did-not-exit", fmt.Sprintf("proc_exit(%s) -> exit=%v code=%d", fmtArgs(cs.Args), r.Exit, r.ExitCode), nil})
		}
	} else if r.Exit {
		fs = append(fs, finding{"impl-violation", "C15:unexpected-exit:" + cs.Fn, fmt.Sprintf("%s(%s) exited the module", cs.Fn, fmtArgs(cs.Args)), nil})
	}
	if off, bad := outsideDesignated(r.Diff, designated(cs.Fn, cs.Args, img)); bad {
		sig := "C15:write-outside-designated:" + cs.Fn
		if cs.Fn == "sock_recv" && u32(cs.Args[2]) == 0 && u32(cs.Args[3])&1 != 0 {
			sig = sigF61
		}
		if (cs.Fn == "fd_read" || cs.Fn == "fd_pread" || cs.Fn == "sock_recv") && iovecAliased(img, u32(cs.Args[1]), u32(cs.Args[2])) {
			sig = sigF62
		}
		fs = append(fs, finding{"impl-violation", sig, fmt.Sprintf("%s(%s) [%s,%s] changed guest byte %d outside the output regions of its signature", cs.Fn, fmtArgs(cs.Args), cs.State, cs.Img, off), r.Diff})
	}
	if r.Alloc > heapLimit {
		sig := "C15:host-allocation-out-of-proportion:" + cs.Fn
		if cs.Fn == "fd_renumber" && u32(cs.Args[1]) >= 1<<16 && u32(cs.Args[1]) < 1<<31 {
			sig = sigF16Alloc
		}
		fs = append(fs, finding{"impl-violation", sig, fmt.Sprintf("%s(%s) [%s] made the host allocate %d bytes during one call (guest memory %d bytes, limit %d)", cs.Fn, fmtArgs(cs.Args), cs.State, r.Alloc, r.MemSize, heapLimit), r.Alloc})
	}
	if r.SleepNS >= maxSaneSleep {
		sig := "C15:host-sleeps-forever:" + cs.Fn
		if cs.Fn == "poll_oneoff" {
			sig = sigF25
		}
		fs = append(fs, finding{"impl-violation", sig, fmt.Sprintf("%s(%s) [%s,%s] asked the host to sleep %d ns (a real Nanosleep never returns: the call hangs)", cs.Fn, fmtArgs(cs.Args), cs.State, cs.Img, r.SleepNS), r.SleepNS})
	}
	if r.TableMsg != "" {
		fs = append(fs, finding{"impl-violation", "C15:descriptor-table-corrupt:" + cs.Fn, fmt.Sprintf("%s(%s): %s", cs.Fn, fmtArgs(cs.Args), r.TableMsg), nil})
	}
	if mayChangeTable[cs.Fn] && r.Errno > 0 && !r.Exit && tableKey(r.Before) != tableKey(r.After) {
		// a call that reports an error must leave the table as it found it: a descriptor that vanished although the
		// guest was told the call failed can never be closed by the guest (and its host file leaks)
		fs = append(fs, finding{"impl-violation", "C15:descriptor-table-changed-by-failed-call:" + cs.Fn, fmt.Sprintf("%s(%s) returned errno %d, yet the table changed: %s -> %s", cs.Fn, fmtArgs(cs.Args), r.Errno, tableKey(r.Before), tableKey(r.After)), nil})
	}
	if !mayChangeTable[cs.Fn] && tableKey(r.Before) != tableKey(r.After) {
		fs = append(fs, finding{"impl-violation", "C15:descriptor-table-changed:" + cs.Fn, fmt.Sprintf("%s(%s): table %s -> %s", cs.Fn, fmtArgs(cs.Args), tableKey(r.Before), tableKey(r.After)), nil})
	}
	return fs
}

// iovecAliased: some non-empty buffer named by the first n iovec entries overlaps the iovec array itself.
func iovecAliased(img []byte, iovs, n uint64) bool {
	end := iovs + 8*n
	for _, r := range iovRegions(img, iovs, n) {
		if r.len > 0 && r.off < end && iovs < r.off+r.len && r.off+r.len <= uint64(len(img)) {
			return true
		}
	}
	return false
}

func firstLines(s string, n int) string {
	ls := strings.Split(strings.TrimSpace(s), "\n")
	if len(ls) > n {
		ls = ls[:n]
	}
	out := strings.Join(ls, " | ")
	if len(out) > 400 {
		out = out[:400]
	}
	return out
}

// ---------------------------------------------------------------------------------------------
// model correspondence (tie B)

var (
	imgSent   = map[string]bool{}
	imgMu     sync.Mutex
	imgCache  = map[string][]byte{}
	modelled  = map[string]bool{}
	modelled2 = map[string]bool{} // the second batch (alternatives, self-clipped regions)
	pollFixed bool
)

func image(name string) []byte {
	imgMu.Lock()
	defer imgMu.Unlock()
	if b, ok := imgCache[name]; ok {
		return b
	}
	b := buildImage(name, memSize)
	imgCache[name] = b
	return b
}

func hexOrDash(b []byte) string {
	if len(b) == 0 {
		return "-"
	}
	return hex.EncodeToString(b)
}

var sendMu sync.Mutex

func sendImage(name string) {
	sendMu.Lock()
	defer sendMu.Unlock()
	if imgSent[name] {
		return
	}
	imgSent[name] = true
	b := image(name)
	fill := byte(0)
	if name == "ff" {
		fill = 0xff
	}
	var runs []string
	for i := 0; i < len(b); {
		if b[i] == fill {
			i++
			continue
		}
		j, last := i, i
		for j < len(b) && j-last < 8 {
			if b[j] != fill {
				last = j
			}
			j++
		}
		runs = append(runs, fmt.Sprintf("%d:%s", i, hex.EncodeToString(b[i:last+1])))
		i = last + 1
	}
	rs := "-"
	if len(runs) > 0 {
		rs = strings.Join(runs, ",")
	}
	if a := orc.Askf("c15 img %s %d %d %s", name, len(b), fill, rs); a != "ok" {
		hx.Fatal("oracle img: %s", a)
	}
}

func setupOracle() {
	var as, es []string
	for _, a := range hostArgs {
		as = append(as, hex.EncodeToString([]byte(a)))
	}
	for _, kv := range hostEnv {
		es = append(es, hex.EncodeToString([]byte(kv[0]+"="+kv[1])))
	}
	wall := int64(wallSec)*1000000000 + wallNsec
	a := orc.Askf("c15 host %s %s %s %d %d %d %d %s", strings.Join(as, ","), strings.Join(es, ","),
		hex.EncodeToString([]byte(stdinContent)), wall, wallRes, monoNanos, monoRes, hex.EncodeToString([]byte(preopenName)))
	if a != "ok" {
		hx.Fatal("oracle host: %s", a)
	}
	for _, f := range strings.Fields(orc.Ask("c15 modelled")) {
		modelled[f] = true
	}
	for _, f := range strings.Fields(orc.Ask("c15 modelled2")) {
		modelled2[f] = true
	}
}

// altResult: does one alternative of the model's answer describe what the code did? ("" = yes, else what differs)
func altDiffers(cs Case, r *Result, img []byte, alt string) string {
	want := append([]byte{}, img...)
	dontCare := map[int]bool{}
	var wantErr, wantTable string
	var wantAlloc uint64
	for _, tok := range strings.Fields(alt) {
		switch {
		case strings.HasPrefix(tok, "e="):
			wantErr = tok[2:]
		case strings.HasPrefix(tok, "t="):
			wantTable = tok[2:]
		case strings.HasPrefix(tok, "a="):
			fmt.Sscanf(tok[2:], "%d", &wantAlloc)
		case strings.HasPrefix(tok, "w="):
			w := tok[2:]
			if i := strings.IndexByte(w, ':'); i >= 0 {
				var off int
				fmt.Sscanf(w[:i], "%d", &off)
				bs, err := hex.DecodeString(w[i+1:])
				if err != nil {
					hx.Fatal("oracle answer %q", alt)
				}
				for k, b := range bs {
					if off+k < len(want) {
						want[off+k] = b
						delete(dontCare, off+k)
					} else {
						return "write-beyond-memory"
					}
				}
			} else if i := strings.IndexByte(w, '+'); i >= 0 {
				var off, l int
				fmt.Sscanf(w[:i], "%d", &off)
				fmt.Sscanf(w[i+1:], "%d", &l)
				if off+l > len(want) && modelled2[cs.Fn] {
					return "write-beyond-memory" // the models of the second batch clip their regions themselves
				}
				for k := 0; k < l && off+k < len(want); k++ {
					dontCare[off+k] = true
				}
			} else {
				hx.Fatal("oracle answer %q", alt)
			}
		default:
			hx.Fatal("oracle answer %q for %s", alt, cs.Fn)
		}
	}
	// errno
	switch wantErr {
	case "any":
		if r.Err != "" || r.Exit {
			return "errno"
		}
	case "nz":
		if r.Err != "" || r.Exit || r.Errno == 0 {
			return "errno"
		}
	case "panic":
		if !strings.Contains(r.Err, "runtime error") {
			return "errno"
		}
	case "exit":
		if !r.Exit {
			return "errno"
		}
	default:
		if r.Err != "" || fmt.Sprint(r.Errno) != wantErr {
			return "errno"
		}
	}
	// memory
	got := append([]byte{}, img...)
	for _, d := range r.Diff {
		bs, _ := hex.DecodeString(d.Hex)
		copy(got[d.Off:], bs)
	}
	for i := range got {
		if got[i] != want[i] && !dontCare[i] {
			return fmt.Sprintf("memory@%d", i)
		}
	}
	if wantTable != "" && wantTable != tableKey(r.After) {
		return "table"
	}
	if wantTable == "" && modelled2[cs.Fn] && tableKey(r.Before) != tableKey(r.After) {
		return "table" // an alternative without t= leaves the table as it was
	}
	// allocation predicted by the model (descriptor-table growth): measured within [a, 2.5a + 1 MiB]
	if wantAlloc > 1<<16 && (r.Alloc < wantAlloc || r.Alloc > wantAlloc*5/2+1<<20) {
		return "alloc"
	}
	return ""
}

var (
	askMu        sync.Mutex
	dirOrderSent string
	desigSeen    sync.Map
)

func fnvRegions(rs []region) string {
	n, h := 0, uint64(0)
	for _, r := range rs {
		if r.len == 0 {
			continue
		}
		n++
		h = (h*1000003 + r.off*65537 + r.len) % (1 << 40)
	}
	return fmt.Sprintf("%d %d", n, h)
}

// compareDesignated: the Lean table of designated output regions (Wz.Model.Wasi.designated, the one the theorems
// speak about) and the Go table of spec.go (the one the monitor uses) agree on this case.
func compareDesignated(cs Case, img []byte) {
	k := cs.Fn + "|" + fmtArgs(cs.Args) + "|" + cs.Img
	if _, dup := desigSeen.LoadOrStore(k, true); dup {
		return
	}
	sendImage(cs.Img)
	var sb strings.Builder
	fmt.Fprintf(&sb, "c15 designated %s %s", cs.Fn, cs.Img)
	for _, a := range cs.Args {
		fmt.Fprintf(&sb, " %d", a)
	}
	ans := orc.Ask(sb.String())
	rep.Count("designated-compared")
	if want := fnvRegions(designated(cs.Fn, cs.Args, img)); ans != want {
		rep.Violate(hx.Violation{Kind: "correspondence", Signature: "C15:designated-tables-differ:" + cs.Fn,
			What:  fmt.Sprintf("%s(%s) [%s]: designated output regions of spec.go (count, hash) = %s, of Wz.Model.Wasi.designated = %s", cs.Fn, fmtArgs(cs.Args), cs.Img, want, ans),
			Input: cs, Expected: want, Actual: ans})
	}
}

// compareModel asks the Lean model for errno / writes / table and compares with what the code did.  The answer
// is a list of alternatives separated by " | "; the code must match one of them.
func compareModel(cs Case, r *Result, img []byte) {
	sendImage(cs.Img)
	var sb strings.Builder
	op := "call"
	if cs.State == "dirread" {
		op = "callr" // the dirent caches of the directory descriptors hold the complete listings
	}
	fmt.Fprintf(&sb, "c15 %s %s %s %s", op, cs.Fn, cs.Img, tableKey(r.Before))
	for _, a := range cs.Args {
		fmt.Fprintf(&sb, " %d", a)
	}
	askMu.Lock()
	if cs.Fn == "fd_readdir" && r.DirOrder != "" && r.DirOrder != dirOrderSent {
		f := strings.Fields(r.DirOrder)
		if len(f) != 2 || strings.Contains(r.DirOrder, "?") {
			askMu.Unlock()
			rep.Count("dir-order-unreadable")
			return
		}
		if a := orc.Askf("c15 hostdirs %s %s", f[0], f[1]); a != "ok" {
			hx.Fatal("oracle hostdirs: %s", a)
		}
		if dirOrderSent != "" {
			rep.Count("dir-order-changed")
		}
		dirOrderSent = r.DirOrder
	}
	ans := orc.Ask(sb.String())
	askMu.Unlock()
	rep.Count("model:" + cs.Fn)
	if ans == "bad-op" {
		hx.Fatal("oracle refuses %q", sb.String())
	}
	alts := strings.Split(ans, " | ")
	first := ""
	for i, alt := range alts {
		d := altDiffers(cs, r, img, alt)
		if d == "" {
			e := ""
			for _, tok := range strings.Fields(alt) {
				if strings.HasPrefix(tok, "e=") {
					e = tok[2:]
				}
			}
			rep.Count("model-errno:" + cs.Fn + ":" + e)
			if len(alts) > 1 {
				rep.Count(fmt.Sprintf("model-alt:%s:%d/%d", cs.Fn, i+1, len(alts)))
			}
			return
		}
		if first == "" {
			first = d
		}
	}
	mismatch(cs, first, ans, r)
}

func mismatch(cs Case, what, ans string, r *Result) {
	cls := what
	if i := strings.IndexByte(cls, '@'); i >= 0 {
		cls = cls[:i]
	}
	rep.Violate(hx.Violation{Kind: "correspondence", Signature: "C15:model-differs:" + cs.Fn + ":" + cls,
		What:  fmt.Sprintf("%s(%s) [%s,%s,%s]: Lean footprint model and the code disagree on %s", cs.Fn, fmtArgs(cs.Args), cs.State, cs.Img, cs.Engine, what),
		Input: cs, Expected: ans, Actual: r})
}

// ---------------------------------------------------------------------------------------------

func key(cs Case) string {
	return fmt.Sprintf("%s|%s|%s|%s|%s", cs.Fn, fmtArgs(cs.Args), cs.State, cs.Img, cs.Engine)
}

var (
	confMu    sync.Mutex
	confirmed = map[string]int{}
)

var (
	traceMu sync.Mutex
	traceF  *os.File
)

func traceCase(cs Case, o outcome) {
	if *traceOut == "" || o.res == nil {
		return
	}
	traceMu.Lock()
	defer traceMu.Unlock()
	if traceF == nil {
		f, err := os.Create(*traceOut)
		if err != nil {
			hx.Fatal("trace: %v", err)
		}
		traceF = f
	}
	var d []string
	for _, r := range o.res.Diff {
		d = append(d, fmt.Sprintf("%d+%d", r.Off, len(r.Hex)/2))
	}
	tb := ""
	if tableKey(o.res.Before) != tableKey(o.res.After) {
		tb = " T:" + tableKey(o.res.After)
	}
	fmt.Fprintf(traceF, "%s %s %s %s e=%d err=%q diff=%s%s\n", cs.Fn, cs.State, cs.Img, fmtArgs(cs.Args), o.res.Errno, firstLines(o.res.Err, 1), strings.Join(d, ","), tb)
}

func process(cs Case, o outcome) {
	img := image(cs.Img)
	traceCase(cs, o)
	fs := monitor(cs, o, img)
	if o.faulty {
		hx.Fatal("child fault on %s(%s): %s", cs.Fn, fmtArgs(cs.Args), o.crash)
	}
	needConfirm := false
	confMu.Lock()
	for _, f := range fs {
		if confirmed[f.sig] < 3 {
			needConfirm = true
		}
	}
	confMu.Unlock()
	if len(fs) > 0 {
		// confirm alone in a fresh child before it counts (first occurrences of each signature)
		seen := map[string]bool{}
		if needConfirm {
			o2 := runAlone(cs)
			for _, f := range monitor(cs, o2, img) {
				seen[f.sig] = true
				confMu.Lock()
				confirmed[f.sig]++
				confMu.Unlock()
			}
		} else {
			for _, f := range fs {
				seen[f.sig] = true
			}
		}
		for _, f := range fs {
			if !seen[f.sig] {
				rep.Count("unconfirmed:" + f.sig)
				continue
			}
			rep.Violate(hx.Violation{Kind: f.kind, Signature: f.sig, What: f.what, Input: cs, Actual: f.actual})
		}
	}
	rep.Case(key(cs))
	rep.Count("fn:" + cs.Fn)
	rep.Count("tag:" + cs.Tag)
	rep.Count("state:" + cs.State)
	rep.Count("engine:" + cs.Engine)
	switch {
	case o.res == nil:
		rep.Count("result:crash-or-hang")
	case o.res.Err != "":
		rep.Count("result:call-error")
	case o.res.Exit:
		rep.Count("result:exit")
	default:
		rep.Count(fmt.Sprintf("errno:%d", o.res.Errno))
		if len(o.res.Diff) > 0 {
			rep.Count("wrote-memory")
		}
	}
	if o.res != nil && modelled[cs.Fn] {
		compareModel(cs, o.res, img)
	}
	compareDesignated(cs, img)
}

func runAll(cases []Case) {
	nw := runtime.NumCPU() - 2
	if nw > 12 {
		nw = 12
	}
	if nw < 2 {
		nw = 2
	}
	ch := make(chan Case, 1024)
	var wg sync.WaitGroup
	for w := 0; w < nw; w++ {
		wg.Add(1)
		go func() {
			defer wg.Done()
			var c *child
			for cs := range ch {
				if c == nil {
					c = startChild()
				}
				o := c.run(cs)
				if o.res == nil {
					c = nil // dead
				}
				process(cs, o)
			}
			if c != nil {
				c.stop()
			}
		}()
	}
	for i := range cases {
		cases[i].ID = i
		ch <- cases[i]
	}
	close(ch)
	wg.Wait()
}

func main() {
	flag.Parse()
	if *childFlag {
		childMain(*hx.Work)
		return
	}
	if *hx.Work == "" {
		hx.Fatal("-work is required")
	}
	orc = hx.StartOracle()
	defer orc.Close()
	rep = hx.NewReport("C15", "all exported functions of the instantiated wasi_snapshot_preview1 host module x argument tuples "+
		"(base tuples; every parameter over its boundary set one at a time; pairwise products of pointer/length/fd boundary sets "+
		"(all pairs in the thorough tier); seeded random tuples) x descriptor-table states {bare, preopen+file+dir, with a hole, listener+accepted connection} "+
		"x memory images {zero, structured iovecs/subscriptions/paths, 0xff, seeded random}; both engines for base/single/random cases; "+
		"direct descriptor.Table op sequences vs the Lean table model; distinct = distinct (function, args, state, image, engine)")
	setupOracle()
	defs := wasiSignatures(context.Background())
	specs := classify(defs)
	if len(specs) != 46 {
		rep.Note("host module exports %d functions (46 expected)", len(specs))
	}
	rep.Count(fmt.Sprintf("exported-functions:%d", len(specs)))
	r := hx.Rand()

	var cases []Case
	tieVariants()
	if *hx.Replay != "" {
		cases = replayCases(*hx.Replay)
	} else {
		for _, f := range specs {
			if *onlyFn != "" && f.name != *onlyFn {
				continue
			}
			cs := genCases(f, hx.Thorough(), r)
			cases = append(cases, cs...)
		}
		// the F15 witness family goes first
		cases = append([]Case{
			{Fn: "poll_oneoff", Args: []uint64{0, 1024, 1 << 28, 2048}, State: "bare", Img: "zero", Engine: "interpreter", Tag: "witness"},
			{Fn: "poll_oneoff", Args: []uint64{0, 1024, 1 << 28, 2048}, State: "bare", Img: "zero", Engine: "compiler", Tag: "witness"},
			{Fn: "poll_oneoff", Args: []uint64{1024, 4096, 1<<28 + 2, 2048}, State: "dir", Img: "struct", Engine: "interpreter", Tag: "witness"},
		}, cases...)
	}
	// dedupe
	seen := map[string]bool{}
	var uniq []Case
	for _, c := range cases {
		k := key(c)
		if !seen[k] {
			seen[k] = true
			uniq = append(uniq, c)
		}
	}
	runAll(uniq)
	if *hx.Replay == "" && *onlyFn == "" && !*noTable {
		tableDifferential(r)
		otherMountsStage()
	}
	for f := range modelled {
		rep.Count("modelled-function:" + f)
	}
	var mon []string
	for _, f := range specs {
		if !modelled[f.name] {
			mon = append(mon, f.name)
		}
	}
	sort.Strings(mon)
	rep.Note("monitored only (no Lean footprint model): %s", strings.Join(mon, " "))
	rep.Sample(map[string]any{"first_cases": uniq[:min(3, len(uniq))]})
	rep.Write(orc)
}

// tieVariants replays the witness of every finding switch (F15 poll_oneoff, F62 readv, F61 sock_recv PEEK) and tells
// the oracle which variant of the model is tied to the code of this tree; it also probes the loopback interface.
func tieVariants() {
	// finding switches: replay the witnesses first
	w := runAlone(Case{Fn: "poll_oneoff", Args: []uint64{0, 1024, 1 << 28, 2048}, State: "bare", Img: "zero", Engine: "interpreter", Tag: "witness"})
	pollFixed = w.res != nil && w.res.Err == ""
	v := "asis"
	if pollFixed {
		v = "fixed"
	}
	rep.Note("finding switch F15: poll_oneoff variant tied to the code = %s", v)
	if a := orc.Askf("c15 variant %s", v); a != "ok" {
		hx.Fatal("oracle variant: %s", a)
	}
	if l, err := net.Listen("tcp", "127.0.0.1:0"); err == nil {
		l.Close()
		sockStateOK = true
	} else {
		rep.Count("state-sock:skipped-no-loopback")
		rep.Note("descriptor-table state `sock` skipped: cannot bind a loopback port (%v)", err)
	}
	{
		// finding switch F62: the first iovec buffer covers the second entry, the file's bytes are an iovec
		w := runAlone(Case{Fn: "fd_read", Args: []uint64{6, offIovC, 2, 16576}, State: "alias", Img: "struct", Engine: "interpreter", Tag: "witness"})
		v3 := "fixed"
		if w.res != nil {
			for _, d := range w.res.Diff {
				if d.Off == 4096 {
					v3 = "asis"
				}
			}
		}
		rep.Note("finding switch F62: readv variant tied to the code = %s", v3)
		if a := orc.Askf("c15 variant3 %s", v3); a != "ok" {
			hx.Fatal("oracle variant3: %s", a)
		}
	}
	if sockStateOK {
		// finding switch F61: sock_recv with RI_RECV_PEEK and ri_data_len = 0
		w := runAlone(Case{Fn: "sock_recv", Args: []uint64{4, 0, 0, 1, 0xffc0, 0x4140}, State: "sock", Img: "struct", Engine: "interpreter", Tag: "witness"})
		v2 := "asis"
		if w.res != nil && w.res.Err == "" {
			v2 = "fixed"
			for _, d := range w.res.Diff {
				if d.Off == 256 {
					v2 = "asis"
				}
			}
		}
		rep.Note("finding switch F61: sock_recv variant tied to the code = %s", v2)
		if a := orc.Askf("c15 variant2 %s", v2); a != "ok" {
			hx.Fatal("oracle variant2: %s", a)
		}
	}
}

func replayCases(path string) []Case {
	raw, err := os.ReadFile(path)
	if err != nil {
		hx.Fatal("replay: %v", err)
	}
	var rp struct {
		Impl []struct {
			Input json.RawMessage `json:"input"`
		} `json:"impl_violations"`
		Broken []struct {
			Detail json.RawMessage `json:"detail"`
		} `json:"broken"`
	}
	if err := json.Unmarshal(raw, &rp); err != nil {
		hx.Fatal("replay: %v", err)
	}
	var cs []Case
	for _, v := range rp.Impl {
		var c Case
		if json.Unmarshal(v.Input, &c) == nil && c.Fn != "" {
			cs = append(cs, c)
		}
	}
	for _, b := range rp.Broken {
		var d struct {
			Input Case `json:"input"`
		}
		if json.Unmarshal(b.Detail, &d) == nil && d.Input.Fn != "" {
			cs = append(cs, d.Input)
		}
	}
	return cs
}
