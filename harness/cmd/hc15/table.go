package main

// Direct differential of the real descriptor.Table against the Lean table model (tie B for the
// table part of C15), plus the representation invariant evaluated on the real table after every op.

import (
	"fmt"
	"math/rand"
	"reflect"

	"github.com/tetratelabs/wazero/internal/descriptor"
	"github.com/tetratelabs/wazero/verifharness/hx"
)

func tblShape(t *descriptor.Table[int32, *int]) (masks, items int, msg string) {
	v := reflect.ValueOf(t).Elem()
	m, it := v.FieldByName("masks"), v.FieldByName("items")
	masks, items = m.Len(), it.Len()
	if items != 64*masks {
		return masks, items, fmt.Sprintf("len(items)=%d != 64*len(masks)=%d", items, 64*masks)
	}
	for i := 0; i < items; i++ {
		bit := m.Index(i/64).Uint()&(1<<(uint(i)%64)) != 0
		if bit != !it.Index(i).IsNil() {
			return masks, items, fmt.Sprintf("key %d: bit=%v item-nil=%v", i, bit, it.Index(i).IsNil())
		}
	}
	return
}

func tableDifferential(r *rand.Rand) {
	keys := []int32{-2147483648, -65, -64, -1, 0, 1, 2, 3, 62, 63, 64, 65, 127, 128, 129, 191, 192, 255, 256, 1000, 4095, 4096, 65535, 65536}
	seqs := 60
	if hx.Thorough() {
		seqs = 600
	}
	for s := 0; s < seqs; s++ {
		t := &descriptor.Table[int32, *int]{}
		if a := orc.Ask("c15 tbl new"); a != "ok" {
			hx.Fatal("oracle tbl new: %s", a)
		}
		var hist []string
		n := 20 + r.Intn(120)
		nextItem := 1
		for k := 0; k < n; k++ {
			var got, ask string
			pick := func() int32 {
				if r.Intn(4) == 0 {
					return int32(r.Intn(300)) - 20
				}
				return keys[r.Intn(len(keys))]
			}
			switch op := r.Intn(10); {
			case op < 4:
				id := nextItem
				nextItem++
				key, ok := t.Insert(&id)
				got = fmt.Sprintf("%d %s", key, b01(ok))
				ask = fmt.Sprintf("c15 tbl insert %d", id)
			case op < 6:
				id := nextItem
				nextItem++
				key := pick()
				ok := t.InsertAt(&id, key)
				got = b01(ok)
				ask = fmt.Sprintf("c15 tbl insertat %d %d", id, key)
			case op < 8:
				key := pick()
				t.Delete(key)
				got = "ok"
				ask = fmt.Sprintf("c15 tbl delete %d", key)
			case op < 9 || k < 30:
				key := pick()
				it, ok := t.Lookup(key)
				got = "-"
				if ok {
					got = fmt.Sprint(*it)
				}
				ask = fmt.Sprintf("c15 tbl lookup %d", key)
			default:
				t.Reset()
				got = "ok"
				ask = "c15 tbl reset"
			}
			hist = append(hist, ask[8:])
			m, it, msg := tblShape(t)
			got = fmt.Sprintf("%s m=%d i=%d n=%d", got, m, it, t.Len())
			want := orc.Ask(ask)
			rep.Case("tbl/" + fmt.Sprint(s, "/", k))
			rep.Count("tbl-op:" + ask[8:12])
			if msg != "" {
				rep.Violate(hx.Violation{Kind: "impl-violation", Signature: "C15:descriptor-table-invariant-broken", What: "descriptor.Table representation invariant broken: " + msg, Input: hist})
				return
			}
			if got != want {
				rep.Violate(hx.Violation{Kind: "correspondence", Signature: "C15:table-model-differs", What: "descriptor.Table and the Lean table model disagree after " + ask[8:], Input: hist, Expected: want, Actual: got})
				break
			}
		}
	}
}

func b01(b bool) string {
	if b {
		return "1"
	}
	return "0"
}
