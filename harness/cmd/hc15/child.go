package main

// Child side of hc15: executes WASI calls of the REAL wasi_snapshot_preview1 host module through a
// real guest (import -> wrapper export) and reports errno / error text, the exact byte diff of the
// guest memory, heap allocation during the call and the descriptor table before/after.
//
// The child runs under RLIMIT_AS and GOMEMLIMIT (set by the parent / at start-up) so that an
// out-of-proportion allocation kills the child and not the machine.

import (
	"bufio"
	"bytes"
	"context"
	"encoding/hex"
	"encoding/json"
	"fmt"
	"io"
	"net"
	"os"
	"path/filepath"
	"reflect"
	"runtime"
	"runtime/debug"
	"sort"
	"strings"
	"syscall"
	"time"

	"github.com/tetratelabs/wazero"
	"github.com/tetratelabs/wazero/api"
	"github.com/tetratelabs/wazero/experimental/sock"
	expsys "github.com/tetratelabs/wazero/experimental/sys"
	"github.com/tetratelabs/wazero/imports/wasi_snapshot_preview1"
	socketapi "github.com/tetratelabs/wazero/internal/sock"
	isys "github.com/tetratelabs/wazero/internal/sys"
	"github.com/tetratelabs/wazero/internal/wasm"
	wsys "github.com/tetratelabs/wazero/sys"
	"github.com/tetratelabs/wazero/verifharness/wb"
)

// Case is one call of one WASI function.
type Case struct {
	ID     int      `json:"id"`
	Fn     string   `json:"fn"`
	Args   []uint64 `json:"args"`
	State  string   `json:"state"`  // bare | dir | hole | sock | sockp (sock + a pending connection) | alias (dir + p.bin open at 6) | dirread (dir, both directory streams read to the end before)
	Img    string   `json:"img"`    // zero | struct | ff | rand:<n>
	Engine string   `json:"engine"` // interpreter | compiler
	Tag    string   `json:"tag,omitempty"`
}

// Run is a maximal range of bytes that differ between the before and after image.
type Run struct {
	Off uint32 `json:"off"`
	Hex string `json:"hex"`
}

type FdEnt struct {
	Fd   int    `json:"fd"`
	Kind string `json:"kind"` // in | out | err | pre | file | dir | lsn | conn
}

type Result struct {
	ID       int     `json:"id"`
	Errno    int64   `json:"errno"` // -1 when the call ended with an error
	Err      string  `json:"err,omitempty"`
	Exit     bool    `json:"exit,omitempty"`
	ExitCode uint32  `json:"exit_code,omitempty"`
	Diff     []Run   `json:"diff,omitempty"`
	Alloc    uint64  `json:"alloc"`
	MemSize  uint32  `json:"mem_size"`
	TableMsg string  `json:"table_msg,omitempty"` // non-empty: descriptor table invariant broken
	Before   []FdEnt `json:"before"`
	After    []FdEnt `json:"after"`
	Masks    int     `json:"masks"`
	Items    int     `json:"items"`
	DurUS    int64   `json:"dur_us"`
	SleepNS  int64   `json:"sleep_ns,omitempty"`  // longest Nanosleep the host requested
	DirOrder string  `json:"dir_order,omitempty"` // states dir/hole/dirread: entries (hexname:filetype) of the mounted directory and of d/ in host listing order
}

const (
	memPages     = 1
	memSize      = memPages * 65536
	wallSec      = 1700000000
	wallNsec     = 123456789
	wallRes      = 1000
	monoNanos    = 987654321
	monoRes      = 1
	stdinContent = "hello wasi stdin!"
	fileContent  = "0123456789"
	preopenName  = "/"
	// p.bin: its first 8 bytes are an iovec (buf = 4096, len = 4) - read into a buffer that covers a later entry of the
	// iovec array of the same call, they redirect the next read (state alias: p.bin open at 6)
	aliasContent  = "\x00\x10\x00\x00\x04\x00\x00\x00ABCDEF"
	rlimitASBytes = 6 << 30
)

var (
	hostArgs = []string{"prog", "-x", "yz"}
	hostEnv  = [][2]string{{"A", "b"}, {"CD", "efg"}}
)

// counterReader yields 0,1,2,... (mod 256) from the start of each instance.
type counterReader struct{ n int }

func (c *counterReader) Read(p []byte) (int, error) {
	for i := range p {
		p[i] = byte(c.n)
		c.n++
	}
	return len(p), nil
}

type childEnv struct {
	ctx      context.Context
	rts      map[string]wazero.Runtime
	guests   map[string]wazero.CompiledModule
	dir      string
	wasiDefs map[string]api.FunctionDefinition
	dirty    bool // the scratch directory must be rebuilt before the next case that mounts it
}

// mutatesDir: functions that can change the mounted scratch directory (it is rebuilt after them).
func mutatesDir(fn string) bool {
	switch fn {
	case "fd_allocate", "fd_filestat_set_size", "fd_filestat_set_times", "fd_write", "fd_pwrite", "fd_fdstat_set_flags", "fd_close", "fd_renumber":
		return true
	}
	return strings.HasPrefix(fn, "path_")
}

// wasiSignatures enumerates the exported functions of the real host module.
func wasiSignatures(ctx context.Context) map[string]api.FunctionDefinition {
	rt := wazero.NewRuntimeWithConfig(ctx, wazero.NewRuntimeConfigInterpreter())
	defer rt.Close(ctx)
	cm, err := wasi_snapshot_preview1.NewBuilder(rt).Compile(ctx)
	if err != nil {
		panic(err)
	}
	return cm.ExportedFunctions()
}

// guestModule imports every WASI function and exports a forwarding wrapper `c_<name>` for each.
func guestModule(defs map[string]api.FunctionDefinition) []byte {
	names := make([]string, 0, len(defs))
	for n := range defs {
		names = append(names, n)
	}
	sort.Strings(names)
	m := wb.New()
	idx := map[string]uint32{}
	for _, n := range names {
		d := defs[n]
		idx[n] = m.ImportFunc("wasi_snapshot_preview1", n, d.ParamTypes(), d.ResultTypes())
	}
	one := uint32(memPages)
	m.Memory(memPages, &one, false, "memory")
	for _, n := range names {
		d := defs[n]
		var body []byte
		for i := range d.ParamTypes() {
			body = append(body, wb.LocalGet(uint32(i))...)
		}
		body = append(body, wb.Call(idx[n])...)
		m.AddFunc(wb.Func{Params: d.ParamTypes(), Results: d.ResultTypes(), Body: body, Export: "c_" + n})
	}
	return m.Bytes()
}

func newChildEnv(work string) *childEnv {
	ctx := context.Background()
	e := &childEnv{ctx: ctx, rts: map[string]wazero.Runtime{}, guests: map[string]wazero.CompiledModule{}}
	e.wasiDefs = wasiSignatures(ctx)
	e.dir = filepath.Join(work, fmt.Sprintf("c15-child-%d", os.Getpid()))
	e.dirty = true
	return e
}

func (e *childEnv) runtime(engine string) (wazero.Runtime, wazero.CompiledModule) {
	if rt, ok := e.rts[engine]; ok {
		return rt, e.guests[engine]
	}
	var rc wazero.RuntimeConfig
	if engine == "compiler" {
		rc = wazero.NewRuntimeConfigCompiler()
	} else {
		rc = wazero.NewRuntimeConfigInterpreter()
	}
	rt := wazero.NewRuntimeWithConfig(e.ctx, rc)
	if _, err := wasi_snapshot_preview1.Instantiate(e.ctx, rt); err != nil {
		panic(err)
	}
	cm, err := rt.CompileModule(e.ctx, guestModule(e.wasiDefs))
	if err != nil {
		panic(err)
	}
	e.rts[engine], e.guests[engine] = rt, cm
	return rt, cm
}

func (e *childEnv) rebuildDir() {
	os.RemoveAll(e.dir)
	must(os.MkdirAll(filepath.Join(e.dir, "d"), 0o755))
	must(os.WriteFile(filepath.Join(e.dir, "f.txt"), []byte(fileContent), 0o644))
	must(os.WriteFile(filepath.Join(e.dir, "d", "g"), []byte("g"), 0o644))
	must(os.Symlink("f.txt", filepath.Join(e.dir, "link")))
	must(os.WriteFile(filepath.Join(e.dir, "p.bin"), []byte(aliasContent), 0o644))
}

func must(err error) {
	if err != nil {
		fmt.Fprintf(os.Stderr, "HARNESS-FAULT: child: %v\n", err)
		os.Exit(2)
	}
}

// sleepNS: the longest sleep the host asked for during the current case (the harness never sleeps).
var sleepNS int64

func (e *childEnv) exec(c Case) Result {
	sleepNS = 0
	rt, cm := e.runtime(c.Engine)
	cfg := wazero.NewModuleConfig().WithName("").WithStartFunctions().
		WithArgs(hostArgs...).
		WithStdin(bytes.NewReader([]byte(stdinContent))).WithStdout(io.Discard).WithStderr(io.Discard).
		WithWalltime(func() (int64, int32) { return wallSec, wallNsec }, wallRes).
		WithNanotime(func() int64 { return monoNanos }, monoRes).
		WithNanosleep(func(ns int64) {
			if ns > sleepNS {
				sleepNS = ns
			}
		}).WithOsyield(func() {}).
		WithRandSource(&counterReader{})
	for _, kv := range hostEnv {
		cfg = cfg.WithEnv(kv[0], kv[1])
	}
	isSock := c.State == "sock" || c.State == "sockp"
	isDirState := c.State == "dir" || c.State == "hole" || c.State == "dirread" || c.State == "alias"
	if isDirState {
		if e.dirty {
			e.rebuildDir()
		}
		e.dirty = mutatesDir(c.Fn)
		cfg = cfg.WithFSConfig(wazero.NewFSConfig().WithDirMount(e.dir, preopenName))
	}
	ictx := e.ctx
	if isSock {
		ictx = sock.WithConfig(ictx, sock.NewConfig().WithTCPListener("127.0.0.1", 0))
	}
	mod, err := rt.InstantiateModule(ictx, cm, cfg)
	must(err)
	defer mod.Close(e.ctx)
	fsc := mod.(*wasm.ModuleInstance).Sys.FS()
	if isSock {
		// table {0,1,2, 3 = pre-opened TCP listener (non-blocking), 4 = an accepted connection whose peer has sent
		// 19 bytes and closed its sending side (reads end with EOF instead of blocking)}
		l, ok := fsc.LookupFile(3)
		if !ok {
			must(fmt.Errorf("no listener"))
		}
		a, ok := l.File.(interface{ Addr() *net.TCPAddr })
		if !ok {
			must(fmt.Errorf("listener of type %T has no Addr", l.File))
		}
		peer, derr := net.DialTimeout("tcp", a.Addr().String(), 5*time.Second)
		must(derr)
		defer peer.Close()
		peer.Write([]byte("hello from the peer"))
		peer.(*net.TCPConn).CloseWrite()
		out, aerr := mod.ExportedFunction("c_sock_accept").Call(e.ctx, 3, 0, 64)
		must(aerr)
		if out[0] != 0 {
			must(fmt.Errorf("setup sock_accept: errno %d", out[0]))
		}
		if _, ferr := mod.ExportedFunction("c_fd_fdstat_set_flags").Call(e.ctx, 3, 4); ferr != nil {
			must(ferr)
		}
		if c.State == "sockp" {
			// a second peer has connected and is waiting in the accept queue
			peer2, derr := net.DialTimeout("tcp", a.Addr().String(), 5*time.Second)
			must(derr)
			defer peer2.Close()
		}
	}
	if isDirState {
		pre, ok := fsc.LookupFile(3)
		if !ok {
			must(fmt.Errorf("no preopen"))
		}
		open := func(p string, fl expsys.Oflag) {
			if _, errno := fsc.OpenFile(pre.FS, p, fl, 0o600); errno != 0 {
				must(fmt.Errorf("setup open %s: %v", p, errno))
			}
		}
		open("f.txt", expsys.O_RDWR)                  // fd 4: regular file
		open("d", expsys.O_RDONLY|expsys.O_DIRECTORY) // fd 5: directory
		if c.State == "hole" {
			open("f.txt", expsys.O_RDONLY) // fd 6
			fsc.CloseFile(5)               // table {0,1,2,3,4,6}
		}
		if c.State == "alias" {
			open("p.bin", expsys.O_RDONLY) // fd 6
		}
		if c.State == "dirread" {
			for _, fd := range []uint64{3, 5} {
				out, rerr := mod.ExportedFunction("c_fd_readdir").Call(e.ctx, fd, 8192, 4096, 0, 16384)
				must(rerr)
				if out[0] != 0 {
					must(fmt.Errorf("setup fd_readdir(%d): errno %d", fd, out[0]))
				}
			}
		}
	}
	mem := mod.Memory()
	img := buildImage(c.Img, int(mem.Size()))
	if !mem.Write(0, img) {
		must(fmt.Errorf("image write"))
	}
	res := Result{ID: c.ID, Errno: -1, MemSize: mem.Size()}
	if isDirState {
		res.DirOrder = listOrder(e.dir) + " " + listOrder(filepath.Join(e.dir, "d"))
	}
	res.Before, _, _, _ = tableDump(fsc)
	f := mod.ExportedFunction("c_" + c.Fn)
	if f == nil {
		must(fmt.Errorf("no wrapper for %s", c.Fn))
	}
	var ms0, ms1 runtime.MemStats
	runtime.ReadMemStats(&ms0)
	t0 := time.Now()
	out, cerr := f.Call(e.ctx, c.Args...)
	res.DurUS = time.Since(t0).Microseconds()
	res.SleepNS = sleepNS
	runtime.ReadMemStats(&ms1)
	res.Alloc = ms1.TotalAlloc - ms0.TotalAlloc
	if cerr != nil {
		if ee, ok := cerr.(*wsys.ExitError); ok {
			res.Exit, res.ExitCode = true, ee.ExitCode()
		} else {
			res.Err = cerr.Error()
			if len(res.Err) > 600 {
				res.Err = res.Err[:600]
			}
		}
	} else if len(out) == 1 {
		res.Errno = int64(uint32(out[0]))
	} else {
		res.Err = fmt.Sprintf("unexpected result arity %d", len(out))
	}
	after, ok := mem.Read(0, mem.Size())
	if !ok || len(after) != len(img) {
		res.Err += " [memory size changed]"
	} else {
		res.Diff = diffRuns(img, after)
	}
	res.After, res.Masks, res.Items, res.TableMsg = tableDump(fsc)
	// The descriptor table is HOST state: nothing in it may be backed by guest memory.  Overwrite the whole guest
	// memory and read the table's strings again.
	if res.TableMsg == "" {
		before := tableNames(fsc)
		fill := bytes.Repeat([]byte{0xEE}, int(mem.Size()))
		mem.Write(0, fill)
		if now := tableNames(fsc); now != before {
			res.TableMsg = fmt.Sprintf("descriptor table entries changed when the guest memory was overwritten after the call (an entry is backed by guest memory): %q -> %q", before, now)
		}
	}
	return res
}

// tableNames: fd=name of every table entry, copied out of whatever memory backs the strings.
func tableNames(fsc any) string {
	v := reflect.ValueOf(fsc).Elem().FieldByName("openedFiles")
	items := v.FieldByName("items")
	var sb strings.Builder
	for i := 0; i < items.Len(); i++ {
		it := items.Index(i)
		if it.IsNil() {
			continue
		}
		fmt.Fprintf(&sb, "%d=%s;", i, strings.Clone(it.Elem().FieldByName("Name").String()))
	}
	return sb.String()
}

// listOrder: the entries of a host directory in the order the host lists it (not sorted), as `hexname:wasi-filetype`.
func listOrder(dir string) string {
	f, err := os.Open(dir)
	if err != nil {
		return "?"
	}
	defer f.Close()
	names, err := f.Readdirnames(-1)
	if err != nil {
		return "?"
	}
	if len(names) == 0 {
		return "-"
	}
	ls := make([]string, len(names))
	for i, n := range names {
		ty := 0
		if st, err := os.Lstat(filepath.Join(dir, n)); err == nil {
			switch {
			case st.Mode().IsRegular():
				ty = 4
			case st.Mode().IsDir():
				ty = 3
			case st.Mode()&os.ModeSymlink != 0:
				ty = 7
			}
		}
		ls[i] = fmt.Sprintf("%s:%d", hex.EncodeToString([]byte(n)), ty)
	}
	return strings.Join(ls, ",")
}

func diffRuns(a, b []byte) []Run {
	var runs []Run
	for i := 0; i < len(a); {
		if a[i] == b[i] {
			i++
			continue
		}
		j := i
		for j < len(a) && a[j] != b[j] {
			j++
		}
		runs = append(runs, Run{Off: uint32(i), Hex: hex.EncodeToString(b[i:j])})
		i = j
	}
	return runs
}

// tableDump reads the descriptor table of the FSContext through reflection (no hook needed) and
// checks its representation invariant: len(items) == 64*len(masks), bit set <=> item non-nil.
func tableDump(fsc any) (ents []FdEnt, nmasks, nitems int, msg string) {
	v := reflect.ValueOf(fsc).Elem().FieldByName("openedFiles")
	masks, items := v.FieldByName("masks"), v.FieldByName("items")
	nmasks, nitems = masks.Len(), items.Len()
	if nitems != 64*nmasks {
		msg = fmt.Sprintf("len(items)=%d != 64*len(masks)=%d", nitems, 64*nmasks)
		return
	}
	for i := 0; i < nitems; i++ {
		bit := masks.Index(i/64).Uint()&(1<<(uint(i)%64)) != 0
		it := items.Index(i)
		if bit != !it.IsNil() {
			msg = fmt.Sprintf("fd %d: mask bit %v but item nil=%v", i, bit, it.IsNil())
			return
		}
		if !bit {
			continue
		}
		fe := it.Elem()
		kind := "file"
		name := fe.FieldByName("Name").String()
		pre := fe.FieldByName("IsPreopen").Bool()
		switch {
		case pre && i == 0 && name == "stdin":
			kind = "in"
		case pre && i == 1 && name == "stdout":
			kind = "out"
		case pre && i == 2 && name == "stderr":
			kind = "err"
		case pre && name == "stdin":
			kind = "in"
		case pre && (name == "stdout" || name == "stderr"):
			kind = "out"
		case pre:
			kind = "pre"
		case name == "d" || name == "d/":
			kind = "dir"
		}
		// what the entry IS decides over the name: sockets, and directories opened under another name (".", "d/.")
		if entry := (*isys.FileEntry)(it.UnsafePointer()); entry != nil && entry.File != nil {
			if _, ok := entry.File.(socketapi.TCPSock); ok {
				kind = "lsn"
			} else if _, ok := entry.File.(socketapi.TCPConn); ok {
				kind = "conn"
			} else if kind == "file" {
				if isDir, errno := entry.File.IsDir(); errno == 0 && isDir {
					kind = "dir"
				}
			}
		}
		ents = append(ents, FdEnt{Fd: i, Kind: kind})
	}
	return
}

func childMain(work string) {
	// Hard cap of the address space: a 16 GiB allocation request must fail inside this process.
	lim := syscall.Rlimit{Cur: rlimitASBytes, Max: rlimitASBytes}
	if err := syscall.Setrlimit(syscall.RLIMIT_AS, &lim); err != nil {
		must(fmt.Errorf("setrlimit: %v", err))
	}
	debug.SetMemoryLimit(1 << 30)
	e := newChildEnv(work)
	defer os.RemoveAll(e.dir)
	in := bufio.NewReaderSize(os.Stdin, 1<<20)
	out := bufio.NewWriter(os.Stdout)
	for {
		line, err := in.ReadBytes('\n')
		if len(line) > 0 {
			var c Case
			if jerr := json.Unmarshal(line, &c); jerr != nil {
				must(jerr)
			}
			r := e.exec(c)
			b, _ := json.Marshal(r)
			out.Write(b)
			out.WriteByte('\n')
			out.Flush()
		}
		if err != nil {
			break
		}
	}
	os.RemoveAll(e.dir)
}
