package main

// Unit-level tie B for core 3: the real lowerToAddressMode (through the TestVerifAmode hook) against
// the Lean model, exhaustive over addend shapes × boundary constants × static offsets, plus the
// direct monitor: the returned amode, evaluated with x86-64 semantics, must equal the pointer
// expression's value + zero-extended offset for every shape the front end can emit.

import (
	"bufio"
	"bytes"
	"context"
	"fmt"
	"math/rand"
	"os"
	"os/exec"
	"path/filepath"
	"strconv"
	"strings"
	"time"

	"github.com/tetratelabs/wazero/verifharness/hx"
)

type addend struct {
	otoks   string                                    // what the Lean model is asked (default: toks)
	derive  map[int]func(rho func(int) uint64) uint64 // vregs whose content is defined by an instruction of the shape
	toks    string
	shape   bool // AExpr.frontendShape
	isShl   bool
	extMSB  bool // extend of a constant with the top bit set (F1 class)
	eval    func(rho func(int) uint64) uint64
	cleanOK func(rho func(int) uint64) bool
}

func yes(func(int) uint64) bool { return true }

func addends(rnd *rand.Rand) []addend {
	c32 := []uint64{0, 1, 0x7fffffff, 0x80000000, 0xffffffff, uint64(rnd.Uint32())}
	c64 := append(append([]uint64{}, c32...), 0x100000000, 0xffffffff80000000, 0xffffffffffffffff, rnd.Uint64())
	var out []addend
	out = append(out, addend{toks: "r64 1", shape: true, eval: func(r func(int) uint64) uint64 { return r(1) }, cleanOK: yes})
	out = append(out, addend{toks: "r64 6", shape: true, eval: func(r func(int) uint64) uint64 { return r(6) }, cleanOK: yes})
	for _, c := range c64 {
		c := c
		for m := 0; m < 2; m++ {
			out = append(out, addend{toks: fmt.Sprintf("k64 %d %d", c, m), shape: true, eval: func(func(int) uint64) uint64 { return c }, cleanOK: yes})
		}
	}
	for _, c := range c32 {
		c := c
		for m := 0; m < 2; m++ {
			out = append(out, addend{toks: fmt.Sprintf("k32 %d %d", c, m), shape: false, eval: func(func(int) uint64) uint64 { return c }, cleanOK: yes})
		}
		out = append(out, addend{toks: fmt.Sprintf("ux c %d", c), shape: true, extMSB: c&0x80000000 != 0, eval: func(func(int) uint64) uint64 { return c }, cleanOK: yes})
		out = append(out, addend{toks: fmt.Sprintf("sx c %d", c), shape: true, extMSB: c&0x80000000 != 0, eval: func(func(int) uint64) uint64 { return uint64(int64(int32(uint32(c)))) }, cleanOK: yes})
	}
	clean2 := func(r func(int) uint64) bool { return r(2) < 1<<32 }
	out = append(out, addend{toks: "ux r 2", shape: true, eval: func(r func(int) uint64) uint64 { return uint64(uint32(r(2))) }, cleanOK: clean2})
	out = append(out, addend{toks: "sx r 2", shape: false, eval: func(r func(int) uint64) uint64 { return uint64(int64(int32(uint32(r(2))))) }, cleanOK: clean2})
	for _, x := range []string{"xr 4", "xc 0", "xc 5", "xc 18446744073709551615"} {
		x := x
		xe := func(r func(int) uint64) uint64 {
			f := strings.Fields(x)
			if f[0] == "xr" {
				return r(4)
			}
			v, _ := strconv.ParseUint(f[1], 10, 64)
			return v
		}
		for _, a := range []uint64{0, 1, 2, 3, 4, 64} {
			a := a
			out = append(out, addend{toks: fmt.Sprintf("shl %s ac %d", x, a), shape: a <= 3, isShl: true, eval: func(r func(int) uint64) uint64 { return xe(r) << (a % 64) }, cleanOK: yes})
		}
		out = append(out, addend{toks: fmt.Sprintf("shl %s ar 5", x), shape: false, isShl: true, eval: func(r func(int) uint64) uint64 { return xe(r) << (r(5) % 64) }, cleanOK: yes})
	}
	// UExtend / SExtend of a MATCHED 32-bit instruction (single use, same group): the model treats the operand as
	// "any non-constant 32-bit value living in its own vreg" (Op32.r32); the real code must not look through it
	// in a way that changes the 32-bit wrap-around (e.g. fold `x << c` into the SIB scale: x*2^c is computed in
	// 64 bits).  Operand in vreg 2, result of the 32-bit instruction in vreg 7.
	for _, op := range []string{"shl", "add", "mul"} {
		for _, c := range []uint32{0, 1, 2, 3, 4, 31, 0x80000000} {
			if op == "shl" && c > 31 {
				continue
			}
			op, c := op, c
			f32 := func(r func(int) uint64) uint32 {
				x := uint32(r(2))
				switch op {
				case "shl":
					return x << c
				case "add":
					return x + c
				}
				return x * c
			}
			dv := map[int]func(func(int) uint64) uint64{7: func(r func(int) uint64) uint64 { return uint64(f32(r)) }}
			out = append(out, addend{toks: fmt.Sprintf("ux i %s 2 %d 7", op, c), otoks: "ux r 7", derive: dv, shape: true,
				eval: func(r func(int) uint64) uint64 { return uint64(f32(r)) }, cleanOK: clean2})
		}
	}
	return out
}

type amCase struct {
	otoks  string
	derive map[int]func(rho func(int) uint64) uint64
	id     int
	off    uint32
	toks   string
	shape  bool
	extMSB bool
	eval   func(rho func(int) uint64) uint64
	clean  func(rho func(int) uint64) bool
}

func parseReg(s string, rho func(int) uint64) (uint64, bool) {
	switch {
	case strings.HasPrefix(s, "v"):
		n, err := strconv.Atoi(s[1:])
		return rho(n), err == nil
	case strings.HasPrefix(s, "t"):
		n, err := strconv.ParseUint(s[1:], 10, 64)
		return n, err == nil
	case strings.HasPrefix(s, "s"):
		p := strings.Split(s[1:], ":")
		if len(p) != 2 {
			return 0, false
		}
		n, e1 := strconv.Atoi(p[0])
		k, e2 := strconv.Atoi(p[1])
		return rho(n) << uint(k), e1 == nil && e2 == nil
	}
	return 0, false
}

// evalAmode: x86-64 effective address of a canonical amode string.
func evalAmode(s string, rho func(int) uint64) (uint64, bool) {
	var imm uint64
	var base, index string
	for _, f := range strings.Fields(s) {
		switch {
		case strings.HasPrefix(f, "imm="):
			n, err := strconv.ParseUint(f[4:], 10, 32)
			if err != nil {
				return 0, false
			}
			imm = uint64(int64(int32(uint32(n))))
		case strings.HasPrefix(f, "base="):
			base = f[5:]
		case strings.HasPrefix(f, "index="):
			index = f[6:]
		}
	}
	b, ok := parseReg(base, rho)
	if !ok {
		return 0, false
	}
	v := imm + b
	if index != "-" {
		p := strings.Split(index, "*")
		if len(p) != 2 {
			return 0, false
		}
		i, ok := parseReg(p[0], rho)
		k, err := strconv.Atoi(p[1])
		if !ok || err != nil {
			return 0, false
		}
		v += i << uint(k)
	}
	return v, true
}

func amodeUnit(work string, rnd *rand.Rand) {
	repo := os.Getenv("VERIF_REPO")
	if repo == "" {
		repo = "/repo"
	}
	hook := filepath.Join(repo, "internal/engine/wazevo/backend/isa/amd64/verif_amode_test.go")
	if _, err := os.Stat(hook); err != nil {
		rep.Count("amode-hook:absent")
		rep.Note("amode unit tie SKIPPED: hook %s is not installed (apply repo_patches/C02-hook-amode.diff)", hook)
		return
	}
	as := addends(rnd)
	offs := []uint32{0, 1, 0x7fffffff, 0x80000000, 0xffffffff, rnd.Uint32()}
	var cases []*amCase
	ot := func(a addend) string {
		if a.otoks != "" {
			return a.otoks
		}
		return a.toks
	}
	merge := func(ms ...map[int]func(func(int) uint64) uint64) map[int]func(func(int) uint64) uint64 {
		out := map[int]func(func(int) uint64) uint64{}
		for _, m := range ms {
			for k, v := range m {
				out[k] = v
			}
		}
		return out
	}
	var pendingO string
	var pendingD map[int]func(func(int) uint64) uint64
	add := func(off uint32, toks string, shape, ext bool, ev func(func(int) uint64) uint64, cl func(func(int) uint64) bool) {
		cases = append(cases, &amCase{id: len(cases), off: off, toks: toks, otoks: pendingO, derive: pendingD, shape: shape, extMSB: ext, eval: ev, clean: cl})
	}
	for _, off := range offs {
		for _, a := range as {
			a := a
			pendingO, pendingD = "S "+ot(a), a.derive
			add(off, "S "+a.toks, a.shape, a.extMSB, a.eval, a.cleanOK)
			for _, b := range as {
				b := b
				if a.derive != nil && b.derive != nil {
					continue // both would define vreg 7
				}
				pendingO, pendingD = "A 9 "+ot(a)+" "+ot(b), merge(a.derive, b.derive)
				add(off, "A 9 "+a.toks+" "+b.toks, a.shape && b.shape && !(a.isShl && b.isShl), a.extMSB || b.extMSB,
					func(r func(int) uint64) uint64 { return a.eval(r) + b.eval(r) },
					func(r func(int) uint64) bool { return a.cleanOK(r) && b.cleanOK(r) })
			}
		}
	}
	in := filepath.Join(work, "amode-in.txt")
	outp := filepath.Join(work, "amode-out.txt")
	var sb strings.Builder
	for _, c := range cases {
		fmt.Fprintf(&sb, "%d %d %s\n", c.id, c.off, c.toks)
	}
	if err := os.WriteFile(in, []byte(sb.String()), 0o644); err != nil {
		hx.Fatal("%v", err)
	}
	ctx, cancel := context.WithTimeout(context.Background(), 10*time.Minute)
	defer cancel()
	cmd := exec.CommandContext(ctx, "go", "test", "-tags", "verif", "-count=1", "-run", "^TestVerifAmode$", "./internal/engine/wazevo/backend/isa/amd64/")
	cmd.Dir = repo
	cmd.Env = append(os.Environ(), "WAZERO_VERIF_AMODE_IN="+in, "WAZERO_VERIF_AMODE_OUT="+outp,
		"GOFLAGS=-mod=mod", "GOPROXY=off", "GOSUMDB=off", "GOTOOLCHAIN=local")
	var ob bytes.Buffer
	cmd.Stdout, cmd.Stderr = &ob, &ob
	if err := cmd.Run(); err != nil {
		// the hook (or the package's tests) no longer builds/runs against this tree: the tie is broken,
		// which is a correspondence failure, not an infrastructure fault of the harness
		rep.Violate(hx.Violation{Kind: "correspondence", Signature: "C02:amode-hook-failed",
			What: "go test -tags verif -run TestVerifAmode failed: " + tail(ob.String(), 1500)})
		return
	}
	f, err := os.Open(outp)
	if err != nil {
		hx.Fatal("amode hook wrote no output: %v\n%s", err, tail(ob.String(), 800))
	}
	defer f.Close()
	got := map[int]string{}
	sc := bufio.NewScanner(f)
	for sc.Scan() {
		line := sc.Text()
		sp := strings.IndexByte(line, ' ')
		if sp < 0 {
			continue
		}
		id, err := strconv.Atoi(line[:sp])
		if err == nil {
			got[id] = line[sp+1:]
		}
	}
	// register valuations for the direct monitor: 64-bit contents incl. top bits set; 32-bit values clean
	rhos := []func(int) uint64{
		func(r int) uint64 { return 0 },
		func(r int) uint64 {
			return []uint64{0, 0x7f0000000000, 0xfffffff0, 0x123456789, 0xffffffffffffffff, 63, 0x8000000000000000, 0, 0, 0}[r%10]
		},
		func(r int) uint64 {
			return []uint64{7, 0xffffffff80000000, 0x80000000, 1, 0x4000000000000001, 3, 0xdeadbeefcafe, 0, 0, 0}[r%10]
		},
	}
	nAsIs, nFixed, nDiff := 0, 0, 0
	for _, c := range cases {
		real, ok := got[c.id]
		if !ok {
			hx.Fatal("amode hook: no result for case %d (%s)", c.id, c.toks)
		}
		asis := orc.Askf("c02 amode 0 %d %s", c.off, c.otoks)
		fixed := orc.Askf("c02 amode 1 %d %s", c.off, c.otoks)
		rep.Case(fmt.Sprintf("amode/%d/%s", c.off, c.toks))
		in := map[string]any{"offBase": c.off, "ptr": c.toks}
		switch {
		case asis != fixed:
			nDiff++
			if real == asis {
				nAsIs++
			} else if real == fixed {
				nFixed++
			}
		}
		if real != asis && real != fixed {
			rep.Violate(hx.Violation{Kind: "correspondence", Signature: "C02:amode-model-differs",
				What: "real lowerToAddressMode result matches neither variant of the Lean model", Input: in,
				Expected: map[string]string{"as-is": asis, "repaired": fixed}, Actual: real})
			continue
		}
		// monitor: the property's own predicate on the real result
		if !c.shape || real == "panic" {
			if real == "panic" && c.shape {
				rep.Violate(hx.Violation{Kind: "impl-violation", Signature: "C02:amode-panics-on-frontend-shape",
					What: "lowerToAddressMode panics on a pointer shape the front end can emit", Input: in, Actual: real})
			}
			rep.Count("amode:outside-frontend-shape")
			continue
		}
		for ri, rho0 := range rhos {
			rho := rho0
			if len(c.derive) > 0 {
				rho = func(r int) uint64 {
					if f, ok := c.derive[r]; ok {
						return f(rho0)
					}
					return rho0(r)
				}
			}
			r9 := rho
			if strings.HasPrefix(c.toks, "A 9") {
				// the Iadd's own vreg holds its value
				base := rho
				r9 = func(r int) uint64 {
					if r == 9 {
						return c.eval(base)
					}
					return base(r)
				}
			}
			if !c.clean(r9) {
				continue
			}
			want := c.eval(r9) + uint64(c.off)
			have, ok := evalAmode(real, r9)
			if !ok {
				hx.Fatal("cannot evaluate amode %q", real)
			}
			if have != want {
				sig := "C02:amode-wrong-address"
				if c.extMSB && real == asis && real != fixed {
					sig = "F1:amd64-amode-extend-of-constant-msb-set-wrong-extension"
				}
				rep.Violate(hx.Violation{Kind: "impl-violation", Signature: sig,
					What:     "the address mode returned by the real lowerToAddressMode evaluates to a different address than pointer + zero-extended offset",
					Input:    map[string]any{"offBase": c.off, "ptr": c.toks, "valuation": ri},
					Expected: fmt.Sprintf("%#x", want), Actual: fmt.Sprintf("%s = %#x", real, have)})
				break
			}
		}
	}
	rep.Count(fmt.Sprintf("amode:cases=%d", len(cases)))
	variant := "repaired"
	if nAsIs > 0 && nFixed == 0 {
		variant = "as-is (F1 present)"
	} else if nAsIs > 0 && nFixed > 0 {
		variant = "MIXED"
		rep.Violate(hx.Violation{Kind: "correspondence", Signature: "C02:amode-variant-mixed",
			What: fmt.Sprintf("the real lowering matches the as-is model on %d and the repaired model on %d of the %d distinguishing cases", nAsIs, nFixed, nDiff)})
	}
	rep.Note("amode unit tie: %d cases (exhaustive over %d addend shapes/constants, singles and pairs, × %d offsets); %d cases distinguish the variants; the tree corresponds to the %s variant of the model", len(cases), len(as), len(offs), nDiff, variant)
	rep.Count("amode-variant:" + variant)
}
