// hc02: correspondence + monitor harness for C02 (guest memory accesses never leave the linear memory).
//
// Tie B (end to end): generated programs (access templates × widths × base/offset boundary grid ×
// memory sizes 0 … 65536 pages × placement relative to earlier checks, calls, memory.grow, block
// merges and loop back edges) run on BOTH engines inside supervised child processes; the Lean oracle
// (topic c02; the proved specification and the regenerated interpreter model) decides trap-or-address
// for every access, the harness derives the loaded values / final bytes from that.
// Tie C (monitor): the linear memory is placed by a custom experimental.MemoryAllocator between
// 8 GiB PROT_NONE guards and is moved on every growth, so an access outside the current [0,size)
// kills the child: a child crash is a violation with the program as replay; after each program the
// bytes around every access are compared (stores touch exactly the addressed bytes; trapping
// accesses write nothing).
// Tie B (unit): the TestVerifAmode hook runs the real amd64 lowerToAddressMode on enumerated pointer
// expression shapes × boundary constants; results are compared with the Lean model (both the as-is and
// the repaired variant) and evaluated directly against the expression's value (monitor).
package main

import (
	"bufio"
	"bytes"
	"context"
	"encoding/hex"
	"encoding/json"
	"errors"
	"flag"
	"fmt"
	"math/rand"
	"os"
	"os/exec"
	"path/filepath"
	"regexp"
	"strings"
	"sync"
	"time"

	"github.com/tetratelabs/wazero"
	"github.com/tetratelabs/wazero/api"
	"github.com/tetratelabs/wazero/experimental"
	"github.com/tetratelabs/wazero/internal/wasmruntime"
	"github.com/tetratelabs/wazero/verifharness/hx"
)

var (
	orc *hx.Oracle
	rep *hx.Report

	childJobs = flag.String("child-jobs", "", "(internal) run as supervised child: job file")
	childRes  = flag.String("child-res", "", "(internal) result file of the child")
	noAmode   = flag.Bool("no-amode", false, "skip the amode unit hook")
	onlyTmpl  = flag.String("only", "", "only templates with this prefix (debugging)")
)

type Job struct {
	ID     int     `json:"id"`
	Engine string  `json:"engine"`
	Prog   *Prog   `json:"prog"`
	Exp    *Expect `json:"exp"`
}

type Result struct {
	ID     int      `json:"id"`
	Err    string   `json:"err"` // "", "oob", "unaligned", or other error text
	Ret    uint64   `json:"ret"`
	Pages  uint32   `json:"pages"`
	Probes []string `json:"probes"`
	Moves  int      `json:"moves"`
	Fault  string   `json:"fault,omitempty"` // set by the parent when the child died on this job
}

// ---------------- child ----------------

var runtimes = map[string]wazero.Runtime{}

func features() api.CoreFeatures { return api.CoreFeaturesV2 | experimental.CoreFeaturesThreads }

func runtimeFor(engine string, cfm bool) wazero.Runtime {
	key := engine
	if cfm {
		key += "+cfm"
	}
	if r, ok := runtimes[key]; ok {
		return r
	}
	var rc wazero.RuntimeConfig
	if engine == "compiler" {
		rc = wazero.NewRuntimeConfigCompiler()
	} else {
		rc = wazero.NewRuntimeConfigInterpreter()
	}
	r := wazero.NewRuntimeWithConfig(context.Background(), rc.WithCoreFeatures(features()).WithMemoryLimitPages(65536).WithMemoryCapacityFromMax(cfm))
	runtimes[key] = r
	return r
}

func runJob(j *Job, res *os.File) Result {
	ctx := context.Background()
	p := j.Prog
	lastAlloc = nil
	if p.Alloc {
		ctx = experimental.WithMemoryAllocator(ctx, guardedAllocator(p.Move))
	}
	rt := runtimeFor(j.Engine, p.CFM)
	out := Result{ID: j.ID}
	if strings.HasPrefix(p.Mem, "imported") {
		owner, err := rt.InstantiateWithConfig(ctx, p.ownerBytes(), wazero.NewModuleConfig().WithName("owner"))
		if err != nil {
			out.Err = "instantiate owner: " + err.Error()
			return out
		}
		defer owner.Close(ctx)
	}
	cm, err := rt.CompileModule(ctx, p.wasmBytes())
	if err != nil {
		out.Err = "compile: " + err.Error()
		return out
	}
	defer cm.Close(ctx)
	mod, err := rt.InstantiateModule(ctx, cm, wazero.NewModuleConfig().WithName(""))
	if err != nil {
		out.Err = "instantiate: " + err.Error()
		return out
	}
	defer mod.Close(ctx)
	g := lastAlloc
	if p.Alloc && g == nil {
		out.Err = "allocator not used"
		return out
	}
	mem := mod.Memory()
	for _, r := range j.Exp.Prefill {
		for i := r[0]; i < r[1]; i++ {
			if g != nil {
				g.slice()[i] = mix(i)
			} else if !mem.WriteByte(uint32(i), mix(i)) {
				out.Err = "prefill failed"
				return out
			}
		}
	}
	if g != nil {
		fmt.Fprintf(res, "M %d %#x %d\n", j.ID, slotAddr(g, g.cur), g.size)
	}
	rets, err := mod.ExportedFunction("run").Call(ctx, uint64(p.P), uint64(p.C))
	switch {
	case err == nil:
		out.Ret = rets[0]
	case errors.Is(err, wasmruntime.ErrRuntimeOutOfBoundsMemoryAccess):
		out.Err = "oob"
	case errors.Is(err, wasmruntime.ErrRuntimeUnalignedAtomic):
		out.Err = "unaligned"
	default:
		out.Err = "error: " + err.Error()
	}
	var cur []byte
	if g != nil {
		cur = g.slice()
		out.Moves = g.moves
		out.Pages = uint32(g.size >> 16)
	} else {
		// Go-heap memory: small sizes only
		sz := uint64(mem.Size())
		cur, _ = mem.Read(0, uint32(sz))
		out.Pages = uint32(sz >> 16)
	}
	for _, r := range j.Exp.Probes {
		a, b := r[0], r[1]
		if b > uint64(len(cur)) {
			b = uint64(len(cur))
		}
		if a > b {
			a = b
		}
		out.Probes = append(out.Probes, hex.EncodeToString(cur[a:b]))
	}
	return out
}

func childMain() {
	raw, err := os.ReadFile(*childJobs)
	if err != nil {
		childFatal("%v", err)
	}
	var jobs []*Job
	if err := json.Unmarshal(raw, &jobs); err != nil {
		childFatal("%v", err)
	}
	res, err := os.OpenFile(*childRes, os.O_CREATE|os.O_WRONLY|os.O_APPEND, 0o644)
	if err != nil {
		childFatal("%v", err)
	}
	for _, j := range jobs {
		fmt.Fprintf(res, "S %d\n", j.ID)
		r := runJob(j, res)
		b, _ := json.Marshal(r)
		fmt.Fprintf(res, "R %s\n", b)
	}
	res.Close()
	os.Exit(0)
}

// ---------------- parent: supervision ----------------

var faultRe = regexp.MustCompile(`addr=(0x[0-9a-f]+)`)

// runBatch runs jobs in supervised children; a child that dies marks the job it was running as
// faulted and the rest of the batch continues in a fresh child.
func runBatch(work string, tag int, jobs []*Job) map[int]Result {
	results := map[int]Result{}
	self, _ := os.Executable()
	round := 0
	for len(jobs) > 0 {
		round++
		jf := filepath.Join(work, fmt.Sprintf("jobs-%d-%d.json", tag, round))
		rf := filepath.Join(work, fmt.Sprintf("res-%d-%d.txt", tag, round))
		b, _ := json.Marshal(jobs)
		if err := os.WriteFile(jf, b, 0o644); err != nil {
			hx.Fatal("%v", err)
		}
		ctx, cancel := context.WithTimeout(context.Background(), 10*time.Minute)
		cmd := hx.Supervised(exec.CommandContext(ctx, self, "-child-jobs", jf, "-child-res", rf))
		cmd.Env = append(os.Environ(), "GOMEMLIMIT=2GiB", "GOTRACEBACK=single")
		if g := os.Getenv("HC02_CHILD_GOGC"); g != "" {
			cmd.Env = append(cmd.Env, "GOGC="+g)
		}
		var stderr bytes.Buffer
		cmd.Stderr = &stderr
		cmd.Stdout = &stderr
		err := cmd.Run()
		timedOut := ctx.Err() != nil
		cancel()
		if ee, ok := err.(*exec.ExitError); ok && ee.ExitCode() == 3 {
			hx.Fatal("child infrastructure fault: %s", tail(stderr.String(), 800))
		}
		started := -1
		memBase := map[int]string{}
		done := map[int]bool{}
		if f, e := os.Open(rf); e == nil {
			sc := bufio.NewScanner(f)
			sc.Buffer(make([]byte, 1<<20), 1<<26)
			for sc.Scan() {
				line := sc.Text()
				switch {
				case strings.HasPrefix(line, "S "):
					fmt.Sscanf(line[2:], "%d", &started)
				case strings.HasPrefix(line, "M "):
					var id int
					var rest string
					fmt.Sscanf(line[2:], "%d", &id)
					rest = strings.TrimSpace(line[2:])
					memBase[id] = rest
				case strings.HasPrefix(line, "R "):
					var r Result
					if json.Unmarshal([]byte(line[2:]), &r) == nil {
						results[r.ID] = r
						done[r.ID] = true
					}
				}
			}
			f.Close()
		}
		os.Remove(jf)
		os.Remove(rf)
		if err == nil {
			break
		}
		// the child died: job `started` (if not done) is the culprit
		if started < 0 || done[started] {
			hx.Fatal("child died outside a job (err=%v timeout=%v): %s", err, timedOut, tail(stderr.String(), 800))
		}
		what := "process fault"
		if timedOut {
			what = "timeout"
		}
		se := stderr.String()
		fault := fmt.Sprintf("%s: %v; %s", what, err, firstLines(se, 3))
		if m := faultRe.FindStringSubmatch(se); m != nil {
			fault += fmt.Sprintf(" [fault addr=%s; memory (id base size)=%s]", m[1], memBase[started])
		}
		results[started] = Result{ID: started, Fault: fault}
		var rest []*Job
		for _, j := range jobs {
			if !done[j.ID] && j.ID != started {
				rest = append(rest, j)
			}
		}
		jobs = rest
	}
	return results
}

func tail(s string, n int) string {
	if len(s) > n {
		return s[len(s)-n:]
	}
	return s
}

func firstLines(s string, n int) string {
	ls := strings.Split(s, "\n")
	if len(ls) > n {
		ls = ls[:n]
	}
	return strings.Join(ls, " | ")
}

// ---------------- parent: verdicts ----------------

func hasConstMSB(ss []Stmt) bool {
	for _, s := range ss {
		if (s.K == "setcb" || (s.K == "acc" && s.Src == "const")) && s.B&0x80000000 != 0 {
			return true
		}
		if hasConstMSB(s.Body) || hasConstMSB(s.Else) {
			return true
		}
	}
	return false
}

func hasOp(ss []Stmt, op string) bool {
	for _, s := range ss {
		if s.K == "acc" && s.Op == op {
			return true
		}
		if hasOp(s.Body, op) || hasOp(s.Else, op) {
			return true
		}
	}
	return false
}

type vinput struct {
	Engine string `json:"engine"`
	Prog   *Prog  `json:"prog"`
}

func judge(j *Job, r Result) {
	p, e := j.Prog, j.Exp
	in := vinput{j.Engine, p}
	key := fmt.Sprintf("%s/%s/%d/%d/%d/%s", j.Engine, p.Tmpl, p.Pages, p.P, p.C, progKey(p))
	rep.Case(key)
	rep.Count("engine:" + j.Engine)
	rep.Count("tmpl:" + p.Tmpl)
	rep.Count(fmt.Sprintf("pages:%d", p.Pages))
	rep.Count("expect:" + map[bool]string{true: "trap", false: "value"}[e.Trap != ""])
	if r.Fault != "" {
		sig := fmt.Sprintf("C02:crash:%s:%s", j.Engine, p.Tmpl)
		if j.Engine == "compiler" && hasConstMSB(p.Body) && p.Pages > 32768 {
			sig = "F1:compiler-amd64-const-base-msb-set-sign-extended"
		}
		rep.Violate(hx.Violation{Kind: "impl-violation", Signature: sig,
			What:  "the process running the guest faulted: generated code accessed a host address outside the linear memory (guard region hit)",
			Input: in, Expected: e.Trap + fmt.Sprintf(" ret=%#x", e.Ret), Actual: r.Fault})
		return
	}
	if p.Mem == "imported-mismatch" && strings.HasPrefix(r.Err, "instantiate:") && strings.Contains(r.Err, "shared") {
		rep.Count("imported-mismatch:refused-by-the-linker")
		return
	}
	if strings.HasPrefix(r.Err, "compile:") || strings.HasPrefix(r.Err, "instantiate:") || r.Err == "allocator not used" || r.Err == "prefill failed" {
		hx.Fatal("job %d (%s): %s", j.ID, p.Tmpl, r.Err)
	}
	// F13 (C14): compiler, locally defined non-shared memory of 65536 pages: the length is read with a
	// 32-bit load, every access traps.  An in-bounds access that traps is not a host access outside the
	// memory; out of scope here, recorded under C14.
	if j.Engine == "compiler" && (p.Pages == 65536 || e.Pages == 65536) && r.Err == "oob" {
		// (the trap may also pre-empt a later expected trap or an alignment trap; nothing more can be
		// concluded from this run than that no host access outside the memory happened: no fault)
		rep.Count("scope:F13-compiler-65536-pages-access-traps(C14)")
		return
	}
	trapOK := r.Err == e.Trap || (e.Trap == "oob|unaligned" && (r.Err == "oob" || r.Err == "unaligned"))
	if !trapOK {
		sig := fmt.Sprintf("C02:trap-differs:%s:%s", j.Engine, p.Tmpl)
		kind := "impl-violation"
		what := fmt.Sprintf("expected %q, got %q", e.Trap, r.Err)
		if e.Trap != "" && r.Err == "" {
			what = "an access whose effective address plus width exceeds the memory size did not trap: " + what
			if j.Engine == "interpreter" && e.InterpOK && hasOp(p.Body, "l128") && p.Pages == 65536 {
				sig = "C02a:interpreter-v128.load-wraps-at-4GiB"
			}
		} else if e.Trap == "" {
			what = "an in-bounds access trapped: " + what
		}
		rep.Violate(hx.Violation{Kind: kind, Signature: sig, What: what, Input: in, Expected: e, Actual: r})
		return
	}
	if e.Trap == "" && r.Ret != e.Ret {
		rep.Violate(hx.Violation{Kind: "impl-violation", Signature: fmt.Sprintf("C02:value-differs:%s:%s", j.Engine, p.Tmpl),
			What:  "loaded values differ from the bytes at the addressed locations (an access used a wrong address)",
			Input: in, Expected: fmt.Sprintf("%#x", e.Ret), Actual: fmt.Sprintf("%#x", r.Ret)})
		return
	}
	if r.Pages != e.Pages {
		rep.Violate(hx.Violation{Kind: "correspondence", Signature: fmt.Sprintf("C02:pages-differ:%s:%s", j.Engine, p.Tmpl),
			What: "final memory size differs", Input: in, Expected: e.Pages, Actual: r.Pages})
		return
	}
	for i := range e.Probes {
		if i >= len(r.Probes) || r.Probes[i] != e.ProbeHex[i] {
			got := ""
			if i < len(r.Probes) {
				got = r.Probes[i]
			}
			rep.Violate(hx.Violation{Kind: "impl-violation", Signature: fmt.Sprintf("C02:bytes-differ:%s:%s", j.Engine, p.Tmpl),
				What:  fmt.Sprintf("memory bytes in [%d,%d) differ after the run: a store touched other than exactly the addressed bytes, or a trapping access wrote", e.Probes[i][0], e.Probes[i][1]),
				Input: in, Expected: e.ProbeHex[i], Actual: got})
			return
		}
	}
	if p.Alloc && p.Move && e.Pages > p.Pages && p.Pages > 0 && r.Moves == 0 {
		hx.Fatal("memory grew but the allocator never moved it (harness bug)")
	}
}

func progKey(p *Prog) string {
	b, _ := json.Marshal(p.Body)
	return fmt.Sprintf("%x", fnv(b))
}

func fnv(b []byte) uint64 {
	h := uint64(14695981039346656037)
	for _, c := range b {
		h ^= uint64(c)
		h *= 1099511628211
	}
	return h
}

func main() {
	flag.Parse()
	if *childJobs != "" {
		childMain()
		return
	}
	work := *hx.Work
	if work == "" {
		hx.Fatal("-work is required")
	}
	if abs, err := filepath.Abs(work); err == nil {
		work = abs
	}
	orc = hx.StartOracle()
	rep = hx.NewReport("C02", "one case = one (engine, program) pair; programs are access templates (single, const base, const cached in a local + call, repeated base with larger/smaller ceiling, call/memory.grow between accesses, block merge, if/else merge, loops with moving base and growth, bulk fill/copy) instantiated over the boundary grid of effective addresses around 0, len-w, len, 2^31, 2^32 × base/offset splits (incl. 2^31-1, 2^31, 2^32-1 and wrapping sums) × widths 1..16 + atomics × memory sizes; distinct = distinct (engine, template, pages, params, body); plus one case per (expression shape, constants, offBase) of the amode unit hook")
	rnd := hx.Rand()

	var progs []*Prog
	if *hx.Replay != "" {
		progs = loadReplay(*hx.Replay)
	} else {
		progs = generate(rnd, hx.Thorough())
	}
	if *onlyTmpl != "" {
		var f []*Prog
		for _, p := range progs {
			if strings.HasPrefix(p.Tmpl, *onlyTmpl) {
				f = append(f, p)
			}
		}
		progs = f
	}
	var jobs []*Job
	for _, p := range progs {
		e := reference(p)
		rep.Count(fmt.Sprintf("accesses-per-program:%d", min(e.NAcc, 9)))
		for _, eng := range []string{"interpreter", "compiler"} {
			if !p.Alloc && p.Pages > 64 {
				continue
			}
			jobs = append(jobs, &Job{ID: len(jobs), Engine: eng, Prog: p, Exp: e})
		}
		if len(jobs) <= 8 {
			rep.Sample(map[string]any{"prog": p, "expect_trap": e.Trap, "expect_ret": fmt.Sprintf("%#x", e.Ret)})
		}
	}
	// batches over parallel supervised children
	const nWorkers = 12
	batchSize := 150
	var batches [][]*Job
	for i := 0; i < len(jobs); i += batchSize {
		batches = append(batches, jobs[i:min(i+batchSize, len(jobs))])
	}
	var mu sync.Mutex
	all := map[int]Result{}
	ch := make(chan int)
	var wg sync.WaitGroup
	for w := 0; w < nWorkers; w++ {
		wg.Add(1)
		go func() {
			defer wg.Done()
			for bi := range ch {
				rs := runBatch(work, bi, batches[bi])
				mu.Lock()
				for k, v := range rs {
					all[k] = v
				}
				mu.Unlock()
			}
		}()
	}
	for bi := range batches {
		ch <- bi
	}
	close(ch)
	wg.Wait()
	// A child death is only reported when it is reproducible: the job is re-run alone (twice) in fresh
	// children.  Deaths that do not reproduce are counted and noted, never a verdict of this property.
	var suspects []*Job
	for _, j := range jobs {
		if r, ok := all[j.ID]; ok && r.Fault != "" {
			suspects = append(suspects, j)
		}
	}
	sch := make(chan *Job)
	for w := 0; w < nWorkers; w++ {
		wg.Add(1)
		go func(w int) {
			defer wg.Done()
			for j := range sch {
				again := false
				var last Result
				for try := 0; try < 2 && !again; try++ {
					rs := runBatch(work, 100000+j.ID*4+try, []*Job{j})
					last = rs[j.ID]
					again = last.Fault != ""
				}
				mu.Lock()
				if again {
					rep.Count("child-death:reproduced-alone")
				} else {
					rep.Count("child-death:NOT-reproduced(flaky, not reported)")
					rep.Note("non-reproducible child death (not a C02 verdict; possibly C09 territory): engine=%s tmpl=%s pages=%d: %s", j.Engine, j.Prog.Tmpl, j.Prog.Pages, all[j.ID].Fault)
					all[j.ID] = last
				}
				mu.Unlock()
			}
		}(w)
	}
	for _, j := range suspects {
		sch <- j
	}
	close(sch)
	wg.Wait()
	for _, j := range jobs {
		r, ok := all[j.ID]
		if !ok {
			hx.Fatal("no result for job %d", j.ID)
		}
		judge(j, r)
	}
	if !*noAmode && *hx.Replay == "" {
		amodeUnit(work, rnd)
	}
	if *hx.Replay == "" {
		noMemoryGrid()
	}
	rep.Note("programs=%d jobs=%d; guard = 8 GiB PROT_NONE on both sides of the memory, memory moved by mremap on every growth", len(progs), len(jobs))
	rep.Note("compiler at 65536 pages: in-bounds accesses that trap are C14/F13 (length loaded as 32 bits), counted under scope:F13, not reported here")
	rep.Write(orc)
	orc.Close()
}

func loadReplay(path string) []*Prog {
	raw, err := os.ReadFile(path)
	if err != nil {
		hx.Fatal("%v", err)
	}
	var rp struct {
		Impl []struct {
			Input vinput `json:"input"`
		} `json:"impl_violations"`
	}
	if err := json.Unmarshal(raw, &rp); err != nil {
		hx.Fatal("replay: %v", err)
	}
	var out []*Prog
	for _, v := range rp.Impl {
		if v.Input.Prog != nil {
			out = append(out, v.Input.Prog)
		}
	}
	return out
}

var _ = rand.Int
