package main

import (
	"fmt"
	"math/rand"
	"sort"
	"strings"
)

const two32 = uint64(1) << 32

// eaTargets: effective addresses around every boundary the property names.
func eaTargets(L uint64, w int, rnd *rand.Rand, full bool) []uint64 {
	W := uint64(w)
	set := map[uint64]bool{}
	add := func(v int64) {
		if v >= 0 && uint64(v) < two32 {
			set[uint64(v)] = true
		}
	}
	l := int64(L)
	for _, v := range []int64{0, l - int64(W) - 1, l - int64(W), l - int64(W) + 1, l - int64(W)/2, l - 1, l, l + 1,
		int64(two32) - int64(W), int64(two32) - int64(W)/2, int64(two32) - 1} {
		add(v)
	}
	if full {
		for _, v := range []int64{1, l / 2, 1<<31 - int64(W), 1<<31 - 1, 1 << 31, l + 65536 - int64(W), int64(two32) - int64(W) - 1, int64(two32) - int64(W) + 1} {
			add(v)
		}
		add(int64(rnd.Uint64() % two32))
		if L > 0 {
			add(int64(rnd.Uint64() % L))
		}
	}
	var out []uint64
	for v := range set {
		out = append(out, v)
	}
	sort.Slice(out, func(i, j int) bool { return out[i] < out[j] })
	return out
}

// splits of ea into dynamic base + static offset.
func splits(ea uint64, rnd *rand.Rand, n int) [][2]uint32 {
	cands := []uint64{0, ea, 1, 0x7fffffff, 0x80000000, 0xffffffff, ea - 1, 0x7ffffff0, 65536}
	if ea > 0 {
		cands = append(cands, rnd.Uint64()%(ea+1))
	}
	seen := map[uint64]bool{}
	var out [][2]uint32
	for _, off := range cands {
		if off > ea || off >= two32 || seen[off] {
			continue
		}
		seen[off] = true
		out = append(out, [2]uint32{uint32(ea - off), uint32(off)})
	}
	if n > 0 && len(out) > n {
		// keep the first two (off=0, off=ea) and a seeded choice of the rest
		rest := out[2:]
		rnd.Shuffle(len(rest), func(i, j int) { rest[i], rest[j] = rest[j], rest[i] })
		out = append(out[:2], rest[:n-2]...)
	}
	return out
}

// sums that wrap past 2^32: must always trap.
var overflowPairs = [][2]uint32{
	{0xffffffff, 0xffffffff}, {0x80000000, 0x80000000}, {1, 0xffffffff}, {0xffffffff, 1},
	{0xfffffff0, 0x10}, {0x10, 0xfffffff0}, {0x80000001, 0x7fffffff}, {0xffff0000, 0x10000},
}

func acc(op, src string, b, off uint32, v uint64) Stmt {
	return Stmt{K: "acc", Op: op, Src: src, B: b, Off: off, V: v}
}

func u32ok(v int64) bool { return v >= 0 && uint64(v) < two32 }

func generate(rnd *rand.Rand, thorough bool) []*Prog {
	var out []*Prog
	type sizeCfg struct {
		pages uint32
		full  bool // full op list and full grid
	}
	var sizes []sizeCfg
	if thorough {
		sizes = []sizeCfg{{0, true}, {1, true}, {2, true}, {3, false}, {32768, true}, {32769, true}, {40000, false}, {65535, true}, {65536, true}}
	} else {
		sizes = []sizeCfg{{0, true}, {1, true}, {2, false}, {32769, false}, {40000, false}, {65536, false}}
	}
	allOps := []string{"l8", "l16", "l32", "l64", "l128", "s8", "s16", "s32", "s64", "s128", "al32", "al64", "as32", "as64", "rmw32", "rmw8"}
	fewOps := []string{"l8", "l32", "l128", "s64", "s128", "rmw32"}
	val := func() uint64 { return rnd.Uint64() | 0x0101010101010101 }

	for _, sc := range sizes {
		L := uint64(sc.pages) * 65536
		mx := sc.pages + 2
		if mx > 65536 {
			mx = 65536
		}
		mk := func(tmpl string, p, c uint32, body ...Stmt) {
			out = append(out, &Prog{Tmpl: tmpl, Pages: sc.pages, Max: mx, Alloc: true, Move: true, P: p, C: c, Body: body})
			if sc.pages <= 2 && tmpl != "single" {
				// the default Go-heap memory as well (no guards; values and traps only)
				out = append(out, &Prog{Tmpl: tmpl + "/heap", Pages: sc.pages, Max: mx, P: p, C: c, Body: body})
			}
		}
		opl := fewOps
		if sc.full {
			opl = allOps
		}
		nsplit := 4
		if thorough && sc.full {
			nsplit = 0
		}
		// --- single accesses over the boundary grid
		for _, op := range opl {
			w := ops[op].w
			for _, ea := range eaTargets(L, w, rnd, thorough && sc.full) {
				for i, s := range splits(ea, rnd, nsplit) {
					mk("single", s[0], 0, acc(op, "p", 0, s[1], val()))
					if thorough || i < 2 || s[0]&0x80000000 != 0 {
						mk("const", 0, 0, acc(op, "const", s[0], s[1], val()))
					}
				}
			}
			for _, s := range overflowPairs {
				mk("single", s[0], 0, acc(op, "p", 0, s[1], val()))
			}
			// static offset + access width at the powers of two where a constant changes its encoding (2^31: the largest
			// value a sign-extended 32-bit immediate cannot hold; 2^15, 2^7 likewise for narrower encodings), with bases on
			// both sides of 2^31
			for _, pw := range []uint64{1 << 31, 1 << 15, 1 << 7, 1 << 32} {
				for _, d := range []int64{-1, 0, 1} {
					if off := int64(pw) - int64(w) + d; off >= 0 && off <= 0xffffffff {
						for _, base := range []uint32{0, 4, 0x7ffffff0, 0x80000000, 0x80000004, 0xfffffff0} {
							mk("single", base, 0, acc(op, "p", 0, uint32(off), val()))
						}
					}
				}
			}
			// seeded random effective addresses near the boundaries, random splits
			nr := 6
			if thorough {
				nr = 60
			}
			for i := 0; i < nr; i++ {
				var ea int64
				switch rnd.Intn(5) {
				case 0:
					ea = int64(L) - int64(rnd.Intn(40))
				case 1:
					ea = int64(L) + int64(rnd.Intn(20)) - int64(w)
				case 2:
					ea = 1<<31 - 20 + int64(rnd.Intn(40))
				case 3:
					ea = int64(two32) - 1 - int64(rnd.Intn(40))
				default:
					ea = int64(rnd.Uint64() % two32)
				}
				if !u32ok(ea) {
					continue
				}
				off := rnd.Uint64() % (uint64(ea) + 1)
				if rnd.Intn(3) == 0 {
					off = uint64(ea) - uint64(rnd.Intn(int(min64(uint64(ea), 64))+1))
				}
				mk("single", uint32(uint64(ea)-off), 0, acc(op, "p", 0, uint32(off), val()))
				if i%3 == 0 {
					mk("const", 0, 0, acc(op, "const", uint32(uint64(ea)-off), uint32(off), val()))
					// a wrapping sum with the same low bits
					mk("single", uint32(uint64(ea)-off)|0x80000000, 0, acc(op, "p", 0, uint32(off)|0x80000000, val()))
				}
			}
		}
		// --- the complete catalogue of memory instructions on the boundary grid (catalogue.go)
		if sc.pages == 1 || (thorough && sc.pages == 2) || (thorough && sc.pages == 65536) {
			for _, op := range catNames {
				oi := ops[op]
				w := int64(oi.w)
				l := int64(L)
				for _, ea := range []int64{8, l - 2*w, l - w, l - w + 1, l - 1, l, l - w - 1} {
					if ea < 0 || !u32ok(ea) {
						continue
					}
					st := acc(op, "p", 0, 0, val())
					st.V2 = val()
					mk("cat", uint32(ea), 0, st)
					if ea >= 16 {
						st.Off = 16
						mk("cat", uint32(ea-16), 0, st)
					}
					// the same access after a store that makes the bytes there non-zero and known (compare-exchange
					// with a matching expected operand, read-modify-write on a non-trivial old value)
					if a8 := ea &^ 7; a8+8 <= l && ea+w <= l {
						pre := val()
						st2 := acc(op, "p", 0, uint32(ea-a8), val())
						st2.V2 = pre >> (8 * uint(ea&7)) & maskW(oi.w)
						if rnd.Intn(4) == 0 {
							st2.V2 ^= 1 << uint(rnd.Intn(8*oi.w)) // one bit off: must not store
						}
						mk("catseq", uint32(a8), 0, acc("i64.store", "p", 0, 0, pre), st2, acc("i64.load", "p", 0, 0, 0))
					}
				}
			}
		}
		// --- whose memory: shared, imported from another instance, both (the base and the length reach compiled
		// code through other fields of the module context; a shared memory never moves).  Catalogue at the two
		// decisive addresses plus the growth templates.
		if sc.pages == 1 || (thorough && sc.pages == 2) {
			l := int64(L)
			for _, mode := range []string{"shared", "imported", "imported-shared", "imported-mismatch"} {
				mkm := func(tmpl string, p uint32, body ...Stmt) {
					out = append(out, &Prog{Tmpl: tmpl + "/" + mode, Pages: sc.pages, Max: mx, Alloc: true, Move: !strings.Contains(mode, "shared"), P: p, Mem: mode, Body: body})
				}
				for _, op := range catNames {
					w := int64(ops[op].w)
					for _, ea := range []int64{l - w, l - w + 1, l} {
						if ea < 0 {
							continue
						}
						st := acc(op, "p", 0, 0, val())
						st.V2 = val()
						mkm("cat", uint32(ea), st)
					}
				}
				for _, op := range []string{"l8", "l32", "s64", "l128"} {
					w := int64(ops[op].w)
					for _, how := range []string{"grow", "callgrow"} {
						g := Stmt{K: how, B: 1}
						if l-w >= 0 {
							mkm(how+"between", uint32(l-w), acc(op, "p", 0, 0, val()), g, acc(op, "p", 0, 65536, val()), acc(op, "p", 0, 0, val()))
							mkm(how+"first", uint32(l), g, acc(op, "p", 0, 0, val()), acc(op, "p", 0, uint32(65536-w+1), val()))
						}
					}
				}
			}
		}
		if sc.pages <= 2 && rnd.Intn(1) == 0 {
			// a sample of singles on the Go-heap memory
			for _, op := range []string{"l32", "s64", "l128", "s128"} {
				w := ops[op].w
				for _, ea := range eaTargets(L, w, rnd, false) {
					for _, s := range splits(ea, rnd, 3) {
						out = append(out, &Prog{Tmpl: "single/heap", Pages: sc.pages, Max: mx, P: s[0], Body: []Stmt{acc(op, "p", 0, s[1], val())}})
					}
				}
			}
		}
		// --- constant base cached in a local, re-used after a call / grow (F1 shape)
		l := int64(L)
		for _, op := range []string{"l8", "l32", "s32", "l128"} {
			w := int64(ops[op].w)
			for _, b := range []int64{0, 1, l - w, l - w + 1, 0x7ffffffc, 0x80000000, 0x80000004, 0xfffffff0, l} {
				if !u32ok(b) {
					continue
				}
				for _, off := range []uint32{0, 4} {
					B := uint32(b)
					mk("cbcall", 0, 0, Stmt{K: "setcb", B: B}, acc(op, "cb", 0, off, val()), Stmt{K: "call"}, acc(op, "cb", 0, off, val()))
					mk("cbgrow", 0, 0, Stmt{K: "setcb", B: B}, acc(op, "cb", 0, off, val()), Stmt{K: "grow", B: 1}, acc(op, "cb", 0, off, val()))
					if off == 0 {
						mk("constcall", 0, 0, acc(op, "const", B, off, val()), Stmt{K: "callgrow"}, acc(op, "const", B, off, val()))
					}
				}
			}
		}
		// --- same base twice / three times with changing ceilings (elision must re-check larger ceilings)
		for _, op := range []string{"l8", "l32", "s64", "l128"} {
			w := int64(ops[op].w)
			for _, ea1 := range []int64{l - w, l - w - 1, l - 2*w, l - w - 65536} {
				for _, d := range []int64{-1, 0, 1, w, 2 * w, 65536, 0x7fffff00} {
					for _, off1 := range []int64{0, 3, 0x7fffffff} {
						p, off2 := ea1-off1, off1+d
						if !u32ok(p) || !u32ok(off2) || !u32ok(ea1) {
							continue
						}
						mk("twice", uint32(p), 0, acc(op, "p", 0, uint32(off1), val()), acc(op, "p", 0, uint32(off2), val()))
						if d == 1 || d == w {
							mk("thrice", uint32(p), 0, acc(op, "p", 0, uint32(off1), val()), acc("l8", "p", 0, uint32(off2), 0), acc(op, "p", 0, uint32(off1), val()), acc(op, "p", 0, uint32(off2), val()))
							mk("callbetween", uint32(p), 0, acc(op, "p", 0, uint32(off1), val()), Stmt{K: "call"}, acc(op, "p", 0, uint32(off2), val()))
						}
					}
				}
			}
			// growth between accesses: the second access targets the new page
			for _, how := range []string{"grow", "callgrow"} {
				for _, ea2 := range []int64{l, l + 65536 - w, l + 65536 - w + 1, l - w} {
					ea1 := l - w
					g := Stmt{K: how, B: 1}
					if ea1 >= 0 && u32ok(ea2) && ea2 >= ea1 && u32ok(ea2-ea1) {
						mk(how+"between", uint32(ea1), 0, acc(op, "p", 0, 0, val()), g, acc(op, "p", 0, uint32(ea2-ea1), val()), acc(op, "p", 0, 0, val()))
					}
					if u32ok(ea2) {
						mk(how+"first", uint32(ea2), 0, g, acc(op, "p", 0, 0, val()))
						mk(how+"first", 0, 0, g, acc(op, "p", 0, uint32(ea2), val()))
					}
				}
			}
			// --- block merge / if-else merge: the intersection keeps the minimum bound
			if p := l - w - 8; p >= 0 {
				for c := uint32(0); c < 2; c++ {
					for _, o := range [][3]uint32{{0, 8, 8}, {0, 8, 9}, {0, 9, 8}, {8, 0, 8}, {8, 8, 9}, {0, 0, 9}, {0, 0, 8}, {0, 9, 9}, {9, 0, 9}, {0, 65536, 65536}, {65536, 0, 65536}, {0, 0x7fffffff, 0x7fffffff}, {0, 65536, 9}, {0, 16, 9}, {65536, 65536, 9}, {0, 0x7fffffff, 9}, {0, 0xfffffff0, 9}} {
						mk("blockmerge", uint32(p), c, Stmt{K: "block", Body: []Stmt{acc(op, "p", 0, o[0], val()), {K: "brif", B: 0}, acc(op, "p", 0, o[1], val())}}, acc(op, "p", 0, o[2], val()))
						mk("ifelse", uint32(p), c, Stmt{K: "if", Body: []Stmt{acc(op, "p", 0, o[0], val())}, Else: []Stmt{acc(op, "p", 0, o[1], val())}}, acc(op, "p", 0, o[2], val()))
						// access only in the then-arm of an if without else, then a smaller/equal/larger ceiling after the merge
						mk("ifthen", uint32(p), c, Stmt{K: "if", Body: []Stmt{acc(op, "p", 0, o[1], val())}}, acc(op, "p", 0, o[2], val()))
						mk("ifthen2", uint32(p), c, Stmt{K: "if", Body: []Stmt{acc(op, "p", 0, o[0], val()), acc(op, "p", 0, o[1], val())}}, acc(op, "p", 0, o[2], val()), acc(op, "p", 0, o[1], val()))
						mk("nested", uint32(p), c, Stmt{K: "block", Body: []Stmt{acc(op, "p", 0, o[0], val()),
							{K: "block", Body: []Stmt{{K: "brif", B: 1}, acc(op, "p", 0, o[1], val())}}, acc(op, "p", 0, o[1], val())}}, acc(op, "p", 0, o[2], val()))
					}
					mk("ifcallgrow", uint32(p)+8, c, acc(op, "p", 0, 0, val()), Stmt{K: "if", Body: []Stmt{{K: "callgrow"}}}, acc(op, "p", 0, 0, val()), acc(op, "p", 0, 65536, val()))
					mk("ifgrow", uint32(p)+8, c, acc(op, "p", 0, 0, val()), Stmt{K: "if", Body: []Stmt{{K: "grow", B: 1}}, Else: []Stmt{{K: "call"}}}, acc(op, "p", 0, 0, val()), acc(op, "p", 0, 65536, val()))
				}
			}
			// --- loops: moving base; fixed base with growth inside the loop
			for _, k := range []int64{1, w, 65536} {
				for _, c := range []uint32{1, 3, 5} {
					if p := l - 3*k - w; p >= 0 {
						mk("loopinc", uint32(p), c, Stmt{K: "loop", Body: []Stmt{acc(op, "p", 0, 0, val()), {K: "incp", B: uint32(k)}}})
						mk("loopinc2", uint32(p), c, acc(op, "p", 0, uint32(k), val()), Stmt{K: "loop", Body: []Stmt{acc(op, "p", 0, 0, val()), acc(op, "p", 0, uint32(k), val()), {K: "incp", B: uint32(k)}}})
					}
				}
			}
			if p := l - w; p >= 0 {
				for _, c := range []uint32{1, 2, 3, 4} {
					mk("loopgrow", uint32(p), c, Stmt{K: "loop", Body: []Stmt{acc(op, "p", 0, 0, val()), {K: "callgrow"}, {K: "incp", B: 65536}}})
					mk("loopfixed", uint32(p), c, acc(op, "p", 0, 0, val()), Stmt{K: "loop", Body: []Stmt{acc(op, "p", 0, 0, val()), {K: "callgrow"}, acc(op, "p", 0, 0, val())}}, acc(op, "p", 0, 65536, val()))
					if p >= 4 {
						mk("looptmp", uint32(p)-4, c, Stmt{K: "settmp", B: 4}, Stmt{K: "loop", Body: []Stmt{acc(op, "tmp", 0, 0, val()), {K: "grow", B: 1}, acc(op, "tmp", 0, 0, val()), acc(op, "tmp", 0, 65536, val())}})
					}
				}
			}
		}
		// --- derived addresses: tmp := p <op> B where the 32-bit result wraps around (the unwrapped 64-bit value
		// is far outside the memory), accessed once, twice, and again after a call / a growth in the same block
		// (the second access re-derives the host address without a bounds check)
		xops := []string{"l32", "s64"}
		if sc.full {
			xops = fewOps
		}
		for _, op := range xops {
			w := int64(ops[op].w)
			for _, ea := range []int64{16, l - w, l - w + 1} {
				if ea < 0 || !u32ok(ea) {
					continue
				}
				type der struct {
					op   string
					b, p uint32
					off  uint32
				}
				var ds []der
				for _, c := range []uint32{1, 2, 3, 4} {
					e := uint32(ea) &^ (1<<c - 1)
					ds = append(ds, der{"shl", c, e>>c | 1<<(32-c), uint32(ea) - e}, der{"shl", c, e>>c | 3<<(30-c)<<1, uint32(ea) - e})
				}
				for _, k := range []uint32{3, 5, 9, 0x10001} {
					// p = ea * k^-1 mod 2^32 (k odd), so that p*k wraps around to ea
					inv := k
					for i := 0; i < 5; i++ {
						inv *= 2 - k*inv
					}
					if p := uint32(ea) * inv; uint64(p)*uint64(k) >= two32 {
						ds = append(ds, der{"mul", k, p, 0})
					}
				}
				ds = append(ds, der{"add", 0xfffffff0, uint32(ea) + 16, 0}, der{"sub", 0x7fffffff, uint32(ea) + 0x7fffffff, 0})
				// truncations of a 64-bit value whose upper half is set (the i32 is the low half only)
				for _, hi := range []uint32{0, 4, 0x7fffffff, 0xfffffffe} {
					ds = append(ds, der{"wrap", hi, uint32(ea), 0})
					if ea >= 16 {
						ds = append(ds, der{"wrapadd", hi, uint32(ea) - 16, 0})
					}
				}
				for _, d := range ds {
					set := Stmt{K: "settmpx", Op: d.op, B: d.b}
					// the second access after the merge of an if/else whose arms neither call nor grow: its bounds check
					// may be elided and the host address re-derived from the 32-bit value
					for _, c := range []uint32{0, 1} {
						mk("xifelse", d.p, c, set, acc(op, "tmp", 0, d.off, val()), Stmt{K: "if", Body: []Stmt{{K: "setcb", B: 1}}, Else: []Stmt{{K: "setcb", B: 2}}}, acc(op, "tmp", 0, d.off, val()))
						mk("xif", d.p, c, set, acc(op, "tmp", 0, d.off, val()), Stmt{K: "if", Body: []Stmt{{K: "setcb", B: 1}}}, acc(op, "tmp", 0, d.off, val()))
					}
					mk("xsingle", d.p, 0, set, acc(op, "tmp", 0, d.off, val()))
					mk("xtwice", d.p, 0, set, acc(op, "tmp", 0, d.off, val()), acc(op, "tmp", 0, d.off, val()))
					mk("xcall", d.p, 0, set, acc(op, "tmp", 0, d.off, val()), Stmt{K: "call"}, acc(op, "tmp", 0, d.off, val()))
					mk("xcallgrow", d.p, 0, set, acc(op, "tmp", 0, d.off, val()), Stmt{K: "callgrow"}, acc(op, "tmp", 0, d.off, val()))
					mk("xgrow", d.p, 0, set, acc(op, "tmp", 0, d.off, val()), Stmt{K: "grow", B: 1}, acc(op, "tmp", 0, d.off, val()))
				}
			}
		}
		// --- addresses that are RESULTS with the sign bit set: a failed memory.grow (-1), sign extensions, arithmetic
		// shifts, signed remainders and quotients.  As addresses they are large unsigned 32-bit values: with any static
		// offset >= 1 on 0xffffffff the effective address is >= 2^32 and the access must trap on every memory size -
		// also on an engine that keeps a sign-extended copy of the i32 in a 64-bit slot
		for _, op := range xops {
			type neg struct {
				op   string
				b, p uint32
			}
			ns := []neg{{"growres", 65536, 0}, {"growres", 0x10000000, 0}, {"ext8s", 0, 0xff}, {"ext8s", 1, 0x17e}, {"ext16s", 0, 0xffff}, {"ext16s", 0, 0x1fff0},
				{"shrs", 31, 0x80000000}, {"shrs", 4, 0xfffffff0}, {"rems", 7, 0xffffffff}, {"rems", 0x10000, 0xfffffff0}, {"divs", 1, 0xffffffff}, {"divs", 0xffffffff, 1}}
			for _, n := range ns {
				set := Stmt{K: "settmpx", Op: n.op, B: n.b}
				for _, off := range []uint32{0, 1, 16, 65536, 0xffffffff} {
					mk("xneg", n.p, 0, set, acc(op, "tmp", 0, off, val()))
				}
				mk("xnegtwice", n.p, 0, set, acc(op, "tmp", 0, 1, val()), acc(op, "tmp", 0, 1, val()))
			}
		}
		// --- a loaded value held on the operand stack across a direct call of a local function (which may grow and MOVE
		// the memory) and consumed afterwards: the load is executed where it stands, not where its value is used
		if p := l - 16; p >= 0 {
			for _, op := range []string{"l8", "l16", "l32", "l64"} {
				for _, hold := range []string{"call", "callgrow"} {
					h := acc(op, "p", 0, 0, 0)
					h.Hold = hold
					mk("heldload", uint32(p), 0, h, acc("l32", "p", 0, 4, 0))
					h2 := acc(op, "const", 8, 0, 0)
					h2.Hold = hold
					mk("heldload-const", 0, 0, acc("s64", "const", 8, 0, val()), h2, acc("l64", "const", 8, 0, 0))
				}
			}
		}
		// --- store/load round trips
		if p := l - 16; p >= 0 {
			for _, off := range []uint32{0, 8} {
				v := val()
				mk("storeload", uint32(p), 0, acc("s64", "p", 0, off, v), acc("l64", "p", 0, off, 0), acc("l32", "p", 0, off+4, 0), acc("s8", "p", 0, off+3, val()),
					acc("l64", "p", 0, off, 0), acc("s128", "p", 0, 0, val()), acc("rmw32", "p", 0, 4, val()), acc("l128", "p", 0, 0, 0), acc("s16", "p", 0, 15, val()))
			}
		}
		// --- bulk operations
		for _, dn := range [][2]int64{{l - 10, 10}, {l - 10, 11}, {l, 0}, {l + 1, 0}, {0, 0}, {0xffffffff, 1}, {0xffffffff, 0xffffffff}, {1, 0xffffffff},
			{l - 65536, 65536}, {l - 65536, 65537}, {0x80000000, 0x80000000}, {l - 1, 1}, {l - 1, 2}, {0, l + 1}} {
			if !u32ok(dn[0]) || !u32ok(dn[1]) {
				continue
			}
			if dn[1] > 65536 && dn[0]+dn[1] <= l {
				continue // large in-range fills touch too many pages
			}
			mk("fill", 0, 0, Stmt{K: "fill", D: uint32(dn[0]), V: val() & 0xff, N: uint32(dn[1])})
			for _, s := range []int64{0, l - dn[1], l - dn[1] + 1, dn[0] + 1} {
				if u32ok(s) {
					mk("copy", 0, 0, Stmt{K: "copy", D: uint32(dn[0]), S: uint32(s), N: uint32(dn[1])})
					mk("copy", 0, 0, Stmt{K: "copy", D: uint32(s), S: uint32(dn[0]), N: uint32(dn[1])})
				}
			}
		}
		// memory.init from the 64-byte passive segment: destination ranges at every boundary of the memory and of the
		// 32-bit address space, source ranges at the boundary of the segment
		for _, d := range []int64{0, 16, l - 32, l - 31, l - 1, l, l + 1, 0x7ffffff0, 0x80000000, 0xffffffe0, 0xfffffff0, 0xffffffff} {
			for _, sn := range [][2]int64{{0, 32}, {0, 64}, {32, 32}, {33, 32}, {0, 65}, {63, 1}, {64, 0}, {64, 1}, {0, 0}, {0, 1}, {0xffffffff, 1}, {1, 0xffffffff}} {
				if u32ok(d) && u32ok(sn[0]) && u32ok(sn[1]) {
					mk("init", 0, 0, Stmt{K: "init", D: uint32(d), S: uint32(sn[0]), N: uint32(sn[1])})
				}
			}
		}
	}
	// dedupe identical programs
	// --- capacity from the maximum (WithMemoryCapacityFromMax): with the moving guarded allocator the memory still
	// moves on every growth; every template that grows, calls or loops, once more under that option
	n0 := len(out)
	for _, q := range out[:n0] {
		if q.Pages < 1 || q.Pages > 2 || !q.Alloc || q.Mem != "" || q.CFM {
			continue
		}
		if strings.Contains(q.Tmpl, "grow") || strings.HasPrefix(q.Tmpl, "loop") || strings.HasPrefix(q.Tmpl, "cbcall") || strings.HasPrefix(q.Tmpl, "constcall") || strings.HasPrefix(q.Tmpl, "ifcall") || strings.HasPrefix(q.Tmpl, "x") || strings.HasPrefix(q.Tmpl, "heldload") {
			c := *q
			c.Tmpl, c.CFM = q.Tmpl+"/cfm", true
			out = append(out, &c)
		}
	}
	seen := map[string]bool{}
	var ded []*Prog
	for _, p := range out {
		k := fmt.Sprintf("%s/%s/%d/%d/%d", p.Tmpl, progKey(p), p.Pages, p.P, p.C)
		if p.Alloc {
			k += "A"
		}
		if !seen[k] {
			seen[k] = true
			ded = append(ded, p)
		}
	}
	return ded
}
