package main

// No-memory grid.  "A guest never reads or writes outside its linear memory" starts with: a module WITHOUT a linear
// memory (none defined, none imported) cannot contain a memory instruction at all - validation has to reject every one
// of them, because the engines' code for a memory access assumes a memory exists (the compiler would read the buffer's
// base and length through whatever the missing import's slot holds).  Every instruction of the memory catalogue (all
// scalar, vector, lane and atomic forms) and the size / grow / bulk / wait instructions, each alone in a module without
// memory, on both engines and under every feature set that knows the instruction: CompileModule must fail.

import (
	"context"
	"fmt"

	"github.com/tetratelabs/wazero"
	"github.com/tetratelabs/wazero/api"
	"github.com/tetratelabs/wazero/experimental"
	"github.com/tetratelabs/wazero/internal/wasm"
	"github.com/tetratelabs/wazero/verifharness/hx"
	"github.com/tetratelabs/wazero/verifharness/memcat"
	"github.com/tetratelabs/wazero/verifharness/wb"
)

func noMemoryGrid() {
	ctx := context.Background()
	type inst struct {
		name string
		body []byte
	}
	var is []inst
	dropIf := func(res byte) []byte {
		if res != 0 {
			return wb.Op(wasm.OpcodeDrop)
		}
		return nil
	}
	for _, o := range memcat.All() {
		is = append(is, inst{o.Name, wb.Cat(wb.I32Const(0), o.Operands(1, 2), o.Instr(0), dropIf(o.Result()))})
	}
	is = append(is,
		inst{"memory.size", wb.Cat(wb.MemorySize(), wb.Op(wasm.OpcodeDrop))},
		inst{"memory.grow", wb.Cat(wb.I32Const(0), wb.MemoryGrow(), wb.Op(wasm.OpcodeDrop))},
		inst{"memory.fill", wb.Cat(wb.I32Const(0), wb.I32Const(0), wb.I32Const(0), wb.Misc(wasm.OpcodeMiscMemoryFill, 0))},
		inst{"memory.copy", wb.Cat(wb.I32Const(0), wb.I32Const(0), wb.I32Const(0), wb.Misc(wasm.OpcodeMiscMemoryCopy, 0, 0))},
		inst{"memory.atomic.wait32", wb.Cat(wb.I32Const(0), wb.I32Const(0), wb.I64Const(0), wb.Op(wasm.OpcodeAtomicPrefix, wasm.OpcodeAtomicMemoryWait32, 2, 0), wb.Op(wasm.OpcodeDrop))},
		inst{"memory.atomic.wait64", wb.Cat(wb.I32Const(0), wb.I64Const(0), wb.I64Const(0), wb.Op(wasm.OpcodeAtomicPrefix, wasm.OpcodeAtomicMemoryWait64, 3, 0), wb.Op(wasm.OpcodeDrop))},
	)
	feats := api.CoreFeaturesV2 | experimental.CoreFeaturesThreads
	for _, engine := range []string{"interpreter", "compiler"} {
		rc := wazero.NewRuntimeConfigCompiler()
		if engine == "interpreter" {
			rc = wazero.NewRuntimeConfigInterpreter()
		}
		rt := wazero.NewRuntimeWithConfig(ctx, rc.WithCoreFeatures(feats))
		for _, in := range is {
			m := wb.New()
			m.AddFunc(wb.Func{Export: "f", Body: in.body})
			_, err := rt.CompileModule(ctx, m.Bytes())
			rep.Case("no-memory/" + engine + "/" + in.name)
			if err == nil {
				rep.Violate(hx.Violation{Kind: "impl-violation", Signature: "C02:memory-instruction-accepted-in-a-module-without-memory",
					What:     fmt.Sprintf("%s: a module with no linear memory (none defined, none imported) whose function executes %s passes CompileModule: the access would go through a memory that does not exist", engine, in.name),
					Input:    map[string]any{"stage": "no-memory grid", "engine": engine, "instruction": in.name, "module": "(module (func (export \"f\") i32.const 0 … " + in.name + " …))"},
					Expected: "rejected by validation (unknown memory)", Actual: "compiled"})
			} else {
				rep.Count("no-memory:rejected")
			}
		}
		rt.Close(ctx)
	}
}
