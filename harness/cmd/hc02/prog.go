package main

// Test-program IR, its wasm encoding, and the reference execution (trap/ea decided by the Lean
// oracle, bytes by the harness' sparse memory).

import (
	"encoding/binary"
	"fmt"
	"math/bits"
	"sort"
	"strings"

	"github.com/tetratelabs/wazero/internal/leb128"
	"github.com/tetratelabs/wazero/internal/wasm"
	"github.com/tetratelabs/wazero/verifharness/hx"
	"github.com/tetratelabs/wazero/verifharness/wb"
)

// Stmt kinds:
//
//	acc     memory access: Op, Src (p|cb|tmp|const), B (const base), Off, V (store/rmw operand)
//	setcb   local cb := const B          settmp  local tmp := p + B        incp  p := p + B
//	settmpx local tmp := p <Op> B  (Op = shl|mul|add|sub, 32-bit wrap-around)
//	call    call $nop                    callgrow call $grow1 (memory.grow 1 inside a callee)
//	grow    memory.grow B (in place)     brif    if c != 0 branch out of B enclosing blocks
//	block   block Body end               if      if c != 0 then Body else Else end
//	loop    i := c; loop Body; i--; br_if i != 0 end
//	fill    memory.fill(D, V, N)         copy    memory.copy(D, S, N)
type Stmt struct {
	K   string `json:"k"`
	Op  string `json:"op,omitempty"`
	Src string `json:"src,omitempty"`
	B   uint32 `json:"b,omitempty"`
	Off uint32 `json:"off,omitempty"`
	V   uint64 `json:"v,omitempty"`
	V2  uint64 `json:"v2,omitempty"` // cmpxchg: the expected operand (V is the replacement)
	// Hold (plain scalar loads): the loaded value stays on the operand stack across a direct call of a LOCAL function
	// ("call": function 1; "callgrow": function 2, which grows - and thereby moves - the memory) before it is consumed.
	// The load happens where the instruction stands: before the call.
	Hold string `json:"hold,omitempty"`
	D    uint32 `json:"d,omitempty"`
	S    uint32 `json:"s,omitempty"`
	N    uint32 `json:"n,omitempty"`
	Body []Stmt `json:"body,omitempty"`
	Else []Stmt `json:"else,omitempty"`
}

type Prog struct {
	Tmpl  string `json:"tmpl"`
	Pages uint32 `json:"pages"`
	Max   uint32 `json:"max"`
	Alloc bool   `json:"alloc"` // guarded allocator (else Go-heap memory)
	Move  bool   `json:"move"`  // allocator moves the memory on every growth
	// Mem: whose memory and of what kind: "" (defined here), "shared" (defined here, shared), "imported" (defined and
	// exported by another module instantiated first), "imported-shared", "imported-mismatch" (the importer DECLARES the
	// memory shared, the owner defines a plain one that moves when it grows: the linker has to refuse this, because
	// compiled code of the importer relies on a shared memory never moving; if it links, the accesses must still be right)
	Mem string `json:"mem,omitempty"`
	// CFM: the runtime is configured WithMemoryCapacityFromMax(true) (a performance knob: the buffer's capacity is
	// the maximum from the start); with a custom allocator the memory may still move on every growth
	CFM  bool   `json:"cfm,omitempty"`
	P    uint32 `json:"p"`
	C    uint32 `json:"c"`
	Body []Stmt `json:"body"`
}

type opInfo struct {
	w      int
	store  bool
	atomic bool
	rmw    bool
	enc    []byte // opcode bytes (without memarg)
	align  uint32
	i64    bool // value type on the stack is i64 (else i32); v128 handled separately
	// catalogue entries (catalogue.go)
	kind  string
	res   byte
	sext  bool
	rop   string
	vk    string
	lanew int
	lane  int
}

var ops = map[string]opInfo{
	"l8":    {w: 1, enc: []byte{wasm.OpcodeI32Load8U}},
	"l16":   {w: 2, enc: []byte{wasm.OpcodeI32Load16U}, align: 1},
	"l32":   {w: 4, enc: []byte{wasm.OpcodeI32Load}, align: 2},
	"l64":   {w: 8, enc: []byte{wasm.OpcodeI64Load}, align: 3, i64: true},
	"l128":  {w: 16, enc: []byte{wasm.OpcodeVecPrefix, wasm.OpcodeVecV128Load}, align: 4},
	"s8":    {w: 1, store: true, enc: []byte{wasm.OpcodeI32Store8}},
	"s16":   {w: 2, store: true, enc: []byte{wasm.OpcodeI32Store16}, align: 1},
	"s32":   {w: 4, store: true, enc: []byte{wasm.OpcodeI32Store}, align: 2},
	"s64":   {w: 8, store: true, enc: []byte{wasm.OpcodeI64Store}, align: 3, i64: true},
	"s128":  {w: 16, store: true, enc: []byte{wasm.OpcodeVecPrefix, wasm.OpcodeVecV128Store}, align: 4},
	"al32":  {w: 4, atomic: true, enc: []byte{wasm.OpcodeAtomicPrefix, wasm.OpcodeAtomicI32Load}, align: 2},
	"al64":  {w: 8, atomic: true, enc: []byte{wasm.OpcodeAtomicPrefix, wasm.OpcodeAtomicI64Load}, align: 3, i64: true},
	"as32":  {w: 4, atomic: true, store: true, enc: []byte{wasm.OpcodeAtomicPrefix, wasm.OpcodeAtomicI32Store}, align: 2},
	"as64":  {w: 8, atomic: true, store: true, enc: []byte{wasm.OpcodeAtomicPrefix, wasm.OpcodeAtomicI64Store}, align: 3, i64: true},
	"rmw32": {w: 4, atomic: true, rmw: true, enc: []byte{wasm.OpcodeAtomicPrefix, wasm.OpcodeAtomicI32RmwAdd}, align: 2},
	"rmw8":  {w: 1, atomic: true, rmw: true, enc: []byte{wasm.OpcodeAtomicPrefix, wasm.OpcodeAtomicI32Rmw8AddU}},
}

// locals: 0 p, 1 c (params); 2 cb, 3 i, 5 tmp (i32); 4 acc (i64); 6 v (v128)
const (
	lP, lC, lCB, lI, lAcc, lTmp, lV = 0, 1, 2, 3, 4, 5, 6
)

func i32c(v uint32) []byte { return wb.I32Const(int32(v)) }

func foldAcc() []byte {
	return wb.Cat(wb.LocalGet(lAcc), wb.I64Const(7), wb.Op(wasm.OpcodeI64Rotl), wb.Op(wasm.OpcodeI64Xor), wb.LocalSet(lAcc))
}

func emit(ss []Stmt) []byte {
	var out []byte
	for _, s := range ss {
		switch s.K {
		case "acc":
			oi := ops[s.Op]
			switch s.Src {
			case "p":
				out = append(out, wb.LocalGet(lP)...)
			case "cb":
				out = append(out, wb.LocalGet(lCB)...)
			case "tmp":
				out = append(out, wb.LocalGet(lTmp)...)
			case "const":
				out = append(out, i32c(s.B)...)
			default:
				hx.Fatal("bad src %q", s.Src)
			}
			if oi.kind != "" {
				out = append(out, emitCat(s, oi)...)
				continue
			}
			memarg := wb.Cat(oi.enc, leb128.EncodeUint32(oi.align), leb128.EncodeUint32(s.Off))
			switch {
			case s.Op == "s128":
				out = append(out, wb.Cat(wb.I64Const(int64(s.V)), wb.Op(wasm.OpcodeVecPrefix, wasm.OpcodeVecI64x2Splat), memarg)...)
			case s.Op == "l128":
				out = append(out, wb.Cat(memarg, wb.LocalSet(lV),
					wb.LocalGet(lV), wb.Op(wasm.OpcodeVecPrefix, wasm.OpcodeVecI64x2ExtractLane, 0),
					wb.LocalGet(lV), wb.Op(wasm.OpcodeVecPrefix, wasm.OpcodeVecI64x2ExtractLane, 1),
					wb.Op(wasm.OpcodeI64Xor), foldAcc())...)
			case oi.store:
				if oi.i64 {
					out = append(out, wb.I64Const(int64(s.V))...)
				} else {
					out = append(out, i32c(uint32(s.V))...)
				}
				out = append(out, memarg...)
			default: // load or rmw (returns the old value)
				if oi.rmw {
					out = append(out, i32c(uint32(s.V))...)
				}
				out = append(out, memarg...)
				switch s.Hold {
				case "call":
					out = append(out, wb.Call(1)...)
				case "callgrow":
					out = append(out, wb.Call(2)...)
				}
				if !oi.i64 {
					out = append(out, wasm.OpcodeI64ExtendI32U)
				}
				out = append(out, foldAcc()...)
			}
		case "setcb":
			out = append(out, wb.Cat(i32c(s.B), wb.LocalSet(lCB))...)
		case "settmp":
			out = append(out, wb.Cat(wb.LocalGet(lP), i32c(s.B), wb.Op(wasm.OpcodeI32Add), wb.LocalSet(lTmp))...)
		case "settmpx":
			// tmp := p <op> B with 32-bit wrap-around (shl / mul / add / sub)
			if s.Op == "growres" {
				// tmp := memory.grow(B): the previous size in pages, or -1 (0xffffffff as an address) when the growth fails
				out = append(out, wb.Cat(i32c(s.B), wb.MemoryGrow(), wb.LocalSet(lTmp))...)
				continue
			}
			if sx := map[string][]byte{"ext8s": {wasm.OpcodeI32Extend8S}, "ext16s": {wasm.OpcodeI32Extend16S}}[s.Op]; sx != nil {
				// tmp := i32.extendN_s(p + B): negative results are large 32-bit addresses
				out = append(out, wb.Cat(wb.LocalGet(lP), i32c(s.B), wb.Op(wasm.OpcodeI32Add), sx, wb.LocalSet(lTmp))...)
				continue
			}
			if sop := map[string]byte{"shrs": wasm.OpcodeI32ShrS, "rems": wasm.OpcodeI32RemS, "divs": wasm.OpcodeI32DivS}[s.Op]; sop != 0 {
				// tmp := p <signed op> B
				out = append(out, wb.Cat(wb.LocalGet(lP), i32c(s.B), wb.Op(sop), wb.LocalSet(lTmp))...)
				continue
			}
			if s.Op == "wrap" || s.Op == "wrapadd" {
				// tmp := i32.wrap_i64(x) where x is a 64-bit value whose UPPER half is not zero at run time:
				// wrap: x = extend_u(p) | (B|1)<<32 (tmp = p); wrapadd: x = extend_u(p) + ((B|1)<<32 + 16) (tmp = p + 16).
				// An i32 made by truncation must not carry the upper half into a 64-bit address computation.
				hi := int64(uint64(s.B|1) << 32)
				if s.Op == "wrap" {
					out = append(out, wb.Cat(wb.LocalGet(lP), wb.Op(wasm.OpcodeI64ExtendI32U), wb.I64Const(hi), wb.Op(wasm.OpcodeI64Or), wb.Op(wasm.OpcodeI32WrapI64), wb.LocalSet(lTmp))...)
				} else {
					out = append(out, wb.Cat(wb.LocalGet(lP), wb.Op(wasm.OpcodeI64ExtendI32U), wb.I64Const(hi+16), wb.Op(wasm.OpcodeI64Add), wb.Op(wasm.OpcodeI32WrapI64), wb.LocalSet(lTmp))...)
				}
				continue
			}
			opc := map[string]byte{"shl": wasm.OpcodeI32Shl, "mul": wasm.OpcodeI32Mul, "add": wasm.OpcodeI32Add, "sub": wasm.OpcodeI32Sub}[s.Op]
			if opc == 0 {
				hx.Fatal("bad settmpx op %q", s.Op)
			}
			out = append(out, wb.Cat(wb.LocalGet(lP), i32c(s.B), wb.Op(opc), wb.LocalSet(lTmp))...)
		case "incp":
			out = append(out, wb.Cat(wb.LocalGet(lP), i32c(s.B), wb.Op(wasm.OpcodeI32Add), wb.LocalSet(lP))...)
		case "call":
			out = append(out, wb.Call(1)...)
		case "callgrow":
			out = append(out, wb.Call(2)...)
		case "grow":
			out = append(out, wb.Cat(i32c(s.B), wb.MemoryGrow(), wb.Op(wasm.OpcodeDrop))...)
		case "brif":
			out = append(out, wb.Cat(wb.LocalGet(lC), wb.Op(wasm.OpcodeBrIf), wb.U32(s.B))...)
		case "block":
			out = append(out, wb.Cat(wb.Op(wasm.OpcodeBlock, 0x40), emit(s.Body), wb.Op(wasm.OpcodeEnd))...)
		case "if":
			if len(s.Else) == 0 {
				// an `if` WITHOUT else: the compiler front end creates an empty forwarding block for the
				// missing arm, which is a predecessor of the merge block that never ran the then-arm's checks
				out = append(out, wb.Cat(wb.LocalGet(lC), wb.Op(wasm.OpcodeIf, 0x40), emit(s.Body), wb.Op(wasm.OpcodeEnd))...)
			} else {
				out = append(out, wb.Cat(wb.LocalGet(lC), wb.Op(wasm.OpcodeIf, 0x40), emit(s.Body), wb.Op(wasm.OpcodeElse), emit(s.Else), wb.Op(wasm.OpcodeEnd))...)
			}
		case "loop":
			out = append(out, wb.Cat(wb.LocalGet(lC), wb.LocalSet(lI), wb.Op(wasm.OpcodeLoop, 0x40), emit(s.Body),
				wb.LocalGet(lI), i32c(1), wb.Op(wasm.OpcodeI32Sub), wb.LocalTee(lI), wb.Op(wasm.OpcodeBrIf), wb.U32(0), wb.Op(wasm.OpcodeEnd))...)
		case "fill":
			out = append(out, wb.Cat(i32c(s.D), i32c(uint32(s.V)), i32c(s.N), wb.Op(wasm.OpcodeMiscPrefix, wasm.OpcodeMiscMemoryFill, 0))...)
		case "copy":
			out = append(out, wb.Cat(i32c(s.D), i32c(s.S), i32c(s.N), wb.Op(wasm.OpcodeMiscPrefix, wasm.OpcodeMiscMemoryCopy, 0, 0))...)
		case "init":
			// memory.init from the passive data segment 0 (segLen bytes)
			out = append(out, wb.Cat(i32c(s.D), i32c(s.S), i32c(s.N), wb.Op(wasm.OpcodeMiscPrefix, wasm.OpcodeMiscMemoryInit, 0, 0))...)
		default:
			hx.Fatal("bad stmt kind %q", s.K)
		}
	}
	return out
}

func (p *Prog) wasmBytes() []byte {
	m := wb.New()
	mx := p.Max
	shared := p.Mem == "shared" || p.Mem == "imported-shared" || p.Mem == "imported-mismatch"
	if strings.HasPrefix(p.Mem, "imported") {
		// the memory import is followed by another import (what the linker decides about the memory must not depend on
		// the memory being the last import it looks at)
		m.M.ImportSection = append(m.M.ImportSection, wasm.Import{Type: wasm.ExternTypeMemory, Module: "owner", Name: "memory",
			DescMem: &wasm.Memory{Min: p.Pages, Max: mx, IsMaxEncoded: true, IsShared: shared}},
			wasm.Import{Type: wasm.ExternTypeGlobal, Module: "owner", Name: "g", DescGlobal: wasm.GlobalType{ValType: wasm.ValueTypeI32}})
		m.M.ImportMemoryCount = 1
		m.M.ImportGlobalCount = 1
	} else {
		m.Memory(p.Pages, &mx, shared, "memory")
	}
	m.AddFunc(wb.Func{Params: []byte{wb.I32, wb.I32}, Results: []byte{wb.I64}, Export: "run",
		Locals: []byte{wb.I32, wb.I32, wb.I64, wb.I32, wasm.ValueTypeV128},
		Body:   wb.Cat(emit(p.Body), wb.LocalGet(lAcc))})
	m.AddFunc(wb.Func{Body: nil})
	m.AddFunc(wb.Func{Body: wb.Cat(i32c(1), wb.MemoryGrow(), wb.Op(wasm.OpcodeDrop))})
	m.Data(true, 0, segBytes())
	return m.BytesWithSegments(nil)
}

const segLen = 64

// ownerBytes: the module that defines and exports the memory of an "imported" program.
func (p *Prog) ownerBytes() []byte {
	m := wb.New()
	mx := p.Max
	m.Memory(p.Pages, &mx, p.Mem == "imported-shared", "memory")
	m.M.GlobalSection = append(m.M.GlobalSection, wasm.Global{Type: wasm.GlobalType{ValType: wasm.ValueTypeI32}, Init: wasm.ConstantExpression{Opcode: wasm.OpcodeI32Const, Data: []byte{7}}})
	m.M.ExportSection = append(m.M.ExportSection, wasm.Export{Type: wasm.ExternTypeGlobal, Name: "g", Index: 0})
	return m.Bytes()
}

// segBytes: the passive data segment of every program (source of memory.init)
func segBytes() []byte {
	b := make([]byte, segLen)
	for i := range b {
		b[i] = byte(0xC0 + i%61)
	}
	return b
}

// ---- reference execution ----

type accRec struct {
	Ea    uint64
	W     int
	Len   uint64 // memory length at the time
	Store bool
	OK    bool
	Multi string // interp-model answer (for classification)
}

type rng2 struct{ a, b uint64 }

type ref struct {
	p        *Prog
	lp, cb   uint32
	tmp, li  uint32
	acc      uint64
	pages    uint32
	overlay  map[uint64]byte
	prefill  []rng2 // sorted, bytes with mix pattern (within the initial length)
	trap     string // "", "oob", "unaligned", "oob|unaligned"
	recs     []accRec
	interpOK bool // at the trapping access the as-is interpreter model says "no trap" (finding classification)
	steps    int
	notes    []string
}

func (r *ref) byteAt(i uint64) byte {
	if v, ok := r.overlay[i]; ok {
		return v
	}
	if i < uint64(r.p.Pages)*65536 {
		k := sort.Search(len(r.prefill), func(k int) bool { return r.prefill[k].b > i })
		if k < len(r.prefill) && r.prefill[k].a <= i {
			return mix(i)
		}
	}
	return 0
}

func (r *ref) length() uint64 { return uint64(r.pages) * 65536 }

func (r *ref) grow(d uint32) {
	if uint64(r.pages)+uint64(d) <= uint64(r.p.Max) {
		r.pages += d
	}
}

func parseAns(ans string) (spec, interp string) {
	for _, f := range strings.Fields(ans) {
		if strings.HasPrefix(f, "spec=") {
			spec = f[5:]
		} else if strings.HasPrefix(f, "interp=") {
			interp = f[7:]
		}
	}
	if spec == "" || interp == "" {
		hx.Fatal("oracle answer %q", ans)
	}
	return
}

// exec returns the branch depth still to unwind (-1 = none); stops when r.trap != "".
func (r *ref) exec(ss []Stmt) int {
	for _, s := range ss {
		if r.trap != "" {
			return -1
		}
		r.steps++
		if r.steps > 100000 {
			hx.Fatal("reference: step limit (generator bug)")
		}
		switch s.K {
		case "acc":
			oi := ops[s.Op]
			var base uint32
			switch s.Src {
			case "p":
				base = r.lp
			case "cb":
				base = r.cb
			case "tmp":
				base = r.tmp
			case "const":
				base = s.B
			}
			kind := "access"
			if s.Op == "l128" {
				kind = "v128load"
			} else if s.Op == "s128" {
				kind = "v128store"
			}
			spec, interp := parseAns(orc.Askf("c02 %s %d %d %d %d", kind, base, s.Off, oi.w, r.length()))
			ea := uint64(base) + uint64(s.Off)
			rec := accRec{Ea: ea, W: oi.w, Len: r.length(), Store: oi.store || oi.rmw, OK: spec != "trap", Multi: interp}
			r.recs = append(r.recs, rec)
			// the harness' own reading of the property (monitor side), must agree with the proved spec
			if (ea+uint64(oi.w) <= r.length()) != (spec != "trap") || (spec != "trap" && spec != fmt.Sprint(ea)) {
				hx.Fatal("oracle spec answer %q inconsistent for base=%d off=%d w=%d len=%d", spec, base, s.Off, oi.w, r.length())
			}
			unaligned := oi.atomic && ea%uint64(oi.w) != 0
			if spec == "trap" {
				r.trap = "oob"
				if unaligned {
					r.trap = "oob|unaligned"
				}
				r.interpOK = interp != "trap"
				return -1
			}
			if unaligned {
				r.trap = "unaligned"
				return -1
			}
			var buf [16]byte
			for k := 0; k < oi.w; k++ {
				buf[k] = r.byteAt(ea + uint64(k))
			}
			if oi.kind != "" {
				r.refCat(s, oi, ea, buf[:])
				continue
			}
			old := binary.LittleEndian.Uint64(buf[:8])
			switch {
			case s.Op == "l128":
				r.fold(old ^ binary.LittleEndian.Uint64(buf[8:]))
			case s.Op == "s128":
				for k := 0; k < 16; k++ {
					r.overlay[ea+uint64(k)] = byte(s.V >> (8 * uint(k%8)))
				}
			case oi.rmw:
				r.fold(old)
				nv := old + uint64(uint32(s.V))
				for k := 0; k < oi.w; k++ {
					r.overlay[ea+uint64(k)] = byte(nv >> (8 * uint(k)))
				}
			case oi.store:
				for k := 0; k < oi.w; k++ {
					r.overlay[ea+uint64(k)] = byte(s.V >> (8 * uint(k)))
				}
			default:
				r.fold(old)
				if s.Hold == "callgrow" {
					r.grow(1)
				}
			}
		case "setcb":
			r.cb = s.B
		case "settmpx":
			switch s.Op {
			case "shl":
				r.tmp = r.lp << (s.B % 32)
			case "mul":
				r.tmp = r.lp * s.B
			case "add":
				r.tmp = r.lp + s.B
			case "sub":
				r.tmp = r.lp - s.B
			case "wrap":
				r.tmp = r.lp
			case "wrapadd":
				r.tmp = r.lp + 16
			case "growres":
				if uint64(r.pages)+uint64(s.B) <= uint64(r.p.Max) {
					r.tmp = r.pages
					r.pages += s.B
				} else {
					r.tmp = 0xffffffff
				}
			case "ext8s":
				r.tmp = uint32(int32(int8(r.lp + s.B)))
			case "ext16s":
				r.tmp = uint32(int32(int16(r.lp + s.B)))
			case "shrs":
				r.tmp = uint32(int32(r.lp) >> (s.B % 32))
			case "rems":
				r.tmp = uint32(int32(r.lp) % int32(s.B)) // (generator: B is neither 0 nor -1)
			case "divs":
				r.tmp = uint32(int32(r.lp) / int32(s.B))
			}
		case "settmp":
			r.tmp = r.lp + s.B
		case "incp":
			r.lp += s.B
		case "call":
		case "callgrow":
			r.grow(1)
		case "grow":
			r.grow(s.B)
		case "brif":
			if r.p.C != 0 {
				return int(s.B)
			}
		case "block":
			if d := r.exec(s.Body); d > 0 {
				return d - 1
			}
		case "if":
			var d int
			if r.p.C != 0 {
				d = r.exec(s.Body)
			} else {
				d = r.exec(s.Else)
			}
			if d > 0 {
				return d - 1
			} else if d == 0 {
				// branch to the if's own label: continue after it
			}
		case "loop":
			r.li = r.p.C
			for {
				d := r.exec(s.Body)
				if r.trap != "" {
					return -1
				}
				if d > 0 {
					return d - 1
				}
				if d == 0 {
					continue // br 0 inside a loop body = continue (not generated)
				}
				r.li--
				if r.li == 0 {
					break
				}
			}
		case "fill":
			spec, _ := parseAns(orc.Askf("c02 fill %d %d %d", s.N, s.D, r.length()))
			if (uint64(s.D)+uint64(s.N) > r.length()) != (spec == "1") {
				hx.Fatal("oracle fill spec inconsistent")
			}
			if spec == "1" {
				r.trap = "oob"
				return -1
			}
			for k := uint64(0); k < uint64(s.N); k++ {
				r.overlay[uint64(s.D)+k] = byte(s.V)
			}
		case "init":
			spec, _ := parseAns(orc.Askf("c02 init %d %d %d %d %d", s.N, s.S, s.D, r.length(), segLen))
			oob := uint64(s.D)+uint64(s.N) > r.length() || uint64(s.S)+uint64(s.N) > segLen
			if oob != (spec == "1") {
				hx.Fatal("oracle init spec inconsistent")
			}
			if spec == "1" {
				r.trap = "oob"
				return -1
			}
			sb := segBytes()
			for k := uint64(0); k < uint64(s.N); k++ {
				r.overlay[uint64(s.D)+k] = sb[uint64(s.S)+k]
			}
		case "copy":
			spec, _ := parseAns(orc.Askf("c02 copy %d %d %d %d", s.N, s.S, s.D, r.length()))
			oob := uint64(s.D)+uint64(s.N) > r.length() || uint64(s.S)+uint64(s.N) > r.length()
			if oob != (spec == "1") {
				hx.Fatal("oracle copy spec inconsistent")
			}
			if spec == "1" {
				r.trap = "oob"
				return -1
			}
			tmp := make([]byte, s.N)
			for k := range tmp {
				tmp[k] = r.byteAt(uint64(s.S) + uint64(k))
			}
			for k := range tmp {
				r.overlay[uint64(s.D)+uint64(k)] = tmp[k]
			}
		}
	}
	return -1
}

func (r *ref) fold(v uint64) { r.acc = bits.RotateLeft64(r.acc, 7) ^ v }

func newRef(p *Prog, prefill []rng2) *ref {
	return &ref{p: p, lp: p.P, pages: p.Pages, overlay: map[uint64]byte{}, prefill: prefill}
}

func mergeRanges(rs []rng2) []rng2 {
	sort.Slice(rs, func(i, j int) bool { return rs[i].a < rs[j].a })
	var out []rng2
	for _, x := range rs {
		if x.a >= x.b {
			continue
		}
		if n := len(out); n > 0 && x.a <= out[n-1].b {
			if x.b > out[n-1].b {
				out[n-1].b = x.b
			}
		} else {
			out = append(out, x)
		}
	}
	return out
}

func clampSub(a, d uint64) uint64 {
	if a < d {
		return 0
	}
	return a - d
}

// Expect is what the property demands of one program.
type Expect struct {
	Trap     string      `json:"trap"`
	Ret      uint64      `json:"ret"`
	Pages    uint32      `json:"pages"`
	Prefill  [][2]uint64 `json:"prefill"`
	Probes   [][2]uint64 `json:"probes"`
	ProbeHex []string    `json:"probe_hex"`
	InterpOK bool        `json:"-"`
	NAcc     int         `json:"-"`
	NOOB     int         `json:"-"`
	Recs     []accRec    `json:"-"`
}

func reference(p *Prog) *Expect {
	// pass 1: effective addresses (do not depend on memory contents)
	r1 := newRef(p, nil)
	r1.exec(p.Body)
	initLen := uint64(p.Pages) * 65536
	var pre, probes []rng2
	finalLen := r1.length()
	for _, a := range r1.recs {
		if a.Ea < a.Len {
			hi := a.Ea + uint64(a.W) + 16
			pre = append(pre, rng2{clampSub(a.Ea, 16), min64(hi, initLen)})
			probes = append(probes, rng2{clampSub(a.Ea, 16), min64(hi, finalLen)})
		} else if a.Len > 0 {
			// entirely out of range: watch the last bytes of the memory
			pre = append(pre, rng2{clampSub(min64(a.Len, initLen), 16), min64(a.Len, initLen)})
			probes = append(probes, rng2{clampSub(a.Len, 16), a.Len})
		}
	}
	var bulk func(ss []Stmt)
	bulk = func(ss []Stmt) {
		for _, s := range ss {
			if s.K == "fill" || s.K == "copy" || s.K == "init" {
				srcs := []uint64{uint64(s.D), uint64(s.S)}
				if s.K == "init" {
					srcs = srcs[:1]
				}
				for _, st := range srcs {
					n := uint64(s.N)
					if n > 1<<16 {
						n = 1 << 16
					}
					if st < finalLen {
						pre = append(pre, rng2{clampSub(st, 16), min64(st+n+16, initLen)})
						probes = append(probes, rng2{clampSub(st, 16), min64(st+n+16, finalLen)})
					}
				}
			}
			bulk(s.Body)
			bulk(s.Else)
		}
	}
	bulk(p.Body)
	pre, probes = mergeRanges(pre), mergeRanges(probes)
	// pass 2: values
	r := newRef(p, pre)
	r.exec(p.Body)
	e := &Expect{Trap: r.trap, Ret: r.acc, Pages: r.pages, InterpOK: r.interpOK, NAcc: len(r.recs), Recs: r.recs}
	if r.trap != "" {
		e.Ret = 0
	}
	for _, a := range r.recs {
		if !a.OK {
			e.NOOB++
		}
	}
	for _, x := range pre {
		e.Prefill = append(e.Prefill, [2]uint64{x.a, x.b})
	}
	for _, x := range probes {
		e.Probes = append(e.Probes, [2]uint64{x.a, x.b})
		var sb strings.Builder
		for i := x.a; i < x.b; i++ {
			fmt.Fprintf(&sb, "%02x", r.byteAt(i))
		}
		e.ProbeHex = append(e.ProbeHex, sb.String())
	}
	return e
}

func min64(a, b uint64) uint64 {
	if a < b {
		return a
	}
	return b
}
