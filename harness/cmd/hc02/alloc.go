package main

// Guarded linear-memory allocator (tie C monitor): the memory lives inside a 32 GiB PROT_NONE
// reservation  [8 GiB guard][slot 0: 4 GiB][8 GiB guard][slot 1: 4 GiB][8 GiB guard]  (virtual only).
// Only [slot, slot+size) is readable/writable, so any access generated code makes outside the
// current [0,size) range — up to ±8 GiB away, which covers every 32-bit/33-bit arithmetic slip —
// faults and kills the (child) process.  When `move` is set, every growth moves the memory to the
// other slot with mremap (no copying) and turns the old slot back into PROT_NONE, so that a stale
// base pointer kept across a call/memory.grow faults as well.

import (
	"fmt"
	"os"
	"syscall"
	"unsafe"

	"github.com/tetratelabs/wazero/experimental"
)

const (
	gib       = uint64(1) << 30
	guardSize = 8 * gib
	slotSize  = 4 * gib
	arenaSize = 3*guardSize + 2*slotSize
)

type guarded struct {
	arena uintptr
	cur   int
	size  uint64
	max   uint64
	move  bool
	moves int
	freed bool
}

var lastAlloc *guarded

func slotAddr(g *guarded, i int) uintptr {
	return g.arena + uintptr(guardSize) + uintptr(i)*uintptr(slotSize+guardSize)
}

func childFatal(f string, a ...any) {
	fmt.Fprintf(os.Stderr, "CHILD-FAULT: "+f+"\n", a...)
	os.Exit(3)
}

func mmapAt(addr uintptr, n uint64, prot int, fixed bool) uintptr {
	flags := syscall.MAP_ANON | syscall.MAP_PRIVATE | syscall.MAP_NORESERVE
	if fixed {
		flags |= syscall.MAP_FIXED
	}
	r, _, e := syscall.Syscall6(syscall.SYS_MMAP, addr, uintptr(n), uintptr(prot), uintptr(flags), ^uintptr(0), 0)
	if e != 0 {
		childFatal("mmap %d bytes: %v", n, e)
	}
	return r
}

func mprotect(addr uintptr, n uint64, prot int) {
	if n == 0 {
		return
	}
	if _, _, e := syscall.Syscall(syscall.SYS_MPROTECT, addr, uintptr(n), uintptr(prot)); e != 0 {
		childFatal("mprotect: %v", e)
	}
}

const mremapMayMove, mremapFixed = 1, 2

func newGuarded(max uint64, move bool) *guarded {
	g := &guarded{max: max, move: move}
	g.arena = mmapAt(0, arenaSize, syscall.PROT_NONE, false)
	lastAlloc = g
	return g
}

func (g *guarded) slice() []byte {
	return unsafe.Slice((*byte)(unsafe.Pointer(slotAddr(g, g.cur))), g.size)
}

// Reallocate implements experimental.LinearMemory.
func (g *guarded) Reallocate(size uint64) []byte {
	if size > g.max || size > slotSize {
		return nil
	}
	if size <= g.size {
		return g.slice()[:size]
	}
	if g.move && g.size > 0 {
		old, nw := slotAddr(g, g.cur), slotAddr(g, 1-g.cur)
		if _, _, e := syscall.Syscall6(syscall.SYS_MREMAP, old, uintptr(g.size), uintptr(g.size), mremapMayMove|mremapFixed, nw, 0); e != 0 {
			childFatal("mremap: %v", e)
		}
		mmapAt(old, g.size, syscall.PROT_NONE, true) // the old place becomes a guard again
		g.cur = 1 - g.cur
		g.moves++
	}
	base := slotAddr(g, g.cur)
	mprotect(base+uintptr(g.size), size-g.size, syscall.PROT_READ|syscall.PROT_WRITE)
	g.size = size
	return g.slice()
}

// Free implements experimental.LinearMemory.
func (g *guarded) Free() {
	if !g.freed {
		g.freed = true
		syscall.Syscall(syscall.SYS_MUNMAP, g.arena, uintptr(arenaSize), 0)
	}
}

func guardedAllocator(move bool) experimental.MemoryAllocator {
	return experimental.MemoryAllocatorFunc(func(cap, max uint64) experimental.LinearMemory {
		return newGuarded(max, move)
	})
}

// mix is the background pattern of prefilled bytes: never 0, so that a read that lands on a wrong
// (untouched, zero) page or on a neighbouring byte is visible in the loaded value.
func mix(i uint64) byte {
	x := i*0x9E3779B97F4A7C15 + 0x1234567
	x ^= x >> 29
	return byte(x>>7) | 1
}
