package main

// The complete catalogue of memory instructions (the property quantifies over "guest memory accesses", not over
// the handful of opcodes the templates were written with): every scalar load/store incl. the sign-extending and
// float forms, every v128 load form (splat, extend, zero, lane) and store lane, every atomic load / store /
// read-modify-write / compare-exchange of every width, and memory.atomic.notify.  Each entry carries enough of
// its meaning for the byte-exact reference: how many bytes it touches, what it leaves in memory and what value
// it produces (folded into the accumulator), so that a lowering that reads or writes MORE than the checked width
// (into the guard page) or different bytes is seen both by the monitor and by the value comparison.

import (
	"encoding/binary"

	"github.com/tetratelabs/wazero/internal/leb128"
	"github.com/tetratelabs/wazero/internal/wasm"
	"github.com/tetratelabs/wazero/verifharness/hx"
	"github.com/tetratelabs/wazero/verifharness/memcat"
	"github.com/tetratelabs/wazero/verifharness/wb"
)

// catalogue entries have kind != ""
//
//	load     res i|I|f|F, sext                 store    res i|I|f|F
//	rmw      rop add|sub|and|or|xor|xchg       cmpxchg
//	vload    vk splat|ext-s|ext-u|zero (w = bytes read)
//	vlload   load lane (lane index)            vlstore  store lane
//	notify
var catNames []string

func addCat(name string, oi opInfo) {
	if _, dup := ops[name]; dup {
		hx.Fatal("catalogue: duplicate op %s", name)
	}
	ops[name] = oi
	catNames = append(catNames, name)
}

func init() {
	for _, o := range memcat.All() {
		addCat(o.Name, opInfo{w: o.W, store: o.Store, atomic: o.Atomic, rmw: o.Rmw, enc: o.Enc, align: o.Align, i64: o.Res == 'I',
			kind: o.Kind, res: o.Res, sext: o.Sext, rop: o.Rop, vk: o.Vk, lanew: o.LaneW, lane: o.Lane})
	}
}

func constOf(res byte, v uint64) []byte {
	switch res {
	case 'i':
		return i32c(uint32(v))
	case 'I':
		return wb.I64Const(int64(v))
	case 'f':
		b := []byte{wasm.OpcodeF32Const, 0, 0, 0, 0}
		binary.LittleEndian.PutUint32(b[1:], uint32(v))
		return b
	}
	b := []byte{wasm.OpcodeF64Const, 0, 0, 0, 0, 0, 0, 0, 0}
	binary.LittleEndian.PutUint64(b[1:], v)
	return b
}

// toBits turns the value on the stack into its bit pattern as an i64 (i32 and f32 zero-extended).
func toBits(res byte) []byte {
	switch res {
	case 'i':
		return []byte{wasm.OpcodeI64ExtendI32U}
	case 'f':
		return []byte{wasm.OpcodeI32ReinterpretF32, wasm.OpcodeI64ExtendI32U}
	case 'F':
		return []byte{wasm.OpcodeI64ReinterpretF64}
	}
	return nil
}

func foldLanes() []byte {
	return wb.Cat(wb.LocalSet(lV),
		wb.LocalGet(lV), wb.Op(wasm.OpcodeVecPrefix, wasm.OpcodeVecI64x2ExtractLane, 0), foldAcc(),
		wb.LocalGet(lV), wb.Op(wasm.OpcodeVecPrefix, wasm.OpcodeVecI64x2ExtractLane, 1), foldAcc())
}

// emitCat: the address is already on the stack.
func emitCat(s Stmt, oi opInfo) []byte {
	memarg := wb.Cat(oi.enc, leb128.EncodeUint32(oi.align), leb128.EncodeUint32(s.Off))
	splatV := wb.Cat(wb.I64Const(int64(s.V)), wb.Op(wasm.OpcodeVecPrefix, wasm.OpcodeVecI64x2Splat))
	switch oi.kind {
	case "load":
		return wb.Cat(memarg, toBits(oi.res), foldAcc())
	case "store":
		return wb.Cat(constOf(oi.res, s.V), memarg)
	case "rmw":
		return wb.Cat(constOf(oi.res, s.V), memarg, toBits(oi.res), foldAcc())
	case "cmpxchg":
		return wb.Cat(constOf(oi.res, s.V2), constOf(oi.res, s.V), memarg, toBits(oi.res), foldAcc())
	case "notify":
		return wb.Cat(i32c(uint32(s.V)), memarg, toBits('i'), foldAcc())
	case "vload":
		return wb.Cat(memarg, foldLanes())
	case "vlload":
		return wb.Cat(splatV, memarg, []byte{byte(oi.lane)}, foldLanes())
	case "vlstore":
		return wb.Cat(splatV, memarg, []byte{byte(oi.lane)})
	}
	hx.Fatal("emitCat: kind %q", oi.kind)
	return nil
}

func maskW(w int) uint64 {
	if w >= 8 {
		return ^uint64(0)
	}
	return uint64(1)<<(8*uint(w)) - 1
}

func sextTo(v uint64, w int, to int) uint64 {
	sh := uint(64 - 8*w)
	x := uint64(int64(v<<sh) >> sh)
	return x & maskW(to)
}

// refCat: the access is in bounds and aligned; buf holds the w bytes at ea.
func (r *ref) refCat(s Stmt, oi opInfo, ea uint64, buf []byte) {
	var tmp [8]byte
	copy(tmp[:], buf[:min(oi.w, 8)])
	old := binary.LittleEndian.Uint64(tmp[:])
	put := func(v uint64, w int) {
		for k := 0; k < w; k++ {
			r.overlay[ea+uint64(k)] = byte(v >> (8 * uint(k)))
		}
	}
	resW := 4
	if oi.res == 'I' || oi.res == 'F' {
		resW = 8
	}
	switch oi.kind {
	case "load":
		if oi.sext {
			r.fold(sextTo(old, oi.w, resW))
		} else {
			r.fold(old)
		}
	case "store":
		put(s.V, oi.w)
	case "rmw":
		r.fold(old)
		v := s.V & maskW(resW)
		var nv uint64
		switch oi.rop {
		case "add":
			nv = old + v
		case "sub":
			nv = old - v
		case "and":
			nv = old & v
		case "or":
			nv = old | v
		case "xor":
			nv = old ^ v
		case "xchg":
			nv = v
		}
		put(nv, oi.w)
	case "cmpxchg":
		r.fold(old)
		// the expected operand is wrapped to the access width before the comparison
		if old == s.V2&maskW(oi.w) {
			put(s.V, oi.w)
		}
	case "notify":
		r.fold(0) // nobody waits
	case "vload":
		var out [16]byte
		switch oi.vk {
		case "splat":
			for k := 0; k < 16; k++ {
				out[k] = buf[k%oi.w]
			}
		case "zero":
			copy(out[:], buf[:oi.w])
		default: // 8 bytes, lanes of lanew bytes extended to 2*lanew
			n := 8 / oi.lanew
			for i := 0; i < n; i++ {
				var l [8]byte
				copy(l[:], buf[i*oi.lanew:(i+1)*oi.lanew])
				x := binary.LittleEndian.Uint64(l[:])
				if oi.vk == "ext-s" {
					x = sextTo(x, oi.lanew, 2*oi.lanew)
				}
				for k := 0; k < 2*oi.lanew; k++ {
					out[i*2*oi.lanew+k] = byte(x >> (8 * uint(k)))
				}
			}
		}
		r.fold(binary.LittleEndian.Uint64(out[:8]))
		r.fold(binary.LittleEndian.Uint64(out[8:]))
	case "vlload":
		var out [16]byte
		for k := 0; k < 16; k++ {
			out[k] = byte(s.V >> (8 * uint(k%8)))
		}
		copy(out[oi.lane*oi.w:], buf[:oi.w])
		r.fold(binary.LittleEndian.Uint64(out[:8]))
		r.fold(binary.LittleEndian.Uint64(out[8:]))
	case "vlstore":
		for k := 0; k < oi.w; k++ {
			r.overlay[ea+uint64(k)] = byte(s.V >> (8 * uint((oi.lane*oi.w+k)%8)))
		}
	default:
		hx.Fatal("refCat: kind %q", oi.kind)
	}
}
