//go:build verif

package main

import (
	"fmt"

	"github.com/tetratelabs/wazero/api"
	"github.com/tetratelabs/wazero/internal/engine/interpreter"
	"github.com/tetratelabs/wazero/internal/engine/wazevo"
)

const hookAvailable = true

// invOf evaluates the call-engine invariant on the real function object (hook C06-hook-execctx).
// Returns "" when it holds, else a description. info carries the stack length and last grow request.
func invOf(f api.Function) (bad string, stackLen int, growReq uint64) {
	if s, ok := wazevo.VerifReadCallEngine(f); ok {
		switch {
		case s.ExitCode != 0:
			bad = fmt.Sprintf("exitCode=%d", s.ExitCode)
		case !s.StackTopAligned:
			bad = "stackTop not 16-byte aligned"
		case !s.StackTopInStack:
			bad = "stackTop outside the stack"
		case s.StackLen < s.RequiredInitialStackSize:
			bad = fmt.Sprintf("len(stack)=%d < required %d", s.StackLen, s.RequiredInitialStackSize)
		case !s.StackBottomIsStackStart:
			bad = "stackBottomPtr != &stack[0]"
		}
		return bad, s.StackLen, s.StackGrowRequiredSize
	}
	if frames, stack, ok := interpreter.VerifReadCallEngine(f); ok {
		if frames != 0 || stack != 0 {
			bad = fmt.Sprintf("frames=%d stack=%d", frames, stack)
		}
		return bad, 0, 0
	}
	return "unknown function object type", 0, 0
}
