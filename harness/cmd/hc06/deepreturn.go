package main

// Deep-return stage.  The compiler's call stack grows by COPYING: every frame already on it moves, and everything in the
// copy that points into the old stack (the chain of saved frame pointers, above all) has to be relocated - for every
// frame, however many there are.  A growth is only half of the story: the frames far above the growth point are used
// again when the guest RETURNS through them.  mid(n, k, d): recurse n levels down (several growths on the way), come
// back up to level k, call a host function that collects garbage and fills freshly allocated memory (whatever the old
// stacks occupied is reused), then recurse another d levels and return the total depth; also a trap and a stack
// overflow from the bottom of such a history, then a normal call on the same function object.  In a child: a crash
// (a return into recycled memory) is a verdict.

import (
	"context"
	"fmt"
	"os"
	"os/exec"
	"runtime"
	"strings"

	"github.com/tetratelabs/wazero"
	"github.com/tetratelabs/wazero/api"
	"github.com/tetratelabs/wazero/internal/wasm"
	"github.com/tetratelabs/wazero/verifharness/hx"
	"github.com/tetratelabs/wazero/verifharness/wb"
)

func deepReturnModule() []byte {
	m := wb.New()
	gc := m.ImportFunc("env", "gc", nil, nil)
	i32 := wb.I32
	// rec(n, mode): n == 0 ? (mode ? unreachable : 0) : 1 + rec(n-1, mode)
	rec := m.AddFunc(wb.Func{Params: []byte{i32, i32}, Results: []byte{i32}, Export: "rec", Body: wb.Cat(
		wb.LocalGet(0), wb.Op(wasm.OpcodeI32Eqz), wb.Op(wasm.OpcodeIf, i32),
		wb.LocalGet(1), wb.Op(wasm.OpcodeIf, 0x40), wb.Op(wasm.OpcodeUnreachable), wb.Op(wasm.OpcodeEnd), wb.I32Const(0),
		wb.Op(wasm.OpcodeElse),
		wb.LocalGet(0), wb.I32Const(1), wb.Op(wasm.OpcodeI32Sub), wb.LocalGet(1), wb.Call(gc+1), wb.I32Const(1), wb.Op(wasm.OpcodeI32Add),
		wb.Op(wasm.OpcodeEnd))})
	// mid(n, k, mode, d): r = (n == 0 ? 0 : 1 + mid(n-1, k, mode, d)); if n == k { gc(); r += rec(d, mode) }; r
	m.AddFunc(wb.Func{Params: []byte{i32, i32, i32, i32}, Results: []byte{i32}, Locals: []byte{i32}, Export: "mid", Body: wb.Cat(
		wb.LocalGet(0), wb.Op(wasm.OpcodeIf, 0x40),
		wb.LocalGet(0), wb.I32Const(1), wb.Op(wasm.OpcodeI32Sub), wb.LocalGet(1), wb.LocalGet(2), wb.LocalGet(3), wb.Call(rec+1), wb.I32Const(1), wb.Op(wasm.OpcodeI32Add), wb.LocalSet(4),
		wb.Op(wasm.OpcodeEnd),
		wb.LocalGet(0), wb.LocalGet(1), wb.Op(wasm.OpcodeI32Eq), wb.Op(wasm.OpcodeIf, 0x40),
		wb.Call(gc), wb.LocalGet(4), wb.LocalGet(3), wb.LocalGet(2), wb.Call(rec), wb.Op(wasm.OpcodeI32Add), wb.LocalSet(4),
		wb.Op(wasm.OpcodeEnd),
		wb.LocalGet(4))})
	return m.Bytes()
}

var deepKeep [][]byte

func deepReturnChild(engine string) {
	ctx := context.Background()
	rc := wazero.NewRuntimeConfigCompiler()
	if engine == "interpreter" {
		rc = wazero.NewRuntimeConfigInterpreter()
	}
	rt := wazero.NewRuntimeWithConfig(ctx, rc)
	if _, err := rt.NewHostModuleBuilder("env").NewFunctionBuilder().WithFunc(func() {
		runtime.GC()
		deepKeep = deepKeep[:0]
		for i := 0; i < 64; i++ {
			b := make([]byte, 64<<10)
			for j := range b {
				b[j] = 0xa5
			}
			deepKeep = append(deepKeep, b)
		}
		runtime.GC()
	}).Export("gc").Instantiate(ctx); err != nil {
		fmt.Println("SETUP", err)
		return
	}
	mod, err := rt.InstantiateWithConfig(ctx, deepReturnModule(), wazero.NewModuleConfig())
	if err != nil {
		fmt.Println("SETUP", err)
		return
	}
	bad := 0
	expect := func(what string, res []uint64, err error, want uint64, wantErr string) {
		switch {
		case err != nil && strings.Contains(err.Error(), "stack overflow"):
			// how deep a guest may recurse is the engine's business (the interpreter stops at 2000 frames): a contained
			// stack-overflow error is always an acceptable end of a deep recursion
		case wantErr != "" && (err == nil || !strings.Contains(err.Error(), wantErr)):
			fmt.Printf("BAD %s: want error %q, got %v %v\n", what, wantErr, res, err)
			bad++
		case wantErr == "" && (err != nil || len(res) != 1 || uint32(res[0]) != uint32(want)):
			fmt.Printf("BAD %s: want %d, got %v %v\n", what, want, res, err)
			bad++
		}
	}
	for round := 0; round < 3; round++ {
		for _, c := range [][3]uint64{{2000, 500, 6000}, {900, 40, 300}, {3000, 2960, 100}} {
			mid := mod.ExportedFunction("mid")
			res, err := mid.Call(ctx, c[0], c[1], 0, c[2])
			expect(fmt.Sprintf("mid(%d,%d,0,%d)", c[0], c[1], c[2]), res, err, c[0]+c[2], "")
			res, err = mid.Call(ctx, c[0], c[1], 1, c[2])
			expect(fmt.Sprintf("mid(%d,%d,1,%d) [traps at the bottom]", c[0], c[1], c[2]), res, err, 0, "unreachable")
			res, err = mid.Call(ctx, c[0], c[1], 0, c[2])
			expect("the same call again on the same function object", res, err, c[0]+c[2], "")
		}
		rec := mod.ExportedFunction("rec")
		res, err := rec.Call(ctx, 0xffffffff, 0)
		expect("rec(2^32-1)", res, err, 0, "stack overflow")
		res, err = rec.Call(ctx, 5000, 0)
		expect("rec(5000) after the overflow", res, err, 5000, "")
	}
	if bad == 0 {
		fmt.Println("RESULT ok")
	} else {
		fmt.Println("RESULT bad")
	}
	_ = api.ValueTypeI32
}

func deepReturn() {
	for _, e := range both {
		cmd := hx.Supervised(exec.Command(os.Args[0], "-child", "deepreturn:"+e))
		cmd.Env = append(os.Environ(), "GOMEMLIMIT=2GiB")
		out, err := cmd.CombinedOutput()
		rep.Case("deep-return/" + e)
		o := string(out)
		in := map[string]any{"engine": e, "program": "mid(n,k,mode,d): recurse n levels down, back up to level k, call a host function that collects garbage and fills fresh memory, recurse d more levels (mode 1: trap at the bottom); (n,k,d) in {(2000,500,6000), (900,40,300), (3000,2960,100)}; then rec(2^32-1) (stack overflow) and rec(5000); three rounds on one instance"}
		switch {
		case strings.Contains(o, "SETUP"):
			hx.Fatal("deepreturn child: %s", o)
		case err != nil && !strings.Contains(o, "RESULT"):
			rep.Violate(hx.Violation{Kind: "impl-violation", Signature: "C06:process-crash-returning-through-frames-moved-by-stack-growth:" + e,
				What: "the process died while a guest returned through (or kept using) frames that a growth of the call stack had moved: " + firstLineOf(o), Input: in, Actual: clipS(o, 1500)})
		case !strings.Contains(o, "RESULT ok"):
			rep.Violate(hx.Violation{Kind: "impl-violation", Signature: "C06:wrong-outcome-after-deep-recursion-and-return:" + e,
				What: "deep recursion with growth, return, host call and renewed recursion gave a wrong result or error: " + firstLineOf(o), Input: in, Actual: clipS(o, 1500)})
		default:
			rep.Count("targeted:deep-return:" + e + ":ok")
		}
	}
}
