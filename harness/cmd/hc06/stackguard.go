package main

// Stack-guard stage (compiler engine).  The compiler runs guest code on a Go-allocated byte slice of its own and grows
// it on demand: every function prologue checks that the frame AND what the function needs for its calls (the argument +
// result area of the largest callee signature, the return address, the saved frame pointer, the frame of the
// stack-growth call-out) fit above the bottom of that slice.  An under-estimate of any of those is a write below the slice: into
// whatever the Go heap holds there.  "Deep recursion ends in growth or a contained stack-overflow error, never in a
// corrupted process" therefore is a statement about every signature size and every position of the stack's end inside
// a frame.  The stage places a fresh call engine's stack inside a larger buffer (reflect: the fields `stack`,
// `stackTop`, `execCtx.stackBottomPtr` of the compiler's call engine) with a canary area below it, for a sweep of
// stack sizes and of signatures (0..300 stack-passed parameters and results, integer and float), runs a recursion a few
// frames deep and checks the canary: any modified byte is a write outside the call stack.  Garbage collection is off
// meanwhile, so the outcome depends on the generated code alone.  (Skipped when the engine's fields are not found.)

import (
	"context"
	"fmt"
	"reflect"
	"runtime"
	"runtime/debug"
	"unsafe"

	"github.com/tetratelabs/wazero"
	"github.com/tetratelabs/wazero/api"
	"github.com/tetratelabs/wazero/internal/wasm"
	"github.com/tetratelabs/wazero/verifharness/hx"
	"github.com/tetratelabs/wazero/verifharness/wb"
)

// guardModule: f(n, p1..pP) -> (r1..rR): if n == 0 return R constants, else return f(n-1, p1..pP) [then drop / pad to R];
// run(n): call f(n, constants), drop the results, return n.
func guardModule(np, nr int, vt byte) []byte {
	m := wb.New()
	konst := func() []byte {
		if vt == wb.F64 {
			return append([]byte{wasm.OpcodeF64Const}, 0, 0, 0, 0, 0, 0, 0x45, 0x40) // 42.0
		}
		return wb.I64Const(41)
	}
	params := []byte{wb.I32}
	for i := 0; i < np; i++ {
		params = append(params, vt)
	}
	var results []byte
	for i := 0; i < nr; i++ {
		results = append(results, vt)
	}
	var body []byte
	body = append(body, wb.Cat(wb.LocalGet(0), wb.Op(wasm.OpcodeI32Eqz), wb.Op(wasm.OpcodeIf, 0x40))...)
	for i := 0; i < nr; i++ {
		body = append(body, konst()...)
	}
	body = append(body, wb.Op(wasm.OpcodeReturn, wasm.OpcodeEnd)...)
	body = append(body, wb.Cat(wb.LocalGet(0), wb.I32Const(1), wb.Op(wasm.OpcodeI32Sub))...)
	for i := 1; i <= np; i++ {
		body = append(body, wb.LocalGet(uint32(i))...)
	}
	body = append(body, wb.Call(0)...)
	f := m.AddFunc(wb.Func{Params: params, Results: results, Body: body})
	var run []byte
	run = append(run, wb.LocalGet(0)...)
	for i := 0; i < np; i++ {
		run = append(run, konst()...)
	}
	run = append(run, wb.Call(f)...)
	for i := 0; i < nr; i++ {
		run = append(run, wasm.OpcodeDrop)
	}
	run = append(run, wb.LocalGet(0)...)
	m.AddFunc(wb.Func{Params: []byte{wb.I32}, Results: []byte{wb.I32}, Export: "run", Body: run})
	return m.Bytes()
}

func placeStack(fn api.Function, buf []byte, lo, hi int) bool {
	v := reflect.ValueOf(fn)
	if v.Kind() != reflect.Ptr {
		return false
	}
	v = v.Elem()
	if v.Kind() != reflect.Struct {
		return false
	}
	stackF, topF := v.FieldByName("stack"), v.FieldByName("stackTop")
	ec := v.FieldByName("execCtx")
	if !stackF.IsValid() || !topF.IsValid() || !ec.IsValid() || stackF.Kind() != reflect.Slice || topF.Kind() != reflect.Uintptr {
		return false
	}
	bottomF := ec.FieldByName("stackBottomPtr")
	if !bottomF.IsValid() || bottomF.Kind() != reflect.Ptr {
		return false
	}
	s := buf[lo:hi:hi]
	*(*[]byte)(unsafe.Pointer(stackF.UnsafeAddr())) = s
	top := uintptr(unsafe.Pointer(&s[len(s)-1]))
	top -= top & 15
	*(*uintptr)(unsafe.Pointer(topF.UnsafeAddr())) = top
	*(**byte)(unsafe.Pointer(bottomF.UnsafeAddr())) = &s[0]
	return true
}

func stackGuardStage() {
	ctx := context.Background()
	defer debug.SetGCPercent(debug.SetGCPercent(-1))
	const canary = 32 << 10
	type sig struct {
		np, nr int
		vt     byte
	}
	sigs := []sig{{0, 0, wb.I64}, {12, 12, wb.I64}, {40, 3, wb.I64}, {3, 40, wb.F64}, {300, 300, wb.I64}, {0, 300, wb.I64}, {300, 0, wb.F64}, {120, 260, wb.F64}}
	step := 512
	if hx.Thorough() {
		step = 64
	}
	for _, sg := range sigs {
		rt := wazero.NewRuntimeWithConfig(ctx, wazero.NewRuntimeConfigCompiler())
		mod, err := rt.Instantiate(ctx, guardModule(sg.np, sg.nr, sg.vt))
		if err != nil {
			hx.Fatal("stack-guard stage: %v", err)
		}
		bad := false
		for size := 10240; size < 10240+8192 && !bad; size += step {
			for _, depth := range []uint64{2, 6} {
				buf := make([]byte, canary+size+64)
				for i := range buf[:canary] {
					buf[i] = 0xCC
				}
				fn := mod.ExportedFunction("run")
				if !placeStack(fn, buf, canary, canary+size) {
					rep.Count("stack-guard:skipped-call-engine-fields-not-found")
					rt.Close(ctx)
					return
				}
				res, err := fn.Call(ctx, depth)
				first, n := -1, 0
				for i, b := range buf[:canary] {
					if b != 0xCC {
						if first < 0 {
							first = i
						}
						n++
					}
				}
				runtime.KeepAlive(buf)
				rep.Case(fmt.Sprintf("stack-guard/%d/%d/%d/%d/%d", sg.np, sg.nr, sg.vt, size, depth))
				input := map[string]any{"stage": "stack guard", "engine": "compiler", "stack_params": sg.np, "stack_results": sg.nr, "value_type": api.ValueTypeName(sg.vt),
					"initial_stack_bytes": size, "recursion_depth": depth, "guest": "f(n, p...) -> (r...) = if n == 0 then constants else f(n-1, p...); run(n) calls f and drops the results"}
				switch {
				case n > 0:
					rep.Violate(hx.Violation{Kind: "impl-violation", Signature: "C06:compiled-code-writes-below-its-call-stack",
						What:  fmt.Sprintf("compiler: a recursion %d deep through a signature with %d parameters and %d results (%s) on a call stack of %d bytes modified %d bytes BELOW the bottom of the stack (lowest %d bytes below): a prologue's stack check under-estimates what the function writes before its callee's own check runs", depth, sg.np, sg.nr, api.ValueTypeName(sg.vt), size, n, canary-first),
						Input: input, Expected: "stack growth or a stack-overflow error; nothing outside the call stack written", Actual: fmt.Sprintf("%d canary bytes overwritten", n)})
					bad = true
				case err != nil || len(res) != 1 || res[0] != depth:
					rep.Violate(hx.Violation{Kind: "impl-violation", Signature: "C06:deep-recursion-on-a-small-stack-fails",
						What: fmt.Sprintf("compiler: run(%d) through a %d/%d signature on a %d-byte stack answered %v, %v", depth, sg.np, sg.nr, size, res, err), Input: input})
					bad = true
				default:
					rep.Count("stack-guard:ok")
				}
				if bad {
					break
				}
			}
		}
		rt.Close(ctx)
	}
}
