package main

// WASI-exit stage.  A guest that ends itself through wasi_snapshot_preview1.proc_exit(code) is a guest EXIT, and the
// error every caller gets is a *sys.ExitError carrying exactly that 32-bit code - at every nesting depth (directly, and
// from an outer instance through an imported function of the exiting one), on both engines, and again on every later call
// of the exited instance; the outer instance stays open.  Codes over the whole 32-bit range, not only 0..255.

import (
	"context"
	"errors"
	"fmt"

	"github.com/tetratelabs/wazero"
	"github.com/tetratelabs/wazero/imports/wasi_snapshot_preview1"
	"github.com/tetratelabs/wazero/sys"
	"github.com/tetratelabs/wazero/verifharness/hx"
	"github.com/tetratelabs/wazero/verifharness/wb"
)

func wasiExitStage() {
	ctx := context.Background()
	inner := wb.New()
	pe := inner.ImportFunc("wasi_snapshot_preview1", "proc_exit", []byte{wb.I32}, nil)
	inner.AddFunc(wb.Func{Params: []byte{wb.I32}, Export: "bye", Body: wb.Cat(wb.LocalGet(0), wb.Call(pe))})
	innerBin := inner.Bytes()
	outer := wb.New()
	by := outer.ImportFunc("inner", "bye", []byte{wb.I32}, nil)
	outer.AddFunc(wb.Func{Params: []byte{wb.I32}, Export: "run", Body: wb.Cat(wb.LocalGet(0), wb.Call(by))})
	outer.AddFunc(wb.Func{Results: []byte{wb.I32}, Export: "alive", Body: wb.I32Const(7)})
	outerBin := outer.Bytes()
	codes := []uint32{0, 1, 42, 255, 256, 300, 0x10000, 0x12345678, 0x7fffffff, 0x80000000, 0xfffffffe}
	for _, e := range both {
		for _, code := range codes {
			rc := wazero.NewRuntimeConfigCompiler()
			if e == "interpreter" {
				rc = wazero.NewRuntimeConfigInterpreter()
			}
			rt := wazero.NewRuntimeWithConfig(ctx, rc)
			if _, err := wasi_snapshot_preview1.Instantiate(ctx, rt); err != nil {
				hx.Fatal("wasi-exit stage: %v", err)
			}
			in, err := rt.InstantiateWithConfig(ctx, innerBin, wazero.NewModuleConfig().WithName("inner"))
			if err != nil {
				hx.Fatal("wasi-exit stage: %v", err)
			}
			out, err := rt.InstantiateWithConfig(ctx, outerBin, wazero.NewModuleConfig().WithName("outer"))
			if err != nil {
				hx.Fatal("wasi-exit stage: %v", err)
			}
			var got []string
			obs := func(what string, err error) {
				var ee *sys.ExitError
				switch {
				case err == nil:
					got = append(got, what+": no error")
				case errors.As(err, &ee):
					_, direct := err.(*sys.ExitError)
					got = append(got, fmt.Sprintf("%s: exit %d direct=%v", what, ee.ExitCode(), direct))
				default:
					got = append(got, what+": "+firstLineOf(err.Error()))
				}
			}
			_, err = out.ExportedFunction("run").Call(ctx, uint64(code))
			obs("nested", err)
			_, err = in.ExportedFunction("bye").Call(ctx, uint64(code))
			obs("inner again", err)
			res, err := out.ExportedFunction("alive").Call(ctx)
			got = append(got, fmt.Sprintf("outer alive: %v %v closed=%v", res, err, out.IsClosed()))
			rt.Close(ctx)
			want := []string{fmt.Sprintf("nested: exit %d direct=true", code), fmt.Sprintf("inner again: exit %d direct=true", code), "outer alive: [7] <nil> closed=false"}
			rep.Case(fmt.Sprintf("wasi-exit/%s/%d", e, code))
			if fmt.Sprint(got) != fmt.Sprint(want) {
				rep.Violate(hx.Violation{Kind: "impl-violation", Signature: "C06:wasi-exit-error-does-not-carry-the-guests-code:" + e,
					What:  fmt.Sprintf("%s: proc_exit(%d) reached through an outer instance's import: observations %v", e, code, got),
					Input: map[string]any{"stage": "WASI exit", "engine": e, "exit_code": code}, Expected: want, Actual: got})
			} else {
				rep.Count("wasi-exit:ok")
			}
		}
	}
}
