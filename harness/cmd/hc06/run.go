package main

import (
	"context"
	"errors"
	"fmt"
	"regexp"
	"runtime"
	"sort"
	"strings"
	"time"

	"github.com/tetratelabs/wazero"
	"github.com/tetratelabs/wazero/api"
	"github.com/tetratelabs/wazero/experimental"
	"github.com/tetratelabs/wazero/internal/wasm"
	"github.com/tetratelabs/wazero/internal/wasmruntime"
	"github.com/tetratelabs/wazero/sys"
)

// ---- host panic values

type hostErr struct{ n uint32 }

func (e *hostErr) Error() string { return fmt.Sprintf("herr-%d", e.n) }

type customPanic struct{ N uint32 }

func (c customPanic) String() string { return fmt.Sprintf("custom-%d", c.N) }

var startPrefix = regexp.MustCompile(`^start function\[[^\]]*\] failed: `)
var notInstantiated = regexp.MustCompile(`^module\[i[0-9]\] not instantiated$`)

var runtimeErrs = []struct {
	name string
	err  *wasmruntime.Error
}{
	{"unreachable", wasmruntime.ErrRuntimeUnreachable},
	{"int_div_zero", wasmruntime.ErrRuntimeIntegerDivideByZero},
	{"int_overflow", wasmruntime.ErrRuntimeIntegerOverflow},
	{"invalid_conv", wasmruntime.ErrRuntimeInvalidConversionToInteger},
	{"oob_memory", wasmruntime.ErrRuntimeOutOfBoundsMemoryAccess},
	{"invalid_table", wasmruntime.ErrRuntimeInvalidTableAccess},
	{"type_mismatch", wasmruntime.ErrRuntimeIndirectCallTypeMismatch},
	{"unaligned_atomic", wasmruntime.ErrRuntimeUnalignedAtomic},
}

var classCode = map[string]uint32{"unreachable": 1, "int_div_zero": 2, "int_overflow": 3, "invalid_conv": 4, "oob_memory": 5,
	"invalid_table": 6, "type_mismatch": 7, "unaligned_atomic": 8}

// classify is the error-class monitor: the documented kind of an error returned by Call.
//   - exit: a *sys.ExitError itself (the documented `err.(*sys.ExitError)` assertion), carrying the code
//   - trap/overflow: errors.Is(err, wasmruntime.ErrRuntime…)
//   - host panic with an error: the panic value is in the chain (errors.As)
//   - host panic with a string / another value: the message starts with the formatted value
func classify(err error) (string, uint32) {
	if err == nil {
		return "ok", 0
	}
	if ee, ok := err.(*sys.ExitError); ok {
		return fmt.Sprintf("exit %d", ee.ExitCode()), 2000 + ee.ExitCode()
	}
	var wrapped *sys.ExitError
	if errors.As(err, &wrapped) {
		return fmt.Sprintf("wrapped-exit %d", wrapped.ExitCode()), 0
	}
	if errors.Is(err, wasmruntime.ErrRuntimeStackOverflow) {
		return "overflow", 1100
	}
	for _, re := range runtimeErrs {
		if errors.Is(err, re.err) {
			return "trap " + re.name, 1000 + classCode[re.name]
		}
	}
	var he *hostErr
	if errors.As(err, &he) {
		return fmt.Sprintf("perr %d", he.n), 1200
	}
	msg := err.Error()
	// a failing start function is reported as "start function[i] failed: <error of the call>"
	if m := startPrefix.FindString(msg); m != "" {
		msg = msg[len(m):]
	}
	var n uint32
	if _, e := fmt.Sscanf(msg, "hstr-%d (recovered by wazero)", &n); e == nil {
		return fmt.Sprintf("pstr %d", n), 1201
	}
	if _, e := fmt.Sscanf(msg, "custom-%d (recovered by wazero)", &n); e == nil {
		return fmt.Sprintf("pval %d", n), 1202
	}
	if notInstantiated.MatchString(msg) {
		// not a failure of a call: an import of the transient module names a closed (unregistered) module
		return "noimport", 9001
	}
	if len(msg) > 200 {
		msg = msg[:200]
	}
	return "other:" + strings.ReplaceAll(msg, "\n", "\\n"), 9000
}

// ---- a world on a real runtime

type rtWorld struct {
	w      *World
	engine string
	ctx    context.Context
	rt     wazero.Runtime
	mods   [3]api.Module
	fns    [3][]api.Function // the function objects, created once and reused for the whole history
	sBins  map[int]wazero.CompiledModule
	shared *sharedCode
	// closeOnDone: see Case.CloseOnDone
	closeOnDone bool
}

// sharedCode: binaries and the compilation cache of one world on one engine (shared by the twins).
type sharedCode struct {
	cache wazero.CompilationCache
	bins  [3][]byte
	sBins map[int][]byte
}

func newShared(w *World) *sharedCode {
	s := &sharedCode{cache: wazero.NewCompilationCache(), sBins: map[int][]byte{}}
	for k := 0; k < 3; k++ {
		s.bins[k] = w.module(k, -1)
	}
	return s
}

func newRT(w *World, engine string, sh *sharedCode, closeOnDone bool) (*rtWorld, error) {
	ctx := context.Background()
	var rc wazero.RuntimeConfig
	if engine == "compiler" {
		rc = wazero.NewRuntimeConfigCompiler()
	} else {
		rc = wazero.NewRuntimeConfigInterpreter()
	}
	rc = rc.WithCompilationCache(sh.cache).WithCoreFeatures(api.CoreFeaturesV2 | experimental.CoreFeaturesThreads)
	if closeOnDone {
		rc = rc.WithCloseOnContextDone(true)
	}
	r := &rtWorld{closeOnDone: closeOnDone, w: w, engine: engine, ctx: ctx, rt: wazero.NewRuntimeWithConfig(ctx, rc), sBins: map[int]wazero.CompiledModule{}, shared: sh}
	hb := r.rt.NewHostModuleBuilder("env")
	one := []api.ValueType{api.ValueTypeI32}
	goFn := func(name string, f func(ctx context.Context, stack []uint64)) {
		hb.NewFunctionBuilder().WithGoFunction(api.GoFunc(f), one, one).Export(name)
	}
	modFn := func(name string, f func(ctx context.Context, mod api.Module, stack []uint64)) {
		hb.NewFunctionBuilder().WithGoModuleFunction(api.GoModuleFunc(f), one, one).Export(name)
	}
	goFn("ok", func(ctx context.Context, s []uint64) { s[0] = uint64(uint32(s[0]) + 1) })
	goFn("pe", func(ctx context.Context, s []uint64) { panic(&hostErr{uint32(s[0])}) })
	goFn("ps", func(ctx context.Context, s []uint64) { panic(fmt.Sprintf("hstr-%d", uint32(s[0]))) })
	modFn("pv", func(ctx context.Context, mod api.Module, s []uint64) { panic(customPanic{uint32(s[0])}) })
	modFn("cl", func(ctx context.Context, mod api.Module, s []uint64) {
		_ = mod.CloseWithExitCode(ctx, uint32(s[0]))
		s[0] = 0
	})
	modFn("ex", func(ctx context.Context, mod api.Module, s []uint64) {
		code := uint32(s[0])
		_ = mod.CloseWithExitCode(ctx, code)
		panic(sys.NewExitError(code))
	})
	for _, name := range w.reenterNames() {
		var kind string
		var j, g int
		parts := strings.Split(name, "-")
		kind = parts[0]
		fmt.Sscanf(parts[1], "%d", &j)
		fmt.Sscanf(parts[2], "%d", &g)
		catching := kind == "rc"
		modFn(name, func(ctx context.Context, mod api.Module, s []uint64) {
			// re-enter through the public API with a fresh function object
			res, err := r.mods[j].ExportedFunction(fmt.Sprintf("f%d", g)).Call(ctx, uint64(uint32(s[0])))
			if err != nil {
				if catching {
					_, code := classify(err)
					s[0] = uint64(code)
					return
				}
				panic(err)
			}
			s[0] = res[0]
		})
	}
	if _, err := hb.Instantiate(ctx); err != nil {
		return nil, fmt.Errorf("env: %w", err)
	}
	for _, k := range []int{iB, iC, iA} {
		cm, err := r.rt.CompileModule(ctx, sh.bins[k])
		if err != nil {
			return nil, fmt.Errorf("compile i%d: %w", k, err)
		}
		mod, err := r.rt.InstantiateModule(ctx, cm, wazero.NewModuleConfig().WithName(fmt.Sprintf("i%d", k)))
		if err != nil {
			return nil, fmt.Errorf("instantiate i%d: %w", k, err)
		}
		r.mods[k] = mod
		for f := range w.Insts[k] {
			r.fns[k] = append(r.fns[k], mod.ExportedFunction(fmt.Sprintf("f%d", f)))
		}
	}
	return r, nil
}

func (r *rtWorld) close() { r.rt.Close(r.ctx) }

type instSnap struct {
	closed bool
	code   uint32
	g      [2]uint64
	mem    []byte
}

func (r *rtWorld) snap() [3]instSnap {
	var out [3]instSnap
	for k := 0; k < 3; k++ {
		m := r.mods[k]
		c := m.(*wasm.ModuleInstance).Closed.Load()
		out[k].closed = c != 0
		out[k].code = uint32(c >> 32)
		for g := 0; g < 2; g++ {
			out[k].g[g] = m.ExportedGlobal(fmt.Sprintf("g%d", g)).Get()
		}
		b, ok := m.Memory().Read(0, 65536)
		if !ok {
			panic("memory read")
		}
		out[k].mem = append([]byte{}, b...)
	}
	return out
}

func dump(s [3]instSnap) string {
	var parts []string
	for k := 0; k < 3; k++ {
		c := "-"
		if s[k].closed {
			c = fmt.Sprint(s[k].code)
		}
		var cells []string
		for a, v := range s[k].mem {
			if v != 0 {
				cells = append(cells, fmt.Sprintf("%d=%d", a, v))
			}
		}
		m := "-"
		if len(cells) > 0 {
			m = strings.Join(cells, ",")
		}
		parts = append(parts, fmt.Sprintf("i%d:c=%s:g=%d,%d:m=%s", k, c, s[k].g[0], s[k].g[1], m))
	}
	return strings.Join(parts, " ")
}

// inject puts a never-failed world into the given state through the host API only.
func (r *rtWorld) inject(s [3]instSnap) {
	for k := 0; k < 3; k++ {
		m := r.mods[k]
		if !m.Memory().Write(0, s[k].mem) {
			panic("memory write")
		}
		for g := 0; g < 2; g++ {
			m.ExportedGlobal(fmt.Sprintf("g%d", g)).(api.MutableGlobal).Set(s[k].g[g])
		}
	}
	for k := 0; k < 3; k++ {
		if s[k].closed {
			_ = r.mods[k].CloseWithExitCode(r.ctx, s[k].code)
		}
	}
}

// callCtx: the context of one API call and the function to run when the call has returned.
func (r *rtWorld) callCtx() (context.Context, func(failed bool)) {
	if !r.closeOnDone {
		return r.ctx, func(bool) {}
	}
	ctx, cancel := context.WithCancel(r.ctx)
	return ctx, func(failed bool) {
		cancel()
		// give a watcher goroutine that outlived the call the chance to act on the cancellation
		if failed {
			time.Sleep(2 * time.Millisecond)
		} else {
			runtime.Gosched()
		}
	}
}

// step performs one history step. fresh=true uses a new function object (the twin), else the
// world's long-lived one. Returns the outcome string.
func (r *rtWorld) step(st Step, fresh bool) (string, api.Function) {
	switch st.Kind {
	case "call":
		f := r.fns[st.Inst][st.Fn]
		if fresh {
			f = r.mods[st.Inst].ExportedFunction(fmt.Sprintf("f%d", st.Fn))
		}
		ctx, done := r.callCtx()
		res, err := f.Call(ctx, uint64(st.Arg))
		done(err != nil)
		if err != nil {
			c, _ := classify(err)
			return c, f
		}
		return fmt.Sprintf("ok %d", uint32(res[0])), f
	case "start":
		k := st.Fn - len(r.w.Insts[iS])
		cm, ok := r.sBins[k]
		if !ok {
			bin, ok := r.shared.sBins[k]
			if !ok {
				bin = r.w.module(iS, k)
				r.shared.sBins[k] = bin
			}
			var err error
			cm, err = r.rt.CompileModule(r.ctx, bin)
			if err != nil {
				return "compile-error:" + err.Error(), nil
			}
			r.sBins[k] = cm
		}
		ctx, done := r.callCtx()
		mod, err := r.rt.InstantiateModule(ctx, cm, wazero.NewModuleConfig().WithName("i3"))
		done(err != nil)
		if err != nil {
			c, _ := classify(err)
			return c, nil
		}
		mod.Close(r.ctx)
		// the start wrapper drops the result; the model returns acc = 0 + f(c): only "ok" is compared
		return "ok", nil
	}
	panic("bad step")
}

// ---- one case on one engine

type StepObs struct {
	Out     string `json:"out"`            // outcome # dump on the real world
	Twin    string `json:"twin"`           // outcome # dump on the never-failed twin
	Inv     string `json:"inv,omitempty"`  // violated call-engine invariant on the real function object
	Len     int    `json:"len,omitempty"`  // compiler: len(stack) of the function object after the call
	GrowReq uint64 `json:"greq,omitempty"` // compiler: last stackGrowRequiredSize
}

type CaseObs struct {
	ID     int    `json:"id"`
	Engine string `json:"engine"`
	Err    string `json:"err,omitempty"`
	// AfterClose: instances still open, or still answering calls without an exit error, after the final
	// Runtime.CloseWithExitCode (empty = the runtime closed every instance, whatever failed before)
	AfterClose string    `json:"after_close,omitempty"`
	Steps      []StepObs `json:"steps"`
}

func runCase(c *Case, engine string) CaseObs {
	obs := CaseObs{ID: c.W.ID, Engine: engine}
	sh := newShared(&c.W)
	defer sh.cache.Close(context.Background())
	real, err := newRT(&c.W, engine, sh, c.CloseOnDone)
	if err != nil {
		obs.Err = err.Error()
		return obs
	}
	defer real.close()
	twin, err := newRT(&c.W, engine, sh, c.CloseOnDone)
	if err != nil {
		obs.Err = err.Error()
		return obs
	}
	defer func() { twin.close() }()
	grew := false
	for _, st := range c.H {
		out, f := real.step(st, false)
		snap := real.snap()
		so := StepObs{Out: out + " # " + dump(snap)}
		if f != nil {
			so.Inv, so.Len, so.GrowReq = invOf(f)
			if so.Len > 1<<20 {
				grew = true
			}
		}
		tout, _ := twin.step(st, true)
		so.Twin = tout + " # " + dump(twin.snap())
		obs.Steps = append(obs.Steps, so)
		if !strings.HasPrefix(out, "ok") || so.Twin != so.Out {
			// the real world failed: rebuild the twin as a world that never failed, put into the
			// real world's state through the host API
			twin.close()
			twin, err = newRT(&c.W, engine, sh, c.CloseOnDone)
			if err != nil {
				obs.Err = "twin: " + err.Error()
				return obs
			}
			twin.inject(snap)
		}
	}
	// "all other instances keep behaving afterwards exactly as an instance that had not failed": that includes
	// being closed by the runtime.  Close the runtime with a code and look at every instance.
	real.rt.CloseWithExitCode(real.ctx, 9)
	var open []string
	for k, m := range real.mods {
		if m == nil {
			continue
		}
		if !m.IsClosed() {
			open = append(open, fmt.Sprintf("instance %d is not closed", k))
			continue
		}
		if f := m.ExportedFunction("f0"); f != nil {
			if _, err := f.Call(real.ctx, 0); err == nil {
				open = append(open, fmt.Sprintf("instance %d still runs f0 without an error", k))
			}
		}
	}
	obs.AfterClose = strings.Join(open, "; ")
	if grew {
		real.fns = [3][]api.Function{}
		runtime.GC()
	}
	return obs
}

func sortedKeys(m map[string]int) []string {
	var ks []string
	for k := range m {
		ks = append(ks, k)
	}
	sort.Strings(ks)
	return ks
}
