// hc06: correspondence + monitor harness for C06 (traps, exits and host panics are contained and
// leave the runtime usable).
//
// Cases = (world, history): a world is four wasm modules generated from a random program of the
// reference semantics (lean/Wz/Model/Calls.lean): B (library), C (independent), A (imports B) and the
// transient S (start function; imports B and A), plus a host module whose functions panic with an
// error / a string / a custom value, close the calling module (returning normally), exit
// (proc_exit-like) or re-enter the runtime through the public API (catching or propagating the inner
// error). A history is ≤ 20 calls of exported functions (the SAME function objects for the whole
// history) and instantiations of S.
//
// Tie B: after EACH step, outcome (result / error class + exit code / panic value) and the state of
// every persistent instance (closed + exit code, globals, non-zero memory) equal the Lean reference
// (oracle topic c06), on both engines.
// Tie C (monitors on the real code, independent of the model):
//   - twin: a world that never failed, put into the same state through the host API only, answers
//     the next step identically (fresh function objects there, long-lived ones here);
//   - error class: errors.Is / type assertion / panic value as documented;
//   - invariant of the real call engine after every call (hook C06-hook-execctx);
//   - the histories run in supervised child processes: a crash is a violation.
package main

import (
	"bufio"
	"encoding/json"
	"flag"
	"fmt"
	"os"
	"os/exec"
	"runtime"
	"runtime/debug"
	"strings"
	"sync"
	"sync/atomic"
	"time"

	"github.com/tetratelabs/wazero/verifharness/hx"
)

var (
	childFile = flag.String("child", "", "internal: run the cases of this file and print observations")
	childOne  = flag.Int("only", -1, "internal: run only the case with this id")
)

func main() {
	flag.Parse()
	if *childFile != "" {
		childMain()
		return
	}
	parentMain()
}

// ---------------------------------------------------------------- child

func childMain() {
	if strings.HasPrefix(*childFile, "failedstart:") {
		failedStartChild(strings.TrimPrefix(*childFile, "failedstart:"))
		return
	}
	if strings.HasPrefix(*childFile, "deepreturn:") {
		deepReturnChild(strings.TrimPrefix(*childFile, "deepreturn:"))
		return
	}
	if strings.HasPrefix(*childFile, "reentrant:") {
		reentrantChild(strings.TrimPrefix(*childFile, "reentrant:"))
		return
	}
	debug.SetGCPercent(50)
	raw, err := os.ReadFile(*childFile)
	if err != nil {
		fmt.Fprintln(os.Stderr, err)
		os.Exit(3)
	}
	var cases []Case
	if err := json.Unmarshal(raw, &cases); err != nil {
		fmt.Fprintln(os.Stderr, err)
		os.Exit(3)
	}
	out := bufio.NewWriter(os.Stdout)
	for i := range cases {
		c := &cases[i]
		if *childOne >= 0 && c.W.ID != *childOne {
			continue
		}
		for _, e := range c.W.Engines {
			fmt.Fprintf(out, "BEGIN %d %s\n", c.W.ID, e)
			out.Flush()
			obs := runCase(c, e)
			b, _ := json.Marshal(obs)
			fmt.Fprintf(out, "RES %s\n", b)
			out.Flush()
		}
	}
}

// ---------------------------------------------------------------- parent

var (
	orc *hx.Oracle
	rep *hx.Report
)

type crash struct {
	id     int
	engine string
	tail   string
	hung   bool
}

// runChild runs a batch file in a child process; returns the observations and, if the child died,
// the case it was running.
const caseDeadline = 90 * time.Second

func runChild(file string, only int) ([]CaseObs, *crash) {
	args := []string{"-child", file}
	if only >= 0 {
		args = append(args, "-only", fmt.Sprint(only))
	}
	cmd := hx.Supervised(exec.Command(os.Args[0], args...))
	cmd.Env = append(os.Environ(), "GOMEMLIMIT=3GiB")
	var stderr strings.Builder
	cmd.Stderr = &stderr
	stdout, err := cmd.StdoutPipe()
	if err != nil {
		hx.Fatal("child: %v", err)
	}
	if err := cmd.Start(); err != nil {
		hx.Fatal("child: %v", err)
	}
	var res []CaseObs
	curID, curEng := -1, ""
	// watchdog: a case takes milliseconds to a few seconds; a child that reports nothing for caseDeadline is hung
	// (e.g. a lock left behind by a failed instruction) and is killed - that is a verdict about the case, not a
	// fault of the harness.
	var hung atomic.Bool
	wd := time.AfterFunc(caseDeadline, func() { hung.Store(true); cmd.Process.Kill() })
	defer wd.Stop()
	sc := bufio.NewScanner(stdout)
	sc.Buffer(make([]byte, 1<<20), 1<<28)
	for sc.Scan() {
		wd.Reset(caseDeadline)
		line := sc.Text()
		switch {
		case strings.HasPrefix(line, "BEGIN "):
			fmt.Sscanf(line, "BEGIN %d %s", &curID, &curEng)
		case strings.HasPrefix(line, "RES "):
			var o CaseObs
			if err := json.Unmarshal([]byte(line[4:]), &o); err != nil {
				hx.Fatal("child output: %v", err)
			}
			res = append(res, o)
			curID = -1
		}
	}
	err = cmd.Wait()
	if err != nil {
		if ee, ok := err.(*exec.ExitError); ok && ee.ExitCode() == 3 {
			hx.Fatal("child could not read its input: %s", stderr.String())
		}
		t := stderr.String()
		if len(t) > 1500 {
			t = t[:700] + " ... " + t[len(t)-700:]
		}
		if hung.Load() {
			return res, &crash{id: curID, engine: curEng, hung: true, tail: fmt.Sprintf("no progress for %v inside the case; child killed", caseDeadline)}
		}
		return res, &crash{id: curID, engine: curEng, tail: fmt.Sprintf("%v: %s", err, t)}
	}
	return res, nil
}

func writeBatch(name string, cases []Case) string {
	p := *hx.Work + "/" + name
	b, _ := json.Marshal(cases)
	if err := os.WriteFile(p, b, 0o644); err != nil {
		hx.Fatal("batch: %v", err)
	}
	return p
}

// runBatch runs the cases in a supervised child; a case that kills the child is re-run alone and
// reported as a process crash if it does it again.
func runBatch(name string, cases []Case) []CaseObs {
	byID := map[int]*Case{}
	for i := range cases {
		byID[cases[i].W.ID] = &cases[i]
	}
	var all []CaseObs
	remaining := cases
	for round := 0; len(remaining) > 0 && round < 50; round++ {
		file := writeBatch(fmt.Sprintf("%s-%d.json", name, round), remaining)
		res, cr := runChild(file, -1)
		all = append(all, res...)
		if cr == nil {
			break
		}
		if cr.id < 0 {
			hx.Fatal("child died outside a case: %s", cr.tail)
		}
		// confirm alone
		_, cr2 := runChild(writeBatch(fmt.Sprintf("%s-%d-one.json", name, round), []Case{*byID[cr.id]}), cr.id)
		if cr2 != nil && cr2.hung {
			rep.Violate(hx.Violation{Kind: "impl-violation", Signature: "C06:call-never-returns-after-failure:" + cr2.engine,
				What:  "a call of the history never returned (the runtime is not usable after a contained failure): " + cr2.tail,
				Input: byID[cr.id]})
		} else if cr2 != nil {
			rep.Violate(hx.Violation{Kind: "impl-violation", Signature: "C06:process-crash:" + cr.engine,
				What:  "the process running the history died (a trap/exit/panic/overflow must never crash the process): " + cr2.tail,
				Input: byID[cr.id]})
		} else {
			rep.Note("case %d killed a batch child once but not alone: %s", cr.id, cr.tail)
		}
		// continue after the crashing case
		var rest []Case
		seen := false
		done := map[string]bool{}
		for _, o := range all {
			done[fmt.Sprintf("%d/%s", o.ID, o.Engine)] = true
		}
		for _, c := range remaining {
			if c.W.ID == cr.id {
				seen = true
				continue
			}
			if seen || !done[fmt.Sprintf("%d/%s", c.W.ID, c.W.Engines[len(c.W.Engines)-1])] {
				if !done[fmt.Sprintf("%d/%s", c.W.ID, c.W.Engines[len(c.W.Engines)-1])] {
					rest = append(rest, c)
				}
			}
		}
		remaining = rest
	}
	return all
}

func outcomeClass(out string) string {
	o := strings.SplitN(out, " # ", 2)[0]
	f := strings.Fields(o)
	if len(f) == 0 {
		return "?"
	}
	if f[0] == "trap" && len(f) > 1 {
		return "trap:" + f[1]
	}
	if strings.HasPrefix(f[0], "other:") {
		return "other"
	}
	return f[0]
}

// check compares the observations of one case on one engine with the Lean reference and the monitors.
func check(c *Case, want []string, o CaseObs) {
	in := func(upto int) any {
		h := c.H
		if upto+1 < len(h) {
			h = h[:upto+1]
		}
		return map[string]any{"engine": o.Engine, "world": c.W, "history": h, "oracle_world": c.W.enc()}
	}
	if o.Err != "" {
		rep.Violate(hx.Violation{Kind: "correspondence", Signature: "C06:world-does-not-instantiate:" + o.Engine,
			What: "generated world rejected: " + o.Err, Input: in(0)})
		return
	}
	if len(o.Steps) != len(c.H) {
		hx.Fatal("case %d: %d steps observed, %d expected", c.W.ID, len(o.Steps), len(c.H))
	}
	if o.AfterClose != "" {
		rep.Violate(hx.Violation{Kind: "impl-violation", Signature: "C06:instance-survives-runtime-close:" + o.Engine,
			What: "after the history, Runtime.CloseWithExitCode left instances open: " + o.AfterClose, Input: in(len(c.H))})
	}
	for i, so := range o.Steps {
		st := c.H[i]
		w := want[i]
		got := so.Out
		if st.Kind == "start" && strings.HasPrefix(w, "ok ") {
			w = "ok # " + strings.SplitN(w, " # ", 2)[1]
		}
		cls := outcomeClass(got)
		rep.Count(o.Engine + ":" + st.Kind + ":" + cls)
		if i > 0 && !strings.HasPrefix(o.Steps[i-1].Out, "ok") {
			rep.Count(o.Engine + ":after-failure:" + cls)
		}
		wantCls, gotCls := outcomeClass(w), cls
		wantDump, gotDump := strings.SplitN(w, " # ", 2)[1], strings.SplitN(got, " # ", 2)[1]
		sig := ""
		what := ""
		kind := "correspondence"
		switch {
		case gotCls == "other" || strings.HasPrefix(gotCls, "wrapped-exit"):
			// the error is not of any documented kind: the property's own predicate fails
			kind, sig = "impl-violation", fmt.Sprintf("C06:error-kind:%s:want-%s", o.Engine, wantCls)
			what = "the error returned by the call is not of the documented kind"
		case wantCls != gotCls:
			kind, sig = "impl-violation", fmt.Sprintf("C06:outcome-class:%s:want-%s:got-%s", o.Engine, wantCls, gotCls)
			what = "outcome class differs from the reference semantics"
		case strings.SplitN(w, " # ", 2)[0] != strings.SplitN(got, " # ", 2)[0]:
			sig = fmt.Sprintf("C06:outcome-value:%s:%s", o.Engine, gotCls)
			what = "result value / exit code / panic value differs from the reference semantics"
		case wantDump != gotDump:
			sig = fmt.Sprintf("C06:state-after-%s:%s", gotCls, o.Engine)
			what = "state of the instances after the step differs from the reference semantics (effects before a failure must persist, other instances must be untouched)"
		}
		if sig != "" {
			rep.Violate(hx.Violation{Kind: kind, Signature: sig, What: fmt.Sprintf("step %d (%+v): %s", i, st, what),
				Input: in(i), Expected: w, Actual: got})
		}
		// twin monitor (tie C): model-independent
		if so.Twin != so.Out {
			prev := "ok"
			if i > 0 {
				prev = outcomeClass(o.Steps[i-1].Out)
			}
			rep.Violate(hx.Violation{Kind: "impl-violation", Signature: fmt.Sprintf("C06:twin-differs:%s:after-%s", o.Engine, prev),
				What:  fmt.Sprintf("step %d (%+v): the world that went through the failures answers differently from a never-failed world put into the same state", i, st),
				Input: in(i), Expected: so.Twin, Actual: so.Out})
		}
		if so.Inv != "" {
			rep.Violate(hx.Violation{Kind: "impl-violation", Signature: fmt.Sprintf("C06:callengine-inv:%s:after-%s", o.Engine, gotCls),
				What:  fmt.Sprintf("step %d (%+v): call-engine invariant broken after the call: %s", i, st, so.Inv),
				Input: in(i), Actual: so.Inv})
		}
		// compiler: a grown stack obeys the growth rule of the model
		if so.Len > 0 {
			rep.Count(fmt.Sprintf("compiler:stack-len:2^%d", log2(so.Len)))
		}
	}
}

func log2(n int) int {
	k := 0
	for n > 1 {
		n >>= 1
		k++
	}
	return k
}

func askOracle(c *Case) []string {
	id := c.W.ID
	orc.Askf("c06 world %d 2000 %s", id, c.W.enc())
	var want []string
	for _, st := range c.H {
		if st.Kind == "start" {
			want = append(want, orc.Askf("c06 start %d %d %d", id, st.Inst, st.Fn))
		} else {
			want = append(want, orc.Askf("c06 call %d %d %d %d", id, st.Inst, st.Fn, st.Arg))
		}
	}
	orc.Askf("c06 drop %d", id)
	return want
}

func parentMain() {
	if *hx.Work == "" {
		hx.Fatal("-work is required")
	}
	orc = hx.StartOracle()
	rep = hx.NewReport("C06", "cases = (generated world of 4 wasm modules + host module, history ≤ 20 of calls on long-lived function objects and start-function instantiations) x {interpreter, compiler}; "+
		"distinct = distinct (world encoding, history); non-trivial = the history contains at least one failing step followed by another step")
	if !hookAvailable {
		rep.Note("built without the verif tag: call-engine invariant hook not available")
	}

	var cases []Case
	if *hx.Replay != "" {
		cases = loadReplay(*hx.Replay)
	} else {
		cases = append(cases, corpus()...)
		g := &gen{r: hx.Rand()}
		n := 120
		if hx.Thorough() {
			n = 1500
		}
		for i := 0; i < n; i++ {
			w := g.world(1000 + i)
			h := g.history(&w, 8+g.r.Intn(13))
			cases = append(cases, Case{W: w, H: h})
		}
		// the same kind of worlds (without host functions that close the instance and return) on runtimes
		// configured WithCloseOnContextDone(true), every call under its own context cancelled afterwards
		gc := &gen{r: hx.Rand(), noClose: true}
		for i := 0; i < n/3; i++ {
			w := gc.world(50000 + i)
			h := gc.history(&w, 8+gc.r.Intn(13))
			cases = append(cases, Case{W: w, H: h, CloseOnDone: true})
		}
	}

	// reference answers
	want := map[int][]string{}
	for i := range cases {
		want[cases[i].W.ID] = askOracle(&cases[i])
	}

	// supervised children
	workers := 4
	var mu sync.Mutex
	var all []CaseObs
	var wg sync.WaitGroup
	per := (len(cases) + workers - 1) / workers
	for wk := 0; wk < workers; wk++ {
		lo, hi := wk*per, (wk+1)*per
		if lo >= len(cases) {
			break
		}
		if hi > len(cases) {
			hi = len(cases)
		}
		wg.Add(1)
		go func(wk int, batch []Case) {
			defer wg.Done()
			res := runBatch(fmt.Sprintf("batch%d", wk), batch)
			mu.Lock()
			all = append(all, res...)
			mu.Unlock()
		}(wk, cases[lo:hi])
	}
	wg.Wait()

	byID := map[int]*Case{}
	for i := range cases {
		byID[cases[i].W.ID] = &cases[i]
	}
	for _, o := range all {
		c := byID[o.ID]
		check(c, want[o.ID], o)
		nontrivial := false
		for i, so := range o.Steps {
			if !strings.HasPrefix(so.Out, "ok") && i+1 < len(o.Steps) {
				nontrivial = true
			}
		}
		key := ""
		if nontrivial {
			key = fmt.Sprintf("%s/%s/%v", o.Engine, c.W.enc(), c.H)
		}
		rep.Case(key)
		rep.Sample(map[string]any{"engine": o.Engine, "world": c.W.enc(), "history": c.H, "first": o.Steps[:min(2, len(o.Steps))]})
	}
	targeted()
	if runtime.GOARCH == "amd64" || runtime.GOARCH == "arm64" {
		stackGuardStage()
	}
	rep.Write(orc)
	orc.Close()
}

func loadReplay(path string) []Case {
	raw, err := os.ReadFile(path)
	if err != nil {
		hx.Fatal("replay: %v", err)
	}
	var rp struct {
		Impl   []hx.Violation `json:"impl_violations"`
		Broken []struct {
			Kind   string          `json:"kind"`
			Detail json.RawMessage `json:"detail"`
		} `json:"broken"`
	}
	if err := json.Unmarshal(raw, &rp); err != nil {
		hx.Fatal("replay: %v", err)
	}
	var cases []Case
	add := func(in any) {
		b, _ := json.Marshal(in)
		var x struct {
			World   *World `json:"world"`
			History []Step `json:"history"`
		}
		if json.Unmarshal(b, &x) == nil && x.World != nil {
			w := *x.World
			w.ID = 1 + len(cases)
			cases = append(cases, Case{W: w, H: x.History})
		}
	}
	for _, v := range rp.Impl {
		add(v.Input)
	}
	for _, b := range rp.Broken {
		var v hx.Violation
		if json.Unmarshal(b.Detail, &v) == nil {
			add(v.Input)
		}
	}
	if len(cases) == 0 {
		cases = corpus()
	}
	return cases
}
