package main

// Wrapped nested failures (tie C, the property's own words): "a host-function panic ... the caller receives ... the
// panic value".  A host function that re-enters the guest and panics with ITS OWN error value wrapping whatever the
// nested call returned (fmt.Errorf("...: %w", err), a custom type with Unwrap) still panics with its own value: the
// caller gets exactly that value - whatever is inside the chain (a trap of any kind, a stack overflow, an exit error,
// another host's panic), at nesting depth two and three, on both engines, with Call and CallWithStack, twice on the
// same function object.

import (
	"context"
	"errors"
	"fmt"

	"github.com/tetratelabs/wazero"
	"github.com/tetratelabs/wazero/api"
	"github.com/tetratelabs/wazero/internal/wasm"
	"github.com/tetratelabs/wazero/sys"
	"github.com/tetratelabs/wazero/verifharness/hx"
	"github.com/tetratelabs/wazero/verifharness/wb"
)

type hostWrap struct {
	level int
	cause error
}

func (h *hostWrap) Error() string { return fmt.Sprintf("host level %d: %v", h.level, h.cause) }
func (h *hostWrap) Unwrap() error { return h.cause }

func wrappedNestedFailures() {
	ctx := context.Background()
	// inner failure kinds: guest code that fails on its own
	inner := map[string][]byte{
		"unreachable":    wb.Op(wasm.OpcodeUnreachable),
		"divzero":        wb.Cat(wb.I32Const(1), wb.I32Const(0), wb.Op(wasm.OpcodeI32DivU, wasm.OpcodeDrop)),
		"oob":            wb.Cat(wb.I32Const(-1), wb.MemArg(wasm.OpcodeI32Load, 2, 0), wb.Op(wasm.OpcodeDrop)),
		"stack-overflow": wb.Cat(wb.LocalGet(0), wb.Call(2)), // calls itself (function index 2 below)
		"exit":           wb.Cat(wb.I32Const(9), wb.Call(1)),
	}
	for _, engine := range both {
		for kind, body := range inner {
			for _, style := range []string{"custom-type", "errorf"} {
				for depth := 2; depth <= 3; depth++ {
					var rc wazero.RuntimeConfig
					if engine == "compiler" {
						rc = wazero.NewRuntimeConfigCompiler()
					} else {
						rc = wazero.NewRuntimeConfigInterpreter()
					}
					rt := wazero.NewRuntimeWithConfig(ctx, rc)
					var last error // the value the outermost host function panicked with
					_, err := rt.NewHostModuleBuilder("env").
						NewFunctionBuilder().WithFunc(func(c context.Context, m api.Module, level uint32) {
						// re-enter: level > 1 goes through another host level, level 1 runs the failing guest code
						fn := "fail"
						if level > 1 {
							fn = "again"
						}
						_, err := m.ExportedFunction(fn).Call(c, uint64(level-1))
						if err == nil {
							return
						}
						var v error
						if style == "errorf" {
							v = fmt.Errorf("host level %d: %w", level, err)
						} else {
							v = &hostWrap{level: int(level), cause: err}
						}
						last = v
						panic(v)
					}).Export("re").
						NewFunctionBuilder().WithFunc(func(c context.Context, m api.Module, code uint32) {
						m.CloseWithExitCode(c, code)
						panic(sys.NewExitError(code))
					}).Export("exit").Instantiate(ctx)
					if err != nil {
						hx.Fatal("wrapped: host module: %v", err)
					}
					m := wb.New()
					re := m.ImportFunc("env", "re", []byte{wb.I32}, nil) // 0
					m.ImportFunc("env", "exit", []byte{wb.I32}, nil)     // 1
					m.Memory(1, nil, false, "memory")
					m.AddFunc(wb.Func{Params: []byte{wb.I32}, Export: "fail", Body: body})                                 // 2
					m.AddFunc(wb.Func{Params: []byte{wb.I32}, Export: "again", Body: wb.Cat(wb.LocalGet(0), wb.Call(re))}) // 3
					m.AddFunc(wb.Func{Params: []byte{wb.I32}, Export: "run", Body: wb.Cat(wb.LocalGet(0), wb.Call(re))})   // 4
					mod, err := rt.Instantiate(ctx, m.Bytes())
					if err != nil {
						hx.Fatal("wrapped: guest: %v", err)
					}
					run := mod.ExportedFunction("run")
					for round := 0; round < 2; round++ {
						for _, way := range []string{"Call", "CallWithStack"} {
							if kind == "exit" && (round > 0 || way != "Call") {
								continue // the module is closed after the first exit
							}
							last = nil
							var cerr error
							if way == "Call" {
								_, cerr = run.Call(ctx, uint64(depth-1))
							} else {
								cerr = run.CallWithStack(ctx, []uint64{uint64(depth - 1)})
							}
							rep.Case(fmt.Sprintf("wrapped-nested/%s/%s/%s/depth%d/%s/%d", engine, kind, style, depth, way, round))
							input := map[string]any{"stage": "wrapped nested failure", "engine": engine, "inner_failure": kind, "wrapper": style, "nesting_depth": depth, "call": way, "round": round}
							switch {
							case last == nil:
								rep.Violate(hx.Violation{Kind: "impl-violation", Signature: "C06:wrapped-nested:inner-failure-did-not-happen:" + engine,
									What: fmt.Sprintf("the nested guest call did not fail (%s); the outer call returned %v", kind, cerr), Input: input})
							case cerr == nil:
								rep.Violate(hx.Violation{Kind: "impl-violation", Signature: "C06:wrapped-nested:host-panic-swallowed:" + engine,
									What: "the host function panicked with " + last.Error() + " but the caller received no error", Input: input})
							case !errors.Is(cerr, last):
								rep.Violate(hx.Violation{Kind: "impl-violation", Signature: "C06:wrapped-nested:caller-does-not-receive-the-host-panic-value:" + engine,
									What:  fmt.Sprintf("a host function re-entered the guest, the nested call failed (%s) and the host function panicked with its own error value wrapping that failure; the caller received an error that does not contain the host's value", kind),
									Input: input, Expected: last.Error(), Actual: cerr.Error()})
							}
						}
					}
					rt.Close(ctx)
				}
			}
		}
	}
}
