package main

import (
	"context"
	"fmt"
	"os"
	"os/exec"
	"runtime"
	"runtime/debug"
	"strings"

	"github.com/tetratelabs/wazero"
	"github.com/tetratelabs/wazero/api"
	"github.com/tetratelabs/wazero/internal/wasm"
	"github.com/tetratelabs/wazero/verifharness/hx"
	"github.com/tetratelabs/wazero/verifharness/wb"
)

// ---- targeted cases: the native stack of the compiler (growth rule, finding F24) and unbounded
// recursion through a re-entrant host function (finding F25).

// stackModule: small(n) recursion with a minimal frame; big(n) recursion with `locals` live i64 locals;
// entry(mode, n) dispatches.
func stackModule(locals int) []byte {
	m := wb.New()
	m.AddFunc(wb.Func{Params: []byte{i32}, Results: []byte{i32}, Body: wb.Cat(
		wb.LocalGet(0), wb.Op(wasm.OpcodeI32Eqz), wb.Op(wasm.OpcodeIf, i32), wb.I32Const(0), wb.Op(wasm.OpcodeElse),
		wb.LocalGet(0), wb.I32Const(1), wb.Op(wasm.OpcodeI32Sub), wb.Call(0), wb.I32Const(1), wb.Op(wasm.OpcodeI32Add), wb.Op(wasm.OpcodeEnd))})
	var body []byte
	for l := 0; l < locals; l++ {
		body = append(body, wb.Cat(wb.LocalGet(0), wb.Op(wasm.OpcodeI64ExtendI32U), wb.I64Const(int64(l)), wb.Op(wasm.OpcodeI64Add), wb.LocalSet(uint32(2+l)))...)
	}
	body = append(body, wb.Cat(wb.LocalGet(0), wb.Op(wasm.OpcodeI32Eqz), wb.Op(wasm.OpcodeIf, 0x40), wb.Op(wasm.OpcodeElse),
		wb.LocalGet(0), wb.I32Const(1), wb.Op(wasm.OpcodeI32Sub), wb.Call(1), wb.LocalSet(1), wb.Op(wasm.OpcodeEnd))...)
	body = append(body, wb.I64Const(0)...)
	for l := 0; l < locals; l++ {
		body = append(body, wb.Cat(wb.LocalGet(uint32(2+l)), wb.Op(wasm.OpcodeI64Add))...)
	}
	body = append(body, wb.Cat(wb.Op(wasm.OpcodeI32WrapI64), wb.LocalGet(1), wb.Op(wasm.OpcodeI32Add))...)
	ls := []byte{i32}
	for l := 0; l < locals; l++ {
		ls = append(ls, i64)
	}
	m.AddFunc(wb.Func{Params: []byte{i32}, Results: []byte{i32}, Locals: ls, Body: body})
	m.AddFunc(wb.Func{Params: []byte{i32, i32}, Results: []byte{i32}, Export: "entry", Body: wb.Cat(
		wb.LocalGet(0), wb.Op(wasm.OpcodeIf, i32), wb.LocalGet(1), wb.Call(1), wb.Op(wasm.OpcodeElse), wb.LocalGet(1), wb.Call(0), wb.Op(wasm.OpcodeEnd))})
	return m.Bytes()
}

func inSeq(seq string, n int) bool {
	for _, f := range strings.Fields(seq) {
		if f == fmt.Sprint(n) {
			return true
		}
	}
	return false
}

func targeted() {
	if *hx.Replay != "" {
		return
	}
	stackGrowth()
	reentrantRecursion()
}

// stackGrowth: (tie B) after an unbounded recursion the real len(stack) is the last element of the
// model's growth sequence for the observed frame size, for several frame sizes; (finding F24) the
// overflow threshold of a function object depends on the stack it kept from earlier calls.
func stackGrowth() {
	ctx := context.Background()
	rt := wazero.NewRuntimeWithConfig(ctx, wazero.NewRuntimeConfigCompiler())
	defer rt.Close(ctx)
	defer func() { runtime.GC(); debug.FreeOSMemory() }()
	sizes := []int{0, 200}
	if hx.Thorough() {
		sizes = []int{0, 8, 40, 100, 200}
	}
	for _, L := range sizes {
		mod, err := rt.InstantiateWithConfig(ctx, stackModule(L), wazero.NewModuleConfig().WithName(""))
		if err != nil {
			hx.Fatal("stack module: %v", err)
		}
		for mode := uint64(0); mode < 2; mode++ {
			f := mod.ExportedFunction("entry")
			_, err := f.Call(ctx, mode, 100000000)
			cls, _ := classify(err)
			rep.Case(fmt.Sprintf("stack-growth/%d/%d", L, mode))
			rep.Count("targeted:unbounded-recursion:" + cls)
			in := map[string]any{"engine": "compiler", "module": "stackModule", "locals": L, "calls": []string{fmt.Sprintf("entry(%d, 100000000)", mode)}}
			if cls != "overflow" {
				rep.Violate(hx.Violation{Kind: "impl-violation", Signature: "C06:unbounded-recursion-not-overflow:compiler",
					What: "unbounded recursion did not end in the stack-overflow error: " + cls, Input: in})
				continue
			}
			bad, n, req := invOf(f)
			if bad != "" {
				rep.Violate(hx.Violation{Kind: "impl-violation", Signature: "C06:callengine-inv:compiler:after-overflow", What: "call-engine invariant broken after stack overflow: " + bad, Input: in})
			}
			if hookAvailable {
				// the same frame asks every time: the real length is on the model's growth sequence, and is its last element
				first := orc.Askf("c06 ce required 2")
				seq := orc.Askf("c06 ce growseq %s %d", first, req)
				fs := strings.Fields(seq)
				if len(fs) == 0 || fs[len(fs)-1] != fmt.Sprint(n) {
					rep.Violate(hx.Violation{Kind: "correspondence", Signature: "C06:growstack-length-rule",
						What:  "len(stack) after a stack overflow is not where the model's growStack rule (2·len + required + 16 until len > ceiling) ends",
						Input: in, Expected: seq, Actual: fmt.Sprintf("len=%d required=%d", n, req)})
				}
				rep.Count(fmt.Sprintf("targeted:overflow-len:req=%d:len=%d", req, n))
			}
			// the same object still works, and overflows again
			if res, err := f.Call(ctx, mode, 1000); err != nil || len(res) != 1 {
				rep.Violate(hx.Violation{Kind: "impl-violation", Signature: "C06:call-after-overflow-fails:compiler", What: fmt.Sprintf("a shallow call after a stack overflow failed: %v", err), Input: in})
			}
		}
		if L == 200 {
			f24(ctx, mod)
		}
		mod.Close(ctx)
		runtime.GC()
	}
}

// f24: finding F24. Witness (model: Wz.C06.stack_history_dependence_witness): entry(1, 53000) needs
// ≈ 90 MB of native stack with 1696-byte frames. A fresh function object grows 10240 → … → 97 909 072
// bytes and succeeds; the object that overflowed before with 48-byte frames kept 84 410 304 bytes
// (> ceiling) and reports stack overflow.
func f24(ctx context.Context, mod api.Module) {
	const depth = 53000
	in := map[string]any{"engine": "compiler", "module": "stackModule", "locals": 200,
		"calls": []string{"f := entry; f(0, 100000000) -> stack overflow", fmt.Sprintf("f(1, %d)", depth), fmt.Sprintf("fresh entry(1, %d)", depth)}}
	fresh := mod.ExportedFunction("entry")
	_, errFresh := fresh.Call(ctx, 1, depth)
	used := mod.ExportedFunction("entry")
	_, err0 := used.Call(ctx, 0, 100000000)
	_, errUsed := used.Call(ctx, 1, depth)
	c0, _ := classify(err0)
	cf, _ := classify(errFresh)
	cu, _ := classify(errUsed)
	rep.Case("f24")
	rep.Count("targeted:f24:fresh=" + cf + ":used=" + cu)
	if c0 != "overflow" {
		return
	}
	_, lf, _ := invOf(fresh)
	_, lu, _ := invOf(used)
	if cf != cu {
		rep.Violate(hx.Violation{Kind: "impl-violation", Signature: "F24:compiler-overflow-threshold-depends-on-stack-kept-from-earlier-calls",
			What: fmt.Sprintf("the same call answers %q on a function object that overflowed before (len(stack)=%d) and %q on a fresh one (len(stack)=%d): "+
				"growStack refuses to grow once len > ceiling, so the usable stack is wherever this object's doubling sequence crossed the ceiling", cu, lu, cf, lf),
			Input: in, Expected: cf, Actual: cu})
	} else {
		rep.Note("F24 witness no longer differs (fresh=%s used=%s): the repaired variant (capped growth) must correspond", cf, cu)
	}
}

// ---- unbounded recursion through a re-entrant host function (finding F25), in a child process

func reentrantChild(engine string) {
	ctx := context.Background()
	debug.SetMaxStack(64 << 20) // reach the Go limit quickly; the default (1 GB) ends the same way, later
	var rc wazero.RuntimeConfig
	if engine == "compiler" {
		rc = wazero.NewRuntimeConfigCompiler()
	} else {
		rc = wazero.NewRuntimeConfigInterpreter()
	}
	rt := wazero.NewRuntimeWithConfig(ctx, rc)
	var mod api.Module
	one := []api.ValueType{api.ValueTypeI32}
	_, err := rt.NewHostModuleBuilder("env").NewFunctionBuilder().WithGoModuleFunction(api.GoModuleFunc(func(ctx context.Context, m api.Module, s []uint64) {
		res, err := mod.ExportedFunction("f").Call(ctx, s[0])
		if err != nil {
			panic(err)
		}
		s[0] = res[0]
	}), one, one).Export("re").Instantiate(ctx)
	if err != nil {
		fmt.Println("SETUP", err)
		os.Exit(3)
	}
	m := wb.New()
	re := m.ImportFunc("env", "re", []byte{i32}, []byte{i32})
	m.AddFunc(wb.Func{Params: []byte{i32}, Results: []byte{i32}, Export: "f", Body: wb.Cat(wb.LocalGet(0), wb.Call(re))})
	mod, err = rt.Instantiate(ctx, m.Bytes())
	if err != nil {
		fmt.Println("SETUP", err)
		os.Exit(3)
	}
	_, err = mod.ExportedFunction("f").Call(ctx, 1)
	c, _ := classify(err)
	fmt.Println("RETURNED", c)
}

func reentrantRecursion() {
	for _, e := range both {
		cmd := hx.Supervised(exec.Command(os.Args[0], "-child", "reentrant:"+e))
		cmd.Env = append(os.Environ(), "GOMEMLIMIT=2GiB", "GOTRACEBACK=none")
		out, err := cmd.CombinedOutput()
		rep.Case("reentrant-recursion/" + e)
		o := string(out)
		if strings.Contains(o, "SETUP") {
			hx.Fatal("reentrant child: %s", o)
		}
		in := map[string]any{"engine": e, "program": "(func $f (param i32) (result i32) local.get 0 call $env.re)  ;; env.re calls mod.ExportedFunction(\"f\").Call and panics with its error",
			"calls": []string{"f(1)"}}
		if err != nil {
			rep.Count("targeted:reentrant-recursion:" + e + ":crash")
			first := strings.SplitN(strings.TrimSpace(o), "\n", 3)
			rep.Violate(hx.Violation{Kind: "impl-violation", Signature: "F25:unbounded-recursion-through-reentrant-host-function-exhausts-the-go-stack:" + e,
				What:  "guest → host → guest recursion is not bounded by any call-depth ceiling (each re-entrant call starts a new call engine at depth 0): the Go stack limit ends the process (" + strings.Join(first[:min(2, len(first))], " / ") + ")",
				Input: in, Expected: "stack overflow error returned to the caller", Actual: "process crash: " + err.Error()})
			continue
		}
		rep.Count("targeted:reentrant-recursion:" + e + ":" + strings.TrimSpace(strings.TrimPrefix(o, "RETURNED ")))
		if !strings.Contains(o, "RETURNED overflow") {
			rep.Violate(hx.Violation{Kind: "impl-violation", Signature: "C06:reentrant-recursion-outcome:" + e,
				What: "unbounded guest → host → guest recursion neither crashed nor returned the stack-overflow error: " + o, Input: in})
		}
	}
}
