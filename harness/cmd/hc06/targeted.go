package main

import (
	"context"
	"fmt"
	"github.com/tetratelabs/wazero/sys"
	"os"
	"os/exec"
	"runtime"
	"runtime/debug"
	"strings"

	"github.com/tetratelabs/wazero"
	"github.com/tetratelabs/wazero/api"
	"github.com/tetratelabs/wazero/internal/wasm"
	"github.com/tetratelabs/wazero/verifharness/hx"
	"github.com/tetratelabs/wazero/verifharness/wb"
)

// ---- targeted cases: the native stack of the compiler (growth rule, finding F24) and unbounded
// recursion through a re-entrant host function (finding F25).

// stackModule: small(n) recursion with a minimal frame; big(n) recursion with `locals` live i64 locals;
// entry(mode, n) dispatches.
func stackModule(locals int) []byte {
	m := wb.New()
	m.AddFunc(wb.Func{Params: []byte{i32}, Results: []byte{i32}, Body: wb.Cat(
		wb.LocalGet(0), wb.Op(wasm.OpcodeI32Eqz), wb.Op(wasm.OpcodeIf, i32), wb.I32Const(0), wb.Op(wasm.OpcodeElse),
		wb.LocalGet(0), wb.I32Const(1), wb.Op(wasm.OpcodeI32Sub), wb.Call(0), wb.I32Const(1), wb.Op(wasm.OpcodeI32Add), wb.Op(wasm.OpcodeEnd))})
	var body []byte
	for l := 0; l < locals; l++ {
		body = append(body, wb.Cat(wb.LocalGet(0), wb.Op(wasm.OpcodeI64ExtendI32U), wb.I64Const(int64(l)), wb.Op(wasm.OpcodeI64Add), wb.LocalSet(uint32(2+l)))...)
	}
	body = append(body, wb.Cat(wb.LocalGet(0), wb.Op(wasm.OpcodeI32Eqz), wb.Op(wasm.OpcodeIf, 0x40), wb.Op(wasm.OpcodeElse),
		wb.LocalGet(0), wb.I32Const(1), wb.Op(wasm.OpcodeI32Sub), wb.Call(1), wb.LocalSet(1), wb.Op(wasm.OpcodeEnd))...)
	body = append(body, wb.I64Const(0)...)
	for l := 0; l < locals; l++ {
		body = append(body, wb.Cat(wb.LocalGet(uint32(2+l)), wb.Op(wasm.OpcodeI64Add))...)
	}
	body = append(body, wb.Cat(wb.Op(wasm.OpcodeI32WrapI64), wb.LocalGet(1), wb.Op(wasm.OpcodeI32Add))...)
	ls := []byte{i32}
	for l := 0; l < locals; l++ {
		ls = append(ls, i64)
	}
	m.AddFunc(wb.Func{Params: []byte{i32}, Results: []byte{i32}, Locals: ls, Body: body})
	m.AddFunc(wb.Func{Params: []byte{i32, i32}, Results: []byte{i32}, Export: "entry", Body: wb.Cat(
		wb.LocalGet(0), wb.Op(wasm.OpcodeIf, i32), wb.LocalGet(1), wb.Call(1), wb.Op(wasm.OpcodeElse), wb.LocalGet(1), wb.Call(0), wb.Op(wasm.OpcodeEnd))})
	return m.Bytes()
}

func inSeq(seq string, n int) bool {
	for _, f := range strings.Fields(seq) {
		if f == fmt.Sprint(n) {
			return true
		}
	}
	return false
}

func targeted() {
	if *hx.Replay != "" {
		return
	}
	stackGrowth()
	reentrantRecursion()
	failedStartKeepsWrites()
	wrappedNestedFailures()
	deepReturn()
	wasiExitStage()
}

// failedStartKeepsWrites: an instantiation that fails in its START function has already applied its active element
// and data segments to what it imported (those writes persist, by specification), and the instances it wrote into
// stay usable: after collections and heap churn the owner's call_indirect through the slots a failed instance wrote
// still runs that function - for every way a start function can fail (each trap kind, host panic, exit).  Runs in
// a child: a crash is a verdict.
func failedStartKeepsWrites() {
	for _, e := range both {
		cmd := hx.Supervised(exec.Command(os.Args[0], "-child", "failedstart:"+e))
		cmd.Env = append(os.Environ(), "GOMEMLIMIT=2GiB")
		out, err := cmd.CombinedOutput()
		rep.Case("failed-start-keeps-writes/" + e)
		o := string(out)
		in := map[string]any{"engine": e, "program": "owner exports a 16-slot funcref table and call(i) = call_indirect i; plugin k imports the table, puts its $f (returns 1000+k) into slot k by an active element segment and fails in its start function (kind k); then GC and heap churn; owner.call(k) must be 1000+k"}
		switch {
		case strings.Contains(o, "SETUP"):
			hx.Fatal("failedstart child: %s", o)
		case err != nil && !strings.Contains(o, "RESULT"):
			rep.Violate(hx.Violation{Kind: "impl-violation", Signature: "C06:process-crash-after-failed-start:" + e,
				What: "the process died after instantiations that failed in their start function (the owner of the table they wrote into is not usable): " + firstLineOf(o), Input: in, Actual: clipS(o, 1500)})
		case !strings.Contains(o, "RESULT ok"):
			rep.Violate(hx.Violation{Kind: "impl-violation", Signature: "C06:table-entry-of-failed-instance-unusable:" + e,
				What: "a table entry written by an instance whose start function failed does not call that function any more after a GC: " + firstLineOf(o), Input: in, Actual: clipS(o, 1500)})
		default:
			rep.Count("targeted:failed-start-keeps-writes:" + e + ":ok")
		}
	}
}

func firstLineOf(s string) string {
	for _, l := range strings.Split(s, "\n") {
		if strings.HasPrefix(l, "BAD") || strings.Contains(l, "fatal error") || strings.Contains(l, "fault") {
			return strings.TrimSpace(l)
		}
	}
	return clipS(strings.TrimSpace(s), 200)
}

func clipS(s string, n int) string {
	if len(s) > n {
		return s[:n]
	}
	return s
}

func failedStartChild(engine string) {
	ctx := context.Background()
	var rc wazero.RuntimeConfig
	if engine == "compiler" {
		rc = wazero.NewRuntimeConfigCompiler()
	} else {
		rc = wazero.NewRuntimeConfigInterpreter()
	}
	rt := wazero.NewRuntimeWithConfig(ctx, rc)
	one := []api.ValueType{api.ValueTypeI32}
	_, err := rt.NewHostModuleBuilder("env").
		NewFunctionBuilder().WithGoModuleFunction(api.GoModuleFunc(func(ctx context.Context, m api.Module, s []uint64) { panic(fmt.Errorf("host error %d", s[0])) }), one, one).Export("pe").
		NewFunctionBuilder().WithGoModuleFunction(api.GoModuleFunc(func(ctx context.Context, m api.Module, s []uint64) {
		m.CloseWithExitCode(ctx, uint32(s[0]))
		panic(sys.NewExitError(uint32(s[0])))
	}), one, one).Export("ex").Instantiate(ctx)
	if err != nil {
		fmt.Println("SETUP", err)
		os.Exit(3)
	}
	ow := wb.New()
	ow.Table(16, nil)
	ow.M.ExportSection = append(ow.M.ExportSection, wasm.Export{Name: "tab", Type: wasm.ExternTypeTable, Index: 0})
	ti := ow.TypeIdx(nil, []byte{i32})
	ow.AddFunc(wb.Func{Params: []byte{i32}, Results: []byte{i32}, Export: "call", Body: wb.Cat(wb.LocalGet(0), wb.Op(wasm.OpcodeCallIndirect), wb.U32(ti), wb.U32(0))})
	owner, err := rt.InstantiateWithConfig(ctx, ow.Bytes(), wazero.NewModuleConfig().WithName("owner"))
	if err != nil {
		fmt.Println("SETUP", err)
		os.Exit(3)
	}
	fails := [][]byte{
		wb.Op(wasm.OpcodeUnreachable),
		wb.Cat(wb.I32Const(1), wb.I32Const(0), wb.Op(wasm.OpcodeI32DivU), wb.Op(wasm.OpcodeDrop)),
		wb.Cat(wb.I32Const(65536), wb.MemArg(wasm.OpcodeI32Load, 2, 0), wb.Op(wasm.OpcodeDrop)),
		wb.Cat(wb.I32Const(7), wb.Call(0), wb.Op(wasm.OpcodeDrop)),                    // host panic
		wb.Cat(wb.I32Const(3), wb.Call(1), wb.Op(wasm.OpcodeDrop)),                    // exit
		wb.Cat(wb.I32Const(15), wb.Op(wasm.OpcodeCallIndirect), wb.U32(0), wb.U32(0)), // null slot (type 0 = ()->() is added first below)
	}
	n := 0
	for round := 0; round < 2; round++ {
		for k, fail := range fails {
			slot := round*len(fails) + k
			m := wb.New()
			m.TypeIdx(nil, nil) // type 0
			pe := m.ImportFunc("env", "pe", []byte{i32}, []byte{i32})
			ex := m.ImportFunc("env", "ex", []byte{i32}, []byte{i32})
			_, _ = pe, ex
			m.M.ImportSection = append(m.M.ImportSection, wasm.Import{Type: wasm.ExternTypeTable, Module: "owner", Name: "tab", DescTable: wasm.Table{Min: 16, Type: wasm.RefTypeFuncref}})
			one := uint32(1)
			m.Memory(1, &one, false, "")
			f := m.AddFunc(wb.Func{Results: []byte{i32}, Body: wb.I32Const(int32(1000 + slot))})
			st := m.AddFunc(wb.Func{Body: fail})
			m.M.StartSection = &st
			bin := m.BytesWithSegments([]wb.Elem{{Offset: int32(slot), Init: []int64{int64(f)}}})
			if _, err := rt.InstantiateWithConfig(ctx, bin, wazero.NewModuleConfig().WithName(fmt.Sprintf("plugin%d", slot))); err == nil {
				fmt.Println("SETUP plugin did not fail", slot)
				os.Exit(3)
			}
			n++
		}
		for i := 0; i < 4; i++ {
			runtime.GC()
		}
		var keep [][]byte
		for i := 0; i < 3000; i++ {
			keep = append(keep, make([]byte, 64<<(i%8)))
		}
		runtime.GC()
		runtime.KeepAlive(keep)
		bad := 0
		for slot := 0; slot < n; slot++ {
			res, err := owner.ExportedFunction("call").Call(ctx, uint64(slot))
			if err != nil || len(res) != 1 || res[0] != uint64(1000+slot) {
				bad++
				fmt.Printf("BAD round %d: owner.call(%d) = %v, %v; the failed plugin's element segment put a function returning %d there\n", round, slot, res, err, 1000+slot)
			}
		}
		if bad > 0 {
			fmt.Println("RESULT bad")
			return
		}
	}
	fmt.Println("RESULT ok")
}

// stackGrowth: (tie B) after an unbounded recursion the real len(stack) is the last element of the
// model's growth sequence for the observed frame size, for several frame sizes; (finding F24) the
// overflow threshold of a function object depends on the stack it kept from earlier calls.
func stackGrowth() {
	ctx := context.Background()
	rt := wazero.NewRuntimeWithConfig(ctx, wazero.NewRuntimeConfigCompiler())
	defer rt.Close(ctx)
	defer func() { runtime.GC(); debug.FreeOSMemory() }()
	sizes := []int{0, 200}
	if hx.Thorough() {
		sizes = []int{0, 8, 40, 100, 200}
	}
	for _, L := range sizes {
		mod, err := rt.InstantiateWithConfig(ctx, stackModule(L), wazero.NewModuleConfig().WithName(""))
		if err != nil {
			hx.Fatal("stack module: %v", err)
		}
		for mode := uint64(0); mode < 2; mode++ {
			f := mod.ExportedFunction("entry")
			_, err := f.Call(ctx, mode, 100000000)
			cls, _ := classify(err)
			rep.Case(fmt.Sprintf("stack-growth/%d/%d", L, mode))
			rep.Count("targeted:unbounded-recursion:" + cls)
			in := map[string]any{"engine": "compiler", "module": "stackModule", "locals": L, "calls": []string{fmt.Sprintf("entry(%d, 100000000)", mode)}}
			if cls != "overflow" {
				rep.Violate(hx.Violation{Kind: "impl-violation", Signature: "C06:unbounded-recursion-not-overflow:compiler",
					What: "unbounded recursion did not end in the stack-overflow error: " + cls, Input: in})
				continue
			}
			bad, n, req := invOf(f)
			if bad != "" {
				rep.Violate(hx.Violation{Kind: "impl-violation", Signature: "C06:callengine-inv:compiler:after-overflow", What: "call-engine invariant broken after stack overflow: " + bad, Input: in})
			}
			if hookAvailable {
				// the same frame asks every time: the real length is on the model's growth sequence, and is its last element
				first := orc.Askf("c06 ce required 2")
				seq := orc.Askf("c06 ce growseq %s %d", first, req)
				fs := strings.Fields(seq)
				if len(fs) == 0 || fs[len(fs)-1] != fmt.Sprint(n) {
					rep.Violate(hx.Violation{Kind: "correspondence", Signature: "C06:growstack-length-rule",
						What:  "len(stack) after a stack overflow is not where the model's growStack rule (2·len + required + 16 until len > ceiling) ends",
						Input: in, Expected: seq, Actual: fmt.Sprintf("len=%d required=%d", n, req)})
				}
				rep.Count(fmt.Sprintf("targeted:overflow-len:req=%d:len=%d", req, n))
			}
			// the same object still works, and overflows again
			if res, err := f.Call(ctx, mode, 1000); err != nil || len(res) != 1 {
				rep.Violate(hx.Violation{Kind: "impl-violation", Signature: "C06:call-after-overflow-fails:compiler", What: fmt.Sprintf("a shallow call after a stack overflow failed: %v", err), Input: in})
			}
		}
		if L == 200 {
			f24(ctx, mod)
		}
		mod.Close(ctx)
		runtime.GC()
	}
}

// f24: finding F24. Witness (model: Wz.C06.stack_history_dependence_witness): entry(1, 53000) needs
// ≈ 90 MB of native stack with 1696-byte frames. A fresh function object grows 10240 → … → 97 909 072
// bytes and succeeds; the object that overflowed before with 48-byte frames kept 84 410 304 bytes
// (> ceiling) and reports stack overflow.
func f24(ctx context.Context, mod api.Module) {
	const depth = 53000
	in := map[string]any{"engine": "compiler", "module": "stackModule", "locals": 200,
		"calls": []string{"f := entry; f(0, 100000000) -> stack overflow", fmt.Sprintf("f(1, %d)", depth), fmt.Sprintf("fresh entry(1, %d)", depth)}}
	fresh := mod.ExportedFunction("entry")
	_, errFresh := fresh.Call(ctx, 1, depth)
	used := mod.ExportedFunction("entry")
	_, err0 := used.Call(ctx, 0, 100000000)
	_, errUsed := used.Call(ctx, 1, depth)
	c0, _ := classify(err0)
	cf, _ := classify(errFresh)
	cu, _ := classify(errUsed)
	rep.Case("f24")
	rep.Count("targeted:f24:fresh=" + cf + ":used=" + cu)
	if c0 != "overflow" {
		return
	}
	_, lf, _ := invOf(fresh)
	_, lu, _ := invOf(used)
	if cf != cu {
		rep.Violate(hx.Violation{Kind: "impl-violation", Signature: "F24:compiler-overflow-threshold-depends-on-stack-kept-from-earlier-calls",
			What: fmt.Sprintf("the same call answers %q on a function object that overflowed before (len(stack)=%d) and %q on a fresh one (len(stack)=%d): "+
				"growStack refuses to grow once len > ceiling, so the usable stack is wherever this object's doubling sequence crossed the ceiling", cu, lu, cf, lf),
			Input: in, Expected: cf, Actual: cu})
	} else {
		rep.Note("F24 witness no longer differs (fresh=%s used=%s): the repaired variant (capped growth) must correspond", cf, cu)
	}
}

// ---- unbounded recursion through a re-entrant host function (finding F25), in a child process

func reentrantChild(engine string) {
	ctx := context.Background()
	debug.SetMaxStack(64 << 20) // reach the Go limit quickly; the default (1 GB) ends the same way, later
	var rc wazero.RuntimeConfig
	if engine == "compiler" {
		rc = wazero.NewRuntimeConfigCompiler()
	} else {
		rc = wazero.NewRuntimeConfigInterpreter()
	}
	rt := wazero.NewRuntimeWithConfig(ctx, rc)
	var mod api.Module
	one := []api.ValueType{api.ValueTypeI32}
	_, err := rt.NewHostModuleBuilder("env").NewFunctionBuilder().WithGoModuleFunction(api.GoModuleFunc(func(ctx context.Context, m api.Module, s []uint64) {
		res, err := mod.ExportedFunction("f").Call(ctx, s[0])
		if err != nil {
			panic(err)
		}
		s[0] = res[0]
	}), one, one).Export("re").Instantiate(ctx)
	if err != nil {
		fmt.Println("SETUP", err)
		os.Exit(3)
	}
	m := wb.New()
	re := m.ImportFunc("env", "re", []byte{i32}, []byte{i32})
	m.AddFunc(wb.Func{Params: []byte{i32}, Results: []byte{i32}, Export: "f", Body: wb.Cat(wb.LocalGet(0), wb.Call(re))})
	mod, err = rt.Instantiate(ctx, m.Bytes())
	if err != nil {
		fmt.Println("SETUP", err)
		os.Exit(3)
	}
	_, err = mod.ExportedFunction("f").Call(ctx, 1)
	c, _ := classify(err)
	fmt.Println("RETURNED", c)
}

func reentrantRecursion() {
	for _, e := range both {
		cmd := hx.Supervised(exec.Command(os.Args[0], "-child", "reentrant:"+e))
		cmd.Env = append(os.Environ(), "GOMEMLIMIT=2GiB", "GOTRACEBACK=none")
		out, err := cmd.CombinedOutput()
		rep.Case("reentrant-recursion/" + e)
		o := string(out)
		if strings.Contains(o, "SETUP") {
			hx.Fatal("reentrant child: %s", o)
		}
		in := map[string]any{"engine": e, "program": "(func $f (param i32) (result i32) local.get 0 call $env.re)  ;; env.re calls mod.ExportedFunction(\"f\").Call and panics with its error",
			"calls": []string{"f(1)"}}
		if err != nil {
			rep.Count("targeted:reentrant-recursion:" + e + ":crash")
			first := strings.SplitN(strings.TrimSpace(o), "\n", 3)
			rep.Violate(hx.Violation{Kind: "impl-violation", Signature: "F25:unbounded-recursion-through-reentrant-host-function-exhausts-the-go-stack:" + e,
				What:  "guest → host → guest recursion is not bounded by any call-depth ceiling (each re-entrant call starts a new call engine at depth 0): the Go stack limit ends the process (" + strings.Join(first[:min(2, len(first))], " / ") + ")",
				Input: in, Expected: "stack overflow error returned to the caller", Actual: "process crash: " + err.Error()})
			continue
		}
		rep.Count("targeted:reentrant-recursion:" + e + ":" + strings.TrimSpace(strings.TrimPrefix(o, "RETURNED ")))
		if !strings.Contains(o, "RETURNED overflow") {
			rep.Violate(hx.Violation{Kind: "impl-violation", Signature: "C06:reentrant-recursion-outcome:" + e,
				What: "unbounded guest → host → guest recursion neither crashed nor returned the stack-overflow error: " + o, Input: in})
		}
	}
}
