//go:build !verif

package main

import "github.com/tetratelabs/wazero/api"

const hookAvailable = false

func invOf(f api.Function) (bad string, stackLen int, growReq uint64) { return "", 0, 0 }
