package main

import (
	"encoding/binary"
	"fmt"
	"math"
	"math/rand"
	"strings"

	"github.com/tetratelabs/wazero/internal/leb128"
	"github.com/tetratelabs/wazero/internal/wasm"
	"github.com/tetratelabs/wazero/verifharness/memcat"
	"github.com/tetratelabs/wazero/verifharness/wb"
)

// The programs of the reference semantics (lean/Wz/Model/Calls.lean), mirrored.

type Guard struct {
	K string `json:"k"` // a | e | n
	N uint32 `json:"n,omitempty"`
}

type Arg struct {
	K string `json:"k"` // c | x | m
	N uint32 `json:"n,omitempty"`
}

type Instr struct {
	G    Guard  `json:"g"`
	Op   string `json:"op"` // sg ag st sx tr ca ho
	A    uint32 `json:"a,omitempty"`
	B    uint32 `json:"b,omitempty"`
	Trap string `json:"trap,omitempty"`
	// Variant: which concrete instruction realises the trap kind / the memory effect in the generated wasm
	// ("" = the original one).  The reference semantics sees only the kind: every variant of a kind must fail
	// with the same documented error class and leave the same state.
	Variant string `json:"variant,omitempty"`
	Inst    int    `json:"inst,omitempty"`
	Fn      int    `json:"fn,omitempty"`
	Arg     Arg    `json:"arg"`
	Host    string `json:"host,omitempty"` // ok pe ps pv cl ex rc rp (rc/rp use Inst/Fn)
}

type Func struct {
	Body   []Instr `json:"body"`
	Locals int     `json:"locals,omitempty"` // extra i64 locals kept live across the body (frame size)
}

const (
	iB = 0 // library
	iC = 1 // independent instance
	iA = 2 // imports B
	iS = 3 // transient: instantiated by `start`, imports B and A
)

type World struct {
	ID      int      `json:"id"`
	Insts   [][]Func `json:"insts"`   // 4 instances; S additionally has one start wrapper per function (model only)
	StartC  []uint32 `json:"start_c"` // constant passed by the start wrapper of S's function k
	Engines []string `json:"engines"`
	Note    string   `json:"note,omitempty"`
	// set by module() for the instance being built: index of the wrapper of function 0, number of wrapped functions
	wrapperBase, nTargets uint32
}

type Step struct {
	Kind string `json:"kind"` // call | start
	Inst int    `json:"inst"`
	Fn   int    `json:"fn"`
	Arg  uint32 `json:"arg"`
}

type Case struct {
	W World  `json:"world"`
	H []Step `json:"history"`
	// CloseOnDone: the runtime is configured WithCloseOnContextDone(true) and every API call gets its own
	// cancellable context that is cancelled right after the call returned (the idiomatic `defer cancel()`).
	// The context is never done DURING a call, so the reference answers are unchanged; a watcher left
	// behind by a failed call must not touch the instance afterwards.
	CloseOnDone bool `json:"close_on_done,omitempty"`
}

func (g Guard) enc() string {
	if g.K == "a" {
		return "a"
	}
	return fmt.Sprintf("%s%d", g.K, g.N)
}

func (a Arg) enc() string {
	if a.K == "c" {
		return fmt.Sprintf("c%d", a.N)
	}
	return a.K
}

func (i Instr) hostName() string {
	if i.Host == "rc" || i.Host == "rp" {
		return fmt.Sprintf("%s-%d-%d", i.Host, i.Inst, i.Fn)
	}
	return i.Host
}

func (i Instr) enc() string {
	g := i.G.enc()
	switch i.Op {
	case "sg":
		return fmt.Sprintf("%s.sg.%d.%d", g, i.A, i.B)
	case "ag":
		return fmt.Sprintf("%s.ag.%d", g, i.A)
	case "st":
		return fmt.Sprintf("%s.st.%d.%d", g, i.A, i.B)
	case "sx":
		return fmt.Sprintf("%s.sx.%d", g, i.A)
	case "tr":
		return fmt.Sprintf("%s.tr.%s", g, i.Trap)
	case "ca":
		return fmt.Sprintf("%s.ca.%d.%d.%s", g, i.Inst, i.Fn, i.Arg.enc())
	case "ho":
		return fmt.Sprintf("%s.ho.%s.%s", g, i.hostName(), i.Arg.enc())
	}
	panic("bad op " + i.Op)
}

func encFunc(f Func) string {
	if len(f.Body) == 0 {
		return "-"
	}
	var p []string
	for _, i := range f.Body {
		p = append(p, i.enc())
	}
	return strings.Join(p, ",")
}

// enc is the oracle's encoding; the start wrappers of S are appended to S's function list.
func (w *World) enc() string {
	var insts []string
	for k, fs := range w.Insts {
		var p []string
		for _, f := range fs {
			p = append(p, encFunc(f))
		}
		if k == iS {
			for j := range fs {
				p = append(p, fmt.Sprintf("a.ca.%d.%d.c%d", iS, j, w.StartC[j]))
			}
		}
		if len(p) == 0 {
			insts = append(insts, "_")
		} else {
			insts = append(insts, strings.Join(p, ";"))
		}
	}
	return strings.Join(insts, "|")
}

// reenterNames lists the re-entrant host functions the world uses.
func (w *World) reenterNames() []string {
	seen := map[string]bool{}
	var out []string
	for _, fs := range w.Insts {
		for _, f := range fs {
			for _, i := range f.Body {
				if i.Op == "ho" && (i.Host == "rc" || i.Host == "rp") {
					n := i.hostName()
					if !seen[n] {
						seen[n] = true
						out = append(out, n)
					}
				}
			}
		}
	}
	return out
}

var fixedHosts = []string{"ok", "pe", "ps", "pv", "cl", "ex"}

var trapKinds = []string{"unreachable", "divzero", "divoverflow", "truncoverflow", "invalidconv", "oobload", "oobstore", "oobtable", "nulltable", "sigmismatch", "unaligned"}

// importedInsts: which instances' functions instance k imports.
func importedInsts(k int) []int {
	switch k {
	case iA:
		return []int{iB}
	case iS:
		return []int{iB, iA}
	}
	return nil
}

// ---------------------------------------------------------------- wasm

var i32 = wasm.ValueTypeI32
var i64 = wasm.ValueTypeI64

func f32const(v float32) []byte {
	b := make([]byte, 5)
	b[0] = wasm.OpcodeF32Const
	binary.LittleEndian.PutUint32(b[1:], math.Float32bits(v))
	return b
}

// zero is an i32 0 the compiler cannot see through (address 200 is never written).
func zero() []byte {
	return wb.Cat(wb.I32Const(200), wb.MemArg(wasm.OpcodeI32Load8U, 0, 0))
}

// module builds the binary of instance k. startFn >= 0 (S only) adds the start wrapper for S's function startFn.
func (w *World) module(k int, startFn int) []byte {
	m := wb.New()
	sig := []wasm.ValueType{i32}
	hostIdx := map[string]uint32{}
	for _, h := range append(append([]string{}, fixedHosts...), w.reenterNames()...) {
		hostIdx[h] = m.ImportFunc("env", h, sig, sig)
	}
	guestIdx := map[[2]int]uint32{}
	for _, j := range importedInsts(k) {
		for f := range w.Insts[j] {
			guestIdx[[2]int{j, f}] = m.ImportFunc(fmt.Sprintf("i%d", j), fmt.Sprintf("f%d", f), sig, sig)
		}
	}
	nImports := m.M.ImportFunctionCount
	for f := range w.Insts[k] {
		guestIdx[[2]int{k, f}] = nImports + uint32(f)
	}
	nopIdx := nImports + uint32(len(w.Insts[k]))
	tySig := m.TypeIdx(sig, sig)
	trapTableBase = 2 * nopIdx
	w.nTargets = nopIdx // every imported and every own function has a table slot and a local wrapper
	w.wrapperBase = nopIdx + 1
	if startFn >= 0 {
		w.wrapperBase++
	}

	m.Memory(1, nil, false, "memory")
	for g := 0; g < 2; g++ {
		m.M.GlobalSection = append(m.M.GlobalSection, wasm.Global{
			Type: wasm.GlobalType{ValType: i64, Mutable: true},
			Init: wasm.ConstantExpression{Opcode: wasm.OpcodeI64Const, Data: []byte{0}},
		})
		m.M.ExportSection = append(m.M.ExportSection, wasm.Export{Name: fmt.Sprintf("g%d", g), Type: wasm.ExternTypeGlobal, Index: uint32(g)})
	}

	for f, fn := range w.Insts[k] {
		var body []byte
		L := fn.Locals
		// acc := x
		body = append(body, wb.Cat(wb.LocalGet(0), wb.LocalSet(1))...)
		// frame padding: locals 2..2+L live across the body
		for l := 0; l < L; l++ {
			body = append(body, wb.Cat(wb.LocalGet(0), wb.Op(wasm.OpcodeI64ExtendI32U), wb.I64Const(int64(l)), wb.Op(wasm.OpcodeI64Add), wb.LocalSet(uint32(2+l)))...)
		}
		for _, in := range fn.Body {
			code := w.opCode(in, hostIdx, guestIdx, tySig)
			if in.G.K != "a" {
				cmp := wasm.OpcodeI32Eq
				if in.G.K == "n" {
					cmp = wasm.OpcodeI32Ne
				}
				code = wb.Cat(wb.LocalGet(0), wb.I32Const(int32(in.G.N)), wb.Op(cmp), wb.Op(wasm.OpcodeIf, 0x40), code, wb.Op(wasm.OpcodeEnd))
			}
			body = append(body, code...)
		}
		if L > 0 {
			// acc += wrap( sum(locals) - sum(recomputed) )  (= 0, but keeps the locals live)
			body = append(body, wb.I64Const(0)...)
			for l := 0; l < L; l++ {
				body = append(body, wb.Cat(wb.LocalGet(uint32(2+l)), wb.Op(wasm.OpcodeI64Add))...)
			}
			for l := 0; l < L; l++ {
				body = append(body, wb.Cat(wb.LocalGet(0), wb.Op(wasm.OpcodeI64ExtendI32U), wb.I64Const(int64(l)), wb.Op(wasm.OpcodeI64Add), wb.Op(wasm.OpcodeI64Sub))...)
			}
			body = append(body, wb.Cat(wb.Op(wasm.OpcodeI32WrapI64), wb.LocalGet(1), wb.Op(wasm.OpcodeI32Add), wb.LocalSet(1))...)
		}
		body = append(body, wb.LocalGet(1)...)
		locals := []wasm.ValueType{i32}
		for l := 0; l < L; l++ {
			locals = append(locals, i64)
		}
		m.AddFunc(wb.Func{Params: sig, Results: sig, Locals: locals, Body: body, Export: fmt.Sprintf("f%d", f)})
	}
	m.AddFunc(wb.Func{}) // nop: () -> ()
	if startFn >= 0 {
		idx := m.AddFunc(wb.Func{Body: wb.Cat(wb.I32Const(int32(w.StartC[startFn])), wb.Call(guestIdx[[2]int{k, startFn}]), wb.Op(wasm.OpcodeDrop))})
		m.M.StartSection = &idx
	}
	for t := uint32(0); t < w.nTargets; t++ {
		if got := m.AddFunc(wb.Func{Params: sig, Results: sig, Body: wb.Cat(wb.LocalGet(0), wb.Call(t))}); got != w.wrapperBase+t {
			panic(fmt.Sprintf("wrapper index %d, expected %d", got, w.wrapperBase+t))
		}
	}
	// table: [every function, every wrapper, f0, f0, nop, null]
	m.M.TableSection = []wasm.Table{{Min: 2*w.nTargets + 4, Type: wasm.RefTypeFuncref}}
	if len(w.Insts[k]) > 0 {
		f0 := guestIdx[[2]int{k, 0}]
		m.M.ElementSection = []wasm.ElementSegment{{
			OffsetExpr: wasm.ConstantExpression{Opcode: wasm.OpcodeI32Const, Data: leb128.EncodeInt32(int32(2 * w.nTargets))},
			Init:       []wasm.Index{f0, f0, nopIdx},
			Type:       wasm.RefTypeFuncref,
			Mode:       wasm.ElementModeActive,
		}}
	}
	var routes []wasm.Index
	for t := uint32(0); t < w.nTargets; t++ {
		routes = append(routes, t)
	}
	for t := uint32(0); t < w.nTargets; t++ {
		routes = append(routes, w.wrapperBase+t)
	}
	m.M.ElementSection = append(m.M.ElementSection, wasm.ElementSegment{
		OffsetExpr: wasm.ConstantExpression{Opcode: wasm.OpcodeI32Const, Data: []byte{routeTableBase}},
		Init:       routes, Type: wasm.RefTypeFuncref, Mode: wasm.ElementModeActive,
	})
	return m.Bytes()
}

func argCode(a Arg) []byte {
	switch a.K {
	case "c":
		return wb.I32Const(int32(a.N))
	case "x":
		return wb.LocalGet(0)
	default:
		return wb.Cat(wb.LocalGet(0), wb.I32Const(1), wb.Op(wasm.OpcodeI32Sub))
	}
}

func (w *World) opCode(in Instr, hostIdx map[string]uint32, guestIdx map[[2]int]uint32, tySig uint32) []byte {
	accAdd := wb.Cat(wb.LocalGet(1), wb.Op(wasm.OpcodeI32Add), wb.LocalSet(1))
	callInd := func(idx int32) []byte {
		return wb.Cat(wb.LocalGet(0), wb.I32Const(idx), wb.Op(wasm.OpcodeCallIndirect), wb.U32(tySig), wb.U32(0), wb.Op(wasm.OpcodeDrop))
	}
	switch in.Op {
	case "sg":
		return wb.Cat(wb.I64Const(int64(in.B)), wb.GlobalSet(in.A))
	case "ag":
		return wb.Cat(wb.GlobalGet(in.A), wb.LocalGet(0), wb.Op(wasm.OpcodeI64ExtendI32U), wb.Op(wasm.OpcodeI64Add), wb.GlobalSet(in.A))
	case "st":
		return store8Variant(in.Variant, wb.I32Const(int32(in.A)), wb.I32Const(int32(in.B)))
	case "sx":
		return store8Variant(in.Variant, wb.I32Const(int32(in.A)), wb.LocalGet(0))
	case "tr":
		if in.Variant != "" {
			return trapVariant(in.Trap, in.Variant)
		}
		switch in.Trap {
		case "unaligned":
			return trapVariant("unaligned", "i32.atomic.load")
		case "unreachable":
			return wb.Op(wasm.OpcodeUnreachable)
		case "divzero":
			return wb.Cat(wb.LocalGet(0), zero(), wb.Op(wasm.OpcodeI32DivU), wb.Op(wasm.OpcodeDrop))
		case "divoverflow":
			return wb.Cat(wb.I32Const(math.MinInt32), zero(), wb.I32Const(1), wb.Op(wasm.OpcodeI32Sub), wb.Op(wasm.OpcodeI32DivS), wb.Op(wasm.OpcodeDrop))
		case "truncoverflow":
			return wb.Cat(f32const(1e30), zero(), wb.Op(wasm.OpcodeF32ConvertI32S), wb.Op(wasm.OpcodeF32Add), wb.Op(wasm.OpcodeI32TruncF32S), wb.Op(wasm.OpcodeDrop))
		case "invalidconv":
			return wb.Cat(zero(), wb.Op(wasm.OpcodeF32ConvertI32S), zero(), wb.Op(wasm.OpcodeF32ConvertI32S), wb.Op(wasm.OpcodeF32Div), wb.Op(wasm.OpcodeI32TruncF32S), wb.Op(wasm.OpcodeDrop))
		case "oobload":
			return wb.Cat(wb.I32Const(65533), wb.MemArg(wasm.OpcodeI32Load, 0, 0), wb.Op(wasm.OpcodeDrop))
		case "oobstore":
			return wb.Cat(wb.I32Const(65532), wb.I64Const(-1), wb.MemArg(wasm.OpcodeI64Store, 0, 0))
		case "oobtable":
			return callInd(1000)
		case "nulltable":
			return callInd(int32(trapTableBase) + 3)
		case "sigmismatch":
			return callInd(int32(trapTableBase) + 2)
		}
	case "ca":
		return wb.Cat(w.callRoute(in.Variant, argCode(in.Arg), guestIdx[[2]int{in.Inst, in.Fn}], tySig), accAdd)
	case "ho":
		return wb.Cat(w.callRoute(in.Variant, argCode(in.Arg), hostIdx[in.hostName()], tySig), accAdd)
	}
	panic("bad instr " + in.Op + " " + in.Trap)
}

// callRoute: the ways a function (a host function, an imported or an own guest function) with index idx can be
// reached.  For the reference semantics a call is a call; for a back end each route is another piece of code that has
// to tell the callee who is calling (module context, caller identity for Go functions, stack bookkeeping).
//
//	""         call idx
//	"indirect" call_indirect through the table slot that holds idx
//	"wrapped"  call of a local function that does nothing but call idx
//	"wrapped-indirect"  the local wrapper, reached through the table
const (
	routeTableBase = 0 // table: [every function index in order..., every wrapper in order..., f0, f0, nop, null]
)

// trapTableBase: index of the 4-element tail [f0, f0, nop, null] of the table of the module being built
var trapTableBase uint32

var callRoutes = []string{"indirect", "wrapped", "wrapped-indirect"}

func (w *World) callRoute(route string, arg []byte, idx, tySig uint32) []byte {
	ind := func(slot uint32) []byte {
		return wb.Cat(arg, wb.I32Const(int32(slot)), wb.Op(wasm.OpcodeCallIndirect), wb.U32(tySig), wb.U32(0))
	}
	switch route {
	case "indirect":
		return ind(routeTableBase + idx)
	case "wrapped":
		return wb.Cat(arg, wb.Call(w.wrapperBase+idx))
	case "wrapped-indirect":
		return ind(routeTableBase + w.nTargets + idx)
	}
	return wb.Cat(arg, wb.Call(idx))
}

// store8Variant: mem8[addr] := value through different instructions (all leave exactly that byte changed).
func store8Variant(v string, addr, val []byte) []byte {
	at := func(op byte) []byte { return []byte{wasm.OpcodeAtomicPrefix, op, 0, 0} }
	switch v {
	case "":
		return wb.Cat(addr, val, wb.MemArg(wasm.OpcodeI32Store8, 0, 0))
	case "atomic.store8":
		return wb.Cat(addr, val, at(wasm.OpcodeAtomicI32Store8))
	case "atomic.xchg8":
		return wb.Cat(addr, val, at(wasm.OpcodeAtomicI32Rmw8XchgU), wb.Op(wasm.OpcodeDrop))
	case "atomic.cmpxchg8": // expected = the current byte, read atomically first
		return wb.Cat(addr, addr, at(wasm.OpcodeAtomicI32Load8U), val, at(wasm.OpcodeAtomicI32Rmw8CmpxchgU), wb.Op(wasm.OpcodeDrop))
	case "grow0.store8": // memory.grow by zero pages first (an instruction that may reach the host), then the store
		return wb.Cat(wb.I32Const(0), wb.MemoryGrow(), wb.Op(wasm.OpcodeDrop), addr, val, wb.MemArg(wasm.OpcodeI32Store8, 0, 0))
	case "fence.store8":
		return wb.Cat([]byte{wasm.OpcodeAtomicPrefix, wasm.OpcodeAtomicFence, 0}, addr, val, wb.MemArg(wasm.OpcodeI32Store8, 0, 0),
			wb.I32Const(0), wb.I32Const(0), []byte{wasm.OpcodeAtomicPrefix, wasm.OpcodeAtomicMemoryNotify, 2, 0}, wb.Op(wasm.OpcodeDrop))
	case "atomic.or16": // a 16-bit read-modify-write that changes nothing, then the store
		return wb.Cat(wb.I32Const(64), wb.I32Const(0), []byte{wasm.OpcodeAtomicPrefix, wasm.OpcodeAtomicI32Rmw16OrU, 1, 0}, wb.Op(wasm.OpcodeDrop),
			addr, val, wb.MemArg(wasm.OpcodeI32Store8, 0, 0))
	}
	panic("bad store variant " + v)
}

var store8Variants = []string{"atomic.store8", "atomic.xchg8", "atomic.cmpxchg8", "fence.store8", "atomic.or16", "grow0.store8"}

// trapVariants: the concrete instructions per trap kind (catalogue of memory instructions from package memcat,
// bulk memory and table instructions, every trapping division and truncation).
var trapVariants = map[string][]string{}

func init() {
	for _, o := range memcat.All() {
		if o.Store || o.Rmw {
			trapVariants["oobstore"] = append(trapVariants["oobstore"], o.Name)
		} else {
			trapVariants["oobload"] = append(trapVariants["oobload"], o.Name)
		}
		if o.Atomic && o.W > 1 {
			trapVariants["unaligned"] = append(trapVariants["unaligned"], o.Name)
		}
	}
	trapVariants["oobstore"] = append(trapVariants["oobstore"], "memory.fill", "memory.copy")
	trapVariants["oobtable"] = []string{"table.get", "table.set", "table.fill", "table.copy"}
	trapVariants["divzero"] = []string{"i32.div_s", "i32.rem_s", "i32.rem_u", "i64.div_s", "i64.div_u", "i64.rem_s", "i64.rem_u"}
	trapVariants["divoverflow"] = []string{"i64.div_s"}
	for _, t := range []string{"i32.trunc_f32_u", "i32.trunc_f64_s", "i32.trunc_f64_u", "i64.trunc_f32_s", "i64.trunc_f32_u", "i64.trunc_f64_s", "i64.trunc_f64_u"} {
		trapVariants["truncoverflow"] = append(trapVariants["truncoverflow"], t)
		trapVariants["invalidconv"] = append(trapVariants["invalidconv"], t)
	}
}

func memcatOp(name string) memcat.Op {
	for _, o := range memcat.All() {
		if o.Name == name {
			return o
		}
	}
	panic("unknown memory instruction " + name)
}

func trapVariant(kind, v string) []byte {
	drop := wb.Op(wasm.OpcodeDrop)
	misc := func(op byte, imm ...byte) []byte { return append([]byte{wasm.OpcodeMiscPrefix, op}, imm...) }
	switch kind {
	case "oobload", "oobstore", "unaligned":
		switch v {
		case "memory.fill": // [65530, 65540) crosses the end: nothing is written
			return wb.Cat(wb.I32Const(65530), wb.I32Const(0xAB), wb.I32Const(10), misc(wasm.OpcodeMiscMemoryFill, 0))
		case "memory.copy":
			return wb.Cat(wb.I32Const(65530), wb.I32Const(0), wb.I32Const(10), misc(wasm.OpcodeMiscMemoryCopy, 0, 0))
		}
		o := memcatOp(v)
		addr := int32(65536) // aligned and entirely outside
		if kind == "unaligned" {
			addr = 1
		} else if !o.Atomic && o.W > 1 {
			addr = int32(65536 - o.W + 1) // straddles the end: the in-bounds part must not be written
		}
		code := wb.Cat(wb.I32Const(addr), o.Operands(0xA5A5A5A5A5A5A5A5, 0), o.Instr(0))
		if o.Result() != 0 {
			code = append(code, drop...)
		}
		return code
	case "oobtable":
		null := []byte{wasm.OpcodeRefNull, wasm.RefTypeFuncref}
		switch v {
		case "table.get":
			return wb.Cat(wb.I32Const(1000), []byte{wasm.OpcodeTableGet, 0}, drop)
		case "table.set":
			return wb.Cat(wb.I32Const(1000), null, []byte{wasm.OpcodeTableSet, 0})
		case "table.fill": // [size-1, size+4) crosses the end of the table: nothing is written
			return wb.Cat(wb.I32Const(int32(trapTableBase)+3), null, wb.I32Const(5), misc(wasm.OpcodeMiscTableFill, 0))
		case "table.copy":
			return wb.Cat(wb.I32Const(int32(trapTableBase)+2), wb.I32Const(0), wb.I32Const(5), misc(wasm.OpcodeMiscTableCopy, 0, 0))
		}
	case "divzero", "divoverflow":
		c, z := wb.LocalGet(0), zero()
		if v[:3] == "i64" {
			c, z = wb.Cat(wb.LocalGet(0), wb.Op(wasm.OpcodeI64ExtendI32U)), wb.Cat(zero(), wb.Op(wasm.OpcodeI64ExtendI32U))
		}
		if kind == "divoverflow" { // i64.div_s MinInt64 -1
			return wb.Cat(wb.I64Const(math.MinInt64), z, wb.I64Const(1), wb.Op(wasm.OpcodeI64Sub), wb.Op(wasm.OpcodeI64DivS), drop)
		}
		op := map[string]byte{"i32.div_s": wasm.OpcodeI32DivS, "i32.rem_s": wasm.OpcodeI32RemS, "i32.rem_u": wasm.OpcodeI32RemU,
			"i64.div_s": wasm.OpcodeI64DivS, "i64.div_u": wasm.OpcodeI64DivU, "i64.rem_s": wasm.OpcodeI64RemS, "i64.rem_u": wasm.OpcodeI64RemU}[v]
		return wb.Cat(c, z, wb.Op(op), drop)
	case "truncoverflow", "invalidconv":
		op := map[string]byte{"i32.trunc_f32_u": wasm.OpcodeI32TruncF32U, "i32.trunc_f64_s": wasm.OpcodeI32TruncF64S, "i32.trunc_f64_u": wasm.OpcodeI32TruncF64U,
			"i64.trunc_f32_s": wasm.OpcodeI64TruncF32S, "i64.trunc_f32_u": wasm.OpcodeI64TruncF32U, "i64.trunc_f64_s": wasm.OpcodeI64TruncF64S, "i64.trunc_f64_u": wasm.OpcodeI64TruncF64U}[v]
		var val []byte
		if kind == "truncoverflow" {
			val = wb.Cat(f32const(1e30), zero(), wb.Op(wasm.OpcodeF32ConvertI32S), wb.Op(wasm.OpcodeF32Add))
		} else {
			val = wb.Cat(zero(), wb.Op(wasm.OpcodeF32ConvertI32S), zero(), wb.Op(wasm.OpcodeF32ConvertI32S), wb.Op(wasm.OpcodeF32Div))
		}
		if v[10:13] == "f64" {
			val = append(val, wasm.OpcodeF64PromoteF32)
		}
		return wb.Cat(val, wb.Op(op), drop)
	}
	panic("bad trap variant " + kind + "/" + v)
}

// ---------------------------------------------------------------- generator

type gen struct {
	r       *rand.Rand
	noClose bool
}

func (g *gen) guard(params []uint32) Guard {
	switch g.r.Intn(5) {
	case 0, 1:
		return Guard{K: "a"}
	case 2, 3:
		return Guard{K: "e", N: params[g.r.Intn(len(params))]}
	default:
		return Guard{K: "n", N: params[g.r.Intn(len(params))]}
	}
}

func (g *gen) arg() Arg {
	switch g.r.Intn(4) {
	case 0:
		return Arg{K: "c", N: uint32(g.r.Intn(6))}
	case 1:
		return Arg{K: "m"}
	default:
		return Arg{K: "x"}
	}
}

// rank orders functions so that every call (direct or re-entrant) goes to a strictly lower rank:
// no unbounded recursion except the explicit self-recursion forms.
func rank(inst, fn int) int { return inst*100 + fn }

// variant picks a concrete instruction for a trap kind / store effect (half of the time the original one).
func (g *gen) variant(in Instr) Instr {
	if g.r.Intn(2) == 0 {
		return in
	}
	switch in.Op {
	case "st", "sx":
		in.Variant = store8Variants[g.r.Intn(len(store8Variants))]
	case "tr":
		if vs := trapVariants[in.Trap]; len(vs) > 0 {
			in.Variant = vs[g.r.Intn(len(vs))]
		}
	case "ca", "ho":
		in.Variant = callRoutes[g.r.Intn(len(callRoutes))]
	}
	return in
}

func (g *gen) effect() Instr { return g.variant(g.effect0()) }

func (g *gen) effect0() Instr {
	switch g.r.Intn(4) {
	case 0:
		return Instr{Op: "sg", A: uint32(g.r.Intn(2)), B: uint32(1 + g.r.Intn(1000))}
	case 1:
		return Instr{Op: "ag", A: uint32(g.r.Intn(2))}
	case 2:
		return Instr{Op: "st", A: uint32(g.r.Intn(48)), B: uint32(1 + g.r.Intn(255))}
	default:
		return Instr{Op: "sx", A: uint32(g.r.Intn(48))}
	}
}

// idempotent effect (safe inside unbounded recursion: the final state does not depend on the depth)
func (g *gen) idemEffect() Instr {
	if g.r.Intn(2) == 0 {
		return Instr{Op: "sg", A: uint32(g.r.Intn(2)), B: uint32(1 + g.r.Intn(1000))}
	}
	return Instr{Op: "st", A: uint32(g.r.Intn(48)), B: uint32(1 + g.r.Intn(255))}
}

var params = []uint32{0, 1, 2, 3, 4, 5}

func (g *gen) world(id int) World {
	w := World{ID: id, Engines: []string{"interpreter", "compiler"}}
	w.Insts = make([][]Func, 4)
	counts := []int{2 + g.r.Intn(3), 1 + g.r.Intn(2), 2 + g.r.Intn(3), 1 + g.r.Intn(2)}
	recBudget := 2 // functions with unbounded recursion (each may pin a large native stack)
	for k := 0; k < 4; k++ {
		for f := 0; f < counts[k]; f++ {
			w.Insts[k] = append(w.Insts[k], g.fn(&w, k, f, &recBudget))
		}
	}
	for range w.Insts[iS] {
		w.StartC = append(w.StartC, uint32(g.r.Intn(6)))
	}
	return w
}

// callable lists the (inst, fn) pairs instance k may call directly with rank below (k, f).
func callable(w *World, k, f int) [][2]int {
	var out [][2]int
	for _, j := range importedInsts(k) {
		for fn := range w.Insts[j] {
			out = append(out, [2]int{j, fn})
		}
	}
	for fn := 0; fn < f; fn++ {
		out = append(out, [2]int{k, fn})
	}
	return out
}

// reenterable lists the exported functions of persistent instances with rank below (k, f).
func reenterable(w *World, k, f int) [][2]int {
	var out [][2]int
	for j := 0; j < 3; j++ {
		for fn := range w.Insts[j] {
			if rank(j, fn) < rank(k, f) && len(w.Insts[j]) > fn {
				out = append(out, [2]int{j, fn})
			}
		}
	}
	return out
}

func (g *gen) fn(w *World, k, f int, recBudget *int) Func {
	var fn Func
	if g.r.Intn(3) == 0 {
		fn.Locals = []int{1, 8, 40, 100, 200}[g.r.Intn(5)]
	}
	n := 1 + g.r.Intn(6)
	shape := g.r.Intn(10)
	if shape == 0 && *recBudget > 0 {
		// unbounded recursion behind a guard, idempotent effects only
		*recBudget--
		gd := Guard{K: "e", N: params[g.r.Intn(len(params))]}
		for i := 0; i < 1+g.r.Intn(2); i++ {
			e := g.idemEffect()
			e.G = Guard{K: "a"}
			fn.Body = append(fn.Body, e)
		}
		fn.Body = append(fn.Body, Instr{G: gd, Op: "ca", Inst: k, Fn: f, Arg: Arg{K: "x"}})
		e := g.effect()
		e.G = Guard{K: "a"}
		fn.Body = append(fn.Body, e)
		return fn
	}
	if shape == 1 {
		// bounded recursion f(x) = ... f(x-1) while x != 0, with effects on both sides of the call
		// (the effect before the recursive call is idempotent: x-1 wraps to 2^32-1 at x = 0, and the
		// depth at which that recursion overflows is engine-specific)
		e := g.idemEffect()
		e.G = Guard{K: "a"}
		fn.Body = append(fn.Body, e)
		fn.Body = append(fn.Body, Instr{G: Guard{K: "n", N: 0}, Op: "ca", Inst: k, Fn: f, Arg: Arg{K: "m"}})
		if g.r.Intn(2) == 0 {
			fn.Body = append(fn.Body, g.variant(Instr{G: g.guard(params), Op: "tr", Trap: trapKinds[g.r.Intn(len(trapKinds))]}))
		}
		e = g.effect()
		e.G = Guard{K: "a"}
		fn.Body = append(fn.Body, e)
		return fn
	}
	for i := 0; i < n; i++ {
		var in Instr
		switch c := g.r.Intn(20); {
		case c < 7:
			in = g.effect()
		case c < 10:
			in = g.variant(Instr{Op: "tr", Trap: trapKinds[g.r.Intn(len(trapKinds))]})
		case c < 14:
			cs := callable(w, k, f)
			if len(cs) == 0 {
				in = g.effect()
			} else {
				t := cs[g.r.Intn(len(cs))]
				in = g.variant(Instr{Op: "ca", Inst: t[0], Fn: t[1], Arg: g.arg()})
			}
		default:
			hs := []string{"ok", "pe", "ps", "pv", "cl", "ex", "rc", "rp", "rc", "rp"}
			if g.noClose {
				// with WithCloseOnContextDone compiled code polls the closed flag, so code no longer keeps
				// running in an instance closed by a host function (outside the reference semantics)
				hs = []string{"ok", "pe", "ps", "pv", "pe", "pv", "rc", "rp", "rc", "rp"}
			}
			h := hs[g.r.Intn(len(hs))]
			in = Instr{Op: "ho", Host: h, Arg: g.arg()}
			if h == "rc" || h == "rp" {
				rs := reenterable(w, k, f)
				if len(rs) == 0 {
					in.Host = "ok"
				} else {
					t := rs[g.r.Intn(len(rs))]
					in.Inst, in.Fn = t[0], t[1]
				}
			}
			in = g.variant(in)
		}
		in.G = g.guard(params)
		// failing instructions are mostly guarded so that the same function both succeeds and fails
		if (in.Op == "tr" || (in.Op == "ho" && (in.Host == "pe" || in.Host == "ps" || in.Host == "pv" || in.Host == "cl" || in.Host == "ex"))) && in.G.K == "a" && g.r.Intn(4) != 0 {
			in.G = Guard{K: "e", N: params[g.r.Intn(len(params))]}
		}
		fn.Body = append(fn.Body, in)
	}
	return fn
}

func (g *gen) history(w *World, n int) []Step {
	var h []Step
	for i := 0; i < n; i++ {
		if g.r.Intn(8) == 0 {
			k := g.r.Intn(len(w.Insts[iS]))
			h = append(h, Step{Kind: "start", Inst: iS, Fn: len(w.Insts[iS]) + k})
			continue
		}
		inst := []int{iB, iC, iA, iA, iB}[g.r.Intn(5)]
		fn := g.r.Intn(len(w.Insts[inst]))
		arg := params[g.r.Intn(len(params))]
		if g.r.Intn(10) == 0 {
			arg = uint32(6 + g.r.Intn(300)) // deeper bounded recursion / unguarded paths
		}
		h = append(h, Step{Kind: "call", Inst: inst, Fn: fn, Arg: arg})
		// repeat the same function object right after (fail → succeed on the same object)
		if g.r.Intn(3) == 0 && i+1 < n {
			h = append(h, Step{Kind: "call", Inst: inst, Fn: fn, Arg: params[g.r.Intn(len(params))]})
			i++
		}
	}
	return h
}
