package main

// corpus: hand-written cases that run first on every run: every failure kind once on each nesting
// shape, the interpreter's frame ceiling at its boundary, recursion with every frame size.

func ins(g string, gn uint32, op string, f func(*Instr)) Instr {
	i := Instr{G: Guard{K: g, N: gn}, Op: op, Arg: Arg{K: "x"}}
	if f != nil {
		f(&i)
	}
	return i
}

func trapI(g string, gn uint32, k string) Instr {
	return ins(g, gn, "tr", func(i *Instr) { i.Trap = k })
}
func hostI(g string, gn uint32, h string, a Arg) Instr {
	return ins(g, gn, "ho", func(i *Instr) { i.Host = h; i.Arg = a })
}
func reI(g string, gn uint32, h string, j, fn int, a Arg) Instr {
	return ins(g, gn, "ho", func(i *Instr) { i.Host = h; i.Inst = j; i.Fn = fn; i.Arg = a })
}
func callI(g string, gn uint32, j, fn int, a Arg) Instr {
	return ins(g, gn, "ca", func(i *Instr) { i.Inst = j; i.Fn = fn; i.Arg = a })
}
func sg(gi, v uint32) Instr        { return Instr{G: Guard{K: "a"}, Op: "sg", A: gi, B: v} }
func ag(gi uint32) Instr           { return Instr{G: Guard{K: "a"}, Op: "ag", A: gi} }
func stI(a, v uint32) Instr        { return Instr{G: Guard{K: "a"}, Op: "st", A: a, B: v} }
func sx(a uint32) Instr            { return Instr{G: Guard{K: "a"}, Op: "sx", A: a} }
func call(i, f int, a uint32) Step { return Step{Kind: "call", Inst: i, Fn: f, Arg: a} }

var both = []string{"interpreter", "compiler"}

func corpus() []Case {
	var cs []Case
	X, M := Arg{K: "x"}, Arg{K: "m"}
	C := func(n uint32) Arg { return Arg{K: "c", N: n} }

	// 1. every trap kind selected by the argument, effects before and after; every host failure kind.
	{
		var body []Instr
		body = append(body, ag(0), sx(1))
		for k, t := range trapKinds {
			body = append(body, trapI("e", uint32(10+k), t))
		}
		body = append(body, hostI("e", 30, "pe", X), hostI("e", 31, "ps", X), hostI("e", 32, "pv", X), stI(2, 7), ag(1))
		b := []Func{{Body: body}, {Body: []Instr{stI(5, 9), hostI("e", 1, "ex", C(42)), hostI("e", 2, "cl", C(7)), sg(0, 3)}}}
		c := []Func{{Body: []Instr{ag(0), hostI("e", 3, "ex", C(0)), hostI("e", 4, "cl", C(0))}}}
		// A: failure inside an imported function of another instance; re-entrancy catching / propagating
		a := []Func{
			{Body: []Instr{sx(3), callI("a", 0, iB, 0, X), sg(1, 77)}},
			{Body: []Instr{sx(4), reI("a", 0, "rc", iB, 0, X), ag(0)}},
			{Body: []Instr{sx(5), reI("a", 0, "rp", iB, 0, X), ag(0)}},
			{Body: []Instr{reI("a", 0, "rp", iB, 1, X), ag(1)}},
			{Body: []Instr{reI("a", 0, "rc", iB, 1, X), ag(1)}},
			{Body: []Instr{reI("a", 0, "rp", iC, 0, X), callI("a", 0, iA, 0, X)}},
		}
		s := []Func{{Body: []Instr{callI("a", 0, iA, 0, X), sg(0, 1)}}, {Body: []Instr{reI("a", 0, "rp", iA, 1, X)}}, {Body: []Instr{callI("a", 0, iB, 1, X)}}}
		w := World{ID: 1, Insts: [][]Func{b, c, a, s}, StartC: []uint32{12, 15, 0}, Engines: both, Note: "every failure kind x nesting shape"}
		var h []Step
		for x := uint32(9); x <= 33; x++ {
			h = append(h, call(iB, 0, x))
		}
		cs = append(cs, Case{W: w, H: h})
		w2 := w
		w2.ID = 2
		h = nil
		for x := uint32(9); x <= 33; x += 2 {
			h = append(h, call(iA, 0, x), call(iA, 1, x+1), call(iA, 2, x), call(iA, 0, 9))
		}
		cs = append(cs, Case{W: w2, H: h})
		// start functions: trap inside A inside start; host panic via re-entrancy in start; fine start
		w3 := w
		w3.ID = 3
		w3.StartC = []uint32{12, 30, 0}
		h = []Step{{Kind: "start", Inst: iS, Fn: 3}, call(iA, 0, 9), {Kind: "start", Inst: iS, Fn: 4}, call(iB, 0, 9), {Kind: "start", Inst: iS, Fn: 5}, {Kind: "start", Inst: iS, Fn: 3}}
		cs = append(cs, Case{W: w3, H: h})
		// exits: proc_exit-like inside B through A (A stays open), close-and-return, calls on closed instances
		w4 := w
		w4.ID = 4
		w4.StartC = []uint32{9, 9, 1}
		h = []Step{call(iA, 3, 0), call(iA, 3, 1), call(iA, 3, 1), call(iB, 1, 0), call(iB, 0, 9), call(iB, 0, 10), call(iA, 0, 9), call(iA, 4, 2), call(iC, 0, 4), call(iC, 0, 1), call(iC, 0, 3),
			call(iA, 5, 1), {Kind: "start", Inst: iS, Fn: 5}, {Kind: "start", Inst: iS, Fn: 3}}
		cs = append(cs, Case{W: w4, H: h})
		w5 := w
		w5.ID = 5
		h = []Step{call(iA, 4, 2), call(iB, 1, 0), call(iB, 1, 1), call(iA, 0, 9), call(iA, 0, 13), call(iC, 0, 3), call(iC, 0, 3), call(iA, 5, 5), call(iA, 5, 3)}
		cs = append(cs, Case{W: w5, H: h})
	}

	// 1b. the same for EVERY concrete trapping instruction (trapVariants: all memory instructions out of bounds,
	// all atomics unaligned, bulk memory and table instructions, every division and truncation): the trap is
	// selected by the argument; every call starts and ends with atomic and plain memory effects on the same
	// memory, so that anything a failed instruction leaves behind (a lock, a half-done write) shows in the
	// next call of the same function object.
	{
		type tv struct{ kind, v string }
		var all []tv
		for _, k := range trapKinds {
			for _, v := range trapVariants[k] {
				all = append(all, tv{k, v})
			}
		}
		const chunk = 20
		for c0 := 0; c0 < len(all); c0 += chunk {
			part := all[c0:min(c0+chunk, len(all))]
			body := []Instr{ag(0)}
			for i, v := range store8Variants {
				in := sx(uint32(1 + i))
				in.Variant = v
				body = append(body, in)
			}
			for k, t := range part {
				in := trapI("e", uint32(10+k), t.kind)
				in.Variant = t.v
				body = append(body, in)
			}
			for i, v := range store8Variants {
				in := stI(uint32(8+i), uint32(40+i))
				in.Variant = v
				body = append(body, in)
			}
			body = append(body, ag(1))
			w := World{ID: 100 + c0/chunk, Insts: [][]Func{{{Body: body}}, {{Body: []Instr{ag(0)}}}, {{Body: []Instr{sx(3), callI("a", 0, iB, 0, X), sg(1, 77)}}}, {{Body: []Instr{callI("a", 0, iA, 0, X)}}}},
				StartC: []uint32{11}, Engines: both, Note: "trap catalogue: " + part[0].kind + "/" + part[0].v + " …"}
			var h []Step
			for x := uint32(9); x < uint32(10+len(part)); x++ {
				h = append(h, call(iB, 0, x))
				if x%4 == 2 {
					h = append(h, call(iA, 0, x)) // the same failure inside an imported function
				}
			}
			h = append(h, Step{Kind: "start", Inst: iS, Fn: 1}, call(iB, 0, 9))
			cs = append(cs, Case{W: w, H: h})
		}
	}

	// 2. recursion: unbounded (x = 1) and bounded, one function per frame size; same function objects reused.
	{
		var b []Func
		sizes := []int{0, 1, 8, 40, 100, 200}
		for k, L := range sizes {
			b = append(b, Func{Locals: L, Body: []Instr{stI(uint32(k), uint32(k+1)), callI("e", 1, iB, k, X), callI("n", 1, iB, k, M), ag(0)}})
			_ = L
		}
		// note: x=1 recurses forever; x=0 → calls f(-1)... avoid: guard n1 also excludes 0? f(0) calls f(0xffffffff) → deep. Use only x=1 or x>=2 chains ending at 1.
		w := World{ID: 10, Insts: [][]Func{b, {{Body: []Instr{ag(0)}}}, {{Body: []Instr{callI("a", 0, iB, 5, X), sg(1, 5)}}, {Body: []Instr{reI("a", 0, "rc", iB, 3, X), reI("a", 0, "rp", iB, 4, X)}}}, {{Body: []Instr{callI("a", 0, iB, 2, X)}}}},
			StartC: []uint32{1}, Engines: both, Note: "unbounded recursion, all frame sizes"}
		var h []Step
		for k := range sizes {
			h = append(h, call(iB, k, 1), call(iC, 0, 2))
		}
		h = append(h, call(iA, 0, 1), call(iA, 1, 1), Step{Kind: "start", Inst: iS, Fn: 1}, call(iA, 0, 1), call(iB, 5, 1), call(iB, 0, 1))
		cs = append(cs, Case{W: w, H: h})
	}
	{
		// bounded recursion g(x) = effects; if x != 0 { g(x-1) }; trap when x == 0 and flag... two variants
		b := []Func{
			{Locals: 8, Body: []Instr{ag(0), callI("n", 0, iB, 0, M), ag(1)}},
			{Locals: 100, Body: []Instr{ag(0), callI("n", 0, iB, 1, M), trapI("e", 0, "divzero"), ag(1)}},
			{Body: []Instr{ag(0), callI("n", 0, iB, 2, M), hostI("e", 0, "pe", C(5))}},
		}
		w := World{ID: 11, Insts: [][]Func{b, {{Body: []Instr{ag(0)}}}, {{Body: []Instr{callI("a", 0, iB, 0, X)}}}, {{Body: []Instr{callI("a", 0, iB, 1, X)}}}},
			StartC: []uint32{1500}, Engines: both, Note: "deep bounded recursion; failure at the bottom of 1500 frames"}
		h := []Step{call(iB, 0, 1500), call(iB, 1, 1500), call(iB, 0, 1500), call(iB, 2, 1200), call(iB, 2, 3), call(iA, 0, 1000), {Kind: "start", Inst: iS, Fn: 1}, call(iB, 0, 10)}
		cs = append(cs, Case{W: w, H: h})
	}

	// 3. the interpreter's frame ceiling, exactly: 2000 frames fit, 2001 do not; the host frame counts.
	{
		b := []Func{
			{Body: []Instr{ag(0), callI("n", 0, iB, 0, M)}},                  // frames = x+1, g0 += x + ...
			{Body: []Instr{ag(0), callI("a", 0, iB, 1, X)}},                  // unbounded; g0 counts the frames
			{Body: []Instr{callI("n", 0, iB, 2, M), hostI("e", 0, "ok", X)}}, // host call at the bottom
		}
		w := World{ID: 12, Insts: [][]Func{b, {{Body: []Instr{ag(0)}}}, {{Body: []Instr{callI("a", 0, iB, 0, X)}}}, {{Body: []Instr{ag(0)}}}},
			StartC: []uint32{0}, Engines: []string{"interpreter"}, Note: "interpreter callStackCeiling boundary"}
		h := []Step{call(iB, 0, 1999), call(iB, 0, 2000), call(iB, 0, 1999), call(iB, 1, 1), call(iB, 2, 1998), call(iB, 2, 1999), call(iA, 0, 1998), call(iA, 0, 1999), call(iB, 0, 5)}
		cs = append(cs, Case{W: w, H: h})
	}
	// 4. caller identity on every route: a host function that closes / exits "the calling module" is reached by a
	// direct call, through the table, through a local wrapper and through a wrapper in the table - after an
	// instruction that may reach the host (memory.grow) and after a detour into ANOTHER instance (direct or through
	// a local wrapper) that itself talks to the host, all in one basic block.  The module that goes down must be the
	// one whose code made the call; the library it visited on the way stays up.
	id := 400
	for _, pre := range []string{"", "grow0.store8"} {
		for _, detour := range []string{"none", "", "wrapped"} {
			for _, lib := range []string{"host-ok", "grow0"} {
				for _, host := range []string{"ex", "cl"} {
					for _, route := range append([]string{""}, callRoutes...) {
						libBody := []Instr{hostI("a", 0, "ok", X), ag(0)}
						if lib == "grow0" {
							libBody = []Instr{{G: Guard{K: "a"}, Op: "st", A: 9, B: 5, Variant: "grow0.store8"}, ag(0)}
						}
						body := []Instr{{G: Guard{K: "a"}, Op: "st", A: 3, B: 8, Variant: pre}}
						if detour != "none" {
							c := callI("a", 0, iB, 0, X)
							c.Variant = detour
							body = append(body, c)
						}
						h := hostI("a", 0, host, C(7))
						h.Variant = route
						body = append(body, h, ag(1))
						w := World{ID: id, Insts: [][]Func{{{Body: libBody}}, {{Body: []Instr{ag(0)}}}, {{Body: body}, {Body: []Instr{ag(0)}}}, {{Body: []Instr{ag(0)}}}},
							StartC: []uint32{0}, Engines: both, Note: "caller identity: pre=" + pre + " detour=" + detour + " lib=" + lib + " host=" + host + " route=" + route}
						cs = append(cs, Case{W: w, H: []Step{call(iB, 0, 1), call(iA, 0, 2), call(iB, 0, 3), call(iC, 0, 4), call(iA, 1, 5), call(iB, 0, 6)}})
						id++
					}
				}
			}
		}
	}
	return cs
}
