package main

// Memory-edge differential: every memory instruction of the catalogue (package memcat: scalar, sign-extending, float,
// v128 load forms, lane loads and stores, atomics) at the addresses around the END of the memory - the last in-bounds
// position, every position that straddles the end, the first position past it - with and without a static offset,
// on both engines.  Whether the access traps, what it returns and what the last bytes of the memory hold afterwards
// must agree: the width an engine checks must be the width it accesses.

import (
	"context"
	"crypto/sha256"
	"fmt"

	"github.com/tetratelabs/wazero"
	"github.com/tetratelabs/wazero/api"
	"github.com/tetratelabs/wazero/internal/wasm"
	"github.com/tetratelabs/wazero/verifharness/hx"
	"github.com/tetratelabs/wazero/verifharness/memcat"
	"github.com/tetratelabs/wazero/verifharness/wb"
)

func memEdgeDiff() {
	ctx := context.Background()
	ops := memcat.All()
	m := wb.New()
	one := uint32(1)
	m.Memory(1, &one, false, "memory")
	toI64 := func(t byte) []byte {
		switch t {
		case 0:
			return wb.I64Const(0)
		case 'i':
			return wb.Op(wasm.OpcodeI64ExtendI32U)
		case 'I':
			return nil
		case 'f':
			return wb.Op(wasm.OpcodeI32ReinterpretF32, wasm.OpcodeI64ExtendI32U)
		case 'F':
			return wb.Op(wasm.OpcodeI64ReinterpretF64)
		}
		// v128: lane 0 xor lane 1 (local 1 holds the vector)
		return wb.Cat(wb.LocalTee(1), wb.Op(wasm.OpcodeVecPrefix, wasm.OpcodeVecI64x2ExtractLane, 0), wb.LocalGet(1), wb.Op(wasm.OpcodeVecPrefix, wasm.OpcodeVecI64x2ExtractLane, 1), wb.Op(wasm.OpcodeI64Xor))
	}
	for k, o := range ops {
		for j, off := range []uint32{0, 16} {
			body := wb.Cat(wb.LocalGet(0), o.Operands(0x1122334455667788, 0), o.Instr(off), toI64(o.Result()))
			m.AddFunc(wb.Func{Params: []byte{wb.I32}, Results: []byte{wb.I64}, Locals: []byte{wasm.ValueTypeV128}, Export: fmt.Sprintf("m%d_%d", k, j), Body: body})
		}
	}
	bin := m.Bytes()
	var mods [2]api.Module
	for ei, rc := range []wazero.RuntimeConfig{wazero.NewRuntimeConfigInterpreter(), wazero.NewRuntimeConfigCompiler()} {
		rt := wazero.NewRuntimeWithConfig(ctx, rc.WithCoreFeatures(features))
		defer rt.Close(ctx)
		mod, err := safeInstantiate(ctx, rt, bin)
		if err != nil {
			rep.Violate(hx.Violation{Kind: "impl-violation", Signature: "C01:engines-differ:memory-edge-module-does-not-compile:" + []string{"interpreter", "compiler"}[ei],
				What: "the memory-instruction catalogue module does not compile / instantiate on one engine: " + clipObs(err.Error()), Input: "memcat catalogue module"})
			return
		}
		mods[ei] = mod
	}
	const L = 65536
	tail := make([]byte, 96)
	for i := range tail {
		tail[i] = byte(0xA0 + i%89)
	}
	for k, o := range ops {
		w := o.W
		var eas []int
		if o.Atomic {
			eas = []int{L - 2*w, L - w, L} // aligned only (the kind of the trap of an access that is unaligned AND out of bounds is finding F50)
		} else {
			for ea := L - w - 1; ea <= L+1; ea++ {
				eas = append(eas, ea)
			}
		}
		for j, off := range []int{0, 16} {
			for _, ea := range eas {
				var obs [2]string
				for ei := range mods {
					mods[ei].Memory().Write(L-96, tail)
					res, err := mods[ei].ExportedFunction(fmt.Sprintf("m%d_%d", k, j)).Call(ctx, uint64(uint32(ea-off)))
					if err != nil {
						obs[ei] = trapClass(err)
					} else {
						obs[ei] = fmt.Sprintf("%#x", res[0])
					}
					b, _ := mods[ei].Memory().Read(L-96, 96)
					obs[ei] += fmt.Sprintf(" tail=%x", sha256.Sum256(b))[:28]
					if sz := mods[ei].Memory().Size(); sz != L {
						obs[ei] += fmt.Sprintf(" size=%d", sz)
					}
				}
				rep.Case(fmt.Sprintf("memedge/%s/off%d/%d", o.Name, off, ea-L))
				if obs[0] != obs[1] {
					rep.Violate(hx.Violation{Kind: "impl-violation", Signature: "C01:engines-differ:memory-edge:" + o.Name,
						What:     fmt.Sprintf("%s (%d bytes) at effective address %d of a %d-byte memory (address operand %d + static offset %d): interpreter %s, compiler %s", o.Name, w, ea, L, ea-off, off, obs[0], obs[1]),
						Input:    map[string]any{"instruction": o.Name, "effective_address": ea, "static_offset": off, "memory_bytes": L},
						Expected: obs[0], Actual: obs[1]})
					break
				}
			}
		}
	}
	rep.Count(fmt.Sprintf("memedge:instructions=%d", len(ops)))
}

// atomicWaitGrid: memory.atomic.wait32 / wait64 compare the cell with the EXPECTED operand over its full width before
// they park: cell == expected -> the call times out (2), else it returns "not-equal" (1) at once.  Every single-bit
// difference between cell and expected, and equality at values with high bits set, on both engines (finite timeout,
// single-threaded: nobody notifies).
func atomicWaitGrid() {
	ctx := context.Background()
	m := wb.New()
	one := uint32(1)
	m.Memory(1, &one, true, "memory")
	m.AddFunc(wb.Func{Params: []byte{wb.I64}, Export: "store", Body: wb.Cat(wb.I32Const(64), wb.LocalGet(0), wb.MemArg(wasm.OpcodeI64Store, 3, 0))})
	m.AddFunc(wb.Func{Params: []byte{wb.I64}, Results: []byte{wb.I32}, Export: "wait64",
		Body: wb.Cat(wb.I32Const(64), wb.LocalGet(0), wb.I64Const(1000), wb.Op(wasm.OpcodeAtomicPrefix, wasm.OpcodeAtomicMemoryWait64, 3, 0))})
	m.AddFunc(wb.Func{Params: []byte{wb.I32}, Results: []byte{wb.I32}, Export: "wait32",
		Body: wb.Cat(wb.I32Const(64), wb.LocalGet(0), wb.I64Const(1000), wb.Op(wasm.OpcodeAtomicPrefix, wasm.OpcodeAtomicMemoryWait32, 2, 0))})
	bin := m.Bytes()
	var mods [2]api.Module
	for ei, rc := range []wazero.RuntimeConfig{wazero.NewRuntimeConfigInterpreter(), wazero.NewRuntimeConfigCompiler()} {
		rt := wazero.NewRuntimeWithConfig(ctx, rc.WithCoreFeatures(features))
		defer rt.Close(ctx)
		mod, err := safeInstantiate(ctx, rt, bin)
		if err != nil {
			rep.Note("atomic wait grid skipped: %v", err)
			return
		}
		mods[ei] = mod
	}
	cells := []uint64{0, 1, 0xffffffff, 0x100000000, 0x100000005, 0x8000000000000000, 0xffffffffffffffff, 0x0123456789abcdef}
	for _, cell := range cells {
		var exps []uint64
		exps = append(exps, cell)
		for k := 0; k < 64; k += 3 {
			exps = append(exps, cell^(1<<uint(k)))
		}
		exps = append(exps, cell^(1<<63), cell^(1<<32), cell^(1<<31))
		for _, fn := range []string{"wait64", "wait32"} {
			for _, exp := range exps {
				arg := exp
				if fn == "wait32" {
					arg = uint64(uint32(exp))
				}
				var obs [2]string
				for ei := range mods {
					if _, err := mods[ei].ExportedFunction("store").Call(ctx, cell); err != nil {
						obs[ei] = "store: " + trapClass(err)
						continue
					}
					res, err := mods[ei].ExportedFunction(fn).Call(ctx, arg)
					if err != nil {
						obs[ei] = trapClass(err)
					} else {
						obs[ei] = fmt.Sprint(uint32(res[0])) // an i32 result: the low 32 bits are the value
					}
				}
				rep.Case(fmt.Sprintf("atomic-wait/%s/%x/%x", fn, cell, arg))
				if obs[0] != obs[1] {
					rep.Violate(hx.Violation{Kind: "impl-violation", Signature: "C01:engines-differ:" + fn + "-expected-comparison",
						What:     fmt.Sprintf("memory.atomic.%s with the cell holding %#x and expected %#x (timeout 1000ns, nobody notifies): interpreter returns %s, compiler %s (1 = not-equal, 2 = timed-out)", fn, cell, arg, obs[0], obs[1]),
						Input:    map[string]any{"instruction": "memory.atomic." + fn, "cell": cell, "expected": arg, "timeout_ns": 1000},
						Expected: obs[0], Actual: obs[1]})
					return
				}
			}
		}
	}
}

// sharedGrowDiff: a SHARED memory (threads) is allocated up to its maximum and never moves, but its length changes:
// after every successful growth - by the guest or through the host API - memory.size, every access into the new pages,
// and every access just beyond them must agree on both engines with the specification (sizes, traps, values).
func sharedGrowDiff() {
	ctx := context.Background()
	for _, lim := range [][2]uint32{{1, 4}, {0, 3}, {2, 2}} {
		m := wb.New()
		mx := lim[1]
		m.Memory(lim[0], &mx, true, "memory")
		m.AddFunc(wb.Func{Params: []byte{wb.I32}, Results: []byte{wb.I32}, Export: "grow", Body: wb.Cat(wb.LocalGet(0), wb.MemoryGrow())})
		m.AddFunc(wb.Func{Results: []byte{wb.I32}, Export: "size", Body: wb.MemorySize()})
		m.AddFunc(wb.Func{Params: []byte{wb.I32, wb.I32}, Export: "store", Body: wb.Cat(wb.LocalGet(0), wb.LocalGet(1), wb.MemArg(wasm.OpcodeI32Store, 2, 0))})
		m.AddFunc(wb.Func{Params: []byte{wb.I32}, Results: []byte{wb.I32}, Export: "load", Body: wb.Cat(wb.LocalGet(0), wb.MemArg(wasm.OpcodeI32Load, 2, 0))})
		m.AddFunc(wb.Func{Params: []byte{wb.I32, wb.I32}, Results: []byte{wb.I32}, Export: "grow_store_load", Body: wb.Cat(
			wb.LocalGet(0), wb.MemoryGrow(), wb.Op(wasm.OpcodeDrop), wb.LocalGet(1), wb.I32Const(0x5eed), wb.MemArg(wasm.OpcodeI32Store, 2, 0), wb.LocalGet(1), wb.MemArg(wasm.OpcodeI32Load, 2, 0), wb.MemorySize(), wb.Op(wasm.OpcodeI32Add))})
		bin := m.Bytes()
		type step struct {
			fn   string
			args []uint64
			host bool // api.Memory.Grow(args[0]) instead of a guest call
		}
		pg := func(p uint32) uint64 { return uint64(p) * 65536 }
		hist := []step{{"size", nil, false}, {"load", []uint64{pg(lim[0])}, false}, {"grow", []uint64{1}, false}, {"size", nil, false},
			{"store", []uint64{pg(lim[0]+1) - 4, 0xabcdef}, false}, {"load", []uint64{pg(lim[0]+1) - 4}, false}, {"load", []uint64{pg(lim[0]+1) - 3}, false},
			{"", []uint64{1}, true}, {"size", nil, false}, {"load", []uint64{pg(lim[0]+2) - 4}, false}, {"grow_store_load", []uint64{1, pg(lim[0]+3) - 8}, false},
			{"size", nil, false}, {"grow", []uint64{70000}, false}, {"size", nil, false}, {"load", []uint64{0}, false}}
		var obs [2][]string
		for ei, rc := range []wazero.RuntimeConfig{wazero.NewRuntimeConfigInterpreter(), wazero.NewRuntimeConfigCompiler()} {
			rt := wazero.NewRuntimeWithConfig(ctx, rc.WithCoreFeatures(features))
			mod, err := safeInstantiate(ctx, rt, bin)
			if err != nil {
				rep.Note("shared grow differential skipped: %v", err)
				rt.Close(ctx)
				return
			}
			for _, st := range hist {
				if st.host {
					prev, ok := mod.Memory().Grow(uint32(st.args[0]))
					obs[ei] = append(obs[ei], fmt.Sprintf("host-grow(%d)=%d,%v size=%d", st.args[0], prev, ok, mod.Memory().Size()))
					continue
				}
				res, err := mod.ExportedFunction(st.fn).Call(ctx, st.args...)
				switch {
				case err != nil:
					obs[ei] = append(obs[ei], fmt.Sprintf("%s%v=%s", st.fn, st.args, trapClass(err)))
				case len(res) > 0:
					obs[ei] = append(obs[ei], fmt.Sprintf("%s%v=%d", st.fn, st.args, uint32(res[0])))
				default:
					obs[ei] = append(obs[ei], fmt.Sprintf("%s%v", st.fn, st.args))
				}
			}
			obs[ei] = append(obs[ei], fmt.Sprintf("final host size=%d", mod.Memory().Size()))
			rt.Close(ctx)
		}
		rep.Case(fmt.Sprintf("shared-grow/%d/%d", lim[0], lim[1]))
		for k := range obs[0] {
			if obs[0][k] != obs[1][k] {
				rep.Violate(hx.Violation{Kind: "impl-violation", Signature: "C01:engines-differ:shared-memory-after-growth",
					What:     fmt.Sprintf("(memory %d %d shared): step %d of the history: interpreter %q, compiler %q", lim[0], lim[1], k, obs[0][k], obs[1][k]),
					Input:    map[string]any{"memory": fmt.Sprintf("(memory %d %d shared)", lim[0], lim[1]), "history": fmt.Sprint(hist), "interpreter": obs[0], "compiler": obs[1]},
					Expected: obs[0][k], Actual: obs[1][k]})
				break
			}
		}
	}
}
