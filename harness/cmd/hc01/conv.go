package main

import "math"

func f32FromInt(v int32) uint32 { return math.Float32bits(float32(v)) }
func f64FromInt(v int32) uint64 { return math.Float64bits(float64(v)) }
