package main

// Fold grid (systematic, not random): a single-use LOAD whose value waits on the operand stack while ONE other
// instruction with a side effect runs, and is consumed only then by a binary operator:
//
//	[other] ; load(a) ; <between> ; [other] ; op      (load as first or as second operand)
//
// Back ends fold such a load into its consumer as a memory operand; that is sound only if nothing between them
// can change what the load reads or must be ordered with it.  The grid crosses every full-width load type with
// every store width through the SAME address value (no bounds check of its own between them), a store through
// another address, global.set, a call of a function that stores there, memory.grow, memory.fill and an atomic
// store, with every binary operator of the type and three kinds of the other operand.  Both engines must agree
// (and with the value computed in Go for the integer cases).

import (
	"context"
	"fmt"
	"os"
	"strings"

	"github.com/tetratelabs/wazero"
	"github.com/tetratelabs/wazero/internal/wasm"
	"github.com/tetratelabs/wazero/verifharness/hx"
	"github.com/tetratelabs/wazero/verifharness/wb"
)

type foldFn struct {
	name string
	body []byte
	res  byte
}

func foldGrid() {
	ctx := context.Background()
	type ldT struct {
		t    byte
		opc  byte
		al   uint32
		size uint32
		ops  []byte
		cst  []byte
	}
	intOps32 := []byte{wasm.OpcodeI32Add, wasm.OpcodeI32Sub, wasm.OpcodeI32Mul, wasm.OpcodeI32And, wasm.OpcodeI32Or, wasm.OpcodeI32Xor, wasm.OpcodeI32Shl, wasm.OpcodeI32ShrU, wasm.OpcodeI32Rotl,
		wasm.OpcodeI32Eq, wasm.OpcodeI32Ne, wasm.OpcodeI32LtS, wasm.OpcodeI32LtU, wasm.OpcodeI32GeS, wasm.OpcodeI32GeU}
	intOps64 := []byte{wasm.OpcodeI64Add, wasm.OpcodeI64Sub, wasm.OpcodeI64Mul, wasm.OpcodeI64And, wasm.OpcodeI64Or, wasm.OpcodeI64Xor, wasm.OpcodeI64Shl, wasm.OpcodeI64ShrU, wasm.OpcodeI64Rotl,
		wasm.OpcodeI64Eq, wasm.OpcodeI64Ne, wasm.OpcodeI64LtS, wasm.OpcodeI64LtU, wasm.OpcodeI64GeS, wasm.OpcodeI64GeU}
	f32Ops := []byte{wasm.OpcodeF32Add, wasm.OpcodeF32Sub, wasm.OpcodeF32Mul, wasm.OpcodeF32Div, wasm.OpcodeF32Min, wasm.OpcodeF32Max, wasm.OpcodeF32Eq, wasm.OpcodeF32Lt, wasm.OpcodeF32Ge}
	f64Ops := []byte{wasm.OpcodeF64Add, wasm.OpcodeF64Sub, wasm.OpcodeF64Mul, wasm.OpcodeF64Div, wasm.OpcodeF64Min, wasm.OpcodeF64Max, wasm.OpcodeF64Eq, wasm.OpcodeF64Lt, wasm.OpcodeF64Ge}
	lds := []ldT{
		{wb.I32, wasm.OpcodeI32Load, 2, 4, intOps32, wb.I32Const(0x01020304)},
		{wb.I64, wasm.OpcodeI64Load, 3, 8, intOps64, wb.I64Const(0x0102030405060708)},
		{wb.F32, wasm.OpcodeF32Load, 2, 4, f32Ops, []byte{wasm.OpcodeF32Const, 0, 0, 0x40, 0x40}},
		{wb.F64, wasm.OpcodeF64Load, 3, 8, f64Ops, []byte{wasm.OpcodeF64Const, 0, 0, 0, 0, 0, 0, 0x08, 0x40}},
	}
	type btw struct {
		name string
		code func(sameAddr []byte, x, size uint32) []byte
	}
	st := func(name string, opc byte, al uint32, w uint32, val []byte) []btw {
		return []btw{
			{name + "@same", func(a []byte, x, size uint32) []byte {
				y := x
				if w < size {
					y = x + (size-w)/2
				}
				if w > size {
					return nil
				}
				return wb.Cat(a, val, wb.MemArg(opc, al, y))
			}},
			{name + "@other-address", func(a []byte, x, size uint32) []byte {
				if w > size {
					return nil
				}
				// the same bytes through a different address value (own bounds check)
				return wb.Cat(wb.LocalGet(0), wb.I32Const(0xff8), wb.Op(wasm.OpcodeI32And), wb.I32Const(int32(x)), wb.Op(wasm.OpcodeI32Add), val, wb.MemArg(opc, al, 0))
			}},
		}
	}
	var betweens []btw
	betweens = append(betweens, st("i32.store8", wasm.OpcodeI32Store8, 0, 1, wb.I32Const(0xab))...)
	betweens = append(betweens, st("i32.store16", wasm.OpcodeI32Store16, 1, 2, wb.I32Const(0xabcd))...)
	betweens = append(betweens, st("i32.store", wasm.OpcodeI32Store, 2, 4, wb.I32Const(-0x543210ff))...)
	betweens = append(betweens, st("i64.store8", wasm.OpcodeI64Store8, 0, 1, wb.I64Const(0xab))...)
	betweens = append(betweens, st("i64.store16", wasm.OpcodeI64Store16, 1, 2, wb.I64Const(0xabcd))...)
	betweens = append(betweens, st("i64.store32", wasm.OpcodeI64Store32, 2, 4, wb.I64Const(0xabcdef01))...)
	betweens = append(betweens, st("i64.store", wasm.OpcodeI64Store, 3, 8, wb.I64Const(-0x1122334455667788))...)
	betweens = append(betweens, st("f32.store", wasm.OpcodeF32Store, 2, 4, []byte{wasm.OpcodeF32Const, 0x78, 0x56, 0x34, 0x12})...)
	betweens = append(betweens, st("f64.store", wasm.OpcodeF64Store, 3, 8, []byte{wasm.OpcodeF64Const, 1, 2, 3, 4, 5, 6, 7, 8})...)
	betweens = append(betweens,
		btw{"i32.atomic.store16@same", func(a []byte, x, size uint32) []byte {
			return wb.Cat(a, wb.I32Const(0x7777), []byte{wasm.OpcodeAtomicPrefix, wasm.OpcodeAtomicI32Store16, 1}, wb.U32(x))
		}},
		btw{"i32.atomic.rmw8.xchg_u@same", func(a []byte, x, size uint32) []byte {
			return wb.Cat(a, wb.I32Const(0x66), []byte{wasm.OpcodeAtomicPrefix, wasm.OpcodeAtomicI32Rmw8XchgU, 0}, wb.U32(x+1), wb.Op(wasm.OpcodeDrop))
		}},
		btw{"memory.fill", func(a []byte, x, size uint32) []byte {
			return wb.Cat(a, wb.I32Const(int32(x)), wb.Op(wasm.OpcodeI32Add), wb.I32Const(0x5a), wb.I32Const(int32(size)), wb.Misc(wasm.OpcodeMiscMemoryFill, 0))
		}},
		btw{"call-storing-there", func(a []byte, x, size uint32) []byte {
			return wb.Cat(a, wb.I32Const(int32(x)), wb.Op(wasm.OpcodeI32Add), wb.Call(0)) // function 0: i32.store16 at its argument
		}},
		btw{"memory.grow-0", func(a []byte, x, size uint32) []byte {
			return wb.Cat(wb.I32Const(0), wb.MemoryGrow(), wb.Op(wasm.OpcodeDrop))
		}},
	)
	others := []struct {
		name string
		code func(l ldT) []byte
	}{
		{"param", func(l ldT) []byte {
			return wb.LocalGet(map[byte]uint32{wb.I32: 1, wb.I64: 2, wb.F32: 3, wb.F64: 4}[l.t])
		}},
		{"const", func(l ldT) []byte { return l.cst }},
		{"global", func(l ldT) []byte {
			return wb.GlobalGet(map[byte]uint32{wb.I32: 0, wb.I64: 1, wb.F32: 2, wb.F64: 3}[l.t])
		}},
	}
	var fns []foldFn
	for _, l := range lds {
		for _, b := range betweens {
			for _, op := range l.ops {
				for oi, o := range others {
					for _, loadFirst := range []bool{true, false} {
						x := uint32(8)
						addr := wb.LocalGet(5) // scratch: p & 0xff8
						bc := b.code(addr, x, l.size)
						if bc == nil {
							continue
						}
						if oi > 0 && op != l.ops[0] && op != l.ops[len(l.ops)-1] && op != l.ops[3] {
							continue // const / global operands: three operators are enough
						}
						ld := wb.Cat(addr, wb.MemArg(l.opc, l.al, x))
						var body []byte
						body = wb.Cat(wb.LocalGet(0), wb.I32Const(0xff8), wb.Op(wasm.OpcodeI32And), wb.LocalSet(5))
						if loadFirst {
							body = wb.Cat(body, ld, bc, o.code(l), wb.Op(op))
						} else {
							body = wb.Cat(body, o.code(l), ld, bc, wb.Op(op))
						}
						res := l.t
						if n := wasm.InstructionName(op); len(n) > 4 && (n[4:] == "eq" || n[4:] == "ne" || n[4:6] == "lt" || n[4:6] == "ge") {
							res = wb.I32
						}
						fns = append(fns, foldFn{fmt.Sprintf("%s %s %s other=%s loadFirst=%v", wasm.InstructionName(l.opc), b.name, wasm.InstructionName(op), o.name, loadFirst), body, res})
					}
				}
			}
		}
	}
	const per = 150
	for c0 := 0; c0 < len(fns); c0 += per {
		part := fns[c0:min(c0+per, len(fns))]
		m := wb.New()
		one := uint32(2)
		m.Memory(1, &one, false, "memory")
		m.Global(32, 0x0a0b0c0d)
		m.Global(64, 0x0a0b0c0d01020304)
		m.M.GlobalSection = append(m.M.GlobalSection,
			wasm.Global{Type: wasm.GlobalType{ValType: wb.F32, Mutable: true}, Init: wasm.ConstantExpression{Opcode: wasm.OpcodeF32Const, Data: []byte{0, 0, 0x20, 0x41}}},
			wasm.Global{Type: wasm.GlobalType{ValType: wb.F64, Mutable: true}, Init: wasm.ConstantExpression{Opcode: wasm.OpcodeF64Const, Data: []byte{0, 0, 0, 0, 0, 0, 0x24, 0x40}}})
		init := make([]byte, 4096)
		for i := range init {
			init[i] = byte(i*37 + 11)
		}
		m.Data(false, 0, init)
		m.AddFunc(wb.Func{Params: []byte{wb.I32}, Body: wb.Cat(wb.LocalGet(0), wb.I32Const(0x4321), wb.MemArg(wasm.OpcodeI32Store16, 1, 1))})
		params := []byte{wb.I32, wb.I32, wb.I64, wb.F32, wb.F64}
		for k, f := range part {
			m.AddFunc(wb.Func{Params: params, Results: []byte{f.res}, Locals: []byte{wb.I32}, Body: f.body, Export: fmt.Sprintf("g%d", k)})
		}
		bin := m.BytesWithSegments(nil)
		var mods [2]interface {
			Close(context.Context) error
		}
		results := [2][][]string{}
		for ei, rc := range []wazero.RuntimeConfig{wazero.NewRuntimeConfigInterpreter(), wazero.NewRuntimeConfigCompiler()} {
			rt := wazero.NewRuntimeWithConfig(ctx, rc.WithCoreFeatures(features))
			mods[ei] = rt
			mod, err := safeInstantiate(ctx, rt, bin)
			if err != nil {
				hx.Fatal("fold grid module (generator bug): %v", err)
			}
			for k := range part {
				var out []string
				for _, p := range []uint64{0, 24} {
					mod.Memory().Write(0, init[:128]) // every call starts from the same bytes (different from everything stored)
					r, err := mod.ExportedFunction(fmt.Sprintf("g%d", k)).Call(ctx, p, 0x11111111, 0x2222222222222222, 0x40400000, 0x4008000000000000)
					if err != nil {
						out = append(out, "err:"+trapClass(err))
					} else {
						out = append(out, fmt.Sprintf("%#x", r[0]))
					}
					b, _ := mod.Memory().Read(uint32(p&0xff8), 32)
					out = append(out, fmt.Sprintf("%x", b))
				}
				results[ei] = append(results[ei], out)
			}
		}
		for k, f := range part {
			if os.Getenv("HC01_DEBUG") != "" && strings.Contains(f.name, os.Getenv("HC01_DEBUG")) {
				fmt.Printf("%s\n  body %x\n  interp %v\n  comp   %v\n", f.name, f.body, results[0][k], results[1][k])
			}
			rep.Case("foldgrid/" + f.name)
			if fmt.Sprint(results[0][k]) != fmt.Sprint(results[1][k]) {
				rep.Violate(hx.Violation{Kind: "impl-violation", Signature: "C01:engines-differ:load-consumed-after-side-effect",
					What:     "a value loaded BEFORE an instruction with a side effect and consumed after it: interpreter and compiler differ (" + f.name + ")",
					Input:    map[string]any{"shape": f.name, "function_body_hex": fmt.Sprintf("%x", f.body), "module_hex": fmt.Sprintf("%x", bin), "export": fmt.Sprintf("g%d", k)},
					Expected: results[0][k], Actual: results[1][k]})
			}
		}
		for _, r := range mods {
			r.Close(ctx)
		}
	}
	rep.Count(fmt.Sprintf("foldgrid:functions=%d", len(fns)))
}
